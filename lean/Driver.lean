import PEval.Driver.All
/-!
JSON-lines model driver: one request per line on stdin, one response per line on stdout.
`{"prop": "C04", "id": n, "op": ..., ...}` → `{"id": n, ...}`.
Run with `lake env lean --run Driver.lean`.
-/
open Lean PEval.Driver

partial def loop (h : IO.FS.Stream) (out : IO.FS.Stream) : IO Unit := do
  let line ← h.getLine
  if line.isEmpty then return ()
  let resp : Json :=
    match Json.parse line with
    | .ok j =>
      let r := dispatch j
      match j.getObjVal? "id" with
      | .ok i => r.setObjVal! "id" i
      | .error _ => r
    | .error e => errJson s!"parse: {e}"
  out.putStrLn resp.compress
  loop h out

def main : IO Unit := do
  let out ← IO.getStdout
  loop (← IO.getStdin) out
  out.flush
