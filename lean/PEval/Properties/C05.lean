import PEval.Lemmas.ClearSwitch
import PEval.Lemmas.ClearArith
import PEval.Lemmas.ClearSum
import PEval.Lemmas.ClearDT
import PEval.Lemmas.ClearDTHist
import PEval.Gen.ClearDT
import PEval.Lemmas.ClearPipeline
/-!
# C05 — CLEAR tracking scores follow their definitions for every history

Model: `PEval/Model/Clear.lean` (`clear` = the accumulation of `CLEAR.__init__`, `evalClear` = `CLEAR.results`,
`sumClear` = `TrackingMetricsScore._sum_clear`). Vocabulary of the statements: `PEval/Lemmas/ClearSpec.lean`
(`events` = every result after the initial frame with the frame before it; `evaluated`; `conflict` / `samePair`;
`outcome` and the `counts…` predicates; `bookedScore`; `Perfect`; renamings).

Every theorem is over ALL histories (lists of frames of any length, any ids, labels, scores, thresholds, both
matching directions); the proofs go by induction over the frame list / the event list.
Carry-over convention (DESIGN B1): a result with the pairing of a previous-frame TP is booked as TP with the
PREVIOUS result's TP value and matching score; it is explicit in `outcome`/`bookedScore` and in `motp_mean`.
-/

namespace PEval.C05
open PEval.Clear Function

/-! ## accounting: every evaluated result is counted exactly once -/

/-- One result: if its key label is a target label it adds exactly (tp,fp) = (1,0) or (0,1); otherwise it adds nothing.
(unit TP weights = `TPMetricsAp`) -/
theorem each_result_once (cfg : Cfg) (prev : List Res) (c : Res) (hc : c.w = 1) (hp : ∀ p ∈ prev, p.w = 1) :
    (evaluated cfg c = true →
      ((resStep cfg prev c).tp = 1 ∧ (resStep cfg prev c).fp = 0) ∨
      ((resStep cfg prev c).tp = 0 ∧ (resStep cfg prev c).fp = 1)) ∧
    (evaluated cfg c = false → resStep cfg prev c = Acc.zero) := by
  have hx := counts_exclusive cfg prev c
  rw [resStep_tp_unit cfg prev c hc hp, resStep_fp]
  constructor
  · intro he
    rw [he] at hx
    by_cases h1 : countsTp cfg prev c = true <;> by_cases h2 : countsFp cfg prev c = true <;> simp_all
  · intro he
    rw [resStep_eq_outcome, (outcome_skipped_iff cfg prev c).mpr he]
    rfl

/-- tp + fp = number of results of the evaluated label(s) in the frames after the initial one. -/
theorem tp_fp_count (cfg : Cfg) (hist : List (List Res)) (hu : UnitWeights hist) :
    (clear cfg hist).tp + ((clear cfg hist).fp : Rat)
      = (((events hist).countP (fun e => evaluated cfg e.2) : Nat) : Rat) := by
  rw [clear_eq_total, total_tp_unit cfg _ (unitEvents_of_unitWeights hu), total_fp, ← counts_sum]
  grind

/-- the split: tp counts the results booked TP (by carry-over or own test), fp those booked FP; no result is both,
every evaluated result is one of them. `predict_num` counts all results after the initial frame. -/
theorem tp_fp_split (cfg : Cfg) (hist : List (List Res)) (hu : UnitWeights hist) :
    (clear cfg hist).tp = (((events hist).countP (fun e => countsTp cfg e.1 e.2) : Nat) : Rat) ∧
    (clear cfg hist).fp = (events hist).countP (fun e => countsFp cfg e.1 e.2) ∧
    (∀ prev c, ¬ (countsTp cfg prev c = true ∧ countsFp cfg prev c = true)) ∧
    (∀ prev c, evaluated cfg c = true → (countsTp cfg prev c = true ∨ countsFp cfg prev c = true)) ∧
    predictNum hist = (events hist).length := by
  refine ⟨?_, ?_, ?_, ?_, ?_⟩
  · rw [clear_eq_total, total_tp_unit cfg _ (unitEvents_of_unitWeights hu)]
  · rw [clear_eq_total, total_fp]
  · intro prev c h
    have := counts_exclusive cfg prev c
    cases hev : evaluated cfg c <;> simp [hev, h.1, h.2] at this
  · intro prev c he
    have := counts_exclusive cfg prev c
    rw [he] at this
    by_cases h1 : countsTp cfg prev c = true
    · exact Or.inl h1
    · by_cases h2 : countsFp cfg prev c = true
      · exact Or.inr h2
      · simp [h1, h2] at this
  · rw [predictNum_eq, events_length]

/-! ## id switches -/

/-- a switch is booked only together with a TP: IDsw ≤ TP -/
theorem switch_le_tp (cfg : Cfg) (hist : List (List Res)) (hu : UnitWeights hist) :
    ((clear cfg hist).sw : Rat) ≤ (clear cfg hist).tp := by
  rw [clear_eq_total, total_tp_unit cfg _ (unitEvents_of_unitWeights hu), total_sw]
  have := switch_le_counts cfg (events hist)
  exact_mod_cast this

/-- the switch total is the number of results with which a switch is booked (once each), and a switch is booked with
`c` iff `c` is evaluated with threshold `t`, passes its own TP test, and the FIRST previous-frame TP that either
conflicts with or has the pairing of `c` is a conflicting one -/
theorem switch_count_def (cfg : Cfg) (hist : List (List Res)) :
    (clear cfg hist).sw = (events hist).countP (fun e => countsSwitch cfg e.1 e.2) ∧
    ∀ prev c, countsSwitch cfg prev c = true ↔
      ∃ t, labelThreshold cfg (keyLabel c) = some t ∧ isTp cfg t c = true ∧
        ∃ pre p post, prev = pre ++ p :: post ∧ isTp cfg t p = true ∧ conflict c p = true ∧
          ∀ q ∈ pre, isTp cfg t q = true → conflict c q = false ∧ samePair c q = false := by
  constructor
  · rw [clear_eq_total, total_sw]
  · intro prev c
    unfold countsSwitch outcome
    cases ht : labelThreshold cfg (keyLabel c) with
    | none => simp
    | some t =>
      simp only [Option.some.injEq, exists_eq_left']
      have key := scan_switched_iff cfg t c prev
      simp only [isIdSwitched_eq_conflict, isSameMatch_eq_samePair] at key
      cases hs : scan cfg t c prev with
      | nothing =>
        rw [hs] at key
        simp only
        constructor
        · intro h; cases hc : isTp cfg t c <;> simp [hc] at h
        · intro ⟨_, h⟩; exact absurd (key.mpr h) (by simp)
      | same q =>
        rw [hs] at key
        simp only
        constructor
        · intro h; cases h
        · intro ⟨_, h⟩; exact absurd (key.mpr h) (by simp)
      | switched =>
        rw [hs] at key
        simp only
        constructor
        · intro h
          cases hc : isTp cfg t c with
          | false => simp [hc] at h
          | true => exact ⟨rfl, key.mp rfl⟩
        · intro ⟨hc, _⟩; simp [hc]

/-- THE PROPERTY'S READING, order-free: when every previous frame pairs estimated and ground-truth tracks one-to-one
(among its TPs), a switch is counted exactly once for each TP whose pairing differs from the pairing a TP had in the
previous frame — no matter in which order the previous frame is scanned. -/
theorem switch_once_per_tp (cfg : Cfg) (hist : List (List Res)) (h11 : PrevOneToOne cfg hist) :
    (clear cfg hist).sw = (events hist).countP (fun e => switchedTp cfg e.1 e.2) := by
  rw [clear_eq_total, total_sw]
  apply List.countP_congr
  intro e he
  have h1 := events_prev_oneToOne cfg hist h11 e he
  rw [countsSwitch_eq_switchedTp cfg e.1 e.2 (fun t ht => by
    obtain ⟨lt, hm, rfl⟩ := labelThreshold_mem ht
    exact h1 lt hm)]

/-! ## the scores -/

/-- MOTA = max(0, (TP − FP − IDsw) / G); undefined (`inf` in the code) exactly when there is no ground truth -/
theorem mota_def (cfg : Cfg) (g : Nat) (hist : List (List Res)) :
    (g = 0 → (evalClear cfg g hist).mota = none) ∧
    (g ≠ 0 → (evalClear cfg g hist).mota =
      some (max 0 (((clear cfg hist).tp - ((clear cfg hist).fp : Rat) - ((clear cfg hist).sw : Rat)) / (g : Rat)))) := by
  unfold evalClear mota
  constructor <;> intro h <;> simp [h]

theorem mota_nonneg (cfg : Cfg) (g : Nat) (hist : List (List Res)) (m : Rat)
    (h : (evalClear cfg g hist).mota = some m) : 0 ≤ m :=
  mota_nonneg' g (clear cfg hist) m h

/-- MOTA ≤ 1 as soon as no more TPs are counted than there are ground truths -/
theorem mota_le_one (cfg : Cfg) (g : Nat) (hist : List (List Res)) (m : Rat)
    (h : (evalClear cfg g hist).mota = some m) (htp : (clear cfg hist).tp ≤ (g : Rat)) : m ≤ 1 :=
  mota_le_one' g (clear cfg hist) m h htp

/-- MOTP = tp_matching_score / TP; undefined (`inf`) exactly when TP = 0 -/
theorem motp_def (cfg : Cfg) (g : Nat) (hist : List (List Res)) :
    ((clear cfg hist).tp = 0 → (evalClear cfg g hist).motp = none) ∧
    ((clear cfg hist).tp ≠ 0 → (evalClear cfg g hist).motp = some ((clear cfg hist).score / (clear cfg hist).tp)) := by
  unfold evalClear motp
  constructor <;> intro h <;> simp [h]

/-- MOTP is the MEAN of the matching scores booked for the TPs, with the carry-over convention explicit in
`bookedScore`: a result that keeps the pairing of a previous-frame TP is booked with the PREVIOUS result's score. -/
theorem motp_mean (cfg : Cfg) (g : Nat) (hist : List (List Res)) (hu : UnitWeights hist) :
    let booked := (events hist).filterMap (fun e => bookedScore cfg e.1 e.2)
    (clear cfg hist).score = ratSum booked ∧ (clear cfg hist).tp = (booked.length : Rat) ∧
    (booked.length ≠ 0 → (evalClear cfg g hist).motp = some (ratSum booked / (booked.length : Rat))) := by
  intro booked
  have h1 : (clear cfg hist).score = ratSum booked := by rw [clear_eq_total, total_score]
  have h2 : (clear cfg hist).tp = (booked.length : Rat) := by
    rw [clear_eq_total, total_tp_unit cfg _ (unitEvents_of_unitWeights hu), booked_length]
  refine ⟨h1, h2, ?_⟩
  intro hne
  have : (clear cfg hist).tp ≠ 0 := by
    rw [h2]; exact_mod_cast hne
  rw [(motp_def cfg g hist).2 this, h1, h2]

/-! ## renaming invariance -/

/-- any injective renaming of the estimate ids and any injective renaming of the ground-truth ids leaves every
accumulated number unchanged -/
theorem rename_invariant (cfg : Cfg) (f g : Nat → Nat) (hf : Injective f) (hg : Injective g) (hist : List (List Res)) :
    clear cfg (renameHist f g hist) = clear cfg hist :=
  clear_rename hf hg cfg hist

/-- … and hence every output: `CLEAR.results` per label and the totals of `_sum_clear` -/
theorem rename_invariant_scores (f g : Nat → Nat) (hf : Injective f) (hg : Injective g) :
    (∀ cfg n hist, evalClear cfg n (renameHist f g hist) = evalClear cfg n hist) ∧
    (∀ mx (ls : List LabelInput),
      trackingScore mx (ls.map (fun l => { l with hist := renameHist f g l.hist })) = trackingScore mx ls) := by
  have h1 : ∀ cfg n hist, evalClear cfg n (renameHist f g hist) = evalClear cfg n hist := by
    intro cfg n hist
    unfold evalClear
    rw [clear_rename hf hg, predictNum_eq, predictNum_eq, resultCount_rename]
  refine ⟨h1, ?_⟩
  intro mx ls
  unfold trackingScore trackingClears
  simp only [List.map_map]
  have : (ls.map ((fun l : LabelInput => evalClear ⟨mx, [(l.label, l.thr)]⟩ l.g l.hist) ∘
      (fun l : LabelInput => { l with hist := renameHist f g l.hist }))) =
      ls.map (fun l => evalClear ⟨mx, [(l.label, l.thr)]⟩ l.g l.hist) := by
    apply List.map_congr_left
    intro l _
    simp only [Function.comp]
    exact h1 _ _ _
  rw [this]

/-! ## the three scenario families -/

/-- a perfect tracker (constant one-to-one pairing, every result TP, ground-truth number = number of tracked
results) has no switch, no FP, and MOTA = 1 -/
theorem perfect_tracker (cfg : Cfg) (hist : List (List Res)) (g : Nat) (hP : Perfect cfg hist)
    (hg : g = resultCount hist) (hpos : g ≠ 0) :
    (clear cfg hist).sw = 0 ∧ (clear cfg hist).fp = 0 ∧ (clear cfg hist).tp = (g : Rat) ∧
    (evalClear cfg g hist).mota = some 1 := by
  obtain ⟨h1, h2, h3⟩ := perfect_totals cfg hist hP
  refine ⟨h3, h2, by rw [h1, hg], ?_⟩
  have := mota_of_counts g 0 (clear cfg hist) (by rw [h1, hg]) h2 h3 (Nat.zero_le _) hpos
  simp only [Nat.cast_zero, zero_div, sub_zero] at this
  exact this

/-- a NEW id on a continuing target costs exactly one switch: take a perfect history, and from frame `cur` on replace
the estimate id `a` by an id `b` that is not used from there on; if exactly one result of `cur` carries `a` and its
target was tracked in the previous frame, then exactly one switch is counted, TP and FP are unchanged, and
MOTA drops from 1 to 1 − 1/G -/
theorem new_id_costs_one (cfg : Cfg) (pre : List (List Res)) (prev cur : List Res) (rest : List (List Res))
    (a b g : Nat)
    (hP : Perfect cfg (pre ++ prev :: cur :: rest))
    (hg : g = resultCount (pre ++ prev :: cur :: rest))
    (hfresh : ∀ f ∈ cur :: rest, ∀ r ∈ f, r.est ≠ b)
    (hone : cur.countP (fun c => c.est == a) = 1)
    (hcont : ∀ c ∈ cur, c.est = a → ∃ p ∈ prev, sameGt c p = true) :
    (clear cfg (pre ++ prev :: renameHist (replaceId a b) id (cur :: rest))).sw = 1 ∧
    (clear cfg (pre ++ prev :: renameHist (replaceId a b) id (cur :: rest))).fp = 0 ∧
    (clear cfg (pre ++ prev :: renameHist (replaceId a b) id (cur :: rest))).tp = (g : Rat) ∧
    (evalClear cfg g (pre ++ prev :: renameHist (replaceId a b) id (cur :: rest))).mota = some (1 - 1 / (g : Rat)) := by
  have hab : a ≠ b := by
    intro hab
    have : 0 < cur.countP (fun c => c.est == a) := by omega
    obtain ⟨c, hc, hca⟩ := List.countP_pos_iff.mp this
    exact hfresh cur (by simp) c hc (by rw [← hab]; simpa using hca)
  have hrw : renameHist (replaceId a b) id (cur :: rest) = renameHist (swapId a b) id (cur :: rest) :=
    renameHist_congr _ _ _ _ (fun f hf r hr => replaceId_eq_swapId a b r.est (hfresh f hf r hr))
  rw [hrw]
  have hc' : ∀ c ∈ cur, swapId a b c.est ≠ c.est → ∃ p ∈ prev, sameGt c p = true := by
    intro c hc hne
    rcases (swapId_ne_iff a b c.est hab).mp hne with h | h
    · exact hcont c hc h
    · exact absurd h (hfresh cur (by simp) c hc)
  obtain ⟨h1, h2, h3⟩ := relabel_totals cfg pre prev cur rest (swapId a b) (swapId_injective a b) hP hc'
  have hcount : cur.countP (fun c => decide (swapId a b c.est ≠ c.est)) = 1 := by
    rw [← hone]
    apply List.countP_congr
    intro c hc
    have hb := hfresh cur (by simp) c hc
    simp only [decide_eq_true_eq, beq_iff_eq]
    rw [swapId_ne_iff a b c.est hab]
    constructor
    · rintro (h | h)
      · exact h
      · exact absurd h hb
    · exact Or.inl
  rw [hcount] at h3
  have hge : 1 ≤ g := by
    rw [hg, resultCount_split]
    have := List.countP_le_length (p := fun c => c.est == a) (l := cur)
    omega
  refine ⟨h3, h2, by rw [h1, hg], ?_⟩
  have := mota_of_counts g 1 _ (by rw [h1, hg]) h2 h3 hge (by omega)
  show mota g (clear cfg _) = some _
  simpa using this

/-- EXCHANGING two track identities mid-sequence costs exactly two switches: take a perfect history, and from frame
`cur` on exchange the estimate ids `a ≠ b`; if exactly one result of `cur` carries `a`, exactly one carries `b`, and
both targets were tracked in the previous frame, then exactly two switches are counted, TP and FP are unchanged,
and MOTA drops from 1 to 1 − 2/G -/
theorem swap_costs_two (cfg : Cfg) (pre : List (List Res)) (prev cur : List Res) (rest : List (List Res))
    (a b g : Nat) (hab : a ≠ b)
    (hP : Perfect cfg (pre ++ prev :: cur :: rest))
    (hg : g = resultCount (pre ++ prev :: cur :: rest))
    (hone_a : cur.countP (fun c => c.est == a) = 1)
    (hone_b : cur.countP (fun c => c.est == b) = 1)
    (hcont : ∀ c ∈ cur, (c.est = a ∨ c.est = b) → ∃ p ∈ prev, sameGt c p = true) :
    (clear cfg (pre ++ prev :: renameHist (swapId a b) id (cur :: rest))).sw = 2 ∧
    (clear cfg (pre ++ prev :: renameHist (swapId a b) id (cur :: rest))).fp = 0 ∧
    (clear cfg (pre ++ prev :: renameHist (swapId a b) id (cur :: rest))).tp = (g : Rat) ∧
    (evalClear cfg g (pre ++ prev :: renameHist (swapId a b) id (cur :: rest))).mota = some (1 - 2 / (g : Rat)) := by
  have hc' : ∀ c ∈ cur, swapId a b c.est ≠ c.est → ∃ p ∈ prev, sameGt c p = true :=
    fun c hc hne => hcont c hc ((swapId_ne_iff a b c.est hab).mp hne)
  obtain ⟨h1, h2, h3⟩ := relabel_totals cfg pre prev cur rest (swapId a b) (swapId_injective a b) hP hc'
  have hcount : cur.countP (fun c => decide (swapId a b c.est ≠ c.est)) = 2 := by
    have hpt : ∀ c : Res, (if decide (swapId a b c.est ≠ c.est) = true then 1 else 0)
        = (if (c.est == a) = true then 1 else 0) + (if (c.est == b) = true then 1 else 0) := by
      intro c
      have key := swapId_ne_iff a b c.est hab
      by_cases hca : c.est = a
      · have hcb : ¬ c.est = b := fun h => hab (hca.symm.trans h)
        rw [if_pos (decide_eq_true (key.mpr (Or.inl hca))), if_pos (beq_iff_eq.mpr hca),
          if_neg (by rw [beq_iff_eq]; exact hcb)]
      · by_cases hcb : c.est = b
        · rw [if_pos (decide_eq_true (key.mpr (Or.inr hcb))), if_neg (by rw [beq_iff_eq]; exact hca),
            if_pos (beq_iff_eq.mpr hcb)]
        · have hno : ¬ (swapId a b c.est ≠ c.est) := fun h => (key.mp h).elim hca hcb
          rw [if_neg (by rw [decide_eq_true_eq]; exact hno), if_neg (by rw [beq_iff_eq]; exact hca),
            if_neg (by rw [beq_iff_eq]; exact hcb)]
    have hsplit : ∀ l : List Res, l.countP (fun c => decide (swapId a b c.est ≠ c.est))
        = l.countP (fun c => c.est == a) + l.countP (fun c => c.est == b) := by
      intro l
      induction l with
      | nil => simp
      | cons c l ih =>
        simp only [List.countP_cons, ih, hpt c]
        omega
    rw [hsplit, hone_a, hone_b]
  rw [hcount] at h3
  have hge : 2 ≤ g := by
    rw [hg, resultCount_split]
    have hl : cur.countP (fun c => decide (swapId a b c.est ≠ c.est)) ≤ cur.length := List.countP_le_length
    omega
  refine ⟨h3, h2, by rw [h1, hg], ?_⟩
  have := mota_of_counts g 2 _ (by rw [h1, hg]) h2 h3 hge (by omega)
  show mota g (clear cfg _) = some _
  simpa using this

/-! ## totals over labels (`TrackingMetricsScore._sum_clear`) -/

/-- with a single target label the totals are that label's scores -/
theorem sumClear_single (cfg : Cfg) (g : Nat) (hist : List (List Res)) (hu : UnitWeights hist) :
    sumClear [evalClear cfg g hist] =
      ((evalClear cfg g hist).mota, (evalClear cfg g hist).motp, (clear cfg hist).sw) := by
  obtain ⟨n, hn⟩ : ∃ n : Nat, (clear cfg hist).tp = (n : Rat) :=
    ⟨_, (tp_fp_split cfg hist hu).1⟩
  exact sumClear_single' cfg g hist n hn

/-- with several target labels, as long as no label is clamped or without ground truth (G_l > 0, TP_l − FP_l − IDsw_l ≥ 0):
the total MOTA is the POOLED (ΣTP − ΣFP − ΣIDsw) / ΣG — i.e. the ground-truth-weighted mean of the per-label MOTAs —,
the total MOTP is Σ score / Σ TP — the TP-weighted mean of the per-label MOTPs, undefined iff there is no TP —,
and the switches add up -/
theorem sumClear_pooled (mx : Bool) (ls : List LabelInput) (hne : ls ≠ [])
    (hu : ∀ l ∈ ls, UnitWeights l.hist) (hg : ∀ l ∈ ls, l.g ≠ 0)
    (hnum : ∀ l ∈ ls, 0 ≤ (evalClear ⟨mx, [(l.label, l.thr)]⟩ l.g l.hist).num) :
    sumClear (trackingClears mx ls) =
      (some (ratSum ((trackingClears mx ls).map Out.num) / ((((trackingClears mx ls).map (·.g)).sum : Nat) : Rat)),
       (if ratSum ((trackingClears mx ls).map (fun o => o.acc.tp)) = 0 then none
        else some (ratSum ((trackingClears mx ls).map (fun o => o.acc.score)) /
          ratSum ((trackingClears mx ls).map (fun o => o.acc.tp)))),
       ((trackingClears mx ls).map (fun o => o.acc.sw)).sum) := by
  apply sumClear_regular
  · unfold trackingClears
    intro h
    exact hne (List.map_eq_nil_iff.mp h)
  · intro o ho
    unfold trackingClears at ho
    obtain ⟨l, hl, rfl⟩ := List.mem_map.mp ho
    have hsplit := tp_fp_split ⟨mx, [(l.label, l.thr)]⟩ l.hist (hu l hl)
    have hmean := motp_mean ⟨mx, [(l.label, l.thr)]⟩ l.g l.hist (hu l hl)
    refine ⟨hg l hl, hnum l hl, rfl, rfl, ⟨_, hsplit.1⟩, ?_⟩
    intro h0
    show (clear _ l.hist).score = 0
    have h0' : (clear ⟨mx, [(l.label, l.thr)]⟩ l.hist).tp = 0 := h0
    rw [hmean.1]
    rw [hmean.2.1] at h0'
    have hlen : ((events l.hist).filterMap (fun e => bookedScore ⟨mx, [(l.label, l.thr)]⟩ e.1 e.2)).length = 0 := by
      exact_mod_cast h0'
    rw [List.length_eq_zero_iff.mp hlen]
    rfl

/-! ## the hypotheses are satisfiable: concrete non-trivial instances -/

section Examples

def cfgEx : Cfg := ⟨false, [(0, 1)]⟩
/-- estimate `e` (label 0) on ground truth `g` (label 0) at distance `d` -/
def rEx (e g : Nat) (d : Rat) : Res := ⟨e, 0, some ⟨g, 0, false⟩, d, true, 1⟩
/-- three frames after an empty initial one, two targets tracked perfectly -/
def perfectEx : List (List Res) :=
  [[], [rEx 1 1 (1/2), rEx 2 2 (1/4)], [rEx 2 2 (1/4), rEx 1 1 (1/2)], [rEx 1 1 (3/4), rEx 2 2 (1/4)]]

example : UnitWeights perfectEx := by unfold UnitWeights; decide +kernel
example : PrevOneToOne cfgEx perfectEx := by
  refine ⟨?_, ?_, ?_, trivial⟩ <;> (unfold OneToOne; decide +kernel)
example : Perfect cfgEx perfectEx := ⟨by unfold Good; decide +kernel, by decide +kernel⟩
example : resultCount perfectEx = 6 := by decide +kernel
example : (evalClear cfgEx 6 perfectEx).mota = some 1 ∧ (clear cfgEx perfectEx).sw = 0 := by decide +kernel

/-- the hypotheses of `new_id_costs_one`: id 1 replaced by the new id 9 from the third frame on -/
example :
    Perfect cfgEx ([[], [rEx 1 1 (1/2), rEx 2 2 (1/4)]].dropLast ++ [rEx 1 1 (1/2), rEx 2 2 (1/4)] ::
      [rEx 2 2 (1/4), rEx 1 1 (1/2)] :: [[rEx 1 1 (3/4), rEx 2 2 (1/4)]]) ∧
    (∀ f ∈ [rEx 2 2 (1/4), rEx 1 1 (1/2)] :: [[rEx 1 1 (3/4), rEx 2 2 (1/4)]], ∀ r ∈ f, r.est ≠ 9) ∧
    [rEx 2 2 (1/4), rEx 1 1 (1/2)].countP (fun c => c.est == 1) = 1 ∧
    (∀ c ∈ [rEx 2 2 (1/4), rEx 1 1 (1/2)], c.est = 1 → ∃ p ∈ [rEx 1 1 (1/2), rEx 2 2 (1/4)], sameGt c p = true) ∧
    (clear cfgEx ([[]] ++ [rEx 1 1 (1/2), rEx 2 2 (1/4)] ::
      renameHist (replaceId 1 9) id ([rEx 2 2 (1/4), rEx 1 1 (1/2)] :: [[rEx 1 1 (3/4), rEx 2 2 (1/4)]]))).sw = 1 := by
  refine ⟨⟨by unfold Good; decide +kernel, by decide +kernel⟩, by decide +kernel, by decide +kernel, by decide +kernel,
    by decide +kernel⟩

/-- the hypotheses of `swap_costs_two`: ids 1 and 2 exchanged from the third frame on -/
example :
    [rEx 2 2 (1/4), rEx 1 1 (1/2)].countP (fun c => c.est == 1) = 1 ∧
    [rEx 2 2 (1/4), rEx 1 1 (1/2)].countP (fun c => c.est == 2) = 1 ∧
    (∀ c ∈ [rEx 2 2 (1/4), rEx 1 1 (1/2)], (c.est = 1 ∨ c.est = 2) →
      ∃ p ∈ [rEx 1 1 (1/2), rEx 2 2 (1/4)], sameGt c p = true) ∧
    (clear cfgEx ([[]] ++ [rEx 1 1 (1/2), rEx 2 2 (1/4)] ::
      renameHist (swapId 1 2) id ([rEx 2 2 (1/4), rEx 1 1 (1/2)] :: [[rEx 1 1 (3/4), rEx 2 2 (1/4)]]))).sw = 2 := by
  refine ⟨by decide +kernel, by decide +kernel, by decide +kernel, by decide +kernel⟩

/-- the carry-over convention is observable: the second frame's result fails its own test (distance 5 ≥ 1) but keeps
the pairing of a previous TP, so it is booked TP with the previous score 1/2 -/
example : clear cfgEx [[], [rEx 1 1 (1/2)], [rEx 1 1 5]] = ⟨2, 0, 0, 1⟩ := by decide +kernel

/-- the hypotheses of `sumClear_pooled`: two labels, the second with an FP and a switch -/
def labelsEx : List LabelInput :=
  [⟨0, 1, 6, perfectEx⟩, ⟨0, 1, 4, [[], [rEx 1 1 (1/2), rEx 2 2 (1/4)], [rEx 2 1 (1/2), rEx 1 2 3]]⟩]
example : (∀ l ∈ labelsEx, UnitWeights l.hist) ∧ (∀ l ∈ labelsEx, l.g ≠ 0) ∧
    (∀ l ∈ labelsEx, 0 ≤ (evalClear ⟨false, [(l.label, l.thr)]⟩ l.g l.hist).num) ∧
    sumClear (trackingClears false labelsEx) = (some (7/10), some (7/18), 1) := by
  refine ⟨by unfold UnitWeights; decide +kernel, by decide +kernel, by decide +kernel, by decide +kernel⟩

/-- injective renamings exist and act non-trivially -/
example : Injective (swapId 1 2) ∧ swapId 1 2 1 = 2 := ⟨swapId_injective 1 2, by decide⟩

end Examples

/-! ## the CODE's decision tables (regenerated from the source on every run)

`PEval/Gen/ClearDT.lean` holds, for each kernel of `clear.py`, the decision tree obtained by running the REAL function on
stub objects over every assignment of its decision atoms (`harness/dt_clear.py`). Each `…_code_table_eq_model` below is the
per-run obligation: the regenerated tree and the hand-written skeleton of the model agree on EVERY consistent valuation.
It is discharged by kernel evaluation of the agreement check `tableOk` (sound by `table_eq_model`, complete for the finite
space of valuations of the atoms the two trees ask; atoms of different pairs are treated as independent, which only
enlarges the space), so a rewrite of the source that keeps the decisions leaves it provable with no edits, and a rewrite
that changes a decision makes the build fail at that theorem. A table the translator could not express is `none`; the
theorems then say nothing about it and the correspondence run alone ties model and code.
The `…_input` corollaries compose this with the bridges `Model.f input = skeleton (valOf input)` (proved for all inputs
in `PEval/Lemmas/ClearDT.lean`); the `table_…` theorems restate the property for what the code's table says. -/

section DecisionTables
open PEval.ClearDT

/-- `CLEAR._is_id_switched`: table = skeleton -/
theorem isIdSwitched_code_table_eq_model :
    ∀ t, Gen.ClearDT.isIdSwitchedTree = some t → ∀ v : Val, v.consistent → t.eval v = .ok (isIdSwitchedAtoms 0 0 v) := by
  intro t ht v hc
  rw [table_eq_model (gen := Gen.ClearDT.isIdSwitchedTree) (sk := isIdSwitchedSkTree) (by decide +kernel) t ht v hc,
    eval_isIdSwitchedSkTree]

/-- `CLEAR._is_same_match`: table = skeleton -/
theorem isSameMatch_code_table_eq_model :
    ∀ t, Gen.ClearDT.isSameMatchTree = some t → ∀ v : Val, v.consistent → t.eval v = .ok (isSameMatchAtoms 0 0 v) := by
  intro t ht v hc
  rw [table_eq_model (gen := Gen.ClearDT.isSameMatchTree) (sk := isSameMatchSkTree) (by decide +kernel) t ht v hc,
    eval_isSameMatchSkTree]

/-- on every pair of results the code's table answers what the model answers, which is: the pairing changed
(same estimated track XOR same ground-truth track, both with ground truth) resp. the pairing is the same -/
theorem table_pair_predicates (cfg : Cfg) (c p : Res) :
    (∀ t, Gen.ClearDT.isIdSwitchedTree = some t →
      t.eval (valOf cfg [p] [c]) = .ok (isIdSwitched c p) ∧ t.eval (valOf cfg [p] [c]) = .ok (conflict c p)) ∧
    (∀ t, Gen.ClearDT.isSameMatchTree = some t →
      t.eval (valOf cfg [p] [c]) = .ok (isSameMatch c p) ∧ t.eval (valOf cfg [p] [c]) = .ok (samePair c p)) := by
  constructor
  · intro t ht
    have h := isIdSwitched_code_table_eq_model t ht _ (valOf_consistent cfg [p] [c])
    rw [← isIdSwitched_bridge] at h
    exact ⟨h, by rw [h, isIdSwitched_eq_conflict]⟩
  · intro t ht
    have h := isSameMatch_code_table_eq_model t ht _ (valOf_consistent cfg [p] [c])
    rw [← isSameMatch_bridge] at h
    exact ⟨h, by rw [h, isSameMatch_eq_samePair]⟩

/-- what the obligation on a step table says: the table (if the translator produced one) (i) equals the skeleton on every
consistent valuation and (ii) on every input of that shape credits exactly the model's accumulators -/
def StepTableSound (gen : Option (DTree (Except String SOut))) (nc np : Nat) : Prop :=
  ∀ t, gen = some t →
    (∀ v : Val, v.consistent → t.eval v = .ok (enc (stepAtoms nc np v))) ∧
    (∀ (cfg : Cfg) (prev cur : List Res), cur.length = nc → prev.length = np →
      ∃ m, t.eval (valOf cfg prev cur) = .ok (enc m) ∧ interp prev cur m = frameStep cfg prev cur)

/-- `_calculate_tp_fp` on `nc` current and `np` previous results: a table that passes the check is sound -/
theorem step_table_sound {gen : Option (DTree (Except String SOut))} {nc np : Nat}
    (h : tableOk gen (stepSkTree nc np) = true) : StepTableSound gen nc np := by
  intro t ht
  have h1 : ∀ v : Val, v.consistent → t.eval v = .ok (enc (stepAtoms nc np v)) := by
    intro v hc
    rw [table_eq_model h t ht v hc, eval_stepSkTree]
  refine ⟨h1, ?_⟩
  intro cfg prev cur hcl hpl
  refine ⟨stepAtoms nc np (valOf cfg prev cur), h1 _ (valOf_consistent cfg prev cur), ?_⟩
  rw [frameStep_bridge, hcl, hpl]

theorem step_0_1_code_table_eq_model : StepTableSound Gen.ClearDT.stepTree_0_1 0 1 :=
  step_table_sound (by decide +kernel)
theorem step_1_0_code_table_eq_model : StepTableSound Gen.ClearDT.stepTree_1_0 1 0 :=
  step_table_sound (by decide +kernel)
theorem step_1_1_code_table_eq_model : StepTableSound Gen.ClearDT.stepTree_1_1 1 1 :=
  step_table_sound (by decide +kernel)
theorem step_1_2_code_table_eq_model : StepTableSound Gen.ClearDT.stepTree_1_2 1 2 :=
  step_table_sound (by decide +kernel)
theorem step_2_0_code_table_eq_model : StepTableSound Gen.ClearDT.stepTree_2_0 2 0 :=
  step_table_sound (by decide +kernel)
theorem step_2_1_code_table_eq_model : StepTableSound Gen.ClearDT.stepTree_2_1 2 1 :=
  step_table_sound (by decide +kernel)

/-- what every step table that passes the check says, symbolically (no input needed): a current result whose key label has
no threshold is ignored; otherwise exactly one of (one TP weight, one FP) is booked; a switch only together with a TP of
the CURRENT result; the matching score booked is that of the result whose weight is booked (the previous one on a same match) -/
theorem table_symbolic_accounting (v : Val) (j np : Nat) :
    let m := resStepAtoms v j np
    (v.b (.inTargets j (v.b (.hasGt (.cur j)))) = false → m = MOut.zero) ∧
    (v.b (.inTargets j (v.b (.hasGt (.cur j)))) = true → m.tp.length + m.fp = 1) ∧
    (m.sw = 1 → m.tp = [.cur j]) ∧ m.sw ≤ m.tp.length ∧ m.score = m.tp := by
  intro m
  show _ ∧ _ ∧ _ ∧ _ ∧ _
  simp only [m, resStepAtoms]
  cases h1 : v.b (.inTargets j (v.b (.hasGt (.cur j))))
  · simp [MOut.zero]
  · simp only [Bool.not_true, Bool.false_eq_true, if_false]
    cases scanAtoms v j (v.b (.hasGt (.cur j))) 0 np <;>
      cases v.b (.isTp (.cur j) j (v.b (.hasGt (.cur j)))) <;> simp [tailOut]

/-- "every evaluated result is counted exactly once", for the code's table of one current result against any previous
frame of the tabulated size (unit TP weights = `TPMetricsAp`) -/
theorem table_each_result_once {gen : Option (DTree (Except String SOut))} {np : Nat}
    (h : tableOk gen (stepSkTree 1 np) = true) (t : DTree (Except String SOut)) (ht : gen = some t)
    (cfg : Cfg) (prev : List Res) (c : Res) (hl : prev.length = np) (hc : c.w = 1) (hp : ∀ p ∈ prev, p.w = 1) :
    ∃ m, t.eval (valOf cfg prev [c]) = .ok (enc m) ∧
      (evaluated cfg c = true →
        ((interp prev [c] m).tp = 1 ∧ (interp prev [c] m).fp = 0) ∨ ((interp prev [c] m).tp = 0 ∧ (interp prev [c] m).fp = 1)) ∧
      (evaluated cfg c = false → interp prev [c] m = Acc.zero) := by
  obtain ⟨m, hm, hi⟩ := (step_table_sound h t ht).2 cfg prev [c] rfl hl
  refine ⟨m, hm, ?_⟩
  have hfs : frameStep cfg prev [c] = resStep cfg prev c := by
    simp [frameStep, Acc.add, Acc.zero]
  rw [hi, hfs]
  exact each_result_once cfg prev c hc hp

/-- `_calculate_score`: table = skeleton -/
theorem score_code_table_eq_model :
    ∀ t, Gen.ClearDT.scoreTree = some t → ∀ v : Val, v.consistent → t.eval v = .ok (scoreAtoms v) := by
  intro t ht v hc
  rw [table_eq_model (gen := Gen.ClearDT.scoreTree) (sk := scoreSkTree) (by decide +kernel) t ht v hc, eval_scoreSkTree]

theorem scoreVal_consistent (g : Nat) (a : Acc) : (scoreVal g a).consistent := by
  refine ⟨?_, ?_⟩
  · intro r j s h
    simp [scoreVal] at h
  · have hg : ¬ ((g : Rat) < 0) := by
      have : (0 : Rat) ≤ (g : Rat) := by exact_mod_cast Nat.zero_le g
      exact not_lt.mpr this
    simp only [scoreVal, if_true, cmpRat, hg, if_false]
    split <;> simp

/-- the formulas the code's score table selects, read on concrete totals, are the model's MOTA and MOTP — i.e.
MOTA = inf without ground truth and max(0, (TP − FP − IDsw)/G) otherwise; MOTP = inf when TP = 0 and score/TP otherwise -/
theorem table_score_def (g : Nat) (a : Acc) :
    ∀ t, Gen.ClearDT.scoreTree = some t → ∃ s, t.eval (scoreVal g a) = .ok s ∧
      scoreTerm g a s.1 = mota g a ∧ scoreTerm g a s.2 = motp a := by
  intro t ht
  refine ⟨_, score_code_table_eq_model t ht _ (scoreVal_consistent g a), ?_, ?_⟩
  · unfold scoreAtoms mota
    have hne1 : (Atom.ord motaRatio "0" = Atom.ord "num_gt" "0") = False := by simp [motaRatio]
    have hne2 : (Atom.ord motaRatio "0" = Atom.ord "tp" "0") = False := by simp [motaRatio]
    simp only [scoreVal, if_true, hne1, hne2, if_false]
    by_cases hg : g = 0
    · subst hg
      simp [cmpRat, scoreTerm]
    · have hgq : ¬ ((g : Rat) = 0) := by exact_mod_cast hg
      have hgpos : ¬ ((g : Rat) < 0) := by
        have : (0 : Rat) ≤ (g : Rat) := by exact_mod_cast Nat.zero_le g
        exact not_lt.mpr this
      simp only [cmpRat, hgq, hgpos, if_false, hg]
      by_cases hr : ((a.tp - (a.fp : Rat) - (a.sw : Rat)) / (g : Rat)) < 0
      · simp [hr, scoreTerm, max_eq_left (le_of_lt hr)]
      · by_cases hr0 : ((a.tp - (a.fp : Rat) - (a.sw : Rat)) / (g : Rat)) = 0
        · simp [hr0, scoreTerm]
        · have : (0 : Rat) ≤ (a.tp - (a.fp : Rat) - (a.sw : Rat)) / (g : Rat) := not_lt.mp hr
          simp [hr, hr0, scoreTerm, motaRatio, max_eq_right this]
  · unfold scoreAtoms motp
    have hne : (Atom.ord "tp" "0" = Atom.ord "num_gt" "0") = False := by simp
    simp only [scoreVal, hne, if_false, if_true]
    by_cases ht0 : a.tp = 0
    · simp [cmpRat, ht0, scoreTerm]
    · by_cases hlt : a.tp < 0 <;> simp [cmpRat, ht0, hlt, scoreTerm, motpRatio, motaRatio]

/-- `CLEAR.__init__` on histories of n ≤ 3 frames: the frame pairs handed to `_calculate_tp_fp` with a non-empty current
frame are exactly the consecutive ones (previous = the frame IMMEDIATELY before, empty or not) -/
def InitTableSound (gen : Option (DTree (Except String (List (Option Nat × Option Nat) × Nat)))) (n : Nat) : Prop :=
  ∀ t, gen = some t → ∀ v : Val, v.consistent → t.eval v = .ok (initAtoms v 1 (n - 1) [] 0)

theorem init_table_sound {gen : Option (DTree (Except String (List (Option Nat × Option Nat) × Nat)))} {n : Nat}
    (h : tableOk gen (initSkTree n) = true) : InitTableSound gen n := by
  intro t ht v hc
  rw [table_eq_model h t ht v hc, eval_initSkTree]

/-- every pair the skeleton counts is a consecutive one -/
theorem initAtoms_consecutive (v : Val) : ∀ (n i : Nat) (ps : List (Option Nat × Option Nat)) (c : Nat),
    (∀ p ∈ ps, ∃ k, p = (some k, some (k + 1))) → 1 ≤ i →
    ∀ p ∈ (initAtoms v i n ps c).1, ∃ k, p = (some k, some (k + 1)) := by
  intro n
  induction n with
  | zero => intro i ps c h _; exact h
  | succ n ih =>
    intro i ps c h hi
    simp only [initAtoms]
    split
    · exact ih (i + 1) ps c h (by omega)
    · apply ih (i + 1) _ _ _ (by omega)
      intro p hp
      rcases List.mem_append.mp hp with hp | hp
      · exact h p hp
      · simp only [List.mem_singleton] at hp
        exact ⟨i - 1, by rw [hp]; congr 2; omega⟩

theorem init_0_code_table_eq_model : InitTableSound Gen.ClearDT.initTree_0 0 :=
  init_table_sound (by decide +kernel)
theorem init_1_code_table_eq_model : InitTableSound Gen.ClearDT.initTree_1 1 :=
  init_table_sound (by decide +kernel)
theorem init_2_code_table_eq_model : InitTableSound Gen.ClearDT.initTree_2 2 :=
  init_table_sound (by decide +kernel)
theorem init_3_code_table_eq_model : InitTableSound Gen.ClearDT.initTree_3 3 :=
  init_table_sound (by decide +kernel)

/-- the agreement check is not vacuous: the two pair predicates are told apart -/
example : tableOk (some isIdSwitchedSkTree) isSameMatchSkTree = false := by decide +kernel
example : tableOk (some (stepSkTree 1 1)) (stepSkTree 1 2) = false := by decide +kernel

end DecisionTables

/-! ## the frame loop of `CLEAR.__init__`, histories of any length (bridge of the `init` skeleton) -/

section DecisionTablesHistory
open PEval.ClearDT

/-- BRIDGE of the frame loop, for histories of ANY length: at the valuation the history induces (`empty i` ⇔ frame `i` has no
result) the skeleton of `CLEAR.__init__` selects exactly the pairs `(i-1, i)` with a non-empty frame `i ≥ 1`, in order
(an empty frame is skipped as current frame but still is the previous frame of the next one), and the model folds the
history exactly that way: `clear cfg hist` is the sum of `_calculate_tp_fp` (`frameStep`) over the selected pairs,
`objects_results_num` the sum of the sizes of their current frames, and the skeleton's count the number of pairs. -/
theorem init_loop_bridge (cfg : Cfg) (hist : List (List Res)) :
    let r := initAtoms (histVal hist) 1 (hist.length - 1) [] 0
    r.1 = selPairs (histVal hist) 1 (hist.length - 1) ∧ r.2 = r.1.length ∧
    clear cfg hist = sumPairs cfg hist r.1 ∧ predictNum hist = lenPairsFrom hist 0 r.1 := by
  intro r
  refine ⟨?_, ?_, clear_bridge cfg hist, predictNum_bridge hist⟩ <;> simp [r, initAtoms_eq]

/-- the same with every pair's increment read through the step skeleton (`frameStep_bridge`): the model of the whole
of `CLEAR.__init__` = the `init` skeleton's pairs, each interpreted by the `_calculate_tp_fp` skeleton at its valuation -/
theorem init_loop_bridge_symbolic (cfg : Cfg) (hist : List (List Res)) :
    clear cfg hist =
      (initAtoms (histVal hist) 1 (hist.length - 1) [] 0).1.foldl (fun a p => a.add (pairAccSym cfg hist p)) Acc.zero :=
  clear_bridge_symbolic cfg hist

/-- composition with the table theorem: a generated `__init__` table that passes the check, read at the valuation of ANY
history of the tabulated length, names pairs whose `_calculate_tp_fp` sum is the model's `clear`, whose current-frame sizes
sum to `objects_results_num`, and as many pairs as it counts -/
theorem init_table_history {gen : Option (DTree (Except String (List (Option Nat × Option Nat) × Nat)))} {n : Nat}
    (h : InitTableSound gen n) (cfg : Cfg) (hist : List (List Res)) (hl : hist.length = n) :
    ∀ t, gen = some t → ∃ ps c, t.eval (histVal hist) = .ok (ps, c) ∧
      clear cfg hist = sumPairs cfg hist ps ∧ predictNum hist = lenPairsFrom hist 0 ps ∧ c = ps.length ∧
      ∀ p ∈ ps, ∃ k, p = (some k, some (k + 1)) ∧ k + 1 < n ∧ frameAt hist (k + 1) ≠ [] := by
  intro t ht
  obtain ⟨h1, h2, h3, h4⟩ := init_loop_bridge cfg hist
  refine ⟨_, _, h t ht _ (histVal_consistent hist), by rw [← hl]; exact h3, by rw [← hl]; exact h4,
    by rw [← hl]; exact h2, ?_⟩
  intro p hp
  rw [← hl, h1] at hp
  simp only [selPairs, List.mem_map, List.mem_filter, List.mem_range'_1] at hp
  obtain ⟨k, ⟨hk, he⟩, rfl⟩ := hp
  refine ⟨k - 1, (by congr 2; omega), by omega, ?_⟩
  have hk' : k - 1 + 1 = k := by omega
  rw [hk']
  intro h0
  simp [histVal, h0] at he

/-- the four generated tables of `CLEAR.__init__` (histories of 0 … 3 frames) on every concrete history of that length -/
theorem init_code_tables_history (cfg : Cfg) (hist : List (List Res)) :
    (hist.length = 0 → ∀ t, Gen.ClearDT.initTree_0 = some t → ∃ ps c, t.eval (histVal hist) = .ok (ps, c) ∧
      clear cfg hist = sumPairs cfg hist ps ∧ predictNum hist = lenPairsFrom hist 0 ps ∧ c = ps.length) ∧
    (hist.length = 1 → ∀ t, Gen.ClearDT.initTree_1 = some t → ∃ ps c, t.eval (histVal hist) = .ok (ps, c) ∧
      clear cfg hist = sumPairs cfg hist ps ∧ predictNum hist = lenPairsFrom hist 0 ps ∧ c = ps.length) ∧
    (hist.length = 2 → ∀ t, Gen.ClearDT.initTree_2 = some t → ∃ ps c, t.eval (histVal hist) = .ok (ps, c) ∧
      clear cfg hist = sumPairs cfg hist ps ∧ predictNum hist = lenPairsFrom hist 0 ps ∧ c = ps.length) ∧
    (hist.length = 3 → ∀ t, Gen.ClearDT.initTree_3 = some t → ∃ ps c, t.eval (histVal hist) = .ok (ps, c) ∧
      clear cfg hist = sumPairs cfg hist ps ∧ predictNum hist = lenPairsFrom hist 0 ps ∧ c = ps.length) := by
  refine ⟨?_, ?_, ?_, ?_⟩ <;> intro hl t ht
  · obtain ⟨ps, c, a, b, d, e, _⟩ := init_table_history init_0_code_table_eq_model cfg hist hl t ht
    exact ⟨ps, c, a, b, d, e⟩
  · obtain ⟨ps, c, a, b, d, e, _⟩ := init_table_history init_1_code_table_eq_model cfg hist hl t ht
    exact ⟨ps, c, a, b, d, e⟩
  · obtain ⟨ps, c, a, b, d, e, _⟩ := init_table_history init_2_code_table_eq_model cfg hist hl t ht
    exact ⟨ps, c, a, b, d, e⟩
  · obtain ⟨ps, c, a, b, d, e, _⟩ := init_table_history init_3_code_table_eq_model cfg hist hl t ht
    exact ⟨ps, c, a, b, d, e⟩

/-- non-vacuity: a history with an empty middle frame — the pair (1, 2) IS counted, with the empty frame as previous -/
example : (initAtoms (histVal [[], [], [⟨1, 0, none, 0, true, 1⟩]]) 1 2 [] 0) = ([(some 1, some 2)], 1) := by decide

end DecisionTablesHistory

/-! ## histories PRODUCED BY THE PIPELINE: `PrevOneToOne` is discharged

`switch_once_per_tp` needs `PrevOneToOne` (without it the count depends on the scan order, see the example below).
A frame that is the translation of an answer of the matcher model (`Matching.getObjectResults`, C01/C02) over
object lists with unique track ids (`MatcherFrame`), and every sub-frame of one (the manager's per-label
buckets), pairs estimated and ground-truth tracks one-to-one; so the hypothesis holds for every history the
pipeline can produce, under every configuration. -/
section PipelineHistories

/-- every frame of the history is (contained in) a frame produced by the matcher over unique track ids -/
def PipelineHist (hist : List (List Res)) : Prop := ∀ f ∈ hist, ∃ f', MatcherFrame f' ∧ f ⊆ f'

theorem prevOneToOne_pipeline (cfg : Cfg) (hist : List (List Res)) (h : PipelineHist hist) :
    PrevOneToOne cfg hist :=
  prevOneToOne_of_track cfg hist fun f hf => by
    obtain ⟨f', hm, hs⟩ := h f hf
    exact hm.trackOneToOne.subset hs

/-- `switch_once_per_tp` with its hypothesis discharged: for pipeline-produced histories a switch is counted
exactly once for each TP whose pairing differs from the pairing a (own-test) TP had in the previous frame,
whatever the order of the previous frame -/
theorem switch_once_per_tp_pipeline (cfg : Cfg) (hist : List (List Res)) (h : PipelineHist hist) :
    (clear cfg hist).sw = (events hist).countP (fun e => switchedTp cfg e.1 e.2) :=
  switch_once_per_tp cfg hist (prevOneToOne_pipeline cfg hist h)

/-- the per-label histories `get_scene_result` builds out of matcher-produced frames are pipeline histories -/
theorem sceneInputs_pipeline (targets : List (Nat × Rat)) (frames : List (List Res)) (gts : List (List Nat))
    (h : ∀ f ∈ frames, MatcherFrame f) : ∀ li ∈ sceneInputs targets frames gts, PipelineHist li.hist := by
  intro li hli f hf
  obtain ⟨lt, _, _, _, hh⟩ := mem_sceneInputs hli
  rw [hh] at hf
  rcases List.mem_cons.1 hf with rfl | hf
  · cases frames with
    | nil =>
      exact ⟨[], ⟨⟨.default, .centerDistance, none, none, false⟩, ⟨[], [], fun _ _ => 0⟩, [],
        ⟨fun _ => (0, 0), fun _ => ⟨0, 0, false⟩, fun _ _ => 0, fun _ _ => false, fun _ _ => 0⟩,
        by simp [Matching.getObjectResults], ⟨fun i hi => by simp at hi, fun j hj => by simp at hj⟩, rfl⟩,
        fun _ hx => hx⟩
    | cons f0 fs => exact ⟨f0, h f0 (by simp), fun _ hx => by cases hx⟩
  · obtain ⟨fr, hfr, rfl⟩ := List.mem_map.1 hf
    exact ⟨fr, h fr hfr, bucket_subset _ _ _⟩

/-- scene level: every per-label CLEAR instance of `TrackingMetricsScore` over matcher-produced frames counts
its switches in the order-free way -/
theorem switch_once_per_tp_scene (mx : Bool) (targets : List (Nat × Rat)) (frames : List (List Res))
    (gts : List (List Nat)) (h : ∀ f ∈ frames, MatcherFrame f) :
    ∀ li ∈ sceneInputs targets frames gts,
      (clear ⟨mx, [(li.label, li.thr)]⟩ li.hist).sw =
        (events li.hist).countP (fun e => switchedTp ⟨mx, [(li.label, li.thr)]⟩ e.1 e.2) :=
  fun li hli => switch_once_per_tp_pipeline _ _ (sceneInputs_pipeline targets frames gts h li hli)

/-- a matcher-produced frame: the contested scene of C01 (three estimates, two ground truths, answer
`[(0, some 0), (1, some 1), (2, none)]`) with track ids `i+1` / `j+1` -/
def mCfg : Matching.Cfg :=
  { policy := .default, mode := .centerDistance, targets := some ["car", "pedestrian"],
    thresholds := some [3, 2], fpValidation := false }
def mScene : Matching.Scene :=
  { ests := [⟨"car", "base_link"⟩, ⟨"unknown", "map"⟩, ⟨"car", "base_link"⟩],
    gts := [⟨"car", "base_link"⟩, ⟨"pedestrian", "map"⟩],
    val := fun i j => if i == 1 then 1 / 2 else if j == 0 then 1 / 4 else 5 }
def mAttrs : TrackAttrs :=
  ⟨fun i => (i + 1, 0), fun j => ⟨j + 1, 0, false⟩, fun i j => mScene.val i j, fun _ _ => true, fun _ _ => 1⟩
def mFrame : List Res := toClearFrame mAttrs [(0, some 0), (1, some 1), (2, none)]

theorem mFrame_matcher : MatcherFrame mFrame :=
  ⟨mCfg, mScene, [(0, some 0), (1, some 1), (2, none)], mAttrs, by decide +kernel,
    ⟨fun i _ i' _ e => by simpa [mAttrs] using congrArg Prod.fst e,
     fun j _ j' _ e => by simpa [mAttrs] using e⟩, rfl⟩

/-- non-vacuity of `switch_once_per_tp_pipeline` / `_scene`: a three-frame pipeline history with results -/
example : PipelineHist [[], mFrame, mFrame] ∧ (clear cfgEx [[], mFrame, mFrame]).tp = 4 := by
  refine ⟨?_, by decide +kernel⟩
  intro f hf
  simp only [List.mem_cons, List.not_mem_nil, or_false] at hf
  rcases hf with rfl | rfl | rfl
  · exact ⟨mFrame, mFrame_matcher, fun _ hx => by cases hx⟩
  · exact ⟨mFrame, mFrame_matcher, fun _ hx => hx⟩
  · exact ⟨mFrame, mFrame_matcher, fun _ hx => hx⟩

/-- A DEFECTIVE matcher that hands one ground truth to two estimates breaks the statement: the previous frame
`[1→1, 2→1]` is not one-to-one, the operational count is 0 in this order and 1 in the reversed order, the
order-free count is 1.  So `switch_once_per_tp_pipeline` is about the matcher, not true of every frame. -/
example :
    ¬ TrackOneToOne [rEx 1 1 (1/2), rEx 2 1 (1/2)] ∧
    (clear cfgEx [[], [rEx 1 1 (1/2), rEx 2 1 (1/2)], [rEx 1 1 (1/4)]]).sw = 0 ∧
    (clear cfgEx [[], [rEx 2 1 (1/2), rEx 1 1 (1/2)], [rEx 1 1 (1/4)]]).sw = 1 ∧
    (events [[], [rEx 1 1 (1/2), rEx 2 1 (1/2)], [rEx 1 1 (1/4)]]).countP
      (fun e => switchedTp cfgEx e.1 e.2) = 1 := by
  refine ⟨fun h => ?_, by decide +kernel, by decide +kernel, by decide +kernel⟩
  have := h (rEx 1 1 (1/2)) (by simp) (rEx 2 1 (1/2)) (by simp) (by decide +kernel)
  revert this
  decide +kernel

/-- the result list of the defective matcher uses ground truth 0 twice: it violates what
`matcher_results_one_to_one` proves of the real matcher model -/
example : ¬ (Matching.usedGts [(0, some 0), (1, some 0)]).Nodup := by decide

end PipelineHistories

/-! ## the carry-over convention and "a TP in the previous frame"

`switchedTp` reads "a TP in the previous frame" as "a previous result that passes ITS OWN test under the current
result's threshold" – that is what `_calculate_tp_fp` tests (`scan_reads_own_test_only`).  It is NOT "a previous
result that was BOOKED TP in its frame": a result booked TP by carry-over (same pairing as a TP before it) whose own
score fails is invisible to the next frame.  Consequence (DESIGN B1 declares the carry-over for counts and scores
only): a new id on a target that is booked TP only by carry-over costs NO switch. -/
section CarryOver

/-- the scan of the previous frame reads it through the filter "passes its own test under the current threshold" -/
theorem scan_reads_own_test_only (cfg : Cfg) (t : Rat) (c : Res) (prev : List Res) :
    scan cfg t c prev = scan cfg t c (prev.filter (isTp cfg t)) := scan_filter cfg t c prev

/-- THE CONVENTION: if no result of the previous frame passes its own test under the current result's threshold,
the current result is booked by its own test alone and no switch is booked with it – even when previous results were
booked TP in their own frame by carry-over (`outcome cfg pp p = .carried q`) and conflict with the current one -/
theorem carried_over_target_new_id_no_switch (cfg : Cfg) (prev : List Res) (c : Res) (t : Rat)
    (ht : labelThreshold cfg (keyLabel c) = some t) (h : ∀ p ∈ prev, isTp cfg t p = false) :
    outcome cfg prev c = (if isTp cfg t c then .tp false else .fp) ∧ countsSwitch cfg prev c = false ∧
    switchedTp cfg prev c = false := by
  obtain ⟨h1, h2⟩ := outcome_of_no_own_tp cfg prev c t ht h
  refine ⟨h1, h2, ?_⟩
  unfold switchedTp
  rw [ht]
  simp only [Bool.and_eq_false_imp]
  intro _
  rw [List.any_eq_false]
  intro p hp
  simp [h p hp]

/-- the two readings of "a TP in the previous frame" agree when, on the previous frame, "booked TP" and "passes its
own test under the current threshold" coincide -/
theorem switch_readings_agree (cfg : Cfg) (pp prev : List Res) (c : Res)
    (h : ∀ t, labelThreshold cfg (keyLabel c) = some t → ∀ p ∈ prev, countsTp cfg pp p = isTp cfg t p) :
    switchedTp cfg prev c = switchedTpBooked cfg pp prev c := switchedTp_eq_booked cfg pp prev c h

/-- the example: threshold 1 (distance).  Frame 1: track 1 on target 1 at distance 1/2 (TP).  Frame 2: same pairing
at distance 5 – fails its own test, booked TP by carry-over.  Frame 3: NEW id 2 on target 1 at distance 1/4: TP by
its own test, its pairing conflicts with the booked TP of frame 2, yet NO switch: totals TP 3, FP 0, switches 0;
the "booked TP" reading would count 1. -/
theorem carry_over_new_id_example :
    let f1 := [rEx 1 1 (1/2)]; let f2 := [rEx 1 1 5]; let f3 := [rEx 2 1 (1/4)]
    outcome cfgEx f1 (rEx 1 1 5) = .carried (rEx 1 1 (1/2)) ∧ isTp cfgEx 1 (rEx 1 1 5) = false ∧
    conflict (rEx 2 1 (1/4)) (rEx 1 1 5) = true ∧
    outcome cfgEx f2 (rEx 2 1 (1/4)) = .tp false ∧
    switchedTp cfgEx f2 (rEx 2 1 (1/4)) = false ∧ switchedTpBooked cfgEx f1 f2 (rEx 2 1 (1/4)) = true ∧
    clear cfgEx [[], f1, f2, f3] = ⟨3, 0, 0, 1/2 + 1/2 + 1/4⟩ := by decide +kernel

/-- non-vacuity of `carried_over_target_new_id_no_switch` (the instance above) -/
example : labelThreshold cfgEx (keyLabel (rEx 2 1 (1/4))) = some 1 ∧ ∀ p ∈ [rEx 1 1 5], isTp cfgEx 1 p = false := by
  decide +kernel

/-- a DEFECTIVE variant of the scan that reads "booked TP" instead (does not skip failing previous results) books
the switch on the example: the convention theorem distinguishes the two -/
def scan_noSkip (c : Res) : List Res → Scan
  | [] => .nothing
  | p :: ps => if isIdSwitched c p then .switched else if isSameMatch c p then .same p else scan_noSkip c ps

example : scan_noSkip (rEx 2 1 (1/4)) [rEx 1 1 5] = .switched ∧ scan cfgEx 1 (rEx 2 1 (1/4)) [rEx 1 1 5] = .nothing := by
  decide +kernel

end CarryOver

/-! ## the manager's per-label buckets: known finding C05-N1, exactly

Through the manager a result is filed by `divide_objects` under its ESTIMATE's label (if that is a target label),
while the CLEAR instance of that label (singleton target list) looks the threshold up under the GROUND TRUTH's label:
a result whose ground truth has another label is in the bucket (it counts in `predict_num`) and adds nothing. -/
section Buckets

/-- where `divide_objects` files a result -/
theorem bucket_files_by_estimate_label (labels : List Nat) (l : Nat) (rs : List Res) (r : Res) :
    r ∈ bucket labels l rs ↔ r ∈ rs ∧
      ((r.estLabel ∈ labels ∧ r.estLabel = l) ∨ (r.estLabel ∉ labels ∧ ∃ g, r.gt = some g ∧ g.label = l)) :=
  mem_bucket

/-- a result with a target estimate label whose ground truth has ANOTHER label is counted by no per-label CLEAR
instance: it is filed only in the bucket of its estimate's label, and there it adds neither TP nor FP nor switch
nor score -/
theorem cross_label_result_counted_nowhere (mx : Bool) (labels : List Nat) (r : Res) (g : Gt)
    (he : r.estLabel ∈ labels) (hg : r.gt = some g) (hne : g.label ≠ r.estLabel) (l : Nat) (thr : Rat) :
    (∀ rs, r ∈ bucket labels l rs → l = r.estLabel) ∧
    (l = r.estLabel → ∀ prev, resStep ⟨mx, [(l, thr)]⟩ prev r = Acc.zero) := by
  constructor
  · intro rs hr
    rcases (mem_bucket.1 hr).2 with ⟨_, h⟩ | ⟨h, _⟩
    · exact h.symm
    · exact absurd he h
  · intro hl prev
    apply resStep_crossLabel
    simp only [crossLabel, keyLabel, hg, Bool.not_eq_true', beq_eq_false_iff_ne, ne_eq]
    rw [hl]; exact hne

theorem unitWeights_of_frames {frames : List (List Res)} (hu : ∀ f ∈ frames, ∀ r ∈ f, r.w = 1) (labels : List Nat)
    (l : Nat) : UnitWeights ([] :: frames.map (bucket labels l)) := by
  intro f hf r hr
  rcases List.mem_cons.1 hf with rfl | hf
  · cases hr
  · obtain ⟨fr, hfr, rfl⟩ := List.mem_map.1 hf
    exact hu fr hfr r (bucket_subset _ _ _ hr)

/-- C05-N1 at scene level, exactly: for every target label, `predict_num` − (TP + FP) is the number of results in
that label's buckets whose key label (ground truth's label) differs from the bucket label -/
theorem scene_cross_label_exact (mx : Bool) (targets : List (Nat × Rat)) (frames : List (List Res))
    (gts : List (List Nat)) (hu : ∀ f ∈ frames, ∀ r ∈ f, r.w = 1) :
    ∀ li ∈ sceneInputs targets frames gts,
      ((predictNum li.hist : Nat) : Rat) =
        (clear ⟨mx, [(li.label, li.thr)]⟩ li.hist).tp + ((clear ⟨mx, [(li.label, li.thr)]⟩ li.hist).fp : Rat) +
        (((frames.map (bucket (targets.map (·.1)) li.label)).flatten.countP (crossLabel li.label) : Nat) : Rat) := by
  intro li hli
  obtain ⟨lt, _, hl, _, hh⟩ := mem_sceneInputs hli
  have hu' : UnitWeights li.hist := by rw [hh]; exact unitWeights_of_frames hu _ _
  rw [tp_fp_count _ _ hu', single_label_accounting mx li.label li.thr li.hist, hh, hl]
  simp only [List.drop_succ_cons, List.drop_zero]
  push_cast
  rfl

/-- the same for the per-frame scores (`evaluate_frame`: history `[previous bucket, current bucket]`) -/
theorem frame_cross_label_exact (mx : Bool) (targets : List (Nat × Rat)) (prev cur : List Res) (gt : List Nat)
    (hp : ∀ r ∈ prev, r.w = 1) (hc : ∀ r ∈ cur, r.w = 1) :
    ∀ li ∈ frameInputs targets prev cur gt,
      ((predictNum li.hist : Nat) : Rat) =
        (clear ⟨mx, [(li.label, li.thr)]⟩ li.hist).tp + ((clear ⟨mx, [(li.label, li.thr)]⟩ li.hist).fp : Rat) +
        (((bucket (targets.map (·.1)) li.label cur).countP (crossLabel li.label) : Nat) : Rat) := by
  intro li hli
  obtain ⟨lt, _, hl, _, hh⟩ := mem_frameInputs hli
  have hu' : UnitWeights li.hist := by
    rw [hh]
    intro f hf r hr
    simp only [List.mem_cons, List.not_mem_nil, or_false] at hf
    rcases hf with rfl | rfl
    · exact hp r (bucket_subset _ _ _ hr)
    · exact hc r (bucket_subset _ _ _ hr)
  rw [tp_fp_count _ _ hu', single_label_accounting mx li.label li.thr li.hist, hh, hl]
  simp only [List.drop_succ_cons, List.drop_zero, List.flatten_cons, List.flatten_nil, List.append_nil]
  push_cast
  rfl

/-- the instance of the finding: targets car (0) and bus (1); an estimate labelled car matched to a BUS ground truth.
It is filed under car, not under bus, and the car instance ignores it: predict_num 1, TP + FP = 0. -/
def xRes : Res := ⟨7, 0, some ⟨9, 1, false⟩, 1/2, false, 1⟩

example : bucket [0, 1] 0 [xRes] = [xRes] ∧ bucket [0, 1] 1 [xRes] = [] ∧ crossLabel 0 xRes = true ∧
    (sceneInputs [(0, 1), (1, 1)] [[xRes]] [[0, 1]]).map (fun li =>
      (predictNum li.hist, (clear ⟨false, [(li.label, li.thr)]⟩ li.hist).tp,
        (clear ⟨false, [(li.label, li.thr)]⟩ li.hist).fp)) = [(1, 0, 0), (0, 0, 0)] := by decide +kernel

/-- a DEFECTIVE-free alternative for comparison: filing by the KEY label (ground truth's label) would make the
cross-label count 0 for every bucket – the deviation term of `scene_cross_label_exact` is specific to filing by the
estimate's label -/
example : ([xRes].filter (fun r => keyLabel r == 1)).countP (crossLabel 1) = 0 ∧
    ([xRes].filter (fun r => keyLabel r == 0)) = [] := by decide +kernel

end Buckets

/-! ## `UniqueTracks` is an input assumption: what the code counts when two estimates share a uuid

`switch_once_per_tp_pipeline` / `_scene` need `PipelineHist` ⇒ `MatcherFrame` ⇒ `UniqueTracks` (estimates of a frame
pairwise different in (uuid, label), ground-truth uuids pairwise different).  The one-to-one half is discharged from
the matcher (`prevOneToOne_pipeline`); `UniqueTracks` is not checked anywhere in Python: `DynamicObject.uuid` defaults
to `None` and `None == None` makes all uuid-less estimates of a label the same track (see the doc comment of
`Clear.UniqueTracks`).  The smallest instance: two estimates WITHOUT uuid (harness id 0 for `None`), label car, matched
by the one-to-one matcher to the two targets 1 and 2 in frame 1, and the very same pairing again in frame 2 — nothing
switched.  The code: the first current result meets its own previous pairing first (`same`, carried over), the
second meets the OTHER previous result first — same estimated id, other target — and is booked TP **with a switch**.
Whatever the order of the previous frame, 1 switch is booked (for the one or the other result); the order-free count
of `switch_once_per_tp` is 2; the true number of identity switches is 0. -/
section SharedUuid

/-- the frame: estimates (uuid `None` ↦ 0, label 0) on targets 1 and 2, both within the threshold -/
def noUuidFrame : List Res := [rEx 0 1 (1/2), rEx 0 2 (1/4)]

/-- it IS the translation of a one-to-one matcher answer (positions (0,0), (1,1)) — only the track ids are shared -/
example : noUuidFrame = toClearFrame ⟨fun _ => (0, 0), fun j => ⟨j + 1, 0, false⟩, fun i _ => if i == 0 then 1/2 else 1/4,
    fun _ _ => true, fun _ _ => 1⟩ [(0, some 0), (1, some 1)] := by decide +kernel

/-- **the code's count with a shared uuid**: not `TrackOneToOne` (so no `MatcherFrame` with `UniqueTracks` contains it);
identical pairing in consecutive frames, yet `clear` books 1 switch (TP 4, FP 0) in either order of the previous
frame, while the order-free count of `switch_once_per_tp` is 2 — its conclusion fails — and with distinct uuids the
same scene costs 0 switches -/
theorem shared_uuid_counts_a_switch :
    ¬ TrackOneToOne noUuidFrame ∧
    clear cfgEx [[], noUuidFrame, noUuidFrame] = ⟨4, 0, 1, 1/2 + 1/4 + 1/2 + 1/4⟩ ∧
    clear cfgEx [[], noUuidFrame.reverse, noUuidFrame] = ⟨4, 0, 1, 1/2 + 1/4 + 1/4 + 1/2⟩ ∧
    (events [[], noUuidFrame, noUuidFrame]).countP (fun e => switchedTp cfgEx e.1 e.2) = 2 ∧
    (clear cfgEx [[], [rEx 1 1 (1/2), rEx 2 2 (1/4)], [rEx 1 1 (1/2), rEx 2 2 (1/4)]]).sw = 0 := by
  refine ⟨fun h => ?_, by decide +kernel, by decide +kernel, by decide +kernel, by decide +kernel⟩
  have := h (rEx 0 1 (1/2)) (by simp [noUuidFrame]) (rEx 0 2 (1/4)) (by simp [noUuidFrame]) (by decide +kernel)
  revert this
  decide +kernel

/-- which result carries the switch depends on the order of the previous frame (per-result outcomes) -/
example :
    (noUuidFrame.map (fun c => countsSwitch cfgEx noUuidFrame c)) = [false, true] ∧
    (noUuidFrame.map (fun c => countsSwitch cfgEx noUuidFrame.reverse c)) = [true, false] := by decide +kernel

end SharedUuid

section LocalInTime

/-! ## the accumulation is local in time: cutting a history, the last frame's order, the first frame, untracked labels

Added after the audits: structural laws of `CLEAR.__init__` that hold for every history and that any hidden state
carried from frame to frame (beyond "the previous frame") or any dependence on the position of a result in the
current frame would break. -/

theorem steps_append (cfg : Cfg) (f0 : List Res) (pre : List (List Res)) (f : List Res) (post : List (List Res)) :
    steps cfg f0 (pre ++ f :: post) = steps cfg f0 (pre ++ [f]) ++ steps cfg f post := by
  induction pre generalizing f0 with
  | nil => simp [steps]
  | cons p pre ih => simp only [List.cons_append, steps, ih]

/-- **cutting a history at any frame**: the totals of the whole history are the totals of the part up to and including the
cut frame plus the totals of the part that starts with the cut frame as its initial "previous" frame — the accumulation
carries nothing from frame to frame except the previous frame itself -/
theorem history_split (cfg : Cfg) (pre : List (List Res)) (f : List Res) (post : List (List Res)) :
    clear cfg (pre ++ f :: post) = (clear cfg (pre ++ [f])).add (clear cfg (f :: post)) := by
  cases pre with
  | nil => simp [clear, clearLoop]
  | cons f0 pre =>
    rw [List.cons_append, List.cons_append, clear_cons, clear_cons, clear_cons, steps_append, accSum_append]

/-- the number of evaluated results splits the same way -/
theorem predictNum_split (pre : List (List Res)) (f : List Res) (post : List (List Res)) :
    predictNum (pre ++ f :: post) = predictNum (pre ++ [f]) + predictNum (f :: post) := by
  have hf : ∀ (l : List (List Res)) (n : Nat), l.foldl (fun n f => n + f.length) n = n + l.foldl (fun n f => n + f.length) 0 := by
    intro l
    induction l with
    | nil => simp
    | cons x l ih => intro n; simp only [List.foldl_cons]; rw [ih (n + x.length), ih (0 + x.length)]; omega
  cases pre with
  | nil => simp [predictNum]
  | cons p pre =>
    simp only [predictNum, List.cons_append, List.drop_succ_cons, List.drop_zero, List.foldl_append, List.foldl_cons,
      List.foldl_nil]
    rw [hf post]

/-- MOTA's numerator of a history is the sum of the numerators of the two parts of any cut -/
theorem mota_numerator_split (cfg : Cfg) (pre : List (List Res)) (f : List Res) (post : List (List Res)) :
    let n := fun (a : Acc) => a.tp - (a.fp : Rat) - (a.sw : Rat)
    n (clear cfg (pre ++ f :: post)) = n (clear cfg (pre ++ [f])) + n (clear cfg (f :: post)) := by
  intro n
  rw [history_split]
  simp only [n, Acc.add_tp, Acc.add_fp, Acc.add_sw, Nat.cast_add]
  grind

/-- a frame's increment does not depend on the order of the CURRENT results (the previous frame's order can
matter when two previous TPs qualify: `SharedUuid`) -/
theorem frameStep_perm (cfg : Cfg) (prev : List Res) {cur cur' : List Res} (h : cur.Perm cur') :
    frameStep cfg prev cur = frameStep cfg prev cur' := by
  rw [frameStep_eq, frameStep_eq]
  induction h with
  | nil => rfl
  | cons x _ ih => simp [ih]
  | swap x y l =>
    simp only [List.map_cons, accSum_cons, ← Acc.add_assoc]
    congr 1
    apply Acc.ext' <;> simp [Rat.add_comm, Nat.add_comm]
  | trans _ _ ih1 ih2 => exact ih1.trans ih2

/-- **the order of the results inside the last frame of a history changes nothing** of `CLEAR.results` -/
theorem last_frame_order_irrelevant (cfg : Cfg) (g : Nat) (pre : List (List Res)) (prev : List Res)
    {cur cur' : List Res} (h : cur.Perm cur') :
    evalClear cfg g (pre ++ [prev, cur]) = evalClear cfg g (pre ++ [prev, cur']) := by
  have hc : clear cfg (pre ++ [prev, cur]) = clear cfg (pre ++ [prev, cur']) := by
    rw [history_split cfg pre prev [cur], history_split cfg pre prev [cur']]
    simp [clear, clearLoop, frameStep_perm cfg prev h]
  have hp : predictNum (pre ++ [prev, cur]) = predictNum (pre ++ [prev, cur']) := by
    rw [predictNum_split pre prev [cur], predictNum_split pre prev [cur']]
    simp [predictNum, h.length_eq]
  unfold evalClear
  rw [hc, hp]

/-- a history that consists of the initial "previous" frame alone scores nothing: no result is evaluated, MOTP is
undefined, MOTA is 0 (undefined without ground truth) -/
theorem initial_frame_alone (cfg : Cfg) (g : Nat) (f0 : List Res) :
    evalClear cfg g [f0] = ⟨0, g, Acc.zero, if g = 0 then none else some 0, none⟩ := by
  unfold evalClear
  have hc : clear cfg [f0] = Acc.zero := rfl
  rw [hc]
  by_cases hg : g = 0
  · simp [predictNum, mota, motp, hg]
  · simp [predictNum, mota, motp, hg, Acc.zero]

/-- results of the current frame whose key label is not a target label of the instance add nothing: the frame's
increment is that of the current frame restricted to the keyed results (the previous frame is scanned as given) -/
theorem unkeyed_current_results_add_nothing (cfg : Cfg) (prev cur : List Res) :
    frameStep cfg prev cur =
      frameStep cfg prev (cur.filter (fun c => (labelThreshold cfg (keyLabel c)).isSome)) := by
  rw [frameStep_eq, frameStep_eq]
  induction cur with
  | nil => rfl
  | cons c cur ih =>
    cases hk : labelThreshold cfg (keyLabel c) with
    | none =>
      have hz : resStep cfg prev c = Acc.zero := by unfold resStep; rw [hk]
      simp [hk, hz, ih]
    | some t => simp [hk, ih]

/-- non-vacuity / concrete instance: a cut in the middle of a 4-frame history with a switch on either side -/
example :
    let a := rEx 1 1 (1/2); let b := rEx 2 2 (1/4); let a' := rEx 3 1 (1/2); let b' := rEx 4 2 (1/4)
    clear cfgEx [[], [a, b], [a', b], [a', b']] = ⟨6, 0, 2, 1/2 + 1/4 + 1/2 + 1/4 + 1/2 + 1/4⟩ ∧
    clear cfgEx [[], [a, b], [a', b]] = ⟨4, 0, 1, 1/2 + 1/4 + 1/2 + 1/4⟩ ∧
    clear cfgEx [[a', b], [a', b']] = ⟨2, 0, 1, 1/2 + 1/4⟩ := by decide +kernel

/-- with an empty previous frame every result is judged by its own test alone: no carry-over, no switch -/
theorem frameStep_after_empty (cfg : Cfg) (cur : List Res) :
    (frameStep cfg [] cur).sw = 0 ∧
    frameStep cfg [] cur = accSum (cur.map (fun c =>
      match labelThreshold cfg (keyLabel c) with
      | none => Acc.zero
      | some t => if isTp cfg t c then ⟨c.w, 0, 0, c.value⟩ else ⟨0, 1, 0, 0⟩)) := by
  have h : ∀ c, resStep cfg [] c = (match labelThreshold cfg (keyLabel c) with
      | none => Acc.zero
      | some t => if isTp cfg t c then ⟨c.w, 0, 0, c.value⟩ else ⟨0, 1, 0, 0⟩) := by
    intro c
    unfold resStep
    cases labelThreshold cfg (keyLabel c) with
    | none => rfl
    | some t => simp [scan]
  have h2 : frameStep cfg [] cur = accSum (cur.map (fun c =>
      match labelThreshold cfg (keyLabel c) with
      | none => Acc.zero
      | some t => if isTp cfg t c then ⟨c.w, 0, 0, c.value⟩ else ⟨0, 1, 0, 0⟩)) := by
    rw [frameStep_eq, List.map_congr_left (fun c _ => h c)]
  refine ⟨?_, h2⟩
  rw [h2, accSum_sw]
  apply List.sum_eq_zero
  intro x hx
  simp only [List.mem_map] at hx
  obtain ⟨a, ⟨c, _, rfl⟩, rfl⟩ := hx
  cases labelThreshold cfg (keyLabel c) with
  | none => rfl
  | some t => dsimp only; split <;> rfl

/-- **an empty frame in the middle of a history cuts it**: the frame after it books no switch and no carry-over, and the
totals are those of the two parts -/
theorem empty_frame_cuts_history (cfg : Cfg) (pre post : List (List Res)) (cur : List Res) :
    clear cfg (pre ++ [] :: cur :: post) =
      ((clear cfg (pre ++ [[]])).add (frameStep cfg [] cur)).add (clear cfg (cur :: post)) ∧
    (frameStep cfg [] cur).sw = 0 := by
  refine ⟨?_, (frameStep_after_empty cfg cur).1⟩
  rw [history_split cfg pre [] (cur :: post)]
  have : clear cfg ([] :: cur :: post) = (frameStep cfg [] cur).add (clear cfg (cur :: post)) := by
    have := history_split cfg [[]] cur post
    simp only [List.cons_append, List.nil_append] at this
    rw [this]
    simp [clear, clearLoop]
  rw [this, Acc.add_assoc]

end LocalInTime

end PEval.C05
