import PEval.Lemmas.APClassify
/-!
# C04 — AP, APH and mAP equal the interpolated precision-recall area, within [0,1]

All statements are about the executable model `PEval/Model/AP.lean` (tied to the Python code by the
correspondence run of `./check C04`) and hold for rankings of ANY length, any ground-truth count and
any rational confidences / scores / heading weights.

Vocabulary: a ranking is the list of `Kind`s (`tp w` / `fp` / `ignored`) of the results in descending
confidence order; `apOfKinds G ks` is what `Ap.__init__` computes from it (`ap`, `tp_list`, `fp_list`);
`apOf tm mode targets thresholds G results` is the whole constructor (sort, classify, evaluate).

(This module is the core of the property: all theorems about the stage model, namespace `PEval.C04`.
The composition with the matcher model (`pipeline_ap_in_unit`, `pipeline_aph_le_ap`, …) is in
`PEval/Properties/Pipeline.lean`; `PEval/Properties/C04.lean` is the root importing both.)
-/

namespace PEval.C04
open PEval.AP

/-! ## the value is the interpolated precision-recall area -/

/-- The code-shaped computation (`interpolate_precision_recall_list` + `_calculate_ap`: scan from the
last index down recording strictly larger precisions, sum `max_precision[i]·(recall[i] − recall[i+1])`
down to recall 0) equals `Σ_i (r_i − r_{i−1}) · max_{j ≥ i} p_j`, for all precision / recall lists. -/
theorem apCode_eq_apSpec (ps rs : List Rat) : calculateAp ps rs = apSpec ps rs :=
  calculateAp_eq_apSpec ps rs

/-- `Ap.ap` of a ranking: undefined (`inf`) without results, else the interpolated area of the points
`p_i = cumTP_i/(i+1)`, `r_i = cumTP_i/G` (`0` if `G = 0`). -/
theorem ap_eq_spec (G : Nat) (ks : List Kind) :
    (apOfKinds G ks).ap =
      if ks = [] then none
      else some (apSpec (precFrom 0 (cumsum (ks.map Kind.tpw))) (recalls G (cumsum (ks.map Kind.tpw)))) := by
  cases ks with
  | nil => rfl
  | cons k t =>
    simp only [apOfKinds, tpFpLists, List.isEmpty_cons, Bool.false_eq_true, if_false,
      calculateAp_eq_apSpec, reduceCtorEq]

/-- the whole constructor: AP is defined exactly when there is at least one object result -/
theorem ap_undefined_iff_no_result {tm : TpMetric} {m : Mode} {T : List Label} {th : List Rat}
    {G : Nat} {rs : List Res} {a : ApOut} (h : apOf tm m T th G rs = .ok a) :
    a.ap = none ↔ rs = [] := by
  obtain ⟨ks, hk, rfl⟩ := apOf_ok h
  have hl := classifyAll_length hk
  have hp := (sortDesc_perm Res.conf rs).length_eq
  cases ks with
  | nil =>
    simp only [apOfKinds_nil, true_iff]
    exact List.length_eq_zero_iff.1 (by rw [← hp, ← hl]; rfl)
  | cons k t =>
    rw [apOfKinds_ap (List.cons_ne_nil _ _)]
    simp only [reduceCtorEq, false_iff]
    intro he
    subst he
    simp [sortDesc] at hl

/-- `tp_list` / `fp_list` are the running sums of the TP weights / FP flags along the ranking -/
theorem tp_list_eq_cumsum (G : Nat) (ks : List Kind) (h : ks ≠ []) :
    (apOfKinds G ks).tpList = cumsum (ks.map Kind.tpw)
      ∧ (apOfKinds G ks).fpList = cumsum (ks.map Kind.fpw) :=
  apOfKinds_tpList h

/-- AP reads only the TP weights along the ranking: a result without threshold ("ignored") occupies
its rank exactly like an FP (precision is `cumTP_i/(i+1)`), only `fp_list` tells them apart -/
theorem ignored_counts_as_rank (G : Nat) (ks ks' : List Kind)
    (h : ks.map Kind.tpw = ks'.map Kind.tpw) : (apOfKinds G ks).ap = (apOfKinds G ks').ap := by
  cases ks with
  | nil =>
    cases ks' with
    | nil => rfl
    | cons _ _ => simp at h
  | cons k t =>
    cases ks' with
    | nil => simp at h
    | cons k' t' =>
      rw [apOfKinds_ap (List.cons_ne_nil _ _), apOfKinds_ap (List.cons_ne_nil _ _), h]

/-! ## bounds -/

theorem ap_nonneg (G : Nat) (ks : List Kind) (hw : ∀ k ∈ ks, 0 ≤ k.tpw) (x : Rat)
    (h : (apOfKinds G ks).ap = some x) : 0 ≤ x := by
  cases ks with
  | nil => simp [apOfKinds_nil] at h
  | cons k t =>
    rw [apOfKinds_ap (List.cons_ne_nil _ _)] at h
    cases h
    apply apW_nonneg G (le_refl 0)
    intro w hw'
    obtain ⟨k', hk', rfl⟩ := List.mem_map.1 hw'
    exact hw k' hk'

/-- With TP weights in `[0,1]` and no more TPs than ground truths — which one-to-one matching
guarantees, see `tp_le_gt_of_one_to_one` — the AP is at most 1. (Without the hypothesis the code
returns values above 1, e.g. two TPs for one ground truth give 2.) -/
theorem ap_le_one (G : Nat) (ks : List Kind) (hw : ∀ k ∈ ks, 0 ≤ k.tpw ∧ k.tpw ≤ 1)
    (hone : (ks.filter Kind.isTp).length ≤ G) (x : Rat) (h : (apOfKinds G ks).ap = some x) :
    x ≤ 1 := by
  cases ks with
  | nil => simp [apOfKinds_nil] at h
  | cons k t =>
    rw [apOfKinds_ap (List.cons_ne_nil _ _)] at h
    cases h
    have h1 : apW G 0 0 ((k :: t).map Kind.tpw) ≤ recallOf G ((k :: t).map Kind.tpw).sum := by
      apply apW_le_recall_total G (le_refl 0) (by simp)
      intro w hw'
      obtain ⟨k', hk', rfl⟩ := List.mem_map.1 hw'
      exact hw k' hk'
    have h2 := sum_tpw_le_count (ks := k :: t) (fun x hx => (hw x hx).2)
    have h3 : (((k :: t).filter Kind.isTp).length : Rat) ≤ (G : Rat) := by exact_mod_cast hone
    exact le_trans h1 (recallOf_le_one G (le_trans h2 h3))

/-- the hypotheses of `ap_le_one` on a concrete ranking (TP, FP, half-weight TP, ignored; 2 GT) -/
example : (∀ k ∈ [Kind.tp 1, Kind.fp, Kind.tp (1/2), Kind.ignored], 0 ≤ k.tpw ∧ k.tpw ≤ 1)
    ∧ ([Kind.tp 1, Kind.fp, Kind.tp (1/2), Kind.ignored].filter Kind.isTp).length ≤ 2 := by
  refine ⟨?_, by decide⟩
  intro k hk
  simp only [List.mem_cons, List.not_mem_nil, or_false] at hk
  rcases hk with rfl | rfl | rfl | rfl <;> simp only [Kind.tpw] <;> norm_num

/-- … and the hypothesis is needed: one ground truth, two TPs (what the unrepaired tree produced in
the map frame, DESIGN §7 F2) has "AP" 2 -/
example : (apOfKinds 1 [Kind.tp 1, Kind.tp 1]).ap = some 2 := by
  rw [apOfKinds_ap (List.cons_ne_nil _ _)]
  simp [apW, recallOf, maxWith, precFrom, cumsumFrom, Kind.tpw]
  norm_num

/-- one-to-one matching ⇒ the hypothesis of `ap_le_one`: if every ground truth occurs in at most one
result and the `G` of label `L` counts the ground truths of that label, the per-label evaluation
(`target_labels = [L]`, as `Map` calls `Ap`) finds at most `G` TPs -/
theorem tp_le_gt_of_one_to_one (tm : TpMetric) (m : Mode) (L : Label) (t : Rat) (rs : List Res)
    (gts : List Gt) (hnd : (rs.filterMap (·.gt)).Nodup) (hsub : ∀ g ∈ rs.filterMap (·.gt), g ∈ gts)
    {ks : List Kind} (h : classifyAll tm m [L] [t] rs = .ok ks) :
    (ks.filter Kind.isTp).length ≤ (gts.filter (fun g => g.label == L)).length := by
  have key : ∀ (r : Res) (k : Kind), classify tm m [L] [t] r = .ok k → k.isTp = true →
      ∃ g, r.gt = some g ∧ g.label = L := by
    intro r k hk htp
    unfold classify at hk
    cases hgt : r.gt with
    | none =>
      have hc : ∀ o, isResultCorrect m o r = .ok false := by
        intro o; simp [isResultCorrect, hgt]
      cases hg : getLabelThreshold (keyLabel r) [L] (some [t]) with
      | error e => simp [hg] at hk
      | ok o =>
        cases o with
        | none => simp only [hg, Except.ok.injEq] at hk; subst hk; cases htp
        | some t' => simp only [hg, hc, Except.ok.injEq] at hk; subst hk; cases htp
    | some g =>
      refine ⟨g, rfl, ?_⟩
      by_cases hl : g.label = L
      · exact hl
      · have : getLabelThreshold g.label [L] (some [t]) = .ok none := by
          have hne : (L == g.label) = false := by
            simp only [beq_eq_false_iff_ne, ne_eq]; exact fun e => hl e.symm
          simp [getLabelThreshold, List.findIdx?_cons, hne]
        simp only [keyLabel, hgt, this] at hk
        cases hk; cases htp
  have stepA : ∀ (rs : List Res) (ks : List Kind), classifyAll tm m [L] [t] rs = .ok ks →
      (ks.filter Kind.isTp).length ≤ ((rs.filterMap (·.gt)).filter (fun g => g.label == L)).length := by
    intro rs
    induction rs with
    | nil =>
      intro ks h
      simp only [classifyAll, Except.ok.injEq] at h
      subst h; simp
    | cons r rest ih =>
      intro ks h
      obtain ⟨k, ks0, hk, hks, rfl⟩ := classifyAll_cons_ok h
      have := ih ks0 hks
      by_cases htp : k.isTp = true
      · obtain ⟨g, hg, hgl⟩ := key r k hk htp
        simp only [List.filter_cons, htp, if_true, List.length_cons, List.filterMap_cons, hg, hgl,
          beq_self_eq_true]
        omega
      · have hle : ((rest.filterMap (·.gt)).filter (fun g => g.label == L)).length
            ≤ (((r :: rest).filterMap (·.gt)).filter (fun g => g.label == L)).length := by
          cases hg : r.gt with
          | none => simp [List.filterMap_cons, hg]
          | some g =>
            simp only [List.filterMap_cons, hg, List.filter_cons]
            split <;> simp
        simp only [List.filter_cons, htp, if_false, Bool.false_eq_true]
        omega
  refine le_trans (stepA rs ks h) ?_
  apply length_le_of_nodup_subset (hnd.sublist List.filter_sublist)
  intro g hg
  rw [List.mem_filter] at hg ⊢
  exact ⟨hsub g hg.1, hg.2⟩

/-- For real result sets (each ground truth used at most once, heading weights in `[0,1]`) the per-label
AP and APH lie in `[0,1]`. -/
theorem ap_in_unit_interval (tm : TpMetric) (m : Mode) (L : Label) (t : Rat) (rs : List Res)
    (gts : List Gt) (hnd : (rs.filterMap (·.gt)).Nodup) (hsub : ∀ g ∈ rs.filterMap (·.gt), g ∈ gts)
    (hw : ∀ r ∈ rs, 0 ≤ r.hw ∧ r.hw ≤ 1) {a : ApOut}
    (h : apOf tm m [L] [t] (gts.filter (fun g => g.label == L)).length rs = .ok a) (x : Rat)
    (hx : a.ap = some x) : 0 ≤ x ∧ x ≤ 1 := by
  obtain ⟨ks, hk, rfl⟩ := apOf_ok h
  have hperm := (sortDesc_perm Res.conf rs).filterMap (·.gt)
  have hnd' : ((sortDesc Res.conf rs).filterMap (·.gt)).Nodup := hperm.nodup_iff.2 hnd
  have hsub' : ∀ g ∈ (sortDesc Res.conf rs).filterMap (·.gt), g ∈ gts :=
    fun g hg => hsub g (hperm.mem_iff.1 hg)
  have hone := tp_le_gt_of_one_to_one tm m L t _ gts hnd' hsub' hk
  have hkw : ∀ k ∈ ks, 0 ≤ k.tpw ∧ k.tpw ≤ 1 := by
    apply classifyAll_forall (P := fun k => 0 ≤ k.tpw ∧ k.tpw ≤ 1) _ hk
    intro r hr k hk'
    have hb := tpValue_bounds (tm := tm) (hw r (mem_sortDesc.1 hr))
    rcases classify_tpw hk' with h0 | h1
    · rw [h0]; exact ⟨le_refl 0, zero_le_one⟩
    · rw [h1]; exact hb
  exact ⟨ap_nonneg _ ks (fun k hk' => (hkw k hk').1) x hx, ap_le_one _ ks hkw hone x hx⟩

/-! ## APH ≤ AP -/

/-- Same results, same flags, each TP weighted by its heading agreement `≤ 1`: APH never exceeds AP,
and is defined exactly when AP is. -/
theorem aph_le_ap (m : Mode) (T : List Label) (th : List Rat) (G : Nat) (rs : List Res)
    (hw : ∀ r ∈ rs, 0 ≤ r.hw ∧ r.hw ≤ 1) {a h : ApOut} (hh : apOf .aph m T th G rs = .ok h)
    (ha : apOf .ap m T th G rs = .ok a) : optLe h.ap a.ap := by
  obtain ⟨ksh, hkh, rfl⟩ := apOf_ok hh
  obtain ⟨ksa, hka, rfl⟩ := apOf_ok ha
  apply apOfKinds_mono
  exact classifyAll_rel (fun r hr k k' h1 h2 => classify_metric_rel (hw r (mem_sortDesc.1 hr)) h1 h2)
    hkh hka

/-! ## the two extreme cases -/

/-- every ground truth matched by a correct estimate and no wrong estimate ranked above one:
the ranking starts with `G ≥ 1` full-weight TPs and has no TP weight after them ⇒ AP = 1 -/
theorem ap_one_of_perfect (G : Nat) (hG : 0 < G) (rest : List Kind) (hrest : ∀ k ∈ rest, k.tpw = 0) :
    (apOfKinds G (List.replicate G (Kind.tp 1) ++ rest)).ap = some 1 := by
  have hne : List.replicate G (Kind.tp 1) ++ rest ≠ [] := by
    cases G with
    | zero => omega
    | succ n => simp [List.replicate_succ]
  rw [apOfKinds_ap hne]
  congr 1
  have hmap : (List.replicate G (Kind.tp 1) ++ rest).map Kind.tpw
      = List.replicate G 1 ++ rest.map Kind.tpw := by
    simp [List.map_append, List.map_replicate, Kind.tpw]
  rw [hmap]
  have hz : ∀ z ∈ rest.map Kind.tpw, z = 0 := by
    intro z hz
    obtain ⟨k, hk, rfl⟩ := List.mem_map.1 hz
    exact hrest k hk
  have hGq : (0 : Rat) < (G : Rat) := by exact_mod_cast hG
  apply le_antisymm
  · have hsum : (List.replicate G (1 : Rat) ++ rest.map Kind.tpw).sum = (G : Rat) := by
      rw [List.sum_append, sum_zero hz, sum_replicate_one]
      ring
    have h1 := apW_le_recall_total G (i := 0) (c := 0) (ws := List.replicate G 1 ++ rest.map Kind.tpw)
      (le_refl 0) (by simp) (by
        intro w hw
        rcases List.mem_append.1 hw with h | h
        · rw [(List.mem_replicate.1 h).2]; exact ⟨zero_le_one, le_refl 1⟩
        · rw [hz w h]; exact ⟨le_refl 0, zero_le_one⟩)
    rw [hsum] at h1
    exact le_trans h1 (recallOf_le_one G (le_refl _))
  · have h2 := apW_perfect_ge G hG G (i := 0) (zs := rest.map Kind.tpw)
      (fun z hz' => by rw [hz z hz'])
    simp only [Nat.cast_zero] at h2
    rwa [div_self (ne_of_gt hGq)] at h2

/-- no correct estimate (no TP weight anywhere in a non-empty ranking) ⇒ AP = 0 -/
theorem ap_zero_of_no_tp (G : Nat) (ks : List Kind) (hne : ks ≠ []) (h : ∀ k ∈ ks, k.tpw = 0) :
    (apOfKinds G ks).ap = some 0 := by
  rw [apOfKinds_ap hne]
  congr 1
  apply apW_zero
  intro w hw
  obtain ⟨k, hk, rfl⟩ := List.mem_map.1 hw
  exact h k hk

example : (apOfKinds 2 (List.replicate 2 (Kind.tp 1) ++ [Kind.fp, Kind.ignored])).ap = some 1 :=
  ap_one_of_perfect 2 (by decide) _ (by intro k hk; simp at hk; rcases hk with rfl | rfl <;> rfl)

/-! ## mAP / mAPH -/

/-- mAP (resp. mAPH) is the mean of the per-label APs (APHs) that are defined, `inf` if none is -/
theorem map_mean_of_defined {m : Mode} {is2d : Bool} {T : List Label} {th : List Rat}
    {buckets : List (Label × List (List Res))} {nums : List (Label × Nat)} {o : MapOut}
    (h : mapOf m is2d T th buckets nums = .ok o) :
    o.map = meanDefined (o.aps.map (·.ap)) ∧ o.maph = meanDefined (o.aphs.map (·.ap))
    ∧ ∀ l : List (Option Rat), meanDefined l =
        if l.filterMap id = [] then none
        else some ((l.filterMap id).sum / ((l.filterMap id).length : Rat)) := by
  refine ⟨?_, ?_, ?_⟩
  · unfold mapOf at h
    split at h
    · cases h
    · cases h; rfl
  · unfold mapOf at h
    split at h
    · cases h
    · cases h; rfl
  · intro l
    unfold meanDefined
    cases l.filterMap id <;> simp

theorem map_undefined_iff (l : List (Option Rat)) : meanDefined l = none ↔ ∀ x ∈ l, x = none := by
  unfold meanDefined
  simp only []
  constructor
  · intro h x hx
    split at h
    · cases h
    · next hlen =>
      cases x with
      | none => rfl
      | some v =>
        exfalso
        have : v ∈ l.filterMap id := List.mem_filterMap.2 ⟨some v, hx, rfl⟩
        exact hlen (List.length_pos_of_mem this)
  · intro h
    have : l.filterMap id = [] := by
      apply List.eq_nil_iff_forall_not_mem.2
      intro v hv
      obtain ⟨x, hx, hxv⟩ := List.mem_filterMap.1 hv
      rw [h x hx] at hxv
      cases hxv
    simp [this]

/-- the mean of values in `[lo, hi]` lies in `[lo, hi]`; with `ap_in_unit_interval`: mAP, mAPH ∈ [0,1] -/
theorem map_bounds (l : List (Option Rat)) (lo hi : Rat) (h : ∀ x, some x ∈ l → lo ≤ x ∧ x ≤ hi)
    (v : Rat) (hv : meanDefined l = some v) : lo ≤ v ∧ v ≤ hi := by
  unfold meanDefined at hv
  simp only [] at hv
  split at hv
  · next hpos =>
    cases hv
    have hb := sum_bounds (v := l.filterMap id) (lo := lo) (hi := hi) (by
      intro x hx
      obtain ⟨y, hy, hyx⟩ := List.mem_filterMap.1 hx
      cases y with
      | none => cases hyx
      | some z => cases hyx; exact h _ hy)
    have hq : (0 : Rat) < ((l.filterMap id).length : Rat) := by exact_mod_cast hpos
    exact ⟨(le_div_iff₀ hq).2 hb.1, (div_le_iff₀ hq).2 hb.2⟩
  · cases hv

/-! ## the ranking: `list.sort(key=confidence, reverse=True)` -/

theorem sort_perm (rs : List Res) : (sortDesc Res.conf rs).Perm rs := sortDesc_perm _ rs

theorem sort_sorted (rs : List Res) : (sortDesc Res.conf rs).Pairwise (fun a b => b.conf ≤ a.conf) :=
  sortDesc_sorted _ rs

/-- stability: the results of any one confidence value appear in their input order -/
theorem sort_stable (rs : List Res) (c : Rat) :
    (sortDesc Res.conf rs).filter (fun r => decide (r.conf = c))
      = rs.filter (fun r => decide (r.conf = c)) := sortDesc_filter _ rs c

/-- sorting again changes nothing (`Map` hands the list sorted by `Ap` on to the APH evaluation) -/
theorem sort_idem (rs : List Res) :
    sortDesc Res.conf (sortDesc Res.conf rs) = sortDesc Res.conf rs := sortDesc_idem _ rs

end PEval.C04
