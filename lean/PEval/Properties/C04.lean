import PEval.Properties.C04Core
import PEval.Properties.Pipeline
import PEval.Properties.C04Dict
import PEval.Properties.C04Tables
import PEval.Properties.C04Scene
import PEval.Properties.C04Perfect
import PEval.Properties.C04Pipeline
import PEval.Properties.C04Area
import PEval.Properties.C04ScenePipeline
import PEval.Properties.C04SceneEval
/-!
# C04 — AP, APH and mAP equal the interpolated precision-recall area, within [0,1] (root)

* `PEval/Properties/C04Core.lean` (namespace `PEval.C04`): the property theorems about the AP model;
  the bounds assume that each ground truth is the ground truth of at most one result.
* `PEval/Properties/Pipeline.lean` (namespace `PEval.PipelineProps`): the composition with the matcher
  model — `pipeline_ap_in_unit`, `pipeline_frameMap_in_unit`, `pipeline_aph_le_ap`: on every frame the
  pipeline produces, every defined AP / APH / mAP / mAPH lies in [0,1] and APH ≤ AP, the one-to-one
  hypothesis being discharged by C01's theorems and inherited by every `divide_objects` bucket.

* `PEval/Properties/C04Dict.lean` (namespace `PEval.C04`): `Map` reads its per-label dicts by key (key order
  and extra keys are irrelevant), the label list of the critical-object filter may be any listing of the
  evaluation config's labels, and a threshold `float("inf")` behaves like a number above every score.

* `PEval/Properties/C04Tables.lean` (namespace `PEval.C04`): the decision tables / expressions that `harness/dt_c04.py`
  extracts from the real `Ap` / `Map` code on every run equal the model's skeletons (`…_code_table_eq_model`).

* `PEval/Properties/C04Perfect.lean` (namespace `PEval.C04`): "AP = 1 when every ground truth is matched by a correct
  estimate and no wrong estimate outranks one, 0 when no estimate is correct" for the whole constructor `apOf` on results
  and ground truths; APH in the perfect case; no ground truth / no result; totality.
* `PEval/Properties/C04Pipeline.lean` (namespace `PEval.PipelineProps`): `is_detection_2d` free; the "AP = 1" clause on
  every `Map` of a pipeline frame with the one-to-one hypotheses discharged by C01.

* `PEval/Properties/C04Area.lean` (namespace `PEval.C04`): index-based area = recall-based area ("maximum precision at any
  higher recall") for non-decreasing recalls; `Map`'s i-th AP is the `Ap` of the i-th label on the bucket looked up by key.

* `PEval/Properties/C04ScenePipeline.lean` (namespace `PEval.PipelineProps`): `pipeline_scene_in_unit_interval` — the
  per-frame hypotheses of `C04.scene_in_unit_interval` discharged for histories of frames evaluated by
  `Pipeline.detectFrame` (C01's one-to-one theorems, frame by frame; ground-truth ids may repeat across frames).
* `PEval/Properties/C04SceneEval.lean` (namespace `PEval.C04`): `eval_scene_in_unit_interval` — the same for histories
  evaluated by `FrameChange.evalFrame`; the remaining input hypotheses (ids, heading weights) follow from the
  construction (`C03.ObjectsDistinct`, `C09.aphWeight_range`).

The core is a separate module only because the composition imports it (no import cycle); the audit
of `./check C04` imports this root and therefore sees both.
-/
