import PEval.Properties.C04Core
import PEval.Properties.Pipeline
import PEval.Properties.C04Dict
import PEval.Properties.C04Tables
import PEval.Properties.C04Scene
/-!
# C04 — AP, APH and mAP equal the interpolated precision-recall area, within [0,1] (root)

* `PEval/Properties/C04Core.lean` (namespace `PEval.C04`): the property theorems about the AP model;
  the bounds assume that each ground truth is the ground truth of at most one result.
* `PEval/Properties/Pipeline.lean` (namespace `PEval.PipelineProps`): the composition with the matcher
  model — `pipeline_ap_in_unit`, `pipeline_frameMap_in_unit`, `pipeline_aph_le_ap`: on every frame the
  pipeline produces, every defined AP / APH / mAP / mAPH lies in [0,1] and APH ≤ AP, the one-to-one
  hypothesis being discharged by C01's theorems and inherited by every `divide_objects` bucket.

* `PEval/Properties/C04Dict.lean` (namespace `PEval.C04`): `Map` reads its per-label dicts by key (key order
  and extra keys are irrelevant), the label list of the critical-object filter may be any listing of the
  evaluation config's labels, and a threshold `float("inf")` behaves like a number above every score.

* `PEval/Properties/C04Tables.lean` (namespace `PEval.C04`): the decision tables / expressions that `harness/dt_c04.py`
  extracts from the real `Ap` / `Map` code on every run equal the model's skeletons (`…_code_table_eq_model`).

The core is a separate module only because the composition imports it (no import cycle); the audit
of `./check C04` imports this root and therefore sees both.
-/
