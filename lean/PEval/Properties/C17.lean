import PEval.Lemmas.LookupArith
import PEval.Lemmas.LookupTable
import PEval.Lemmas.LookupLin
import PEval.Lemmas.LookupTotal
import PEval.Gen.LookupTables
import Mathlib.Tactic.FieldSimp
/-!
# C17 — ground-truth lookup picks the nearest frame in tolerance; interpolation is exact

Model: `PEval.Model.Lookup` (`getNowFrame`, `neighbours`/`getInterpolated`, `interpolateFrames`,
`interpolateObjectList`, `globalOf`, `managerLookup`).  All statements are over arbitrary frame
lists, query times and tolerances (integers), arbitrary rational poses; where the property speaks
of time-ordered lists the hypothesis is `List.Pairwise (·.time ≤ ·.time)`.

Headings are yaw angles in half-turns (DESIGN 4.2); `arc τ₁ τ₂` is the signed shortest arc.
-/
namespace PEval.C17
open PEval PEval.Lookup

/-! ## `get_now_frame` -/

/-- The result is a frame of the list that minimises `|dt|` and lies within the tolerance
(`|dt| ≤ thr`); it is `None` exactly when every frame is farther than the tolerance. -/
theorem getNow_spec (fs : List Frame) (t thr : Int) (ht : t ≤ maxTime) (hne : fs ≠ []) :
    (∃ f, getNowFrame fs t thr = .ok (some f) ∧ f ∈ fs ∧ (∀ g ∈ fs, absDt t f ≤ absDt t g) ∧
        (absDt t f : Int) ≤ thr) ∨
    (getNowFrame fs t thr = .ok none ∧ ∀ g ∈ fs, thr < (absDt t g : Int)) := by
  cases fs with
  | nil => exact absurd rfl hne
  | cons f0 rest =>
    have hmin := argminLoop_le t (f0 :: rest) f0
    have hmem : argminLoop t f0 (f0 :: rest) ∈ f0 :: rest := by
      rcases argminLoop_mem t (f0 :: rest) f0 with h | h
      · rw [h]; exact List.mem_cons_self
      · exact h
    unfold getNowFrame
    rw [if_neg (by omega)]
    simp only
    by_cases hthr : (absDt t (argminLoop t f0 (f0 :: rest)) : Int) > thr
    · right
      rw [if_pos hthr]
      refine ⟨rfl, ?_⟩
      intro g hg
      have := hmin g hg
      omega
    · left
      rw [if_neg hthr]
      exact ⟨_, rfl, hmem, hmin, by omega⟩

/-- About the MODEL only (today's scan; the property leaves the choice among equidistant frames open and
nothing about the code is derived from this): among frames at the same minimal distance the first one
in list order is returned: every frame before the returned one is strictly farther. -/
theorem getNow_first_tie (fs : List Frame) (t thr : Int) (f : Frame)
    (h : getNowFrame fs t thr = .ok (some f)) :
    ∃ pre post, fs = pre ++ f :: post ∧ ∀ g ∈ pre, absDt t f < absDt t g := by
  unfold getNowFrame at h
  split at h
  · cases h
  · cases fs with
    | nil => cases h
    | cons f0 rest =>
      simp only at h
      split at h
      · cases h
      · simp only [Except.ok.injEq, Option.some.injEq] at h
        have hstep : argminLoop t f0 (f0 :: rest) = argminLoop t f0 rest := by
          simp [argminLoop]
        rw [hstep] at h
        rcases argminLoop_first t rest f0 with h0 | ⟨pre, post, hfs, hlt, hpre⟩
        · refine ⟨[], rest, ?_, by simp⟩
          rw [← h, h0]; rfl
        · rw [h] at hfs hlt hpre
          refine ⟨f0 :: pre, post, by rw [List.cons_append, ← hfs], ?_⟩
          intro g hg
          rcases List.mem_cons.1 hg with rfl | hg'
          · exact hlt
          · exact hpre g hg'

/-- About the MODEL only (inputs outside the property's quantifier; the code's table is not held to
these classes): the two error branches, the nano-second guard and the empty list -/
theorem getNow_errors (fs : List Frame) (t thr : Int) :
    (maxTime < t → getNowFrame fs t thr = .error "DatasetLoadingError") ∧
    (t ≤ maxTime → getNowFrame [] t thr = .error "IndexError") := by
  constructor
  · intro h; unfold getNowFrame; rw [if_pos h]
  · intro h; unfold getNowFrame; rw [if_neg (by omega)]

/-! ## neighbour search of `get_interpolated_now_frame` -/

/-- For ANY list the scan splits it as `pre ++ post`: everything in `pre` is not later than the
query, the head of `post` (if any) is later; `before` is the last frame of `pre`, `after` the first
of `post`, and the recorded gaps are the true gaps (0 when the neighbour is missing). -/
theorem neighbours_split (fs : List Frame) (t : Int) :
    ∃ pre post, fs = pre ++ post ∧ (∀ g ∈ pre, g.time ≤ t) ∧
      (∀ a, post.head? = some a → t < a.time) ∧
      (neighbours fs t).before = pre.getLast? ∧
      (neighbours fs t).dtBefore = ((pre.getLast?).map (fun f => t - f.time)).getD 0 ∧
      (neighbours fs t).after = post.head? ∧
      (neighbours fs t).dtAfter = ((post.head?).map (fun a => a.time - t)).getD 0 := by
  obtain ⟨pre, post, h1, h2, h3, h4, h5, h6, h7⟩ := scan_split t fs none 0
  exact ⟨pre, post, h1, h2, h3, by rw [neighbours, h4]; simp, h5, h6, h7⟩

/-- Time-ordered list: `pre` is exactly the frames not later than the query and `post` exactly the
later ones, so `before` = the LAST frame with `time ≤ t` and `after` = the FIRST frame with
`time > t`. -/
theorem neighbours_spec (fs : List Frame) (t : Int)
    (hs : fs.Pairwise (fun x y => x.time ≤ y.time)) :
    ∃ pre post, fs = pre ++ post ∧ (∀ g ∈ pre, g.time ≤ t) ∧ (∀ g ∈ post, t < g.time) ∧
      (neighbours fs t).before = pre.getLast? ∧ (neighbours fs t).after = post.head? ∧
      (neighbours fs t).dtBefore = ((pre.getLast?).map (fun f => t - f.time)).getD 0 ∧
      (neighbours fs t).dtAfter = ((post.head?).map (fun a => a.time - t)).getD 0 := by
  obtain ⟨pre, post, h1, h2, h3, h4, h5, h6, h7⟩ := neighbours_split fs t
  refine ⟨pre, post, h1, h2, ?_, h4, h6, h5, h7⟩
  rw [h1] at hs
  have hpost := (List.pairwise_append.1 hs).2.1
  intro g hg
  cases post with
  | nil => cases hg
  | cons a rest =>
    have ha := h3 a rfl
    rcases List.mem_cons.1 hg with rfl | hg'
    · exact ha
    · have := (List.pairwise_cons.1 hpost).1 g hg'
      omega

/-! ## tolerance gating and the four outcomes -/

/-- The outcome is decided by which neighbours survive the tolerance test `dt ≤ thr`. -/
theorem gating (fs : List Frame) (t thr : Int) :
    getInterpolated fs t thr =
      match gate thr (neighbours fs t).dtBefore (neighbours fs t).before,
            gate thr (neighbours fs t).dtAfter (neighbours fs t).after with
      | none, none => .ok .nothing
      | none, some a => .ok (.orig a)
      | some b, none => .ok (.orig b)
      | some b, some a =>
        match interpolateFrames b a t with
        | .error k => .error k
        | .ok f => .ok (.interp f) := rfl

/-- both neighbours exist and are within tolerance: the interpolated frame -/
theorem gating_both (fs : List Frame) (t thr : Int) (b a : Frame)
    (hb : (neighbours fs t).before = some b) (ha : (neighbours fs t).after = some a)
    (hdb : t - b.time ≤ thr) (hda : a.time - t ≤ thr) :
    getInterpolated fs t thr =
      match interpolateFrames b a t with
      | .error k => .error k
      | .ok f => .ok (.interp f) := by
  obtain ⟨pre, post, _, _, _, h4, h5, h6, h7⟩ := neighbours_split fs t
  rw [gating]
  have e1 : gate thr (neighbours fs t).dtBefore (neighbours fs t).before = some b := by
    rw [h5, ← h4, hb]; simp only [Option.map_some, Option.getD_some, gate]; rw [if_neg (by omega)]
  have e2 : gate thr (neighbours fs t).dtAfter (neighbours fs t).after = some a := by
    rw [h7, ← h6, ha]; simp only [Option.map_some, Option.getD_some, gate]; rw [if_neg (by omega)]
  rw [e1, e2]

/-- only the earlier neighbour is usable (the later one is missing or beyond tolerance) -/
theorem gating_before_only (fs : List Frame) (t thr : Int) (b : Frame)
    (hb : (neighbours fs t).before = some b) (hdb : t - b.time ≤ thr)
    (ha : (neighbours fs t).after = none ∨ ∃ a, (neighbours fs t).after = some a ∧ thr < a.time - t) :
    getInterpolated fs t thr = .ok (.orig b) := by
  obtain ⟨pre, post, _, _, _, h4, h5, h6, h7⟩ := neighbours_split fs t
  rw [gating]
  have e1 : gate thr (neighbours fs t).dtBefore (neighbours fs t).before = some b := by
    rw [h5, ← h4, hb]; simp only [Option.map_some, Option.getD_some, gate]; rw [if_neg (by omega)]
  have e2 : gate thr (neighbours fs t).dtAfter (neighbours fs t).after = none := by
    rcases ha with ha | ⟨a, ha, hlt⟩
    · rw [ha]; unfold gate; split <;> rfl
    · rw [h7, ← h6, ha]; simp only [Option.map_some, Option.getD_some, gate]; rw [if_pos (by omega)]
  rw [e1, e2]

/-- only the later neighbour is usable (the earlier one is missing or beyond tolerance) -/
theorem gating_after_only (fs : List Frame) (t thr : Int) (a : Frame)
    (ha : (neighbours fs t).after = some a) (hda : a.time - t ≤ thr)
    (hb : (neighbours fs t).before = none ∨ ∃ b, (neighbours fs t).before = some b ∧ thr < t - b.time) :
    getInterpolated fs t thr = .ok (.orig a) := by
  obtain ⟨pre, post, _, _, _, h4, h5, h6, h7⟩ := neighbours_split fs t
  rw [gating]
  have e2 : gate thr (neighbours fs t).dtAfter (neighbours fs t).after = some a := by
    rw [h7, ← h6, ha]; simp only [Option.map_some, Option.getD_some, gate]; rw [if_neg (by omega)]
  have e1 : gate thr (neighbours fs t).dtBefore (neighbours fs t).before = none := by
    rcases hb with hb | ⟨b, hb, hlt⟩
    · rw [hb]; unfold gate; split <;> rfl
    · rw [h5, ← h4, hb]; simp only [Option.map_some, Option.getD_some, gate]; rw [if_pos (by omega)]
  rw [e1, e2]

/-- no neighbour within tolerance: nothing -/
theorem gating_none (fs : List Frame) (t thr : Int)
    (hb : (neighbours fs t).before = none ∨ ∃ b, (neighbours fs t).before = some b ∧ thr < t - b.time)
    (ha : (neighbours fs t).after = none ∨ ∃ a, (neighbours fs t).after = some a ∧ thr < a.time - t) :
    getInterpolated fs t thr = .ok .nothing := by
  obtain ⟨pre, post, _, _, _, h4, h5, h6, h7⟩ := neighbours_split fs t
  rw [gating]
  have e1 : gate thr (neighbours fs t).dtBefore (neighbours fs t).before = none := by
    rcases hb with hb | ⟨b, hb, hlt⟩
    · rw [hb]; unfold gate; split <;> rfl
    · rw [h5, ← h4, hb]; simp only [Option.map_some, Option.getD_some, gate]; rw [if_pos (by omega)]
  have e2 : gate thr (neighbours fs t).dtAfter (neighbours fs t).after = none := by
    rcases ha with ha | ⟨a, ha, hlt⟩
    · rw [ha]; unfold gate; split <;> rfl
    · rw [h7, ← h6, ha]; simp only [Option.map_some, Option.getD_some, gate]; rw [if_pos (by omega)]
  rw [e1, e2]

/-! ## the interpolated frame -/

/-- What an interpolated answer is made of: both neighbours of the scan, within tolerance, with
`b.time ≤ t < a.time`; both carry an ego pose; the objects are the object-list interpolation of the
two neighbours' objects moved to the map frame by their own ego pose. -/
theorem interp_reaches (fs : List Frame) (t thr : Int) (f : InterpFrame)
    (h : getInterpolated fs t thr = .ok (.interp f)) :
    ∃ b a eb ea, (neighbours fs t).before = some b ∧ (neighbours fs t).after = some a ∧
      b.time ≤ t ∧ t < a.time ∧ t - b.time ≤ thr ∧ a.time - t ≤ thr ∧
      b.ego = some eb ∧ a.ego = some ea ∧ f.baseId = b.id ∧
      f.objs = interpolateObjectList (b.objs.map (globalOf eb)) (a.objs.map (globalOf ea))
                  b.time a.time t := by
  obtain ⟨b, a, hb, ha, hdb, hda, hi⟩ := getInterpolated_interp h
  obtain ⟨pre, post, _, hpre, hpost, h4, h5, h6, h7⟩ := neighbours_split fs t
  obtain ⟨eb, ea, heb, hea, h1, _, _, _, _, hf⟩ := interpolateFrames_ok hi
  have hlt : t < a.time := hpost a (by rw [← h6, ha])
  rw [h5, ← h4, hb] at hdb
  rw [h7, ← h6, ha] at hda
  simp only [Option.map_some, Option.getD_some] at hdb hda
  refine ⟨b, a, eb, ea, hb, ha, h1, hlt, hdb, hda, heb, hea, ?_, ?_⟩ <;> rw [hf]

/-- The interpolated frame is stamped with exactly the query time, and so is every interpolated
(paired) object. -/
theorem interp_time_eq_query :
    (∀ (fs : List Frame) (t thr : Int) (f : InterpFrame),
        getInterpolated fs t thr = .ok (.interp f) → f.time = t) ∧
    (∀ (b a : Frame) (t : Int) (f : InterpFrame), interpolateFrames b a t = .ok f → f.time = t) ∧
    (∀ (o1 o2 : Obj) (t1 t2 t : Int), (interpObj o1 o2 t1 t2 t).time = t) := by
  refine ⟨?_, ?_, fun _ _ _ _ _ => rfl⟩
  · intro fs t thr f h
    obtain ⟨b, a, _, _, _, _, hi⟩ := getInterpolated_interp h
    obtain ⟨_, _, _, _, _, _, _, _, _, hf⟩ := interpolateFrames_ok hi
    rw [hf]
  · intro b a t f hi
    obtain ⟨_, _, _, _, _, _, _, _, _, hf⟩ := interpolateFrames_ok hi
    rw [hf]

/-- Shape of the interpolated object list, in the code's order: position `i < |l1|` holds the
image of the `i`-th object of the first list (interpolated with the first object of the second list
carrying the same uuid, copied when there is none); the tail is the second pass over `l2`. -/
theorem interp_objects (l1 l2 : List Obj) (t1 t2 t : Int) :
    (interpolateObjectList l1 l2 t1 t2 t).length = l1.length + (secondPass (l1.map (·.uuid)) l2).length ∧
    (∀ i (hi : i < l1.length),
        (interpolateObjectList l1 l2 t1 t2 t)[i]? = some (stepFirst l2 t1 t2 t l1[i])) ∧
    (interpolateObjectList l1 l2 t1 t2 t).drop l1.length = secondPass (l1.map (·.uuid)) l2 := by
  refine ⟨by simp [interpolateObjectList], ?_, ?_⟩
  · intro i hi
    unfold interpolateObjectList
    rw [List.getElem?_append_left (by simpa using hi)]
    simp [hi]
  · unfold interpolateObjectList
    rw [List.drop_append]
    simp

/-- An object present in both neighbours lies on the straight segment between its two poses at
the proportional time: `pos = p1 + α (p2 - p1)` with `α (t2 - t1) = t - t1` and `0 ≤ α ≤ 1`
(each coordinate between the two end coordinates); its velocity likewise when both are present;
it keeps the first object's uuid and shape and is stamped with the query time. -/
theorem interp_on_segment (l1 l2 : List Obj) (t1 t2 t : Int) (h1 : t1 ≤ t) (h2 : t ≤ t2)
    (h12 : t1 < t2) (i : Nat) (hi : i < l1.length) (o2 : Obj)
    (hfind : l2.find? (fun o => l1[i].uuid == o.uuid) = some o2) :
    ∃ r α, (interpolateObjectList l1 l2 t1 t2 t)[i]? = some r ∧ α = alpha t1 t2 t ∧
      o2 ∈ l2 ∧ o2.uuid = l1[i].uuid ∧ r.uuid = l1[i].uuid ∧
      0 ≤ α ∧ α ≤ 1 ∧ α * ((t2 : ℚ) - (t1 : ℚ)) = (t : ℚ) - (t1 : ℚ) ∧
      r.pos.x = l1[i].pos.x + α * (o2.pos.x - l1[i].pos.x) ∧
      r.pos.y = l1[i].pos.y + α * (o2.pos.y - l1[i].pos.y) ∧
      r.pos.z = l1[i].pos.z + α * (o2.pos.z - l1[i].pos.z) ∧
      (min l1[i].pos.x o2.pos.x ≤ r.pos.x ∧ r.pos.x ≤ max l1[i].pos.x o2.pos.x) ∧
      (min l1[i].pos.y o2.pos.y ≤ r.pos.y ∧ r.pos.y ≤ max l1[i].pos.y o2.pos.y) ∧
      (min l1[i].pos.z o2.pos.z ≤ r.pos.z ∧ r.pos.z ≤ max l1[i].pos.z o2.pos.z) ∧
      r.tau = l1[i].tau + α * arc l1[i].tau o2.tau ∧
      (∀ v1 v2, l1[i].vel = some v1 → o2.vel = some v2 → r.vel = some (Vec3.lerp v1 v2 α)) ∧
      r.size = l1[i].size ∧ r.time = t ∧ r.frame = l1[i].frame ∧ r.id = l1[i].id := by
  have hα0 := alpha_nonneg h1 h12
  have hα1 := alpha_le_one h2 h12
  refine ⟨interpObj l1[i] o2 t1 t2 t, alpha t1 t2 t, ?_, rfl, List.mem_of_find?_eq_some hfind, ?_, rfl,
    hα0, hα1, alpha_mul (by omega), rfl, rfl, rfl, lerp_between hα0 hα1, lerp_between hα0 hα1,
    lerp_between hα0 hα1, rfl, ?_, rfl, rfl, rfl, rfl⟩
  · rw [(interp_objects l1 l2 t1 t2 t).2.1 i hi, stepFirst_found hfind]
  · have hu : l1[i].uuid = o2.uuid := by simpa using List.find?_some hfind
    exact hu.symm
  · intro v1 v2 hv1 hv2
    show interpVel _ l1[i].vel o2.vel = _
    rw [hv1, hv2]; rfl

/-- At the earlier neighbour's own timestamp (`α = 0`) the interpolated object reproduces the first
object's pose exactly: same position, heading, shape (and velocity when the partner has one). -/
theorem interp_at_neighbour (o1 o2 : Obj) (t1 t2 : Int) :
    alpha t1 t2 t1 = 0 ∧
    (interpObj o1 o2 t1 t2 t1).pos = o1.pos ∧ (interpObj o1 o2 t1 t2 t1).tau = o1.tau ∧
    (interpObj o1 o2 t1 t2 t1).size = o1.size ∧ (interpObj o1 o2 t1 t2 t1).time = t1 ∧
    (o2.vel.isSome → (interpObj o1 o2 t1 t2 t1).vel = o1.vel) := by
  have h0 := alpha_self_left t1 t2
  refine ⟨h0, ?_, ?_, rfl, rfl, ?_⟩
  · show Vec3.lerp o1.pos o2.pos (alpha t1 t2 t1) = o1.pos
    rw [h0, Vec3.lerp_zero]
  · show o1.tau + alpha t1 t2 t1 * arc o1.tau o2.tau = o1.tau
    rw [h0]; ring
  · intro hv
    show interpVel (alpha t1 t2 t1) o1.vel o2.vel = o1.vel
    rw [h0]
    cases h1 : o1.vel with
    | none => rfl
    | some v1 =>
      cases h2 : o2.vel with
      | none => rw [h2] at hv; cases hv
      | some v2 => simp [interpVel, Vec3.lerp_zero]

/-- At the later neighbour's timestamp (`α = 1`; reachable only by calling
`interpolate_ground_truth_frames` directly, see `interp_never_at_later`) the second object's pose is
reproduced: same position, the same heading up to whole turns (and velocity when both have one). -/
theorem interp_at_later_neighbour (o1 o2 : Obj) (t1 t2 : Int) (h12 : t1 ≠ t2) :
    alpha t1 t2 t2 = 1 ∧
    (interpObj o1 o2 t1 t2 t2).pos = o2.pos ∧
    (∃ k : Int, (interpObj o1 o2 t1 t2 t2).tau = o2.tau - 2 * (k : ℚ)) ∧
    (∀ v1 v2, o1.vel = some v1 → o2.vel = some v2 → (interpObj o1 o2 t1 t2 t2).vel = some v2) := by
  have h1 := alpha_self_right h12
  refine ⟨h1, ?_, ?_, ?_⟩
  · show Vec3.lerp o1.pos o2.pos (alpha t1 t2 t2) = o2.pos
    rw [h1, Vec3.lerp_one]
  · obtain ⟨k, hk⟩ := wrap_congr (o2.tau - o1.tau)
    refine ⟨k, ?_⟩
    show o1.tau + alpha t1 t2 t2 * arc o1.tau o2.tau = _
    rw [h1, arc, hk]; ring
  · intro v1 v2 hv1 hv2
    show interpVel (alpha t1 t2 t2) o1.vel o2.vel = _
    rw [h1, hv1, hv2]
    simp [interpVel, Vec3.lerp_one]

/-- A lookup never interpolates AT the later neighbour: whenever `get_interpolated_now_frame`
interpolates, the query is strictly before the later neighbour, so `0 ≤ α < 1`. -/
theorem interp_never_at_later (fs : List Frame) (t thr : Int) (f : InterpFrame)
    (h : getInterpolated fs t thr = .ok (.interp f)) :
    ∃ b a, (neighbours fs t).before = some b ∧ (neighbours fs t).after = some a ∧
      b.time ≤ t ∧ t < a.time ∧ 0 ≤ alpha b.time a.time t ∧ alpha b.time a.time t < 1 := by
  obtain ⟨b, a, _, _, hb, ha, h1, h2, _⟩ := interp_reaches fs t thr f h
  exact ⟨b, a, hb, ha, h1, h2, alpha_nonneg h1 (by omega), alpha_lt_one h2 (by omega)⟩

/-- What happens for a query exactly on a frame `g` of a strictly time-ordered list: `g` itself is
the EARLIER neighbour with gap 0.  With a non-negative tolerance the answer is `g` itself when the
next frame is missing or beyond tolerance, and otherwise the interpolation between `g` and the next
frame at `α = 0` (which reproduces `g`'s poses, `interp_at_neighbour`); with a negative tolerance
nothing is returned. -/
theorem query_on_frame (fs : List Frame) (g : Frame) (thr : Int)
    (hs : fs.Pairwise (fun x y => x.time < y.time)) (hg : g ∈ fs) :
    (neighbours fs g.time).before = some g ∧ (neighbours fs g.time).dtBefore = 0 ∧
    (0 ≤ thr → getInterpolated fs g.time thr =
      match gate thr (neighbours fs g.time).dtAfter (neighbours fs g.time).after with
      | none => .ok (.orig g)
      | some a =>
        match interpolateFrames g a g.time with
        | .error k => .error k
        | .ok f => .ok (.interp f)) ∧
    (thr < 0 → getInterpolated fs g.time thr = .ok .nothing) := by
  obtain ⟨pre, post, hfs, hpre, hpost, h4, h5, h6, h7⟩ := neighbours_split fs g.time
  rw [hfs] at hs hg
  obtain ⟨hspre, hspost, hcross⟩ := List.pairwise_append.1 hs
  -- g is in `pre`
  have hgpre : g ∈ pre := by
    rcases List.mem_append.1 hg with h | h
    · exact h
    · exfalso
      cases post with
      | nil => cases h
      | cons a rest =>
        have ha := hpost a rfl
        rcases List.mem_cons.1 h with rfl | h'
        · omega
        · have := (List.pairwise_cons.1 hspost).1 g h'
          omega
  -- and it is its last element
  have hlast : pre.getLast? = some g := by
    cases hl : pre.getLast? with
    | none => rw [List.getLast?_eq_none_iff] at hl; rw [hl] at hgpre; cases hgpre
    | some l =>
      obtain ⟨ys, hys⟩ := List.getLast?_eq_some_iff.1 hl
      rw [hys] at hgpre hspre hpre
      rcases List.mem_append.1 hgpre with h | h
      · exfalso
        have h1 := (List.pairwise_append.1 hspre).2.2 g h l (by simp)
        have h2 := hpre l (by simp)
        omega
      · simp only [List.mem_singleton] at h
        rw [h]
  have hb : (neighbours fs g.time).before = some g := by rw [h4, hlast]
  have hdb : (neighbours fs g.time).dtBefore = 0 := by rw [h5, hlast]; simp
  refine ⟨hb, hdb, ?_, ?_⟩
  · intro hthr
    rw [gating, hb, hdb]
    have : gate thr 0 (some g) = some g := by unfold gate; rw [if_neg (by omega)]
    rw [this]
    cases gate thr (neighbours fs g.time).dtAfter (neighbours fs g.time).after <;> rfl
  · intro hthr
    rw [gating, hb, hdb]
    have e1 : gate thr 0 (some g) = none := by unfold gate; rw [if_pos (by omega)]
    have e2 : gate thr (neighbours fs g.time).dtAfter (neighbours fs g.time).after = none := by
      rw [h7, h6]
      cases hp : post.head? with
      | none => unfold gate; split <;> rfl
      | some a =>
        have := hpost a hp
        simp only [Option.map_some, Option.getD_some, gate]
        rw [if_pos (by omega)]
    rw [e1, e2]

/-! ## objects present in only one neighbour -/

/-- Objects of the first neighbour without partner are copied verbatim to their own position;
the tail of the result is a sub-list of the second neighbour's objects (verbatim, order kept)
holding exactly the uuids that the first neighbour lacks; every uuid of either neighbour is present
in the result. -/
theorem interp_keeps_unpaired (l1 l2 : List Obj) (t1 t2 t : Int) :
    (∀ i (hi : i < l1.length), (∀ o ∈ l2, o.uuid ≠ l1[i].uuid) →
        (interpolateObjectList l1 l2 t1 t2 t)[i]? = some l1[i]) ∧
    ((interpolateObjectList l1 l2 t1 t2 t).drop l1.length).Sublist l2 ∧
    (∀ o ∈ (interpolateObjectList l1 l2 t1 t2 t).drop l1.length, o.uuid ∉ l1.map (·.uuid)) ∧
    (∀ o ∈ l2, o.uuid ∉ l1.map (·.uuid) →
        ∃ o' ∈ (interpolateObjectList l1 l2 t1 t2 t).drop l1.length, o' ∈ l2 ∧ o'.uuid = o.uuid) ∧
    (∀ o ∈ l1 ++ l2, o.uuid ∈ (interpolateObjectList l1 l2 t1 t2 t).map (·.uuid)) := by
  have hdrop := (interp_objects l1 l2 t1 t2 t).2.2
  refine ⟨?_, ?_, ?_, ?_, ?_⟩
  · intro i hi hno
    rw [(interp_objects l1 l2 t1 t2 t).2.1 i hi, stepFirst_not_found hno]
  · rw [hdrop]; exact secondPass_sublist l2 _
  · rw [hdrop]; exact secondPass_not_in l2 _
  · intro o ho hnot
    rw [hdrop]
    obtain ⟨o', ho', hu⟩ := secondPass_covers l2 _ o ho hnot
    exact ⟨o', ho', (secondPass_sublist l2 _).subset ho', hu⟩
  · intro o ho
    have huu : (interpolateObjectList l1 l2 t1 t2 t).map (·.uuid) =
        l1.map (·.uuid) ++ (secondPass (l1.map (·.uuid)) l2).map (·.uuid) := by
      unfold interpolateObjectList
      rw [List.map_append, firstPass_uuids]
    rw [huu]
    rcases List.mem_append.1 ho with h | h
    · exact List.mem_append_left _ (List.mem_map.2 ⟨o, h, rfl⟩)
    · by_cases hin : o.uuid ∈ l1.map (·.uuid)
      · exact List.mem_append_left _ hin
      · obtain ⟨o', ho', hu⟩ := secondPass_covers l2 _ o h hin
        exact List.mem_append_right _ (List.mem_map.2 ⟨o', ho', hu⟩)

/-- With uuids unique inside the second neighbour the tail is exactly the filter "uuid not in the
first neighbour", in the second neighbour's order. -/
theorem interp_second_pass_filter (l1 l2 : List Obj) (t1 t2 t : Int)
    (hnd : (l2.map (·.uuid)).Nodup) :
    (interpolateObjectList l1 l2 t1 t2 t).drop l1.length =
      l2.filter (fun o => decide (o.uuid ∉ l1.map (·.uuid))) := by
  rw [(interp_objects l1 l2 t1 t2 t).2.2]
  exact secondPass_eq_filter l2 _ hnd

/-- The uuids of the result, in order: those of the first neighbour, then the new ones of the
second; no uuid is duplicated when the first neighbour has none duplicated. -/
theorem interp_uuids (l1 l2 : List Obj) (t1 t2 t : Int) :
    (interpolateObjectList l1 l2 t1 t2 t).map (·.uuid) =
      l1.map (·.uuid) ++ (secondPass (l1.map (·.uuid)) l2).map (·.uuid) ∧
    ((l1.map (·.uuid)).Nodup → ((interpolateObjectList l1 l2 t1 t2 t).map (·.uuid)).Nodup) := by
  have huu : (interpolateObjectList l1 l2 t1 t2 t).map (·.uuid) =
      l1.map (·.uuid) ++ (secondPass (l1.map (·.uuid)) l2).map (·.uuid) := by
    unfold interpolateObjectList
    rw [List.map_append, firstPass_uuids]
  refine ⟨huu, ?_⟩
  intro hnd
  rw [huu, List.nodup_append]
  refine ⟨hnd, secondPass_uuids_nodup l2 _, ?_⟩
  intro u hu1 v hv2 huv
  obtain ⟨o, ho, hou⟩ := List.mem_map.1 hv2
  exact secondPass_not_in l2 _ o ho (by rw [hou, ← huv]; exact hu1)

/-! ## headings -/

/-- `arc τ₁ τ₂` is a representative of `τ₂ - τ₁` modulo whole turns (2 half-turns), lies in
`[-1, 1)`, and no representative is shorter. -/
theorem arc_spec (τ₁ τ₂ : ℚ) :
    (∃ k : Int, τ₁ + arc τ₁ τ₂ = τ₂ - 2 * (k : ℚ)) ∧ -1 ≤ arc τ₁ τ₂ ∧ arc τ₁ τ₂ < 1 ∧
    ∀ m : Int, |arc τ₁ τ₂| ≤ |τ₂ - τ₁ + 2 * (m : ℚ)| := by
  obtain ⟨k, hk⟩ := wrap_congr (τ₂ - τ₁)
  refine ⟨⟨k, by rw [arc, hk]; ring⟩, (wrap_range _).1, (wrap_range _).2, fun m => wrap_min _ m⟩

/-- The interpolated heading `τ₁ + α·arc` (this is `interpObj`'s heading) stays on the shortest
arc: its offset from `τ₁` is the fraction `α` of the arc, in the arc's direction, never longer than
the arc, and the arc is no longer than half a turn. -/
theorem yaw_shortest_arc (o1 o2 : Obj) (t1 t2 t : Int) (h1 : t1 ≤ t) (h2 : t ≤ t2) (h12 : t1 < t2) :
    let τ := (interpObj o1 o2 t1 t2 t).tau
    let d := arc o1.tau o2.tau
    τ - o1.tau = alpha t1 t2 t * d ∧ |τ - o1.tau| ≤ |d| ∧ |d| ≤ 1 ∧
    (∀ m : Int, |d| ≤ |o2.tau - o1.tau + 2 * (m : ℚ)|) ∧
    (0 ≤ d → o1.tau ≤ τ ∧ τ ≤ o1.tau + d) ∧ (d ≤ 0 → o1.tau + d ≤ τ ∧ τ ≤ o1.tau) := by
  have hα0 := alpha_nonneg h1 h12
  have hα1 := alpha_le_one h2 h12
  have hτ : (interpObj o1 o2 t1 t2 t).tau - o1.tau = alpha t1 t2 t * arc o1.tau o2.tau := by
    show o1.tau + alpha t1 t2 t * arc o1.tau o2.tau - o1.tau = _
    ring
  refine ⟨hτ, ?_, abs_wrap_le_one _, (arc_spec o1.tau o2.tau).2.2.2, ?_, ?_⟩
  · rw [hτ]; exact abs_mul_le_of_unit hα0 hα1
  · intro hd
    constructor <;> nlinarith
  · intro hd
    constructor <;> nlinarith

/-! ## the manager entry point only dispatches -/

theorem manager_dispatch (fs : List Frame) (t thr : Int) :
    managerLookup fs t thr true = getInterpolated fs t thr ∧
    managerLookup fs t thr false =
      match getNowFrame fs t thr with
      | .error k => .error k
      | .ok none => .ok .nothing
      | .ok (some f) => .ok (.orig f) := ⟨rfl, rfl⟩

/-! ## non-vacuity: concrete instances of the hypotheses -/

section Examples

def v (x y z : ℚ) : Vec3 := ⟨x, y, z⟩
def ob (id uuid : Nat) (time : Int) (x y : ℚ) (tau : ℚ) : Obj :=
  { id := id, uuid := uuid, time := time, frame := .baseLink, pos := v x y 0, tau := tau,
    size := v 2 4 1, vel := some (v 1 0 0) }
def e0 : Pose := { c := 1, s := 0, tau := 0, trans := v 0 0 0 }
def e1 : Pose := { c := 0, s := 1, tau := 1/2, trans := v 10 0 0 }
def fr0 : Frame := { id := 0, time := 1000, ego := some e0, objs := [ob 1 7 1000 1 0 (3/4), ob 2 8 1000 5 5 0] }
def fr1 : Frame := { id := 1, time := 2000, ego := some e1, objs := [ob 3 9 2000 0 0 0, ob 4 7 2000 3 0 (-3/4)] }
def fr2 : Frame := { id := 2, time := 3000, ego := some e0, objs := [] }

/-- nearest frame within tolerance; a tie (1500) goes to the first frame; beyond tolerance nothing -/
example : getNowFrame [fr0, fr1, fr2] 1400 400 = .ok (some fr0) := by decide +kernel
example : getNowFrame [fr0, fr1, fr2] 1500 500 = .ok (some fr0) := by decide +kernel
example : getNowFrame [fr0, fr1, fr2] 1500 499 = .ok none := by decide +kernel

/-- the time-ordered hypothesis of `neighbours_spec` / `query_on_frame` holds of a real timeline -/
example : [fr0, fr1, fr2].Pairwise (fun x y => x.time < y.time) := by decide +kernel

/-- the four outcomes -/
example : getInterpolated [fr0, fr1, fr2] 990 75 = .ok (.orig fr0) := by decide +kernel
example : getInterpolated [fr0, fr1, fr2] 1400 400 = .ok (.orig fr0) := by decide +kernel
example : getInterpolated [fr0, fr1, fr2] 1600 400 = .ok (.orig fr1) := by decide +kernel
example : getInterpolated [fr0, fr1, fr2] 1500 499 = .ok .nothing := by decide +kernel

/-- both within tolerance: uuid 7 is paired (map-frame poses (1,0,3/4) and (10,3,-1/4): the arc is
-1, half of it from 3/4 gives 1/4), uuid 8 only before, uuid 9 only after (both moved to the map frame, otherwise verbatim) -/
example : (getInterpolated [fr0, fr1, fr2] 1500 500).toOption.map
    (fun o => match o with
      | .interp f => f.objs.map (fun o => (o.id, o.uuid, o.time, o.pos, o.tau))
      | _ => []) =
    some [(1, 7, 1500, v (11/2) (3/2) 0, 1/4), (2, 8, 1000, v 5 5 0, 0), (3, 9, 2000, v 10 0 0, 1/2)] := by
  decide +kernel

/-- a query on the middle frame interpolates between it and the NEXT frame at α = 0 -/
example : (getInterpolated [fr0, fr1, fr2] 2000 1000).toOption.map
    (fun o => match o with
      | .interp f => (f.baseId, f.objs.map (fun o => (o.id, o.pos, o.tau)))
      | _ => (99, [])) =
    some (1, [(3, v 10 0 0, 1/2), (4, v 10 3 (0), -1/4)]) := by decide +kernel

end Examples

/-! ## the CODE's decision tables (regenerated from the source on every run)

`Gen.getNowTrees` / `Gen.getInterpTrees` hold, for frame lists of length 0..3, the complete decision
tree of the REAL `get_now_frame` / `get_interpolated_now_frame` over three-valued order atoms
(`harness/dt_c17.py`).  This is a BOUNDED skeleton (up to three frames); the unbounded statements are
the theorems above about the model.

What is demanded of the code's table is what the property says and no more ("returns the loaded frame
closest in time if it is within the tolerance and nothing otherwise", "all time-ordered frame lists"):

* `get_now_frame`: on every NON-DECREASING list of stamps, every query time `q ≤ 10^17` and every
  tolerance the table answers with SOME frame of minimal `|dt|` that lies within the tolerance, or with
  nothing when every frame is farther (`LookupDT.NowSpec`).  Which of several equidistant frames is
  returned, which linear forms the code compares (`|dt|` differences, `q - t i`, a bisection), what it
  does on lists that are not time-ordered, on the empty list and beyond the unit guard is NOT part
  of the obligation (the first-of-ties behaviour of today's code is `getNow_first_tie`, a theorem
  about the MODEL only).
* `get_interpolated_now_frame`: on every STRICTLY INCREASING list of stamps the table reaches the
  leaf of the model's skeleton (there the neighbours and hence the answer are determined).

Both are decided by `LookupDT.nowTableOk` / `eqTableOk` (integer linear arithmetic on the paths of the
tree, `PEval/Model/LookupLin.lean`, sound by `PEval/Lemmas/LookupLin.lean`).  An empty table list
means the translator reported `untranslatable` (recorded in the evidence). -/

section Tables
open PEval.LookupDT

/-- PER-RUN OBLIGATION for `get_now_frame`: every row of the code's table answers, on every
non-decreasing non-empty list of stamps, with an arg-min of `|dt|` within the tolerance or with
nothing when there is none (ANY arg-min: ties are left open, as in the property) -/
theorem getNow_code_table_argmin :
    ∀ p ∈ Gen.getNowTrees, ∀ (ts : List Int) (q tol : Int), ts.length = p.1 → ts ≠ [] → q ≤ maxTime →
      ts.Pairwise (fun a b => a ≤ b) → NowSpec ts q tol (evalTree p.2 (valuationOf ts q tol)) :=
  nowTableOk_sound (by decide +kernel : nowTableOk Gen.getNowTrees = true)

/-- PER-RUN OBLIGATION for `get_interpolated_now_frame`: every row of the code's table reaches the leaf
of the model's skeleton on every strictly increasing list of stamps -/
theorem getInterp_code_table_eq_model :
    ∀ p ∈ Gen.getInterpTrees, ∀ (ts : List Int) (q tol : Int), ts.length = p.1 →
      ts.Pairwise (fun a b => a < b) →
      evalTree p.2 (valuationOf ts q tol) = getInterpAtoms p.1 (valuationOf ts q tol) := by
  intro p hp ts q tol hn hs
  rw [← evalTree_getInterpSkel]
  exact eqTableOk_sound (by decide +kernel : eqTableOk Gen.getInterpTrees getInterpSkel = true) p hp ts q tol hn hs

theorem absI_times (fs : List Frame) (q : Int) (j : Nat) (hj : j < fs.length) :
    absI (times fs) q j = (absDt q fs[j] : Int) := by
  unfold absI absDt
  rw [times_getD fs j fs[j] (by simp [hj])]

theorem times_pairwise_le {fs : List Frame} (hs : fs.Pairwise (fun x y => x.time ≤ y.time)) :
    (times fs).Pairwise (fun a b => a ≤ b) := by
  unfold times; exact List.pairwise_map.2 hs

theorem times_pairwise_lt {fs : List Frame} (hs : fs.Pairwise (fun x y => x.time < y.time)) :
    (times fs).Pairwise (fun a b => a < b) := by
  unfold times; exact List.pairwise_map.2 hs

/-- `getNow_spec` for what the CODE's table says, on time-ordered lists: the answer is a frame of the
list minimising `|dt|` within the tolerance, or nothing exactly when every frame is farther than the
tolerance. -/
theorem getNow_code_table_spec (fs : List Frame) (q tol : Int) (ht : q ≤ maxTime) (hne : fs ≠ [])
    (hs : fs.Pairwise (fun x y => x.time ≤ y.time)) :
    ∀ p ∈ Gen.getNowTrees, p.1 = fs.length →
      (∃ f, decodeNow fs (evalTree p.2 (valuationOf (times fs) q tol)) = .ok (some f) ∧ f ∈ fs ∧
          (∀ g ∈ fs, absDt q f ≤ absDt q g) ∧ (absDt q f : Int) ≤ tol) ∨
      (decodeNow fs (evalTree p.2 (valuationOf (times fs) q tol)) = .ok none ∧
          ∀ g ∈ fs, tol < (absDt q g : Int)) := by
  intro p hp hn
  have hlen : (times fs).length = fs.length := by simp [times]
  have hspec := getNow_code_table_argmin p hp (times fs) q tol (by rw [hlen, hn])
    (by intro h; apply hne; simpa [times] using h) ht (times_pairwise_le hs)
  generalize evalTree p.2 (valuationOf (times fs) q tol) = r at hspec
  cases r with
  | none =>
    right
    refine ⟨rfl, ?_⟩
    intro g hg
    obtain ⟨j, hj, rfl⟩ := List.getElem_of_mem hg
    have := hspec j (by rw [hlen]; exact hj)
    rw [absI_times fs q j hj] at this
    exact this
  | frame k =>
    left
    obtain ⟨hk, hmin, htol⟩ := hspec
    rw [hlen] at hk
    refine ⟨fs[k], by simp [decodeNow, hk], List.getElem_mem hk, ?_, ?_⟩
    · intro g hg
      obtain ⟨j, hj, rfl⟩ := List.getElem_of_mem hg
      have := hmin j (by rw [hlen]; exact hj)
      rw [absI_times fs q j hj, absI_times fs q k hk] at this
      exact_mod_cast this
    · rw [absI_times fs q k hk] at htol
      exact htol
  | interp i j => exact hspec.elim
  | err k => exact hspec.elim

/-- the code's table and the MODEL agree up to the choice among equidistant frames: both answer
nothing, or both answer a frame of the list and the two frames are equally far from the query -/
theorem getNow_code_table_eq_model_mod_ties (fs : List Frame) (q tol : Int) (ht : q ≤ maxTime) (hne : fs ≠ [])
    (hs : fs.Pairwise (fun x y => x.time ≤ y.time)) :
    ∀ p ∈ Gen.getNowTrees, p.1 = fs.length →
      (decodeNow fs (evalTree p.2 (valuationOf (times fs) q tol)) = .ok none ∧ getNowFrame fs q tol = .ok none) ∨
      (∃ f g, decodeNow fs (evalTree p.2 (valuationOf (times fs) q tol)) = .ok (some f) ∧
          getNowFrame fs q tol = .ok (some g) ∧ f ∈ fs ∧ g ∈ fs ∧ absDt q f = absDt q g) := by
  intro p hp hn
  rcases getNow_code_table_spec fs q tol ht hne hs p hp hn with ⟨f, hf, hfm, hfmin, hftol⟩ | ⟨hnone, hfar⟩
  · rcases getNow_spec fs q tol ht hne with ⟨g, hg, hgm, hgmin, _⟩ | ⟨_, hfar⟩
    · right
      have h1 := hfmin g hgm
      have h2 := hgmin f hfm
      exact ⟨f, g, hf, hg, hfm, hgm, by omega⟩
    · have := hfar f hfm; omega
  · rcases getNow_spec fs q tol ht hne with ⟨g, _, hgm, _, hgtol⟩ | ⟨hnone', _⟩
    · have := hfar g hgm; omega
    · left; exact ⟨hnone, hnone'⟩

/-- the code's table, read on the valuation of a concrete strictly time-ordered frame list, is the
model's `getInterpolated` (`interp i j` decoding to the interpolation of frames `i`, `j` at the query
time) -/
theorem getInterp_code_table_eq_getInterpolated (fs : List Frame) (q tol : Int)
    (hs : fs.Pairwise (fun x y => x.time < y.time)) :
    ∀ p ∈ Gen.getInterpTrees, p.1 = fs.length →
      decodeInterp fs q (evalTree p.2 (valuationOf (times fs) q tol)) = getInterpolated fs q tol := by
  intro p hp hn
  rw [getInterp_code_table_eq_model p hp (times fs) q tol (by simp [times, hn]) (times_pairwise_lt hs), hn,
    ← getInterpolated_eq_atoms]

/-- `gating` for what the CODE's table says: the outcome is decided by which neighbours of the scan
survive the tolerance test. -/
theorem getInterp_code_table_gating (fs : List Frame) (q tol : Int)
    (hs : fs.Pairwise (fun x y => x.time < y.time)) :
    ∀ p ∈ Gen.getInterpTrees, p.1 = fs.length →
      decodeInterp fs q (evalTree p.2 (valuationOf (times fs) q tol)) =
        match gate tol (neighbours fs q).dtBefore (neighbours fs q).before,
              gate tol (neighbours fs q).dtAfter (neighbours fs q).after with
        | none, none => .ok .nothing
        | none, some a => .ok (.orig a)
        | some b, none => .ok (.orig b)
        | some b, some a =>
          match interpolateFrames b a q with
          | .error k => .error k
          | .ok f => .ok (.interp f) := by
  intro p hp hn
  rw [getInterp_code_table_eq_getInterpolated fs q tol hs p hp hn]
  rfl

/-- no neighbour within tolerance ⇒ the code's table answers nothing (the statement seeded change
`C17_A` breaks) -/
theorem getInterp_code_table_none (fs : List Frame) (q tol : Int)
    (hs : fs.Pairwise (fun x y => x.time < y.time))
    (hb : (neighbours fs q).before = none ∨ ∃ b, (neighbours fs q).before = some b ∧ tol < q - b.time)
    (ha : (neighbours fs q).after = none ∨ ∃ a, (neighbours fs q).after = some a ∧ tol < a.time - q) :
    ∀ p ∈ Gen.getInterpTrees, p.1 = fs.length →
      decodeInterp fs q (evalTree p.2 (valuationOf (times fs) q tol)) = .ok .nothing := by
  intro p hp hn
  rw [getInterp_code_table_eq_getInterpolated fs q tol hs p hp hn]
  exact gating_none fs q tol hb ha

/-- non-vacuity of the skeleton side (independent of the generated file): the skeleton trees read on
concrete valuations give the answers of the examples above, and the checker accepts / rejects -/
example : evalTree (getNowSkel 3) (valuationOf [1000, 2000, 3000] 1400 400) = .frame 0 := by decide +kernel
example : evalTree (getNowSkel 3) (valuationOf [1000, 2000, 3000] 1500 499) = .none := by decide +kernel
example : evalTree (getInterpSkel 3) (valuationOf [1000, 2000, 3000] 1500 500) = .interp 0 1 := by decide +kernel
example : evalTree (getInterpSkel 3) (valuationOf [1000, 2000, 3000] 990 75) = .frame 0 := by decide +kernel
example : equiv [] (getNowSkel 2) (getNowSkel 2) = true := by decide +kernel
example : equiv [] (getNowSkel 2) (getNowSkel 3) = false := by decide +kernel

end Tables

/-! ## the CODE's interpolation formulas (regenerated from the source on every run)

`Gen.interpList_n_i` is the expression tree the REAL `interpolate_list` returned for component `i`
of two lists of `n` symbolic leaves; `Gen.statePos_i` / `Gen.stateVel_i` the position / velocity
components produced by `interpolate_state` on a stub state; `Gen.stateAlpha` / `Gen.quatAlpha` the
slerp parameter handed to `Quaternion.slerp` by `interpolate_state` / `interpolate_quaternion`. -/

section Arith

/-- complete for equalities of rational functions whose denominators are non-zero by hypothesis -/
macro "ratfun" : tactic => `(tactic| first | ring1 | (field_simp; ring1) | field_simp)

/-- every component of `interpolate_list` (lists of length 1, 2, 3) is the model's `lerp` formula -/
theorem interpList_code_eq_model (a0 a1 a2 b0 b1 b2 t1 t2 t : ℚ) (h : t1 ≠ t2) :
    Gen.interpList_1_0 a0 a1 a2 b0 b1 b2 t1 t2 t = a0 + (t - t1) / (t2 - t1) * (b0 - a0) ∧
    Gen.interpList_2_0 a0 a1 a2 b0 b1 b2 t1 t2 t = a0 + (t - t1) / (t2 - t1) * (b0 - a0) ∧
    Gen.interpList_2_1 a0 a1 a2 b0 b1 b2 t1 t2 t = a1 + (t - t1) / (t2 - t1) * (b1 - a1) ∧
    Gen.interpList_3_0 a0 a1 a2 b0 b1 b2 t1 t2 t = a0 + (t - t1) / (t2 - t1) * (b0 - a0) ∧
    Gen.interpList_3_1 a0 a1 a2 b0 b1 b2 t1 t2 t = a1 + (t - t1) / (t2 - t1) * (b1 - a1) ∧
    Gen.interpList_3_2 a0 a1 a2 b0 b1 b2 t1 t2 t = a2 + (t - t1) / (t2 - t1) * (b2 - a2) := by
  have hd : t2 - t1 ≠ 0 := sub_ne_zero.mpr (Ne.symm h)
  refine ⟨?_, ?_, ?_, ?_, ?_, ?_⟩
  · unfold Gen.interpList_1_0; ratfun
  · unfold Gen.interpList_2_0; ratfun
  · unfold Gen.interpList_2_1; ratfun
  · unfold Gen.interpList_3_0; ratfun
  · unfold Gen.interpList_3_1; ratfun
  · unfold Gen.interpList_3_2; ratfun

/-- position and velocity components of `interpolate_state` are the model's `lerp` formula, and the
slerp parameter of `interpolate_state` / `interpolate_quaternion` is `(t - t1) / (t2 - t1)` -/
theorem interpState_code_eq_model (a0 a1 a2 b0 b1 b2 t1 t2 t : ℚ) (h : t1 ≠ t2) :
    Gen.statePos_0 a0 a1 a2 b0 b1 b2 t1 t2 t = a0 + (t - t1) / (t2 - t1) * (b0 - a0) ∧
    Gen.statePos_1 a0 a1 a2 b0 b1 b2 t1 t2 t = a1 + (t - t1) / (t2 - t1) * (b1 - a1) ∧
    Gen.statePos_2 a0 a1 a2 b0 b1 b2 t1 t2 t = a2 + (t - t1) / (t2 - t1) * (b2 - a2) ∧
    Gen.stateVel_0 a0 a1 a2 b0 b1 b2 t1 t2 t = a0 + (t - t1) / (t2 - t1) * (b0 - a0) ∧
    Gen.stateVel_1 a0 a1 a2 b0 b1 b2 t1 t2 t = a1 + (t - t1) / (t2 - t1) * (b1 - a1) ∧
    Gen.stateVel_2 a0 a1 a2 b0 b1 b2 t1 t2 t = a2 + (t - t1) / (t2 - t1) * (b2 - a2) ∧
    Gen.stateAlpha t1 t2 t = (t - t1) / (t2 - t1) ∧
    Gen.quatAlpha t1 t2 t = (t - t1) / (t2 - t1) := by
  have hd : t2 - t1 ≠ 0 := sub_ne_zero.mpr (Ne.symm h)
  refine ⟨?_, ?_, ?_, ?_, ?_, ?_, ?_, ?_⟩
  · unfold Gen.statePos_0; ratfun
  · unfold Gen.statePos_1; ratfun
  · unfold Gen.statePos_2; ratfun
  · unfold Gen.stateVel_0; ratfun
  · unfold Gen.stateVel_1; ratfun
  · unfold Gen.stateVel_2; ratfun
  · unfold Gen.stateAlpha; ratfun
  · unfold Gen.quatAlpha; ratfun

/-- the velocity of `interpolate_state` is present exactly when both velocities are (F15), as in
the model's `interpVel`; vacuous when the translator could not run `interpolate_state` -/
theorem interpState_code_velocity_presence :
    ∀ r ∈ Gen.velPresence, r.2.2 = (r.1 && r.2.1) ∧
      ∀ (α : ℚ) (v1 v2 : Vec3),
        (interpVel α (if r.1 then some v1 else none) (if r.2.1 then some v2 else none)).isSome = r.2.2 := by
  intro r hr
  have hall : Gen.velPresence.all (fun r => r.2.2 == (r.1 && r.2.1)) = true := by decide +kernel
  have h := List.all_eq_true.1 hall r hr
  obtain ⟨x, y, z⟩ := r
  simp only [beq_iff_eq] at h
  refine ⟨h, ?_⟩
  intro α v1 v2
  simp only at h ⊢
  rw [h]
  cases x <;> cases y <;> rfl

/-- the code's formulas are the MODEL's `Vec3.lerp _ _ (alpha t1 t2 t)` on integer stamps -/
theorem interpState_code_eq_lerp (p1 p2 : Vec3) (t1 t2 t : Int) (h : t1 ≠ t2) :
    Gen.statePos_0 p1.x p1.y p1.z p2.x p2.y p2.z t1 t2 t = (Vec3.lerp p1 p2 (alpha t1 t2 t)).x ∧
    Gen.statePos_1 p1.x p1.y p1.z p2.x p2.y p2.z t1 t2 t = (Vec3.lerp p1 p2 (alpha t1 t2 t)).y ∧
    Gen.statePos_2 p1.x p1.y p1.z p2.x p2.y p2.z t1 t2 t = (Vec3.lerp p1 p2 (alpha t1 t2 t)).z ∧
    Gen.stateVel_0 p1.x p1.y p1.z p2.x p2.y p2.z t1 t2 t = (Vec3.lerp p1 p2 (alpha t1 t2 t)).x ∧
    Gen.stateVel_1 p1.x p1.y p1.z p2.x p2.y p2.z t1 t2 t = (Vec3.lerp p1 p2 (alpha t1 t2 t)).y ∧
    Gen.stateVel_2 p1.x p1.y p1.z p2.x p2.y p2.z t1 t2 t = (Vec3.lerp p1 p2 (alpha t1 t2 t)).z ∧
    Gen.stateAlpha t1 t2 t = alpha t1 t2 t ∧ Gen.quatAlpha t1 t2 t = alpha t1 t2 t := by
  have hq : ((t1 : Int) : ℚ) ≠ ((t2 : Int) : ℚ) := by exact_mod_cast h
  obtain ⟨h0, h1, h2, h3, h4, h5, h6, h7⟩ :=
    interpState_code_eq_model p1.x p1.y p1.z p2.x p2.y p2.z t1 t2 t hq
  have ha : alpha t1 t2 t = ((t : ℚ) - t1) / ((t2 : ℚ) - t1) := by unfold alpha; push_cast; rfl
  rw [Vec3.lerp_x, Vec3.lerp_y, Vec3.lerp_z, ha]
  exact ⟨h0, h1, h2, h3, h4, h5, h6, h7⟩

/-- end points of the code's formula: the first list at `t1`, the second at `t2` -/
theorem interpList_code_endpoints (a0 a1 a2 b0 b1 b2 t1 t2 : ℚ) (h : t1 ≠ t2) :
    Gen.interpList_3_0 a0 a1 a2 b0 b1 b2 t1 t2 t1 = a0 ∧ Gen.interpList_3_1 a0 a1 a2 b0 b1 b2 t1 t2 t1 = a1 ∧
    Gen.interpList_3_2 a0 a1 a2 b0 b1 b2 t1 t2 t1 = a2 ∧
    Gen.interpList_3_0 a0 a1 a2 b0 b1 b2 t1 t2 t2 = b0 ∧ Gen.interpList_3_1 a0 a1 a2 b0 b1 b2 t1 t2 t2 = b1 ∧
    Gen.interpList_3_2 a0 a1 a2 b0 b1 b2 t1 t2 t2 = b2 := by
  have hd : t2 - t1 ≠ 0 := sub_ne_zero.mpr (Ne.symm h)
  obtain ⟨_, _, _, e0, e1, e2⟩ := interpList_code_eq_model a0 a1 a2 b0 b1 b2 t1 t2 t1 h
  obtain ⟨_, _, _, f0, f1, f2⟩ := interpList_code_eq_model a0 a1 a2 b0 b1 b2 t1 t2 t2 h
  rw [e0, e1, e2, f0, f1, f2, sub_self, zero_div, div_self hd]
  refine ⟨?_, ?_, ?_, ?_, ?_, ?_⟩ <;> ring

/-- between the end points for `t1 ≤ t ≤ t2`, and affine in `t` (equal time steps give equal
increments) -/
theorem interpList_code_between_linear (a0 a1 a2 b0 b1 b2 t1 t2 t : ℚ) (h1 : t1 ≤ t) (h2 : t ≤ t2)
    (h12 : t1 < t2) :
    (min a0 b0 ≤ Gen.interpList_3_0 a0 a1 a2 b0 b1 b2 t1 t2 t ∧
      Gen.interpList_3_0 a0 a1 a2 b0 b1 b2 t1 t2 t ≤ max a0 b0) ∧
    (min a1 b1 ≤ Gen.interpList_3_1 a0 a1 a2 b0 b1 b2 t1 t2 t ∧
      Gen.interpList_3_1 a0 a1 a2 b0 b1 b2 t1 t2 t ≤ max a1 b1) ∧
    (min a2 b2 ≤ Gen.interpList_3_2 a0 a1 a2 b0 b1 b2 t1 t2 t ∧
      Gen.interpList_3_2 a0 a1 a2 b0 b1 b2 t1 t2 t ≤ max a2 b2) ∧
    ∀ s d : ℚ,
      Gen.interpList_3_0 a0 a1 a2 b0 b1 b2 t1 t2 (s + d) - Gen.interpList_3_0 a0 a1 a2 b0 b1 b2 t1 t2 s =
        d / (t2 - t1) * (b0 - a0) := by
  have hne : t1 ≠ t2 := ne_of_lt h12
  have hpos : 0 < t2 - t1 := sub_pos.mpr h12
  have hα0 : 0 ≤ (t - t1) / (t2 - t1) := div_nonneg (sub_nonneg.mpr h1) hpos.le
  have hα1 : (t - t1) / (t2 - t1) ≤ 1 := by rw [div_le_one hpos]; linarith
  obtain ⟨_, _, _, e0, e1, e2⟩ := interpList_code_eq_model a0 a1 a2 b0 b1 b2 t1 t2 t hne
  rw [e0, e1, e2]
  refine ⟨lerp_between hα0 hα1, lerp_between hα0 hα1, lerp_between hα0 hα1, ?_⟩
  intro s d
  rw [(interpList_code_eq_model a0 a1 a2 b0 b1 b2 t1 t2 (s + d) hne).2.2.2.1,
    (interpList_code_eq_model a0 a1 a2 b0 b1 b2 t1 t2 s hne).2.2.2.1]
  have hd : t2 - t1 ≠ 0 := ne_of_gt hpos
  field_simp
  ring

end Arith

/-! ## success companions for the interpolating branch

`gating_both` ends in `match interpolateFrames b a t`; `interp_reaches`, `interp_time_eq_query`, … assume the
`.ok (.interp f)` outcome.  Here the outcome is PROVED for well-formed neighbours (`Frame.WellFormed`: what the loader
guarantees — an ego→map transform is registered, every object is in `base_link` or `map`; `Frame.Loaded` is the
stronger "one frame id per frame"), the `AssertionError` and `ZeroDivisionError` exits are shown unreachable from the
scan, and the error exits of a direct call are characterised (`interp_errors_iff`). -/
section Success

/-- both neighbours within tolerance and well-formed: the lookup returns the interpolated frame, explicitly;
the neighbours bracket the query (`b.time ≤ t < a.time`) -/
theorem gating_both_ok (fs : List Frame) (t thr : Int) (b a : Frame)
    (hb : (neighbours fs t).before = some b) (ha : (neighbours fs t).after = some a)
    (hdb : t - b.time ≤ thr) (hda : a.time - t ≤ thr) (wb : b.WellFormed) (wa : a.WellFormed) :
    ∃ eb ea, b.ego = some eb ∧ a.ego = some ea ∧ b.time ≤ t ∧ t < a.time ∧
      getInterpolated fs t thr = .ok (.interp (interpResult b a eb ea t)) := by
  obtain ⟨eb, heb⟩ := Option.isSome_iff_exists.1 wb.1
  obtain ⟨ea, hea⟩ := Option.isSome_iff_exists.1 wa.1
  obtain ⟨_, h1, _⟩ := (neighbours_bounds fs t).1 b hb
  obtain ⟨_, h2, _⟩ := (neighbours_bounds fs t).2 a ha
  refine ⟨eb, ea, heb, hea, h1, h2, ?_⟩
  rw [gating_both fs t thr b a hb ha hdb hda, interpolateFrames_total heb hea h1 h2 wb.2 wa.2]

/-- the loader's frames are well-formed (one frame id per frame, not `other`) -/
theorem loaded_wellFormed {f : Frame} (h : f.Loaded) : f.WellFormed := h.wellFormed

/-- the lookup itself never reaches the assertion `t1 <= t <= t2` nor the division by `t2 - t1 = 0`: on ANY frame list
(sorted or not) an error of the interpolating lookup is a missing ego pose (`KeyError`) or an object outside
`base_link` / `map` (`NotImplementedError`) -/
theorem getInterpolated_errors (fs : List Frame) (t thr : Int) (k : Err)
    (h : getInterpolated fs t thr = .error k) :
    ∃ b a, (neighbours fs t).before = some b ∧ (neighbours fs t).after = some a ∧
      ((b.ego = none ∨ a.ego = none) ∧ k = "KeyError" ∨
       (b.ego ≠ none ∧ a.ego ≠ none ∧ (∃ o ∈ b.objs ++ a.objs, o.frame = .other) ∧ k = "NotImplementedError")) := by
  rw [gating] at h
  cases hgb : gate thr (neighbours fs t).dtBefore (neighbours fs t).before with
  | none =>
    rw [hgb] at h
    cases hga : gate thr (neighbours fs t).dtAfter (neighbours fs t).after <;> rw [hga] at h <;> cases h
  | some b =>
    rw [hgb] at h
    cases hga : gate thr (neighbours fs t).dtAfter (neighbours fs t).after with
    | none => rw [hga] at h; cases h
    | some a =>
      rw [hga] at h
      simp only at h
      have hb := (gate_some hgb).1
      have ha := (gate_some hga).1
      obtain ⟨_, h1, _⟩ := (neighbours_bounds fs t).1 b hb
      obtain ⟨_, h2, _⟩ := (neighbours_bounds fs t).2 a ha
      refine ⟨b, a, hb, ha, ?_⟩
      unfold interpolateFrames at h
      cases heb : b.ego with
      | none => rw [heb] at h; simp only at h; left; exact ⟨Or.inl rfl, by cases h; rfl⟩
      | some eb =>
        cases hea : a.ego with
        | none => rw [heb, hea] at h; simp only at h; left; exact ⟨Or.inr rfl, by cases h; rfl⟩
        | some ea =>
          right
          rw [heb, hea] at h
          simp only at h
          rw [if_neg (by omega), if_neg (by omega)] at h
          refine ⟨by simp, by simp, ?_⟩
          cases hgl : toGlobalList eb b.objs with
          | error k' =>
            rw [hgl] at h
            simp only at h
            have hex : ∃ o ∈ b.objs, o.frame = .other := by
              by_contra hno
              rw [toGlobalList_of_frames eb b.objs (fun o ho hf => hno ⟨o, ho, hf⟩)] at hgl
              cases hgl
            obtain ⟨o, ho, hf⟩ := hex
            refine ⟨⟨o, List.mem_append_left _ ho, hf⟩, ?_⟩
            simp only [Except.error.injEq] at h
            subst h
            exact toGlobalList_error_kind eb b.objs _ hgl
          | ok gb =>
            rw [hgl] at h
            simp only at h
            cases hgl2 : toGlobalList ea a.objs with
            | error k' =>
              rw [hgl2] at h
              simp only at h
              have hex : ∃ o ∈ a.objs, o.frame = .other := by
                by_contra hno
                rw [toGlobalList_of_frames ea a.objs (fun o ho hf => hno ⟨o, ho, hf⟩)] at hgl2
                cases hgl2
              obtain ⟨o, ho, hf⟩ := hex
              refine ⟨⟨o, List.mem_append_right _ ho, hf⟩, ?_⟩
              simp only [Except.error.injEq] at h
              subst h
              exact toGlobalList_error_kind ea a.objs _ hgl2
            | ok ga => rw [hgl2] at h; cases h

/-- error exits of a DIRECT call of `interpolate_ground_truth_frames`, exactly -/
theorem interp_errors_iff (b a : Frame) (t : Int) :
    (∃ k, interpolateFrames b a t = .error k) ↔
      (b.ego = none ∨ a.ego = none ∨ ¬ (b.time ≤ t ∧ t ≤ a.time) ∨ a.time = b.time ∨
        (∃ o ∈ b.objs ++ a.objs, o.frame = .other)) := interpolateFrames_error_iff

/-- THE CLAUSE, end to end: both neighbours within tolerance and well-formed ⇒ the lookup returns a frame stamped
with exactly the query time in which every object of the earlier neighbour that has a partner (same uuid) in the
later one lies on the straight segment between its two MAP-FRAME poses at the proportional time `α`
(`α (t₂ − t₁) = t − t₁`, `0 ≤ α < 1`), with the heading on the shortest arc -/
theorem interp_success_on_segment (fs : List Frame) (t thr : Int) (b a : Frame)
    (hb : (neighbours fs t).before = some b) (ha : (neighbours fs t).after = some a)
    (hdb : t - b.time ≤ thr) (hda : a.time - t ≤ thr) (wb : b.WellFormed) (wa : a.WellFormed) :
    ∃ f eb ea, getInterpolated fs t thr = .ok (.interp f) ∧ f.time = t ∧ f.baseId = b.id ∧
      b.ego = some eb ∧ a.ego = some ea ∧
      ∀ (i : Nat) (hi : i < b.objs.length) (o2 : Obj),
        (a.objs.map (globalOf ea)).find? (fun o => b.objs[i].uuid == o.uuid) = some o2 →
        ∃ r α, f.objs[i]? = some r ∧ α = alpha b.time a.time t ∧ 0 ≤ α ∧ α < 1 ∧
          α * ((a.time : ℚ) - (b.time : ℚ)) = (t : ℚ) - (b.time : ℚ) ∧
          r.pos = Vec3.lerp (globalOf eb b.objs[i]).pos o2.pos α ∧
          (min (globalOf eb b.objs[i]).pos.x o2.pos.x ≤ r.pos.x ∧ r.pos.x ≤ max (globalOf eb b.objs[i]).pos.x o2.pos.x) ∧
          (min (globalOf eb b.objs[i]).pos.y o2.pos.y ≤ r.pos.y ∧ r.pos.y ≤ max (globalOf eb b.objs[i]).pos.y o2.pos.y) ∧
          (min (globalOf eb b.objs[i]).pos.z o2.pos.z ≤ r.pos.z ∧ r.pos.z ≤ max (globalOf eb b.objs[i]).pos.z o2.pos.z) ∧
          r.tau = (globalOf eb b.objs[i]).tau + α * arc (globalOf eb b.objs[i]).tau o2.tau ∧
          |α * arc (globalOf eb b.objs[i]).tau o2.tau| ≤ |arc (globalOf eb b.objs[i]).tau o2.tau| ∧
          r.time = t ∧ r.uuid = b.objs[i].uuid ∧ r.id = b.objs[i].id ∧ r.size = b.objs[i].size ∧ r.frame = .map ∧
          o2 ∈ a.objs.map (globalOf ea) := by
  obtain ⟨eb, ea, heb, hea, h1, h2, hres⟩ := gating_both_ok fs t thr b a hb ha hdb hda wb wa
  refine ⟨interpResult b a eb ea t, eb, ea, hres, rfl, rfl, heb, hea, ?_⟩
  intro i hi o2 hfind
  have hi' : i < (b.objs.map (globalOf eb)).length := by simpa using hi
  have hget : (b.objs.map (globalOf eb))[i] = globalOf eb b.objs[i] := by simp
  have hfind' : (a.objs.map (globalOf ea)).find? (fun o => (b.objs.map (globalOf eb))[i].uuid == o.uuid) = some o2 := by
    rw [hget, globalOf_uuid]; exact hfind
  obtain ⟨r, α, hr, hα, hmem, _, hu, h0, _, hmul, hx, hy, hz, bx, by', bz, htau, _, hsize, htime, hframe, hid⟩ :=
    interp_on_segment (b.objs.map (globalOf eb)) (a.objs.map (globalOf ea)) b.time a.time t h1 (by omega) (by omega)
      i hi' o2 hfind'
  rw [hget] at hx hy hz bx by' bz htau hu hsize hframe hid
  have hlt : α < 1 := by rw [hα]; exact alpha_lt_one h2 (by omega)
  have h01 : α ≤ 1 := le_of_lt hlt
  refine ⟨r, α, hr, hα, h0, hlt, hmul, ?_, bx, by', bz, htau, abs_mul_le_of_unit h0 h01, htime, ?_, ?_, ?_, ?_, hmem⟩
  · apply Vec3.ext'
    · rw [hx, Vec3.lerp_x]
    · rw [hy, Vec3.lerp_y]
    · rw [hz, Vec3.lerp_z]
  · rw [hu, globalOf_uuid]
  · rw [hid]; unfold globalOf; cases b.objs[i].frame <;> rfl
  · rw [hsize]; unfold globalOf; cases b.objs[i].frame <;> rfl
  · rw [hframe]; exact globalOf_frame_map (wb.2 _ (List.getElem_mem hi))

/-- "reproducing a neighbour exactly at that neighbour's own timestamp", stated with its caveats.  Strictly
time-ordered frames, query exactly on a frame `g` whose successor `a` is within tolerance (`thr ≥ 0`), both
well-formed.  The lookup INTERPOLATES (α = 0) and returns a frame with `g`'s time, id and ego pose whose first
`|g.objs|` objects are `g`'s objects, in order, each with the position, heading, shape, uuid, id of that object
CONVERTED TO THE MAP FRAME by `g`'s ego pose (`globalOf`): identical to the loaded object when it is a map-frame
object, and `frame = map`, `pos = ego·pos`, `τ = ego.τ + τ` when it is a `base_link` object (the conversion back to
`base_link` is commented out in the code).  Velocity: kept unless the partner lacks one.  After them come the later
frame's objects whose uuid `g` lacks (kept, with their own later time stamps). -/
theorem interp_at_own_timestamp (fs : List Frame) (g a : Frame) (thr : Int)
    (hs : fs.Pairwise (fun x y => x.time < y.time)) (hg : g ∈ fs) (hthr : 0 ≤ thr)
    (ha : (neighbours fs g.time).after = some a) (hda : a.time - g.time ≤ thr)
    (wg : g.WellFormed) (wa : a.WellFormed) :
    ∃ f eg ea, getInterpolated fs g.time thr = .ok (.interp f) ∧ g.ego = some eg ∧ a.ego = some ea ∧
      f.time = g.time ∧ f.baseId = g.id ∧ f.egoTrans = eg.trans ∧ f.egoTau = eg.tau ∧
      f.objs.length = g.objs.length + (secondPass (g.objs.map (·.uuid)) (a.objs.map (globalOf ea))).length ∧
      f.objs.drop g.objs.length = secondPass (g.objs.map (·.uuid)) (a.objs.map (globalOf ea)) ∧
      ∀ (i : Nat) (hi : i < g.objs.length), ∃ r, f.objs[i]? = some r ∧
        r.pos = (globalOf eg g.objs[i]).pos ∧ r.tau = (globalOf eg g.objs[i]).tau ∧ r.frame = .map ∧
        r.size = g.objs[i].size ∧ r.uuid = g.objs[i].uuid ∧ r.id = g.objs[i].id ∧
        (g.objs[i].frame = .map → r.pos = g.objs[i].pos ∧ r.tau = g.objs[i].tau) ∧
        (g.objs[i].frame = .baseLink → r.pos = eg.apply g.objs[i].pos ∧ r.tau = eg.tau + g.objs[i].tau) ∧
        ((∀ o ∈ a.objs, o.uuid ≠ g.objs[i].uuid) → r = globalOf eg g.objs[i]) ∧
        (∀ o2, (a.objs.map (globalOf ea)).find? (fun o => g.objs[i].uuid == o.uuid) = some o2 →
          r.time = g.time ∧ (o2.vel.isSome → r.vel = g.objs[i].vel) ∧ (o2.vel = none → r.vel = none)) := by
  obtain ⟨hb, _, _, _⟩ := query_on_frame fs g thr hs hg
  obtain ⟨eg, ea, heg, hea, _, hlt, hres⟩ :=
    gating_both_ok fs g.time thr g a hb ha (by omega) hda wg wa
  have hα : alpha g.time a.time g.time = 0 := alpha_self_left _ _
  refine ⟨interpResult g a eg ea g.time, eg, ea, hres, heg, hea, rfl, rfl, ?_, ?_, ?_, ?_, ?_⟩
  · show Vec3.lerp eg.trans ea.trans (alpha g.time a.time g.time) = eg.trans
    rw [hα, Vec3.lerp_zero]
  · show eg.tau + alpha g.time a.time g.time * arc eg.tau ea.tau = eg.tau
    rw [hα]; ring
  · have := (interp_objects (g.objs.map (globalOf eg)) (a.objs.map (globalOf ea)) g.time a.time g.time).1
    simpa [interpResult, globalOf_uuid, Function.comp_def] using this
  · have := (interp_objects (g.objs.map (globalOf eg)) (a.objs.map (globalOf ea)) g.time a.time g.time).2.2
    simpa [interpResult, globalOf_uuid, Function.comp_def] using this
  · intro i hi
    have hi' : i < (g.objs.map (globalOf eg)).length := by simpa using hi
    have hget : (g.objs.map (globalOf eg))[i] = globalOf eg g.objs[i] := by simp
    have hstep := (interp_objects (g.objs.map (globalOf eg)) (a.objs.map (globalOf ea)) g.time a.time g.time).2.1 i hi'
    rw [hget] at hstep
    have hne := wg.2 _ (List.getElem_mem hi)
    have hfm : (globalOf eg g.objs[i]).frame = .map := globalOf_frame_map hne
    have hsz : (globalOf eg g.objs[i]).size = g.objs[i].size := by unfold globalOf; cases g.objs[i].frame <;> rfl
    have hid : (globalOf eg g.objs[i]).id = g.objs[i].id := by unfold globalOf; cases g.objs[i].frame <;> rfl
    have hvel : (globalOf eg g.objs[i]).vel = g.objs[i].vel := by unfold globalOf; cases g.objs[i].frame <;> rfl
    have hmapcase : g.objs[i].frame = .map →
        (globalOf eg g.objs[i]).pos = g.objs[i].pos ∧ (globalOf eg g.objs[i]).tau = g.objs[i].tau := by
      intro hf; rw [globalOf_map_frame hf]; exact ⟨rfl, rfl⟩
    have hblcase : g.objs[i].frame = .baseLink →
        (globalOf eg g.objs[i]).pos = eg.apply g.objs[i].pos ∧ (globalOf eg g.objs[i]).tau = eg.tau + g.objs[i].tau := by
      intro hf; rw [globalOf_baseLink hf]; exact ⟨rfl, rfl⟩
    cases hfind : (a.objs.map (globalOf ea)).find? (fun o => (globalOf eg g.objs[i]).uuid == o.uuid) with
    | none =>
      have hr : stepFirst (a.objs.map (globalOf ea)) g.time a.time g.time (globalOf eg g.objs[i]) = globalOf eg g.objs[i] := by
        unfold stepFirst; rw [hfind]
      rw [hr] at hstep
      refine ⟨globalOf eg g.objs[i], hstep, rfl, rfl, hfm, hsz, globalOf_uuid _ _, hid, hmapcase, hblcase,
        fun _ => rfl, ?_⟩
      intro o2 h2
      rw [globalOf_uuid] at hfind
      rw [hfind] at h2; cases h2
    | some o2 =>
      have hr := stepFirst_found hfind (t1 := g.time) (t2 := a.time) (t := g.time)
      rw [hr] at hstep
      obtain ⟨_, hp, ht, hsize, htime, hv⟩ := interp_at_neighbour (globalOf eg g.objs[i]) o2 g.time a.time
      refine ⟨_, hstep, hp, ht, hfm, by rw [hsize, hsz], by rw [interpObj_uuid, globalOf_uuid], hid,
        fun hf => by rw [hp, ht]; exact hmapcase hf, fun hf => by rw [hp, ht]; exact hblcase hf, ?_, ?_⟩
      · intro hno
        exfalso
        have hm := List.mem_of_find?_eq_some hfind
        obtain ⟨o, ho, rfl⟩ := List.mem_map.1 hm
        have hu : (globalOf eg g.objs[i]).uuid = (globalOf ea o).uuid := by simpa using List.find?_some hfind
        rw [globalOf_uuid, globalOf_uuid] at hu
        exact hno o ho hu.symm
      · intro o2' h2
        rw [globalOf_uuid] at hfind
        rw [hfind] at h2
        cases h2
        refine ⟨htime, fun hs2 => by rw [hv hs2, hvel], ?_⟩
        intro hnone
        show interpVel _ (globalOf eg g.objs[i]).vel o2.vel = none
        rw [hnone]
        cases (globalOf eg g.objs[i]).vel <;> rfl

/-- the caveat is real: `base_link` dataset, ego pose of the middle frame = quarter turn + 10 m.  A query ON that frame
(tolerance 1000) returns its object 3 (loaded at (0,0), heading 0, `base_link`) at (10,0), heading 1/2, in `map` -/
theorem interp_at_own_timestamp_not_verbatim :
    fr1 ∈ [fr0, fr1, fr2] ∧ (fr1.objs.map (fun o => (o.id, o.frame, o.pos, o.tau))) =
      [(3, FrameId.baseLink, v 0 0 0, 0), (4, FrameId.baseLink, v 3 0 0, -3/4)] ∧
    (getInterpolated [fr0, fr1, fr2] 2000 1000).toOption.map
      (fun o => match o with
        | .interp f => (f.baseId, f.objs.map (fun o => (o.id, o.frame, o.pos, o.tau)))
        | _ => (99, [])) =
      some (1, [(3, FrameId.map, v 10 0 0, 1/2), (4, FrameId.map, v 10 3 0, -1/4)]) :=
  ⟨by decide +kernel, by decide +kernel, by decide +kernel⟩

/-- non-vacuity of `gating_both_ok` / `interp_success_on_segment` / `interp_at_own_timestamp`: the hypotheses hold on
the example list (query 1500 between fr0 and fr1, tolerance 500; query 2000 on fr1, successor fr2) -/
example : (neighbours [fr0, fr1, fr2] 1500).before = some fr0 ∧ (neighbours [fr0, fr1, fr2] 1500).after = some fr1 ∧
    (1500 : Int) - fr0.time ≤ 500 ∧ fr1.time - 1500 ≤ 500 ∧ fr0.Loaded ∧ fr1.Loaded ∧ fr2.Loaded ∧
    (neighbours [fr0, fr1, fr2] fr1.time).after = some fr2 ∧ fr2.time - fr1.time ≤ 1000 ∧
    (fr1.objs.map (globalOf e1)).find? (fun o => fr0.objs[0].uuid == o.uuid) = some (globalOf e1 (ob 4 7 2000 3 0 (-3/4))) :=
  ⟨by decide +kernel, by decide +kernel, by decide, by decide, ⟨rfl, .baseLink, by decide, by decide +kernel⟩,
    ⟨rfl, .baseLink, by decide, by decide +kernel⟩, ⟨rfl, .baseLink, by decide, by decide +kernel⟩,
    by decide +kernel, by decide, by decide +kernel⟩

/-- A DEFECTIVE variant of `interpolate_ground_truth_frames` asserting `t1 < t` (strict) raises for a query on a
frame: the hypotheses of `interpolateFrames_total` hold (`fr1.time ≤ 2000 < fr2.time`, poses, frames) and its
conclusion fails for the variant -/
def interpolateFrames_strictAssert (b a : Frame) (t : Int) : Except Err InterpFrame :=
  if ¬ (b.time < t ∧ t ≤ a.time) then .error "AssertionError" else interpolateFrames b a t

example : fr1.ego = some e1 ∧ fr2.ego = some e0 ∧ fr1.time ≤ 2000 ∧ (2000 : Int) < fr2.time ∧
    (∀ o ∈ fr1.objs, o.frame ≠ .other) ∧ (∀ o ∈ fr2.objs, o.frame ≠ .other) ∧
    interpolateFrames fr1 fr2 2000 = .ok (interpResult fr1 fr2 e1 e0 2000) ∧
    interpolateFrames_strictAssert fr1 fr2 2000 = .error "AssertionError" := by decide +kernel

/-- a frame list on which the well-formedness matters: without the ego pose of the later neighbour the lookup raises
`KeyError` (so `gating_both_ok` needs `WellFormed`) -/
example : getInterpolated [fr0, { fr1 with ego := none }, fr2] 1500 500 = .error "KeyError" := by decide +kernel

end Success

end PEval.C17
