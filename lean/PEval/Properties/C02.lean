import PEval.Lemmas.MatchingUnique
import PEval.Properties.KernelMatchable
/-!
# C02 — matching prefers label-compatible pairs, then best score (no blocking pair)

Statements about `PEval.Matching.getObjectResults` and the table `mkTbl c sc` it is run on
(`score i j = some s` = the pair is matchable: same frame, within the threshold of the ground truth's
label — see `C01.table_score_iff`; `valid i j` = `MatchingLabelPolicy.is_matchable`). "Scores at least
as well as `s`" is `better mx s s' = false` (`s` is not strictly better than `s'`), so ties are handled
exactly as the property states. All statements hold for every scoring function, policy, mode, size.
-/
namespace PEval.C02
open PEval PEval.Matching

/-- The pick of one step (`np.nanargmin` / `np.nanargmax`) is a candidate and no candidate is strictly
better than it. -/
theorem argBest_optimal (mx : Bool) (l : List (Nat × Nat × Rat)) (c : Nat × Nat × Rat)
    (h : argBest mx l = some c) : c ∈ l ∧ ∀ x ∈ l, better mx x.2.2 c.2.2 = false :=
  ⟨argBest_mem mx l c h, argBest_opt mx l c h⟩

/-- …and a step is taken whenever a candidate exists. -/
theorem argBest_some_of_ne_nil (mx : Bool) (l : List (Nat × Nat × Rat)) (h : l ≠ []) :
    ∃ c, argBest mx l = some c := by
  cases hb : argBest mx l with
  | none => exact absurd (argBest_none mx l hb) h
  | some c => exact ⟨c, rfl⟩

/-- No blocking pair, compatible case: every matchable label-compatible pair `(i, j)` that is not
matched together has a member that is matched **compatibly** to a partner scoring at least as well. -/
theorem no_blocking_compatible {c : Cfg} {sc : Scene} {rs : List Res} (h : getObjectResults c sc = .ok rs)
    {i j : Nat} {s : Rat} (hs : (mkTbl c sc).score i j = some s) (hv : (mkTbl c sc).valid i j = true)
    (_hnot : (i, some j) ∉ rs) :
    ∃ i' j' s', (i', some j') ∈ rs ∧ (i' = i ∨ j' = j) ∧ (mkTbl c sc).valid i' j' = true ∧
      (mkTbl c sc).score i' j' = some s' ∧ better c.mode.maximize s s' = false := by
  obtain ⟨hi, hj⟩ := mkTbl_score_some_lt hs
  have hb := stage1_blocked (mkTbl c sc) (List.range sc.ests.length) (List.range sc.gts.length)
    (List.mem_range.2 hi) (List.mem_range.2 hj) hs hv
  obtain ⟨B, hsplit, _⟩ := matchFrom_pairs_split (mkTbl c sc) (List.range sc.ests.length) (List.range sc.gts.length)
  obtain ⟨p, hp, hm, hval, s', hs', hnw⟩ := hb
  refine ⟨p.1, p.2, s', ?_, hm, hval, hs', hnw⟩
  rw [getObjectResults_ok h, mem_resultsOf_some]
  show (p.1, p.2) ∈ (matchFrom _ _ _).pairs
  rw [hsplit]
  exact List.mem_append.2 (Or.inl hp)

/-- No blocking pair, general case (in particular label-INcompatible pairs): every matchable pair that
is not matched together has a member that is matched compatibly, or to a partner scoring at least as well. -/
theorem no_blocking_incompatible {c : Cfg} {sc : Scene} {rs : List Res} (h : getObjectResults c sc = .ok rs)
    {i j : Nat} {s : Rat} (hs : (mkTbl c sc).score i j = some s) (_hnot : (i, some j) ∉ rs) :
    ∃ i' j', (i', some j') ∈ rs ∧ (i' = i ∨ j' = j) ∧
      ((mkTbl c sc).valid i' j' = true ∨
        ∃ s', (mkTbl c sc).score i' j' = some s' ∧ better c.mode.maximize s s' = false) := by
  obtain ⟨hi, hj⟩ := mkTbl_score_some_lt hs
  obtain ⟨p, hp, hm, hr⟩ := matchFrom_blocked (mkTbl c sc) List.nodup_range List.nodup_range
    (List.mem_range.2 hi) (List.mem_range.2 hj) hs
  refine ⟨p.1, p.2, ?_, hm, hr⟩
  rw [getObjectResults_ok h, mem_resultsOf_some]
  exact hp

/-- Stage 1 is exhaustive and comes first: the pairs of the results split into a label-compatible
prefix `A` and a label-incompatible rest `B` (so every compatible pair precedes every incompatible one),
and no matchable compatible pair has both members outside `A`. -/
theorem stage1_exhaustive {c : Cfg} {sc : Scene} {rs : List Res} (h : getObjectResults c sc = .ok rs) :
    ∃ A B : List (Nat × Nat),
      rs.filter (fun r => r.2.isSome) = pairResults (A ++ B) ∧
      (∀ p ∈ A, (mkTbl c sc).valid p.1 p.2 = true) ∧
      (∀ p ∈ B, (mkTbl c sc).valid p.1 p.2 = false) ∧
      (∀ i j s, (mkTbl c sc).score i j = some s → (mkTbl c sc).valid i j = true →
        ∃ p ∈ A, p.1 = i ∨ p.2 = j) := by
  obtain ⟨B, hsplit, hB⟩ := matchFrom_pairs_split (mkTbl c sc) (List.range sc.ests.length) (List.range sc.gts.length)
  refine ⟨(stage1State (mkTbl c sc) (List.range sc.ests.length) (List.range sc.gts.length)).pairs, B, ?_,
    fun p hp => (stage1_pairs_valid _ _ _ p hp).1, fun p hp => (hB p hp).2.2.2, ?_⟩
  · rw [getObjectResults_ok h, filter_isSome_resultsOf]
    show pairResults (matchFrom _ _ _).pairs = _
    rw [hsplit]
  · intro i j s hs hv
    obtain ⟨hi, hj⟩ := mkTbl_score_some_lt hs
    obtain ⟨p, hp, hm, _⟩ := stage1_blocked (mkTbl c sc) (List.range sc.ests.length) (List.range sc.gts.length)
      (List.mem_range.2 hi) (List.mem_range.2 hj) hs hv
    exact ⟨p, hp, hm⟩

/-- The run is a path of the documented relation: "take *a* best available label-compatible pair until
none is left, then *a* best available pair regardless of label until none is left". -/
theorem refines_greedy_spec (c : Cfg) (sc : Scene) :
    TwoStageRun (mkTbl c sc) (List.range sc.ests.length) (List.range sc.gts.length)
      (matchAll (mkTbl c sc) sc.ests.length sc.gts.length) :=
  matchFrom_refines _ _ _

/-- When no two scores tie the relation has exactly one path, so the results ARE the documented
two-stage greedy assignment … -/
theorem greedy_unique_of_no_ties {c : Cfg} {sc : Scene} {rs : List Res} (h : getObjectResults c sc = .ok rs)
    (hnt : NoTies (mkTbl c sc)) {st : St}
    (hrun : TwoStageRun (mkTbl c sc) (List.range sc.ests.length) (List.range sc.gts.length) st) :
    rs = resultsOf c.fpValidation st := by
  rw [getObjectResults_ok h, twoStageRun_unique hnt hrun (refines_greedy_spec c sc)]

/-- … independent of the order in which the estimates and ground truths are listed: running the
matcher on any rearrangement of the index lists makes the same pairs in the same sequence. -/
theorem pairs_independent_of_index_order {c : Cfg} {sc : Scene} {rs : List Res}
    (h : getObjectResults c sc = .ok rs) (hnt : NoTies (mkTbl c sc)) {es gs : List Nat}
    (hE : es.Perm (List.range sc.ests.length)) (hG : gs.Perm (List.range sc.gts.length)) :
    rs.filter (fun r => r.2.isSome) = pairResults (matchFrom (mkTbl c sc) es gs).pairs := by
  rw [getObjectResults_ok h, filter_isSome_resultsOf, (matchFrom_perm hnt hE hG).1]
  rfl

/-! ## the hypotheses are satisfiable: concrete contested scenes -/

def exCfg : Cfg :=
  { policy := .default, mode := .centerDistance, targets := none, thresholds := none, fpValidation := false }

/-- estimate 0 (pedestrian) is nearest to GT 0 (car) but incompatible; estimate 1 (car) is compatible and
farther: stage 1 pairs (1,0); stage 2 pairs (0,1) although (0,0) would score better. -/
def exScene : Scene :=
  { ests := [⟨"pedestrian", "base_link"⟩, ⟨"car", "base_link"⟩, ⟨"car", "base_link"⟩],
    gts := [⟨"car", "base_link"⟩, ⟨"bus", "base_link"⟩],
    val := fun i j => (1 : Rat) + 2 * i + 7 * j + 3 * i * j }

example : getObjectResults exCfg exScene = .ok [(1, some 0), (0, some 1), (2, none)] := by decide +kernel
example : (mkTbl exCfg exScene).score 0 0 = some 1 ∧ (mkTbl exCfg exScene).valid 0 0 = false ∧
    (mkTbl exCfg exScene).score 1 0 = some 3 ∧ (mkTbl exCfg exScene).valid 1 0 = true := by decide +kernel

example : NoTies (mkTbl exCfg exScene) := noTies_of_check (by decide +kernel)

/-- with a tie (two estimates at the same distance of one ground truth) the first listed wins -/
example : getObjectResults exCfg { exScene with val := fun _ j => 1 + j } =
    .ok [(1, some 0), (0, some 1), (2, none)] := by decide +kernel

/-! ## the label rule, for the CODE's decision table

`PEval.KernelMatchable` (decision-table translator): `is_matchable` of the current source, tabulated over all its
atoms, equals the model's `isMatchable` (`matchable_code_table_eq_isMatchable`); the table check is re-proved on every
run. `valid i j` of the statements above is therefore what the code's own table says. -/

/-- the `valid` plane of the model's table is the verdict of the CODE's decision table of `is_matchable` -/
theorem valid_is_code_table {t : DT.DTree} (ht : Gen.K.matchable.tree = some t) (c : Cfg) (sc : Scene) (i j : Nat)
    (e g : Obj) (he : sc.ests[i]? = some e) (hg : sc.gts[j]? = some g) (s : Rat)
    (hs : (mkTbl c sc).score i j = some s) :
    DT.eval t (MatchKernels.valMatchable c.policy e g) = .ret ((mkTbl c sc).valid i j) := by
  rw [KernelMatchable.matchable_code_table_eq_isMatchable t ht]
  simp only [mkTbl, cellAt, he, hg] at hs ⊢
  unfold cell at hs ⊢
  by_cases hf : (e.frame == g.frame) = true
  · simp only [hf, if_true] at hs ⊢
    cases hl : labelThreshold c.targets c.thresholds g.label with
    | error err => simp [hl, bind, Except.bind] at hs
    | ok thr =>
      cases thr with
      | none => simp [hl, bind, Except.bind, pure, Except.pure]
      | some x =>
        cases hb : isBetterThan c.mode (sc.val i j) x with
        | error err => simp [hl, hb, bind, Except.bind] at hs
        | ok b =>
          cases b
          · simp [hl, hb, bind, Except.bind, pure, Except.pure, Cell.nan] at hs
          · simp [hl, hb, bind, Except.bind, pure, Except.pure]
  · simp [hf, pure, Except.pure, Cell.nan] at hs

end PEval.C02
