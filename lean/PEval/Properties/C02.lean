import PEval.Lemmas.MatchingUnique
import PEval.Lemmas.MatchingCertificate
import PEval.Lemmas.MatchingRowMajor
import PEval.Lemmas.MatchingTotal
import PEval.Properties.KernelMatchable
/-!
# C02 — matching prefers label-compatible pairs, then best score (no blocking pair)

Statements about `PEval.Matching.getObjectResults` and the table `mkTbl c sc` it is run on
(`score i j = some s` = the pair is matchable: same frame, within the threshold of the ground truth's
label — see `C01.table_score_iff`; `valid i j` = `MatchingLabelPolicy.is_matchable`). "Scores at least
as well as `s`" is `better mx s s' = false` (`s` is not strictly better than `s'`), so ties are handled
exactly as the property states. All statements hold for every scoring function, policy, mode, size.
-/
namespace PEval.C02
open PEval PEval.Matching

/-- The pick of one step (`np.nanargmin` / `np.nanargmax`) is a candidate and no candidate is strictly
better than it. -/
theorem argBest_optimal (mx : Bool) (l : List (Nat × Nat × Rat)) (c : Nat × Nat × Rat)
    (h : argBest mx l = some c) : c ∈ l ∧ ∀ x ∈ l, better mx x.2.2 c.2.2 = false :=
  ⟨argBest_mem mx l c h, argBest_opt mx l c h⟩

/-- …and a step is taken whenever a candidate exists. -/
theorem argBest_some_of_ne_nil (mx : Bool) (l : List (Nat × Nat × Rat)) (h : l ≠ []) :
    ∃ c, argBest mx l = some c := by
  cases hb : argBest mx l with
  | none => exact absurd (argBest_none mx l hb) h
  | some c => exact ⟨c, rfl⟩

/-- No blocking pair, compatible case: every matchable label-compatible pair `(i, j)` that is not
matched together has a member that is matched **compatibly** to a partner scoring at least as well. -/
theorem no_blocking_compatible {c : Cfg} {sc : Scene} {rs : List Res} (h : getObjectResults c sc = .ok rs)
    {i j : Nat} {s : Rat} (hs : (mkTbl c sc).score i j = some s) (hv : (mkTbl c sc).valid i j = true)
    (_hnot : (i, some j) ∉ rs) :
    ∃ i' j' s', (i', some j') ∈ rs ∧ (i' = i ∨ j' = j) ∧ (mkTbl c sc).valid i' j' = true ∧
      (mkTbl c sc).score i' j' = some s' ∧ better c.mode.maximize s s' = false := by
  obtain ⟨hi, hj⟩ := mkTbl_score_some_lt hs
  have hb := stage1_blocked (mkTbl c sc) (List.range sc.ests.length) (List.range sc.gts.length)
    (List.mem_range.2 hi) (List.mem_range.2 hj) hs hv
  obtain ⟨B, hsplit, _⟩ := matchFrom_pairs_split (mkTbl c sc) (List.range sc.ests.length) (List.range sc.gts.length)
  obtain ⟨p, hp, hm, hval, s', hs', hnw⟩ := hb
  refine ⟨p.1, p.2, s', ?_, hm, hval, hs', hnw⟩
  rw [getObjectResults_ok h, mem_resultsOf_some]
  show (p.1, p.2) ∈ (matchFrom _ _ _).pairs
  rw [hsplit]
  exact List.mem_append.2 (Or.inl hp)

/-- No blocking pair, general case (in particular label-INcompatible pairs): every matchable pair that
is not matched together has a member that is matched compatibly, or to a partner scoring at least as well. -/
theorem no_blocking_incompatible {c : Cfg} {sc : Scene} {rs : List Res} (h : getObjectResults c sc = .ok rs)
    {i j : Nat} {s : Rat} (hs : (mkTbl c sc).score i j = some s) (_hnot : (i, some j) ∉ rs) :
    ∃ i' j', (i', some j') ∈ rs ∧ (i' = i ∨ j' = j) ∧
      ((mkTbl c sc).valid i' j' = true ∨
        ∃ s', (mkTbl c sc).score i' j' = some s' ∧ better c.mode.maximize s s' = false) := by
  obtain ⟨hi, hj⟩ := mkTbl_score_some_lt hs
  obtain ⟨p, hp, hm, hr⟩ := matchFrom_blocked (mkTbl c sc) List.nodup_range List.nodup_range
    (List.mem_range.2 hi) (List.mem_range.2 hj) hs
  refine ⟨p.1, p.2, ?_, hm, hr⟩
  rw [getObjectResults_ok h, mem_resultsOf_some]
  exact hp

/-- Stage 1 is exhaustive and comes first: the pairs of the results split into a label-compatible
prefix `A` and a label-incompatible rest `B` (so every compatible pair precedes every incompatible one),
and no matchable compatible pair has both members outside `A`. -/
theorem stage1_exhaustive {c : Cfg} {sc : Scene} {rs : List Res} (h : getObjectResults c sc = .ok rs) :
    ∃ A B : List (Nat × Nat),
      rs.filter (fun r => r.2.isSome) = pairResults (A ++ B) ∧
      (∀ p ∈ A, (mkTbl c sc).valid p.1 p.2 = true) ∧
      (∀ p ∈ B, (mkTbl c sc).valid p.1 p.2 = false) ∧
      (∀ i j s, (mkTbl c sc).score i j = some s → (mkTbl c sc).valid i j = true →
        ∃ p ∈ A, p.1 = i ∨ p.2 = j) := by
  obtain ⟨B, hsplit, hB⟩ := matchFrom_pairs_split (mkTbl c sc) (List.range sc.ests.length) (List.range sc.gts.length)
  refine ⟨(stage1State (mkTbl c sc) (List.range sc.ests.length) (List.range sc.gts.length)).pairs, B, ?_,
    fun p hp => (stage1_pairs_valid _ _ _ p hp).1, fun p hp => (hB p hp).2.2.2, ?_⟩
  · rw [getObjectResults_ok h, filter_isSome_resultsOf]
    show pairResults (matchFrom _ _ _).pairs = _
    rw [hsplit]
  · intro i j s hs hv
    obtain ⟨hi, hj⟩ := mkTbl_score_some_lt hs
    obtain ⟨p, hp, hm, _⟩ := stage1_blocked (mkTbl c sc) (List.range sc.ests.length) (List.range sc.gts.length)
      (List.mem_range.2 hi) (List.mem_range.2 hj) hs hv
    exact ⟨p, hp, hm⟩

/-- The run is a path of the documented relation: "take *a* best available label-compatible pair until
none is left, then *a* best available pair regardless of label until none is left". -/
theorem refines_greedy_spec (c : Cfg) (sc : Scene) :
    TwoStageRun (mkTbl c sc) (List.range sc.ests.length) (List.range sc.gts.length)
      (matchAll (mkTbl c sc) sc.ests.length sc.gts.length) :=
  matchFrom_refines _ _ _

/-- Other tie winners: the property leaves the winner of an exact score tie open ("a partner scoring at least as well"), the
model fixes it.  An outcome of the real code that pairs differently is accepted by the correspondence exactly when the checker
`checkTwoStage` (lean/PEval/Lemmas/MatchingCertificate.lean; run by the driver on the order of picks the harness proposes)
accepts it - and an accepted certificate IS a run of the documented relation making exactly the proposed pairs. -/
theorem certificate_sound {c : Cfg} {sc : Scene} {picks1 picks2 : List (Nat × Nat)} {st : St}
    (h : checkTwoStage (mkTbl c sc) (List.range sc.ests.length) (List.range sc.gts.length) picks1 picks2 = some st) :
    TwoStageRun (mkTbl c sc) (List.range sc.ests.length) (List.range sc.gts.length) st ∧ st.pairs = picks1 ++ picks2 :=
  ⟨checkTwoStage_sound _ _ _ _ _ _ h, checkTwoStage_pairs _ _ _ _ _ _ h⟩

/-- … and without ties the only accepted certificate is the result itself. -/
theorem certificate_unique_of_no_ties {c : Cfg} {sc : Scene} {rs : List Res} (hr : getObjectResults c sc = .ok rs)
    (hnt : NoTies (mkTbl c sc)) {picks1 picks2 : List (Nat × Nat)} {st : St}
    (h : checkTwoStage (mkTbl c sc) (List.range sc.ests.length) (List.range sc.gts.length) picks1 picks2 = some st) :
    rs = resultsOf c.fpValidation st := by
  rw [getObjectResults_ok hr, twoStageRun_unique hnt (certificate_sound h).1 (matchFrom_refines _ _ _)]
  rfl

/-- When no two scores tie the relation has exactly one path, so the results ARE the documented
two-stage greedy assignment … -/
theorem greedy_unique_of_no_ties {c : Cfg} {sc : Scene} {rs : List Res} (h : getObjectResults c sc = .ok rs)
    (hnt : NoTies (mkTbl c sc)) {st : St}
    (hrun : TwoStageRun (mkTbl c sc) (List.range sc.ests.length) (List.range sc.gts.length) st) :
    rs = resultsOf c.fpValidation st := by
  rw [getObjectResults_ok h, twoStageRun_unique hnt hrun (refines_greedy_spec c sc)]

/-- … independent of the order in which the estimates and ground truths are listed: running the
matcher on any rearrangement of the index lists makes the same pairs in the same sequence. -/
theorem pairs_independent_of_index_order {c : Cfg} {sc : Scene} {rs : List Res}
    (h : getObjectResults c sc = .ok rs) (hnt : NoTies (mkTbl c sc)) {es gs : List Nat}
    (hE : es.Perm (List.range sc.ests.length)) (hG : gs.Perm (List.range sc.gts.length)) :
    rs.filter (fun r => r.2.isSome) = pairResults (matchFrom (mkTbl c sc) es gs).pairs := by
  rw [getObjectResults_ok h, filter_isSome_resultsOf, (matchFrom_perm hnt hE hG).1]
  rfl

/-! ## the hypotheses are satisfiable: concrete contested scenes -/

def exCfg : Cfg :=
  { policy := .default, mode := .centerDistance, targets := none, thresholds := none, fpValidation := false }

/-- estimate 0 (pedestrian) is nearest to GT 0 (car) but incompatible; estimate 1 (car) is compatible and
farther: stage 1 pairs (1,0); stage 2 pairs (0,1) although (0,0) would score better. -/
def exScene : Scene :=
  { ests := [⟨"pedestrian", "base_link"⟩, ⟨"car", "base_link"⟩, ⟨"car", "base_link"⟩],
    gts := [⟨"car", "base_link"⟩, ⟨"bus", "base_link"⟩],
    val := fun i j => (1 : Rat) + 2 * i + 7 * j + 3 * i * j }

example : getObjectResults exCfg exScene = .ok [(1, some 0), (0, some 1), (2, none)] := by decide +kernel

/-- a tie: two estimates at the same distance from one ground truth.  The model pairs estimate 0 (row-major); the other winner
is a run of the documented relation as well (accepted certificate), pairing the worse estimate 2 is not (rejected). -/
def exTieCert : Scene :=
  { ests := [⟨"car", "base_link"⟩, ⟨"car", "base_link"⟩, ⟨"car", "base_link"⟩], gts := [⟨"car", "base_link"⟩],
    val := fun i _ => if i == 2 then 5 else 1 }

example : getObjectResults exCfg exTieCert = .ok [(0, some 0), (1, none), (2, none)] := by decide +kernel
example : (checkTwoStage (mkTbl exCfg exTieCert) (List.range 3) (List.range 1) [(1, 0)] []).isSome = true := by decide +kernel
example : (checkTwoStage (mkTbl exCfg exTieCert) (List.range 3) (List.range 1) [(0, 0)] []).isSome = true := by decide +kernel
example : (checkTwoStage (mkTbl exCfg exTieCert) (List.range 3) (List.range 1) [(2, 0)] []).isSome = false := by decide +kernel
example : (checkTwoStage (mkTbl exCfg exTieCert) (List.range 3) (List.range 1) [] []).isSome = false := by decide +kernel
example : (mkTbl exCfg exScene).score 0 0 = some 1 ∧ (mkTbl exCfg exScene).valid 0 0 = false ∧
    (mkTbl exCfg exScene).score 1 0 = some 3 ∧ (mkTbl exCfg exScene).valid 1 0 = true := by decide +kernel

example : NoTies (mkTbl exCfg exScene) := noTies_of_check (by decide +kernel)

/-- with a tie (two estimates at the same distance of one ground truth) the first listed wins -/
example : getObjectResults exCfg { exScene with val := fun _ j => 1 + j } =
    .ok [(1, some 0), (0, some 1), (2, none)] := by decide +kernel

/-! ## the result WITH ties: the exact tie-breaking of the code and a characterisation without any tie hypothesis

`np.nanargmin / np.nanargmax` return the first occurrence of the optimum in the flattened array, and the array is the
table that remains after the `np.delete`s of the earlier steps.  The rule of the code is therefore: *take the first best
available cell in row-major order of the remaining table* (the remaining estimate listed first wins; among its cells the
remaining ground truth listed first).  Below this rule is stated on the table alone (`Avail`, `RowMajorLe`, `SpecPick`,
`RowMajorRun` do not mention `cands` or `argBest`), every step of the model is shown to be exactly such a pick, the rule
is shown to be FUNCTIONAL for every table (ties or not), and the results are its unique outcome.  No input is outside
these theorems; `NoTies` is no longer needed for "the results are THE documented assignment". -/

/-- One step, exactly: `(i, j)` with score `s` is picked iff the cell is available (both objects remain, the cell is
scored, stage 1: label-compatible), no available cell scores strictly better, and every available cell scoring as well
is listed later in the row-major order of the remaining table. -/
theorem pick_is_first_best_row_major {t : Tbl} {s1 : Bool} {es gs : List Nat} (hE : es.Nodup) (hG : gs.Nodup)
    {i j : Nat} {s : Rat} :
    argBest t.maximize (cands t s1 es gs) = some (i, j, s) ↔ SpecPick t s1 es gs i j s :=
  argBest_cands_iff_specPick hE hG

/-- … and a loop stops exactly when no cell is available. -/
theorem loop_stops_iff_nothing_available {t : Tbl} {s1 : Bool} {es gs : List Nat} :
    argBest t.maximize (cands t s1 es gs) = none ↔ ∀ i j s, ¬ Avail t s1 es gs i j s :=
  argBest_cands_none_iff

/-- The remaining lists of a call stay increasing (the matcher starts from the caller's order and only deletes) … -/
theorem remaining_lists_increasing (t : Tbl) (s1 : Bool) (fuel : Nat) (st : St) (hE : st.es.Pairwise (· < ·))
    (hG : st.gs.Pairwise (· < ·)) :
    (stage t s1 fuel st).es.Pairwise (· < ·) ∧ (stage t s1 fuel st).gs.Pairwise (· < ·) :=
  stage_sorted t s1 fuel st hE hG

/-- … so in terms of the caller's lists the tie-break is: best score; among equal scores the estimate with the smallest
index; among its cells the ground truth with the smallest index. -/
theorem pick_is_lex_least {t : Tbl} {s1 : Bool} {es gs : List Nat} (hE : es.Pairwise (· < ·))
    (hG : gs.Pairwise (· < ·)) {i j : Nat} {s : Rat} :
    argBest t.maximize (cands t s1 es gs) = some (i, j, s) ↔
      Avail t s1 es gs i j s ∧ ∀ i' j' s', Avail t s1 es gs i' j' s' →
        better t.maximize s' s = false ∧ (better t.maximize s s' = false → (i < i' ∨ (i = i' ∧ j ≤ j'))) :=
  argBest_cands_iff_lex hE hG

/-- The model's run is a run of the rule "first best available cell in row-major order, compatible pairs first" … -/
theorem refines_row_major_spec (c : Cfg) (sc : Scene) :
    TwoStageRowMajor (mkTbl c sc) (List.range sc.ests.length) (List.range sc.gts.length)
      (matchAll (mkTbl c sc) sc.ests.length sc.gts.length) :=
  matchFrom_refines_rowMajor _ List.nodup_range List.nodup_range

/-- … the rule has at most one outcome on EVERY table (no hypothesis on ties) … -/
theorem row_major_spec_functional {t : Tbl} {es gs : List Nat} {a b : St}
    (ha : TwoStageRowMajor t es gs a) (hb : TwoStageRowMajor t es gs b) : a = b :=
  twoStageRowMajor_unique ha hb

/-- … hence the results of every successful call ARE the outcome of the rule, whatever ties the scores have. -/
theorem result_is_the_row_major_greedy {c : Cfg} {sc : Scene} {rs : List Res} (h : getObjectResults c sc = .ok rs)
    {st : St}
    (hrun : TwoStageRowMajor (mkTbl c sc) (List.range sc.ests.length) (List.range sc.gts.length) st) :
    rs = resultsOf c.fpValidation st := by
  rw [getObjectResults_ok h, row_major_spec_functional hrun (refines_row_major_spec c sc)]

/-- The rule with tie-breaking refines the weaker documented relation "take *a* best available pair" (`TwoStageRun`). -/
theorem row_major_spec_refines_any_best {t : Tbl} {es gs : List Nat} {a : St} (h : TwoStageRowMajor t es gs a) :
    TwoStageRun t es gs a :=
  twoStageRowMajor_twoStageRun h

/-! ### a weaker sufficient condition for uniqueness of the any-best relation

`NoTies` fails in the IoU modes as soon as two disjoint pairs both score 0.  `NoBestTies2` only asks that at the steps
the run goes through the picked score is carried by one candidate; it follows from `NoTies` and is decidable. -/

theorem noBestTies_of_noTies {c : Cfg} {sc : Scene} (hnt : NoTies (mkTbl c sc)) :
    NoBestTies2 (mkTbl c sc) (List.range sc.ests.length) (List.range sc.gts.length) :=
  noBestTies2_of_noTies hnt _ _

/-- `greedy_unique_of_no_ties` under the weaker hypothesis: when no STEP of the run has two best candidates, every run of
"take a best available compatible pair …, then a best available pair …" gives the results. -/
theorem greedy_unique_of_no_best_ties {c : Cfg} {sc : Scene} {rs : List Res} (h : getObjectResults c sc = .ok rs)
    (hnt : NoBestTies2 (mkTbl c sc) (List.range sc.ests.length) (List.range sc.gts.length)) {st : St}
    (hrun : TwoStageRun (mkTbl c sc) (List.range sc.ests.length) (List.range sc.gts.length) st) :
    rs = resultsOf c.fpValidation st := by
  rw [getObjectResults_ok h, twoStageRun_eq_matchFrom_of_noBestTies hnt hrun]
  rfl

/-- `pairs_independent_of_index_order` under the weaker hypothesis. -/
theorem pairs_independent_of_index_order_local {c : Cfg} {sc : Scene} {rs : List Res}
    (h : getObjectResults c sc = .ok rs)
    (hnt : NoBestTies2 (mkTbl c sc) (List.range sc.ests.length) (List.range sc.gts.length)) {es gs : List Nat}
    (hE : es.Perm (List.range sc.ests.length)) (hG : gs.Perm (List.range sc.gts.length)) :
    rs.filter (fun r => r.2.isSome) = pairResults (matchFrom (mkTbl c sc) es gs).pairs := by
  rw [getObjectResults_ok h, filter_isSome_resultsOf, matchFrom_perm_of_noBestTies hnt hE hG]
  rfl

/-! ### the hypotheses are satisfiable, the statements are sharp -/

/-- an IoU scene: two overlapping pairs (IoU 1/2 and 7/10) and two disjoint ones (IoU 0, a TIE) -/
def exIou : Scene :=
  { ests := [⟨"car", "base_link"⟩, ⟨"car", "base_link"⟩], gts := [⟨"car", "base_link"⟩, ⟨"car", "base_link"⟩],
    val := fun i j => if i == 0 && j == 0 then 1 / 2 else if i == 1 && j == 1 then 7 / 10 else 0 }

def exIouCfg : Cfg := { exCfg with mode := .iou2d }

/-- the global `NoTies` fails on it (cells (0,1) and (1,0) both score 0) … -/
example : ¬ NoTies (mkTbl exIouCfg exIou) := by
  intro h
  have := h 0 1 1 0 0 (by decide +kernel) (by decide +kernel)
  exact absurd this.1 (by decide)

/-- … the local condition holds (the zeros are never best while both are available) … -/
example : NoBestTies2 (mkTbl exIouCfg exIou) (List.range exIou.ests.length) (List.range exIou.gts.length) := by
  decide +kernel

example : getObjectResults exIouCfg exIou = .ok [(1, some 1), (0, some 0)] := by decide +kernel

/-- … and on a scene where the BEST score is tied (all four cells at distance 1) the local condition fails too, while
the row-major rule still determines the result: estimate 0 takes ground truth 0, then estimate 1 ground truth 1. -/
def exTie : Scene := { exIou with val := fun _ _ => 1 }

example : ¬ NoBestTies2 (mkTbl exCfg exTie) (List.range exTie.ests.length) (List.range exTie.gts.length) := by
  decide +kernel

example : getObjectResults exCfg exTie = .ok [(0, some 0), (1, some 1)] := by decide +kernel

/-- the first pick of that run is the pick of the rule (non-vacuity of `pick_is_first_best_row_major`) -/
example : SpecPick (mkTbl exCfg exTie) true [0, 1] [0, 1] 0 0 1 :=
  (pick_is_first_best_row_major (by decide) (by decide)).1 (by decide +kernel)

/-- without a tie hypothesis the pairs DO depend on the listing order (so `pairs_independent_of_index_order*` need one):
listing estimate 1 first gives it ground truth 0 -/
example : (matchFrom (mkTbl exCfg exTie) [1, 0] [0, 1]).pairs = [(1, 0), (0, 1)] ∧
    (matchFrom (mkTbl exCfg exTie) [0, 1] [0, 1]).pairs = [(0, 0), (1, 1)] := by decide +kernel

/-- A defective variant of the arg-best: the LAST occurrence of the optimum (what `len - 1 - argmin(reversed)` or a `<=`
in a hand-written scan would give). -/
def argBestLast (mx : Bool) : List (Nat × Nat × Rat) → Option (Nat × Nat × Rat)
  | [] => none
  | c :: cs =>
    match argBestLast mx cs with
    | none => some c
    | some d => if better mx c.2.2 d.2.2 then some c else some d

/-- It still returns a best candidate (so `argBest_optimal`, `no_blocking_*` and `refines_greedy_spec` could not tell it
from the real one), but `pick_is_first_best_row_major` FAILS for it: on the tied scene it picks cell (1,1), which is not
the pick of the rule. -/
example : argBestLast false (cands (mkTbl exCfg exTie) true [0, 1] [0, 1]) = some (1, 1, 1) ∧
    ¬ SpecPick (mkTbl exCfg exTie) true [0, 1] [0, 1] 1 1 1 := by
  refine ⟨by decide +kernel, fun h => ?_⟩
  have h0 : SpecPick (mkTbl exCfg exTie) true [0, 1] [0, 1] 0 0 1 :=
    (pick_is_first_best_row_major (by decide) (by decide)).1 (by decide +kernel)
  exact absurd (specPick_unique h h0).1 (by decide)

/-! non-vacuity of the remaining hypotheses, on the scenes above -/

example : ∀ i' j' s', Avail (mkTbl exCfg exTie) true [0, 1] [0, 1] i' j' s' →
    better false s' 1 = false ∧ (better false 1 s' = false → (0 < i' ∨ (0 = i' ∧ 0 ≤ j'))) :=
  ((pick_is_lex_least (t := mkTbl exCfg exTie) (s1 := true) (es := [0, 1]) (gs := [0, 1]) (by decide) (by decide)).1
    (by decide +kernel)).2

example : (stage (mkTbl exCfg exTie) true 2 { es := List.range 2, gs := List.range 2, pairs := [] }).es.Pairwise (· < ·) :=
  (remaining_lists_increasing _ true 2 _ List.pairwise_lt_range List.pairwise_lt_range).1

/-- the tied scene is covered by the characterisation: its results are the outcome of the rule -/
example : [(0, some 0), (1, some 1)] =
    resultsOf exCfg.fpValidation (matchAll (mkTbl exCfg exTie) exTie.ests.length exTie.gts.length) :=
  result_is_the_row_major_greedy (c := exCfg) (sc := exTie) (by decide +kernel) (refines_row_major_spec exCfg exTie)

/-- the IoU scene (global ties at 0) is covered by the weaker uniqueness hypothesis, also for another listing order -/
example : [(1, some 1), (0, some 0)] =
    resultsOf exIouCfg.fpValidation (matchAll (mkTbl exIouCfg exIou) exIou.ests.length exIou.gts.length) :=
  greedy_unique_of_no_best_ties (c := exIouCfg) (sc := exIou) (by decide +kernel) (by decide +kernel)
    (refines_greedy_spec exIouCfg exIou)

example : ([(1, some 1), (0, some 0)] : List Res).filter (fun r => r.2.isSome) =
    pairResults (matchFrom (mkTbl exIouCfg exIou) [1, 0] [1, 0]).pairs :=
  pairs_independent_of_index_order_local (c := exIouCfg) (sc := exIou) (by decide +kernel) (by decide +kernel)
    (by decide) (by decide)

/-! ## companions of the `.ok`-conditional statements (audit C02 finding 3)

`no_blocking_*`, `stage1_exhaustive`, `result_is_the_row_major_greedy` … speak about successful calls.  The call succeeds
for every well-formed configuration and raises exactly when a same-frame cell of the table raises (`IndexError` of
`get_label_threshold` for a short threshold list, `AssertionError` of the IoU `is_better_than` for a threshold outside
`[0, 1]`); details in `PEval.C01` (`cell_raises_iff`, `raises_first_failing_cell`). -/

theorem total_of_wellformed {c : Cfg} (hwf : WFCfg c) (sc : Scene) : ∃ rs, getObjectResults c sc = .ok rs :=
  getObjectResults_total hwf sc

theorem raises_iff {c : Cfg} {sc : Scene} {err : Err} :
    getObjectResults c sc = .error err ↔ sc.ests ≠ [] ∧ sc.gts ≠ [] ∧ tableError c sc = some err :=
  getObjectResults_error_iff

/-- for a well-formed configuration no matchable pair is a blocking pair — unconditionally (totality + `no_blocking_incompatible`) -/
theorem no_blocking_pair_of_wellformed {c : Cfg} (hwf : WFCfg c) (sc : Scene) :
    ∃ rs, getObjectResults c sc = .ok rs ∧
      ∀ i j s, (mkTbl c sc).score i j = some s → (i, some j) ∉ rs →
        ∃ i' j', (i', some j') ∈ rs ∧ (i' = i ∨ j' = j) ∧
          ((mkTbl c sc).valid i' j' = true ∨
            ∃ s', (mkTbl c sc).score i' j' = some s' ∧ better c.mode.maximize s s' = false) := by
  obtain ⟨rs, h⟩ := getObjectResults_total hwf sc
  exact ⟨rs, h, fun i j s hs hnot => no_blocking_incompatible h hs hnot⟩

example : WFCfg exCfg := wfCfg_of_no_thresholds (Or.inl rfl)

/-! ## the label rule, for the CODE's decision table

`PEval.KernelMatchable` (decision-table translator): `is_matchable` of the current source, tabulated over all its
atoms, equals the model's `isMatchable` (`matchable_code_table_eq_isMatchable`); the table check is re-proved on every
run. `valid i j` of the statements above is therefore what the code's own table says. -/

/-- the `valid` plane of the model's table is the verdict of the CODE's decision table of `is_matchable` -/
theorem valid_is_code_table {t : DT.DTree} (ht : Gen.K.matchable.tree = some t) (c : Cfg) (sc : Scene) (i j : Nat)
    (e g : Obj) (he : sc.ests[i]? = some e) (hg : sc.gts[j]? = some g) (s : Rat)
    (hs : (mkTbl c sc).score i j = some s) :
    DT.eval t (MatchKernels.valMatchable c.policy e g) = .ret ((mkTbl c sc).valid i j) := by
  rw [KernelMatchable.matchable_code_table_eq_isMatchable t ht]
  simp only [mkTbl, cellAt, he, hg] at hs ⊢
  unfold cell at hs ⊢
  by_cases hf : (e.frame == g.frame) = true
  · simp only [hf, if_true] at hs ⊢
    cases hl : labelThreshold c.targets c.thresholds g.label with
    | error err => simp [hl, bind, Except.bind] at hs
    | ok thr =>
      cases thr with
      | none => simp [hl, bind, Except.bind, pure, Except.pure]
      | some x =>
        cases hb : isBetterThan c.mode (sc.val i j) x with
        | error err => simp [hl, hb, bind, Except.bind] at hs
        | ok b =>
          cases b
          · simp [hl, hb, bind, Except.bind, pure, Except.pure, Cell.nan] at hs
          · simp [hl, hb, bind, Except.bind, pure, Except.pure]
  · simp [hf, pure, Except.pure, Cell.nan] at hs

end PEval.C02
