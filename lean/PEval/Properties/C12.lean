import PEval.Lemmas.SensingCrop
import PEval.Lemmas.SensingBox
import PEval.Lemmas.SensingEdgeBox
import PEval.Lemmas.SensingTotal
import Mathlib.Tactic.Positivity
import Mathlib.Tactic.NormNum
import Mathlib.Tactic.Ring
import Mathlib.Tactic.FieldSimp
import PEval.Gen.SensingDT
import PEval.Model.SensingDT
/-!
# C12 — sensing counts exactly the points inside each box; every object classified once

All theorems are about the model `PEval/Model/Sensing.lean` (the edge scan of `crop_pointcloud`
with its `uint8` counter, `get_corners`, `DynamicObjectWithSensingResult`,
`SensingFrameResult.evaluate_frame`, `SensingEvaluationManager.add_frame_result`).
No bound on the number of points, objects or areas.
-/

namespace PEval.C12
open PEval.Sensing

/-! ## inside ⊎ outside = cloud -/

/-- The inside and the outside selection of one area are the two halves of one filter: every row is
in exactly one of them, both keep the order of the cloud, together they are the cloud. Holds for
every area (any polygon, any corner list) and every cloud. -/
theorem crop_partition (cols : Nat) (cloud : List Pt) (area : List Corner) :
    cropInside cols cloud area = cloud.filter (keepInside cols area) ∧
    cropOutside cols cloud area = cloud.filter (fun p => !keepInside cols area p) ∧
    (cropInside cols cloud area).Sublist cloud ∧ (cropOutside cols cloud area).Sublist cloud ∧
    (cropInside cols cloud area ++ cropOutside cols cloud area).Perm cloud ∧
    (cropInside cols cloud area).length + (cropOutside cols cloud area).length = cloud.length := by
  have ho : cropOutside cols cloud area = cloud.filter (fun p => !keepInside cols area p) := by
    unfold cropOutside
    congr 1
    funext p
    exact keepOutside_eq_not cols area p
  have hp : (cropInside cols cloud area ++ cropOutside cols cloud area).Perm cloud := by
    rw [ho]; exact List.filter_append_perm _ _
  refine ⟨rfl, ho, List.filter_sublist, ?_, hp, ?_⟩
  · rw [ho]; exact List.filter_sublist
  · rw [← List.length_append]; exact hp.length_eq

/-- the same through the API with its error cases: `crop(…, inside=True)` succeeds iff
`crop(…, inside=False)` does, and then the two results partition the cloud -/
theorem crop_partition_api (cols : Nat) (cloud : List Pt) (area : List Corner) (ins : List Pt)
    (h : crop cols cloud area true = .ok ins) :
    ∃ outs, crop cols cloud area false = .ok outs ∧
      ins = cloud.filter (keepInside cols area) ∧ outs = cloud.filter (fun p => !keepInside cols area p) ∧
      (ins ++ outs).Perm cloud ∧ ∀ p ∈ cloud, (p ∈ ins ↔ ¬ p ∈ outs) := by
  obtain ⟨hc, h3, he, hi⟩ := crop_ok h
  refine ⟨cropOutside cols cloud area, ?_, ?_, ?_, ?_, ?_⟩
  · rw [crop_of_valid cloud false hc h3 he]; rfl
  · simpa using hi
  · exact (crop_partition cols cloud area).2.1
  · have : ins = cropInside cols cloud area := by simpa [cropInside] using hi
    rw [this]; exact (crop_partition cols cloud area).2.2.2.2.1
  · intro p hp
    have hi' : ins = cloud.filter (keepInside cols area) := by simpa using hi
    rw [hi', (crop_partition cols cloud area).2.1]
    simp [List.mem_filter, hp]

/-! ## detection: count, threshold, classification -/

/-- `is_detected ⇔ inside count ≥ min_points_threshold`; the count is the length of the inside crop
with the distance-dependent scale; `is_occluded ⇔ visibility is Visibility.NONE` -/
theorem detected_iff_count (cfg : Cfg) (cols : Nat) (cloud : List Pt) (o : Obj) (r : SRes)
    (h : sensingResult cfg cols cloud o = .ok r) :
    r.gt = o.id ∧
    r.inside = cropInside cols cloud (boxCorners o.box (scaleFactor cfg o.dist)) ∧
    r.num = r.inside.length ∧
    (r.isDetected = true ↔ (r.num : Int) ≥ cfg.minPoints) ∧
    (r.isOccluded = true ↔ isNone o.visibility = true) := by
  obtain ⟨_, hr⟩ := sensingResult_ok h
  subst hr
  simp [sres]

/-- `get_inside_pointcloud_num` and `point_exist` are the length / non-emptiness of the inside crop -/
theorem insideNum_eq (cols : Nat) (cloud : List Pt) (b : Box) (k : Rat) (n : Nat)
    (h : insideNum cols cloud b k = .ok n) :
    n = (cropInside cols cloud (boxCorners b k)).length ∧
    pointExist cols cloud b k = .ok (decide (n > 0)) := by
  unfold insideNum at h
  unfold pointExist insideNum
  rw [cropBox_eq] at h ⊢
  by_cases hc : cols < 2
  · rw [if_pos hc] at h; cases h
  · rw [if_neg hc] at h ⊢
    simp only [Except.map] at h ⊢
    injection h with h
    subst h
    simp

/-- `is_occluded` for a loaded annotation (a `Visibility` member): exactly the member `NONE`, which
is a member of the enum as regenerated from the source; a raw string is occluded iff it is that
member's value -/
theorem isNone_spec :
    (∀ n : String, isNone (some (.member n)) = true ↔ n = "NONE") ∧
    "NONE" ∈ Gen.visibility.map (·.1) ∧
    (∀ s : String, isNone (some (.raw s)) = true ↔ ("NONE", s) ∈ Gen.visibility) ∧
    isNone none = false := by
  refine ⟨fun n => by simp [isNone], by decide, fun s => ?_, rfl⟩
  simp [isNone, Gen.visibility]
  constructor
  · intro h; exact h.symm
  · intro h; exact h.symm

/-- the verdict of one object: `warning` takes precedence (fully occluded objects are never counted
as detected or failed), otherwise `success` iff enough points -/
theorem verdict_iff (r : SRes) :
    (classify r = .warning ↔ r.isOccluded = true) ∧
    (classify r = .success ↔ r.isOccluded = false ∧ r.isDetected = true) ∧
    (classify r = .fail ↔ r.isOccluded = false ∧ r.isDetected = false) := by
  unfold classify
  cases r.isOccluded <;> cases r.isDetected <;> simp

/-- the three result lists of a frame are the three classes of the per-object results, in the order
of the ground-truth list -/
theorem classify_lists (cfg : Cfg) (cols : Nat) (objs : List Obj) (cloud : List Pt) (nds : List (List Pt))
    (fr : FrameRes) (h : evaluateFrame cfg cols objs cloud nds = .ok fr) :
    fr.warning = (objs.map (sres cfg cols cloud)).filter (fun r => classify r = .warning) ∧
    fr.success = (objs.map (sres cfg cols cloud)).filter (fun r => classify r = .success) ∧
    fr.fail = (objs.map (sres cfg cols cloud)).filter (fun r => classify r = .fail) := by
  unfold evaluateFrame at h
  obtain ⟨fr1, h1, h2⟩ := bind_ok h
  obtain ⟨e1, _⟩ := evaluateDetection_ok h1
  obtain ⟨_, w, s, f⟩ := evaluateNonDetection_ok h2
  obtain ⟨pw, ps, pf, _⟩ := pushAll_lists (objs.map (sres cfg cols cloud)) {}
  rw [w, s, f, e1, pw, ps, pf]
  simp

/-- **every ground-truth object is reported exactly once**: the ids of warning ++ success ++ fail are
a permutation of the ids of the ground-truth list; if the ids are distinct every object is in exactly
one list; it is in `warning` iff it is annotated `Visibility.NONE` (whatever its point count), in
`success` iff it is not and has at least `min_points_threshold` points inside its scaled box. -/
theorem classify_exactly_one (cfg : Cfg) (cols : Nat) (objs : List Obj) (cloud : List Pt)
    (nds : List (List Pt)) (fr : FrameRes) (h : evaluateFrame cfg cols objs cloud nds = .ok fr) :
    ((fr.warning ++ fr.success ++ fr.fail).map (·.gt)).Perm (objs.map (·.id)) ∧
    ((objs.map (·.id)).Nodup → ∀ o ∈ objs,
        (o.id ∈ fr.warning.map (·.gt) ∧ o.id ∉ fr.success.map (·.gt) ∧ o.id ∉ fr.fail.map (·.gt)) ∨
        (o.id ∉ fr.warning.map (·.gt) ∧ o.id ∈ fr.success.map (·.gt) ∧ o.id ∉ fr.fail.map (·.gt)) ∨
        (o.id ∉ fr.warning.map (·.gt) ∧ o.id ∉ fr.success.map (·.gt) ∧ o.id ∈ fr.fail.map (·.gt))) ∧
    (∀ r ∈ fr.warning, ∃ o ∈ objs, r = sres cfg cols cloud o ∧ isNone o.visibility = true) ∧
    (∀ r ∈ fr.success, ∃ o ∈ objs, r = sres cfg cols cloud o ∧ isNone o.visibility = false ∧
        ((cropInside cols cloud (boxCorners o.box (scaleFactor cfg o.dist))).length : Int) ≥ cfg.minPoints) ∧
    (∀ r ∈ fr.fail, ∃ o ∈ objs, r = sres cfg cols cloud o ∧ isNone o.visibility = false ∧
        ((cropInside cols cloud (boxCorners o.box (scaleFactor cfg o.dist))).length : Int) < cfg.minPoints) := by
  obtain ⟨hw, hs, hf⟩ := classify_lists cfg cols objs cloud nds fr h
  have hperm : ((fr.warning ++ fr.success ++ fr.fail).map (·.gt)).Perm (objs.map (·.id)) := by
    rw [hw, hs, hf, ← sres_gt cfg cols cloud objs]
    exact (three_way_perm _).map _
  refine ⟨hperm, ?_, ?_, ?_, ?_⟩
  · intro hnd o ho
    have hmem : o.id ∈ (fr.warning ++ fr.success ++ fr.fail).map (·.gt) :=
      hperm.mem_iff.mpr (List.mem_map_of_mem ho)
    have hnd' := (hperm.nodup_iff).mpr hnd
    simp only [List.map_append] at hmem hnd'
    rw [List.nodup_append] at hnd'
    obtain ⟨hws, _, hd2⟩ := hnd'
    rw [List.nodup_append] at hws
    obtain ⟨_, _, hd1⟩ := hws
    rw [List.mem_append, List.mem_append] at hmem
    rcases hmem with (hm | hm) | hm
    · left
      refine ⟨hm, fun h2 => hd1 _ hm _ h2 rfl, fun h2 => hd2 _ (List.mem_append_left _ hm) _ h2 rfl⟩
    · right; left
      refine ⟨fun h2 => hd1 _ h2 _ hm rfl, hm, fun h2 => hd2 _ (List.mem_append_right _ hm) _ h2 rfl⟩
    · right; right
      refine ⟨fun h2 => hd2 _ (List.mem_append_left _ h2) _ hm rfl,
              fun h2 => hd2 _ (List.mem_append_right _ h2) _ hm rfl, hm⟩
  · intro r hr
    rw [hw, List.mem_filter, List.mem_map] at hr
    obtain ⟨⟨o, ho, rfl⟩, hc⟩ := hr
    refine ⟨o, ho, rfl, ?_⟩
    have := ((verdict_iff _).1).mp (of_decide_eq_true hc)
    simpa [sres] using this
  · intro r hr
    rw [hs, List.mem_filter, List.mem_map] at hr
    obtain ⟨⟨o, ho, rfl⟩, hc⟩ := hr
    refine ⟨o, ho, rfl, ?_⟩
    have := ((verdict_iff _).2.1).mp (of_decide_eq_true hc)
    simpa [sres] using this
  · intro r hr
    rw [hf, List.mem_filter, List.mem_map] at hr
    obtain ⟨⟨o, ho, rfl⟩, hc⟩ := hr
    refine ⟨o, ho, rfl, ?_⟩
    have := ((verdict_iff _).2.2).mp (of_decide_eq_true hc)
    simpa [sres] using this

/-! ## non-detection areas -/

theorem outsideAll_iff (cfg : Cfg) (cols : Nat) (objs : List Obj) (p : Pt) :
    outsideAll cfg cols objs p = true ↔
      ∀ o ∈ objs, keepInside cols (boxCorners o.box (scaleFactor cfg o.dist)) p = false := by
  unfold outsideAll
  rw [List.all_eq_true]
  constructor
  · intro h o ho
    have := h o ho
    rw [keepOutside_eq_not] at this
    simpa using this
  · intro h o ho
    rw [keepOutside_eq_not, h o ho]; rfl

/-- `evaluate_frame`: the reported clouds are, for every given cloud in order, its points outside
every object's scaled box (as decided by `crop`), dropped when empty -/
theorem nondetection_exact_frame (cfg : Cfg) (cols : Nat) (objs : List Obj) (cloud : List Pt)
    (nds : List (List Pt)) (fr : FrameRes) (h : evaluateFrame cfg cols objs cloud nds = .ok fr) :
    fr.nonDetection =
      (nds.map (fun c => c.filter (outsideAll cfg cols objs))).filter (fun c => c.length ≠ 0) := by
  unfold evaluateFrame at h
  obtain ⟨fr1, h1, h2⟩ := bind_ok h
  obtain ⟨e1, _⟩ := evaluateDetection_ok h1
  obtain ⟨e2, _⟩ := evaluateNonDetection_ok h2
  rw [e2, e1, (pushAll_lists _ _).2.2.2]
  simp [reported]

/-- **the reported non-detection points** of `add_frame_result`: for every non-detection area, in
order, the rows of the cloud that `crop` puts inside the area and outside every object's box scaled
by the manager's configuration and outside every target object's box scaled by the frame
configuration; areas without such a point are not reported. -/
theorem nondetection_exact (mcfg fcfg : Cfg) (cols : Nat) (objs : List Obj) (cloud : List Pt)
    (areas : List (List Corner)) (fr : FrameRes)
    (h : addFrameResult mcfg fcfg cols objs cloud areas = .ok fr) :
    fr.nonDetection =
      (areas.map (fun a => cloud.filter (fun p =>
          keepInside cols a p && (outsideAll mcfg cols objs p
            && outsideAll fcfg cols (filterUuids fcfg objs) p)))).filter (fun c => c.length ≠ 0) := by
  unfold addFrameResult at h
  obtain ⟨nd, h1, h2⟩ := bind_ok h
  unfold managerCrop at h1
  obtain ⟨cs, h3, h4⟩ := bind_ok h1
  have e3 := managerCropAreas_ok h3
  have e4 := managerCropObjects_ok h4
  rw [nondetection_exact_frame fcfg cols _ cloud nd fr h2, e4, e3]
  simp only [List.map_map, Function.comp_def, List.filter_filter]
  congr 2
  funext a
  congr 1
  funext p
  generalize keepInside cols a p = x
  generalize outsideAll mcfg cols objs p = y
  generalize outsideAll fcfg cols (filterUuids fcfg objs) p = z
  cases x <;> cases y <;> cases z <;> rfl

/-- point-wise reading: a row is reported for some area iff it lies in a non-detection area and in
no scaled object box -/
theorem nondetection_mem (mcfg fcfg : Cfg) (cols : Nat) (objs : List Obj) (cloud : List Pt)
    (areas : List (List Corner)) (fr : FrameRes)
    (h : addFrameResult mcfg fcfg cols objs cloud areas = .ok fr) (p : Pt) :
    (∃ c ∈ fr.nonDetection, p ∈ c) ↔
      p ∈ cloud ∧ (∃ a ∈ areas, keepInside cols a p = true) ∧
      (∀ o ∈ objs, keepInside cols (boxCorners o.box (scaleFactor mcfg o.dist)) p = false) ∧
      (∀ o ∈ filterUuids fcfg objs, keepInside cols (boxCorners o.box (scaleFactor fcfg o.dist)) p = false) := by
  rw [nondetection_exact mcfg fcfg cols objs cloud areas fr h]
  rw [← outsideAll_iff, ← outsideAll_iff]
  constructor
  · rintro ⟨c, hc, hp⟩
    rw [List.mem_filter, List.mem_map] at hc
    obtain ⟨⟨a, ha, rfl⟩, _⟩ := hc
    rw [List.mem_filter] at hp
    simp only [Bool.and_eq_true] at hp
    exact ⟨hp.1, ⟨a, ha, hp.2.1⟩, hp.2.2.1, hp.2.2.2⟩
  · rintro ⟨hp, ⟨a, ha, hk⟩, h1, h2⟩
    refine ⟨cloud.filter (fun p => keepInside cols a p && (outsideAll mcfg cols objs p
            && outsideAll fcfg cols (filterUuids fcfg objs) p)), ?_, ?_⟩
    · rw [List.mem_filter, List.mem_map]
      refine ⟨⟨a, ha, rfl⟩, ?_⟩
      have : p ∈ cloud.filter (fun p => keepInside cols a p && (outsideAll mcfg cols objs p
            && outsideAll fcfg cols (filterUuids fcfg objs) p)) := by
        rw [List.mem_filter]; simp [hp, hk, h1, h2]
      simp only [ne_eq, decide_not, Bool.not_eq_true', decide_eq_false_iff_not]
      intro h0
      rw [List.length_eq_zero_iff] at h0
      rw [h0] at this
      cases this
    · rw [List.mem_filter]; simp [hp, hk, h1, h2]

/-! ## the geometric core -/

/-- **`wn_parallelogram`** (full statement, all 8 sign cases of `(a.y, b.y)`, both orientations).
Footprint `c ± a ± b` in the corner order of the code, `det(a,b) ≠ 0`, `p = c + u·a + v·b` with
`|u| ≠ 1`, `|v| ≠ 1` (strictly off the four edge lines): the `uint8` counter is non-zero iff
`|u| < 1 ∧ |v| < 1`. -/
theorem wn_parallelogram (cx cy ax ay bx by_ zu zl u v : ℚ) (p : Pt)
    (hD : ax * by_ - ay * bx ≠ 0)
    (hx : p.x = cx + u * ax + v * bx) (hy : p.y = cy + u * ay + v * by_)
    (hu : |u| ≠ 1) (hv : |v| ≠ 1) :
    wn (paraArea cx cy ax ay bx by_ zu zl) p ≠ 0 ↔ |u| < 1 ∧ |v| < 1 := by
  have hu1 : u ≠ 1 := fun h => hu (by rw [h]; exact abs_one)
  have hu2 : u ≠ -1 := fun h => hu (by rw [h, abs_neg]; exact abs_one)
  have hv1 : v ≠ 1 := fun h => hv (by rw [h]; exact abs_one)
  have hv2 : v ≠ -1 := fun h => hv (by rw [h, abs_neg]; exact abs_one)
  rw [wn_para cx cy ax ay bx by_ zu zl u v p hD hx hy hu1 hu2 hv1 hv2, abs_lt_iff', abs_lt_iff']
  by_cases hin : (u < 1 ∧ -1 < u ∧ v < 1 ∧ -1 < v)
  · rw [if_pos hin]
    constructor
    · intro _; exact ⟨⟨hin.1, hin.2.1⟩, hin.2.2.1, hin.2.2.2⟩
    · intro _; split <;> decide
  · rw [if_neg hin]
    constructor
    · intro h; exact absurd rfl h
    · intro h; exact absurd ⟨h.1.1, h.1.2, h.2.1, h.2.2⟩ hin

/-- the exact value: `1` for a counter-clockwise, `255 = uint8(−1)` for a clockwise corner order -/
theorem wn_parallelogram_value (cx cy ax ay bx by_ zu zl u v : ℚ) (p : Pt)
    (hD : ax * by_ - ay * bx ≠ 0)
    (hx : p.x = cx + u * ax + v * bx) (hy : p.y = cy + u * ay + v * by_)
    (hu1 : u ≠ 1) (hu2 : u ≠ -1) (hv1 : v ≠ 1) (hv2 : v ≠ -1) :
    wn (paraArea cx cy ax ay bx by_ zu zl) p
      = if (u < 1 ∧ -1 < u ∧ v < 1 ∧ -1 < v) then (if 0 < ax * by_ - ay * bx then 1 else 255) else 0 :=
  wn_para cx cy ax ay bx by_ zu zl u v p hD hx hy hu1 hu2 hv1 hv2

/-- the counter is the sum of the per-edge contributions modulo 256, for every area and point -/
theorem wn_is_sum_mod_256 (area : List Corner) (p : Pt) :
    wn area p = u8add 0 (((List.range (area.length / 2)).map (fun i =>
      edgeK (cornerAt area i) (cornerAt area ((i + 1) % (area.length / 2))) (cornerAt area (i + 1)) p)).sum) :=
  wn_eq_sum area p

/-- the code's `area[i + 1]` (instead of `area[next_idx]`) in the vertical-edge test cannot be observed
on a prism (second plane = first plane in xy, the documented precondition), in particular on every box -/
theorem index_quirk_unobservable (area : List Corner) (p : Pt)
    (h : (cornerAt area (area.length / 2)).y = (cornerAt area 0).y) : wn area p = wnNext area p :=
  wn_eq_wnNext area p h

theorem index_quirk_unobservable_box (b : Box) (k : ℚ) (p : Pt) :
    wn (boxCorners b k) p = wnNext (boxCorners b k) p := by
  apply wn_eq_wnNext
  have h : (boxCorners b k).length / 2 = 4 := by simp [boxCorners]
  rw [h]
  rfl

/-- **inside ⇔ geometrically inside**, any box whose footprint axes `e1, e2` are independent (any
orientation), any scale `k > 0`: `p.xy = c + ξ·e1 + η·e2`, `|ξ| ≠ k·l/2`, `|η| ≠ k·w/2`. -/
theorem inside_iff_geometric_affine (cols : Nat) (b : Box) (k ξ η : ℚ) (p : Pt)
    (hk : 0 < k) (hl : 0 < b.l) (hw : 0 < b.w) (hh : 0 ≤ b.h) (hdet : b.e1x * b.e2y - b.e1y * b.e2x ≠ 0)
    (hx : p.x = b.cx + ξ * b.e1x + η * b.e2x) (hy : p.y = b.cy + ξ * b.e1y + η * b.e2y)
    (oξ : |ξ| ≠ b.l / 2 * k) (oη : |η| ≠ b.w / 2 * k) :
    keepInside cols (boxCorners b k) p = true ↔
      |ξ| < b.l / 2 * k ∧ |η| < b.w / 2 * k ∧
        (cols < 3 ∨ (b.cz - b.h / 2 ≤ p.z ∧ p.z ≤ b.cz + b.h / 2)) :=
  keepInside_box_iff cols b k ξ η p hk hl hw hh hdet hx hy oξ oη

/-- **inside ⇔ geometrically inside** for a yawed box: with `(ξ, η)` the point's coordinates in the
box frame (rotation by `−yaw` about the centre), a row with `x, y, z` columns is kept iff
`|ξ| < k·l/2`, `|η| < k·w/2` and `cz − h/2 ≤ z ≤ cz + h/2` (z-range closed), provided the point is not
on a footprint edge line. -/
theorem inside_iff_geometric (cols : Nat) (cx cy cz c s w l h k : ℚ) (p : Pt) (hcols : 3 ≤ cols)
    (hcs : c * c + s * s = 1) (hk : 0 < k) (hl : 0 < l) (hw : 0 < w) (hh : 0 ≤ h)
    (oξ : |c * (p.x - cx) + s * (p.y - cy)| ≠ l / 2 * k)
    (oη : |(-s) * (p.x - cx) + c * (p.y - cy)| ≠ w / 2 * k) :
    keepInside cols (boxCorners (yawBox cx cy cz c s w l h) k) p = true ↔
      |c * (p.x - cx) + s * (p.y - cy)| < l / 2 * k ∧ |(-s) * (p.x - cx) + c * (p.y - cy)| < w / 2 * k ∧
        cz - h / 2 ≤ p.z ∧ p.z ≤ cz + h / 2 := by
  have key := keepInside_box_iff cols (yawBox cx cy cz c s w l h) k
    (c * (p.x - cx) + s * (p.y - cy)) ((-s) * (p.x - cx) + c * (p.y - cy)) p hk hl hw hh
    (by simp only [yawBox]; intro h0; have : c * c + s * s = 0 := by linarith
        rw [hcs] at this; exact one_ne_zero this)
    (by simp only [yawBox]; linear_combination (cx - p.x) * hcs)
    (by simp only [yawBox]; linear_combination (cy - p.y) * hcs)
    oξ oη
  rw [key]
  simp only [yawBox]
  have : ¬ cols < 3 := by omega
  simp [this]

/-- **enlarging the scale never removes an inside point** (point off the edge lines of the smaller
footprint; it is then automatically off those of the larger one) -/
theorem scale_mono (cols : Nat) (b : Box) (k k' ξ η : ℚ) (p : Pt)
    (hk : 0 < k) (hkk : k ≤ k') (hl : 0 < b.l) (hw : 0 < b.w) (hh : 0 ≤ b.h)
    (hdet : b.e1x * b.e2y - b.e1y * b.e2x ≠ 0)
    (hx : p.x = b.cx + ξ * b.e1x + η * b.e2x) (hy : p.y = b.cy + ξ * b.e1y + η * b.e2y)
    (oξ : |ξ| ≠ b.l / 2 * k) (oη : |η| ≠ b.w / 2 * k)
    (hin : keepInside cols (boxCorners b k) p = true) :
    keepInside cols (boxCorners b k') p = true := by
  have h1 := (keepInside_box_iff cols b k ξ η p hk hl hw hh hdet hx hy oξ oη).mp hin
  have hL : b.l / 2 * k ≤ b.l / 2 * k' := mul_le_mul_of_nonneg_left hkk (by positivity)
  have hW : b.w / 2 * k ≤ b.w / 2 * k' := mul_le_mul_of_nonneg_left hkk (by positivity)
  have g1 : |ξ| < b.l / 2 * k' := lt_of_lt_of_le h1.1 hL
  have g2 : |η| < b.w / 2 * k' := lt_of_lt_of_le h1.2.1 hW
  exact (keepInside_box_iff cols b k' ξ η p (lt_of_lt_of_le hk hkk) hl hw hh hdet hx hy
    (ne_of_lt g1) (ne_of_lt g2)).mpr ⟨g1, g2, h1.2.2⟩

/-- list form: every row of the inside crop at scale `k` is a row of the inside crop at `k' ≥ k` -/
theorem scale_mono_crop (cols : Nat) (b : Box) (k k' : ℚ) (cloud : List Pt)
    (hk : 0 < k) (hkk : k ≤ k') (hl : 0 < b.l) (hw : 0 < b.w) (hh : 0 ≤ b.h)
    (hdet : b.e1x * b.e2y - b.e1y * b.e2x ≠ 0)
    (hoff : ∀ p ∈ cloud, ∃ ξ η, p.x = b.cx + ξ * b.e1x + η * b.e2x ∧ p.y = b.cy + ξ * b.e1y + η * b.e2y
      ∧ |ξ| ≠ b.l / 2 * k ∧ |η| ≠ b.w / 2 * k) :
    ∀ p ∈ cropInside cols cloud (boxCorners b k), p ∈ cropInside cols cloud (boxCorners b k') := by
  intro p hp
  unfold cropInside at hp ⊢
  rw [List.mem_filter] at hp ⊢
  obtain ⟨ξ, η, hx, hy, o1, o2⟩ := hoff p hp.1
  exact ⟨hp.1, scale_mono cols b k k' ξ η p hk hkk hl hw hh hdet hx hy o1 o2 hp.2⟩

/-! ## scale factor -/

/-- the distance-dependent scale interpolates linearly between the scale at 0 m and at 100 m and is
monotone in the distance when `box_scale_0m ≤ box_scale_100m` -/
theorem scaleFactor_spec (cfg : Cfg) :
    scaleFactor cfg 0 = cfg.scale0 ∧ scaleFactor cfg 100 = cfg.scale100 ∧
    (cfg.scale0 ≤ cfg.scale100 → ∀ d d' : ℚ, d ≤ d' → scaleFactor cfg d ≤ scaleFactor cfg d') ∧
    (cfg.scale0 = cfg.scale100 → ∀ d : ℚ, scaleFactor cfg d = cfg.scale0) := by
  unfold scaleFactor
  refine ⟨by ring, by ring, ?_, ?_⟩
  · intro h d d' hd
    have : 0 ≤ (1 / 100 : ℚ) * (cfg.scale100 - cfg.scale0) := by
      apply mul_nonneg (by norm_num); linarith
    nlinarith [mul_le_mul_of_nonneg_left hd this]
  · intro h d; rw [h]; ring

/-- the distance-dependent scale is ONE linear law over every distance (it extrapolates beyond 100 m, it is
not clamped to the interval on which it is specified): equal steps in the distance change it by equal
amounts, its value at any distance is the value at 100 m continued with the same slope, and for
`box_scale_0m ≠ box_scale_100m` two different distances never get the same scale -/
theorem scaleFactor_linear (cfg : Cfg) :
    (∀ d e : ℚ, scaleFactor cfg (d + e) - scaleFactor cfg d = (cfg.scale100 - cfg.scale0) / 100 * e) ∧
    (∀ d : ℚ, scaleFactor cfg d = cfg.scale100 + (cfg.scale100 - cfg.scale0) / 100 * (d - 100)) ∧
    (cfg.scale0 ≠ cfg.scale100 → ∀ d d' : ℚ, scaleFactor cfg d = scaleFactor cfg d' → d = d') ∧
    (cfg.scale0 < cfg.scale100 → ∀ d : ℚ, 100 < d → cfg.scale100 < scaleFactor cfg d) ∧
    (cfg.scale100 < cfg.scale0 → ∀ d : ℚ, 100 < d → scaleFactor cfg d < cfg.scale100) := by
  unfold scaleFactor
  refine ⟨fun d e => by ring, fun d => by ring, ?_, ?_, ?_⟩
  · intro hne d d' h
    have hs : cfg.scale100 - cfg.scale0 ≠ 0 := fun h0 => hne (by linarith)
    have h2 : (cfg.scale100 - cfg.scale0) * (d - d') = 0 := by linarith
    rcases mul_eq_zero.mp h2 with h3 | h3
    · exact absurd h3 hs
    · linarith
  · intro h d hd
    have : 0 < (cfg.scale100 - cfg.scale0) * (d - 100) := mul_pos (by linarith) (by linarith)
    linarith
  · intro h d hd
    have : 0 < (cfg.scale0 - cfg.scale100) * (d - 100) := mul_pos (by linarith) (by linarith)
    linarith

/-! ## non-vacuity: concrete instances of the hypotheses -/

/-- the scale beyond 100 m: growing (1 → 1.5 per 100 m gives 2 at 200 m, 6 at 1000 m) and shrinking
(2 → 1.5 per 100 m gives 1/4 at 350 m), never the value at 100 m -/
example : scaleFactor ⟨none, 1, 3/2, 1⟩ 200 = 2 ∧ scaleFactor ⟨none, 1, 3/2, 1⟩ 1000 = 6 ∧
    scaleFactor ⟨none, 2, 3/2, 1⟩ 350 = 1/4 ∧ scaleFactor ⟨none, 2, 3/2, 1⟩ 0 = 2 := by decide +kernel

/-- a counter-clockwise parallelogram with a slanted `a` and a point inside, a point outside -/
example : wn (paraArea 1 2 2 1 (-1) 3 1 0) ⟨1 + (1/2) * 2 + (1/4) * (-1), 2 + (1/2) * 1 + (1/4) * 3, 0, 0⟩ = 1 := by
  decide +kernel
example : wn (paraArea 1 2 2 1 (-1) 3 1 0) ⟨1 + (3/2) * 2 + (1/4) * (-1), 2 + (3/2) * 1 + (1/4) * 3, 0, 0⟩ = 0 := by
  decide +kernel
/-- clockwise order (negative determinant): the counter wraps to 255 -/
example : wn (paraArea 0 0 0 1 1 0 1 0) ⟨1/2, 1/2, 0, 0⟩ = 255 := by decide +kernel
/-- the hypotheses of `wn_parallelogram` hold for that instance -/
example : ∃ _cx _cy ax ay bx by_ u v : ℚ, ax * by_ - ay * bx ≠ 0 ∧ |u| ≠ 1 ∧ |v| ≠ 1 ∧ |u| < 1 ∧ |v| < 1 :=
  ⟨1, 2, 2, 1, -1, 3, 1/2, 1/4, by norm_num, by norm_num [abs_of_pos], by norm_num [abs_of_pos],
    by norm_num [abs_of_pos], by norm_num [abs_of_pos]⟩
/-- the hypotheses of `inside_iff_geometric` (and of `scale_mono`) hold for a yawed box and a concrete point -/
example : keepInside 3 (boxCorners (yawBox 1 1 0 (3/5) (4/5) 2 4 2) (3/2)) ⟨1 + 3/5, 1 + 4/5, 1/2, 0⟩ = true :=
  (inside_iff_geometric 3 1 1 0 (3/5) (4/5) 2 4 2 (3/2) ⟨1 + 3/5, 1 + 4/5, 1/2, 0⟩ (by norm_num) (by norm_num)
    (by norm_num) (by norm_num) (by norm_num) (by norm_num) (by norm_num [abs_of_pos]) (by norm_num)).mpr
    (by norm_num [abs_of_pos])
/-- a yawed box (`(c,s) = (3/5, 4/5)`), scale 3/2, three points, threshold 2: detected -/
example :
    (sensingResult ⟨none, 3/2, 3/2, 2⟩ 4
      [⟨1, 1, 0, 0⟩, ⟨1 + 3/5, 1 + 4/5, 1/2, 1⟩, ⟨9, 9, 0, 2⟩, ⟨1, 1, 5, 3⟩]
      ⟨7, some "a", yawBox 1 1 0 (3/5) (4/5) 2 4 2, 1, some (.member "FULL")⟩).map (fun r => (r.num, r.isDetected, r.isOccluded))
      = .ok (2, true, false) := by decide +kernel
/-- `evaluateFrame` on two objects (one fully occluded) and one non-detection cloud -/
example :
    (evaluateFrame ⟨none, 1, 1, 1⟩ 3
      [⟨0, some "a", yawBox 0 0 0 1 0 2 2 2, 0, some (.member "NONE")⟩, ⟨1, some "b", yawBox 10 0 0 1 0 2 2 2, 10, none⟩]
      [⟨0, 0, 0, 0⟩, ⟨5, 5, 0, 1⟩] [[⟨0, 0, 0, 0⟩, ⟨5, 5, 0, 1⟩]]).map
      (fun fr => (fr.warning.map (·.gt), fr.success.map (·.gt), fr.fail.map (·.gt), fr.nonDetection.map (·.map (·.tag))))
      = .ok ([0], [], [1], [[1]]) := by decide +kernel

/-! ## tie to the source: decision tables and expression trees extracted from the real code (regenerated on every run)

`harness/dt_c12.py` runs the REAL `SensingFrameConfig.get_scale_factor` on expression-tree leaves and the REAL
`SensingFrameResult.evaluate_frame` on stub objects over every assignment of the decision atoms it queries
(`PEval/Gen/SensingDT.lean`). `SensingDT.frameSkel` is the hand-written skeleton of the model over the same atoms;
`DT.agree` decides, completely for the finite decision space and by kernel evaluation, that table and skeleton give the
same result under EVERY valuation. A shape the translator cannot follow has `tree = none` (the statements are vacuous
for it; the evidence says so and the correspondence runs carry the tie alone). -/
section Table
open PEval.DT PEval.SensingDT
set_option linter.unusedTactic false
set_option linter.unreachableTactic false

/-- `compare 0 threshold` is asked once per path by the code (for every object whose crop is empty) -/
def frameSticky : List Nat := [cZeroThr]

def frameTablesOk : Bool :=
  Gen.SensingDT.tables.all fun row =>
    match row.2.2 with
    | some t => agree [] frameSticky t (frameSkel row.1 row.2.1) PA.empty
    | none => true

/-- THE per-run obligation: the checker accepts every regenerated table -/
theorem frame_table_check : frameTablesOk = true := by decide +kernel

/-- the code's decision table of `evaluate_frame` (every tabulated shape) equals the model's skeleton under every
valuation of the atoms -/
theorem frame_code_table_eq_model :
    ∀ row ∈ Gen.SensingDT.tables, ∀ t, row.2.2 = some t → ∀ v : Val, eval t v = frameAtoms row.1 row.2.1 v := by
  intro row hrow t ht v
  have h := frame_table_check
  unfold frameTablesOk at h
  rw [List.all_eq_true] at h
  have h2 := h row hrow
  rw [ht] at h2
  rw [agree_sound h2 v (by simp [consistent]), eval_frameSkel]

/-- the model's per-object result used by the bridge is the one of the frame theorems above -/
theorem sresOf_eq_sres (cfg : Cfg) (cols : Nat) (cloud : List Pt) (o : Obj) : sresOf cfg cols cloud o = sres cfg cols cloud o := rfl

/-- the CODE's table, read at the atoms of a concrete input, is the number computed from the MODEL's results:
per object (in object order) the container `classify` chooses, `isDetected`, presence of a nearest point; per
non-detection cloud whether it is reported -/
theorem frame_code_table_eq_modelCode :
    ∀ row ∈ Gen.SensingDT.tables, ∀ t, row.2.2 = some t →
      ∀ (cfg : Cfg) (cols : Nat) (cloud : List Pt) (objs : List Obj) (rest : List (List Pt)),
        objs.length = row.1 → rest.length = row.2.1 → objs.length ≤ 50 →
        eval t (valuationOf cfg cols cloud objs rest) = .other (modelCode cfg cols cloud objs rest) := by
  intro row hrow t ht cfg cols cloud objs rest hn hk hl
  rw [frame_code_table_eq_model row hrow t ht, ← hn, ← hk]
  exact frameAtoms_valuationOf cfg cols cloud objs rest hl

/-- what a digit says -/
theorem objDigit_spec (r : SRes) :
    (objDigit r % 3 = 0 ↔ classify r = .warning) ∧ (objDigit r % 3 = 1 ↔ classify r = .success) ∧
    (objDigit r % 3 = 2 ↔ classify r = .fail) ∧ ((objDigit r / 3) % 2 = 1 ↔ r.isDetected = true) ∧
    (6 ≤ objDigit r ↔ r.num ≠ 0) := by
  unfold objDigit digit classify
  have hn : (r.num != 0) = true ↔ r.num ≠ 0 := by simp
  rw [← hn]
  cases r.isOccluded <;> cases r.isDetected <;> cases (r.num != 0) <;> decide

/-- C12 for the code's table, one object: the table's answer is the digit of the model's result, whose
`is_detected` bit is set exactly when the number of points inside the scaled box reaches the threshold, and whose
container is `warning` exactly for a fully occluded object -/
theorem table_single_object {t : DTree} (ht : (1, 0, some t) ∈ Gen.SensingDT.tables)
    (cfg : Cfg) (cols : Nat) (cloud : List Pt) (o : Obj) :
    eval t (valuationOf cfg cols cloud [o] []) = .other (objDigit (sres cfg cols cloud o) + 1) ∧
    ((objDigit (sres cfg cols cloud o) / 3) % 2 = 1 ↔
      ((cropInside cols cloud (boxCorners o.box (scaleFactor cfg o.dist))).length : Int) ≥ cfg.minPoints) ∧
    (objDigit (sres cfg cols cloud o) % 3 = 0 ↔ isNone o.visibility = true) := by
  refine ⟨?_, ?_, ?_⟩
  · rw [frame_code_table_eq_modelCode _ ht t rfl cfg cols cloud [o] [] rfl rfl (by simp)]
    simp [modelCode, digitsCode, flagsCode, sresOf_eq_sres]
  · rw [(objDigit_spec _).2.2.2.1]; simp [sres]
  · rw [(objDigit_spec _).1]
    cases h : isNone o.visibility
    · simp only [classify, sres, h]
      by_cases hc : cfg.minPoints ≤ ((cropInside cols cloud (boxCorners o.box (scaleFactor cfg o.dist))).length : Int) <;>
        simp [hc]
    · simp [classify, sres, h]

/-- without objects a non-detection cloud is reported exactly when it is non-empty (the statement the seeded early
`return` of `evaluate_frame` breaks) -/
theorem table_no_objects {t : DTree} (ht : (0, 1, some t) ∈ Gen.SensingDT.tables)
    (cfg : Cfg) (cols : Nat) (cloud : List Pt) (c : List Pt) :
    eval t (valuationOf cfg cols cloud [] [c]) = .other (if c.length = 0 then 0 else 13 ^ 4) := by
  rw [frame_code_table_eq_modelCode _ ht t rfl cfg cols cloud [] [c] rfl rfl (by simp)]
  by_cases h : c.length = 0 <;> simp [modelCode, digitsCode, flagsCode, ndWeight, h]

/-- `get_scale_factor` run on symbolic leaves, and the scale `evaluate_frame` hands to `crop_pointcloud`, are the
model's `scaleFactor` as rational functions of (distance, box_scale_0m, box_scale_100m) -/
theorem scaleFactor_code_eq_model (cfg : Cfg) (d : ℚ) :
    Gen.SensingDT.scaleFactorGen d cfg.scale0 cfg.scale100 = scaleFactor cfg d ∧
    Gen.SensingDT.cropScaleGen d cfg.scale0 cfg.scale100 = scaleFactor cfg d := by
  unfold Gen.SensingDT.scaleFactorGen Gen.SensingDT.cropScaleGen scaleFactor
  constructor <;> first | ring1 | (field_simp; ring1) | field_simp

/-- the code's expression: `box_scale_0m` at 0 m, `box_scale_100m` at 100 m, one linear law in the distance -/
theorem scaleFactor_code_spec (s0 s100 : ℚ) :
    Gen.SensingDT.scaleFactorGen 0 s0 s100 = s0 ∧ Gen.SensingDT.scaleFactorGen 100 s0 s100 = s100 ∧
    (∀ d e : ℚ, Gen.SensingDT.scaleFactorGen (d + e) s0 s100 - Gen.SensingDT.scaleFactorGen d s0 s100 = (s100 - s0) / 100 * e) ∧
    (∀ d : ℚ, 100 < d → s0 < s100 → s100 < Gen.SensingDT.scaleFactorGen d s0 s100) := by
  have h := fun d => (scaleFactor_code_eq_model ⟨none, s0, s100, 0⟩ d).1
  simp only [] at h
  obtain ⟨e0, e100, _, _⟩ := scaleFactor_spec ⟨none, s0, s100, 0⟩
  obtain ⟨l1, _, _, l4, _⟩ := scaleFactor_linear ⟨none, s0, s100, 0⟩
  refine ⟨by rw [h]; exact e0, by rw [h]; exact e100, fun d e => by rw [h, h]; exact l1 d e,
    fun d hd hs => by rw [h]; exact l4 hs d hd⟩

/-- non-vacuity: the skeleton on concrete atoms (one object, 3 points inside, threshold 2, visible → success,
detected, nearest point present: digit 1+3+6, code 11), and the checker distinguishes skeletons -/
example : frameAtoms 1 0 (valuationOf ⟨none, 1, 1, 2⟩ 3 [⟨0, 0, 0, 0⟩, ⟨1/2, 0, 0, 1⟩, ⟨0, 1/2, 0, 2⟩]
    [⟨0, none, yawBox 0 0 0 1 0 2 2 2, 0, none⟩] []) = .other 11 := by decide +kernel
example : agree [] frameSticky (frameSkel 2 0) (frameSkel 2 0) PA.empty = true := by decide +kernel
example : agree [] frameSticky (frameSkel 1 0) (frameSkel 1 1) PA.empty = false := by decide +kernel

end Table

/-! ## totality: when nothing raises

The frame-level theorems above are stated on `… = .ok fr`.  Here the `.ok` is PROVED: a cloud with at least two
columns and well-formed areas (`ValidArea`: at least three corners per plane, an even number of corners — every box
corner list is one) never raises, for every box (degenerate ones included), every scale (zero and negative included),
every configuration.  `crop_pointcloud`'s two `RuntimeError`s are the only exits (`crop_succeeds_iff`). -/
section Totality

theorem frame_total (mcfg fcfg : Cfg) (cols : Nat) (objs : List Obj) (cloud : List Pt) (areas : List (List Corner))
    (hc : 2 ≤ cols) (ha : ∀ a ∈ areas, ValidArea a) :
    ∃ fr, addFrameResult mcfg fcfg cols objs cloud areas = .ok fr :=
  addFrameResult_total hc mcfg fcfg objs cloud areas ha

theorem evaluate_frame_total (cfg : Cfg) (cols : Nat) (objs : List Obj) (cloud : List Pt) (nd : List (List Pt))
    (hc : 2 ≤ cols) : ∃ fr, evaluateFrame cfg cols objs cloud nd = .ok fr :=
  evaluateFrame_total hc cfg objs cloud nd

theorem crop_succeeds_iff (cols : Nat) (cloud : List Pt) (area : List Corner) (inside : Bool) :
    ((∃ r, crop cols cloud area inside = .ok r) ↔ (2 ≤ cols ∧ ValidArea area)) ∧
    (∀ k, crop cols cloud area inside = .error k → k = "RuntimeError") :=
  ⟨crop_ok_iff cols cloud area inside, crop_error_kind cols cloud area inside⟩

/-- every box corner list is a well-formed area, whatever the box and the scale -/
theorem box_area_valid (b : Box) (k : ℚ) : ValidArea (boxCorners b k) :=
  ⟨by simp [boxCorners_length], by simp [boxCorners_length]⟩

/-- the contract matters: a one-column cloud raises as soon as one object is evaluated -/
example : (evaluateFrame ⟨none, 1, 1, 1⟩ 1 [⟨0, some "a", yawBox 0 0 0 1 0 2 2 2, 0, none⟩] [] []).map (fun _ => ()) =
    .error "RuntimeError" := by decide +kernel

/-- non-vacuity of `frame_total`: a frame with a triangular prism as non-detection area -/
example : (2 : Nat) ≤ 3 ∧ ∀ a ∈ [[(⟨0, 0, 1⟩ : Corner), ⟨4, 0, 1⟩, ⟨0, 4, 1⟩, ⟨0, 0, 0⟩, ⟨4, 0, 0⟩, ⟨0, 4, 0⟩]], ValidArea a := by
  refine ⟨by decide, ?_⟩
  intro a ha
  simp only [List.mem_cons, List.not_mem_nil, or_false] at ha
  subst ha
  exact ⟨by decide, by decide⟩

/-- a DEFECTIVE variant of `crop_pointcloud` requiring three columns (x, y AND z) breaks `evaluate_frame_total` on a
two-column cloud -/
def crop_needs3 (cols : Nat) (cloud : List Pt) (area : List Corner) (inside : Bool) : Except Err (List Pt) :=
  if cols < 3 then .error "RuntimeError" else crop cols cloud area inside

example : (∃ r, crop 2 [] (boxCorners (yawBox 0 0 0 1 0 2 2 2) 1) true = .ok r) ∧
    crop_needs3 2 [] (boxCorners (yawBox 0 0 0 1 0 2 2 2) 1) true = .error "RuntimeError" :=
  ⟨⟨[], by decide +kernel⟩, by decide +kernel⟩

end Totality

/-! ## ON the edge lines: the half-open convention of the scan

`inside_iff_geometric*` and `scale_mono*` exclude points on the four edge LINES of the footprint.  The theorems of
this section hold for EVERY point.  The scan counts an edge `a → b` when `a.y ≤ p.y < b.y` (up) or `b.y ≤ p.y < a.y`
(down) and the point is STRICTLY left of the crossing.  Consequence: a point on an edge line belongs to the footprint
iff the infinitesimal step "+x, then +y" takes it strictly inside.  In box coordinates `ξ ∈ [−L, L]`: the line `ξ = L`
is inside iff `stepU < 0`, the line `ξ = −L` iff `stepU > 0` (`inLen`); corners need both coordinates. -/
section EdgeLines

/-- the winding counter on a parallelogram for EVERY point (`det ≠ 0`): `1` / `255` when both coordinates are half-open
inside, else `0` -/
theorem wn_parallelogram_closed (cx cy ax ay bx by_ zu zl u v : ℚ) (p : Pt)
    (hD : ax * by_ - ay * bx ≠ 0)
    (hx : p.x = cx + u * ax + v * bx) (hy : p.y = cy + u * ay + v * by_) :
    wn (paraArea cx cy ax ay bx by_ zu zl) p
      = if inHalf u (stepU ax ay bx by_) ∧ inHalf v (stepV ax ay bx by_) then
          (if 0 < ax * by_ - ay * bx then 1 else 255) else 0 :=
  wn_para_closed cx cy ax ay bx by_ zu zl u v p hD hx hy

/-- off the edge lines the closed form is the open one (`wn_parallelogram`): the half-open rule only speaks on the lines -/
theorem inHalf_off_lines (u s : ℚ) (h1 : u ≠ 1) (h2 : u ≠ -1) : inHalf u s ↔ (-1 < u ∧ u < 1) := by
  unfold inHalf
  constructor
  · rintro (h | ⟨h, _⟩ | ⟨h, _⟩)
    · exact h
    · exact absurd h h1
    · exact absurd h h2
  · intro h; exact Or.inl h

/-- **inside ⇔ geometrically inside with the half-open edges**, any box with independent axes, any scale `k > 0`,
EVERY point `p.xy = c + ξ·e1 + η·e2` -/
theorem inside_iff_geometric_closed (cols : Nat) (b : Box) (k ξ η : ℚ) (p : Pt)
    (hk : 0 < k) (hl : 0 < b.l) (hw : 0 < b.w) (hh : 0 ≤ b.h) (hdet : b.e1x * b.e2y - b.e1y * b.e2x ≠ 0)
    (hx : p.x = b.cx + ξ * b.e1x + η * b.e2x) (hy : p.y = b.cy + ξ * b.e1y + η * b.e2y) :
    keepInside cols (boxCorners b k) p = true ↔
      inLen ξ (b.l / 2 * k) (stepU b.e1x b.e1y b.e2x b.e2y) ∧ inLen η (b.w / 2 * k) (stepV b.e1x b.e1y b.e2x b.e2y) ∧
        (cols < 3 ∨ (b.cz - b.h / 2 ≤ p.z ∧ p.z ≤ b.cz + b.h / 2)) :=
  keepInside_box_closed cols b k ξ η p hk hl hw hh hdet hx hy

/-- which edges are inside, axis-aligned box (yaw 0): the x-min and y-min edges (and the corner between them) belong to
the box, the x-max and y-max edges do not — `[cx − L, cx + L) × [cy − W, cy + W)`, z-range closed -/
theorem inside_axis_aligned (cols : Nat) (cx cy cz w l h k : ℚ) (p : Pt) (hcols : 3 ≤ cols)
    (hk : 0 < k) (hl : 0 < l) (hw : 0 < w) (hh : 0 ≤ h) :
    keepInside cols (boxCorners (yawBox cx cy cz 1 0 w l h) k) p = true ↔
      (cx - l / 2 * k ≤ p.x ∧ p.x < cx + l / 2 * k) ∧ (cy - w / 2 * k ≤ p.y ∧ p.y < cy + w / 2 * k) ∧
        cz - h / 2 ≤ p.z ∧ p.z ≤ cz + h / 2 := by
  have key := keepInside_box_closed cols (yawBox cx cy cz 1 0 w l h) k (p.x - cx) (p.y - cy) p hk hl hw hh
    (by simp [yawBox]) (by simp only [yawBox]; ring) (by simp only [yawBox]; ring)
  rw [key]
  have sU : stepU (1 : ℚ) 0 (-0) 1 = 1 := by norm_num [stepU]
  have sV : stepV (1 : ℚ) 0 (-0) 1 = 1 := by norm_num [stepV]
  simp only [yawBox, sU, sV]
  have hc : ¬ cols < 3 := by omega
  have hL : 0 < l / 2 * k := by positivity
  have hW : 0 < w / 2 * k := by positivity
  unfold inLen
  constructor
  · rintro ⟨hu, hv, hz⟩
    refine ⟨?_, ?_, ?_⟩
    · rcases hu with ⟨h1, h2⟩ | ⟨_, h2⟩ | ⟨h1, _⟩
      · exact ⟨by linarith, by linarith⟩
      · exact absurd h2 (by norm_num)
      · exact ⟨by linarith, by linarith⟩
    · rcases hv with ⟨h1, h2⟩ | ⟨_, h2⟩ | ⟨h1, _⟩
      · exact ⟨by linarith, by linarith⟩
      · exact absurd h2 (by norm_num)
      · exact ⟨by linarith, by linarith⟩
    · rcases hz with hz | hz
      · exact absurd hz hc
      · exact hz
  · rintro ⟨⟨h1, h2⟩, ⟨h3, h4⟩, hz⟩
    refine ⟨?_, ?_, Or.inr hz⟩
    · rcases lt_or_eq_of_le h1 with h | h
      · exact Or.inl ⟨by linarith, by linarith⟩
      · exact Or.inr (Or.inr ⟨by linarith, by norm_num⟩)
    · rcases lt_or_eq_of_le h3 with h | h
      · exact Or.inl ⟨by linarith, by linarith⟩
      · exact Or.inr (Or.inr ⟨by linarith, by norm_num⟩)

/-- **enlarging the scale never removes an inside point** — EVERY point, the edge lines of either footprint included -/
theorem scale_mono_all_points (cols : Nat) (b : Box) (k k' ξ η : ℚ) (p : Pt)
    (hk : 0 < k) (hkk : k ≤ k') (hl : 0 < b.l) (hw : 0 < b.w) (hh : 0 ≤ b.h)
    (hdet : b.e1x * b.e2y - b.e1y * b.e2x ≠ 0)
    (hx : p.x = b.cx + ξ * b.e1x + η * b.e2x) (hy : p.y = b.cy + ξ * b.e1y + η * b.e2y)
    (hin : keepInside cols (boxCorners b k) p = true) :
    keepInside cols (boxCorners b k') p = true := by
  have h1 := (keepInside_box_closed cols b k ξ η p hk hl hw hh hdet hx hy).mp hin
  have hk' : 0 < k' := lt_of_lt_of_le hk hkk
  have hL : b.l / 2 * k ≤ b.l / 2 * k' := mul_le_mul_of_nonneg_left hkk (by positivity)
  have hW : b.w / 2 * k ≤ b.w / 2 * k' := mul_le_mul_of_nonneg_left hkk (by positivity)
  exact (keepInside_box_closed cols b k' ξ η p hk' hl hw hh hdet hx hy).mpr
    ⟨inLen_mono (by positivity) hL h1.1, inLen_mono (by positivity) hW h1.2.1, h1.2.2⟩

/-- every point has box-frame coordinates when the axes are independent -/
theorem box_coords_exist (b : Box) (p : Pt) (hdet : b.e1x * b.e2y - b.e1y * b.e2x ≠ 0) :
    ∃ ξ η, p.x = b.cx + ξ * b.e1x + η * b.e2x ∧ p.y = b.cy + ξ * b.e1y + η * b.e2y := by
  refine ⟨((p.x - b.cx) * b.e2y - (p.y - b.cy) * b.e2x) / (b.e1x * b.e2y - b.e1y * b.e2x),
    (b.e1x * (p.y - b.cy) - b.e1y * (p.x - b.cx)) / (b.e1x * b.e2y - b.e1y * b.e2x), ?_, ?_⟩
  · have h : ((p.x - b.cx) * b.e2y - (p.y - b.cy) * b.e2x) / (b.e1x * b.e2y - b.e1y * b.e2x) * b.e1x +
        (b.e1x * (p.y - b.cy) - b.e1y * (p.x - b.cx)) / (b.e1x * b.e2y - b.e1y * b.e2x) * b.e2x =
        (p.x - b.cx) * ((b.e1x * b.e2y - b.e1y * b.e2x) / (b.e1x * b.e2y - b.e1y * b.e2x)) := by ring
    rw [add_assoc, h, div_self hdet]; ring
  · have h : ((p.x - b.cx) * b.e2y - (p.y - b.cy) * b.e2x) / (b.e1x * b.e2y - b.e1y * b.e2x) * b.e1y +
        (b.e1x * (p.y - b.cy) - b.e1y * (p.x - b.cx)) / (b.e1x * b.e2y - b.e1y * b.e2x) * b.e2y =
        (p.y - b.cy) * ((b.e1x * b.e2y - b.e1y * b.e2x) / (b.e1x * b.e2y - b.e1y * b.e2x)) := by ring
    rw [add_assoc, h, div_self hdet]; ring

/-- list form for ALL clouds: every row of the inside crop at scale `k > 0` is a row of the inside crop at `k' ≥ k` -/
theorem scale_mono_crop_all (cols : Nat) (b : Box) (k k' : ℚ) (cloud : List Pt)
    (hk : 0 < k) (hkk : k ≤ k') (hl : 0 < b.l) (hw : 0 < b.w) (hh : 0 ≤ b.h)
    (hdet : b.e1x * b.e2y - b.e1y * b.e2x ≠ 0) :
    ∀ p ∈ cropInside cols cloud (boxCorners b k), p ∈ cropInside cols cloud (boxCorners b k') := by
  intro p hp
  unfold cropInside at hp ⊢
  rw [List.mem_filter] at hp ⊢
  obtain ⟨ξ, η, hx, hy⟩ := box_coords_exist b p hdet
  exact ⟨hp.1, scale_mono_all_points cols b k k' ξ η p hk hkk hl hw hh hdet hx hy hp.2⟩

/-- the scale stays positive: growing boxes (`scale_100m ≥ scale_0m > 0`) at every distance, shrinking ones exactly up
to the zero crossing of the linear rule -/
theorem scaleFactor_pos (cfg : Cfg) (d : ℚ) :
    (0 < cfg.scale0 → cfg.scale0 ≤ cfg.scale100 → 0 ≤ d → 0 < scaleFactor cfg d) ∧
    (cfg.scale100 < cfg.scale0 → (0 < scaleFactor cfg d ↔ d < 100 * cfg.scale0 / (cfg.scale0 - cfg.scale100))) := by
  unfold scaleFactor
  constructor
  · intro h0 h1 hd
    have : 0 ≤ (1 / 100) * (cfg.scale100 - cfg.scale0) * d := by
      apply mul_nonneg _ hd
      apply mul_nonneg (by norm_num); linarith
    linarith
  · intro hs
    have hpos : 0 < cfg.scale0 - cfg.scale100 := by linarith
    rw [lt_div_iff₀ hpos]
    constructor <;> intro h <;> nlinarith

/-- the half-open rule on concrete points of the axis-aligned 2 × 2 box at the origin: x-min edge and the
(x-min, y-min) corner inside, x-max edge, y-max edge and the other three corners outside -/
example :
    ([(⟨-1, 0, 0, 0⟩ : Pt), ⟨-1, -1, 0, 1⟩, ⟨0, -1, 0, 2⟩, ⟨1, 0, 0, 3⟩, ⟨0, 1, 0, 4⟩, ⟨1, 1, 0, 5⟩, ⟨-1, 1, 0, 6⟩,
      ⟨1, -1, 0, 7⟩, ⟨-1, 3, 0, 8⟩].map (keepInside 3 (boxCorners (yawBox 0 0 0 1 0 2 2 2) 1))) =
      [true, true, true, false, false, false, false, false, false] := by decide +kernel

/-- a rotated box (quarter turn): the edges that are inside turn with the box's axes: now `ξ = +L` (y-min in the world)
is inside -/
example : keepInside 3 (boxCorners (yawBox 0 0 0 0 1 2 2 2) 1) ⟨0, -1, 0, 0⟩ = true ∧
    keepInside 3 (boxCorners (yawBox 0 0 0 0 1 2 2 2) 1) ⟨0, 1, 0, 0⟩ = false ∧
    stepU (0 : ℚ) 1 (-1) 0 = 1 ∧ stepV (0 : ℚ) 1 (-1) 0 = -1 := by
  refine ⟨by decide +kernel, by decide +kernel, by norm_num [stepU], by norm_num [stepV]⟩

/-- A DEFECTIVE variant of the edge test with a NON-strict side test (`p.x ≤ x_cross`) counts the x-max edge in:
`inside_axis_aligned` fails for it -/
def edgeStep_le (area : List Corner) (n : Nat) (p : Pt) (cnt : Nat) (i : Nat) : Nat :=
  let a := cornerAt area i
  let b := cornerAt area ((i + 1) % n)
  let q := cornerAt area (i + 1)
  let vt : Rat := if q.y ≠ a.y then (p.y - a.y) / (b.y - a.y) else p.x
  let valid : Bool := decide (p.x ≤ a.x + vt * (b.x - a.x))
  let inc : Bool := decide (a.y ≤ p.y) && decide (b.y > p.y) && valid
  let dec : Bool := decide (a.y > p.y) && decide (b.y ≤ p.y) && valid
  let cnt := if inc then u8inc cnt else cnt
  if dec then u8dec cnt else cnt

def wn_le (area : List Corner) (p : Pt) : Nat :=
  (List.range (area.length / 2)).foldl (edgeStep_le area (area.length / 2) p) 0

example : wn_le (boxCorners (yawBox 0 0 0 1 0 2 2 2) 1) ⟨1, 0, 0, 0⟩ = 1 ∧
    wn (boxCorners (yawBox 0 0 0 1 0 2 2 2) 1) ⟨1, 0, 0, 0⟩ = 0 := by decide +kernel

end EdgeLines

end PEval.C12
