import PEval.Lemmas.APDTBridge
import PEval.Gen.APTables
/-!
# C04, continued: the CODE's decision tables and expressions (regenerated from the source on every run)

`PEval/Gen/APTables.lean` holds what `harness/dt_c04.py` obtained by running the REAL `Ap.__init__`,
`Ap.get_precision_recall_list`, `Ap._calculate_ap` (which runs `interpolate_precision_recall_list`) and `Map.__init__` on symbolic
inputs (DESIGN §3.6): decision trees over the Boolean atoms hasGt / inTargets / isTp / empty, with polynomial normal forms
at the leaves; every order relation (between confidences, between precisions) is enumerated up front as a rank pattern, one
table row per weak ordering. Each `…_code_table_eq_model` below is the per-run obligation "the regenerated table = the model's
skeleton on EVERY consistent valuation / for EVERY ordering", discharged by kernel evaluation of a complete check (`agree`
of `PEval/Model/ClearDT.lean`, sound by `agree_sound`; plain equality of normal forms for the rows without atoms). A rewrite
of the source that keeps the decisions and the arithmetic leaves them provable with no edits (normal forms do not see how
an expression is spelled, `agree` does not see in which order independent tests are made); a rewrite that changes either
makes the build fail at that theorem. Rows `[]` = the translator could not follow the source (`…Note` says why): the theorems
are then vacuous and the correspondence run alone ties model and code.
-/

namespace PEval.C04
open PEval.AP PEval.ClearDT PEval.APDT

/-- (a) `Ap.__init__` up to `tp_list` / `fp_list` / "ap defined": for every tabulated shape (no result; every weak ordering
of 1..3 confidences) the code's tree answers what the skeleton answers — the results ranked by the MODEL's `sortDesc`, each
classified as in the model's `classify`, running sums of the TP weights and FP flags. -/
theorem tpfp_code_table_eq_model :
    (Gen.APDT.tpfpRows = [] ∨ Gen.APDT.tpfpRows.map (fun r => (r.1, r.2.1)) = tpfpShapes) ∧
    ∀ r ∈ Gen.APDT.tpfpRows, ∀ v : Val, v.consistent → r.2.2.eval v = .ok (tpfpAtoms r.1 r.2.1 v) := by
  have h : tpfpOk Gen.APDT.tpfpRows = true := by decide +kernel
  unfold tpfpOk at h
  rw [Bool.and_eq_true, Bool.or_eq_true, List.all_eq_true] at h
  refine ⟨?_, ?_⟩
  · rcases h.1 with h1 | h1
    · exact Or.inl (List.isEmpty_iff.1 h1)
    · exact Or.inr (by simpa using h1)
  · intro r hr v hc
    rw [agree_sound v hc (tpfpSk r.1 r.2.1) r.2.2 PVal.empty (h.2 r hr) (sat_empty v), eval_tpfpSk]

/-- (b1) `get_precision_recall_list` on a symbolic `tp_list` of length n ≤ 3: `precision i = t i / (i+1)`,
`recall i = t i / g` if `g > 0` else `0`, as normal forms -/
theorem prec_recall_code_eq_model :
    (Gen.APDT.prRows = [] ∨ Gen.APDT.prRows.map (fun r => (r.1, r.2.1)) = prShapes) ∧
    ∀ r ∈ Gen.APDT.prRows, r.2.2 = .ok (prModel r.1 r.2.1) := by
  have h : prOk Gen.APDT.prRows = true := by decide +kernel
  unfold prOk at h
  rw [Bool.and_eq_true, Bool.or_eq_true, List.all_eq_true] at h
  refine ⟨?_, fun r hr => by simpa using h.2 r hr⟩
  rcases h.1 with h1 | h1
  · exact Or.inl (List.isEmpty_iff.1 h1)
  · exact Or.inr (by simpa using h1)

/-- (b2) `_calculate_ap` for EVERY ordering of ≤ 3 precisions: the area as a polynomial in the `P i`, `R i` -/
theorem area_code_eq_model :
    (Gen.APDT.areaRows = [] ∨ Gen.APDT.areaRows.map (·.1) = patShapes 0) ∧
    ∀ r ∈ Gen.APDT.areaRows, r.2 = .ok (areaModel r.1) := by
  have h : areaOk Gen.APDT.areaRows = true := by decide +kernel
  unfold areaOk at h
  rw [Bool.and_eq_true, Bool.or_eq_true, List.all_eq_true] at h
  refine ⟨?_, fun r hr => by simpa using h.2 r hr⟩
  rcases h.1 with h1 | h1
  · exact Or.inl (List.isEmpty_iff.1 h1)
  · exact Or.inr (by simpa using h1)

/-- (c) `Map.__init__` for ≤ 3 labels and the tabulated key orders of its two dicts: every `Ap` is built from the dict
entries and the threshold of ITS label, in target order; mAP / mAPH are the means over the labels with a result -/
theorem map_code_table_eq_model :
    (Gen.APDT.mapRows = [] ∨ ∀ s ∈ mapRequired, ∃ r ∈ Gen.APDT.mapRows, r.1 = s) ∧
    ∀ r ∈ Gen.APDT.mapRows, ∀ v : Val, v.consistent → r.2.eval v = mapAtoms r.1 v := by
  have h : mapOk Gen.APDT.mapRows = true := by decide +kernel
  unfold mapOk at h
  rw [Bool.and_eq_true, Bool.or_eq_true] at h
  refine ⟨?_, ?_⟩
  · rcases h.1 with h1 | h1
    · exact Or.inl (List.isEmpty_iff.1 h1)
    · refine Or.inr fun s hs => ?_
      have := List.all_eq_true.1 h1 s hs
      obtain ⟨r, hr, hrs⟩ := List.any_eq_true.1 this
      exact ⟨r, hr, by simpa using hrs⟩
  · intro r hr v hc
    rw [agree_sound v hc (mapSk r.1) r.2 PVal.empty (List.all_eq_true.1 h.2 r hr) (sat_empty v), eval_mapSk]

/-- WHAT THE CODE'S AREA TABLE SAYS ABOUT NUMBERS (composition of `area_code_eq_model` with the bridge `areaModel_eval`,
which holds for lists of any length, and with `apCode_eq_apSpec`): for every row of the table and every precision / recall
lists whose precisions are ordered like the row's pattern, the polynomial the real `_calculate_ap` returned, read at those
numbers, is the model's `calculateAp`, which is the all-point interpolated area `Σ (r_i − r_{i−1}) · max_{j ≥ i} p_j`. -/
theorem table_area_is_interpolated_area (ps rs : List Rat) (hr : rs.length = ps.length) :
    ∀ r ∈ Gen.APDT.areaRows, r.1.length = ps.length →
      (∀ i j, i < ps.length → j < ps.length → (r.1.getD i 0 > r.1.getD j 0 ↔ ps.getD i 0 > ps.getD j 0)) →
      ∃ nf, r.2 = .ok nf ∧ evalNF (envPR ps rs) nf = calculateAp ps rs ∧ evalNF (envPR ps rs) nf = apSpec ps rs := by
  intro r hmem hlen hiso
  refine ⟨areaModel r.1, area_code_eq_model.2 r hmem, areaModel_eval ps rs r.1 hlen hr hiso, ?_⟩
  rw [areaModel_eval ps rs r.1 hlen hr hiso, calculateAp_eq_apSpec]

/-- (a) the ranking of the rows: `sortIdx pat` — the model's `sortDesc` run on the pattern — is the model's ranking of the
positions of EVERY confidence list ordered like the pattern (with `sortDesc_map`: `sortDesc Res.conf rs` is that ranking
applied to `rs`), so the row of a pattern speaks about all result lists whose confidences are ordered that way -/
theorem table_ranking_is_model_sort (cs : List Rat) (pat : List Nat) (hlen : pat.length = cs.length)
    (hiso : ∀ i j, i < cs.length → j < cs.length →
      (((pat.getD i 0 : Nat) : Rat) < ((pat.getD j 0 : Nat) : Rat) ↔ cs.getD i 0 < cs.getD j 0)) :
    sortIdx pat = sortDesc (fun j => cs.getD j 0) (List.range cs.length) := by
  unfold sortIdx
  rw [hlen]
  apply sortDesc_congr
  intro a ha b hb
  simp only [List.mem_range] at ha hb
  exact hiso a b ha hb

/-- (b1) read at numbers: the lists the real `get_precision_recall_list` returned for a symbolic tp list, read at a concrete
tp list `ts` and ground-truth count `G`, are `ts i / (i+1)` and the model's `recallOf G (ts i)` -/
theorem table_prec_recall_values (ts : List Rat) (G : Nat) :
    ∀ r ∈ Gen.APDT.prRows, r.2.1 = decide (0 < G) → ∃ x, r.2.2 = .ok x ∧
      x.a.map (evalNF (envT ts G)) = (List.range r.1).map (fun i => ts.getD i 0 / ((i : Rat) + 1)) ∧
      x.b.map (evalNF (envT ts G)) = (List.range r.1).map (fun i => recallOf G (ts.getD i 0)) := by
  intro r hmem hg
  refine ⟨prModel r.1 r.2.1, prec_recall_code_eq_model.2 r hmem, ?_, ?_⟩
  · simp only [prModel, List.map_map]
    exact List.map_congr_left fun i _ => precNF_eval ts G i
  · simp only [prModel, List.map_map, hg]
    exact List.map_congr_left fun i _ => recallNF_eval ts G i

/-- (c) read at numbers: whatever the key order of the two dicts (among the tabulated shapes), the real `Map.__init__` builds
the `Ap` of target label `i` from the entries of label `i` of both dicts and from threshold `i`, and its mAP, read at
per-label values `env ("ap", i)`, is the mean over the labels whose bucket is not empty (`inf` if there is none) -/
theorem table_map_pairs_by_label_and_is_mean (env : Var → Rat) :
    ∀ r ∈ Gen.APDT.mapRows, ∀ v : Val, v.consistent → ∀ leaf, r.2.eval v = .ok leaf →
      leaf.aps = (List.range r.1.L).map (fun i => (false, i, i, i, i)) ∧
      leaf.map.map (evalNF env) =
        (if (definedLabels r.1.L ((List.range r.1.L).map fun i => v.b (.empty i))).isEmpty then none
         else some (((definedLabels r.1.L ((List.range r.1.L).map fun i => v.b (.empty i))).map fun i => env ("ap", i)).sum /
                ((definedLabels r.1.L ((List.range r.1.L).map fun i => v.b (.empty i))).length : Rat))) := by
  intro r hmem v hc leaf hl
  rw [map_code_table_eq_model.2 r hmem v hc] at hl
  unfold mapAtoms at hl
  split at hl
  · cases hl
    exact ⟨rfl, meanNF_eval env "ap" _⟩
  · cases hl

/-- the checks are not vacuous: another ordering / another shape is told apart -/
example : decide (Except.ok (areaModel [0, 1, 0]) = (Except.ok (areaModel [1, 0, 0]) : Except String NF)) = false := by
  decide +kernel
example : agree PVal.empty (tpfpSk [0, 1] 1) (tpfpSk [1, 0] 1) = false := by decide +kernel
example : agree PVal.empty (mapSk ⟨2, [0, 1], [0, 1], false⟩) (mapSk ⟨2, [0, 1], [0, 1], true⟩) = false := by decide +kernel

end PEval.C04
