import PEval.Lemmas.APDTBridge
import PEval.Lemmas.APDTRank
import PEval.Lemmas.APDTMap
import PEval.Gen.APTables
/-!
# C04, continued: the CODE's decision tables and expressions (regenerated from the source on every run)

`PEval/Gen/APTables.lean` holds what `harness/dt_c04.py` obtained by running the REAL `Ap.__init__`,
`Ap.get_precision_recall_list`, `Ap._calculate_ap` (which runs `interpolate_precision_recall_list`) and `Map.__init__` on symbolic
inputs (DESIGN §3.6): decision trees over the Boolean atoms hasGt / inTargets / isTp / empty, with polynomial normal forms
at the leaves; every order relation (between confidences, between precisions) is enumerated up front as a rank pattern, one
table row per weak ordering. Each `…_code_table_eq_model` below is the per-run obligation "the regenerated table = the model's
skeleton on EVERY consistent valuation / for EVERY ordering", discharged by kernel evaluation of a complete check (`agree`
of `PEval/Model/ClearDT.lean`, sound by `agree_sound`; plain equality of normal forms for the rows without atoms).
WHAT THE C04 TEXT LEAVES OPEN IS LEFT OPEN BY THE OBLIGATIONS (the same that the Python oracle `_cmp_ap` admits): in (a) the order
among results of EQUAL confidence, the `tp_list` / `fp_list` / "AP undefined or 0" of an EMPTY ranking, and whether an ignored
result counts in `fp_list` (`tpfpAdmits`; where none of these applies the leaf is pinned: `tpfpAdmits_pinned`,
`table_tpfp_is_model`); in (c) the order of `Map.aps` (read as a mapping label ↦ `Ap`: `canonMap`) and the exception class. A rewrite
of the source that keeps the decisions and the arithmetic leaves them provable with no edits (normal forms do not see how
an expression is spelled, `agree` does not see in which order independent tests are made); a rewrite that changes either
makes the build fail at that theorem. Rows `[]` = the translator could not follow the source (`…Note` says why): the theorems
are then vacuous and the correspondence run alone ties model and code.
-/

namespace PEval.C04
open PEval.AP PEval.ClearDT PEval.APDT

/-- (a) `Ap.__init__` up to `tp_list` / `fp_list` / "ap defined": for every tabulated shape (no result; every weak ordering
of 1..3 confidences) the code's tree answers a leaf the skeleton's kinds ADMIT (`tpfpAdmits`) — the results ranked by the
MODEL's `sortDesc` up to the order inside a group of equal confidences, each classified as in the model's `classify`, running
sums of the TP weights and FP flags (an ignored result filed as ignored or as FP); for an empty ranking: it returns. -/
theorem tpfp_code_table_eq_model :
    (Gen.APDT.tpfpRows = [] ∨ Gen.APDT.tpfpRows.map (fun r => (r.1, r.2.1)) = tpfpShapes) ∧
    ∀ r ∈ Gen.APDT.tpfpRows, ∀ v : Val, v.consistent →
      tpfpAdmits r.1 r.2.1 (r.2.2.eval v) ((sortIdx r.1).map (kindAtoms v)) = true := by
  have h : tpfpOk Gen.APDT.tpfpRows = true := by decide +kernel
  unfold tpfpOk at h
  rw [Bool.and_eq_true, Bool.or_eq_true, List.all_eq_true] at h
  refine ⟨?_, ?_⟩
  · rcases h.1 with h1 | h1
    · exact Or.inl (List.isEmpty_iff.1 h1)
    · exact Or.inr (by simpa using h1)
  · intro r hr v hc
    rw [← eval_kindsTree]
    exact relTree_sound _ _ _ (h.2 r hr) v hc

/-- (b1) `get_precision_recall_list` on a symbolic `tp_list` of length n ≤ 3: `precision i = t i / (i+1)`,
`recall i = t i / g` if `g > 0` else `0`, as normal forms -/
theorem prec_recall_code_eq_model :
    (Gen.APDT.prRows = [] ∨ Gen.APDT.prRows.map (fun r => (r.1, r.2.1)) = prShapes) ∧
    ∀ r ∈ Gen.APDT.prRows, r.2.2 = .ok (prModel r.1 r.2.1) := by
  have h : prOk Gen.APDT.prRows = true := by decide +kernel
  unfold prOk at h
  rw [Bool.and_eq_true, Bool.or_eq_true, List.all_eq_true] at h
  refine ⟨?_, fun r hr => by simpa using h.2 r hr⟩
  rcases h.1 with h1 | h1
  · exact Or.inl (List.isEmpty_iff.1 h1)
  · exact Or.inr (by simpa using h1)

/-- (b2) `_calculate_ap` for EVERY ordering of ≤ 3 precisions: the area as a polynomial in the `P i`, `R i` -/
theorem area_code_eq_model :
    (Gen.APDT.areaRows = [] ∨ Gen.APDT.areaRows.map (·.1) = patShapes 0) ∧
    ∀ r ∈ Gen.APDT.areaRows, r.2 = .ok (areaModel r.1) := by
  have h : areaOk Gen.APDT.areaRows = true := by decide +kernel
  unfold areaOk at h
  rw [Bool.and_eq_true, Bool.or_eq_true, List.all_eq_true] at h
  refine ⟨?_, fun r hr => by simpa using h.2 r hr⟩
  rcases h.1 with h1 | h1
  · exact Or.inl (List.isEmpty_iff.1 h1)
  · exact Or.inr (by simpa using h1)

/-- (c) `Map.__init__` for ≤ 3 labels and the tabulated key orders of its two dicts: every `Ap` is built from the dict
entries and the threshold of ITS label (the list `aps` read as a mapping target label ↦ `Ap`: `canonMap` lists it by target
label; every exception is one code); mAP / mAPH are the means over the labels with a result -/
theorem map_code_table_eq_model :
    (Gen.APDT.mapRows = [] ∨ ∀ s ∈ mapRequired, ∃ r ∈ Gen.APDT.mapRows, r.1 = s) ∧
    ∀ r ∈ Gen.APDT.mapRows, ∀ v : Val, v.consistent → canonMapE (r.2.eval v) = mapAtoms r.1 v := by
  have h : mapOk Gen.APDT.mapRows = true := by decide +kernel
  unfold mapOk at h
  rw [Bool.and_eq_true, Bool.or_eq_true] at h
  refine ⟨?_, ?_⟩
  · rcases h.1 with h1 | h1
    · exact Or.inl (List.isEmpty_iff.1 h1)
    · refine Or.inr fun s hs => ?_
      have := List.all_eq_true.1 h1 s hs
      obtain ⟨r, hr, hrs⟩ := List.any_eq_true.1 this
      exact ⟨r, hr, by simpa using hrs⟩
  · intro r hr v hc
    have := agree_sound v hc (mapSk r.1) (mapTree canonMapE r.2) PVal.empty (List.all_eq_true.1 h.2 r hr) (sat_empty v)
    rw [eval_mapTree, eval_mapSk] at this
    exact this

/-- WHAT THE CODE'S AREA TABLE SAYS ABOUT NUMBERS (composition of `area_code_eq_model` with the bridge `areaModel_eval`,
which holds for lists of any length, and with `apCode_eq_apSpec`): for every row of the table and every precision / recall
lists whose precisions are ordered like the row's pattern, the polynomial the real `_calculate_ap` returned, read at those
numbers, is the model's `calculateAp`, which is the all-point interpolated area `Σ (r_i − r_{i−1}) · max_{j ≥ i} p_j`. -/
theorem table_area_is_interpolated_area (ps rs : List Rat) (hr : rs.length = ps.length) :
    ∀ r ∈ Gen.APDT.areaRows, r.1.length = ps.length →
      (∀ i j, i < ps.length → j < ps.length → (r.1.getD i 0 > r.1.getD j 0 ↔ ps.getD i 0 > ps.getD j 0)) →
      ∃ nf, r.2 = .ok nf ∧ evalNF (envPR ps rs) nf = calculateAp ps rs ∧ evalNF (envPR ps rs) nf = apSpec ps rs := by
  intro r hmem hlen hiso
  refine ⟨areaModel r.1, area_code_eq_model.2 r hmem, areaModel_eval ps rs r.1 hlen hr hiso, ?_⟩
  rw [areaModel_eval ps rs r.1 hlen hr hiso, calculateAp_eq_apSpec]

/-- (a) the ranking of the rows: `sortIdx pat` — the model's `sortDesc` run on the pattern — is the model's ranking of the
positions of EVERY confidence list ordered like the pattern (with `sortDesc_map`: `sortDesc Res.conf rs` is that ranking
applied to `rs`), so the row of a pattern speaks about all result lists whose confidences are ordered that way -/
theorem table_ranking_is_model_sort (cs : List Rat) (pat : List Nat) (hlen : pat.length = cs.length)
    (hiso : ∀ i j, i < cs.length → j < cs.length →
      (((pat.getD i 0 : Nat) : Rat) < ((pat.getD j 0 : Nat) : Rat) ↔ cs.getD i 0 < cs.getD j 0)) :
    sortIdx pat = sortDesc (fun j => cs.getD j 0) (List.range cs.length) := by
  unfold sortIdx
  rw [hlen]
  apply sortDesc_congr
  intro a ha b hb
  simp only [List.mem_range] at ha hb
  exact hiso a b ha hb

/-- (b1) read at numbers: the lists the real `get_precision_recall_list` returned for a symbolic tp list, read at a concrete
tp list `ts` and ground-truth count `G`, are `ts i / (i+1)` and the model's `recallOf G (ts i)` -/
theorem table_prec_recall_values (ts : List Rat) (G : Nat) :
    ∀ r ∈ Gen.APDT.prRows, r.2.1 = decide (0 < G) → ∃ x, r.2.2 = .ok x ∧
      x.a.map (evalNF (envT ts G)) = (List.range r.1).map (fun i => ts.getD i 0 / ((i : Rat) + 1)) ∧
      x.b.map (evalNF (envT ts G)) = (List.range r.1).map (fun i => recallOf G (ts.getD i 0)) := by
  intro r hmem hg
  refine ⟨prModel r.1 r.2.1, prec_recall_code_eq_model.2 r hmem, ?_, ?_⟩
  · simp only [prModel, List.map_map]
    exact List.map_congr_left fun i _ => precNF_eval ts G i
  · simp only [prModel, List.map_map, hg]
    exact List.map_congr_left fun i _ => recallNF_eval ts G i

/-- (c) read at numbers: whatever the key order of the two dicts (among the tabulated shapes), the real `Map.__init__` builds
the `Ap` of target label `i` from the entries of label `i` of both dicts and from threshold `i`, and its mAP, read at
per-label values `env ("ap", i)`, is the mean over the labels whose bucket is not empty (`inf` if there is none) -/
theorem table_map_pairs_by_label_and_is_mean (env : Var → Rat) :
    ∀ r ∈ Gen.APDT.mapRows, ∀ v : Val, v.consistent → ∀ leaf, r.2.eval v = .ok leaf →
      (canonMap leaf).aps = (List.range r.1.L).map (fun i => (false, i, i, i, i)) ∧
      leaf.map.map (evalNF env) =
        (if (definedLabels r.1.L ((List.range r.1.L).map fun i => v.b (.empty i))).isEmpty then none
         else some (((definedLabels r.1.L ((List.range r.1.L).map fun i => v.b (.empty i))).map fun i => env ("ap", i)).sum /
                ((definedLabels r.1.L ((List.range r.1.L).map fun i => v.b (.empty i))).length : Rat))) := by
  intro r hmem v hc leaf hl
  have hm := map_code_table_eq_model.2 r hmem v hc
  rw [hl] at hm
  change Except.ok (canonMap leaf) = _ at hm
  unfold mapAtoms at hm
  split at hm
  · have hm' := Except.ok.inj hm
    have h1 : (canonMap leaf).aps = _ := congrArg MapLeaf.aps hm'
    have h2 : (canonMap leaf).map = _ := congrArg MapLeaf.map hm'
    refine ⟨h1, ?_⟩
    change (canonMap leaf).map.map (evalNF env) = _
    rw [h2]
    exact meanNF_eval env "ap" _
  · cases hm

/-- the checks are not vacuous: another ordering / another shape is told apart -/
example : decide (Except.ok (areaModel [0, 1, 0]) = (Except.ok (areaModel [1, 0, 0]) : Except String NF)) = false := by
  decide +kernel
example : agree PVal.empty (relTree (tpfpAdmits [1, 0] 1) (tpfpSk [0, 1] 1) (kindsTree [1, 0])) (.leaf true) = false := by
  decide +kernel
/-- … a tie is NOT told apart from its other order, nor an ignored result filed as FP; a real FP filed as ignored is -/
example : agree PVal.empty (relTree (tpfpAdmits [0, 0] 1) (kindsSk [1, 0] fun ks => .leaf (.ok (leafOfKinds 1 ks)))
    (kindsTree [0, 0])) (.leaf true) = true := by decide +kernel
example : tpfpAdmits [1, 0] 1 (.ok (leafOfKinds 1 [.fp, .tp 1])) [.ign, .tp 1] = true ∧
    tpfpAdmits [1, 0] 1 (.ok (leafOfKinds 1 [.ign, .tp 1])) [.fp, .tp 1] = false ∧
    tpfpAdmits [1, 0] 1 (.ok (leafOfKinds 1 [.tp 1, .fp])) [.fp, .tp 1] = false := by decide +kernel
example : agree PVal.empty (mapTree canonMapE (mapSk ⟨2, [0, 1], [0, 1], false⟩)) (mapSk ⟨2, [0, 1], [0, 1], true⟩) = false := by
  decide +kernel

/-! ## coverage of the rank patterns and the bridge of (a) for all inputs (`PEval/Lemmas/APDTRank.lean`) -/

/-- COVERAGE, any length: the rank pattern `rankPat cs` (entry ↦ number of entries strictly below it) of a list of rationals
is ordered like the list — in the three forms the bridges ask for — and is one of the enumerated weak orderings
`countPatterns cs.length` of the tables (a); for ≤ 3 numbers it is among `tpfpShapes` / `patShapes`. Hence "for every input
of length ≤ 3 some table row applies" is a theorem. -/
theorem rank_pattern_coverage (cs : List Rat) :
    (rankPat cs).length = cs.length ∧
    (∀ i j, i < cs.length → j < cs.length →
      ((rankPat cs).getD i 0 < (rankPat cs).getD j 0 ↔ cs.getD i 0 < cs.getD j 0)) ∧
    rankPat cs ∈ countPatterns cs.length ∧
    (1 ≤ cs.length → cs.length ≤ 3 → (rankPat cs, 1) ∈ tpfpShapes) ∧
    (cs.length ≤ 3 → rankPat cs ∈ patShapes 0) ∧ (1 ≤ cs.length → cs.length ≤ 3 → rankPat cs ∈ patShapes 1) :=
  ⟨rankPat_length cs, rankPat_iso cs, rankPat_mem_countPatterns cs, rankPat_mem_tpfpShapes cs,
    rankPat_mem_patShapes 0 cs (Nat.zero_le _), rankPat_mem_patShapes 1 cs⟩

/-- (a) for ALL inputs, model side: whenever the model's `Ap` answers, its `tp_list` / `fp_list` / "ap defined" are the
skeleton `tpfpAtoms pat G` (ranking by the pattern, classification over the atoms, cumulative sums) read at the valuation
`valAP` and the weights `envW` the result list induces — any number of results, every pattern ordered like the confidences -/
theorem tpfp_skeleton_is_model (tm : TpMetric) (m : Mode) (targets : List Label) (thrs : List Rat) (G : Nat)
    (rs : List Res) (pat : List Nat) (hlen : pat.length = rs.length)
    (hiso : ∀ i j, i < rs.length → j < rs.length →
      (pat.getD i 0 < pat.getD j 0 ↔ (rs.map Res.conf).getD i 0 < (rs.map Res.conf).getD j 0))
    (out : ApOut) (hout : apOf tm m targets thrs G rs = .ok out) :
    (tpfpAtoms pat G (valAP m targets thrs rs)).read (envW tm rs) = (out.tpList, out.fpList, out.ap.isSome) :=
  tpfp_bridge tm m targets thrs G rs pat hlen hiso out hout

/-- the row of the tables (a) that applies to a result list: no result — keyed by the ground-truth count; else the rank
pattern of the confidences (tabulated with G = 1: the count does not enter the lists of a non-empty input, `tpfpAtoms_G`) -/
def tpfpRowKey (G : Nat) (rs : List Res) : List Nat × Nat :=
  if rs.isEmpty then ([], G) else (rankPat (rs.map Res.conf), 1)

/-- SOUNDNESS OF THE RELATIONAL CHECK, restated here for the audit: a tree pair that passes
`agree PVal.empty (relTree rel code model) (.leaf true)` is related by `rel` on every consistent valuation -/
theorem rel_check_sound {α β : Type} (rel : α → β → Bool) (code : DTree α) (mdl : DTree β)
    (h : agree PVal.empty (relTree rel code mdl) (.leaf true) = true) (v : Val) (hc : v.consistent) :
    rel (code.eval v) (mdl.eval v) = true := relTree_sound rel code mdl h v hc

/-- WHERE THE TEXT LEAVES NO CHOICE (a tabulated pattern without ties, no ignored result, at least one result) the only leaf
`tpfpAdmits` admits is the model's -/
theorem tpfp_admits_pinned (pat : List Nat) (G : Nat) (hs : (pat, G) ∈ tpfpShapes) (hne : pat ≠ []) (hst : strictPat pat = true)
    (c : Except String TpFp) (ks : List K) (hlen : ks.length = pat.length) (hno : ∀ k ∈ ks, k ≠ .ign)
    (h : tpfpAdmits pat G c ks = true) : c = .ok (leafOfKinds G ks) :=
  tpfpAdmits_pinned pat G hs hne hst c ks hlen hno h

/-- the row of an input is among the generated rows, and its tree RETURNS a leaf the model's kinds admit -/
theorem table_tpfp_row (m : Mode) (targets : List Label) (thrs : List Rat) (G : Nat) (rs : List Res)
    (hshape : (1 ≤ rs.length ∧ rs.length ≤ 3) ∨ (rs = [] ∧ (G = 0 ∨ G = 2))) (hrows : Gen.APDT.tpfpRows ≠ []) :
    ∃ r ∈ Gen.APDT.tpfpRows, (r.1, r.2.1) = tpfpRowKey G rs ∧ (r.1, r.2.1) ∈ tpfpShapes ∧
      tpfpAdmits r.1 r.2.1 (r.2.2.eval (valAP m targets thrs rs))
        ((sortIdx r.1).map (kindAtoms (valAP m targets thrs rs))) = true := by
  have hshapes : Gen.APDT.tpfpRows.map (fun r => (r.1, r.2.1)) = tpfpShapes := by
    rcases tpfp_code_table_eq_model.1 with h | h
    · exact absurd h hrows
    · exact h
  have hkey : tpfpRowKey G rs ∈ tpfpShapes := by
    unfold tpfpRowKey
    rcases hshape with ⟨h1, h3⟩ | ⟨h0, hG⟩
    · have hne : rs.isEmpty = false := by cases rs <;> simp at h1 ⊢
      simp only [hne, Bool.false_eq_true, if_false]
      exact rankPat_mem_tpfpShapes _ (by simpa using h1) (by simpa using h3)
    · subst h0
      rcases hG with rfl | rfl <;> decide
  have hkey' := hkey
  rw [← hshapes, List.mem_map] at hkey
  obtain ⟨r, hr, hk⟩ := hkey
  exact ⟨r, hr, hk, hk ▸ hkey', tpfp_code_table_eq_model.2 r hr _ (valAP_consistent m targets thrs rs)⟩

/-- WHAT THE CODE'S TABLE (a) SAYS ABOUT EVERY INPUT OF LENGTH ≤ 3 (coverage ∘ table theorem): for every result list of
1 … 3 results (any confidences, ties included; any labels, thresholds, mode, ground-truth count), and for the empty list with
0 or 2 ground truths, the generated rows contain the row of that input, and the tree of that row, evaluated at the valuation
of the input, RETURNS; for a non-empty list its leaf is `leafOfKinds` (AP defined; `tp_list` / `fp_list` = running sums) of a
kind list the text admits: the model's kinds in ranking order, up to the order inside a group of equal confidences and up to
filing an ignored result as FP (`tpfpVariants`). -/
theorem table_tpfp_is_admitted (m : Mode) (targets : List Label) (thrs : List Rat) (G : Nat) (rs : List Res)
    (hshape : (1 ≤ rs.length ∧ rs.length ≤ 3) ∨ (rs = [] ∧ (G = 0 ∨ G = 2))) (hrows : Gen.APDT.tpfpRows ≠ []) :
    ∃ r ∈ Gen.APDT.tpfpRows, (r.1, r.2.1) = tpfpRowKey G rs ∧
      ∃ leaf, r.2.2.eval (valAP m targets thrs rs) = .ok leaf ∧
        (rs = [] ∨ ∃ ks' ∈ tpfpVariants r.1 ((sortIdx r.1).map (kindAtoms (valAP m targets thrs rs))),
          leaf = leafOfKinds r.2.1 ks') := by
  obtain ⟨r, hr, hk, _, had⟩ := table_tpfp_row m targets thrs G rs hshape hrows
  refine ⟨r, hr, hk, ?_⟩
  unfold tpfpAdmits at had
  cases he : r.2.2.eval (valAP m targets thrs rs) with
  | error e => rw [he] at had; simp at had
  | ok leaf =>
    rw [he] at had
    refine ⟨leaf, rfl, ?_⟩
    have hk1 : r.1 = (tpfpRowKey G rs).1 := by rw [← hk]
    unfold tpfpRowKey at hk1
    cases rs with
    | nil => exact Or.inl rfl
    | cons x xs =>
      right
      simp only [List.isEmpty_cons, Bool.false_eq_true, if_false] at hk1
      have hE : r.1.isEmpty = false := by
        rw [hk1]
        cases hp : rankPat ((x :: xs).map Res.conf) with
        | nil =>
          have := congrArg List.length hp
          rw [rankPat_length] at this
          simp at this
        | cons a l => rfl
      simp only [hE, Bool.false_or, List.any_eq_true, decide_eq_true_eq] at had
      exact had

/-- THE INPUTS ON WHICH THE TEXT LEAVES NO CHOICE in (a): at least one result, no two results of equal confidence, no
ignored result (every result's looked-up label has a threshold) -/
structure TpfpPinned (m : Mode) (targets : List Label) (thrs : List Rat) (rs : List Res) : Prop where
  nonempty : 1 ≤ rs.length
  strict : ∀ i j, i < rs.length → j < rs.length → i ≠ j → (rs.map Res.conf).getD i 0 ≠ (rs.map Res.conf).getD j 0
  noIgn : ∀ j, j < rs.length → kindAtoms (valAP m targets thrs rs) j ≠ .ign

/-- non-vacuity of `TpfpPinned`: two car results with confidences 1 and 2 (one matched, one not), target car, threshold 1 —
and the predicate excludes a tie and an ignored (pedestrian) result -/
def pinnedBool (m : Mode) (targets : List Label) (thrs : List Rat) (rs : List Res) : Bool :=
  decide (1 ≤ rs.length) &&
  ((List.range rs.length).all fun i => (List.range rs.length).all fun j =>
    i == j || decide ((rs.map Res.conf).getD i 0 ≠ (rs.map Res.conf).getD j 0)) &&
  ((List.range rs.length).all fun j => decide (kindAtoms (valAP m targets thrs rs) j ≠ .ign))

theorem pinned_of_bool {m : Mode} {targets : List Label} {thrs : List Rat} {rs : List Res}
    (h : pinnedBool m targets thrs rs = true) : TpfpPinned m targets thrs rs := by
  unfold pinnedBool at h
  simp only [Bool.and_eq_true, decide_eq_true_eq, List.all_eq_true, List.mem_range, Bool.or_eq_true, beq_iff_eq] at h
  refine ⟨h.1.1, fun i j hi hj hij => ?_, fun j hj => h.2 j hj⟩
  rcases h.1.2 i hi j hj with h' | h'
  · exact absurd h' hij
  · exact h'

example : TpfpPinned .centerDistance [2] [1]
    [⟨0, 1, 2, some ⟨0, 2⟩, .val (some 0), 1, .default⟩, ⟨1, 2, 2, none, .val none, 1, .default⟩] :=
  pinned_of_bool (by decide +kernel)
example : pinnedBool .centerDistance [2] [1]
    [⟨0, 1, 2, some ⟨0, 2⟩, .val (some 0), 1, .default⟩, ⟨1, 1, 2, none, .val none, 1, .default⟩] = false ∧
  pinnedBool .centerDistance [2] [1]
    [⟨0, 1, 2, some ⟨0, 2⟩, .val (some 0), 1, .default⟩, ⟨1, 2, 4, none, .val none, 1, .default⟩] = false := by
  decide +kernel

theorem strictPat_rankPat (cs : List Rat)
    (h : ∀ i j, i < cs.length → j < cs.length → i ≠ j → cs.getD i 0 ≠ cs.getD j 0) : strictPat (rankPat cs) = true := by
  unfold strictPat
  rw [rankPat_length, List.all_eq_true]
  intro i hi
  rw [List.all_eq_true]
  intro j hj
  simp only [List.mem_range] at hi hj
  by_cases hij : i = j
  · simp [hij]
  · simp only [Bool.or_eq_true, beq_iff_eq, hij, false_or, bne_iff_ne, ne_eq]
    intro he
    have h1 := rankPat_iso cs i j hi hj
    have h2 := rankPat_iso cs j i hj hi
    rw [he] at h1
    rw [he] at h2
    have n1 : ¬ cs.getD i 0 < cs.getD j 0 := fun hlt => absurd (h1.2 hlt) (Nat.lt_irrefl _)
    have n2 : ¬ cs.getD j 0 < cs.getD i 0 := fun hlt => absurd (h2.2 hlt) (Nat.lt_irrefl _)
    exact h i j hi hj hij (le_antisymm (not_lt.1 n2) (not_lt.1 n1))

/-- WHERE THE TEXT LEAVES NO CHOICE THE CODE'S TABLE (a) IS THE MODEL (coverage ∘ table theorem ∘ `tpfpAdmits_pinned` ∘
bridge): for every PINNED result list of 1 … 3 results (`TpfpPinned`) the generated rows contain the row of that input, and
the tree of that row, evaluated at the valuation of the input and read at its weights, gives exactly the `tp_list`, `fp_list`
and "ap is not inf" of the model's `Ap` (whenever that answers). -/
theorem table_tpfp_is_model (tm : TpMetric) (m : Mode) (targets : List Label) (thrs : List Rat) (G : Nat) (rs : List Res)
    (hpin : TpfpPinned m targets thrs rs) (h3 : rs.length ≤ 3)
    (out : ApOut) (hout : apOf tm m targets thrs G rs = .ok out) (hrows : Gen.APDT.tpfpRows ≠ []) :
    ∃ r ∈ Gen.APDT.tpfpRows, (r.1, r.2.1) = tpfpRowKey G rs ∧
      ∃ leaf, r.2.2.eval (valAP m targets thrs rs) = .ok leaf ∧
        leaf.read (envW tm rs) = (out.tpList, out.fpList, out.ap.isSome) := by
  have h1 := hpin.nonempty
  obtain ⟨r, hr, hk, hsh, had⟩ := table_tpfp_row m targets thrs G rs (Or.inl ⟨h1, h3⟩) hrows
  have hk1 : r.1 = (tpfpRowKey G rs).1 := by rw [← hk]
  unfold tpfpRowKey at hk1
  have hne : rs.isEmpty = false := by cases rs <;> simp at h1 ⊢
  simp only [hne, Bool.false_eq_true, if_false] at hk1
  have hlenp : r.1.length = rs.length := by rw [hk1, rankPat_length, List.length_map]
  have hp : r.1 ≠ [] := by
    intro h
    have := congrArg List.length h
    rw [hlenp, List.length_nil] at this
    omega
  have hst : strictPat r.1 = true := by
    rw [hk1]
    exact strictPat_rankPat _ (by simpa using hpin.strict)
  have hsl : (sortIdx r.1).length = r.1.length := by
    unfold sortIdx
    rw [(sortDesc_perm _ _).length_eq, List.length_range]
  have hno : ∀ k ∈ (sortIdx r.1).map (kindAtoms (valAP m targets thrs rs)), k ≠ .ign := by
    intro k hkm
    obtain ⟨j, hj, rfl⟩ := List.mem_map.1 hkm
    have hjr : j ∈ List.range r.1.length := by
      have := (sortDesc_perm (fun j => ((r.1.getD j 0 : Nat) : Rat)) (List.range r.1.length)).mem_iff.1 hj
      exact this
    exact hpin.noIgn j (by rw [← hlenp]; exact List.mem_range.1 hjr)
  have hleaf := tpfpAdmits_pinned r.1 r.2.1 hsh hp hst _ _ (by rw [List.length_map, hsl]) hno had
  refine ⟨r, hr, hk, leafOfKinds r.2.1 ((sortIdx r.1).map (kindAtoms (valAP m targets thrs rs))), hleaf, ?_⟩
  change (tpfpAtoms r.1 r.2.1 (valAP m targets thrs rs)).read (envW tm rs) = _
  rw [tpfpAtoms_G r.1 hp r.2.1 G, hk1]
  exact tpfp_bridge tm m targets thrs G rs _ (by rw [rankPat_length, List.length_map])
    (fun i j hi hj => rankPat_iso _ i j (by simpa using hi) (by simpa using hj)) out hout

/-- the same coverage for the area table (b2): for EVERY precision / recall lists of length ≤ 3 the generated rows contain a
row whose pattern is ordered like the precisions (the rank pattern), and its polynomial, read at the numbers, is the model's
`calculateAp` = the all-point interpolated area -/
theorem table_area_covers_every_input (ps rs : List Rat) (hr : rs.length = ps.length) (h3 : ps.length ≤ 3)
    (hrows : Gen.APDT.areaRows ≠ []) :
    ∃ r ∈ Gen.APDT.areaRows, r.1 = rankPat ps ∧
      ∃ nf, r.2 = .ok nf ∧ evalNF (envPR ps rs) nf = calculateAp ps rs ∧ evalNF (envPR ps rs) nf = apSpec ps rs := by
  have hshapes : Gen.APDT.areaRows.map (·.1) = patShapes 0 := by
    rcases area_code_eq_model.1 with h | h
    · exact absurd h hrows
    · exact h
  have hkey := rankPat_mem_patShapes 0 ps (Nat.zero_le _) h3
  rw [← hshapes, List.mem_map] at hkey
  obtain ⟨r, hrm, hk⟩ := hkey
  refine ⟨r, hrm, hk, ?_⟩
  exact table_area_is_interpolated_area ps rs hr r hrm (by rw [hk, rankPat_length])
    (fun i j hi hj => by rw [hk]; exact rankPat_iso_gt ps i j hi hj)

/-- non-vacuity of the bridge: a tie and a strictly larger confidence — pattern `[0, 2, 0]`, ranking `[1, 0, 2]` (stable), a tabulated shape -/
example : rankPat [1, 2, 1] = [0, 2, 0] ∧ sortIdx [0, 2, 0] = [1, 0, 2] ∧ ([0, 2, 0], 1) ∈ tpfpShapes := by decide +kernel

/-! ## the bridge of (c) for all inputs (`PEval/Lemmas/APDTMap.lean`) -/

/-- (c) for ALL inputs, model side (any number of labels, any dict key order, extra keys): whenever the model's `Map`
answers — pairwise distinct target labels, one threshold per label — the skeleton `mapAtoms` at the shape of the input
(`shapeOfMap`: the dict keys as positions in the target list) and at its valuation (`valMap`: which buckets are empty)
answers a leaf that reads (`MapLeafReads`) as the model's output: the `Ap` / APH call of label `i`, read on the input
(`readCall`: dict entries and threshold of the label at position `i`), is the model's `Ap` / APH of label `i`, and the
mAP / mAPH normal forms read at the per-label values are the model's mAP / mAPH -/
theorem map_skeleton_is_model (m : Mode) (is2d : Bool) (targets : List Label) (thrs : List Rat)
    (buckets : List (Label × List (List Res))) (nums : List (Label × Nat)) (hnd : targets.Nodup)
    (hlen : thrs.length = targets.length) (out : MapOut) (hout : mapOf m is2d targets thrs buckets nums = .ok out) :
    ∃ leaf, mapAtoms (shapeOfMap is2d targets buckets nums) (valMap targets buckets) = .ok leaf ∧
      MapLeafReads m targets thrs buckets nums leaf out :=
  map_bridge m is2d targets thrs buckets nums hnd hlen out hout

/-- WHAT THE CODE'S TABLE (c) SAYS ABOUT EVERY INPUT OF A TABULATED SHAPE (table theorem ∘ bridge): for every row and every
input of the row's shape on which the model's `Map` answers, the tree of the real `Map.__init__`, evaluated at the
valuation of the input, gives a leaf that — its `aps` / `aphs` listed by target label (`canonMap`) — reads as the model's output (per-label `Ap`s built from the entries and the
threshold of THEIR label, mAP / mAPH = means over the labels with a result) -/
theorem table_map_is_model (m : Mode) (is2d : Bool) (targets : List Label) (thrs : List Rat)
    (buckets : List (Label × List (List Res))) (nums : List (Label × Nat)) (hnd : targets.Nodup)
    (hlen : thrs.length = targets.length) (out : MapOut) (hout : mapOf m is2d targets thrs buckets nums = .ok out) :
    ∀ r ∈ Gen.APDT.mapRows, r.1 = shapeOfMap is2d targets buckets nums →
      ∃ leaf, r.2.eval (valMap targets buckets) = .ok leaf ∧
        MapLeafReads m targets thrs buckets nums (canonMap leaf) out := by
  intro r hr hshape
  obtain ⟨leaf, h1, h2⟩ := map_bridge m is2d targets thrs buckets nums hnd hlen out hout
  have hm := map_code_table_eq_model.2 r hr _ (valMap_consistent targets buckets)
  rw [hshape, h1] at hm
  cases he : r.2.eval (valMap targets buckets) with
  | error e => rw [he] at hm; cases hm
  | ok leaf0 =>
    rw [he] at hm
    have : canonMap leaf0 = leaf := Except.ok.inj hm
    exact ⟨leaf0, rfl, this ▸ h2⟩

/-- non-vacuity: a required shape is the shape of a concrete input (labels 5, 7; result dict keyed 7, 5) -/
example : shapeOfMap false [5, 7] [(7, []), (5, [])] [(5, 0), (7, 0)] = ⟨2, [1, 0], [0, 1], false⟩ := by decide

end PEval.C04
