import PEval.Lemmas.APDTBridge
import PEval.Lemmas.APDTRank
import PEval.Lemmas.APDTMap
import PEval.Gen.APTables
/-!
# C04, continued: the CODE's decision tables and expressions (regenerated from the source on every run)

`PEval/Gen/APTables.lean` holds what `harness/dt_c04.py` obtained by running the REAL `Ap.__init__`,
`Ap.get_precision_recall_list`, `Ap._calculate_ap` (which runs `interpolate_precision_recall_list`) and `Map.__init__` on symbolic
inputs (DESIGN §3.6): decision trees over the Boolean atoms hasGt / inTargets / isTp / empty, with polynomial normal forms
at the leaves; every order relation (between confidences, between precisions) is enumerated up front as a rank pattern, one
table row per weak ordering. Each `…_code_table_eq_model` below is the per-run obligation "the regenerated table = the model's
skeleton on EVERY consistent valuation / for EVERY ordering", discharged by kernel evaluation of a complete check (`agree`
of `PEval/Model/ClearDT.lean`, sound by `agree_sound`; plain equality of normal forms for the rows without atoms). A rewrite
of the source that keeps the decisions and the arithmetic leaves them provable with no edits (normal forms do not see how
an expression is spelled, `agree` does not see in which order independent tests are made); a rewrite that changes either
makes the build fail at that theorem. Rows `[]` = the translator could not follow the source (`…Note` says why): the theorems
are then vacuous and the correspondence run alone ties model and code.
-/

namespace PEval.C04
open PEval.AP PEval.ClearDT PEval.APDT

/-- (a) `Ap.__init__` up to `tp_list` / `fp_list` / "ap defined": for every tabulated shape (no result; every weak ordering
of 1..3 confidences) the code's tree answers what the skeleton answers — the results ranked by the MODEL's `sortDesc`, each
classified as in the model's `classify`, running sums of the TP weights and FP flags. -/
theorem tpfp_code_table_eq_model :
    (Gen.APDT.tpfpRows = [] ∨ Gen.APDT.tpfpRows.map (fun r => (r.1, r.2.1)) = tpfpShapes) ∧
    ∀ r ∈ Gen.APDT.tpfpRows, ∀ v : Val, v.consistent → r.2.2.eval v = .ok (tpfpAtoms r.1 r.2.1 v) := by
  have h : tpfpOk Gen.APDT.tpfpRows = true := by decide +kernel
  unfold tpfpOk at h
  rw [Bool.and_eq_true, Bool.or_eq_true, List.all_eq_true] at h
  refine ⟨?_, ?_⟩
  · rcases h.1 with h1 | h1
    · exact Or.inl (List.isEmpty_iff.1 h1)
    · exact Or.inr (by simpa using h1)
  · intro r hr v hc
    rw [agree_sound v hc (tpfpSk r.1 r.2.1) r.2.2 PVal.empty (h.2 r hr) (sat_empty v), eval_tpfpSk]

/-- (b1) `get_precision_recall_list` on a symbolic `tp_list` of length n ≤ 3: `precision i = t i / (i+1)`,
`recall i = t i / g` if `g > 0` else `0`, as normal forms -/
theorem prec_recall_code_eq_model :
    (Gen.APDT.prRows = [] ∨ Gen.APDT.prRows.map (fun r => (r.1, r.2.1)) = prShapes) ∧
    ∀ r ∈ Gen.APDT.prRows, r.2.2 = .ok (prModel r.1 r.2.1) := by
  have h : prOk Gen.APDT.prRows = true := by decide +kernel
  unfold prOk at h
  rw [Bool.and_eq_true, Bool.or_eq_true, List.all_eq_true] at h
  refine ⟨?_, fun r hr => by simpa using h.2 r hr⟩
  rcases h.1 with h1 | h1
  · exact Or.inl (List.isEmpty_iff.1 h1)
  · exact Or.inr (by simpa using h1)

/-- (b2) `_calculate_ap` for EVERY ordering of ≤ 3 precisions: the area as a polynomial in the `P i`, `R i` -/
theorem area_code_eq_model :
    (Gen.APDT.areaRows = [] ∨ Gen.APDT.areaRows.map (·.1) = patShapes 0) ∧
    ∀ r ∈ Gen.APDT.areaRows, r.2 = .ok (areaModel r.1) := by
  have h : areaOk Gen.APDT.areaRows = true := by decide +kernel
  unfold areaOk at h
  rw [Bool.and_eq_true, Bool.or_eq_true, List.all_eq_true] at h
  refine ⟨?_, fun r hr => by simpa using h.2 r hr⟩
  rcases h.1 with h1 | h1
  · exact Or.inl (List.isEmpty_iff.1 h1)
  · exact Or.inr (by simpa using h1)

/-- (c) `Map.__init__` for ≤ 3 labels and the tabulated key orders of its two dicts: every `Ap` is built from the dict
entries and the threshold of ITS label, in target order; mAP / mAPH are the means over the labels with a result -/
theorem map_code_table_eq_model :
    (Gen.APDT.mapRows = [] ∨ ∀ s ∈ mapRequired, ∃ r ∈ Gen.APDT.mapRows, r.1 = s) ∧
    ∀ r ∈ Gen.APDT.mapRows, ∀ v : Val, v.consistent → r.2.eval v = mapAtoms r.1 v := by
  have h : mapOk Gen.APDT.mapRows = true := by decide +kernel
  unfold mapOk at h
  rw [Bool.and_eq_true, Bool.or_eq_true] at h
  refine ⟨?_, ?_⟩
  · rcases h.1 with h1 | h1
    · exact Or.inl (List.isEmpty_iff.1 h1)
    · refine Or.inr fun s hs => ?_
      have := List.all_eq_true.1 h1 s hs
      obtain ⟨r, hr, hrs⟩ := List.any_eq_true.1 this
      exact ⟨r, hr, by simpa using hrs⟩
  · intro r hr v hc
    rw [agree_sound v hc (mapSk r.1) r.2 PVal.empty (List.all_eq_true.1 h.2 r hr) (sat_empty v), eval_mapSk]

/-- WHAT THE CODE'S AREA TABLE SAYS ABOUT NUMBERS (composition of `area_code_eq_model` with the bridge `areaModel_eval`,
which holds for lists of any length, and with `apCode_eq_apSpec`): for every row of the table and every precision / recall
lists whose precisions are ordered like the row's pattern, the polynomial the real `_calculate_ap` returned, read at those
numbers, is the model's `calculateAp`, which is the all-point interpolated area `Σ (r_i − r_{i−1}) · max_{j ≥ i} p_j`. -/
theorem table_area_is_interpolated_area (ps rs : List Rat) (hr : rs.length = ps.length) :
    ∀ r ∈ Gen.APDT.areaRows, r.1.length = ps.length →
      (∀ i j, i < ps.length → j < ps.length → (r.1.getD i 0 > r.1.getD j 0 ↔ ps.getD i 0 > ps.getD j 0)) →
      ∃ nf, r.2 = .ok nf ∧ evalNF (envPR ps rs) nf = calculateAp ps rs ∧ evalNF (envPR ps rs) nf = apSpec ps rs := by
  intro r hmem hlen hiso
  refine ⟨areaModel r.1, area_code_eq_model.2 r hmem, areaModel_eval ps rs r.1 hlen hr hiso, ?_⟩
  rw [areaModel_eval ps rs r.1 hlen hr hiso, calculateAp_eq_apSpec]

/-- (a) the ranking of the rows: `sortIdx pat` — the model's `sortDesc` run on the pattern — is the model's ranking of the
positions of EVERY confidence list ordered like the pattern (with `sortDesc_map`: `sortDesc Res.conf rs` is that ranking
applied to `rs`), so the row of a pattern speaks about all result lists whose confidences are ordered that way -/
theorem table_ranking_is_model_sort (cs : List Rat) (pat : List Nat) (hlen : pat.length = cs.length)
    (hiso : ∀ i j, i < cs.length → j < cs.length →
      (((pat.getD i 0 : Nat) : Rat) < ((pat.getD j 0 : Nat) : Rat) ↔ cs.getD i 0 < cs.getD j 0)) :
    sortIdx pat = sortDesc (fun j => cs.getD j 0) (List.range cs.length) := by
  unfold sortIdx
  rw [hlen]
  apply sortDesc_congr
  intro a ha b hb
  simp only [List.mem_range] at ha hb
  exact hiso a b ha hb

/-- (b1) read at numbers: the lists the real `get_precision_recall_list` returned for a symbolic tp list, read at a concrete
tp list `ts` and ground-truth count `G`, are `ts i / (i+1)` and the model's `recallOf G (ts i)` -/
theorem table_prec_recall_values (ts : List Rat) (G : Nat) :
    ∀ r ∈ Gen.APDT.prRows, r.2.1 = decide (0 < G) → ∃ x, r.2.2 = .ok x ∧
      x.a.map (evalNF (envT ts G)) = (List.range r.1).map (fun i => ts.getD i 0 / ((i : Rat) + 1)) ∧
      x.b.map (evalNF (envT ts G)) = (List.range r.1).map (fun i => recallOf G (ts.getD i 0)) := by
  intro r hmem hg
  refine ⟨prModel r.1 r.2.1, prec_recall_code_eq_model.2 r hmem, ?_, ?_⟩
  · simp only [prModel, List.map_map]
    exact List.map_congr_left fun i _ => precNF_eval ts G i
  · simp only [prModel, List.map_map, hg]
    exact List.map_congr_left fun i _ => recallNF_eval ts G i

/-- (c) read at numbers: whatever the key order of the two dicts (among the tabulated shapes), the real `Map.__init__` builds
the `Ap` of target label `i` from the entries of label `i` of both dicts and from threshold `i`, and its mAP, read at
per-label values `env ("ap", i)`, is the mean over the labels whose bucket is not empty (`inf` if there is none) -/
theorem table_map_pairs_by_label_and_is_mean (env : Var → Rat) :
    ∀ r ∈ Gen.APDT.mapRows, ∀ v : Val, v.consistent → ∀ leaf, r.2.eval v = .ok leaf →
      leaf.aps = (List.range r.1.L).map (fun i => (false, i, i, i, i)) ∧
      leaf.map.map (evalNF env) =
        (if (definedLabels r.1.L ((List.range r.1.L).map fun i => v.b (.empty i))).isEmpty then none
         else some (((definedLabels r.1.L ((List.range r.1.L).map fun i => v.b (.empty i))).map fun i => env ("ap", i)).sum /
                ((definedLabels r.1.L ((List.range r.1.L).map fun i => v.b (.empty i))).length : Rat))) := by
  intro r hmem v hc leaf hl
  rw [map_code_table_eq_model.2 r hmem v hc] at hl
  unfold mapAtoms at hl
  split at hl
  · cases hl
    exact ⟨rfl, meanNF_eval env "ap" _⟩
  · cases hl

/-- the checks are not vacuous: another ordering / another shape is told apart -/
example : decide (Except.ok (areaModel [0, 1, 0]) = (Except.ok (areaModel [1, 0, 0]) : Except String NF)) = false := by
  decide +kernel
example : agree PVal.empty (tpfpSk [0, 1] 1) (tpfpSk [1, 0] 1) = false := by decide +kernel
example : agree PVal.empty (mapSk ⟨2, [0, 1], [0, 1], false⟩) (mapSk ⟨2, [0, 1], [0, 1], true⟩) = false := by decide +kernel

/-! ## coverage of the rank patterns and the bridge of (a) for all inputs (`PEval/Lemmas/APDTRank.lean`) -/

/-- COVERAGE, any length: the rank pattern `rankPat cs` (entry ↦ number of entries strictly below it) of a list of rationals
is ordered like the list — in the three forms the bridges ask for — and is one of the enumerated weak orderings
`countPatterns cs.length` of the tables (a); for ≤ 3 numbers it is among `tpfpShapes` / `patShapes`. Hence "for every input
of length ≤ 3 some table row applies" is a theorem. -/
theorem rank_pattern_coverage (cs : List Rat) :
    (rankPat cs).length = cs.length ∧
    (∀ i j, i < cs.length → j < cs.length →
      ((rankPat cs).getD i 0 < (rankPat cs).getD j 0 ↔ cs.getD i 0 < cs.getD j 0)) ∧
    rankPat cs ∈ countPatterns cs.length ∧
    (1 ≤ cs.length → cs.length ≤ 3 → (rankPat cs, 1) ∈ tpfpShapes) ∧
    (cs.length ≤ 3 → rankPat cs ∈ patShapes 0) ∧ (1 ≤ cs.length → cs.length ≤ 3 → rankPat cs ∈ patShapes 1) :=
  ⟨rankPat_length cs, rankPat_iso cs, rankPat_mem_countPatterns cs, rankPat_mem_tpfpShapes cs,
    rankPat_mem_patShapes 0 cs (Nat.zero_le _), rankPat_mem_patShapes 1 cs⟩

/-- (a) for ALL inputs, model side: whenever the model's `Ap` answers, its `tp_list` / `fp_list` / "ap defined" are the
skeleton `tpfpAtoms pat G` (ranking by the pattern, classification over the atoms, cumulative sums) read at the valuation
`valAP` and the weights `envW` the result list induces — any number of results, every pattern ordered like the confidences -/
theorem tpfp_skeleton_is_model (tm : TpMetric) (m : Mode) (targets : List Label) (thrs : List Rat) (G : Nat)
    (rs : List Res) (pat : List Nat) (hlen : pat.length = rs.length)
    (hiso : ∀ i j, i < rs.length → j < rs.length →
      (pat.getD i 0 < pat.getD j 0 ↔ (rs.map Res.conf).getD i 0 < (rs.map Res.conf).getD j 0))
    (out : ApOut) (hout : apOf tm m targets thrs G rs = .ok out) :
    (tpfpAtoms pat G (valAP m targets thrs rs)).read (envW tm rs) = (out.tpList, out.fpList, out.ap.isSome) :=
  tpfp_bridge tm m targets thrs G rs pat hlen hiso out hout

/-- the row of the tables (a) that applies to a result list: no result — keyed by the ground-truth count; else the rank
pattern of the confidences (tabulated with G = 1: the count does not enter the lists of a non-empty input, `tpfpAtoms_G`) -/
def tpfpRowKey (G : Nat) (rs : List Res) : List Nat × Nat :=
  if rs.isEmpty then ([], G) else (rankPat (rs.map Res.conf), 1)

/-- WHAT THE CODE'S TABLE (a) SAYS ABOUT EVERY INPUT OF LENGTH ≤ 3 (coverage ∘ table theorem ∘ bridge): for every result
list of 1 … 3 results (any confidences, ties included; any labels, thresholds, mode, ground-truth count), and for the empty
list with 0 or 2 ground truths, the generated rows contain the row of that input, and the tree of that row, evaluated at the
valuation of the input and read at its weights, gives exactly the `tp_list`, `fp_list` and "ap is not inf" of the model's
`Ap` (whenever that answers). -/
theorem table_tpfp_is_model (tm : TpMetric) (m : Mode) (targets : List Label) (thrs : List Rat) (G : Nat) (rs : List Res)
    (hshape : (1 ≤ rs.length ∧ rs.length ≤ 3) ∨ (rs = [] ∧ (G = 0 ∨ G = 2)))
    (out : ApOut) (hout : apOf tm m targets thrs G rs = .ok out) (hrows : Gen.APDT.tpfpRows ≠ []) :
    ∃ r ∈ Gen.APDT.tpfpRows, (r.1, r.2.1) = tpfpRowKey G rs ∧
      ∃ leaf, r.2.2.eval (valAP m targets thrs rs) = .ok leaf ∧
        leaf.read (envW tm rs) = (out.tpList, out.fpList, out.ap.isSome) := by
  have hshapes : Gen.APDT.tpfpRows.map (fun r => (r.1, r.2.1)) = tpfpShapes := by
    rcases tpfp_code_table_eq_model.1 with h | h
    · exact absurd h hrows
    · exact h
  have hkey : tpfpRowKey G rs ∈ tpfpShapes := by
    unfold tpfpRowKey
    rcases hshape with ⟨h1, h3⟩ | ⟨h0, hG⟩
    · have hne : rs.isEmpty = false := by cases rs <;> simp at h1 ⊢
      simp only [hne, Bool.false_eq_true, if_false]
      exact rankPat_mem_tpfpShapes _ (by simpa using h1) (by simpa using h3)
    · subst h0
      rcases hG with rfl | rfl <;> decide
  rw [← hshapes, List.mem_map] at hkey
  obtain ⟨r, hr, hk⟩ := hkey
  refine ⟨r, hr, hk, tpfpAtoms r.1 r.2.1 (valAP m targets thrs rs),
    tpfp_code_table_eq_model.2 r hr _ (valAP_consistent m targets thrs rs), ?_⟩
  have hk1 : r.1 = (tpfpRowKey G rs).1 := by rw [← hk]
  have hk2 : r.2.1 = (tpfpRowKey G rs).2 := by rw [← hk]
  unfold tpfpRowKey at hk1 hk2
  rcases hshape with ⟨h1, h3⟩ | ⟨h0, _⟩
  · have hne : rs.isEmpty = false := by cases rs <;> simp at h1 ⊢
    simp only [hne, Bool.false_eq_true, if_false] at hk1 hk2
    have hp : r.1 ≠ [] := by
      intro h
      have := congrArg List.length h
      rw [hk1, rankPat_length, List.length_map, List.length_nil] at this
      omega
    rw [tpfpAtoms_G r.1 hp r.2.1 G, hk1]
    exact tpfp_bridge tm m targets thrs G rs _ (by rw [rankPat_length, List.length_map])
      (fun i j hi hj => rankPat_iso _ i j (by simpa using hi) (by simpa using hj)) out hout
  · subst h0
    simp only [List.isEmpty_nil, if_true] at hk1 hk2
    rw [hk1, hk2]
    exact tpfp_bridge tm m targets thrs G [] [] rfl (fun i j hi _ => absurd hi (by simp)) out hout

/-- the same coverage for the area table (b2): for EVERY precision / recall lists of length ≤ 3 the generated rows contain a
row whose pattern is ordered like the precisions (the rank pattern), and its polynomial, read at the numbers, is the model's
`calculateAp` = the all-point interpolated area -/
theorem table_area_covers_every_input (ps rs : List Rat) (hr : rs.length = ps.length) (h3 : ps.length ≤ 3)
    (hrows : Gen.APDT.areaRows ≠ []) :
    ∃ r ∈ Gen.APDT.areaRows, r.1 = rankPat ps ∧
      ∃ nf, r.2 = .ok nf ∧ evalNF (envPR ps rs) nf = calculateAp ps rs ∧ evalNF (envPR ps rs) nf = apSpec ps rs := by
  have hshapes : Gen.APDT.areaRows.map (·.1) = patShapes 0 := by
    rcases area_code_eq_model.1 with h | h
    · exact absurd h hrows
    · exact h
  have hkey := rankPat_mem_patShapes 0 ps (Nat.zero_le _) h3
  rw [← hshapes, List.mem_map] at hkey
  obtain ⟨r, hrm, hk⟩ := hkey
  refine ⟨r, hrm, hk, ?_⟩
  exact table_area_is_interpolated_area ps rs hr r hrm (by rw [hk, rankPat_length])
    (fun i j hi hj => by rw [hk]; exact rankPat_iso_gt ps i j hi hj)

/-- non-vacuity of the bridge: a tie and a strictly larger confidence — pattern `[0, 2, 0]`, ranking `[1, 0, 2]` (stable), a tabulated shape -/
example : rankPat [1, 2, 1] = [0, 2, 0] ∧ sortIdx [0, 2, 0] = [1, 0, 2] ∧ ([0, 2, 0], 1) ∈ tpfpShapes := by decide +kernel

/-! ## the bridge of (c) for all inputs (`PEval/Lemmas/APDTMap.lean`) -/

/-- (c) for ALL inputs, model side (any number of labels, any dict key order, extra keys): whenever the model's `Map`
answers — pairwise distinct target labels, one threshold per label — the skeleton `mapAtoms` at the shape of the input
(`shapeOfMap`: the dict keys as positions in the target list) and at its valuation (`valMap`: which buckets are empty)
answers a leaf that reads (`MapLeafReads`) as the model's output: the `Ap` / APH call of label `i`, read on the input
(`readCall`: dict entries and threshold of the label at position `i`), is the model's `Ap` / APH of label `i`, and the
mAP / mAPH normal forms read at the per-label values are the model's mAP / mAPH -/
theorem map_skeleton_is_model (m : Mode) (is2d : Bool) (targets : List Label) (thrs : List Rat)
    (buckets : List (Label × List (List Res))) (nums : List (Label × Nat)) (hnd : targets.Nodup)
    (hlen : thrs.length = targets.length) (out : MapOut) (hout : mapOf m is2d targets thrs buckets nums = .ok out) :
    ∃ leaf, mapAtoms (shapeOfMap is2d targets buckets nums) (valMap targets buckets) = .ok leaf ∧
      MapLeafReads m targets thrs buckets nums leaf out :=
  map_bridge m is2d targets thrs buckets nums hnd hlen out hout

/-- WHAT THE CODE'S TABLE (c) SAYS ABOUT EVERY INPUT OF A TABULATED SHAPE (table theorem ∘ bridge): for every row and every
input of the row's shape on which the model's `Map` answers, the tree of the real `Map.__init__`, evaluated at the
valuation of the input, gives a leaf that reads as the model's output (per-label `Ap`s built from the entries and the
threshold of THEIR label, mAP / mAPH = means over the labels with a result) -/
theorem table_map_is_model (m : Mode) (is2d : Bool) (targets : List Label) (thrs : List Rat)
    (buckets : List (Label × List (List Res))) (nums : List (Label × Nat)) (hnd : targets.Nodup)
    (hlen : thrs.length = targets.length) (out : MapOut) (hout : mapOf m is2d targets thrs buckets nums = .ok out) :
    ∀ r ∈ Gen.APDT.mapRows, r.1 = shapeOfMap is2d targets buckets nums →
      ∃ leaf, r.2.eval (valMap targets buckets) = .ok leaf ∧ MapLeafReads m targets thrs buckets nums leaf out := by
  intro r hr hshape
  obtain ⟨leaf, h1, h2⟩ := map_bridge m is2d targets thrs buckets nums hnd hlen out hout
  refine ⟨leaf, ?_, h2⟩
  rw [map_code_table_eq_model.2 r hr _ (valMap_consistent targets buckets), hshape, h1]

/-- non-vacuity: a required shape is the shape of a concrete input (labels 5, 7; result dict keyed 7, 5) -/
example : shapeOfMap false [5, 7] [(7, []), (5, [])] [(5, 0), (7, 0)] = ⟨2, [1, 0], [0, 1], false⟩ := by decide

end PEval.C04
