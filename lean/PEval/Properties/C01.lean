import PEval.Lemmas.MatchingResults
import PEval.Lemmas.MatchingHeap
import PEval.Lemmas.MatchingTotal
import PEval.Lemmas.MatchingDispatchErr
import PEval.Lemmas.MatchingFamily
import PEval.Lemmas.MatchingDispatchId
import PEval.Model.MatchDispatch
import PEval.Properties.KernelMatchable
import PEval.Properties.KernelBetter
import PEval.Properties.KernelCell
/-!
# C01 — matching is one-to-one and accounts for every estimate

All statements are about `PEval.Matching.getObjectResults` (model of `get_object_results` for objects
carrying geometry) and hold for every configuration (three label policies, four modes, any target /
threshold lists, both tasks), every list of estimates and ground truths of any length and **every**
scoring function `Scene.val` (so for all four matching modes and any ties). A result is
`(estimate index, some ground-truth index | none)`; indices are positions in the caller's lists.
-/
namespace PEval.C01
open PEval PEval.Matching

/-- Outside FP validation the estimates of the results are a rearrangement of the input estimates:
each input estimate exactly once, nothing foreign. -/
theorem results_est_perm {c : Cfg} {sc : Scene} {rs : List Res}
    (h : getObjectResults c sc = .ok rs) (hfp : c.fpValidation = false) :
    (rs.map (·.1)).Perm (List.range sc.ests.length) := by
  rw [getObjectResults_ok h, resultsOf_map_fst, hfp]
  exact (matchAll_inv _ _ _).permE List.nodup_range

/-- In both tasks no estimate appears twice and every estimate of a result is an input estimate. -/
theorem results_est_nodup {c : Cfg} {sc : Scene} {rs : List Res} (h : getObjectResults c sc = .ok rs) :
    (rs.map (·.1)).Nodup ∧ ∀ r ∈ rs, r.1 < sc.ests.length := by
  have hinv := matchAll_inv (mkTbl c sc) sc.ests.length sc.gts.length
  have hperm := hinv.permE List.nodup_range
  have hnd := hperm.nodup_iff.2 List.nodup_range
  rw [getObjectResults_ok h]
  constructor
  · rw [resultsOf_map_fst]
    cases c.fpValidation
    · exact hnd
    · simpa using (List.nodup_append.1 hnd).1
  · intro r hr
    have hm : r.1 ∈ (resultsOf c.fpValidation _).map (·.1) := List.mem_map.2 ⟨r, hr, rfl⟩
    rw [resultsOf_map_fst] at hm
    have : r.1 ∈ (matchAll (mkTbl c sc) sc.ests.length sc.gts.length).pairs.map (·.1) ++
        (matchAll (mkTbl c sc) sc.ests.length sc.gts.length).es := by
      cases hb : c.fpValidation <;> simp only [hb] at hm
      · exact hm
      · exact List.mem_append.2 (Or.inl (by simpa using hm))
    exact List.mem_range.1 (hperm.mem_iff.1 this)

/-- Each ground truth is used by at most one result, and only input ground truths are used. -/
theorem results_gt_nodup {c : Cfg} {sc : Scene} {rs : List Res} (h : getObjectResults c sc = .ok rs) :
    (usedGts rs).Nodup ∧ ∀ j ∈ usedGts rs, j < sc.gts.length := by
  have hinv := matchAll_inv (mkTbl c sc) sc.ests.length sc.gts.length
  rw [getObjectResults_ok h, usedGts_resultsOf]
  refine ⟨hinv.pG, ?_⟩
  intro j hj
  obtain ⟨p, hp, rfl⟩ := List.mem_map.1 hj
  exact List.mem_range.1 (hinv.subG p hp)

/-- Every pair of the results has a score in the table built by `_get_score_table`: the two objects
exist, are in the same frame, pass the matchable-threshold gate of the ground truth's label, and the
score is the matching value of the pair. -/
theorem pair_has_score {c : Cfg} {sc : Scene} {rs : List Res} (h : getObjectResults c sc = .ok rs)
    {i j : Nat} (hp : (i, some j) ∈ rs) :
    ∃ e g, sc.ests[i]? = some e ∧ sc.gts[j]? = some g ∧
      cell c e g (sc.val i j) = .ok ⟨some (sc.val i j), isMatchable c.policy e g⟩ := by
  rw [getObjectResults_ok h, mem_resultsOf_some] at hp
  obtain ⟨s, hs⟩ := (matchAll_inv (mkTbl c sc) sc.ests.length sc.gts.length).sc (i, j) hp
  obtain ⟨e, g, he, hg, _, hf, hw, _⟩ := mkTbl_score_some hs
  exact ⟨e, g, he, hg, cell_of_within hf hw⟩

/-- Only objects expressed in the same frame are paired. -/
theorem pair_same_frame {c : Cfg} {sc : Scene} {rs : List Res} (h : getObjectResults c sc = .ok rs)
    {i j : Nat} (hp : (i, some j) ∈ rs) :
    ∃ e g, sc.ests[i]? = some e ∧ sc.gts[j]? = some g ∧ e.frame = g.frame := by
  obtain ⟨e, g, he, hg, hc⟩ := pair_has_score h hp
  exact ⟨e, g, he, hg, (cell_score_some hc rfl).2.1⟩

/-- When a threshold (maximum matchable radius) is configured for the **ground truth's** label, the
paired objects are strictly better than it (distance modes: closer than the radius). -/
theorem pair_within_radius {c : Cfg} {sc : Scene} {rs : List Res} (h : getObjectResults c sc = .ok rs)
    {i j : Nat} (hp : (i, some j) ∈ rs) {g : Obj} (hg : sc.gts[j]? = some g) {r : Rat}
    (hr : labelThreshold c.targets c.thresholds g.label = .ok (some r)) :
    better c.mode.maximize (sc.val i j) r = true := by
  obtain ⟨e, g', _, hg', hc⟩ := pair_has_score h hp
  rw [hg] at hg'; cases hg'
  obtain ⟨thr, hthr, hall⟩ := (cell_score_some hc rfl).2.2.1
  rw [hr] at hthr; cases hthr
  exact isBetterThan_ok_true (hall r rfl)

/-- In the distance modes this reads: the matching distance is smaller than the radius. -/
theorem pair_closer_than_radius {c : Cfg} {sc : Scene} {rs : List Res} (h : getObjectResults c sc = .ok rs)
    (hm : c.mode.maximize = false)
    {i j : Nat} (hp : (i, some j) ∈ rs) {g : Obj} (hg : sc.gts[j]? = some g) {r : Rat}
    (hr : labelThreshold c.targets c.thresholds g.label = .ok (some r)) :
    sc.val i j < r := by
  have := pair_within_radius h hp hg hr
  simpa [better, hm] using this

/-- The table has a score exactly for the same-frame pairs within the threshold (what "matchable"
means in C01/C02); `none` stands for the NaN entries. -/
theorem table_score_iff {c : Cfg} {sc : Scene} {i j : Nat} {e g : Obj}
    (he : sc.ests[i]? = some e) (hg : sc.gts[j]? = some g) :
    (∃ s, (mkTbl c sc).score i j = some s) ↔ e.frame = g.frame ∧ withinThreshold c g (sc.val i j) := by
  constructor
  · rintro ⟨s, hs⟩
    obtain ⟨e', g', he', hg', _, hf, hw, _⟩ := mkTbl_score_some hs
    rw [he] at he'; rw [hg] at hg'; cases he'; cases hg'
    exact ⟨hf, hw⟩
  · rintro ⟨hf, hw⟩
    exact ⟨_, (mkTbl_score_of_within he hg hf hw).1⟩

/-- Outside FP validation the results without ground truth come after all pairs and are exactly the
unpaired estimates, in input order. -/
theorem unpaired_are_leftover {c : Cfg} {sc : Scene} {rs : List Res}
    (h : getObjectResults c sc = .ok rs) (hfp : c.fpValidation = false) :
    rs = rs.filter (fun r => r.2.isSome) ++ rs.filter (fun r => r.2.isNone) ∧
    unpairedEsts rs = (List.range sc.ests.length).filter (fun i => !(pairedEsts rs).contains i) := by
  have hinv := matchAll_inv (mkTbl c sc) sc.ests.length sc.gts.length
  rw [getObjectResults_ok h]
  constructor
  · rw [filter_isSome_resultsOf, filter_isNone_resultsOf]; rfl
  · rw [unpairedEsts_resultsOf, pairedEsts_resultsOf, hfp]
    exact hinv.esEq

/-- In FP validation unpaired estimates are dropped: every result has a ground truth … -/
theorem fpval_all_paired {c : Cfg} {sc : Scene} {rs : List Res}
    (h : getObjectResults c sc = .ok rs) (hfp : c.fpValidation = true) :
    ∀ r ∈ rs, r.2.isSome = true := by
  rw [getObjectResults_ok h, hfp]
  intro r hr
  simp only [resultsOf, pairResults, if_true, List.append_nil, List.mem_map] at hr
  obtain ⟨p, _, rfl⟩ := hr
  rfl

/-- … and the call returns exactly the pairs of the ordinary task (errors included). -/
theorem fpval_drops_unpaired (c : Cfg) (sc : Scene) :
    getObjectResults { c with fpValidation := true } sc =
      (getObjectResults { c with fpValidation := false } sc).map
        (fun rs => rs.filter (fun r => r.2.isSome)) := by
  unfold getObjectResults
  by_cases he : sc.ests.isEmpty
  · simp [he, Except.map]
  · by_cases hg : sc.gts.isEmpty
    · simp [he, hg, Except.map, fpResults, List.filter_map, Function.comp_def, filter_const_false]
    · simp only [he, hg, tableError_fpVal, mkTbl_fpVal]
      cases tableError c sc with
      | some e => simp [Except.map]
      | none =>
        have := filter_isSome_resultsOf false (matchAll (mkTbl c sc) sc.ests.length sc.gts.length)
        simp only [resultsOf, Bool.false_eq_true, if_false, List.filter_append] at this
        simp only [Except.map, Bool.false_eq_true, if_false, if_true, List.append_nil, List.filter_append]
        rw [this]

/-- No ground truth at all: FP validation returns no result, the ordinary task one GT-less result per
estimate in input order. -/
theorem fpval_empty_gt {c : Cfg} {sc : Scene} (hg : sc.gts = []) (hfp : c.fpValidation = true) :
    getObjectResults c sc = .ok [] := by
  unfold getObjectResults
  by_cases he : sc.ests.isEmpty <;> simp [he, hg, hfp]

theorem empty_gt_all_unpaired {c : Cfg} {sc : Scene} (hg : sc.gts = []) (hfp : c.fpValidation = false) :
    getObjectResults c sc = .ok ((List.range sc.ests.length).map fun i => (i, none)) := by
  unfold getObjectResults
  by_cases he : sc.ests.isEmpty
  · have : sc.ests = [] := by simpa using he
    simp [this]
  · simp [he, hg, hfp, fpResults]

/-- No estimate: no result. -/
theorem empty_est {c : Cfg} {sc : Scene} (he : sc.ests = []) : getObjectResults c sc = .ok [] := by
  unfold getObjectResults; simp [he]

/-- Result count: one per estimate outside FP validation; at most min(#estimates, #ground truths)
pairs in any task. -/
theorem results_length {c : Cfg} {sc : Scene} {rs : List Res} (h : getObjectResults c sc = .ok rs) :
    (c.fpValidation = false → rs.length = sc.ests.length) ∧
    (rs.filter (fun r => r.2.isSome)).length ≤ min sc.ests.length sc.gts.length := by
  constructor
  · intro hfp
    have := (results_est_perm h hfp).length_eq
    simpa using this
  · have hinv := matchAll_inv (mkTbl c sc) sc.ests.length sc.gts.length
    have h1 := (hinv.permE List.nodup_range).length_eq
    have h2 := (hinv.permG List.nodup_range).length_eq
    rw [getObjectResults_ok h, filter_isSome_resultsOf]
    simp [pairResults] at h1 h2 ⊢
    omega

/-! ## the hypotheses are satisfiable: a concrete contested scene

Three estimates (car, unknown, car) and two ground truths (car in `base_link`, pedestrian in `map`),
radius 3 for cars only, center distance. Estimate 0 and 2 compete for GT 0 with equal distance 1
(first wins); estimate 1 is in another frame than GT 0; GT 1 only matches in stage 2. -/

def exCfg : Cfg :=
  { policy := .default, mode := .centerDistance, targets := some ["car", "pedestrian"],
    thresholds := some [3, 2], fpValidation := false }

def exScene : Scene :=
  { ests := [⟨"car", "base_link"⟩, ⟨"unknown", "map"⟩, ⟨"car", "base_link"⟩],
    gts := [⟨"car", "base_link"⟩, ⟨"pedestrian", "map"⟩],
    val := fun i j => if i == 1 then 1 / 2 else if j == 0 then 1 else 5 }

example : getObjectResults exCfg exScene = .ok [(0, some 0), (1, some 1), (2, none)] := by decide +kernel
example : getObjectResults { exCfg with fpValidation := true } exScene = .ok [(0, some 0), (1, some 1)] := by
  decide +kernel
example : getObjectResults { exCfg with mode := .iou2d } exScene = .error "AssertionError" := by decide +kernel
example : getObjectResults { exCfg with thresholds := some [3] } exScene = .error "IndexError" := by
  decide +kernel

/-! ## every kind of object, label family and uuid setting: the dispatch of `get_object_results`

`MatchDispatch.getObjectResultsX` is the entry point for all object kinds (3-D boxes, 2-D objects with a
ROI, ROI-less 2-D objects) x label families (Autoware / traffic light) x uuids (set or `None`) x
`uuid_matching_first`.  Objects that carry geometry are served by the geometric matcher whatever their
label family, uuids and `uuid_matching_first` are, so every statement above holds for all of them. -/
section dispatch
open PEval.MatchDispatch

/-- The geometric matcher is selected exactly when the first objects carry geometry (3-D, or 2-D with
both ROIs present); the label family plays no role. -/
theorem dispatch_geometric_iff (is2d : Bool) (e0 g0 : ObjX) :
    dispatch is2d e0 g0 = .geometric ↔ (is2d = false ∨ (e0.roiNone = false ∧ g0.roiNone = false)) := by
  unfold dispatch
  cases is2d <;> cases e0.roiNone <;> cases g0.roiNone <;> cases e0.tl <;> simp

/-- ROI-less 2-D objects go to the identity-based matchers (C11): traffic-light labels to the label/uuid
matcher, all others to the uuid matcher. -/
theorem dispatch_roiless (e0 g0 : ObjX) (h : e0.roiNone = true ∨ g0.roiNone = true) :
    dispatch true e0 g0 = if e0.tl then .tlr else .byId := by
  unfold dispatch
  rcases h with h | h <;> cases h' : e0.tl <;> simp [h]

/-- For objects with geometry the entry point IS the geometric matcher, for every label family, every
uuid assignment (set, shared, `None`) and both `uuid_matching_first` settings. -/
theorem withGeometry_eq_geometric (uf : Bool) (c : Cfg) (sx : SceneX) (h : hasGeometry sx) :
    getObjectResultsX uf c sx = getObjectResults c (toScene sx) := by
  unfold getObjectResultsX
  cases hE : sx.ests with
  | nil => simp [getObjectResults, toScene, hE]
  | cons e0 es =>
    cases hG : sx.gts with
    | nil => simp [getObjectResults, toScene, hE, hG]
    | cons g0 gs =>
      have hd : dispatch sx.is2d e0 g0 = .geometric := by
        rw [dispatch_geometric_iff]
        rcases h with h | ⟨h1, h2⟩
        · exact Or.inl h
        · exact Or.inr ⟨h1 e0 (by simp [hE]), h2 g0 (by simp [hG])⟩
      simp only [hd]

/-- Two calls that differ only in label family flags, uuids, `uuid_matching_first` (same member values,
frames and scores) return the same results when the objects carry geometry. -/
theorem geometric_independent_of_family_uuid {uf uf' : Bool} {c : Cfg} {sx sx' : SceneX}
    (h : hasGeometry sx) (h' : hasGeometry sx') (heq : toScene sx = toScene sx') :
    getObjectResultsX uf c sx = getObjectResultsX uf' c sx' := by
  rw [withGeometry_eq_geometric uf c sx h, withGeometry_eq_geometric uf' c sx' h', heq]

theorem toScene_ests_length (sx : SceneX) : (toScene sx).ests.length = sx.ests.length := by
  simp [toScene]

theorem toScene_gts_get {sx : SceneX} {j : Nat} {g : ObjX} (hg : sx.gts[j]? = some g) :
    (toScene sx).gts[j]? = some (toObj g) := by
  simp [toScene, hg]

/-- C01 for every kind/family/uuid combination with geometry: outside FP validation every estimate is in
exactly one result. -/
theorem x_results_est_perm {uf : Bool} {c : Cfg} {sx : SceneX} {rs : List Res} (hgeo : hasGeometry sx)
    (h : getObjectResultsX uf c sx = .ok rs) (hfp : c.fpValidation = false) :
    (rs.map (·.1)).Perm (List.range sx.ests.length) := by
  rw [withGeometry_eq_geometric uf c sx hgeo] at h
  simpa [toScene_ests_length] using results_est_perm h hfp

/-- … each ground truth is used at most once … -/
theorem x_results_gt_nodup {uf : Bool} {c : Cfg} {sx : SceneX} {rs : List Res} (hgeo : hasGeometry sx)
    (h : getObjectResultsX uf c sx = .ok rs) : (usedGts rs).Nodup := by
  rw [withGeometry_eq_geometric uf c sx hgeo] at h
  exact (results_gt_nodup h).1

/-- … a pair respects the maximum matchable radius configured for the ground truth's label … -/
theorem x_pair_within_radius {uf : Bool} {c : Cfg} {sx : SceneX} {rs : List Res} (hgeo : hasGeometry sx)
    (h : getObjectResultsX uf c sx = .ok rs) {i j : Nat} (hp : (i, some j) ∈ rs) {g : ObjX}
    (hg : sx.gts[j]? = some g) {r : Rat}
    (hr : labelThreshold c.targets c.thresholds g.label = .ok (some r)) :
    better c.mode.maximize (sx.val i j) r = true := by
  rw [withGeometry_eq_geometric uf c sx hgeo] at h
  exact pair_within_radius (sc := toScene sx) h hp (toScene_gts_get hg) hr

/-- … and in FP validation every result has a ground truth. -/
theorem x_fpval_all_paired {uf : Bool} {c : Cfg} {sx : SceneX} {rs : List Res} (hgeo : hasGeometry sx)
    (h : getObjectResultsX uf c sx = .ok rs) (hfp : c.fpValidation = true) :
    ∀ r ∈ rs, r.2.isSome = true := by
  rw [withGeometry_eq_geometric uf c sx hgeo] at h
  exact fpval_all_paired h hfp

/-! Satisfiable and non-trivial: two detected traffic lights with ROIs and uuids, one annotated one whose
uuid and label equal those of the FAR estimate; radius 50 px. With ROIs the near estimate is paired and
the far one kept unpaired; the same objects without ROIs are paired by label/uuid (C11's matchers). -/

def exTlCfg : Cfg :=
  { policy := .default, mode := .centerDistance, targets := some ["traffic_light"],
    thresholds := some [50], fpValidation := false }

def exTl (roiNone : Bool) : SceneX :=
  { is2d := true,
    ests := [⟨"traffic_light", true, "cam_traffic_light_near", some "b", roiNone⟩,
             ⟨"traffic_light", true, "cam_traffic_light_near", some "a", roiNone⟩],
    gts := [⟨"traffic_light", true, "cam_traffic_light_near", some "a", roiNone⟩],
    val := fun i _ => if i == 0 then 500 else 2 }

example : hasGeometry (exTl false) := Or.inr ⟨by decide, by decide⟩
example : getObjectResultsX false exTlCfg (exTl false) = .ok [(1, some 0), (0, none)] := by decide +kernel
example : getObjectResultsX true exTlCfg (exTl false) = .ok [(1, some 0), (0, none)] := by decide +kernel
example : getObjectResultsX false exTlCfg (exTl true) = .ok [(0, some 0)] := by decide +kernel
example : getObjectResultsX true exTlCfg (exTl true) = .ok [(1, some 0)] := by decide +kernel

/-- the ROI-less traffic-light scene takes the traffic-light path; with a `None` uuid it raises -/
example : dispatch true ⟨"traffic_light", true, "cam_traffic_light_near", some "b", true⟩
    ⟨"traffic_light", true, "cam_traffic_light_near", some "a", true⟩ = .tlr := by decide
example : getObjectResultsX false exTlCfg
    { exTl true with gts := [⟨"traffic_light", true, "cam_traffic_light_near", none, true⟩] } =
    .error "RuntimeError" := by decide +kernel

end dispatch

/-! ## when does the matcher return, when does it raise  (audit C01 findings 4 and 5, C02 finding 3, cross-cutting X2)

Every statement above is conditional on `getObjectResults c sc = .ok rs`.  The companions: the call returns for every
well-formed configuration; it raises exactly when both lists are non-empty and some SAME-frame cell raises while the
table is filled, and the exception is the one of the first such cell in row-major order; a cell raises exactly
`"IndexError"` (`matchable_thresholds[index]` in `get_label_threshold`: the ground truth's label is the `k`-th target label
and the threshold list has at most `k` entries) or `"AssertionError"` (`assert 0.0 <= threshold_value <= 1.0` in
`IOU2dMatching / IOU3dMatching.is_better_than`), in this order. -/
section totality

/-- **Totality.** With a threshold for every target label and, in the IoU modes, thresholds in `[0, 1]` (or without
thresholds / target labels at all) the matcher returns, for all lists and all scores. -/
theorem total_of_wellformed {c : Cfg} (hwf : WFCfg c) (sc : Scene) : ∃ rs, getObjectResults c sc = .ok rs :=
  getObjectResults_total hwf sc

theorem wellformed_of_no_thresholds {c : Cfg} (h : c.thresholds = none ∨ c.targets = none) : WFCfg c :=
  wfCfg_of_no_thresholds h

/-- The call raises exactly when both lists are non-empty and the table construction raises (its exception). -/
theorem raises_iff {c : Cfg} {sc : Scene} {err : Err} :
    getObjectResults c sc = .error err ↔ sc.ests ≠ [] ∧ sc.gts ≠ [] ∧ tableError c sc = some err :=
  getObjectResults_error_iff

/-- … and returns exactly when a list is empty or every cell of the table is defined. -/
theorem returns_iff {c : Cfg} {sc : Scene} :
    (∃ rs, getObjectResults c sc = .ok rs) ↔
      sc.ests = [] ∨ sc.gts = [] ∨
        ∀ i j, i < sc.ests.length → j < sc.gts.length → ∃ x, cellAt c sc i j = .ok x := by
  rw [getObjectResults_ok_iff, tableError_eq_none_iff]

/-- The exception is that of the FIRST failing cell in row-major order (`for i … for j …`). -/
theorem raises_first_failing_cell {c : Cfg} {sc : Scene} {err : Err} :
    tableError c sc = some err ↔
      ∃ i j, i < sc.ests.length ∧ j < sc.gts.length ∧ cellAt c sc i j = .error err ∧
        ∀ i' j', i' < sc.ests.length → j' < sc.gts.length → (i' < i ∨ (i' = i ∧ j' < j)) →
          ∃ x, cellAt c sc i' j' = .ok x :=
  tableError_eq_some_iff

/-- One cell raises iff the two objects are in the same frame and the threshold lookup for the GROUND TRUTH's label
fails, or it succeeds with a threshold on which the IoU range assertion fails. -/
theorem cell_raises_iff {c : Cfg} {e g : Obj} {v : Rat} {err : Err} :
    cell c e g v = .error err ↔
      e.frame = g.frame ∧
        ((err = "IndexError" ∧ ∃ T H k, c.targets = some T ∧ c.thresholds = some H ∧
            T.findIdx? (· == g.label) = some k ∧ H.length ≤ k) ∨
          ∃ r, labelThreshold c.targets c.thresholds g.label = .ok (some r) ∧
            err = "AssertionError" ∧ c.mode.maximize = true ∧ ¬ (0 ≤ r ∧ r ≤ 1)) := by
  rw [cell_error_iff, labelThreshold_error_iff]
  constructor
  · rintro ⟨hf, h | ⟨r, hl, hb⟩⟩
    · exact ⟨hf, Or.inl h⟩
    · exact ⟨hf, Or.inr ⟨r, hl, isBetterThan_error_iff.1 hb⟩⟩
  · rintro ⟨hf, h | ⟨r, hl, hb⟩⟩
    · exact ⟨hf, Or.inl h⟩
    · exact ⟨hf, Or.inr ⟨r, hl, isBetterThan_error_iff.2 hb⟩⟩

/-- No other exception kind leaves the geometric matcher. -/
theorem error_kinds {c : Cfg} {sc : Scene} {err : Err} (h : getObjectResults c sc = .error err) :
    err = "IndexError" ∨ err = "AssertionError" := by
  obtain ⟨_, _, ht⟩ := getObjectResults_error_iff.1 h
  obtain ⟨i, j, _, _, hc, _⟩ := tableError_eq_some_iff.1 ht
  exact cellAt_error_kind hc

/-- When the call returns, `mkTbl` IS the table the code built: no cell of it is a totalised error (finding 5: the
`none / false` that `mkTbl` puts for an erroring cell never occurs in a successful call). -/
theorem table_is_code_table_of_ok {c : Cfg} {sc : Scene} {rs : List Res} (h : getObjectResults c sc = .ok rs)
    (he : sc.ests ≠ []) (hg : sc.gts ≠ []) {i j : Nat} (hi : i < sc.ests.length) (hj : j < sc.gts.length) :
    cellAt c sc i j = .ok ⟨(mkTbl c sc).score i j, (mkTbl c sc).valid i j⟩ := by
  have ht : tableError c sc = none := by
    rcases getObjectResults_ok_iff.1 ⟨rs, h⟩ with h' | h' | h'
    · exact absurd h' he
    · exact absurd h' hg
    · exact h'
  obtain ⟨x, hx⟩ := tableError_none ht hi hj
  simp [mkTbl, hx]

/-- totality for every kind of object that carries geometry, every label family and uuid setting -/
theorem x_total_of_wellformed {uf : Bool} {c : Cfg} (hwf : WFCfg c) {sx : MatchDispatch.SceneX}
    (hgeo : MatchDispatch.hasGeometry sx) : ∃ rs, MatchDispatch.getObjectResultsX uf c sx = .ok rs := by
  rw [withGeometry_eq_geometric uf c sx hgeo]
  exact getObjectResults_total hwf _

/-- `exCfg` is well-formed (two target labels, two radii, a distance mode) … -/
example : WFCfg exCfg := by
  intro T H hT hH
  cases hT; cases hH
  exact ⟨by decide, fun h => absurd h (by decide)⟩

/-- … its two broken variants above are not (the examples after `exScene` show the two exceptions) -/
example : ¬ WFCfg { exCfg with thresholds := some [3] } := fun h => absurd (h _ _ rfl rfl).1 (by decide)
example : ¬ WFCfg { exCfg with mode := .iou2d } := fun h =>
  absurd ((h _ _ rfl rfl).2 rfl 3 (by decide)).2 (by decide)

/-- the traffic-light path of the entry point (ROI-less 2-D objects with traffic-light labels): returns when every uuid
is set … (the matcher itself is C11's subject: `C11.tlr_total`) -/
theorem x_tlr_total {uf : Bool} {c : Cfg} {sx : MatchDispatch.SceneX} {e0 g0 : MatchDispatch.ObjX}
    {es gs : List MatchDispatch.ObjX} (hE : sx.ests = e0 :: es) (hG : sx.gts = g0 :: gs)
    (hd : MatchDispatch.dispatch sx.is2d e0 g0 = .tlr) (hn : ∀ o ∈ sx.ests ++ sx.gts, o.uuid ≠ none) :
    ∃ rs, MatchDispatch.getObjectResultsX uf c sx = .ok rs :=
  MatchDispatch.getObjectResultsX_tlr_total hE hG hd hn

/-- … and raises (`RuntimeError("uuid of estimation and ground truth must be set …")`) when one is `None` -/
theorem x_tlr_null_uuid_raises {uf : Bool} {c : Cfg} {sx : MatchDispatch.SceneX} {e0 g0 : MatchDispatch.ObjX}
    {es gs : List MatchDispatch.ObjX} (hE : sx.ests = e0 :: es) (hG : sx.gts = g0 :: gs)
    (hd : MatchDispatch.dispatch sx.is2d e0 g0 = .tlr) (hnull : ∃ o ∈ sx.ests ++ sx.gts, o.uuid = none) :
    ∃ x, MatchDispatch.getObjectResultsX uf c sx = .error x :=
  MatchDispatch.getObjectResultsX_tlr_null_uuid_error hE hG hd hnull

end totality

/-! ## lists the dispatch does not look at: objects without the geometry the mode reads  (audit C01 finding 2)

The dispatch reads only the FIRST estimate and the FIRST ground truth.  `MatchDispatch.getObjectResultsXE` adds what the
code does for the rest of the lists: on the geometric path the constructor of the matching method raises for a
same-frame pair that lacks what the mode reads (a later 2-D object without ROI: `AttributeError` for CENTERDISTANCE,
`RuntimeError` for IOU2D; any 2-D object with PLANEDISTANCE / IOU3D: `AttributeError`), after the threshold lookup and
before the IoU range assertion.  Where every same-frame pair is readable — in particular for `hasGeometry` scenes with a
2-D mode, and for all 3-D scenes — it IS `getObjectResultsX`, so all statements above hold for it; elsewhere it raises the
exception of the first failing cell.  (Observed on the code by `/tmp/x/WL8_scratch/probe1.py`; the harness does not
generate such lists, see ASSUMPTIONS of `harness/props/c01.py`.) -/
section dispatchErrors
open PEval.MatchDispatch

/-- where every same-frame pair is readable by the mode, the entry point with the constructor exits is the one above -/
theorem xe_eq_x_of_readable {uf : Bool} {c : Cfg} {sx : SceneX} (h : modeReadable c sx) :
    getObjectResultsXE uf c sx = getObjectResultsX uf c sx :=
  getObjectResultsXE_eq_X h

/-- 3-D boxes with any mode, and 2-D objects that all carry a ROI with a 2-D mode, are readable -/
theorem xe_readable_of_geometry {c : Cfg} {sx : SceneX} (hgeo : hasGeometry sx)
    (hmode : sx.is2d = true → c.mode = .centerDistance ∨ c.mode = .iou2d) : modeReadable c sx :=
  modeReadable_of_geometry hgeo hmode

/-- which exception the constructor of the matching method raises, exactly -/
theorem xe_constructor_raises_iff {is2d : Bool} {m : Mode} {e g : ObjX} {err : Err} :
    valueError is2d m e g = some err ↔
      is2d = true ∧
        ((err = "AttributeError" ∧ (m = .planeDistance ∨ m = .iou3d)) ∨
          (err = "AttributeError" ∧ m = .centerDistance ∧ (e.roiNone = true ∨ g.roiNone = true)) ∨
          (err = "RuntimeError" ∧ m = .iou2d ∧ (e.roiNone = true ∨ g.roiNone = true))) :=
  valueError_eq_some_iff

/-- one cell raises iff same frame and, in this order: threshold lookup, constructor, IoU range assertion -/
theorem xe_cell_raises_iff {c : Cfg} {is2d : Bool} {e g : ObjX} {v : Rat} {err : Err} :
    cellXE c is2d e g v = .error err ↔
      e.frame = g.frame ∧
        (labelThreshold c.targets c.thresholds g.label = .error err ∨
          ((∃ thr, labelThreshold c.targets c.thresholds g.label = .ok thr) ∧
            valueError is2d c.mode e g = some err) ∨
          (valueError is2d c.mode e g = none ∧
            ∃ r, labelThreshold c.targets c.thresholds g.label = .ok (some r) ∧
              isBetterThan c.mode v r = .error err)) :=
  cellXE_error_iff

/-- on the geometric path the call raises exactly the exception of the first failing cell in row-major order -/
theorem xe_geometric_raises_iff {uf : Bool} {c : Cfg} {sx : SceneX} {e0 g0 : ObjX} {es gs : List ObjX}
    (hE : sx.ests = e0 :: es) (hG : sx.gts = g0 :: gs) (hd : dispatch sx.is2d e0 g0 = .geometric) {err : Err} :
    getObjectResultsXE uf c sx = .error err ↔
      ∃ i j, i < sx.ests.length ∧ j < sx.gts.length ∧ cellAtXE c sx i j = .error err ∧
        ∀ i' j', i' < sx.ests.length → j' < sx.gts.length → (i' < i ∨ (i' = i ∧ j' < j)) →
          ∃ x, cellAtXE c sx i' j' = .ok x := by
  rw [getObjectResultsXE_geometric_error_iff hE hG hd, tableErrorXE_eq_some_iff]

/-! the probe scenes: two 2-D estimates (the second without ROI, in camera `cam2`) and one ground truth with ROI -/

def exMixed (cam2 : String) : SceneX :=
  { is2d := true,
    ests := [⟨"car", false, "cam_front", some "a", false⟩, ⟨"car", false, cam2, some "b", true⟩],
    gts := [⟨"car", false, "cam_front", some "a", false⟩],
    val := fun _ _ => 0 }

def exMixedCfg (m : Mode) : Cfg :=
  { policy := .default, mode := m, targets := none, thresholds := none, fpValidation := false }

example : getObjectResultsXE false (exMixedCfg .centerDistance) (exMixed "cam_front") = .error "AttributeError" := by
  decide +kernel
example : getObjectResultsXE false (exMixedCfg .iou2d) (exMixed "cam_front") = .error "RuntimeError" := by
  decide +kernel
example : getObjectResultsXE false (exMixedCfg .iou3d) (exMixed "cam_front") = .error "AttributeError" := by
  decide +kernel
example : getObjectResultsXE false (exMixedCfg .planeDistance) (exMixed "cam_back") = .error "AttributeError" := by
  decide +kernel
/-- the ROI-less object is in another camera: its pair is never built, the call returns -/
example : getObjectResultsXE false (exMixedCfg .centerDistance) (exMixed "cam_back") =
    .ok [(0, some 0), (1, none)] := by decide +kernel
/-- the threshold lookup comes first -/
example : getObjectResultsXE false
    { exMixedCfg .iou3d with targets := some ["car"], thresholds := some [] } (exMixed "cam_front") =
    .error "IndexError" := by decide +kernel
/-- `modeReadable` is needed: without it the plain dispatch model returns where the code raises -/
example : getObjectResultsX false (exMixedCfg .centerDistance) (exMixed "cam_front") = .ok [(0, some 0), (1, none)] ∧
    ¬ modeReadable (exMixedCfg .centerDistance) (exMixed "cam_front") := by
  refine ⟨by decide +kernel, fun h => ?_⟩
  have := h ⟨"car", false, "cam_front", some "b", true⟩ (by decide) ⟨"car", false, "cam_front", some "a", false⟩
    (by decide) rfl
  exact absurd this (by decide)

/-- non-vacuity: the ROI-carrying traffic-light scene is readable (and its configuration well-formed), so the extended
entry point equals the plain one and returns -/
example : modeReadable exTlCfg (exTl false) :=
  xe_readable_of_geometry (Or.inr ⟨by decide, by decide⟩) (fun _ => Or.inl rfl)

example : WFCfg exTlCfg := by
  intro T H hT hH
  cases hT; cases hH
  exact ⟨by decide, fun h => absurd h (by decide)⟩

/-- non-vacuity of `xe_geometric_raises_iff`: the failing cell of the mixed scene is (1, 0) -/
example : cellAtXE (exMixedCfg .iou2d) (exMixed "cam_front") 1 0 = .error "RuntimeError" ∧
    dispatch (exMixed "cam_front").is2d ⟨"car", false, "cam_front", some "a", false⟩
      ⟨"car", false, "cam_front", some "a", false⟩ = .geometric := by decide +kernel

end dispatchErrors

/-! ## labels are enum MEMBERS: the one-family assumption made explicit  (audit C01 finding 8)

`Matching.Obj.label` is the member VALUE.  `MatchDispatch.isMatchableF / labelThresholdF / cellF` carry the label family
and follow `Label.__eq__` (member equality), `is_fp / is_unknown` (`CommonLabel`: both families), `label in target_labels`.
Under the assumption of the model header (one family per call) they coincide with the value-level functions all
theorems are about; for mixed families they differ (examples; checked on the code by `/tmp/x/WL8_scratch/probe2.py`). -/
section family
open PEval.MatchDispatch

theorem family_isMatchable_eq {p : Policy} {e g : ObjX} (h : e.tl = g.tl) :
    isMatchableF p e g = isMatchable p (toObj e) (toObj g) :=
  isMatchableF_of_same_family h

/-- with estimate, ground truth and target labels in one family the member-level cell is the cell of the model -/
theorem family_cell_eq {c : Cfg} {tsF : Option (List (Bool × String))} {e g : ObjX} {v : Rat}
    (hts : c.targets = tsF.map (fun l => l.map (·.2))) (hfam : e.tl = g.tl)
    (htf : ∀ l, tsF = some l → ∀ t ∈ l, t.1 = g.tl) :
    cellF c.policy c.mode tsF c.thresholds e g v = cell c (toObj e) (toObj g) v :=
  cellF_of_same_family hts hfam htf

/-- mixed families: `AutowareLabel.UNKNOWN` and `TrafficLightLabel.UNKNOWN` are different members (DEFAULT policy: not
compatible) although their values are equal (the value-level rule says compatible); FP and the ALLOW_UNKNOWN escape go
through `CommonLabel` and ignore the family -/
example : isMatchableF .default ⟨"unknown", false, "cam_front", none, false⟩ ⟨"unknown", true, "cam_front", none, false⟩ = false ∧
    isMatchable .default ⟨"unknown", "cam_front"⟩ ⟨"unknown", "cam_front"⟩ = true ∧
    isMatchableF .default ⟨"car", false, "cam_front", none, false⟩ ⟨"false_positive", true, "cam_front", none, false⟩ = true ∧
    isMatchableF .allowUnknown ⟨"unknown", true, "cam_front", none, false⟩ ⟨"car", false, "cam_front", none, false⟩ = true := by
  decide

/-- `label in target_labels` is member equality too -/
example : labelThresholdF (some [(false, "unknown")]) (some [1]) ⟨"unknown", true, "cam_front", none, false⟩ = .ok none ∧
    labelThresholdF (some [(true, "unknown"), (false, "unknown")]) (some [1, 2])
      ⟨"unknown", false, "cam_front", none, false⟩ = .ok (some 2) := by decide +kernel

/-- non-vacuity of `family_cell_eq`: a traffic-light estimate / ground truth and traffic-light target labels -/
example : cellF exTlCfg.policy exTlCfg.mode (some [(true, "traffic_light")]) exTlCfg.thresholds
    ⟨"traffic_light", true, "cam_traffic_light_near", some "a", false⟩
    ⟨"traffic_light", true, "cam_traffic_light_near", some "a", false⟩ 2 =
    cell exTlCfg ⟨"traffic_light", "cam_traffic_light_near"⟩ ⟨"traffic_light", "cam_traffic_light_near"⟩ 2 :=
  family_cell_eq rfl rfl (by intro l hl t ht; cases hl; simp at ht; rw [ht])

end family

/-! ## "the caller's lists are left untouched"  (audit C01 finding 1)

`MatchHeap.getObjectResultsH` is `get_object_results` with its list handling: the caller's two `list` objects are two
addresses `rE`, `rG` of a store of lists, `estimated_objects.copy()` / `ground_truth_objects.copy()` allocate two new
lists, and the loops `pop` from those at the position of the optimum in the remaining table.  A function that popped
from the caller's lists IS expressible in this model (`getObjectResultsH_noCopy`, below), so the statements say something.
The corresponding observation on the real code is `untouched` (and `frame_gt_untouched` through the manager) in
`harness/props/c01.py`: the (identity, label, frame, geometry, uuid) snapshot of both lists before and after the call. -/
section heap
open PEval.MatchHeap

theorem runH_of_ests_nil {copy : Bool} {c : Cfg} {w : World} {h : Heap} {rE rG : LRef} (he : h.read rE = []) :
    runH copy c w h rE rG = (.ok [], h) := by
  simp [runH, he]

theorem runH_heap_of_gts_nil {copy : Bool} {c : Cfg} {w : World} {h : Heap} {rE rG : LRef} (hg : h.read rG = []) :
    (runH copy c w h rE rG).2 = h := by
  unfold runH
  by_cases he : h.read rE = [] <;> simp [hg, he]

/-- The call changes NO list that existed before it (every address of the heap reads the same afterwards); what it
writes are the two lists it created itself. -/
theorem existing_lists_untouched (c : Cfg) (w : World) (h : Heap) (rE rG : LRef) :
    ∀ r : Nat, r < h.cells.length → (getObjectResultsH c w h rE rG).2.read r = h.read r :=
  runH_frame c w h rE rG

/-- **The caller's lists are left untouched**, for every configuration, every store, any two list references (also one
list handed in as both arguments), in both tasks, whether the call returns or raises. -/
theorem caller_lists_untouched (c : Cfg) (w : World) (h : Heap) (rE rG : LRef) :
    (getObjectResultsH c w h rE rG).2.read rE = h.read rE ∧ (getObjectResultsH c w h rE rG).2.read rG = h.read rG := by
  constructor
  · by_cases hr : rE < h.cells.length
    · exact runH_frame c w h rE rG rE hr
    · have : h.read rE = [] := read_of_ge (Nat.le_of_not_lt hr)
      unfold getObjectResultsH
      rw [runH_of_ests_nil this]
  · by_cases hr : rG < h.cells.length
    · exact runH_frame c w h rE rG rG hr
    · have : h.read rG = [] := read_of_ge (Nat.le_of_not_lt hr)
      unfold getObjectResultsH
      rw [runH_heap_of_gts_nil this]

/-- **Refinement**: the results (or the exception) of the heap-level call are those of the index-level model
`getObjectResults` on the scene read from the two lists, every index standing for the object at that position of the
caller's list.  All theorems of this file therefore transfer to the objects. -/
theorem heap_results_are_input_objects (c : Cfg) (w : World) (h : Heap) (rE rG : LRef) :
    (getObjectResultsH c w h rE rG).1 =
      (getObjectResults c (sceneOf w (h.read rE) (h.read rG))).map
        (fun rs => rs.map (deref (h.read rE) (h.read rG))) :=
  runH_refines c w h rE rG

theorem heap_ok_inv {c : Cfg} {w : World} {h : Heap} {rE rG : LRef} {rsH : List RRes}
    (hr : (getObjectResultsH c w h rE rG).1 = .ok rsH) :
    ∃ rs, getObjectResults c (sceneOf w (h.read rE) (h.read rG)) = .ok rs ∧
      rsH = rs.map (deref (h.read rE) (h.read rG)) := by
  rw [heap_results_are_input_objects] at hr
  cases hg : getObjectResults c (sceneOf w (h.read rE) (h.read rG)) with
  | error e => simp [hg, Except.map] at hr
  | ok rs =>
    simp only [hg, Except.map, Except.ok.injEq] at hr
    exact ⟨rs, rfl, hr.symm⟩

theorem getD_mem_of_lt {l : List ORef} {i : Nat} (hi : i < l.length) : l.getD i 0 ∈ l := by
  rw [List.getD_eq_getElem?_getD, List.getElem?_eq_getElem hi]
  exact List.getElem_mem hi

/-- transfer, 1: every object of a result is an object of the caller's lists (nothing foreign, by identity) -/
theorem heap_result_objects_in_lists {c : Cfg} {w : World} {h : Heap} {rE rG : LRef} {rsH : List RRes}
    (hr : (getObjectResultsH c w h rE rG).1 = .ok rsH) :
    ∀ r ∈ rsH, r.1 ∈ h.read rE ∧ ∀ go, r.2 = some go → go ∈ h.read rG := by
  obtain ⟨rs, hok, rfl⟩ := heap_ok_inv hr
  intro r hr'
  obtain ⟨x, hx, rfl⟩ := List.mem_map.1 hr'
  have h1 := (results_est_nodup hok).2 x hx
  rw [sceneOf_ests_length] at h1
  refine ⟨getD_mem_of_lt h1, ?_⟩
  intro go hgo
  obtain ⟨i, oj⟩ := x
  cases oj with
  | none => simp [deref] at hgo
  | some j =>
    simp only [deref, Option.map_some, Option.some.injEq] at hgo
    subst hgo
    have : j ∈ usedGts rs := by
      unfold usedGts; rw [List.mem_filterMap]; exact ⟨(i, some j), hx, rfl⟩
    have h2 := (results_gt_nodup hok).2 j this
    rw [sceneOf_gts_length] at h2
    exact getD_mem_of_lt h2

/-- transfer, 2: outside FP validation the estimate objects of the results are a rearrangement of the caller's estimate
list: every input estimate OBJECT in exactly one result -/
theorem heap_results_est_perm {c : Cfg} {w : World} {h : Heap} {rE rG : LRef} {rsH : List RRes}
    (hr : (getObjectResultsH c w h rE rG).1 = .ok rsH) (hfp : c.fpValidation = false) :
    (rsH.map (·.1)).Perm (h.read rE) := by
  obtain ⟨rs, hok, rfl⟩ := heap_ok_inv hr
  have hp := results_est_perm hok hfp
  rw [sceneOf_ests_length] at hp
  have := hp.map (fun i => (h.read rE).getD i 0)
  rw [map_getD_range] at this
  simpa [deref, Function.comp_def] using this

/-! the model run on a concrete store: list 0 = the caller's estimates (objects 10, 11, 12), list 1 = the caller's ground
truths (objects 20, 21); the scene is `exScene` above -/

def exWorld : World :=
  { obj := fun o => if o < 20 then exScene.ests.getD (o - 10) ⟨"", ""⟩ else exScene.gts.getD (o - 20) ⟨"", ""⟩,
    val := fun a b => exScene.val (a - 10) (b - 20) }

def exHeap : Heap := ⟨[[10, 11, 12], [20, 21]]⟩

/-- the code: results refer to the caller's objects, the two working lists are new cells 2 and 3, cells 0 and 1 are
as before -/
example : getObjectResultsH exCfg exWorld exHeap 0 1 =
    (.ok [(10, some 20), (11, some 21), (12, none)], ⟨[[10, 11, 12], [20, 21], [12], []]⟩) := by decide +kernel

/-- the DEFECTIVE variant without `.copy()` returns the same results but has emptied the caller's lists … -/
example : getObjectResultsH_noCopy exCfg exWorld exHeap 0 1 =
    (.ok [(10, some 20), (11, some 21), (12, none)], ⟨[[12], []]⟩) := by decide +kernel

/-- … so `caller_lists_untouched` FAILS for it: the theorem separates the code from the defect. -/
example : ¬ ((getObjectResultsH_noCopy exCfg exWorld exHeap 0 1).2.read 0 = exHeap.read 0 ∧
    (getObjectResultsH_noCopy exCfg exWorld exHeap 0 1).2.read 1 = exHeap.read 1) := by decide +kernel

end heap

end PEval.C01
