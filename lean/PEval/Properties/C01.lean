import PEval.Lemmas.MatchingResults
import PEval.Properties.KernelMatchable
import PEval.Properties.KernelBetter
import PEval.Properties.KernelCell
/-!
# C01 — matching is one-to-one and accounts for every estimate

All statements are about `PEval.Matching.getObjectResults` (model of `get_object_results` for objects
carrying geometry) and hold for every configuration (three label policies, four modes, any target /
threshold lists, both tasks), every list of estimates and ground truths of any length and **every**
scoring function `Scene.val` (so for all four matching modes and any ties). A result is
`(estimate index, some ground-truth index | none)`; indices are positions in the caller's lists.
-/
namespace PEval.C01
open PEval PEval.Matching

/-- Outside FP validation the estimates of the results are a rearrangement of the input estimates:
each input estimate exactly once, nothing foreign. -/
theorem results_est_perm {c : Cfg} {sc : Scene} {rs : List Res}
    (h : getObjectResults c sc = .ok rs) (hfp : c.fpValidation = false) :
    (rs.map (·.1)).Perm (List.range sc.ests.length) := by
  rw [getObjectResults_ok h, resultsOf_map_fst, hfp]
  exact (matchAll_inv _ _ _).permE List.nodup_range

/-- In both tasks no estimate appears twice and every estimate of a result is an input estimate. -/
theorem results_est_nodup {c : Cfg} {sc : Scene} {rs : List Res} (h : getObjectResults c sc = .ok rs) :
    (rs.map (·.1)).Nodup ∧ ∀ r ∈ rs, r.1 < sc.ests.length := by
  have hinv := matchAll_inv (mkTbl c sc) sc.ests.length sc.gts.length
  have hperm := hinv.permE List.nodup_range
  have hnd := hperm.nodup_iff.2 List.nodup_range
  rw [getObjectResults_ok h]
  constructor
  · rw [resultsOf_map_fst]
    cases c.fpValidation
    · exact hnd
    · simpa using (List.nodup_append.1 hnd).1
  · intro r hr
    have hm : r.1 ∈ (resultsOf c.fpValidation _).map (·.1) := List.mem_map.2 ⟨r, hr, rfl⟩
    rw [resultsOf_map_fst] at hm
    have : r.1 ∈ (matchAll (mkTbl c sc) sc.ests.length sc.gts.length).pairs.map (·.1) ++
        (matchAll (mkTbl c sc) sc.ests.length sc.gts.length).es := by
      cases hb : c.fpValidation <;> simp only [hb] at hm
      · exact hm
      · exact List.mem_append.2 (Or.inl (by simpa using hm))
    exact List.mem_range.1 (hperm.mem_iff.1 this)

/-- Each ground truth is used by at most one result, and only input ground truths are used. -/
theorem results_gt_nodup {c : Cfg} {sc : Scene} {rs : List Res} (h : getObjectResults c sc = .ok rs) :
    (usedGts rs).Nodup ∧ ∀ j ∈ usedGts rs, j < sc.gts.length := by
  have hinv := matchAll_inv (mkTbl c sc) sc.ests.length sc.gts.length
  rw [getObjectResults_ok h, usedGts_resultsOf]
  refine ⟨hinv.pG, ?_⟩
  intro j hj
  obtain ⟨p, hp, rfl⟩ := List.mem_map.1 hj
  exact List.mem_range.1 (hinv.subG p hp)

/-- Every pair of the results has a score in the table built by `_get_score_table`: the two objects
exist, are in the same frame, pass the matchable-threshold gate of the ground truth's label, and the
score is the matching value of the pair. -/
theorem pair_has_score {c : Cfg} {sc : Scene} {rs : List Res} (h : getObjectResults c sc = .ok rs)
    {i j : Nat} (hp : (i, some j) ∈ rs) :
    ∃ e g, sc.ests[i]? = some e ∧ sc.gts[j]? = some g ∧
      cell c e g (sc.val i j) = .ok ⟨some (sc.val i j), isMatchable c.policy e g⟩ := by
  rw [getObjectResults_ok h, mem_resultsOf_some] at hp
  obtain ⟨s, hs⟩ := (matchAll_inv (mkTbl c sc) sc.ests.length sc.gts.length).sc (i, j) hp
  obtain ⟨e, g, he, hg, _, hf, hw, _⟩ := mkTbl_score_some hs
  exact ⟨e, g, he, hg, cell_of_within hf hw⟩

/-- Only objects expressed in the same frame are paired. -/
theorem pair_same_frame {c : Cfg} {sc : Scene} {rs : List Res} (h : getObjectResults c sc = .ok rs)
    {i j : Nat} (hp : (i, some j) ∈ rs) :
    ∃ e g, sc.ests[i]? = some e ∧ sc.gts[j]? = some g ∧ e.frame = g.frame := by
  obtain ⟨e, g, he, hg, hc⟩ := pair_has_score h hp
  exact ⟨e, g, he, hg, (cell_score_some hc rfl).2.1⟩

/-- When a threshold (maximum matchable radius) is configured for the **ground truth's** label, the
paired objects are strictly better than it (distance modes: closer than the radius). -/
theorem pair_within_radius {c : Cfg} {sc : Scene} {rs : List Res} (h : getObjectResults c sc = .ok rs)
    {i j : Nat} (hp : (i, some j) ∈ rs) {g : Obj} (hg : sc.gts[j]? = some g) {r : Rat}
    (hr : labelThreshold c.targets c.thresholds g.label = .ok (some r)) :
    better c.mode.maximize (sc.val i j) r = true := by
  obtain ⟨e, g', _, hg', hc⟩ := pair_has_score h hp
  rw [hg] at hg'; cases hg'
  obtain ⟨thr, hthr, hall⟩ := (cell_score_some hc rfl).2.2.1
  rw [hr] at hthr; cases hthr
  exact isBetterThan_ok_true (hall r rfl)

/-- In the distance modes this reads: the matching distance is smaller than the radius. -/
theorem pair_closer_than_radius {c : Cfg} {sc : Scene} {rs : List Res} (h : getObjectResults c sc = .ok rs)
    (hm : c.mode.maximize = false)
    {i j : Nat} (hp : (i, some j) ∈ rs) {g : Obj} (hg : sc.gts[j]? = some g) {r : Rat}
    (hr : labelThreshold c.targets c.thresholds g.label = .ok (some r)) :
    sc.val i j < r := by
  have := pair_within_radius h hp hg hr
  simpa [better, hm] using this

/-- The table has a score exactly for the same-frame pairs within the threshold (what "matchable"
means in C01/C02); `none` stands for the NaN entries. -/
theorem table_score_iff {c : Cfg} {sc : Scene} {i j : Nat} {e g : Obj}
    (he : sc.ests[i]? = some e) (hg : sc.gts[j]? = some g) :
    (∃ s, (mkTbl c sc).score i j = some s) ↔ e.frame = g.frame ∧ withinThreshold c g (sc.val i j) := by
  constructor
  · rintro ⟨s, hs⟩
    obtain ⟨e', g', he', hg', _, hf, hw, _⟩ := mkTbl_score_some hs
    rw [he] at he'; rw [hg] at hg'; cases he'; cases hg'
    exact ⟨hf, hw⟩
  · rintro ⟨hf, hw⟩
    exact ⟨_, (mkTbl_score_of_within he hg hf hw).1⟩

/-- Outside FP validation the results without ground truth come after all pairs and are exactly the
unpaired estimates, in input order. -/
theorem unpaired_are_leftover {c : Cfg} {sc : Scene} {rs : List Res}
    (h : getObjectResults c sc = .ok rs) (hfp : c.fpValidation = false) :
    rs = rs.filter (fun r => r.2.isSome) ++ rs.filter (fun r => r.2.isNone) ∧
    unpairedEsts rs = (List.range sc.ests.length).filter (fun i => !(pairedEsts rs).contains i) := by
  have hinv := matchAll_inv (mkTbl c sc) sc.ests.length sc.gts.length
  rw [getObjectResults_ok h]
  constructor
  · rw [filter_isSome_resultsOf, filter_isNone_resultsOf]; rfl
  · rw [unpairedEsts_resultsOf, pairedEsts_resultsOf, hfp]
    exact hinv.esEq

/-- In FP validation unpaired estimates are dropped: every result has a ground truth … -/
theorem fpval_all_paired {c : Cfg} {sc : Scene} {rs : List Res}
    (h : getObjectResults c sc = .ok rs) (hfp : c.fpValidation = true) :
    ∀ r ∈ rs, r.2.isSome = true := by
  rw [getObjectResults_ok h, hfp]
  intro r hr
  simp only [resultsOf, pairResults, if_true, List.append_nil, List.mem_map] at hr
  obtain ⟨p, _, rfl⟩ := hr
  rfl

/-- … and the call returns exactly the pairs of the ordinary task (errors included). -/
theorem fpval_drops_unpaired (c : Cfg) (sc : Scene) :
    getObjectResults { c with fpValidation := true } sc =
      (getObjectResults { c with fpValidation := false } sc).map
        (fun rs => rs.filter (fun r => r.2.isSome)) := by
  unfold getObjectResults
  by_cases he : sc.ests.isEmpty
  · simp [he, Except.map]
  · by_cases hg : sc.gts.isEmpty
    · simp [he, hg, Except.map, fpResults, List.filter_map, Function.comp_def, filter_const_false]
    · simp only [he, hg, tableError_fpVal, mkTbl_fpVal]
      cases tableError c sc with
      | some e => simp [Except.map]
      | none =>
        have := filter_isSome_resultsOf false (matchAll (mkTbl c sc) sc.ests.length sc.gts.length)
        simp only [resultsOf, Bool.false_eq_true, if_false, List.filter_append] at this
        simp only [Except.map, Bool.false_eq_true, if_false, if_true, List.append_nil, List.filter_append]
        rw [this]

/-- No ground truth at all: FP validation returns no result, the ordinary task one GT-less result per
estimate in input order. -/
theorem fpval_empty_gt {c : Cfg} {sc : Scene} (hg : sc.gts = []) (hfp : c.fpValidation = true) :
    getObjectResults c sc = .ok [] := by
  unfold getObjectResults
  by_cases he : sc.ests.isEmpty <;> simp [he, hg, hfp]

theorem empty_gt_all_unpaired {c : Cfg} {sc : Scene} (hg : sc.gts = []) (hfp : c.fpValidation = false) :
    getObjectResults c sc = .ok ((List.range sc.ests.length).map fun i => (i, none)) := by
  unfold getObjectResults
  by_cases he : sc.ests.isEmpty
  · have : sc.ests = [] := by simpa using he
    simp [this]
  · simp [he, hg, hfp, fpResults]

/-- No estimate: no result. -/
theorem empty_est {c : Cfg} {sc : Scene} (he : sc.ests = []) : getObjectResults c sc = .ok [] := by
  unfold getObjectResults; simp [he]

/-- Result count: one per estimate outside FP validation; at most min(#estimates, #ground truths)
pairs in any task. -/
theorem results_length {c : Cfg} {sc : Scene} {rs : List Res} (h : getObjectResults c sc = .ok rs) :
    (c.fpValidation = false → rs.length = sc.ests.length) ∧
    (rs.filter (fun r => r.2.isSome)).length ≤ min sc.ests.length sc.gts.length := by
  constructor
  · intro hfp
    have := (results_est_perm h hfp).length_eq
    simpa using this
  · have hinv := matchAll_inv (mkTbl c sc) sc.ests.length sc.gts.length
    have h1 := (hinv.permE List.nodup_range).length_eq
    have h2 := (hinv.permG List.nodup_range).length_eq
    rw [getObjectResults_ok h, filter_isSome_resultsOf]
    simp [pairResults] at h1 h2 ⊢
    omega

/-! ## the hypotheses are satisfiable: a concrete contested scene

Three estimates (car, unknown, car) and two ground truths (car in `base_link`, pedestrian in `map`),
radius 3 for cars only, center distance. Estimate 0 and 2 compete for GT 0 with equal distance 1
(first wins); estimate 1 is in another frame than GT 0; GT 1 only matches in stage 2. -/

def exCfg : Cfg :=
  { policy := .default, mode := .centerDistance, targets := some ["car", "pedestrian"],
    thresholds := some [3, 2], fpValidation := false }

def exScene : Scene :=
  { ests := [⟨"car", "base_link"⟩, ⟨"unknown", "map"⟩, ⟨"car", "base_link"⟩],
    gts := [⟨"car", "base_link"⟩, ⟨"pedestrian", "map"⟩],
    val := fun i j => if i == 1 then 1 / 2 else if j == 0 then 1 else 5 }

example : getObjectResults exCfg exScene = .ok [(0, some 0), (1, some 1), (2, none)] := by decide +kernel
example : getObjectResults { exCfg with fpValidation := true } exScene = .ok [(0, some 0), (1, some 1)] := by
  decide +kernel
example : getObjectResults { exCfg with mode := .iou2d } exScene = .error "AssertionError" := by decide +kernel
example : getObjectResults { exCfg with thresholds := some [3] } exScene = .error "IndexError" := by
  decide +kernel

end PEval.C01
