import PEval.Lemmas.MatchingResults
import PEval.Model.MatchDispatch
import PEval.Properties.KernelMatchable
import PEval.Properties.KernelBetter
import PEval.Properties.KernelCell
/-!
# C01 — matching is one-to-one and accounts for every estimate

All statements are about `PEval.Matching.getObjectResults` (model of `get_object_results` for objects
carrying geometry) and hold for every configuration (three label policies, four modes, any target /
threshold lists, both tasks), every list of estimates and ground truths of any length and **every**
scoring function `Scene.val` (so for all four matching modes and any ties). A result is
`(estimate index, some ground-truth index | none)`; indices are positions in the caller's lists.
-/
namespace PEval.C01
open PEval PEval.Matching

/-- Outside FP validation the estimates of the results are a rearrangement of the input estimates:
each input estimate exactly once, nothing foreign. -/
theorem results_est_perm {c : Cfg} {sc : Scene} {rs : List Res}
    (h : getObjectResults c sc = .ok rs) (hfp : c.fpValidation = false) :
    (rs.map (·.1)).Perm (List.range sc.ests.length) := by
  rw [getObjectResults_ok h, resultsOf_map_fst, hfp]
  exact (matchAll_inv _ _ _).permE List.nodup_range

/-- In both tasks no estimate appears twice and every estimate of a result is an input estimate. -/
theorem results_est_nodup {c : Cfg} {sc : Scene} {rs : List Res} (h : getObjectResults c sc = .ok rs) :
    (rs.map (·.1)).Nodup ∧ ∀ r ∈ rs, r.1 < sc.ests.length := by
  have hinv := matchAll_inv (mkTbl c sc) sc.ests.length sc.gts.length
  have hperm := hinv.permE List.nodup_range
  have hnd := hperm.nodup_iff.2 List.nodup_range
  rw [getObjectResults_ok h]
  constructor
  · rw [resultsOf_map_fst]
    cases c.fpValidation
    · exact hnd
    · simpa using (List.nodup_append.1 hnd).1
  · intro r hr
    have hm : r.1 ∈ (resultsOf c.fpValidation _).map (·.1) := List.mem_map.2 ⟨r, hr, rfl⟩
    rw [resultsOf_map_fst] at hm
    have : r.1 ∈ (matchAll (mkTbl c sc) sc.ests.length sc.gts.length).pairs.map (·.1) ++
        (matchAll (mkTbl c sc) sc.ests.length sc.gts.length).es := by
      cases hb : c.fpValidation <;> simp only [hb] at hm
      · exact hm
      · exact List.mem_append.2 (Or.inl (by simpa using hm))
    exact List.mem_range.1 (hperm.mem_iff.1 this)

/-- Each ground truth is used by at most one result, and only input ground truths are used. -/
theorem results_gt_nodup {c : Cfg} {sc : Scene} {rs : List Res} (h : getObjectResults c sc = .ok rs) :
    (usedGts rs).Nodup ∧ ∀ j ∈ usedGts rs, j < sc.gts.length := by
  have hinv := matchAll_inv (mkTbl c sc) sc.ests.length sc.gts.length
  rw [getObjectResults_ok h, usedGts_resultsOf]
  refine ⟨hinv.pG, ?_⟩
  intro j hj
  obtain ⟨p, hp, rfl⟩ := List.mem_map.1 hj
  exact List.mem_range.1 (hinv.subG p hp)

/-- Every pair of the results has a score in the table built by `_get_score_table`: the two objects
exist, are in the same frame, pass the matchable-threshold gate of the ground truth's label, and the
score is the matching value of the pair. -/
theorem pair_has_score {c : Cfg} {sc : Scene} {rs : List Res} (h : getObjectResults c sc = .ok rs)
    {i j : Nat} (hp : (i, some j) ∈ rs) :
    ∃ e g, sc.ests[i]? = some e ∧ sc.gts[j]? = some g ∧
      cell c e g (sc.val i j) = .ok ⟨some (sc.val i j), isMatchable c.policy e g⟩ := by
  rw [getObjectResults_ok h, mem_resultsOf_some] at hp
  obtain ⟨s, hs⟩ := (matchAll_inv (mkTbl c sc) sc.ests.length sc.gts.length).sc (i, j) hp
  obtain ⟨e, g, he, hg, _, hf, hw, _⟩ := mkTbl_score_some hs
  exact ⟨e, g, he, hg, cell_of_within hf hw⟩

/-- Only objects expressed in the same frame are paired. -/
theorem pair_same_frame {c : Cfg} {sc : Scene} {rs : List Res} (h : getObjectResults c sc = .ok rs)
    {i j : Nat} (hp : (i, some j) ∈ rs) :
    ∃ e g, sc.ests[i]? = some e ∧ sc.gts[j]? = some g ∧ e.frame = g.frame := by
  obtain ⟨e, g, he, hg, hc⟩ := pair_has_score h hp
  exact ⟨e, g, he, hg, (cell_score_some hc rfl).2.1⟩

/-- When a threshold (maximum matchable radius) is configured for the **ground truth's** label, the
paired objects are strictly better than it (distance modes: closer than the radius). -/
theorem pair_within_radius {c : Cfg} {sc : Scene} {rs : List Res} (h : getObjectResults c sc = .ok rs)
    {i j : Nat} (hp : (i, some j) ∈ rs) {g : Obj} (hg : sc.gts[j]? = some g) {r : Rat}
    (hr : labelThreshold c.targets c.thresholds g.label = .ok (some r)) :
    better c.mode.maximize (sc.val i j) r = true := by
  obtain ⟨e, g', _, hg', hc⟩ := pair_has_score h hp
  rw [hg] at hg'; cases hg'
  obtain ⟨thr, hthr, hall⟩ := (cell_score_some hc rfl).2.2.1
  rw [hr] at hthr; cases hthr
  exact isBetterThan_ok_true (hall r rfl)

/-- In the distance modes this reads: the matching distance is smaller than the radius. -/
theorem pair_closer_than_radius {c : Cfg} {sc : Scene} {rs : List Res} (h : getObjectResults c sc = .ok rs)
    (hm : c.mode.maximize = false)
    {i j : Nat} (hp : (i, some j) ∈ rs) {g : Obj} (hg : sc.gts[j]? = some g) {r : Rat}
    (hr : labelThreshold c.targets c.thresholds g.label = .ok (some r)) :
    sc.val i j < r := by
  have := pair_within_radius h hp hg hr
  simpa [better, hm] using this

/-- The table has a score exactly for the same-frame pairs within the threshold (what "matchable"
means in C01/C02); `none` stands for the NaN entries. -/
theorem table_score_iff {c : Cfg} {sc : Scene} {i j : Nat} {e g : Obj}
    (he : sc.ests[i]? = some e) (hg : sc.gts[j]? = some g) :
    (∃ s, (mkTbl c sc).score i j = some s) ↔ e.frame = g.frame ∧ withinThreshold c g (sc.val i j) := by
  constructor
  · rintro ⟨s, hs⟩
    obtain ⟨e', g', he', hg', _, hf, hw, _⟩ := mkTbl_score_some hs
    rw [he] at he'; rw [hg] at hg'; cases he'; cases hg'
    exact ⟨hf, hw⟩
  · rintro ⟨hf, hw⟩
    exact ⟨_, (mkTbl_score_of_within he hg hf hw).1⟩

/-- Outside FP validation the results without ground truth come after all pairs and are exactly the
unpaired estimates, in input order. -/
theorem unpaired_are_leftover {c : Cfg} {sc : Scene} {rs : List Res}
    (h : getObjectResults c sc = .ok rs) (hfp : c.fpValidation = false) :
    rs = rs.filter (fun r => r.2.isSome) ++ rs.filter (fun r => r.2.isNone) ∧
    unpairedEsts rs = (List.range sc.ests.length).filter (fun i => !(pairedEsts rs).contains i) := by
  have hinv := matchAll_inv (mkTbl c sc) sc.ests.length sc.gts.length
  rw [getObjectResults_ok h]
  constructor
  · rw [filter_isSome_resultsOf, filter_isNone_resultsOf]; rfl
  · rw [unpairedEsts_resultsOf, pairedEsts_resultsOf, hfp]
    exact hinv.esEq

/-- In FP validation unpaired estimates are dropped: every result has a ground truth … -/
theorem fpval_all_paired {c : Cfg} {sc : Scene} {rs : List Res}
    (h : getObjectResults c sc = .ok rs) (hfp : c.fpValidation = true) :
    ∀ r ∈ rs, r.2.isSome = true := by
  rw [getObjectResults_ok h, hfp]
  intro r hr
  simp only [resultsOf, pairResults, if_true, List.append_nil, List.mem_map] at hr
  obtain ⟨p, _, rfl⟩ := hr
  rfl

/-- … and the call returns exactly the pairs of the ordinary task (errors included). -/
theorem fpval_drops_unpaired (c : Cfg) (sc : Scene) :
    getObjectResults { c with fpValidation := true } sc =
      (getObjectResults { c with fpValidation := false } sc).map
        (fun rs => rs.filter (fun r => r.2.isSome)) := by
  unfold getObjectResults
  by_cases he : sc.ests.isEmpty
  · simp [he, Except.map]
  · by_cases hg : sc.gts.isEmpty
    · simp [he, hg, Except.map, fpResults, List.filter_map, Function.comp_def, filter_const_false]
    · simp only [he, hg, tableError_fpVal, mkTbl_fpVal]
      cases tableError c sc with
      | some e => simp [Except.map]
      | none =>
        have := filter_isSome_resultsOf false (matchAll (mkTbl c sc) sc.ests.length sc.gts.length)
        simp only [resultsOf, Bool.false_eq_true, if_false, List.filter_append] at this
        simp only [Except.map, Bool.false_eq_true, if_false, if_true, List.append_nil, List.filter_append]
        rw [this]

/-- No ground truth at all: FP validation returns no result, the ordinary task one GT-less result per
estimate in input order. -/
theorem fpval_empty_gt {c : Cfg} {sc : Scene} (hg : sc.gts = []) (hfp : c.fpValidation = true) :
    getObjectResults c sc = .ok [] := by
  unfold getObjectResults
  by_cases he : sc.ests.isEmpty <;> simp [he, hg, hfp]

theorem empty_gt_all_unpaired {c : Cfg} {sc : Scene} (hg : sc.gts = []) (hfp : c.fpValidation = false) :
    getObjectResults c sc = .ok ((List.range sc.ests.length).map fun i => (i, none)) := by
  unfold getObjectResults
  by_cases he : sc.ests.isEmpty
  · have : sc.ests = [] := by simpa using he
    simp [this]
  · simp [he, hg, hfp, fpResults]

/-- No estimate: no result. -/
theorem empty_est {c : Cfg} {sc : Scene} (he : sc.ests = []) : getObjectResults c sc = .ok [] := by
  unfold getObjectResults; simp [he]

/-- Result count: one per estimate outside FP validation; at most min(#estimates, #ground truths)
pairs in any task. -/
theorem results_length {c : Cfg} {sc : Scene} {rs : List Res} (h : getObjectResults c sc = .ok rs) :
    (c.fpValidation = false → rs.length = sc.ests.length) ∧
    (rs.filter (fun r => r.2.isSome)).length ≤ min sc.ests.length sc.gts.length := by
  constructor
  · intro hfp
    have := (results_est_perm h hfp).length_eq
    simpa using this
  · have hinv := matchAll_inv (mkTbl c sc) sc.ests.length sc.gts.length
    have h1 := (hinv.permE List.nodup_range).length_eq
    have h2 := (hinv.permG List.nodup_range).length_eq
    rw [getObjectResults_ok h, filter_isSome_resultsOf]
    simp [pairResults] at h1 h2 ⊢
    omega

/-! ## the hypotheses are satisfiable: a concrete contested scene

Three estimates (car, unknown, car) and two ground truths (car in `base_link`, pedestrian in `map`),
radius 3 for cars only, center distance. Estimate 0 and 2 compete for GT 0 with equal distance 1
(first wins); estimate 1 is in another frame than GT 0; GT 1 only matches in stage 2. -/

def exCfg : Cfg :=
  { policy := .default, mode := .centerDistance, targets := some ["car", "pedestrian"],
    thresholds := some [3, 2], fpValidation := false }

def exScene : Scene :=
  { ests := [⟨"car", "base_link"⟩, ⟨"unknown", "map"⟩, ⟨"car", "base_link"⟩],
    gts := [⟨"car", "base_link"⟩, ⟨"pedestrian", "map"⟩],
    val := fun i j => if i == 1 then 1 / 2 else if j == 0 then 1 else 5 }

example : getObjectResults exCfg exScene = .ok [(0, some 0), (1, some 1), (2, none)] := by decide +kernel
example : getObjectResults { exCfg with fpValidation := true } exScene = .ok [(0, some 0), (1, some 1)] := by
  decide +kernel
example : getObjectResults { exCfg with mode := .iou2d } exScene = .error "AssertionError" := by decide +kernel
example : getObjectResults { exCfg with thresholds := some [3] } exScene = .error "IndexError" := by
  decide +kernel

/-! ## every kind of object, label family and uuid setting: the dispatch of `get_object_results`

`MatchDispatch.getObjectResultsX` is the entry point for all object kinds (3-D boxes, 2-D objects with a
ROI, ROI-less 2-D objects) x label families (Autoware / traffic light) x uuids (set or `None`) x
`uuid_matching_first`.  Objects that carry geometry are served by the geometric matcher whatever their
label family, uuids and `uuid_matching_first` are, so every statement above holds for all of them. -/
section dispatch
open PEval.MatchDispatch

/-- The geometric matcher is selected exactly when the first objects carry geometry (3-D, or 2-D with
both ROIs present); the label family plays no role. -/
theorem dispatch_geometric_iff (is2d : Bool) (e0 g0 : ObjX) :
    dispatch is2d e0 g0 = .geometric ↔ (is2d = false ∨ (e0.roiNone = false ∧ g0.roiNone = false)) := by
  unfold dispatch
  cases is2d <;> cases e0.roiNone <;> cases g0.roiNone <;> cases e0.tl <;> simp

/-- ROI-less 2-D objects go to the identity-based matchers (C11): traffic-light labels to the label/uuid
matcher, all others to the uuid matcher. -/
theorem dispatch_roiless (e0 g0 : ObjX) (h : e0.roiNone = true ∨ g0.roiNone = true) :
    dispatch true e0 g0 = if e0.tl then .tlr else .byId := by
  unfold dispatch
  rcases h with h | h <;> cases h' : e0.tl <;> simp [h]

/-- For objects with geometry the entry point IS the geometric matcher, for every label family, every
uuid assignment (set, shared, `None`) and both `uuid_matching_first` settings. -/
theorem withGeometry_eq_geometric (uf : Bool) (c : Cfg) (sx : SceneX) (h : hasGeometry sx) :
    getObjectResultsX uf c sx = getObjectResults c (toScene sx) := by
  unfold getObjectResultsX
  cases hE : sx.ests with
  | nil => simp [getObjectResults, toScene, hE]
  | cons e0 es =>
    cases hG : sx.gts with
    | nil => simp [getObjectResults, toScene, hE, hG]
    | cons g0 gs =>
      have hd : dispatch sx.is2d e0 g0 = .geometric := by
        rw [dispatch_geometric_iff]
        rcases h with h | ⟨h1, h2⟩
        · exact Or.inl h
        · exact Or.inr ⟨h1 e0 (by simp [hE]), h2 g0 (by simp [hG])⟩
      simp only [hd]

/-- Two calls that differ only in label family flags, uuids, `uuid_matching_first` (same member values,
frames and scores) return the same results when the objects carry geometry. -/
theorem geometric_independent_of_family_uuid {uf uf' : Bool} {c : Cfg} {sx sx' : SceneX}
    (h : hasGeometry sx) (h' : hasGeometry sx') (heq : toScene sx = toScene sx') :
    getObjectResultsX uf c sx = getObjectResultsX uf' c sx' := by
  rw [withGeometry_eq_geometric uf c sx h, withGeometry_eq_geometric uf' c sx' h', heq]

theorem toScene_ests_length (sx : SceneX) : (toScene sx).ests.length = sx.ests.length := by
  simp [toScene]

theorem toScene_gts_get {sx : SceneX} {j : Nat} {g : ObjX} (hg : sx.gts[j]? = some g) :
    (toScene sx).gts[j]? = some (toObj g) := by
  simp [toScene, hg]

/-- C01 for every kind/family/uuid combination with geometry: outside FP validation every estimate is in
exactly one result. -/
theorem x_results_est_perm {uf : Bool} {c : Cfg} {sx : SceneX} {rs : List Res} (hgeo : hasGeometry sx)
    (h : getObjectResultsX uf c sx = .ok rs) (hfp : c.fpValidation = false) :
    (rs.map (·.1)).Perm (List.range sx.ests.length) := by
  rw [withGeometry_eq_geometric uf c sx hgeo] at h
  simpa [toScene_ests_length] using results_est_perm h hfp

/-- … each ground truth is used at most once … -/
theorem x_results_gt_nodup {uf : Bool} {c : Cfg} {sx : SceneX} {rs : List Res} (hgeo : hasGeometry sx)
    (h : getObjectResultsX uf c sx = .ok rs) : (usedGts rs).Nodup := by
  rw [withGeometry_eq_geometric uf c sx hgeo] at h
  exact (results_gt_nodup h).1

/-- … a pair respects the maximum matchable radius configured for the ground truth's label … -/
theorem x_pair_within_radius {uf : Bool} {c : Cfg} {sx : SceneX} {rs : List Res} (hgeo : hasGeometry sx)
    (h : getObjectResultsX uf c sx = .ok rs) {i j : Nat} (hp : (i, some j) ∈ rs) {g : ObjX}
    (hg : sx.gts[j]? = some g) {r : Rat}
    (hr : labelThreshold c.targets c.thresholds g.label = .ok (some r)) :
    better c.mode.maximize (sx.val i j) r = true := by
  rw [withGeometry_eq_geometric uf c sx hgeo] at h
  exact pair_within_radius (sc := toScene sx) h hp (toScene_gts_get hg) hr

/-- … and in FP validation every result has a ground truth. -/
theorem x_fpval_all_paired {uf : Bool} {c : Cfg} {sx : SceneX} {rs : List Res} (hgeo : hasGeometry sx)
    (h : getObjectResultsX uf c sx = .ok rs) (hfp : c.fpValidation = true) :
    ∀ r ∈ rs, r.2.isSome = true := by
  rw [withGeometry_eq_geometric uf c sx hgeo] at h
  exact fpval_all_paired h hfp

/-! Satisfiable and non-trivial: two detected traffic lights with ROIs and uuids, one annotated one whose
uuid and label equal those of the FAR estimate; radius 50 px. With ROIs the near estimate is paired and
the far one kept unpaired; the same objects without ROIs are paired by label/uuid (C11's matchers). -/

def exTlCfg : Cfg :=
  { policy := .default, mode := .centerDistance, targets := some ["traffic_light"],
    thresholds := some [50], fpValidation := false }

def exTl (roiNone : Bool) : SceneX :=
  { is2d := true,
    ests := [⟨"traffic_light", true, "cam_traffic_light_near", some "b", roiNone⟩,
             ⟨"traffic_light", true, "cam_traffic_light_near", some "a", roiNone⟩],
    gts := [⟨"traffic_light", true, "cam_traffic_light_near", some "a", roiNone⟩],
    val := fun i _ => if i == 0 then 500 else 2 }

example : hasGeometry (exTl false) := Or.inr ⟨by decide, by decide⟩
example : getObjectResultsX false exTlCfg (exTl false) = .ok [(1, some 0), (0, none)] := by decide +kernel
example : getObjectResultsX true exTlCfg (exTl false) = .ok [(1, some 0), (0, none)] := by decide +kernel
example : getObjectResultsX false exTlCfg (exTl true) = .ok [(0, some 0)] := by decide +kernel
example : getObjectResultsX true exTlCfg (exTl true) = .ok [(1, some 0)] := by decide +kernel

end dispatch

end PEval.C01
