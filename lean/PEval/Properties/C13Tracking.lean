import PEval.Lemmas.ManagerTrackingArith
import PEval.Lemmas.ManagerHeapTracking
/-!
# C13 (tracking part) — the manager's per-frame and scene CLEAR scores

Statements about the extended state machine `PEval.ManagerTracking` (`Model/ManagerTracking.lean`):
the machine of `Model/Manager.lean` whose stored frame results also carry the per-label buckets of
object results in the vocabulary of the CLEAR model (`PEval.Clear`, property C05), with
`evaluate_frame`'s tracking branch and `get_scene_result`'s tracking pooling computed by
`Clear.trackingScore` (= `TrackingMetricsScore`: one `CLEAR` per target label, and `_sum_clear`).

Everything holds for EVERY list of operations, every number of target labels and of configured
threshold lists, every single-frame evaluation `sem`.  "Score `(k, l)`" below is
`tracking_scores[k].clears[l]`: the `CLEAR` of the `k`-th configured threshold list for the `l`-th
target label; `cfg = sem.cfgs[k]`, `(lab, t) = zip(target_labels, cfg.thr)[l]`.

Imported by `Properties/C13.lean`, so `./check C13` audits these theorems with the others.
-/
namespace PEval.C13
open PEval.Manager PEval.ManagerTracking PEval.Clear PEval

variable {E C : Type}

/-! ## the extended machine is the machine of C13 plus a tracking view -/

/-- Forgetting the tracking view commutes with running: states and answers of the extended machine
project onto those of `PEval.Manager` (so `add_preserves_dataset`, `scene_eq_pooled`, … apply to it). -/
theorem tracking_machine_refines (sem : TSem E C) (s : TState) (ops : List (Op E C)) :
    (trun sem s ops).1.forget = (run sem.forget s.forget ops).1 ∧
    (trun sem s ops).2.map TOut.forget = (run sem.forget s.forget ops).2 :=
  trun_forget sem s ops

/-! ## (i) the per-frame tracking score reads the last stored frame and nothing earlier -/

/-- The tracking scores returned by `add(g, e, c)` after ANY operations `pre` from ANY state are
`evaluate_tracking` of `[bucket of frame_results[-1], current bucket]` per label (previous bucket `[]` when
nothing is stored) with the current frame's ground-truth numbers; score `(k, l)` is
`evalClear [last stored bucket, current bucket]`. -/
theorem frame_tracking_depends_on_last_only (sem : TSem E C) (s : TState) (pre : List (Op E C))
    (g : Frame) (e : E) (c : C) :
    (tlastOut sem s (pre ++ [.add g e c])).map TOut.track
      = some (frameTrack sem.labels sem.cfgs ((trun sem s pre).1.frameResults.getLast?.map (·.tb))
          (sem.evalTB g e c) (sem.evalDet g e c)) ∧
    ∀ k l cfg lab t, sem.cfgs[k]? = some cfg → (sem.labels.zip cfg.thr)[l]? = some (lab, t) →
      (tlastOut sem s (pre ++ [.add g e c])).bind (fun o => clearAt o.track k l)
        = some (evalClear ⟨cfg.maximize, [(lab, t)]⟩ ((sem.evalDet g e c).gt l)
            [viewBucket cfg.mode (prevBucket ((trun sem s pre).1.frameResults.getLast?.map (·.tb)) l),
             viewBucket cfg.mode ((sem.evalTB g e c).getD l [])]) := by
  rw [tlastOut_append_one]
  refine ⟨by simp [tstep, taddFrameResult, tevalFrame, TOut.track], ?_⟩
  intro k l cfg lab t hk hl
  simp only [tstep, taddFrameResult, tevalFrame, Option.bind_some, TOut.track]
  exact clearAt_frameTrack _ _ _ _ _ k l cfg lab t hk hl

/-- two managers whose last stored results have the same tracking view answer the same call with the
same tracking scores — whatever else their histories contain -/
theorem frame_tracking_same_last (sem : TSem E C) (s₁ s₂ : TState) (pre₁ pre₂ : List (Op E C))
    (g : Frame) (e : E) (c : C)
    (h : (trun sem s₁ pre₁).1.frameResults.getLast?.map (·.tb) = (trun sem s₂ pre₂).1.frameResults.getLast?.map (·.tb)) :
    (tlastOut sem s₁ (pre₁ ++ [.add g e c])).map TOut.track
      = (tlastOut sem s₂ (pre₂ ++ [.add g e c])).map TOut.track := by
  rw [(frame_tracking_depends_on_last_only sem s₁ pre₁ g e c).1,
    (frame_tracking_depends_on_last_only sem s₂ pre₂ g e c).1, h]

/-- … hence: whatever happened before the previous `add`, and whatever queries were interleaved, the
tracking scores are those a fresh manager computes from the two calls alone -/
theorem frame_tracking_two_step (sem : TSem E C) (s : TState) (pre qs : List (Op E C))
    (hq : ∀ op ∈ qs, op.isQuery = true)
    (g₁ g₂ : Frame) (e₁ e₂ : E) (c₁ c₂ : C) (ds : List Frame) :
    (tlastOut sem s ((pre ++ [.add g₁ e₁ c₁] ++ qs) ++ [.add g₂ e₂ c₂])).map TOut.track
      = (tlastOut sem (tfresh ds) ([.add g₁ e₁ c₁] ++ [.add g₂ e₂ c₂])).map TOut.track := by
  apply frame_tracking_same_last
  rw [trun_last_tb, trun_last_tb]
  simp [addsTB_append, addsTB_queries sem qs hq, addsTB, tfresh]

/-- the first `add` on a manager without history: the predecessor is the EMPTY LIST for every label
(`previous_results_dict = {label: []}`), exactly the `[]` that heads the scene-level history -/
theorem frame_tracking_first (sem : TSem E C) (ds : List Frame) (qs : List (Op E C))
    (hq : ∀ op ∈ qs, op.isQuery = true) (g : Frame) (e : E) (c : C) :
    (tlastOut sem (tfresh ds) (qs ++ [.add g e c])).map TOut.track
      = some (evaluateTracking sem.labels sem.cfgs (sem.evalDet g e c).gt
          (fun l => [[], (sem.evalTB g e c).getD l []])) := by
  rw [(frame_tracking_depends_on_last_only sem _ qs g e c).1, trun_queries sem _ qs hq]
  rfl

/-! ## (ii) the scene tracking score is CLEAR over the pooled history -/

/-- `get_scene_result` of a tracking manager in ANY state: `evaluate_tracking` of, per label, the nested
list `[[]] ++ [bucket of every stored frame, in order]` with the ground-truth numbers summed over the
stored frames; score `(k, l)` is `evalClear` of that concatenated history. -/
theorem scene_tracking_eq_pooled (sem : TSem E C) (s : TState) :
    sceneTrack sem.labels sem.cfgs (tsceneAcc sem.nLabels s)
      = evaluateTracking sem.labels sem.cfgs (fun l => (s.frameResults.map (·.det.gt l)).sum)
          (fun l => [] :: s.frameResults.map (·.bucket l)) ∧
    ∀ k l cfg lab t, sem.cfgs[k]? = some cfg → (sem.labels.zip cfg.thr)[l]? = some (lab, t) →
      clearAt (sceneTrack sem.labels sem.cfgs (tsceneAcc sem.nLabels s)) k l
        = some (evalClear ⟨cfg.maximize, [(lab, t)]⟩ (s.frameResults.map (·.det.gt l)).sum
            (([] :: s.frameResults.map (·.bucket l)).map (viewBucket cfg.mode))) := by
  have h := sceneTrack_eq sem.labels sem.cfgs s
  refine ⟨h, ?_⟩
  intro k l cfg lab t hk hl
  show clearAt (sceneTrack sem.labels sem.cfgs (tsceneAcc sem.labels.length s)) k l = _
  rw [h, clearAt_evaluateTracking _ _ _ _ k l cfg lab t hk hl]

/-- the same, read off the answer to a `scene` query issued after any operation list on a fresh
manager: the history consists of the fresh evaluations of the `add`s, in call order -/
theorem scene_tracking_eq_pooled_ops (sem : TSem E C) (ds : List Frame) (ops : List (Op E C)) :
    (tlastOut sem (tfresh ds) (ops ++ [.scene])).bind TOut.sceneTrack?
      = some (evaluateTracking sem.labels sem.cfgs (fun l => ((addsDetT sem ops).map (·.gt l)).sum)
          (fun l => [] :: (addsTB sem ops).map (·.getD l []))) := by
  rw [tlastOut_append_one]
  simp only [tstep, tgetSceneResult, Option.bind_some, TOut.sceneTrack?]
  rw [(scene_tracking_eq_pooled sem _).1]
  have h1 : (trun sem (tfresh ds) ops).1.frameResults.map (·.tb) = addsTB sem ops := by
    rw [trun_frameResults_tb]; rfl
  have h2 : (trun sem (tfresh ds) ops).1.frameResults.map (·.det) = addsDetT sem ops := by
    rw [trun_frameResults_det]; rfl
  congr 2
  · funext l
    rw [← h2]; simp [List.map_map, Function.comp_def]
  · funext l
    rw [← h1]; simp [List.map_map, Function.comp_def, TFrameResult.bucket]

/-- a one-frame scene reproduces that frame's tracking scores — ALL of them, per label and totals:
without predecessor the frame is evaluated against `[]`, which is the head of the scene history -/
theorem scene_tracking_single_frame (sem : TSem E C) (ds : List Frame) (qs₁ qs₂ : List (Op E C))
    (h₁ : ∀ op ∈ qs₁, op.isQuery = true) (h₂ : ∀ op ∈ qs₂, op.isQuery = true) (g : Frame) (e : E) (c : C) :
    (tlastOut sem (tfresh ds) ((qs₁ ++ [.add g e c] ++ qs₂) ++ [.scene])).bind TOut.sceneTrack?
      = (tlastOut sem (tfresh ds) (qs₁ ++ [.add g e c])).map TOut.track := by
  rw [scene_tracking_eq_pooled_ops, frame_tracking_first sem ds qs₁ h₁]
  simp only [addsDetT_append, addsTB_append, addsDetT_queries sem qs₁ h₁, addsDetT_queries sem qs₂ h₂,
    addsTB_queries sem qs₁ h₁, addsTB_queries sem qs₂ h₂, addsDetT, addsTB, List.nil_append, List.append_nil,
    List.map_cons, List.map_nil, List.sum_cons, List.sum_nil, Nat.add_zero]

/-! ## (iii) scene counts = sums of the per-frame counts -/

/-- For a manager whose stored tracking scores were computed by `add_frame_result` (any operation list
from a state with that property): score `(k, l)` of the scene and the scores `(k, l)` stored in
`frame_results` satisfy
`scene TP = Σ frame TP`, `scene FP = Σ frame FP`, `scene id switches = Σ frame id switches`,
`scene tp_matching_score = Σ …`, `num_ground_truth = Σ …`, `predict_num = Σ …` — UNCONDITIONALLY, the
first stored frame included: each scene increment of `CLEAR.__init__` scans the same previous list as
the stored per-frame evaluation did (`frame_results[i-1]`'s bucket; `[]` for the first).
MOTA / MOTP of the scene are those of the summed counts. -/
theorem scene_tracking_switches_sum_from (sem : TSem E C) (s : TState) (ops : List (Op E C))
    (hs : Consistent sem.labels sem.cfgs none s.frameResults)
    (k l : Nat) (cfg : TCfg) (lab : Nat) (t : Rat)
    (hk : sem.cfgs[k]? = some cfg) (hl : (sem.labels.zip cfg.thr)[l]? = some (lab, t)) :
    ∃ (scene : Clear.Out) (frames : List Clear.Out),
      clearAt (sceneTrack sem.labels sem.cfgs (tsceneAcc sem.nLabels (trun sem s ops).1)) k l = some scene ∧
      (trun sem s ops).1.frameResults.map (fun r => clearAt r.track k l) = frames.map some ∧
      scene.acc.tp = (frames.map (·.acc.tp)).sum ∧
      scene.acc.fp = (frames.map (·.acc.fp)).sum ∧
      scene.acc.sw = (frames.map (·.acc.sw)).sum ∧
      scene.acc.score = (frames.map (·.acc.score)).sum ∧
      scene.g = (frames.map (·.g)).sum ∧
      scene.predictNum = (frames.map (·.predictNum)).sum ∧
      scene.mota = mota scene.g scene.acc ∧ scene.motp = motp scene.acc ∧
      (∀ o ∈ frames, o.mota = mota o.g o.acc ∧ o.motp = motp o.acc) := by
  have hc := consistent_trun sem s ops hs
  obtain ⟨ha, hg, hp⟩ := scene_vs_frames ⟨cfg.maximize, [(lab, t)]⟩ cfg.mode l (trun sem s ops).1.frameResults
  refine ⟨_, frameOuts ⟨cfg.maximize, [(lab, t)]⟩ cfg.mode l none (trun sem s ops).1.frameResults,
    (scene_tracking_eq_pooled sem _).2 k l cfg lab t hk hl,
    stored_clearAt _ _ _ hc k l cfg lab t hk hl, ?_, ?_, ?_, ?_, hg, hp, rfl, rfl, ?_⟩
  · rw [ha, accSum_tp, List.map_map]; rfl
  · rw [ha, accSum_fp, List.map_map]; rfl
  · rw [ha, accSum_sw, List.map_map]; rfl
  · rw [ha, accSum_score, List.map_map]; rfl
  · intro o ho
    unfold frameOuts at ho
    obtain ⟨qr, _, rfl⟩ := List.mem_map.mp ho
    exact ⟨rfl, rfl⟩

/-- … in particular after any operation list on a fresh manager -/
theorem scene_tracking_switches_sum (sem : TSem E C) (ds : List Frame) (ops : List (Op E C))
    (k l : Nat) (cfg : TCfg) (lab : Nat) (t : Rat)
    (hk : sem.cfgs[k]? = some cfg) (hl : (sem.labels.zip cfg.thr)[l]? = some (lab, t)) :
    ∃ (scene : Clear.Out) (frames : List Clear.Out),
      clearAt (sceneTrack sem.labels sem.cfgs (tsceneAcc sem.nLabels (trun sem (tfresh ds) ops).1)) k l = some scene ∧
      (trun sem (tfresh ds) ops).1.frameResults.map (fun r => clearAt r.track k l) = frames.map some ∧
      scene.acc.tp = (frames.map (·.acc.tp)).sum ∧
      scene.acc.fp = (frames.map (·.acc.fp)).sum ∧
      scene.acc.sw = (frames.map (·.acc.sw)).sum ∧
      scene.acc.score = (frames.map (·.acc.score)).sum ∧
      scene.g = (frames.map (·.g)).sum ∧
      scene.predictNum = (frames.map (·.predictNum)).sum ∧
      scene.mota = mota scene.g scene.acc ∧ scene.motp = motp scene.acc ∧
      (∀ o ∈ frames, o.mota = mota o.g o.acc ∧ o.motp = motp o.acc) :=
  scene_tracking_switches_sum_from sem (tfresh ds) ops
    (by intro qr hm; simp [tfresh, framePairs] at hm) k l cfg lab t hk hl

/-- The scores themselves do not add up — MOTA is clamped at 0 per evaluation and undefined without
ground truth —, but in the regular regime they average: if at least one frame is stored, every stored
frame has ground truth of the label and no per-frame MOTA is clamped (TP − FP − IDsw ≥ 0), the scene
MOTA is the ground-truth-weighted mean of the per-frame MOTAs (the weighting of `_sum_clear`). -/
theorem scene_tracking_mota_weighted_mean (scene : Clear.Out) (frames : List Clear.Out) (hne : frames ≠ [])
    (htp : scene.acc.tp = (frames.map (·.acc.tp)).sum) (hfp : scene.acc.fp = (frames.map (·.acc.fp)).sum)
    (hsw : scene.acc.sw = (frames.map (·.acc.sw)).sum) (hgs : scene.g = (frames.map (·.g)).sum)
    (hms : scene.mota = mota scene.g scene.acc)
    (hm : ∀ o ∈ frames, o.mota = mota o.g o.acc) (hg : ∀ o ∈ frames, o.g ≠ 0) (hn : ∀ o ∈ frames, 0 ≤ o.num) :
    scene.mota = some (ratSum (frames.map motaWeighted) / (((frames.map (·.g)).sum : Nat) : Rat)) := by
  have key := mota_weighted_mean frames hne hm hg hn
  rw [hms, hgs, ← key]
  unfold mota
  have e1 : scene.acc.tp = (accSum (frames.map (·.acc))).tp := by rw [htp, accSum_tp, List.map_map]; rfl
  have e2 : scene.acc.fp = (accSum (frames.map (·.acc))).fp := by rw [hfp, accSum_fp, List.map_map]; rfl
  have e3 : scene.acc.sw = (accSum (frames.map (·.acc))).sw := by rw [hsw, accSum_sw, List.map_map]; rfl
  rw [e1, e2, e3]

/-! ## (iv) renaming of track ids -/

/-- Feed the same manager with injectively renamed estimate uuids (`f`) and ground-truth uuids (`g`) —
consistently over all frames —: EVERY tracking score it answers with, per frame and per scene, per
label and in total, is unchanged (lifted from `C05.rename_invariant`: CLEAR only tests ids for
equality). -/
theorem scene_tracking_rename_invariant (f g : Nat → Nat) (hf : Function.Injective f) (hg : Function.Injective g)
    (sem : TSem E C) (ds : List Frame) (ops : List (Op E C)) :
    (trun (sem.rename f g) (tfresh ds) ops).2.map TOut.track = (trun sem (tfresh ds) ops).2.map TOut.track :=
  (trun_rename hf hg sem (tfresh ds) ops).2

/-- the same from any state whose stored results are renamed along -/
theorem scene_tracking_rename_invariant_from (f g : Nat → Nat) (hf : Function.Injective f) (hg : Function.Injective g)
    (sem : TSem E C) (s : TState) (ops : List (Op E C)) :
    (trun (sem.rename f g) (s.rename f g) ops).2.map TOut.track = (trun sem s ops).2.map TOut.track ∧
    (trun (sem.rename f g) (s.rename f g) ops).1 = (trun sem s ops).1.rename f g :=
  ⟨(trun_rename hf hg sem s ops).2, (trun_rename hf hg sem s ops).1⟩

/-! ## concrete instances, and plausible statements that are FALSE -/

section TrackingExamples

/-- estimate `e` on ground truth `g` (both label 0) at centre distance `d` -/
def tr (e g : Nat) (d : Rat) : TRes := ⟨e, 0, some ⟨g, 0, false⟩, [d], true, 1⟩
/-- an estimate without ground truth -/
def trFp (e : Nat) : TRes := ⟨e, 0, none, [0], false, 1⟩

/-- one target label (0), one centre-distance threshold list `[1]`; estimates are a key into a table:
`0`: two targets tracked; `1`: the two track ids exchanged; `2`: as `0` but target 1 far off (fails its own
test); `3`: only clutter -/
def tsemEx : TSem Nat Unit where
  labels := [0]
  cfgs := [⟨0, false, [1]⟩]
  evalDet := fun _ e _ => if e = 3 then ⟨[[]], [1]⟩ else ⟨[[]], [2]⟩
  evalTB := fun _ e _ =>
    if e = 0 then [[tr 1 1 (1/2), tr 2 2 (1/4)]]
    else if e = 1 then [[tr 2 1 (1/2), tr 1 2 (1/4)]]
    else if e = 2 then [[tr 1 1 5, tr 2 2 (1/4)]]
    else [[trFp 7]]

def tf0 : Frame := ⟨100, 0, [11, 12]⟩
def tf1 : Frame := ⟨200, 1, [13, 14]⟩
def topsEx : List (Op Nat Unit) := [.add tf0 0 (), .scene, .add tf1 1 (), .lookup 100 75, .add tf0 2 ()]

-- the premises of the per-score statements hold for score (0, 0)
example : tsemEx.cfgs[0]? = some ⟨0, false, [1]⟩ ∧ (tsemEx.labels.zip [(1 : Rat)])[0]? = some (0, 1) := by decide +kernel

/-- the scene of `topsEx`: 6 results, 3 id switches (two in frame 2, one in frame 3), one FP (frame 3: target 1 is
5 away and its pairing changed), ground truth 6 -/
example : clearAt (sceneTrack tsemEx.labels tsemEx.cfgs (tsceneAcc 1 (trun tsemEx (tfresh [tf0, tf1]) topsEx).1)) 0 0
    = some ⟨6, 6, ⟨5, 1, 3, 7/4⟩, some (1/6), some (7/20)⟩ := by decide +kernel
/-- … and the three stored per-frame scores: their counts add up to the scene's (the MOTAs 1, 0, 0 — the last one
clamped — do not average to 1/6) -/
example : (trun tsemEx (tfresh [tf0, tf1]) topsEx).1.frameResults.map (fun r => clearAt r.track 0 0)
    = [some ⟨2, 2, ⟨2, 0, 0, 3/4⟩, some 1, some (3/8)⟩, some ⟨2, 2, ⟨2, 0, 2, 3/4⟩, some 0, some (3/8)⟩,
       some ⟨2, 2, ⟨1, 1, 1, 1/4⟩, some 0, some (1/4)⟩] := by decide +kernel

/-- FALSE: "the scene tracking score does not depend on the order in which the frames were added" (true for the
pooled AP with distinct confidences, `pooled_ap_perm_invariant`): the same three calls in another order give
2 switches instead of 3, no FP (target 1, 5 away, now KEEPS the pairing of a previous TP and is carried over) -/
example : clearAt (sceneTrack tsemEx.labels tsemEx.cfgs (tsceneAcc 1
      (trun tsemEx (tfresh [tf0, tf1]) [.add tf0 0 (), .add tf0 2 (), .add tf1 1 ()]).1)) 0 0
    = some ⟨6, 6, ⟨6, 0, 2, 9/4⟩, some (2/3), some (3/8)⟩ := by decide +kernel

/-- FALSE: "the scene counts are the sums of the counts of each frame evaluated ON ITS OWN (fresh manager, no
predecessor)".  For the order of the previous example the three calls alone give TP 2 + 1 + 2, FP 0 + 1 + 0 and
no switch; the scene has TP 6, FP 0, 2 switches. -/
example :
    (([[.add tf0 0 ()], [.add tf0 2 ()], [.add tf1 1 ()]] : List (List (Op Nat Unit))).map (fun ops =>
      (tlastOut tsemEx (tfresh [tf0, tf1]) ops).bind (fun o => (clearAt o.track 0 0).map (·.acc))))
      = [some ⟨2, 0, 0, 3/4⟩, some ⟨1, 1, 0, 1/4⟩, some ⟨2, 0, 0, 3/4⟩] ∧
    (2 : Rat) + 1 + 2 ≠ 6 ∧ 0 + 1 + 0 ≠ 0 ∧ 0 + 0 + 0 ≠ 2 := by decide +kernel

/-- FALSE without the regularity premises: "scene MOTA = ground-truth-weighted mean of the per-frame MOTAs".
A clutter-only frame (MOTA clamped from −1 to 0) followed by a perfect one: mean (0·1 + 1·2)/3 = 2/3, scene
MOTA = (2 − 1 − 0)/3 = 1/3. -/
example :
    (trun tsemEx (tfresh [tf0, tf1]) [.add tf0 3 (), .add tf1 0 ()]).1.frameResults.map (fun r => clearAt r.track 0 0)
      = [some ⟨1, 1, ⟨0, 1, 0, 0⟩, some 0, none⟩, some ⟨2, 2, ⟨2, 0, 0, 3/4⟩, some 1, some (3/8)⟩] ∧
    clearAt (sceneTrack tsemEx.labels tsemEx.cfgs (tsceneAcc 1
      (trun tsemEx (tfresh [tf0, tf1]) [.add tf0 3 (), .add tf1 0 ()]).1)) 0 0
      = some ⟨3, 3, ⟨2, 1, 0, 3/4⟩, some (1/3), some (3/8)⟩ ∧
    ((0 : Rat) * 1 + 1 * 2) / 3 ≠ 1 / 3 := by decide +kernel

/-- the premises of `scene_tracking_mota_weighted_mean` are satisfiable non-trivially (two regular frames with
different MOTAs): frame MOTAs 1 and 0 (two switches), scene MOTA (2·1 + 2·0)/4 = 1/2 -/
example :
    (trun tsemEx (tfresh [tf0, tf1]) [.add tf0 0 (), .add tf1 1 ()]).1.frameResults.map (fun r => clearAt r.track 0 0)
      = [some ⟨2, 2, ⟨2, 0, 0, 3/4⟩, some 1, some (3/8)⟩, some ⟨2, 2, ⟨2, 0, 2, 3/4⟩, some 0, some (3/8)⟩] ∧
    clearAt (sceneTrack tsemEx.labels tsemEx.cfgs (tsceneAcc 1
      (trun tsemEx (tfresh [tf0, tf1]) [.add tf0 0 (), .add tf1 1 ()]).1)) 0 0
      = some ⟨4, 4, ⟨4, 0, 2, 3/2⟩, some (1/2), some (3/8)⟩ := by decide +kernel

/-- FALSE for a history that `add_frame_result` did not produce (e.g. `frame_results` edited by the caller): a
stored result whose tracking score is not the one evaluated against its stored predecessor breaks the sum -/
example :
    let s : TState := ⟨[tf0], [⟨0, ⟨[[]], [2]⟩, [[tr 1 1 (1/2)]], []⟩]⟩
    ¬ Consistent tsemEx.labels tsemEx.cfgs none s.frameResults ∧
    s.frameResults.map (fun r => clearAt r.track 0 0) = [none] ∧
    (clearAt (sceneTrack tsemEx.labels tsemEx.cfgs (tsceneAcc 1 s)) 0 0).map (·.acc.tp) = some 1 := by
  refine ⟨?_, by decide +kernel, by decide +kernel⟩
  intro h
  have := h (none, ⟨0, ⟨[[]], [2]⟩, [[tr 1 1 (1/2)]], []⟩) (by simp [framePairs])
  revert this
  decide +kernel

/-- renaming acts non-trivially (ids 1 ↔ 2 exchanged in every frame) and leaves the scores alone -/
example : (tsemEx.rename (swapId 1 2) (swapId 1 2)).evalTB tf0 0 () ≠ tsemEx.evalTB tf0 0 () ∧
    (trun (tsemEx.rename (swapId 1 2) (swapId 1 2)) (tfresh [tf0, tf1]) topsEx).2.map TOut.track
      = (trun tsemEx (tfresh [tf0, tf1]) topsEx).2.map TOut.track := by
  exact ⟨by decide +kernel, scene_tracking_rename_invariant _ _ (swapId_injective 1 2) (swapId_injective 1 2) _ _ _⟩

end TrackingExamples

/-! ## the heap machine refines the tracking machine

`Model/ManagerHeap.lean` passes ground-truth frames and estimate lists BY REFERENCE and performs the
assignments of `_filter_objects` / `evaluate_frame` as writes.  When its pure tracking part is
`frameTrack` on the tracking views of `frame_results[-1].object_results` and of the current object results
(`TracksBy`), the repaired code (`hrun`) run on a store `h` is the machine `trun` above run on the
dereferenced values — so every theorem of this file is a theorem about the heap machine. -/

section HeapTracking
open PEval.ManagerHeap

theorem heap_refines_tracking_machine {Est OR C' : Type} (sem : HSem Est OR C' (List TScore)) (p : TrackParams OR)
    (ht : TracksBy sem p) (s : HState Est OR (List TScore)) (ops : List (HOp C'))
    (hv : DatasetValid s.heap s.dataset) (hops : ∀ op ∈ ops, op.validIn s.heap) :
    absTState p (hrun sem s ops).1 = (trun (toTSem sem p) (absTState p s) (ops.map (absOp s.heap))).1 ∧
    (hrun sem s ops).2.map (absTOutAdded p)
      = (trun (toTSem sem p) (absTState p s) (ops.map (absOp s.heap))).2.map TOut.added? :=
  hrun_tsim sem p ht s.heap s ops (Ext.refl _) hv hops

/-- transferred: on the heap machine the tracking scores stored by the last `add` of any valid run are
`evaluate_tracking` of `[tracking view of the previously stored result, current view]` -/
theorem heap_frame_tracking_depends_on_last_only {Est OR C' : Type} (sem : HSem Est OR C' (List TScore))
    (p : TrackParams OR) (ht : TracksBy sem p) (s : HState Est OR (List TScore)) (pre : List (HOp C'))
    (fr er : Ref) (c : C') (h1 : fr < s.heap.frames.length) (h2 : er < s.heap.ests.length) :
    (hlastOut sem s (pre ++ [.add fr er c])).bind HOut.track?
      = some (frameTrack p.labels p.cfgs
          ((hrun sem s pre).1.frameResults.getLast?.map (fun r => p.tbOf r.objectResults))
          (p.tbOf (pureORs sem c (s.heap.frame fr) (s.heap.est er)))
          (pureDet sem c (s.heap.frame fr) (s.heap.est er))) := by
  obtain ⟨e1, e2, e3⟩ := hstep_add_after_run sem s pre fr er c h1 h2
  rw [hlastOut, hlastOutV_append_one]
  simp only [hrun, hstep] at e1 e2 e3 ⊢
  rw [e1]
  have ht' := ht
  unfold TracksBy at ht'
  simp only [Option.bind_some, HOut.track?, HOut.added?, Option.map_some, addResult, e2, e3, ht', pureDet,
    Option.map_map]
  rfl

-- non-vacuity: a concrete heap semantics whose tracking part is `frameTrack` (one label, one centre-distance
-- configuration with threshold 1; every estimate is an unmatched result), and a valid two-add run on it
def exTP : TrackParams Nat :=
  { labels := [0], cfgs := [⟨0, false, [1]⟩], tbOf := fun ors => [ors.map (fun e => ⟨e, 0, none, [0], false, 1⟩)] }

def exTSem : HSem Nat Nat Unit (List TScore) where
  nLabels := 1
  filterEst := fun _ es => es
  filterGt := fun _ gs => gs
  matchObjs := fun _ es _ => es
  critRes := fun _ _ ors => ors
  critGt := fun _ _ gs => gs
  detOf := fun _ ors gs => ⟨[ors.map (fun e => ⟨e, none, 0, [0]⟩)], [gs.length]⟩
  bucketsOf := fun ors => [ors.map (fun e => ⟨e, none, 0, [0]⟩)]
  numGtOf := fun gs => [gs.length]
  trackOf := fun _ ors gs prev =>
    frameTrack exTP.labels exTP.cfgs (prev.map exTP.tbOf) (exTP.tbOf ors)
      ⟨[ors.map (fun e => ⟨e, none, 0, [0]⟩)], [gs.length]⟩

example : TracksBy exTSem exTP := fun _ _ _ _ => rfl
example : (hrun exTSem (hfresh ⟨[⟨100, 0, [11]⟩], [[1, 2]]⟩ [0]) [.add 0 0 (), .add 0 0 ()]).1.frameResults.length = 2 := by
  decide +kernel

end HeapTracking

end PEval.C13
