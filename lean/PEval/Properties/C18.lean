import PEval.Lemmas.Transform
import PEval.Lemmas.TransformMatrix
import PEval.Properties.C20
import Mathlib.Data.Rat.Sqrt
/-!
# C18 — coordinate transforms compose and invert consistently

Statements about the model `PEval.Model.Transform` of `common/transform.py`.  Rotations are
quaternions over `Rat` acting through the homogeneous rotation-matrix formula; "rigid transform"
means `normSq rot = 1`.  Composition laws are polynomial identities and need no such hypothesis;
the inverse laws need it for the transform that is inverted only (never for the pose transformed).
Orientation results are equalities of the quaternions themselves (hence also of their rotation
matrices).  The registry theorems quantify over every list of registered matrices (duplicates,
reverse pairs, X-to-X entries included), every argument form and every spelling of a frame.
-/
namespace PEval.C18
open PEval.Transform PEval.Enums PEval

/-! ## rotations -/

/-- rotating by a product is rotating twice (all quaternions; polynomial identity) -/
theorem rotate_mul (q1 q2 : Quat) (v : V3) : rotate (q1 * q2) v = rotate q1 (rotate q2 v) :=
  Transform.rotate_mul q1 q2 v

/-- both signs of a quaternion are the same rotation matrix -/
theorem rotMat_neg (q : Quat) : rotMat (-q) = rotMat q := Transform.rotMat_neg q

/-- a unit quaternion acts by an isometry -/
theorem rotate_isometry (q : Quat) (h : q.normSq = 1) (v : V3) :
    (rotate q v).dot (rotate q v) = v.dot v := rotate_normSq q h v

/-! ## inverse -/

/-- transform, then the inverse transform: original position and orientation -/
theorem inv_transform (A : HM) (hA : A.rot.normSq = 1) (p : V3) (r : Quat) :
    transformPose (inv A) (transformPose A (p, r)) = (p, r) := by
  simp only [transformPose, transformPos, inv]
  rw [rotate_add, rotate_conj_rotate _ hA, V3.add_neg_cancel', Quat.conj_mul_cancel _ _ hA]

/-- the inverse transform, then the transform: original position and orientation -/
theorem transform_inv (A : HM) (hA : A.rot.normSq = 1) (p : V3) (r : Quat) :
    transformPose A (transformPose (inv A) (p, r)) = (p, r) := by
  simp only [transformPose, transformPos, inv]
  rw [rotate_add, rotate_rotate_conj _ hA, rotate_vneg, rotate_rotate_conj _ hA,
    V3.neg_add_cancel_right', Quat.mul_conj_cancel _ _ hA]

/-- position-only calls -/
theorem inv_transform_pos (A : HM) (hA : A.rot.normSq = 1) (p : V3) :
    transformPos (inv A) (transformPos A p) = p := by
  have := congrArg Prod.fst (inv_transform A hA p Quat.one)
  simpa [transformPose] using this

theorem transform_inv_pos (A : HM) (hA : A.rot.normSq = 1) (p : V3) :
    transformPos A (transformPos (inv A) p) = p := by
  have := congrArg Prod.fst (transform_inv A hA p Quat.one)
  simpa [transformPose] using this

/-- the inverse is labelled the other way round, stays rigid, and inverting twice gives the matrix back -/
theorem inv_frames (A : HM) : (inv A).src = A.dst ∧ (inv A).dst = A.src := ⟨rfl, rfl⟩

theorem inv_unit (A : HM) (hA : A.rot.normSq = 1) : (inv A).rot.normSq = 1 := by
  simp only [inv, Quat.normSq_conj, hA]

theorem inv_inv (A : HM) (hA : A.rot.normSq = 1) : inv (inv A) = A := by
  cases A with
  | mk pos rot src dst =>
    simp only [inv, Quat.conj_conj, rotate_vneg]
    have h : rotate rot (rotate rot.conj pos) = pos := rotate_rotate_conj rot hA pos
    rw [h]
    congr 1
    ext <;> simp

/-- `A.inv().dot(A)` and `A.dot(A.inv())` are the identity motion on `A.src` resp. `A.dst` -/
theorem inv_dot_self (A : HM) (hA : A.rot.normSq = 1) :
    dot (inv A) A = .ok ⟨V3.zero, Quat.one, A.src, A.src⟩ := by
  simp only [dot, inv, ne_eq, not_true_eq_false, if_false]
  rw [Quat.conj_mul_self_unit _ hA]
  congr 2
  ext <;> simp [V3.zero]

theorem self_dot_inv (A : HM) (hA : A.rot.normSq = 1) :
    dot A (inv A) = .ok ⟨V3.zero, Quat.one, A.dst, A.dst⟩ := by
  simp only [dot, inv, ne_eq, not_true_eq_false, if_false]
  rw [Quat.self_mul_conj_unit _ hA, rotate_vneg, rotate_rotate_conj _ hA]
  congr 2
  ext <;> simp [V3.zero]

/-! ## composition -/

/-- `B.dot(A)` for `A : X→Y`, `B : Y→Z` exists and transforms like `A` followed by `B`
(position and orientation; all quaternions) -/
theorem dot_two_steps (B A : HM) (h : B.src = A.dst) :
    ∃ C, dot B A = .ok C ∧
      (∀ p r, transformPose C (p, r) = transformPose B (transformPose A (p, r))) ∧
      (∀ p, transformPos C p = transformPos B (transformPos A p)) := by
  refine ⟨⟨rotate B.rot A.pos + B.pos, B.rot * A.rot, A.src, B.dst⟩, ?_, ?_, ?_⟩
  · simp [dot, h]
  · intro p r
    simp only [transformPose, transformPos]
    rw [Transform.rotate_mul, rotate_add, Quat.mul_assoc']
    congr 1
    ext <;> simp <;> ring
  · intro p
    simp only [transformPos]
    rw [Transform.rotate_mul, rotate_add]
    ext <;> simp <;> ring

/-- the composite is labelled `A.src → B.dst` -/
theorem dot_frames (B A C : HM) (h : dot B A = .ok C) : C.src = A.src ∧ C.dst = B.dst := by
  unfold dot at h
  split at h
  · cases h
  · cases h; exact ⟨rfl, rfl⟩

/-- composition with mismatched frames is rejected -/
theorem dot_mismatch_error (B A : HM) (h : B.src ≠ A.dst) : dot B A = .error "ValueError" := by
  simp [dot, h]

/-- … and only then -/
theorem dot_ok_iff (B A : HM) : (∃ C, dot B A = .ok C) ↔ B.src = A.dst := by
  constructor
  · rintro ⟨C, hC⟩
    by_cases h : B.src = A.dst
    · exact h
    · rw [dot_mismatch_error B A h] at hC; cases hC
  · intro h
    obtain ⟨C, hC, _⟩ := dot_two_steps B A h
    exact ⟨C, hC⟩

/-- composition keeps rigid motions rigid -/
theorem dot_unit (B A C : HM) (hB : B.rot.normSq = 1) (hA : A.rot.normSq = 1) (h : dot B A = .ok C) :
    C.rot.normSq = 1 := by
  unfold dot at h
  split at h
  · cases h
  · cases h; simp [Quat.normSq_mul, hA, hB]

/-- `A.transform(M)` is `M.dot(A)` -/
theorem transformHM_eq_dot (A M : HM) : transformHM A M = dot M A := rfl

/-- a chain of up to any number of frames: folding `dot` along a well-labelled chain transforms like
the steps one after the other (`steps` lists the matrices in the order they are applied) -/
theorem chain_steps (A : HM) (steps : List HM) (C : HM)
    (h : steps.foldlM (fun acc m => dot m acc) A = .ok C) (p : V3) (r : Quat) :
    transformPose C (p, r) = steps.foldl (fun pr m => transformPose m pr) (transformPose A (p, r)) := by
  induction steps generalizing A with
  | nil => simp only [List.foldlM_nil] at h; cases h; rfl
  | cons m ms ih =>
    simp only [List.foldlM_cons] at h
    cases hd : dot m A with
    | error e => rw [hd] at h; cases h
    | ok D =>
      rw [hd] at h
      have hsrc : m.src = A.dst := (dot_ok_iff m A).1 ⟨D, hd⟩
      obtain ⟨D', hD', hpose, _⟩ := dot_two_steps m A hsrc
      rw [hd] at hD'; cases hD'
      have := ih D h
      rw [this, hpose]
      rfl

/-! ## agreement with 4×4 homogeneous matrices -/

/-- transforming a pose = multiplying the homogeneous matrices (all quaternions) -/
theorem transform_eq_matmul (A : HM) (p : V3) (r : Quat) :
    matOf (transformPose A (p, r)).1 (transformPose A (p, r)).2 = matMul (toMat A) (matOf p r) := by
  ext <;> simp [transformPose, transformPos, toMat, matOf, matMul, rowMul, rotate, rotMat, Mat3.mulVec,
    V3.dot] <;> ring

/-- the position-only call reads the translation column of `A.matrix · [[I, p], [0, 1]]` -/
theorem transformPos_eq_matmul (A : HM) (p : V3) :
    let M := matMul (toMat A) (matOf p Quat.one)
    transformPos A p = ⟨M.r0.d, M.r1.d, M.r2.d⟩ := by
  ext <;> simp [transformPos, toMat, matOf, matMul, rowMul, rotate, rotMat, Mat3.mulVec, V3.dot,
    Quat.one]

/-- `dot` is the matrix product -/
theorem dot_eq_matmul (B A C : HM) (h : dot B A = .ok C) : toMat C = matMul (toMat B) (toMat A) := by
  unfold dot at h
  split at h
  · cases h
  · cases h
    exact transform_eq_matmul B A.pos A.rot

/-- `inv` is the matrix inverse (what `numpy.linalg.inv` returns), for a rigid motion -/
theorem inv_matmul (A : HM) (hA : A.rot.normSq = 1) :
    matMul (toMat (inv A)) (toMat A) = Mat4.one ∧ matMul (toMat A) (toMat (inv A)) = Mat4.one := by
  have h1 := dot_eq_matmul _ _ _ (inv_dot_self A hA)
  have h2 := dot_eq_matmul _ _ _ (self_dot_inv A hA)
  have hone : ∀ s d, toMat ⟨V3.zero, Quat.one, s, d⟩ = Mat4.one := by
    intro s d
    ext <;> simp [toMat, matOf, rotMat, Quat.one, V3.zero, Mat4.one]
  rw [hone] at h1 h2
  exact ⟨h1.symm, h2.symm⟩

/-! ## the registry -/

/-- what "registered under X-to-Y" means: the last matrix of the list labelled X-to-Y -/
theorem lookup_registered (pre post : List HM) (m : HM) (h : ∀ m' ∈ post, m'.key ≠ m.key) :
    lookup (pre ++ m :: post) m.key = some m := lookup_append_last pre post m h

theorem lookup_sound (d : List HM) (k : String × String) (m : HM) (h : lookup d k = some m) :
    m ∈ d ∧ m.src = k.1 ∧ m.dst = k.2 := by
  have := lookup_some_key h
  refine ⟨this.1, ?_, ?_⟩
  · rw [← this.2]; rfl
  · rw [← this.2]; rfl

theorem lookup_none_iff (d : List HM) (k : String × String) :
    lookup d k = none ↔ ∀ m ∈ d, (m.src, m.dst) ≠ k := lookup_eq_none_iff

/-- X-to-Y registered: answered with that matrix -/
theorem lookup_direct (d : List HM) (ks kd : Arg) (s t : String) (m : HM) (x : TArg)
    (hk : transformKey ks kd = .ok (s, t)) (hne : s ≠ t) (hm : lookup d (s, t) = some m) :
    dictTransform d ks kd x = m.transform x := by
  simp only [dictTransform, hk, bind, Except.bind, hne, if_false, hm]

/-- X-to-Y not registered, Y-to-X registered: answered with the inverse of that matrix -/
theorem lookup_inverse (d : List HM) (ks kd : Arg) (s t : String) (m : HM) (x : TArg)
    (hk : transformKey ks kd = .ok (s, t)) (hne : s ≠ t) (hnone : lookup d (s, t) = none)
    (hm : lookup d (t, s) = some m) :
    dictTransform d ks kd x = (inv m).transform x := by
  simp only [dictTransform, hk, bind, Except.bind, hne, if_false, hnone, hm]

/-- X-to-X: the input comes back unchanged, whatever is registered -/
theorem lookup_identity_key (d : List HM) (ks kd : Arg) (s : String) (x : TArg)
    (hk : transformKey ks kd = .ok (s, s)) (hx : x.malformed = none) :
    dictTransform d ks kd x = .ok x := by
  simp only [dictTransform, hk, bind, Except.bind, if_true, hx]
  rfl

/-- the three documented spellings of a frame: the member, its lower-case name, its upper-case name -/
def spellings (p : String × String) : List Arg := [.member p.1, .str p.2, .str p.2.toUpper]

theorem frameOfArg_spelling : ∀ p ∈ Gen.frameID, ∀ a ∈ spellings p, frameOfArg a = .ok p.1 := by
  intro p hp a ha
  simp only [spellings, List.mem_cons, List.mem_nil_iff, or_false] at ha
  rcases ha with rfl | rfl | rfl
  · rfl
  · simp [frameOfArg, C20.roundtrip_frame p hp]
  · simp [frameOfArg, C20.roundtrip_frame_upper p hp]

theorem transformKey_spelling : ∀ p ∈ Gen.frameID, ∀ r ∈ Gen.frameID, ∀ a ∈ spellings p, ∀ b ∈ spellings r,
    transformKey a b = .ok (p.1, r.1) := by
  intro p hp r hr a ha b hb
  simp only [transformKey, frameOfArg_spelling p hp a ha, frameOfArg_spelling r hr b hb, bind, Except.bind]
  rfl

/-- a matrix may be constructed with either spelling of its frames -/
theorem mk_spelling : ∀ p ∈ Gen.frameID, ∀ r ∈ Gen.frameID, ∀ a ∈ spellings p, ∀ b ∈ spellings r,
    ∀ (pos : V3) (rot : Quat), HM.mk' pos rot a b = .ok ⟨pos, rot, p.1, r.1⟩ := by
  intro p hp r hr a ha b hb pos rot
  simp only [HM.mk', frameOfArg_spelling p hp a ha, frameOfArg_spelling r hr b hb, bind, Except.bind]
  rfl

/-- X-to-X for every frame and every pair of spellings (F14: `("MAP", "map")`) -/
theorem lookup_identity : ∀ p ∈ Gen.frameID, ∀ a ∈ spellings p, ∀ b ∈ spellings p,
    ∀ (d : List HM) (x : TArg), x.malformed = none → dictTransform d a b x = .ok x := by
  intro p hp a ha b hb d x hx
  exact lookup_identity_key d a b p.1 x (transformKey_spelling p hp p hp a ha b hb) hx

/-- neither direction registered: `KeyError` -/
theorem lookup_missing_keyerror (d : List HM) (ks kd : Arg) (s t : String) (x : TArg)
    (hk : transformKey ks kd = .ok (s, t)) (hne : s ≠ t)
    (h1 : ∀ m ∈ d, (m.src, m.dst) ≠ (s, t)) (h2 : ∀ m ∈ d, (m.src, m.dst) ≠ (t, s)) :
    dictTransform d ks kd x = .error "KeyError" := by
  have e1 : lookup d (s, t) = none := lookup_eq_none_iff.2 h1
  have e2 : lookup d (t, s) = none := lookup_eq_none_iff.2 h2
  simp only [dictTransform, hk, bind, Except.bind, hne, if_false, e1, e2]

/-- a key spelled with members, lower-case names or upper-case names (any mixture) gives the same answer -/
theorem key_spelling_irrelevant : ∀ p ∈ Gen.frameID, ∀ r ∈ Gen.frameID, ∀ a ∈ spellings p, ∀ b ∈ spellings r,
    ∀ (d : List HM) (x : TArg), dictTransform d a b x = dictTransform d (.member p.1) (.member r.1) x := by
  intro p hp r hr a ha b hb d x
  have h1 := transformKey_spelling p hp r hr a ha b hb
  have h2 : transformKey (.member p.1) (.member r.1) = .ok (p.1, r.1) := rfl
  simp only [dictTransform, h1, h2]

/-- a name that is no frame is rejected before anything is looked up -/
theorem key_unknown_name (d : List HM) (s : String) (kd : Arg) (x : TArg)
    (h : s.toLower ∉ values Gen.frameID) : dictTransform d (.str s) kd x = .error "ValueError" := by
  simp [dictTransform, transformKey, frameOfArg, C20.nonmember_frame s h, bind, Except.bind]

/-- the registry's answers obey the group laws too: querying Y-to-X after X-to-Y (only X-to-Y
registered) returns the original pose -/
theorem registry_roundtrip (d : List HM) (s t : String) (m : HM) (p : V3) (r : Quat)
    (hne : s ≠ t) (hm : lookup d (s, t) = some m) (hnone : lookup d (t, s) = none)
    (hu : m.rot.normSq = 1) :
    ∃ p' r', dictTransform d (.member s) (.member t) (.pose p r) = .ok (.pose p' r') ∧
      dictTransform d (.member t) (.member s) (.pose p' r') = .ok (.pose p r) := by
  have k1 : transformKey (.member s) (.member t) = .ok (s, t) := rfl
  have k2 : transformKey (.member t) (.member s) = .ok (t, s) := rfl
  refine ⟨(transformPose m (p, r)).1, (transformPose m (p, r)).2, ?_, ?_⟩
  · rw [lookup_direct d _ _ s t m _ k1 hne hm]; rfl
  · rw [lookup_inverse d _ _ t s m _ k2 (Ne.symm hne) hnone hm]
    have := inv_transform m hu p r
    simp only [HM.transform]
    rw [this]

/-! ## a modified registry answers from its current contents

`reg[key] = m` (`dictSet`), `del reg[key]` (`dictErase` / `dictDel`); `copy.deepcopy(reg)` is the same
list.  Whatever was registered or asked before, the answer after a modification is the one the
rule gives for the contents at the time of the query. -/

theorem lookup_cons_some {a : HM} {ds : List HM} {k : String × String} {r : HM} (h : lookup ds k = some r) :
    lookup (a :: ds) k = some r := by
  rw [lookup, h]

theorem lookup_cons_none {a : HM} {ds : List HM} {k : String × String} (h : lookup ds k = none) :
    lookup (a :: ds) k = if a.key = k then some a else none := by
  rw [lookup, h]

/-- after `reg[m.key] = m` the key `m.key` holds `m`; every other key holds what it held -/
theorem lookup_set (d : List HM) (m : HM) (k : String × String) :
    lookup (dictSet d m) k = if m.key = k then some m else lookup d k := by
  induction d with
  | nil => simp [dictSet, lookup]
  | cons a ds ih =>
    simp only [dictSet, List.cons_append] at ih ⊢
    by_cases h : m.key = k
    · rw [if_pos h] at ih ⊢
      exact lookup_cons_some ih
    · rw [if_neg h] at ih ⊢
      cases hl : lookup ds k with
      | some r => rw [hl] at ih; rw [lookup_cons_some ih, lookup_cons_some hl]
      | none => rw [hl] at ih; rw [lookup_cons_none ih, lookup_cons_none hl]

/-- after `del reg[k']` the key `k'` is not registered; every other key holds what it held -/
theorem lookup_erase (d : List HM) (k k' : String × String) :
    lookup (dictErase d k') k = if k = k' then none else lookup d k := by
  induction d with
  | nil => simp [dictErase, lookup]
  | cons a ds ih =>
    simp only [dictErase] at ih ⊢
    by_cases ha : a.key = k'
    · rw [List.filter_cons_of_neg (by simp [ha]), ih]
      by_cases hk : k = k'
      · simp [hk]
      · have hak : a.key ≠ k := by rw [ha]; exact fun e => hk e.symm
        simp only [if_neg hk]
        cases hl : lookup ds k with
        | some r => rw [lookup_cons_some hl]
        | none => rw [lookup_cons_none hl, if_neg hak]
    · rw [List.filter_cons_of_pos (by simp [ha])]
      by_cases hk : k = k'
      · rw [if_pos hk] at ih ⊢
        rw [lookup_cons_none ih, if_neg (by rw [hk]; exact ha)]
      · rw [if_neg hk] at ih ⊢
        cases hl : lookup ds k with
        | some r => rw [hl] at ih; rw [lookup_cons_some ih, lookup_cons_some hl]
        | none => rw [hl] at ih; rw [lookup_cons_none ih, lookup_cons_none hl]

/-- `del reg[k]` raises `KeyError` exactly when `k` is not registered, and otherwise leaves `dictErase` -/
theorem dictDel_spec (d : List HM) (k : String × String) :
    dictDel d k = if lookup d k = none then .error "KeyError" else .ok (dictErase d k) := by
  unfold dictDel
  cases lookup d k <;> simp

/-- X-to-Y (re-)registered: answered with the NEW matrix -/
theorem query_after_set_direct (d : List HM) (m : HM) (ks kd : Arg) (s t : String) (x : TArg)
    (hk : transformKey ks kd = .ok (s, t)) (hne : s ≠ t) (hm : m.key = (s, t)) :
    dictTransform (dictSet d m) ks kd x = m.transform x :=
  lookup_direct _ ks kd s t m x hk hne (by rw [lookup_set, if_pos hm])

/-- Y-to-X (re-)registered while X-to-Y is not: X-to-Y is answered with the inverse of the NEW
matrix (not with the inverse of an earlier Y-to-X) -/
theorem query_after_set_reverse (d : List HM) (m : HM) (ks kd : Arg) (s t : String) (x : TArg)
    (hk : transformKey ks kd = .ok (s, t)) (hne : s ≠ t) (hm : m.key = (t, s))
    (hnone : lookup d (s, t) = none) :
    dictTransform (dictSet d m) ks kd x = (inv m).transform x := by
  have hst : m.key ≠ (s, t) := by
    rw [hm]; intro e; exact hne (congrArg Prod.snd e)
  exact lookup_inverse _ ks kd s t m x hk hne (by rw [lookup_set, if_neg hst]; exact hnone)
    (by rw [lookup_set, if_pos hm])

/-- a registration under another pair of frames does not change the answer -/
theorem query_after_set_other (d : List HM) (m : HM) (ks kd : Arg) (s t : String) (x : TArg)
    (hk : transformKey ks kd = .ok (s, t)) (h1 : m.key ≠ (s, t)) (h2 : m.key ≠ (t, s)) :
    dictTransform (dictSet d m) ks kd x = dictTransform d ks kd x := by
  simp only [dictTransform, hk, bind, Except.bind, lookup_set, if_neg h1, if_neg h2]

/-- Y-to-X deleted while X-to-Y is not registered: X-to-Y raises `KeyError` (and so does Y-to-X) -/
theorem query_after_del (d : List HM) (ks kd : Arg) (s t : String) (x : TArg)
    (hk : transformKey ks kd = .ok (s, t)) (hne : s ≠ t) (hnone : lookup d (s, t) = none) :
    dictTransform (dictErase d (t, s)) ks kd x = .error "KeyError" := by
  have hts : (s, t) ≠ (t, s) := fun e => hne (congrArg Prod.fst e)
  simp only [dictTransform, hk, bind, Except.bind, hne, if_false, lookup_erase, if_neg hts, hnone, if_true]

/-- deleting Y-to-X while X-to-Y is registered leaves Y-to-X answered with the inverse of X-to-Y -/
theorem query_after_del_falls_back (d : List HM) (m : HM) (ks kd : Arg) (s t : String) (x : TArg)
    (hk : transformKey ks kd = .ok (t, s)) (hne : s ≠ t) (hm : lookup d (s, t) = some m) :
    dictTransform (dictErase d (t, s)) ks kd x = (inv m).transform x := by
  have hts : (s, t) ≠ (t, s) := fun e => hne (congrArg Prod.fst e)
  exact lookup_inverse _ ks kd t s m x hk (Ne.symm hne) (by rw [lookup_erase, if_pos rfl])
    (by rw [lookup_erase, if_neg hts]; exact hm)

/-! ## every access path of the registry reads its key the same way

`reg.get(key)`, `reg[key]`, `key in reg` and `reg.transform(key, …)` all normalise the key (a
`TransformKey`, or a pair of members / names in either case) before the dictionary is asked, so
they agree with one another for every spelling. -/

/-- `get`: the spelling of the key is irrelevant -/
theorem get_spelling_irrelevant : ∀ p ∈ Gen.frameID, ∀ r ∈ Gen.frameID, ∀ a ∈ spellings p, ∀ b ∈ spellings r,
    ∀ (d : List HM), dictGet d a b = .ok (lookup d (p.1, r.1)) := by
  intro p hp r hr a ha b hb d
  simp only [dictGet, transformKey_spelling p hp r hr a ha b hb, bind, Except.bind]
  rfl

/-- `reg[key]`: the spelling of the key is irrelevant -/
theorem getitem_spelling_irrelevant : ∀ p ∈ Gen.frameID, ∀ r ∈ Gen.frameID, ∀ a ∈ spellings p, ∀ b ∈ spellings r,
    ∀ (d : List HM), dictGetItem d a b = dictGetItem d (.member p.1) (.member r.1) := by
  intro p hp r hr a ha b hb d
  have h2 : transformKey (.member p.1) (.member r.1) = .ok (p.1, r.1) := rfl
  simp only [dictGetItem, transformKey_spelling p hp r hr a ha b hb, h2]

/-- `key in reg`: the spelling of the key is irrelevant -/
theorem contains_spelling_irrelevant : ∀ p ∈ Gen.frameID, ∀ r ∈ Gen.frameID, ∀ a ∈ spellings p, ∀ b ∈ spellings r,
    ∀ (d : List HM), dictContains d a b = .ok (lookup d (p.1, r.1)).isSome := by
  intro p hp r hr a ha b hb d
  simp only [dictContains, transformKey_spelling p hp r hr a ha b hb, bind, Except.bind]
  rfl

/-- `reg[key]` is `reg.get(key)` with `KeyError` in place of `None`, for every key (unknown names included) -/
theorem getitem_eq_get (d : List HM) (ks kd : Arg) :
    dictGetItem d ks kd = (dictGet d ks kd).bind (fun o => match o with | some m => .ok m | none => .error "KeyError") := by
  unfold dictGetItem dictGet
  cases transformKey ks kd <;> rfl

/-- `key in reg` says whether `reg.get(key)` finds something -/
theorem contains_eq_get (d : List HM) (ks kd : Arg) :
    dictContains d ks kd = (dictGet d ks kd).map Option.isSome := by
  unfold dictContains dictGet
  cases transformKey ks kd <;> rfl

/-- a name that is no frame is rejected by every path before anything is looked up -/
theorem get_unknown_name (d : List HM) (s : String) (kd : Arg) (h : s.toLower ∉ values Gen.frameID) :
    dictGet d (.str s) kd = .error "ValueError" ∧ dictGetItem d (.str s) kd = .error "ValueError" ∧
    dictContains d (.str s) kd = .error "ValueError" := by
  simp [dictGet, dictGetItem, dictContains, transformKey, frameOfArg, C20.nonmember_frame s h, bind, Except.bind]

/-- `transform` answers X-to-Y (X ≠ Y) from what `get` finds under the same key: the matrix itself … -/
theorem transform_of_get_direct (d : List HM) (ks kd : Arg) (s t : String) (m : HM) (x : TArg)
    (hk : transformKey ks kd = .ok (s, t)) (hne : s ≠ t) (hg : dictGet d ks kd = .ok (some m)) :
    dictTransform d ks kd x = m.transform x := by
  have hm : lookup d (s, t) = some m := by
    simp only [dictGet, hk, bind, Except.bind] at hg
    exact Except.ok.inj hg
  exact lookup_direct d ks kd s t m x hk hne hm

/-- … or, when `get` finds nothing, the inverse of what `get` finds under the reversed key -/
theorem transform_of_get_reverse (d : List HM) (ks kd : Arg) (s t : String) (m : HM) (x : TArg)
    (hk : transformKey ks kd = .ok (s, t)) (hne : s ≠ t) (hg : dictGet d ks kd = .ok none)
    (hr : dictGet d kd ks = .ok (some m)) :
    dictTransform d ks kd x = (inv m).transform x := by
  have hk' : transformKey kd ks = .ok (t, s) := by
    simp only [transformKey, bind, Except.bind] at hk ⊢
    cases h1 : frameOfArg ks with
    | error e => simp [h1] at hk
    | ok a =>
      cases h2 : frameOfArg kd with
      | error e => simp [h1, h2] at hk
      | ok b =>
        simp only [h1, h2] at hk ⊢
        have := Except.ok.inj hk
        simp only [Prod.mk.injEq] at this
        rw [this.1, this.2]; rfl
  have hnone : lookup d (s, t) = none := by
    simp only [dictGet, hk, bind, Except.bind] at hg
    exact Except.ok.inj hg
  have hm : lookup d (t, s) = some m := by
    simp only [dictGet, hk', bind, Except.bind] at hr
    exact Except.ok.inj hr
  exact lookup_inverse d ks kd s t m x hk hne hnone hm

/-- after `reg[m.key] = m`, `get` under `m`'s key (any spelling) finds `m`; other keys are unaffected -/
theorem get_after_set (d : List HM) (m : HM) (ks kd : Arg) (k : String × String)
    (hk : transformKey ks kd = .ok k) :
    dictGet (dictSet d m) ks kd = .ok (if m.key = k then some m else lookup d k) := by
  simp only [dictGet, hk, bind, Except.bind, lookup_set]
  rfl

/-- after `del reg[k']`, `get` under `k'` (any spelling) finds nothing; other keys are unaffected -/
theorem get_after_del (d : List HM) (ks kd : Arg) (k k' : String × String)
    (hk : transformKey ks kd = .ok k) :
    dictGet (dictErase d k') ks kd = .ok (if k = k' then none else lookup d k) := by
  simp only [dictGet, hk, bind, Except.bind, lookup_erase]
  rfl

/-! ## non-vacuity: concrete rigid motions, chains and registries -/

/-- rotation by the unit quaternion (1, 2, 2, 4)/5 with a translation, base_link → map -/
def exA : HM := ⟨⟨1, -2, 1/2⟩, ⟨1/5, 2/5, 2/5, 4/5⟩, "BASE_LINK", "MAP"⟩
/-- rotation by −(2, 3, 6, 0)/7, cam_front → base_link -/
def exB : HM := ⟨⟨3, 0, -1/4⟩, ⟨-2/7, -3/7, -6/7, 0⟩, "CAM_FRONT", "BASE_LINK"⟩

example : exA.rot.normSq = 1 := by decide +kernel
example : exB.rot.normSq = 1 := by decide +kernel
example : exA.src = exB.dst := by decide
example : exB.src ≠ exA.dst := by decide
example : dot exB exA = .error "ValueError" := by decide
example : ∃ C, dot exA exB = .ok C ∧ C.src = "CAM_FRONT" ∧ C.dst = "MAP" := ⟨_, rfl, rfl, rfl⟩
example : transformPos exA ⟨1, 0, 0⟩ ≠ ⟨1, 0, 0⟩ := by decide +kernel
example : transformKey (.str "MAP") (.str "map") = .ok ("MAP", "MAP") := by decide +kernel
example : ("MAP", "map") ∈ Gen.frameID := by decide
example : lookup [exA, exB] ("BASE_LINK", "MAP") = some exA := by decide +kernel
example : lookup [exA, exB] ("MAP", "BASE_LINK") = none := by decide +kernel
example : dictTransform [exA, exB] (.str "map") (.str "BASE_LINK") (.pos ⟨1, 0, 0⟩)
    = (inv exA).transform (.pos ⟨1, 0, 0⟩) := by decide +kernel
example : dictTransform [exA, exB] (.str "map") (.member "CAM_FRONT") (.pos ⟨1, 0, 0⟩) = .error "KeyError" := by
  decide +kernel
/-- a second base_link → map (the ego pose of the next frame) -/
def exA' : HM := ⟨⟨5, 3, 1⟩, ⟨0, 3/5, 4/5, 0⟩, "BASE_LINK", "MAP"⟩
example : exA'.key = ("BASE_LINK", "MAP") ∧ exA' ≠ exA := by decide +kernel
example : lookup [exA] ("MAP", "BASE_LINK") = none := by decide +kernel
example : dictTransform (dictSet [exA] exA') (.str "map") (.str "base_link") (.pos ⟨1, 0, 0⟩)
    = (inv exA').transform (.pos ⟨1, 0, 0⟩) := by decide +kernel
example : (inv exA').transform (.pos ⟨1, 0, 0⟩) ≠ (inv exA).transform (.pos ⟨1, 0, 0⟩) := by decide +kernel
example : dictDel [exA, exB] ("BASE_LINK", "MAP") = .ok [exB] := by decide +kernel
example : dictDel [exB] ("BASE_LINK", "MAP") = .error "KeyError" := by decide +kernel
example : dictTransform (dictErase [exA, exB] ("BASE_LINK", "MAP")) (.str "map") (.str "base_link") (.pos ⟨1, 0, 0⟩)
    = .error "KeyError" := by decide +kernel
example : dictGet [exA, exB] (.str "BASE_LINK") (.str "MAP") = .ok (some exA) := by decide +kernel
example : dictGet [exA, exB] (.member "MAP") (.str "base_link") = .ok none := by decide +kernel
example : dictGetItem [exA, exB] (.str "Map") (.str "base_link") = .error "KeyError" := by decide +kernel
example : dictGetItem [exA, exB] (.str "CAM_FRONT") (.member "BASE_LINK") = .ok exB := by decide +kernel
example : dictContains [exA, exB] (.str "CAM_FRONT") (.member "BASE_LINK") = .ok true := by decide +kernel
example : dictGet [exA] (.str "bogus") (.str "map") = .error "ValueError" := by decide +kernel
example : (TArg.pos ⟨1, 0, 0⟩).malformed = none := rfl
example : ("bogus" : String).toLower ∉ values Gen.frameID := by decide +kernel

/-! # Matrix input and the re-extracted quaternion: orientation results up to sign (audit C18-1)

`PEval.Model.TransformMatrix`.  Python determines an orientation result of `dot`, `inv`, `transform(position, rotation)`,
`from_matrix` and of a constructor fed with a rotation matrix only up to the sign of the quaternion (`Quaternion(matrix=R)`).
`q.SignEq q'` is that relation; for unit quaternions it is the same as `rotMat q = rotMat q'` (`rotMat_eq_iff`), which is
what the harness compares.  `ExtractOK ex` is the contract of the extraction (ONE named hypothesis; pyquaternion is in the
trusted base) and every call site below takes its own extraction function.  Exact equality is kept where the code keeps
the quaternion it was given (`mk_spelling`: constructor with a quaternion; `lookup_identity`: X-to-X returns the input
object; `get`/`[]`: the registered object). -/

/-- equality up to sign is an equivalence relation, compatible with product and conjugate, and preserves the norm -/
theorem signEq_equivalence :
    (∀ q : Quat, q.SignEq q) ∧ (∀ p q : Quat, p.SignEq q → q.SignEq p) ∧
    (∀ p q r : Quat, p.SignEq q → q.SignEq r → p.SignEq r) ∧ (∀ q : Quat, (-q).SignEq q) ∧
    (∀ p p' q q' : Quat, p.SignEq p' → q.SignEq q' → (p * q).SignEq (p' * q')) ∧
    (∀ p q : Quat, p.SignEq q → p.conj.SignEq q.conj) ∧ (∀ p q : Quat, p.SignEq q → p.normSq = q.normSq) :=
  ⟨Quat.SignEq.refl, fun _ _ h => h.symm, fun _ _ _ h1 h2 => h1.trans h2, Quat.signEq_neg,
    fun _ _ _ _ h1 h2 => h1.mul h2, fun _ _ h => h.conj, fun _ _ h => h.normSq⟩

/-- `rotation_matrix(q) = rotation_matrix(q')` exactly when `q' = ±q` (unit quaternions): the class `{q, −q}` IS the rotation -/
theorem rotMat_eq_iff {p q : Quat} (hp : p.normSq = 1) (hq : q.normSq = 1) : rotMat p = rotMat q ↔ p.SignEq q :=
  rotMat_eq_iff_signEq hp hq

/-- matrix input: whatever representative the matrix was written down from, the extraction returns one of `q`, `−q` -/
theorem extract_returns_representative {ex : Mat3 → Quat} (hex : ExtractOK ex) {q : Quat} (hq : q.normSq = 1) :
    (ex (rotMat q)).SignEq q ∧ (ex (rotMat (-q))).SignEq q ∧ (ex (rotMat q)).normSq = 1 := by
  refine ⟨hex.signEq hq, ?_, (hex q hq).1⟩
  rw [Transform.rotMat_neg]; exact hex.signEq hq

/-- `HomogeneousMatrix(position, R(q), src, dst)`: the matrix is the one of `(position, q)`, the quaternion is `±q` -/
theorem ofMat3_signEq {ex : Mat3 → Quat} (hex : ExtractOK ex) (pos : V3) {q : Quat} (hq : q.normSq = 1) (s d : String) :
    (HM.ofMat3 ex pos (rotMat q) s d).SignEq ⟨pos, q, s, d⟩ ∧ toMat (HM.ofMat3 ex pos (rotMat q) s d) = matOf pos q :=
  ⟨⟨rfl, hex.signEq hq, rfl, rfl⟩, matOf_congr pos (hex q hq).2⟩

/-- `HomogeneousMatrix.from_matrix(M, src, dst)` for the 4×4 matrix of `(position, q)` -/
theorem fromMatrix_signEq {ex : Mat3 → Quat} (hex : ExtractOK ex) (pos : V3) {q : Quat} (hq : q.normSq = 1) (s d : String) :
    (HM.fromMatrix ex (matOf pos q) s d).SignEq ⟨pos, q, s, d⟩ ∧ toMat (HM.fromMatrix ex (matOf pos q) s d) = matOf pos q :=
  ⟨⟨rfl, hex.signEq hq, rfl, rfl⟩, matOf_congr pos (hex q hq).2⟩

/-- `dot` as the code computes it (matrix product, then extraction) is rejected in the same cases … -/
theorem dotX_ok_iff (ex : Mat3 → Quat) (B A : HM) : (∃ C, dotX ex B A = .ok C) ↔ B.src = A.dst := by
  unfold dotX
  by_cases h : B.src = A.dst
  · simp [h]
  · simp [h]

theorem dotX_mismatch_error (ex : Mat3 → Quat) (B A : HM) (h : B.src ≠ A.dst) : dotX ex B A = .error "ValueError" := by
  simp [dotX, h]

/-- … and otherwise returns the model's composite up to the sign of the quaternion, with the same `.matrix` -/
theorem dotX_refines {ex : Mat3 → Quat} (hex : ExtractOK ex) (B A C : HM) (hB : B.rot.normSq = 1) (hA : A.rot.normSq = 1)
    (h : dot B A = .ok C) : ∃ C', dotX ex B A = .ok C' ∧ C'.SignEq C ∧ C'.rot.normSq = 1 ∧ toMat C' = toMat C := by
  have hsrc : B.src = A.dst := (dot_ok_iff B A).1 ⟨C, h⟩
  have hC : C = ⟨rotate B.rot A.pos + B.pos, B.rot * A.rot, A.src, B.dst⟩ := by
    simp only [dot, hsrc, ne_eq, not_true_eq_false, if_false] at h
    exact (Except.ok.inj h).symm
  have hu : (B.rot * A.rot).normSq = 1 := by rw [Quat.normSq_mul, hA, hB]; norm_num
  have e : matMul (toMat B) (toMat A) = matOf (transformPos B A.pos) (B.rot * A.rot) := matMul_toMat_matOf B A.pos A.rot
  refine ⟨⟨transformPos B A.pos, ex (rotMat (B.rot * A.rot)), A.src, B.dst⟩, ?_, ?_, (hex _ hu).1, ?_⟩
  · simp only [dotX, hsrc, ne_eq, not_true_eq_false, if_false, e, extractPR_matOf]
  · rw [hC]; exact ⟨rfl, hex.signEq hu, rfl, rfl⟩
  · rw [hC]; exact toMat_congr rfl (hex _ hu).2

/-- `inv` as the code computes it -/
theorem invX_signEq {ex : Mat3 → Quat} (hex : ExtractOK ex) (A : HM) (hA : A.rot.normSq = 1) :
    (invX ex A).SignEq (inv A) ∧ (invX ex A).rot.normSq = 1 ∧ toMat (invX ex A) = toMat (inv A) := by
  have hu : A.rot.conj.normSq = 1 := by rw [Quat.normSq_conj]; exact hA
  have e : invX ex A = ⟨(inv A).pos, ex (rotMat A.rot.conj), A.dst, A.src⟩ := rfl
  rw [e]
  exact ⟨⟨rfl, hex.signEq hu, rfl, rfl⟩, (hex _ hu).1, toMat_congr rfl (hex _ hu).2⟩

/-- `transform(position, rotation)` as the code computes it: the model's pose up to the sign of the quaternion -/
theorem transformPoseX_poseEq {ex : Mat3 → Quat} (hex : ExtractOK ex) (A : HM) (hA : A.rot.normSq = 1) (p : V3) (r : Quat)
    (hr : r.normSq = 1) :
    PoseEq (transformPoseX ex A (p, r)) (transformPose A (p, r)) ∧ (transformPoseX ex A (p, r)).2.normSq = 1 ∧
      rotMat (transformPoseX ex A (p, r)).2 = rotMat (transformPose A (p, r)).2 := by
  have hu : (A.rot * r).normSq = 1 := by rw [Quat.normSq_mul, hA, hr]; norm_num
  have e : transformPoseX ex A (p, r) = (transformPos A p, ex (rotMat (A.rot * r))) := by
    simp only [transformPoseX, matMul_toMat_matOf, extractPR_matOf]
  rw [e]
  exact ⟨⟨rfl, hex.signEq hu⟩, (hex _ hu).1, (hex _ hu).2⟩

/-- … also when the rotation of the pose is handed over as a 3×3 array -/
theorem transformPoseMatX_poseEq {ex : Mat3 → Quat} (hex : ExtractOK ex) (A : HM) (hA : A.rot.normSq = 1) (p : V3) (r : Quat)
    (hr : r.normSq = 1) : PoseEq (transformPoseMatX ex A p (rotMat r)) (transformPose A (p, r)) :=
  (transformPoseX_poseEq hex A hA p r hr).1

/-- the results do not see which representative an input was written with (they are functions of the 4×4 matrices) -/
theorem X_sign_blind (ex : Mat3 → Quat) {A A' B B' : HM} {r r' : Quat} (p : V3) (hA : A.SignEq A') (hB : B.SignEq B')
    (hr : r.SignEq r') :
    transformPoseX ex A (p, r) = transformPoseX ex A' (p, r') ∧ dotX ex B A = dotX ex B' A' ∧ invX ex A = invX ex A' := by
  have eA := hA.toMat_eq
  have eB := hB.toMat_eq
  refine ⟨?_, ?_, ?_⟩
  · simp only [transformPoseX, eA, matOf_congr p hr.rotMat_eq]
  · simp only [dotX, eA, eB, hA.2.2.1, hA.2.2.2, hB.2.2.1, hB.2.2.2]
  · have hi : (inv A).SignEq (inv A') := by
      refine ⟨?_, hA.2.1.conj, hA.2.2.2, hA.2.2.1⟩
      simp only [inv, rotate, hA.2.1.conj.rotMat_eq, hA.1]
    simp only [invX, hi.toMat_eq, hA.2.2.1, hA.2.2.2]

/-- transforming a pose agrees with multiplying the homogeneous matrices — exactly, as matrices -/
theorem transform_eq_matmul_X {ex : Mat3 → Quat} (hex : ExtractOK ex) (A : HM) (hA : A.rot.normSq = 1) (p : V3) (r : Quat)
    (hr : r.normSq = 1) :
    matOf (transformPoseX ex A (p, r)).1 (transformPoseX ex A (p, r)).2 = matMul (toMat A) (matOf p r) := by
  have h := transformPoseX_poseEq hex A hA p r hr
  rw [h.1.1, matOf_congr _ h.2.2]
  exact transform_eq_matmul A p r

/-- transform, then the inverse transform — three independent extractions: the original position, the original
orientation up to sign -/
theorem inv_transform_X {ex1 ex2 ex3 : Mat3 → Quat} (h1 : ExtractOK ex1) (h2 : ExtractOK ex2) (h3 : ExtractOK ex3)
    (A : HM) (hA : A.rot.normSq = 1) (p : V3) (r : Quat) (hr : r.normSq = 1) :
    PoseEq (transformPoseX ex3 (invX ex2 A) (transformPoseX ex1 A (p, r))) (p, r) := by
  have t1 := transformPoseX_poseEq h1 A hA p r hr
  have i2 := invX_signEq h2 A hA
  have e : transformPoseX ex3 (invX ex2 A) (transformPoseX ex1 A (p, r))
      = transformPoseX ex3 (inv A) (transformPose A (p, r)) := by
    have := (X_sign_blind ex3 (transformPose A (p, r)).1 i2.1 (HM.SignEq.refl A) t1.1.2).1
    exact (congrArg (transformPoseX ex3 (invX ex2 A))
      (Prod.ext t1.1.1 rfl : transformPoseX ex1 A (p, r) = ((transformPose A (p, r)).1, (transformPoseX ex1 A (p, r)).2))).trans
      this
  rw [e]
  have hu : (transformPose A (p, r)).2.normSq = 1 := by
    simp only [transformPose, Quat.normSq_mul, hA, hr]; norm_num
  have t3 := (transformPoseX_poseEq h3 (inv A) (inv_unit A hA) (transformPose A (p, r)).1 (transformPose A (p, r)).2 hu).1
  rw [show ((transformPose A (p, r)).1, (transformPose A (p, r)).2) = transformPose A (p, r) from rfl,
    inv_transform A hA p r] at t3
  exact t3

/-- the inverse transform, then the transform -/
theorem transform_inv_X {ex1 ex2 ex3 : Mat3 → Quat} (h1 : ExtractOK ex1) (h2 : ExtractOK ex2) (h3 : ExtractOK ex3)
    (A : HM) (hA : A.rot.normSq = 1) (p : V3) (r : Quat) (hr : r.normSq = 1) :
    PoseEq (transformPoseX ex3 A (transformPoseX ex2 (invX ex1 A) (p, r))) (p, r) := by
  have i1 := invX_signEq h1 A hA
  have t2 := transformPoseX_poseEq h2 (inv A) (inv_unit A hA) p r hr
  have e2 : transformPoseX ex2 (invX ex1 A) (p, r) = transformPoseX ex2 (inv A) (p, r) :=
    (X_sign_blind ex2 p i1.1 (HM.SignEq.refl A) (Quat.SignEq.refl r)).1
  rw [e2]
  have e : transformPoseX ex3 A (transformPoseX ex2 (inv A) (p, r)) = transformPoseX ex3 A (transformPose (inv A) (p, r)) := by
    have := (X_sign_blind ex3 (transformPose (inv A) (p, r)).1 (HM.SignEq.refl A) (HM.SignEq.refl A) t2.1.2).1
    exact (congrArg (transformPoseX ex3 A)
      (Prod.ext t2.1.1 rfl :
        transformPoseX ex2 (inv A) (p, r) = ((transformPose (inv A) (p, r)).1, (transformPoseX ex2 (inv A) (p, r)).2))).trans
      this
  rw [e]
  have hu : (transformPose (inv A) (p, r)).2.normSq = 1 := by
    simp only [transformPose, Quat.normSq_mul, inv_unit A hA, hr]; norm_num
  have t3 := (transformPoseX_poseEq h3 A hA (transformPose (inv A) (p, r)).1 (transformPose (inv A) (p, r)).2 hu).1
  rw [show ((transformPose (inv A) (p, r)).1, (transformPose (inv A) (p, r)).2) = transformPose (inv A) (p, r) from rfl,
    transform_inv A hA p r] at t3
  exact t3

/-- inverting twice gives the matrix back, the quaternion up to sign -/
theorem inv_inv_X {ex1 ex2 : Mat3 → Quat} (h1 : ExtractOK ex1) (h2 : ExtractOK ex2) (A : HM) (hA : A.rot.normSq = 1) :
    (invX ex2 (invX ex1 A)).SignEq A := by
  have i1 := invX_signEq h1 A hA
  have e : invX ex2 (invX ex1 A) = invX ex2 (inv A) :=
    (X_sign_blind ex2 ⟨0, 0, 0⟩ i1.1 (HM.SignEq.refl A) (Quat.SignEq.refl Quat.one)).2.2
  rw [e]
  have i2 := (invX_signEq h2 (inv A) (inv_unit A hA)).1
  rw [inv_inv A hA] at i2
  exact i2

/-- composing A-to-B with B-to-C exists, is labelled A-to-C, stays rigid, and transforms like the two steps — each of the four
calls with its own extraction; orientations up to sign -/
theorem dot_two_steps_X {ex1 ex2 ex3 ex4 : Mat3 → Quat} (h1 : ExtractOK ex1) (h2 : ExtractOK ex2) (h3 : ExtractOK ex3)
    (h4 : ExtractOK ex4) (B A : HM) (hB : B.rot.normSq = 1) (hA : A.rot.normSq = 1) (h : B.src = A.dst) :
    ∃ C, dotX ex1 B A = .ok C ∧ C.src = A.src ∧ C.dst = B.dst ∧ C.rot.normSq = 1 ∧
      ∀ p r, r.normSq = 1 →
        PoseEq (transformPoseX ex2 C (p, r)) (transformPoseX ex3 B (transformPoseX ex4 A (p, r))) := by
  obtain ⟨C0, hC0, hpose, _⟩ := dot_two_steps B A h
  obtain ⟨C, hC, hCs, hCu, _⟩ := dotX_refines h1 B A C0 hB hA hC0
  have hfr := dot_frames B A C0 hC0
  have hC0u := dot_unit B A C0 hB hA hC0
  refine ⟨C, hC, by rw [hCs.2.2.1]; exact hfr.1, by rw [hCs.2.2.2]; exact hfr.2, hCu, ?_⟩
  intro p r hr
  have t4 := transformPoseX_poseEq h4 A hA p r hr
  have hu : (transformPose A (p, r)).2.normSq = 1 := by
    simp only [transformPose, Quat.normSq_mul, hA, hr]; norm_num
  -- left side: the model's composite applied to (p, r)
  have eL : transformPoseX ex2 C (p, r) = transformPoseX ex2 C0 (p, r) :=
    (X_sign_blind ex2 p hCs (HM.SignEq.refl A) (Quat.SignEq.refl r)).1
  have tL := (transformPoseX_poseEq h2 C0 hC0u p r hr).1
  -- right side: the two steps
  have eR : transformPoseX ex3 B (transformPoseX ex4 A (p, r)) = transformPoseX ex3 B (transformPose A (p, r)) := by
    have := (X_sign_blind ex3 (transformPose A (p, r)).1 (HM.SignEq.refl B) (HM.SignEq.refl A) t4.1.2).1
    exact (congrArg (transformPoseX ex3 B)
      (Prod.ext t4.1.1 rfl : transformPoseX ex4 A (p, r) = ((transformPose A (p, r)).1, (transformPoseX ex4 A (p, r)).2))).trans
      this
  have tR := (transformPoseX_poseEq h3 B hB (transformPose A (p, r)).1 (transformPose A (p, r)).2 hu).1
  rw [eL, eR]
  refine tL.trans ?_
  rw [hpose p r]
  exact tR.symm

/-! ### `transform` and the registry as the code computes them: the model's answer up to the sign of the quaternion -/

theorem TArg.SignEq.refl (x : TArg) : x.SignEq x := by
  cases x <;> simp only [TArg.SignEq]
  · exact ⟨trivial, Quat.SignEq.refl _⟩
  · exact HM.SignEq.refl _

theorem TArg.SignEq.malformed {x x' : TArg} (h : x.SignEq x') : x.malformed = x'.malformed := by
  cases x <;> cases x' <;> first | rfl | (simp [TArg.SignEq] at h)

theorem transformPos_congr {a a' : HM} (h : a.SignEq a') (p : V3) : transformPos a p = transformPos a' p := by
  simp only [transformPos, rotate, h.2.1.rotMat_eq, h.1]

/-- `HomogeneousMatrix.transform` with any argument form: same exception, or the model's result up to sign; the matrix and the
argument may be given by any representative -/
theorem transformX_refines {ex : Mat3 → Quat} (hex : ExtractOK ex) {a a' : HM} (ha : a.SignEq a') (hu : a'.rot.normSq = 1)
    {x x' : TArg} (hx : x.SignEq x') (hr : x'.Rigid) : ResSignEq (a.transformX ex x) (a'.transform x') := by
  cases x <;> cases x' <;> try (simp [TArg.SignEq] at hx; done)
  case pos.pos p p' =>
    simp only [TArg.SignEq] at hx
    subst hx
    simp only [HM.transformX, HM.transform, ResSignEq, TArg.SignEq]
    exact transformPos_congr ha p
  case pose.pose p r p' r' =>
    simp only [TArg.SignEq] at hx
    obtain ⟨rfl, hrr⟩ := hx
    have e := (X_sign_blind ex p ha (HM.SignEq.refl a) hrr).1
    have t := (transformPoseX_poseEq hex a' hu p r' hr).1
    simp only [HM.transformX, HM.transform, ResSignEq, TArg.SignEq, e]
    exact t
  case mat.mat m m' =>
    simp only [TArg.SignEq] at hx
    have e := (X_sign_blind ex ⟨0, 0, 0⟩ ha hx (Quat.SignEq.refl Quat.one)).2.1
    simp only [HM.transformX, HM.transform, transformHM, e]
    cases hd : dot m' a' with
    | error err =>
      have hne : m'.src ≠ a'.dst := fun h => by
        obtain ⟨C, hC⟩ := (dot_ok_iff m' a').2 h
        rw [hC] at hd; cases hd
      rw [dotX_mismatch_error ex m' a' hne, dot_mismatch_error m' a' hne] at *
      simp only [Except.map, ResSignEq]
      cases hd; rfl
    | ok C =>
      obtain ⟨C', hC', hs, _⟩ := dotX_refines hex m' a' C hr hu hd
      rw [hC']
      simp only [Except.map, ResSignEq, TArg.SignEq]
      exact hs
  all_goals
    simp only [HM.transformX, HM.transform, ResSignEq]

/-- `TransformDict.transform` as the code computes it (`inv()` and `transform` each with their own extraction) gives the model's
answer — identity, registered matrix, inverse of the reverse entry, `KeyError`, `ValueError` — up to the sign of the quaternion,
for every registry of rigid motions, every key spelling and every argument form -/
theorem dictTransformX_refines {exI exT : Mat3 → Quat} (hI : ExtractOK exI) (hT : ExtractOK exT) (d : List HM)
    (hd : ∀ m ∈ d, m.rot.normSq = 1) (ks kd : Arg) {x x' : TArg} (hx : x.SignEq x') (hr : x'.Rigid) :
    ResSignEq (dictTransformX exI exT d ks kd x) (dictTransform d ks kd x') := by
  unfold dictTransformX dictTransform
  cases hk : transformKey ks kd with
  | error e => simp only [bind, Except.bind, ResSignEq]
  | ok k =>
    simp only [bind, Except.bind]
    by_cases hkk : k.1 = k.2
    · have hmal := TArg.SignEq.malformed hx
      simp only [hkk, if_true, hmal]
      cases x'.malformed with
      | some e => simp only [ResSignEq]
      | none => simp only [pure, Except.pure, ResSignEq]; exact hx
    · simp only [hkk, if_false]
      cases h1 : lookup d (k.1, k.2) with
      | some m =>
        exact transformX_refines hT (HM.SignEq.refl m) (hd m (lookup_some_key h1).1) hx hr
      | none =>
        cases h2 : lookup d (k.2, k.1) with
        | some m =>
          have hu := hd m (lookup_some_key h2).1
          exact transformX_refines hT (invX_signEq hI m hu).1 (inv_unit m hu) hx hr
        | none => simp only [ResSignEq]

/-- registry round trip as the code computes it: X-to-Y, then Y-to-X on what came back (four independent extractions) returns
the original position and the original orientation up to sign -/
theorem registry_roundtrip_X {eI1 eT1 eI2 eT2 : Mat3 → Quat} (h1 : ExtractOK eI1) (h2 : ExtractOK eT1) (h3 : ExtractOK eI2)
    (h4 : ExtractOK eT2) (d : List HM) (hd : ∀ m ∈ d, m.rot.normSq = 1) (s t : String) (m : HM) (p : V3) (r : Quat)
    (hr : r.normSq = 1) (hne : s ≠ t) (hm : lookup d (s, t) = some m) (hnone : lookup d (t, s) = none) :
    ∃ y, dictTransformX eI1 eT1 d (.member s) (.member t) (.pose p r) = .ok y ∧
      ∃ z, dictTransformX eI2 eT2 d (.member t) (.member s) y = .ok z ∧ z.SignEq (.pose p r) := by
  have hu := hd m (lookup_some_key hm).1
  have k1 : transformKey (.member s) (.member t) = .ok (s, t) := rfl
  have k2 : transformKey (.member t) (.member s) = .ok (t, s) := rfl
  have e1 : dictTransform d (.member s) (.member t) (.pose p r)
      = .ok (.pose (transformPose m (p, r)).1 (transformPose m (p, r)).2) := by
    rw [lookup_direct d _ _ s t m _ k1 hne hm]; rfl
  have e2 : dictTransform d (.member t) (.member s) (.pose (transformPose m (p, r)).1 (transformPose m (p, r)).2)
      = .ok (.pose p r) := by
    rw [lookup_inverse d _ _ t s m _ k2 (Ne.symm hne) hnone hm]
    have := inv_transform m hu p r
    simp only [HM.transform]
    rw [this]
  have r1 := dictTransformX_refines h1 h2 d hd (.member s) (.member t) (TArg.SignEq.refl (.pose p r)) hr
  rw [e1] at r1
  cases hy : dictTransformX eI1 eT1 d (.member s) (.member t) (.pose p r) with
  | error e => rw [hy] at r1; simp only [ResSignEq] at r1
  | ok y =>
    rw [hy] at r1
    simp only [ResSignEq] at r1
    have hrig : (TArg.pose (transformPose m (p, r)).1 (transformPose m (p, r)).2).Rigid := by
      simp only [TArg.Rigid, transformPose, Quat.normSq_mul, hu, hr]; norm_num
    have r2 := dictTransformX_refines h3 h4 d hd (.member t) (.member s) r1 hrig
    rw [e2] at r2
    refine ⟨y, rfl, ?_⟩
    cases hz : dictTransformX eI2 eT2 d (.member t) (.member s) y with
    | error e => rw [hz] at r2; simp only [ResSignEq] at r2
    | ok z => rw [hz] at r2; exact ⟨z, rfl, r2⟩

/-! ### the contract is satisfiable: pyquaternion's own `trace_method`, with an exact rational square root -/

theorem ratSqrt_exact : ∀ a : Rat, 0 ≤ a → Rat.sqrt (a * a) = a :=
  fun a h => by rw [Rat.sqrt_eq, abs_of_nonneg h]

/-- `trace_method` over `ℚ` (all four branches) satisfies `ExtractOK` -/
theorem extractTrace_contract : ExtractOK (extractTrace Rat.sqrt) := extractTrace_ok ratSqrt_exact

/-- … and returns `q` or `−q` for every rational unit quaternion `q` -/
theorem extractTrace_representative {q : Quat} (hq : q.normSq = 1) : (extractTrace Rat.sqrt (rotMat q)).SignEq q :=
  extractTrace_signEq ratSqrt_exact hq

/-! ### seed C18_G: the closed form `w = √(1 + tr)/2, (x, y, z) = antisymmetric part / 4w` fails the contract exactly on half turns -/

theorem extractG_ok_iff {q : Quat} (hq : q.normSq = 1) :
    ((extractG Rat.sqrt (rotMat q)).normSq = 1 ∧ rotMat (extractG Rat.sqrt (rotMat q)) = rotMat q) ↔ q.w ≠ 0 := by
  constructor
  · rintro ⟨hn, _⟩ hw
    rw [extractG_half_turn ratSqrt_exact hq hw] at hn
    simp [Quat.normSq] at hn
  · intro hw
    have h := extractG_signEq ratSqrt_exact hq hw
    exact ⟨by rw [h.normSq]; exact hq, h.rotMat_eq⟩

/-- the half turn about z (yaw π, quaternion `(0, 0, 0, 1)`) and the half turn about the axis `(3/5, 0, 4/5)` -/
theorem extractG_not_ok : ¬ ExtractOK (extractG Rat.sqrt) := by
  intro h
  have hq : (⟨0, 0, 0, 1⟩ : Quat).normSq = 1 := by decide +kernel
  exact ((extractG_ok_iff hq).1 (h _ hq)) rfl

/-- with the closed form in place of the extraction, `inv()` of an ego pose with yaw π no longer returns the inverse rotation:
the statement of `invX_signEq` FAILS for the defective variant -/
theorem invX_G_breaks :
    let A : HM := ⟨⟨1, 2, 0⟩, ⟨0, 0, 0, 1⟩, "BASE_LINK", "MAP"⟩
    A.rot.normSq = 1 ∧ ¬ (invX (extractG Rat.sqrt) A).SignEq (inv A) ∧ (invX (extractG Rat.sqrt) A).rot.normSq ≠ 1 := by
  intro A
  have hq : (⟨0, 0, 0, -1⟩ : Quat).normSq = 1 := by decide +kernel
  have hz := extractG_half_turn ratSqrt_exact hq rfl
  have hc : A.rot.conj = ⟨0, 0, 0, -1⟩ := by decide +kernel
  have e : (invX (extractG Rat.sqrt) A).rot = ⟨0, 0, 0, 0⟩ := by
    show extractG Rat.sqrt (rotMat A.rot.conj) = _
    rw [hc]; exact hz
  refine ⟨by decide +kernel, ?_, ?_⟩
  · intro h
    have := h.2.1.normSq
    rw [e, show (inv A).rot = A.rot.conj from rfl, hc, hq] at this
    simp [Quat.normSq] at this
  · rw [e]; simp [Quat.normSq]

/-! # Chains (audit C18-3): a well-labelled chain folds to `.ok`, and only a well-labelled one -/

theorem chain_ok_iff (A : HM) (steps : List HM) :
    (∃ C, steps.foldlM (fun acc m => dot m acc) A = .ok C) ↔ WellLabelled A.dst steps := by
  induction steps generalizing A with
  | nil => exact ⟨fun _ => trivial, fun _ => ⟨A, rfl⟩⟩
  | cons m ms ih =>
    simp only [List.foldlM_cons, WellLabelled]
    constructor
    · rintro ⟨C, hC⟩
      cases hd : dot m A with
      | error e => rw [hd] at hC; cases hC
      | ok D =>
        rw [hd] at hC
        have hsrc : m.src = A.dst := (dot_ok_iff m A).1 ⟨D, hd⟩
        have hD := (dot_frames m A D hd).2
        exact ⟨hsrc, by rw [← hD]; exact (ih D).1 ⟨C, hC⟩⟩
    · rintro ⟨hsrc, hw⟩
      obtain ⟨D, hd, _⟩ := dot_two_steps m A hsrc
      have hD := (dot_frames m A D hd).2
      rw [hd]
      exact (ih D).2 (by rw [hD]; exact hw)

/-- the composite of a well-labelled chain exists and is labelled first.src → last.dst -/
theorem chain_ok (A : HM) (steps : List HM) (h : WellLabelled A.dst steps) :
    ∃ C, steps.foldlM (fun acc m => dot m acc) A = .ok C ∧ C.src = A.src ∧ C.dst = chainDst A.dst steps := by
  induction steps generalizing A with
  | nil => exact ⟨A, rfl, rfl, rfl⟩
  | cons m ms ih =>
    obtain ⟨hsrc, hw⟩ := h
    obtain ⟨D, hd, _⟩ := dot_two_steps m A hsrc
    have hD := dot_frames m A D hd
    obtain ⟨C, hC, hs, hdst⟩ := ih D (by rw [hD.2]; exact hw)
    refine ⟨C, ?_, by rw [hs, hD.1], by rw [hdst, hD.2]; rfl⟩
    simp only [List.foldlM_cons, hd]
    exact hC

/-- a chain of rigid motions composes to a rigid motion -/
theorem chain_unit (A : HM) (steps : List HM) (C : HM) (hA : A.rot.normSq = 1) (hs : ∀ m ∈ steps, m.rot.normSq = 1)
    (h : steps.foldlM (fun acc m => dot m acc) A = .ok C) : C.rot.normSq = 1 := by
  induction steps generalizing A with
  | nil => simp only [List.foldlM_nil] at h; cases h; exact hA
  | cons m ms ih =>
    simp only [List.foldlM_cons] at h
    cases hd : dot m A with
    | error e => rw [hd] at h; cases h
    | ok D =>
      rw [hd] at h
      exact ih D (dot_unit m A D (hs m List.mem_cons_self) hA hd) (fun x hx => hs x (List.mem_cons_of_mem _ hx)) h

/-! # Any mixture of upper and lower case (audit C18-4) -/

/-- `FrameID.from_value` lower-cases: a frame name is read through its lower-case form only -/
theorem frameOfArg_case_insensitive (s t : String) (h : s.toLower = t.toLower) :
    frameOfArg (.str s) = frameOfArg (.str t) := by
  simp only [frameOfArg, frameFromValue, h]

/-- every spelling whose lower-case form is the value of a frame names that frame ("Map", "Base_Link", "mAP", …) -/
theorem frameOfArg_any_case : ∀ p ∈ Gen.frameID, ∀ s : String, s.toLower = p.2 → frameOfArg (.str s) = .ok p.1 := by
  intro p hp s hs
  rw [frameOfArg_case_insensitive s p.2 (by rw [hs, C20.frame_values_lower p hp])]
  simp [frameOfArg, C20.roundtrip_frame p hp]

/-- all access paths give the same answer for two spellings of a key that agree after lower-casing -/
theorem key_case_irrelevant (d : List HM) (s s' t t' : String) (hs : s.toLower = s'.toLower) (ht : t.toLower = t'.toLower)
    (x : TArg) :
    dictTransform d (.str s) (.str t) x = dictTransform d (.str s') (.str t') x ∧
    dictGet d (.str s) (.str t) = dictGet d (.str s') (.str t') ∧
    dictGetItem d (.str s) (.str t) = dictGetItem d (.str s') (.str t') ∧
    dictContains d (.str s) (.str t) = dictContains d (.str s') (.str t') := by
  have e : transformKey (.str s) (.str t) = transformKey (.str s') (.str t') := by
    simp only [transformKey, frameOfArg_case_insensitive s s' hs, frameOfArg_case_insensitive t t' ht]
  simp only [dictTransform, dictGet, dictGetItem, dictContains, e, and_self]

/-- a key written in any case mixture is the member key -/
theorem key_any_case : ∀ p ∈ Gen.frameID, ∀ r ∈ Gen.frameID, ∀ s t : String, s.toLower = p.2 → t.toLower = r.2 →
    ∀ (d : List HM) (x : TArg), dictTransform d (.str s) (.str t) x = dictTransform d (.member p.1) (.member r.1) x := by
  intro p hp r hr s t hs ht d x
  have h1 : transformKey (.str s) (.str t) = .ok (p.1, r.1) := by
    simp only [transformKey, frameOfArg_any_case p hp s hs, frameOfArg_any_case r hr t ht, bind, Except.bind]
    rfl
  have h2 : transformKey (.member p.1) (.member r.1) = .ok (p.1, r.1) := rfl
  simp only [dictTransform, h1, h2]

/-! # A matrix stored under a key that is not its own label (audit C18-5)

`reg[key] = value` does not compare `key` with `value.src/dst`.  `KReg` keeps key and matrix apart; on registries built by the
constructor it is the model used so far (`kTransform_ofList`), and after `reg[k] = m` the key `k` is answered with `m` —
whose own labels play no part — and the reversed key with `inv m`. -/

theorem kTransform_ofList (d : List HM) (ks kd : Arg) (x : TArg) :
    kTransform (KReg.ofList d) ks kd x = dictTransform d ks kd x := by
  simp only [kTransform, dictTransform, lookupK_ofList]
  rfl

theorem kTransform_after_set (d : KReg) (k : String × String) (m : HM) (ks kd : Arg) (x : TArg)
    (hk : transformKey ks kd = .ok k) (hne : k.1 ≠ k.2) : kTransform (kSet d k m) ks kd x = m.transform x := by
  have e : lookupK (kSet d k m) (k.1, k.2) = some m := by rw [lookupK_set]; simp
  simp only [kTransform, hk, bind, Except.bind, hne, if_false, e]

theorem kTransform_after_set_reverse (d : KReg) (s t : String) (m : HM) (ks kd : Arg) (x : TArg)
    (hk : transformKey ks kd = .ok (s, t)) (hne : s ≠ t) (hnone : lookupK d (s, t) = none) :
    kTransform (kSet d (t, s) m) ks kd x = (inv m).transform x := by
  have hts : (t, s) ≠ (s, t) := fun e => hne (congrArg Prod.snd e)
  have e1 : lookupK (kSet d (t, s) m) (s, t) = none := by rw [lookupK_set, if_neg hts]; exact hnone
  have e2 : lookupK (kSet d (t, s) m) (t, s) = some m := by rw [lookupK_set]; simp
  simp only [kTransform, hk, bind, Except.bind, hne, if_false, e1, e2]

/-! ## instances -/

/-- the contract's hypotheses and conclusions on concrete 3-D rational unit quaternions, both signs, all four branches of
`trace_method` (pivot w, x, y, z) -/
example : (⟨1/5, 2/5, 2/5, 4/5⟩ : Quat).normSq = 1 ∧ (⟨-2/7, -3/7, -6/7, 0⟩ : Quat).normSq = 1 ∧
    (⟨0, 3/5, 4/5, 0⟩ : Quat).normSq = 1 ∧ (⟨2/3, -2/3, 1/3, 0⟩ : Quat).normSq = 1 := by decide +kernel
example : (⟨0, 0, 0, 1⟩ : Quat).SignEq ⟨0, 0, 0, -1⟩ ∧ ¬ (⟨0, 0, 0, 1⟩ : Quat).SignEq ⟨0, 0, 1, 0⟩ ∧
    rotMat ⟨0, 0, 0, 1⟩ = rotMat ⟨0, 0, 0, -1⟩ := by decide +kernel
/-- `trace_method` evaluated: pivot w with w < 0 (sign flipped), pivot w, pivot z, pivot y -/
example : extractTrace Rat.sqrt (rotMat ⟨-2/7, -3/7, -6/7, 0⟩) = ⟨2/7, 3/7, 6/7, 0⟩ ∧
    extractTrace Rat.sqrt (rotMat ⟨1/5, 2/5, 2/5, 4/5⟩) = ⟨1/5, 2/5, 2/5, 4/5⟩ ∧
    extractTrace Rat.sqrt (rotMat ⟨0, 0, 0, -1⟩) = ⟨0, 0, 0, 1⟩ ∧
    extractTrace Rat.sqrt (rotMat ⟨0, -3/5, 4/5, 0⟩) = ⟨0, -3/5, 4/5, 0⟩ := by decide +kernel
/-- the code-level registry on a concrete case: inverse fallback with a negative-w pose; sign-equal, NOT equal -/
example : ResSignEq (dictTransformX (extractTrace Rat.sqrt) (extractTrace Rat.sqrt) [exA, exB] (.str "map") (.str "base_link")
      (.pose ⟨1, 0, 0⟩ exB.rot))
    (dictTransform [exA, exB] (.str "map") (.str "base_link") (.pose ⟨1, 0, 0⟩ exB.rot)) ∧
    dictTransformX (extractTrace Rat.sqrt) (extractTrace Rat.sqrt) [exA, exB] (.str "map") (.str "base_link")
      (.pose ⟨1, 0, 0⟩ exB.rot) ≠ dictTransform [exA, exB] (.str "map") (.str "base_link") (.pose ⟨1, 0, 0⟩ exB.rot) ∧
    (TArg.pose ⟨1, 0, 0⟩ exB.rot).Rigid := by decide +kernel
/-- the defective closed form on the same registry with a yaw-π ego pose: not even sign-equal -/
example : ¬ ResSignEq (dictTransformX (extractG Rat.sqrt) (extractG Rat.sqrt)
      [⟨⟨1, 2, 0⟩, ⟨0, 0, 0, 1⟩, "BASE_LINK", "MAP"⟩] (.str "map") (.str "base_link") (.pose ⟨1, 0, 0⟩ ⟨1, 0, 0, 0⟩))
    (dictTransform [⟨⟨1, 2, 0⟩, ⟨0, 0, 0, 1⟩, "BASE_LINK", "MAP"⟩] (.str "map") (.str "base_link")
      (.pose ⟨1, 0, 0⟩ ⟨1, 0, 0, 0⟩)) := by decide +kernel
/-- three steps: cam → base_link → map → base_link → map -/
example : WellLabelled exB.dst [exA, inv exA, exA'] ∧ chainDst exB.dst [exA, inv exA, exA'] = "MAP" ∧
    ¬ WellLabelled exB.dst [exA, exA'] := by decide +kernel
example : ∃ C, [exA, inv exA, exA'].foldlM (fun acc m => dot m acc) exB = .ok C ∧ C.src = "CAM_FRONT" ∧ C.dst = "MAP" :=
  chain_ok exB _ (by decide +kernel)
example : ("Base_Link" : String).toLower = "base_link" ∧ ("BASE_LINK", "base_link") ∈ Gen.frameID ∧
    ("mAP" : String).toLower = "map" ∧ ("Map" : String).toLower = "map" := by decide +kernel
/-- a matrix labelled base_link → map stored under (map, cam_front): the key decides, not the label -/
example : kTransform (kSet (KReg.ofList [exB]) ("MAP", "CAM_FRONT") exA) (.str "map") (.str "cam_front") (.pos ⟨1, 0, 0⟩)
    = exA.transform (.pos ⟨1, 0, 0⟩) ∧ exA.key ≠ ("MAP", "CAM_FRONT") := by decide +kernel

end PEval.C18
