import PEval.Lemmas.Transform
import PEval.Properties.C20
/-!
# C18 — coordinate transforms compose and invert consistently

Statements about the model `PEval.Model.Transform` of `common/transform.py`.  Rotations are
quaternions over `Rat` acting through the homogeneous rotation-matrix formula; "rigid transform"
means `normSq rot = 1`.  Composition laws are polynomial identities and need no such hypothesis;
the inverse laws need it for the transform that is inverted only (never for the pose transformed).
Orientation results are equalities of the quaternions themselves (hence also of their rotation
matrices).  The registry theorems quantify over every list of registered matrices (duplicates,
reverse pairs, X-to-X entries included), every argument form and every spelling of a frame.
-/
namespace PEval.C18
open PEval.Transform PEval.Enums PEval

/-! ## rotations -/

/-- rotating by a product is rotating twice (all quaternions; polynomial identity) -/
theorem rotate_mul (q1 q2 : Quat) (v : V3) : rotate (q1 * q2) v = rotate q1 (rotate q2 v) :=
  Transform.rotate_mul q1 q2 v

/-- both signs of a quaternion are the same rotation matrix -/
theorem rotMat_neg (q : Quat) : rotMat (-q) = rotMat q := Transform.rotMat_neg q

/-- a unit quaternion acts by an isometry -/
theorem rotate_isometry (q : Quat) (h : q.normSq = 1) (v : V3) :
    (rotate q v).dot (rotate q v) = v.dot v := rotate_normSq q h v

/-! ## inverse -/

/-- transform, then the inverse transform: original position and orientation -/
theorem inv_transform (A : HM) (hA : A.rot.normSq = 1) (p : V3) (r : Quat) :
    transformPose (inv A) (transformPose A (p, r)) = (p, r) := by
  simp only [transformPose, transformPos, inv]
  rw [rotate_add, rotate_conj_rotate _ hA, V3.add_neg_cancel', Quat.conj_mul_cancel _ _ hA]

/-- the inverse transform, then the transform: original position and orientation -/
theorem transform_inv (A : HM) (hA : A.rot.normSq = 1) (p : V3) (r : Quat) :
    transformPose A (transformPose (inv A) (p, r)) = (p, r) := by
  simp only [transformPose, transformPos, inv]
  rw [rotate_add, rotate_rotate_conj _ hA, rotate_vneg, rotate_rotate_conj _ hA,
    V3.neg_add_cancel_right', Quat.mul_conj_cancel _ _ hA]

/-- position-only calls -/
theorem inv_transform_pos (A : HM) (hA : A.rot.normSq = 1) (p : V3) :
    transformPos (inv A) (transformPos A p) = p := by
  have := congrArg Prod.fst (inv_transform A hA p Quat.one)
  simpa [transformPose] using this

theorem transform_inv_pos (A : HM) (hA : A.rot.normSq = 1) (p : V3) :
    transformPos A (transformPos (inv A) p) = p := by
  have := congrArg Prod.fst (transform_inv A hA p Quat.one)
  simpa [transformPose] using this

/-- the inverse is labelled the other way round, stays rigid, and inverting twice gives the matrix back -/
theorem inv_frames (A : HM) : (inv A).src = A.dst ∧ (inv A).dst = A.src := ⟨rfl, rfl⟩

theorem inv_unit (A : HM) (hA : A.rot.normSq = 1) : (inv A).rot.normSq = 1 := by
  simp only [inv, Quat.normSq_conj, hA]

theorem inv_inv (A : HM) (hA : A.rot.normSq = 1) : inv (inv A) = A := by
  cases A with
  | mk pos rot src dst =>
    simp only [inv, Quat.conj_conj, rotate_vneg]
    have h : rotate rot (rotate rot.conj pos) = pos := rotate_rotate_conj rot hA pos
    rw [h]
    congr 1
    ext <;> simp

/-- `A.inv().dot(A)` and `A.dot(A.inv())` are the identity motion on `A.src` resp. `A.dst` -/
theorem inv_dot_self (A : HM) (hA : A.rot.normSq = 1) :
    dot (inv A) A = .ok ⟨V3.zero, Quat.one, A.src, A.src⟩ := by
  simp only [dot, inv, ne_eq, not_true_eq_false, if_false]
  rw [Quat.conj_mul_self_unit _ hA]
  congr 2
  ext <;> simp [V3.zero]

theorem self_dot_inv (A : HM) (hA : A.rot.normSq = 1) :
    dot A (inv A) = .ok ⟨V3.zero, Quat.one, A.dst, A.dst⟩ := by
  simp only [dot, inv, ne_eq, not_true_eq_false, if_false]
  rw [Quat.self_mul_conj_unit _ hA, rotate_vneg, rotate_rotate_conj _ hA]
  congr 2
  ext <;> simp [V3.zero]

/-! ## composition -/

/-- `B.dot(A)` for `A : X→Y`, `B : Y→Z` exists and transforms like `A` followed by `B`
(position and orientation; all quaternions) -/
theorem dot_two_steps (B A : HM) (h : B.src = A.dst) :
    ∃ C, dot B A = .ok C ∧
      (∀ p r, transformPose C (p, r) = transformPose B (transformPose A (p, r))) ∧
      (∀ p, transformPos C p = transformPos B (transformPos A p)) := by
  refine ⟨⟨rotate B.rot A.pos + B.pos, B.rot * A.rot, A.src, B.dst⟩, ?_, ?_, ?_⟩
  · simp [dot, h]
  · intro p r
    simp only [transformPose, transformPos]
    rw [Transform.rotate_mul, rotate_add, Quat.mul_assoc']
    congr 1
    ext <;> simp <;> ring
  · intro p
    simp only [transformPos]
    rw [Transform.rotate_mul, rotate_add]
    ext <;> simp <;> ring

/-- the composite is labelled `A.src → B.dst` -/
theorem dot_frames (B A C : HM) (h : dot B A = .ok C) : C.src = A.src ∧ C.dst = B.dst := by
  unfold dot at h
  split at h
  · cases h
  · cases h; exact ⟨rfl, rfl⟩

/-- composition with mismatched frames is rejected -/
theorem dot_mismatch_error (B A : HM) (h : B.src ≠ A.dst) : dot B A = .error "ValueError" := by
  simp [dot, h]

/-- … and only then -/
theorem dot_ok_iff (B A : HM) : (∃ C, dot B A = .ok C) ↔ B.src = A.dst := by
  constructor
  · rintro ⟨C, hC⟩
    by_cases h : B.src = A.dst
    · exact h
    · rw [dot_mismatch_error B A h] at hC; cases hC
  · intro h
    obtain ⟨C, hC, _⟩ := dot_two_steps B A h
    exact ⟨C, hC⟩

/-- composition keeps rigid motions rigid -/
theorem dot_unit (B A C : HM) (hB : B.rot.normSq = 1) (hA : A.rot.normSq = 1) (h : dot B A = .ok C) :
    C.rot.normSq = 1 := by
  unfold dot at h
  split at h
  · cases h
  · cases h; simp [Quat.normSq_mul, hA, hB]

/-- `A.transform(M)` is `M.dot(A)` -/
theorem transformHM_eq_dot (A M : HM) : transformHM A M = dot M A := rfl

/-- a chain of up to any number of frames: folding `dot` along a well-labelled chain transforms like
the steps one after the other (`steps` lists the matrices in the order they are applied) -/
theorem chain_steps (A : HM) (steps : List HM) (C : HM)
    (h : steps.foldlM (fun acc m => dot m acc) A = .ok C) (p : V3) (r : Quat) :
    transformPose C (p, r) = steps.foldl (fun pr m => transformPose m pr) (transformPose A (p, r)) := by
  induction steps generalizing A with
  | nil => simp only [List.foldlM_nil] at h; cases h; rfl
  | cons m ms ih =>
    simp only [List.foldlM_cons] at h
    cases hd : dot m A with
    | error e => rw [hd] at h; cases h
    | ok D =>
      rw [hd] at h
      have hsrc : m.src = A.dst := (dot_ok_iff m A).1 ⟨D, hd⟩
      obtain ⟨D', hD', hpose, _⟩ := dot_two_steps m A hsrc
      rw [hd] at hD'; cases hD'
      have := ih D h
      rw [this, hpose]
      rfl

/-! ## agreement with 4×4 homogeneous matrices -/

/-- transforming a pose = multiplying the homogeneous matrices (all quaternions) -/
theorem transform_eq_matmul (A : HM) (p : V3) (r : Quat) :
    matOf (transformPose A (p, r)).1 (transformPose A (p, r)).2 = matMul (toMat A) (matOf p r) := by
  ext <;> simp [transformPose, transformPos, toMat, matOf, matMul, rowMul, rotate, rotMat, Mat3.mulVec,
    V3.dot] <;> ring

/-- the position-only call reads the translation column of `A.matrix · [[I, p], [0, 1]]` -/
theorem transformPos_eq_matmul (A : HM) (p : V3) :
    let M := matMul (toMat A) (matOf p Quat.one)
    transformPos A p = ⟨M.r0.d, M.r1.d, M.r2.d⟩ := by
  ext <;> simp [transformPos, toMat, matOf, matMul, rowMul, rotate, rotMat, Mat3.mulVec, V3.dot,
    Quat.one]

/-- `dot` is the matrix product -/
theorem dot_eq_matmul (B A C : HM) (h : dot B A = .ok C) : toMat C = matMul (toMat B) (toMat A) := by
  unfold dot at h
  split at h
  · cases h
  · cases h
    exact transform_eq_matmul B A.pos A.rot

/-- `inv` is the matrix inverse (what `numpy.linalg.inv` returns), for a rigid motion -/
theorem inv_matmul (A : HM) (hA : A.rot.normSq = 1) :
    matMul (toMat (inv A)) (toMat A) = Mat4.one ∧ matMul (toMat A) (toMat (inv A)) = Mat4.one := by
  have h1 := dot_eq_matmul _ _ _ (inv_dot_self A hA)
  have h2 := dot_eq_matmul _ _ _ (self_dot_inv A hA)
  have hone : ∀ s d, toMat ⟨V3.zero, Quat.one, s, d⟩ = Mat4.one := by
    intro s d
    ext <;> simp [toMat, matOf, rotMat, Quat.one, V3.zero, Mat4.one]
  rw [hone] at h1 h2
  exact ⟨h1.symm, h2.symm⟩

/-! ## the registry -/

/-- what "registered under X-to-Y" means: the last matrix of the list labelled X-to-Y -/
theorem lookup_registered (pre post : List HM) (m : HM) (h : ∀ m' ∈ post, m'.key ≠ m.key) :
    lookup (pre ++ m :: post) m.key = some m := lookup_append_last pre post m h

theorem lookup_sound (d : List HM) (k : String × String) (m : HM) (h : lookup d k = some m) :
    m ∈ d ∧ m.src = k.1 ∧ m.dst = k.2 := by
  have := lookup_some_key h
  refine ⟨this.1, ?_, ?_⟩
  · rw [← this.2]; rfl
  · rw [← this.2]; rfl

theorem lookup_none_iff (d : List HM) (k : String × String) :
    lookup d k = none ↔ ∀ m ∈ d, (m.src, m.dst) ≠ k := lookup_eq_none_iff

/-- X-to-Y registered: answered with that matrix -/
theorem lookup_direct (d : List HM) (ks kd : Arg) (s t : String) (m : HM) (x : TArg)
    (hk : transformKey ks kd = .ok (s, t)) (hne : s ≠ t) (hm : lookup d (s, t) = some m) :
    dictTransform d ks kd x = m.transform x := by
  simp only [dictTransform, hk, bind, Except.bind, hne, if_false, hm]

/-- X-to-Y not registered, Y-to-X registered: answered with the inverse of that matrix -/
theorem lookup_inverse (d : List HM) (ks kd : Arg) (s t : String) (m : HM) (x : TArg)
    (hk : transformKey ks kd = .ok (s, t)) (hne : s ≠ t) (hnone : lookup d (s, t) = none)
    (hm : lookup d (t, s) = some m) :
    dictTransform d ks kd x = (inv m).transform x := by
  simp only [dictTransform, hk, bind, Except.bind, hne, if_false, hnone, hm]

/-- X-to-X: the input comes back unchanged, whatever is registered -/
theorem lookup_identity_key (d : List HM) (ks kd : Arg) (s : String) (x : TArg)
    (hk : transformKey ks kd = .ok (s, s)) (hx : x.malformed = none) :
    dictTransform d ks kd x = .ok x := by
  simp only [dictTransform, hk, bind, Except.bind, if_true, hx]
  rfl

/-- the three documented spellings of a frame: the member, its lower-case name, its upper-case name -/
def spellings (p : String × String) : List Arg := [.member p.1, .str p.2, .str p.2.toUpper]

theorem frameOfArg_spelling : ∀ p ∈ Gen.frameID, ∀ a ∈ spellings p, frameOfArg a = .ok p.1 := by
  intro p hp a ha
  simp only [spellings, List.mem_cons, List.mem_nil_iff, or_false] at ha
  rcases ha with rfl | rfl | rfl
  · rfl
  · simp [frameOfArg, C20.roundtrip_frame p hp]
  · simp [frameOfArg, C20.roundtrip_frame_upper p hp]

theorem transformKey_spelling : ∀ p ∈ Gen.frameID, ∀ r ∈ Gen.frameID, ∀ a ∈ spellings p, ∀ b ∈ spellings r,
    transformKey a b = .ok (p.1, r.1) := by
  intro p hp r hr a ha b hb
  simp only [transformKey, frameOfArg_spelling p hp a ha, frameOfArg_spelling r hr b hb, bind, Except.bind]
  rfl

/-- a matrix may be constructed with either spelling of its frames -/
theorem mk_spelling : ∀ p ∈ Gen.frameID, ∀ r ∈ Gen.frameID, ∀ a ∈ spellings p, ∀ b ∈ spellings r,
    ∀ (pos : V3) (rot : Quat), HM.mk' pos rot a b = .ok ⟨pos, rot, p.1, r.1⟩ := by
  intro p hp r hr a ha b hb pos rot
  simp only [HM.mk', frameOfArg_spelling p hp a ha, frameOfArg_spelling r hr b hb, bind, Except.bind]
  rfl

/-- X-to-X for every frame and every pair of spellings (F14: `("MAP", "map")`) -/
theorem lookup_identity : ∀ p ∈ Gen.frameID, ∀ a ∈ spellings p, ∀ b ∈ spellings p,
    ∀ (d : List HM) (x : TArg), x.malformed = none → dictTransform d a b x = .ok x := by
  intro p hp a ha b hb d x hx
  exact lookup_identity_key d a b p.1 x (transformKey_spelling p hp p hp a ha b hb) hx

/-- neither direction registered: `KeyError` -/
theorem lookup_missing_keyerror (d : List HM) (ks kd : Arg) (s t : String) (x : TArg)
    (hk : transformKey ks kd = .ok (s, t)) (hne : s ≠ t)
    (h1 : ∀ m ∈ d, (m.src, m.dst) ≠ (s, t)) (h2 : ∀ m ∈ d, (m.src, m.dst) ≠ (t, s)) :
    dictTransform d ks kd x = .error "KeyError" := by
  have e1 : lookup d (s, t) = none := lookup_eq_none_iff.2 h1
  have e2 : lookup d (t, s) = none := lookup_eq_none_iff.2 h2
  simp only [dictTransform, hk, bind, Except.bind, hne, if_false, e1, e2]

/-- a key spelled with members, lower-case names or upper-case names (any mixture) gives the same answer -/
theorem key_spelling_irrelevant : ∀ p ∈ Gen.frameID, ∀ r ∈ Gen.frameID, ∀ a ∈ spellings p, ∀ b ∈ spellings r,
    ∀ (d : List HM) (x : TArg), dictTransform d a b x = dictTransform d (.member p.1) (.member r.1) x := by
  intro p hp r hr a ha b hb d x
  have h1 := transformKey_spelling p hp r hr a ha b hb
  have h2 : transformKey (.member p.1) (.member r.1) = .ok (p.1, r.1) := rfl
  simp only [dictTransform, h1, h2]

/-- a name that is no frame is rejected before anything is looked up -/
theorem key_unknown_name (d : List HM) (s : String) (kd : Arg) (x : TArg)
    (h : s.toLower ∉ values Gen.frameID) : dictTransform d (.str s) kd x = .error "ValueError" := by
  simp [dictTransform, transformKey, frameOfArg, C20.nonmember_frame s h, bind, Except.bind]

/-- the registry's answers obey the group laws too: querying Y-to-X after X-to-Y (only X-to-Y
registered) returns the original pose -/
theorem registry_roundtrip (d : List HM) (s t : String) (m : HM) (p : V3) (r : Quat)
    (hne : s ≠ t) (hm : lookup d (s, t) = some m) (hnone : lookup d (t, s) = none)
    (hu : m.rot.normSq = 1) :
    ∃ p' r', dictTransform d (.member s) (.member t) (.pose p r) = .ok (.pose p' r') ∧
      dictTransform d (.member t) (.member s) (.pose p' r') = .ok (.pose p r) := by
  have k1 : transformKey (.member s) (.member t) = .ok (s, t) := rfl
  have k2 : transformKey (.member t) (.member s) = .ok (t, s) := rfl
  refine ⟨(transformPose m (p, r)).1, (transformPose m (p, r)).2, ?_, ?_⟩
  · rw [lookup_direct d _ _ s t m _ k1 hne hm]; rfl
  · rw [lookup_inverse d _ _ t s m _ k2 (Ne.symm hne) hnone hm]
    have := inv_transform m hu p r
    simp only [HM.transform]
    rw [this]

/-! ## a modified registry answers from its current contents

`reg[key] = m` (`dictSet`), `del reg[key]` (`dictErase` / `dictDel`); `copy.deepcopy(reg)` is the same
list.  Whatever was registered or asked before, the answer after a modification is the one the
rule gives for the contents at the time of the query. -/

theorem lookup_cons_some {a : HM} {ds : List HM} {k : String × String} {r : HM} (h : lookup ds k = some r) :
    lookup (a :: ds) k = some r := by
  rw [lookup, h]

theorem lookup_cons_none {a : HM} {ds : List HM} {k : String × String} (h : lookup ds k = none) :
    lookup (a :: ds) k = if a.key = k then some a else none := by
  rw [lookup, h]

/-- after `reg[m.key] = m` the key `m.key` holds `m`; every other key holds what it held -/
theorem lookup_set (d : List HM) (m : HM) (k : String × String) :
    lookup (dictSet d m) k = if m.key = k then some m else lookup d k := by
  induction d with
  | nil => simp [dictSet, lookup]
  | cons a ds ih =>
    simp only [dictSet, List.cons_append] at ih ⊢
    by_cases h : m.key = k
    · rw [if_pos h] at ih ⊢
      exact lookup_cons_some ih
    · rw [if_neg h] at ih ⊢
      cases hl : lookup ds k with
      | some r => rw [hl] at ih; rw [lookup_cons_some ih, lookup_cons_some hl]
      | none => rw [hl] at ih; rw [lookup_cons_none ih, lookup_cons_none hl]

/-- after `del reg[k']` the key `k'` is not registered; every other key holds what it held -/
theorem lookup_erase (d : List HM) (k k' : String × String) :
    lookup (dictErase d k') k = if k = k' then none else lookup d k := by
  induction d with
  | nil => simp [dictErase, lookup]
  | cons a ds ih =>
    simp only [dictErase] at ih ⊢
    by_cases ha : a.key = k'
    · rw [List.filter_cons_of_neg (by simp [ha]), ih]
      by_cases hk : k = k'
      · simp [hk]
      · have hak : a.key ≠ k := by rw [ha]; exact fun e => hk e.symm
        simp only [if_neg hk]
        cases hl : lookup ds k with
        | some r => rw [lookup_cons_some hl]
        | none => rw [lookup_cons_none hl, if_neg hak]
    · rw [List.filter_cons_of_pos (by simp [ha])]
      by_cases hk : k = k'
      · rw [if_pos hk] at ih ⊢
        rw [lookup_cons_none ih, if_neg (by rw [hk]; exact ha)]
      · rw [if_neg hk] at ih ⊢
        cases hl : lookup ds k with
        | some r => rw [hl] at ih; rw [lookup_cons_some ih, lookup_cons_some hl]
        | none => rw [hl] at ih; rw [lookup_cons_none ih, lookup_cons_none hl]

/-- `del reg[k]` raises `KeyError` exactly when `k` is not registered, and otherwise leaves `dictErase` -/
theorem dictDel_spec (d : List HM) (k : String × String) :
    dictDel d k = if lookup d k = none then .error "KeyError" else .ok (dictErase d k) := by
  unfold dictDel
  cases lookup d k <;> simp

/-- X-to-Y (re-)registered: answered with the NEW matrix -/
theorem query_after_set_direct (d : List HM) (m : HM) (ks kd : Arg) (s t : String) (x : TArg)
    (hk : transformKey ks kd = .ok (s, t)) (hne : s ≠ t) (hm : m.key = (s, t)) :
    dictTransform (dictSet d m) ks kd x = m.transform x :=
  lookup_direct _ ks kd s t m x hk hne (by rw [lookup_set, if_pos hm])

/-- Y-to-X (re-)registered while X-to-Y is not: X-to-Y is answered with the inverse of the NEW
matrix (not with the inverse of an earlier Y-to-X) -/
theorem query_after_set_reverse (d : List HM) (m : HM) (ks kd : Arg) (s t : String) (x : TArg)
    (hk : transformKey ks kd = .ok (s, t)) (hne : s ≠ t) (hm : m.key = (t, s))
    (hnone : lookup d (s, t) = none) :
    dictTransform (dictSet d m) ks kd x = (inv m).transform x := by
  have hst : m.key ≠ (s, t) := by
    rw [hm]; intro e; exact hne (congrArg Prod.snd e)
  exact lookup_inverse _ ks kd s t m x hk hne (by rw [lookup_set, if_neg hst]; exact hnone)
    (by rw [lookup_set, if_pos hm])

/-- a registration under another pair of frames does not change the answer -/
theorem query_after_set_other (d : List HM) (m : HM) (ks kd : Arg) (s t : String) (x : TArg)
    (hk : transformKey ks kd = .ok (s, t)) (h1 : m.key ≠ (s, t)) (h2 : m.key ≠ (t, s)) :
    dictTransform (dictSet d m) ks kd x = dictTransform d ks kd x := by
  simp only [dictTransform, hk, bind, Except.bind, lookup_set, if_neg h1, if_neg h2]

/-- Y-to-X deleted while X-to-Y is not registered: X-to-Y raises `KeyError` (and so does Y-to-X) -/
theorem query_after_del (d : List HM) (ks kd : Arg) (s t : String) (x : TArg)
    (hk : transformKey ks kd = .ok (s, t)) (hne : s ≠ t) (hnone : lookup d (s, t) = none) :
    dictTransform (dictErase d (t, s)) ks kd x = .error "KeyError" := by
  have hts : (s, t) ≠ (t, s) := fun e => hne (congrArg Prod.fst e)
  simp only [dictTransform, hk, bind, Except.bind, hne, if_false, lookup_erase, if_neg hts, hnone, if_true]

/-- deleting Y-to-X while X-to-Y is registered leaves Y-to-X answered with the inverse of X-to-Y -/
theorem query_after_del_falls_back (d : List HM) (m : HM) (ks kd : Arg) (s t : String) (x : TArg)
    (hk : transformKey ks kd = .ok (t, s)) (hne : s ≠ t) (hm : lookup d (s, t) = some m) :
    dictTransform (dictErase d (t, s)) ks kd x = (inv m).transform x := by
  have hts : (s, t) ≠ (t, s) := fun e => hne (congrArg Prod.fst e)
  exact lookup_inverse _ ks kd t s m x hk (Ne.symm hne) (by rw [lookup_erase, if_pos rfl])
    (by rw [lookup_erase, if_neg hts]; exact hm)

/-! ## every access path of the registry reads its key the same way

`reg.get(key)`, `reg[key]`, `key in reg` and `reg.transform(key, …)` all normalise the key (a
`TransformKey`, or a pair of members / names in either case) before the dictionary is asked, so
they agree with one another for every spelling. -/

/-- `get`: the spelling of the key is irrelevant -/
theorem get_spelling_irrelevant : ∀ p ∈ Gen.frameID, ∀ r ∈ Gen.frameID, ∀ a ∈ spellings p, ∀ b ∈ spellings r,
    ∀ (d : List HM), dictGet d a b = .ok (lookup d (p.1, r.1)) := by
  intro p hp r hr a ha b hb d
  simp only [dictGet, transformKey_spelling p hp r hr a ha b hb, bind, Except.bind]
  rfl

/-- `reg[key]`: the spelling of the key is irrelevant -/
theorem getitem_spelling_irrelevant : ∀ p ∈ Gen.frameID, ∀ r ∈ Gen.frameID, ∀ a ∈ spellings p, ∀ b ∈ spellings r,
    ∀ (d : List HM), dictGetItem d a b = dictGetItem d (.member p.1) (.member r.1) := by
  intro p hp r hr a ha b hb d
  have h2 : transformKey (.member p.1) (.member r.1) = .ok (p.1, r.1) := rfl
  simp only [dictGetItem, transformKey_spelling p hp r hr a ha b hb, h2]

/-- `key in reg`: the spelling of the key is irrelevant -/
theorem contains_spelling_irrelevant : ∀ p ∈ Gen.frameID, ∀ r ∈ Gen.frameID, ∀ a ∈ spellings p, ∀ b ∈ spellings r,
    ∀ (d : List HM), dictContains d a b = .ok (lookup d (p.1, r.1)).isSome := by
  intro p hp r hr a ha b hb d
  simp only [dictContains, transformKey_spelling p hp r hr a ha b hb, bind, Except.bind]
  rfl

/-- `reg[key]` is `reg.get(key)` with `KeyError` in place of `None`, for every key (unknown names included) -/
theorem getitem_eq_get (d : List HM) (ks kd : Arg) :
    dictGetItem d ks kd = (dictGet d ks kd).bind (fun o => match o with | some m => .ok m | none => .error "KeyError") := by
  unfold dictGetItem dictGet
  cases transformKey ks kd <;> rfl

/-- `key in reg` says whether `reg.get(key)` finds something -/
theorem contains_eq_get (d : List HM) (ks kd : Arg) :
    dictContains d ks kd = (dictGet d ks kd).map Option.isSome := by
  unfold dictContains dictGet
  cases transformKey ks kd <;> rfl

/-- a name that is no frame is rejected by every path before anything is looked up -/
theorem get_unknown_name (d : List HM) (s : String) (kd : Arg) (h : s.toLower ∉ values Gen.frameID) :
    dictGet d (.str s) kd = .error "ValueError" ∧ dictGetItem d (.str s) kd = .error "ValueError" ∧
    dictContains d (.str s) kd = .error "ValueError" := by
  simp [dictGet, dictGetItem, dictContains, transformKey, frameOfArg, C20.nonmember_frame s h, bind, Except.bind]

/-- `transform` answers X-to-Y (X ≠ Y) from what `get` finds under the same key: the matrix itself … -/
theorem transform_of_get_direct (d : List HM) (ks kd : Arg) (s t : String) (m : HM) (x : TArg)
    (hk : transformKey ks kd = .ok (s, t)) (hne : s ≠ t) (hg : dictGet d ks kd = .ok (some m)) :
    dictTransform d ks kd x = m.transform x := by
  have hm : lookup d (s, t) = some m := by
    simp only [dictGet, hk, bind, Except.bind] at hg
    exact Except.ok.inj hg
  exact lookup_direct d ks kd s t m x hk hne hm

/-- … or, when `get` finds nothing, the inverse of what `get` finds under the reversed key -/
theorem transform_of_get_reverse (d : List HM) (ks kd : Arg) (s t : String) (m : HM) (x : TArg)
    (hk : transformKey ks kd = .ok (s, t)) (hne : s ≠ t) (hg : dictGet d ks kd = .ok none)
    (hr : dictGet d kd ks = .ok (some m)) :
    dictTransform d ks kd x = (inv m).transform x := by
  have hk' : transformKey kd ks = .ok (t, s) := by
    simp only [transformKey, bind, Except.bind] at hk ⊢
    cases h1 : frameOfArg ks with
    | error e => simp [h1] at hk
    | ok a =>
      cases h2 : frameOfArg kd with
      | error e => simp [h1, h2] at hk
      | ok b =>
        simp only [h1, h2] at hk ⊢
        have := Except.ok.inj hk
        simp only [Prod.mk.injEq] at this
        rw [this.1, this.2]; rfl
  have hnone : lookup d (s, t) = none := by
    simp only [dictGet, hk, bind, Except.bind] at hg
    exact Except.ok.inj hg
  have hm : lookup d (t, s) = some m := by
    simp only [dictGet, hk', bind, Except.bind] at hr
    exact Except.ok.inj hr
  exact lookup_inverse d ks kd s t m x hk hne hnone hm

/-- after `reg[m.key] = m`, `get` under `m`'s key (any spelling) finds `m`; other keys are unaffected -/
theorem get_after_set (d : List HM) (m : HM) (ks kd : Arg) (k : String × String)
    (hk : transformKey ks kd = .ok k) :
    dictGet (dictSet d m) ks kd = .ok (if m.key = k then some m else lookup d k) := by
  simp only [dictGet, hk, bind, Except.bind, lookup_set]
  rfl

/-- after `del reg[k']`, `get` under `k'` (any spelling) finds nothing; other keys are unaffected -/
theorem get_after_del (d : List HM) (ks kd : Arg) (k k' : String × String)
    (hk : transformKey ks kd = .ok k) :
    dictGet (dictErase d k') ks kd = .ok (if k = k' then none else lookup d k) := by
  simp only [dictGet, hk, bind, Except.bind, lookup_erase]
  rfl

/-! ## non-vacuity: concrete rigid motions, chains and registries -/

/-- rotation by the unit quaternion (1, 2, 2, 4)/5 with a translation, base_link → map -/
def exA : HM := ⟨⟨1, -2, 1/2⟩, ⟨1/5, 2/5, 2/5, 4/5⟩, "BASE_LINK", "MAP"⟩
/-- rotation by −(2, 3, 6, 0)/7, cam_front → base_link -/
def exB : HM := ⟨⟨3, 0, -1/4⟩, ⟨-2/7, -3/7, -6/7, 0⟩, "CAM_FRONT", "BASE_LINK"⟩

example : exA.rot.normSq = 1 := by decide +kernel
example : exB.rot.normSq = 1 := by decide +kernel
example : exA.src = exB.dst := by decide
example : exB.src ≠ exA.dst := by decide
example : dot exB exA = .error "ValueError" := by decide
example : ∃ C, dot exA exB = .ok C ∧ C.src = "CAM_FRONT" ∧ C.dst = "MAP" := ⟨_, rfl, rfl, rfl⟩
example : transformPos exA ⟨1, 0, 0⟩ ≠ ⟨1, 0, 0⟩ := by decide +kernel
example : transformKey (.str "MAP") (.str "map") = .ok ("MAP", "MAP") := by decide +kernel
example : ("MAP", "map") ∈ Gen.frameID := by decide
example : lookup [exA, exB] ("BASE_LINK", "MAP") = some exA := by decide +kernel
example : lookup [exA, exB] ("MAP", "BASE_LINK") = none := by decide +kernel
example : dictTransform [exA, exB] (.str "map") (.str "BASE_LINK") (.pos ⟨1, 0, 0⟩)
    = (inv exA).transform (.pos ⟨1, 0, 0⟩) := by decide +kernel
example : dictTransform [exA, exB] (.str "map") (.member "CAM_FRONT") (.pos ⟨1, 0, 0⟩) = .error "KeyError" := by
  decide +kernel
/-- a second base_link → map (the ego pose of the next frame) -/
def exA' : HM := ⟨⟨5, 3, 1⟩, ⟨0, 3/5, 4/5, 0⟩, "BASE_LINK", "MAP"⟩
example : exA'.key = ("BASE_LINK", "MAP") ∧ exA' ≠ exA := by decide +kernel
example : lookup [exA] ("MAP", "BASE_LINK") = none := by decide +kernel
example : dictTransform (dictSet [exA] exA') (.str "map") (.str "base_link") (.pos ⟨1, 0, 0⟩)
    = (inv exA').transform (.pos ⟨1, 0, 0⟩) := by decide +kernel
example : (inv exA').transform (.pos ⟨1, 0, 0⟩) ≠ (inv exA).transform (.pos ⟨1, 0, 0⟩) := by decide +kernel
example : dictDel [exA, exB] ("BASE_LINK", "MAP") = .ok [exB] := by decide +kernel
example : dictDel [exB] ("BASE_LINK", "MAP") = .error "KeyError" := by decide +kernel
example : dictTransform (dictErase [exA, exB] ("BASE_LINK", "MAP")) (.str "map") (.str "base_link") (.pos ⟨1, 0, 0⟩)
    = .error "KeyError" := by decide +kernel
example : dictGet [exA, exB] (.str "BASE_LINK") (.str "MAP") = .ok (some exA) := by decide +kernel
example : dictGet [exA, exB] (.member "MAP") (.str "base_link") = .ok none := by decide +kernel
example : dictGetItem [exA, exB] (.str "Map") (.str "base_link") = .error "KeyError" := by decide +kernel
example : dictGetItem [exA, exB] (.str "CAM_FRONT") (.member "BASE_LINK") = .ok exB := by decide +kernel
example : dictContains [exA, exB] (.str "CAM_FRONT") (.member "BASE_LINK") = .ok true := by decide +kernel
example : dictGet [exA] (.str "bogus") (.str "map") = .error "ValueError" := by decide +kernel
example : (TArg.pos ⟨1, 0, 0⟩).malformed = none := rfl
example : ("bogus" : String).toLower ∉ values Gen.frameID := by decide +kernel

end PEval.C18
