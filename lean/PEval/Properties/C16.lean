import PEval.Lemmas.DatasetExample
import PEval.Lemmas.DatasetVelocity
import PEval.Lemmas.DatasetTransformBridge
/-!
# C16 — loading a dataset reproduces its annotations as ground-truth frames

PARTIAL by nature: the nuScenes devkit is an external contract (DESIGN 4.6). The theorems below are
structural laws of the loader model `PEval.Dataset` (tables as lists of records, token lookup,
`sample["anns"]` in annotation-table order, boxes moved by the inverse ego pose and the inverse
sensor pose, the `prev`-chain walk of `PredictHelper`, the finite-difference velocities, and — for
the 2-D tasks — the camera selection, the `object_ann` filter, truncated ROIs and the merge of
traffic lights), quantified over ALL table sets — no bound on the number of samples, instances,
sensors, annotations. That the model is the devkit + loader is checked on
every run by loading generated dataset directories with the real `load_all_datasets`
(`harness/props/c16.py`). The label pair tables and the `Visibility` tables are regenerated from
/repo on every run (`PEval.Gen`), so the `decide` side conditions are re-checked against the code.

Not proved here (left to the correspondence): that the devkit really has the table semantics of the
model (each assumed fact is a named TRUSTED entry of the harness with a case family exposing a
deviation); IEEE arithmetic of the pose and velocity computation (the float `1e-6 * timestamp` enters
the model as the exact rational `Sample.secs`); the order in which Python enumerates `set(uuids)`.
Modelled besides ego→map: the averaged traffic-light camera (`tlrAverage`, up to the irrational
normalisation). Not modelled: the other sensor transforms stored with a frame, `load_raw_data`.
-/
namespace PEval.C16
open PEval PEval.Dataset

/-! ## label conversion is total and follows the table -/

/-- every label the pair tables (merge off/on) can answer is a member of `AutowareLabel` -/
theorem label_table_members :
    ∀ merge : Bool, ∀ p ∈ pairTable merge, p.1 ∈ Gen.autowareLabel.map (·.1) := by
  intro merge; cases merge <;> decide

/-- conversion never fails: every string converts to a member of `AutowareLabel` -/
theorem label_total (merge : Bool) (name : String) :
    convertLabel merge name ∈ Gen.autowareLabel.map (·.1) := by
  rcases convertLabel_cases merge name with ⟨p, hp, _, h⟩ | ⟨_, h⟩
  · rw [h]; exact label_table_members merge p hp
  · rw [h]; decide

/-- a category whose lower-cased name is registered gets the label of a pair registered under that
name (case-insensitive; the first such pair, `convert_label` breaks at the first match) -/
theorem label_registered (merge : Bool) (name : String)
    (h : name.toLower ∈ (pairTable merge).map (·.2)) :
    ∃ p ∈ pairTable merge, p.2 = name.toLower ∧ convertLabel merge name = p.1 := by
  rcases convertLabel_cases merge name with ⟨p, hp, hn, hl⟩ | ⟨hnot, _⟩
  · exact ⟨p, hp, hn.symm, hl⟩
  · exact absurd h hnot

/-- a category outside the table becomes UNKNOWN -/
theorem label_unregistered (merge : Bool) (name : String)
    (h : name.toLower ∉ (pairTable merge).map (·.2)) : convertLabel merge name = "UNKNOWN" := by
  rcases convertLabel_cases merge name with ⟨p, hp, hn, _⟩ | ⟨_, h'⟩
  · exact absurd (List.mem_map.2 ⟨p, hp, hn.symm⟩) h
  · exact h'

/-! ## one frame per sample, in dataset order, carrying the sample's timestamp -/

theorem frames_length_order_time (T : Tables) (cfg : Config) (fs : List Frame)
    (h : loadDataset T cfg = .ok fs) :
    fs.length = T.samples.length ∧
    fs.map (·.unixTime) = T.samples.map (·.timestamp) ∧
    fs.map (·.frameName) = (List.range T.samples.length).map toString := by
  unfold loadDataset at h
  split at h
  · cases h
  · obtain ⟨hlen, hidx⟩ := loadFrom_spec h
    refine ⟨hlen, ?_, ?_⟩
    · apply List.ext_getElem (by simp [hlen])
      intro i h1 h2
      have hi : i < T.samples.length := by simpa using h2
      obtain ⟨f, hf, hs⟩ := hidx i hi
      obtain ⟨_, _, _, _, _, _, _, ht, _, _⟩ := sampleToFrame_objects hs
      have hfi : fs[i]'(by simpa using h1) = f := by
        have := List.getElem?_eq_some_iff.1 hf
        exact this.2
      simp [hfi, ht]
    · apply List.ext_getElem (by simp [hlen])
      intro i h1 h2
      have hi : i < T.samples.length := by simpa using h2
      obtain ⟨f, hf, hs⟩ := hidx i hi
      obtain ⟨_, _, _, _, _, _, _, _, hn, _⟩ := sampleToFrame_objects hs
      have hfi : fs[i]'(by simpa using h1) = f := by
        have := List.getElem?_eq_some_iff.1 hf
        exact this.2
      simp [hfi, hn]

/-- the `i`-th frame is `_sample_to_frame` of the `i`-th sample, named `str(i)` -/
theorem frames_of_samples (T : Tables) (cfg : Config) (fs : List Frame)
    (h : loadDataset T cfg = .ok fs) :
    ∀ i (hi : i < T.samples.length),
      ∃ f, fs[i]? = some f ∧ sampleToFrame T cfg i T.samples[i] = .ok f := by
  unfold loadDataset at h
  split at h
  · cases h
  · intro i hi
    obtain ⟨f, hf, hs⟩ := (loadFrom_spec h).2 i hi
    exact ⟨f, hf, by simpa using hs⟩

/-! ## one object per annotation, carrying the annotation's fields -/

/-- In a loaded frame the objects correspond one-to-one, in order, to the annotations of the sample
(`annsOf`: the annotation table restricted to the sample); each object carries the annotation's
instance id, the name of the instance's category and its converted label, the names of the
annotation's attributes, the annotated size, the lidar point count, the visibility, and is stamped
with the sample's time and the requested frame id. -/
theorem objects_per_annotation (T : Tables) (cfg : Config) (n : Nat) (s : Sample) (f : Frame)
    (h : sampleToFrame T cfg n s = .ok f) :
    List.Forall₂ (fun a o =>
        o.uuid = a.instanceToken ∧
        categoryNameOf T a = .ok o.name ∧ o.label = convertLabel cfg.merge o.name ∧
        attributeNamesOf T a = .ok o.attributes ∧
        o.size = a.size ∧ o.points = a.numLidarPts ∧
        visibilityOf T a = .ok o.visibility ∧
        o.time = s.timestamp ∧ o.frame = cfg.frame)
      (annsOf T s.token) f.objects := by
  obtain ⟨_, ego, cs, _, _, _, _, _, _, hall⟩ := sampleToFrame_objects h
  refine forall₂_imp hall ?_
  intro a o _ hao
  obtain ⟨pose, vis, attrs, name, vel, tracked, _, hvis, hattrs, hname, _, _, _, rfl⟩ := objectOf_ok hao
  exact ⟨rfl, hname, rfl, hattrs, rfl, rfl, hvis, rfl, rfl⟩

/-- what `categoryNameOf` reads: the category of the annotation's instance -/
theorem category_via_instance (T : Tables) (a : Annotation) (name : String)
    (h : categoryNameOf T a = .ok name) :
    ∃ inst cat, lookup Instance.token T.instances a.instanceToken = .ok inst ∧
      lookup Named.token T.categories inst.categoryToken = .ok cat ∧ cat.name = name := by
  unfold categoryNameOf at h
  simp only [bind, Except.bind, pure, Except.pure] at h
  split at h
  · cases h
  · rename_i inst hi
    split at h
    · cases h
    · rename_i cat hc
      cases h
      exact ⟨inst, cat, hi, hc, rfl⟩

/-- what `attributeNamesOf` reads: the attribute records the annotation's tokens name, in order -/
theorem attributes_via_tokens (T : Tables) (a : Annotation) (names : List String)
    (h : attributeNamesOf T a = .ok names) :
    List.Forall₂ (fun t nm => ∃ r, lookup Named.token T.attributes t = .ok r ∧ r.name = nm)
      a.attributeTokens names := by
  refine forall₂_imp (mapE_forall₂ h) ?_
  intro t nm _ ht
  cases hl : lookup Named.token T.attributes t with
  | error e => simp [hl, Except.map] at ht
  | ok r =>
    simp only [hl, Except.map, Except.ok.injEq] at ht
    exact ⟨r, rfl, ht⟩

/-- with a visibility table: the level of the record the annotation's token names, parsed by
`Visibility.from_value` (`PEval.Enums.visibilityFromValue`, C20) -/
theorem visibility_via_level (T : Tables) (a : Annotation) (v : Option String)
    (hne : T.visibility ≠ []) (h : visibilityOf T a = .ok v) :
    ∃ r m, lookup Named.token T.visibility a.visibilityToken = .ok r ∧
      Enums.visibilityFromValue r.name = .ok m ∧ v = some m := by
  unfold visibilityOf at h
  have : T.visibility.isEmpty = false := by
    cases hv : T.visibility with
    | nil => exact absurd hv hne
    | cons _ _ => rfl
  simp only [this, Bool.false_eq_true, if_false] at h
  cases hl : lookup Named.token T.visibility a.visibilityToken with
  | error e => simp [hl, Except.map] at h
  | ok r =>
    simp only [hl, Except.map, Except.ok.injEq] at h
    refine ⟨r, visibilityOfLevel r.name, rfl, ?_, h.symm⟩
    unfold visibilityOfLevel Enums.visibilityFromValue
    split <;> rfl

/-- without a visibility table (`len(nusc.visibility) == 0`) every object's visibility is `None` -/
theorem visibility_absent (T : Tables) (cfg : Config) (n : Nat) (s : Sample) (f : Frame)
    (hv : T.visibility = []) (h : sampleToFrame T cfg n s = .ok f) :
    ∀ o ∈ f.objects, o.visibility = none := by
  have hall := objects_per_annotation T cfg n s f h
  intro o ho
  obtain ⟨a, _, hab⟩ := forall₂_mem_right hall ho
  have hao := hab.2.2.2.2.2.2.1
  simp only [visibilityOf, hv, List.isEmpty_nil, if_true, Except.ok.injEq] at hao
  exact hao.symm

/-! ## poses -/

/-- requested in the map frame, an object's pose is the annotated global pose -/
theorem map_pose_eq_annotation (T : Tables) (cfg : Config) (n : Nat) (s : Sample) (f : Frame)
    (hm : cfg.frame = "MAP") (h : sampleToFrame T cfg n s = .ok f) :
    List.Forall₂ (fun a o => o.pose = annPose a) (annsOf T s.token) f.objects := by
  obtain ⟨_, ego, cs, _, _, _, _, _, _, hall⟩ := sampleToFrame_objects h
  refine forall₂_imp hall ?_
  intro a o _ hao
  obtain ⟨pose, _, _, _, _, _, hpose, _, _, _, _, _, _, rfl⟩ := objectOf_ok hao
  simp only [boxPose, hm] at hpose
  simp only [show ¬ ("MAP" = "BASE_LINK") by decide, if_false, if_true, Except.ok.injEq] at hpose
  exact hpose.symm

/-- the transform stored with the frame is the ego pose of the lidar key frame the loader picked -/
theorem ego2map_eq_ego_pose (T : Tables) (cfg : Config) (n : Nat) (s : Sample) (f : Frame)
    (h : sampleToFrame T cfg n s = .ok f) :
    ∃ sd ego, lidarOf T s.token = .ok sd ∧
      lookup EgoPose.token T.egoPoses sd.egoPoseToken = .ok ego ∧
      f.ego2map = ⟨ego.translation, ego.rotation⟩ := by
  obtain ⟨sd, ego, _, hsd, hego, _, he, _⟩ := sampleToFrame_objects h
  exact ⟨sd, ego, hsd, hego, he⟩

/-- requested in the ego frame, with the picked lidar calibrated at the ego origin, an object's pose
is the annotated global pose moved by the inverse ego pose -/
theorem ego_pose_eq_moved (T : Tables) (cfg : Config) (n : Nat) (s : Sample) (f : Frame)
    (sd : SampleData) (ego : EgoPose) (cs : CalibratedSensor)
    (hb : cfg.frame = "BASE_LINK") (h : sampleToFrame T cfg n s = .ok f)
    (hsd : lidarOf T s.token = .ok sd)
    (hego : lookup EgoPose.token T.egoPoses sd.egoPoseToken = .ok ego)
    (hcs : lookup CalibratedSensor.token T.calibratedSensors sd.calibratedSensorToken = .ok cs)
    (h0 : cs.translation = Vec3.zero) (h1 : cs.rotation = Quat.one) :
    List.Forall₂ (fun a o => o.pose = moveInv ego.translation ego.rotation (annPose a))
      (annsOf T s.token) f.objects := by
  obtain ⟨sd', ego', cs', hsd', hego', hcs', _, _, _, hall⟩ := sampleToFrame_objects h
  rw [hsd] at hsd'; cases hsd'
  rw [hego] at hego'; cases hego'
  rw [hcs] at hcs'; cases hcs'
  refine forall₂_imp hall ?_
  intro a o _ hao
  obtain ⟨pose, _, _, _, _, _, hpose, _, _, _, _, _, _, rfl⟩ := objectOf_ok hao
  simp only [boxPose, hb, if_true, Except.ok.injEq, h0, h1, moveInv_identity] at hpose
  exact hpose.symm

/-- … so, for a unit ego rotation, the ego→map transform stored with the frame maps every object's
ego-frame pose back onto the annotated global pose — position and orientation -/
theorem ego_pose_roundtrip (T : Tables) (cfg : Config) (n : Nat) (s : Sample) (f : Frame)
    (sd : SampleData) (ego : EgoPose) (cs : CalibratedSensor)
    (hb : cfg.frame = "BASE_LINK") (h : sampleToFrame T cfg n s = .ok f)
    (hsd : lidarOf T s.token = .ok sd)
    (hego : lookup EgoPose.token T.egoPoses sd.egoPoseToken = .ok ego)
    (hcs : lookup CalibratedSensor.token T.calibratedSensors sd.calibratedSensorToken = .ok cs)
    (h0 : cs.translation = Vec3.zero) (h1 : cs.rotation = Quat.one)
    (hu : ego.rotation.normSq = 1) :
    List.Forall₂ (fun a o => applyPose f.ego2map o.pose = annPose a) (annsOf T s.token) f.objects := by
  have hm := ego_pose_eq_moved T cfg n s f sd ego cs hb h hsd hego hcs h0 h1
  obtain ⟨sd', ego', hsd', hego', he⟩ := ego2map_eq_ego_pose T cfg n s f h
  rw [hsd] at hsd'; cases hsd'
  rw [hego] at hego'; cases hego'
  refine forall₂_imp hm ?_
  intro a o _ hao
  rw [he, hao]
  exact applyPose_moveInv _ _ hu _

/-! ## the choice of the lidar, and the two rejections the loader names -/

theorem lidar_top_preferred (T : Tables) (tok : String) (sd : SampleData)
    (h : dataOf T tok "LIDAR_TOP" = some sd) : lidarOf T tok = .ok sd := by
  simp [lidarOf, h]

theorem lidar_concat_fallback (T : Tables) (tok : String) (sd : SampleData)
    (h0 : dataOf T tok "LIDAR_TOP" = none) (h : dataOf T tok "LIDAR_CONCAT" = some sd) :
    lidarOf T tok = .ok sd := by
  simp [lidarOf, h0, h]

theorem no_lidar_rejected (T : Tables) (cfg : Config) (n : Nat) (s : Sample)
    (h0 : dataOf T s.token "LIDAR_TOP" = none) (h1 : dataOf T s.token "LIDAR_CONCAT" = none) :
    sampleToFrame T cfg n s = .error "ValueError" := by
  simp [sampleToFrame, lidarOf, h0, h1, bind, Except.bind]

theorem no_samples_rejected (T : Tables) (cfg : Config) (h : T.samples = []) :
    loadDataset T cfg = .error "DatasetLoadingError" := by
  simp [loadDataset, h]

/-! ## tracking history -/

/-- a tracking task exposes, per object, one state per record that `get_past_for_agent` returns for
the object's instance and sample, nearest first: the record's annotated global pose, its size and
the devkit's `box_velocity` of the record -/
theorem tracking_history (T : Tables) (cfg : Config) (n : Nat) (s : Sample) (f : Frame)
    (ht : cfg.tracking = true) (h : sampleToFrame T cfg n s = .ok f) :
    List.Forall₂ (fun a o => ∃ recs states, pastRecords T a = .ok recs ∧ o.tracked = some states ∧
        List.Forall₂ (fun r st => st.pose = annPose r ∧ st.size = r.size ∧
          velocityOf T false r = .ok st.velocity) recs states)
      (annsOf T s.token) f.objects := by
  obtain ⟨_, ego, cs, _, _, _, _, _, _, hall⟩ := sampleToFrame_objects h
  refine forall₂_imp hall ?_
  intro a o _ hao
  obtain ⟨_, _, _, _, _, tracked, _, _, _, _, _, _, htr, rfl⟩ := objectOf_ok hao
  simp only [trackedOf, ht, if_true] at htr
  cases hp : pastRecords T a with
  | error e => simp [hp] at htr
  | ok recs =>
    simp only [hp] at htr
    cases hm : mapE (pastStateOf T) recs with
    | error e => simp [hm, Except.map] at htr
    | ok states =>
      simp only [hm, Except.map, Except.ok.injEq] at htr
      refine ⟨recs, states, rfl, htr.symm, forall₂_imp (mapE_forall₂ hm) ?_⟩
      intro r st _ hrs
      unfold pastStateOf at hrs
      cases hv : velocityOf T false r with
      | error e => simp [hv, Except.map] at hrs
      | ok v =>
        simp only [hv, Except.map, Except.ok.injEq] at hrs
        subst hrs
        exact ⟨rfl, rfl, rfl⟩

/-- when `prev` links stay within one instance (well-formed data), every exposed past state belongs
to an annotation of the SAME instance -/
theorem tracking_history_same_instance (T : Tables) (a : Annotation) (recs : List Annotation)
    (hprev : ∀ b ∈ T.annotations, ∀ c, lookup Annotation.token T.annotations b.prev = .ok c →
      c.instanceToken = b.instanceToken)
    (h : pastRecords T a = .ok recs) :
    ∀ r ∈ recs, r ∈ T.annotations ∧ r.instanceToken = a.instanceToken := by
  obtain ⟨st, t0, _, hstm, hsti, _, h⟩ := pastRecords_inv h
  refine iterate_inv (fun r => r ∈ T.annotations ∧ r.instanceToken = a.instanceToken)
    (fun r => r ∈ T.annotations ∧ r.instanceToken = a.instanceToken) ?_ _ st 0 [] recs ⟨hstm, hsti⟩
    (fun r hr => by cases hr) h
  intro cur nxt t ⟨hc, hci⟩ hn _
  have hm := (lookup_ok_mem hn).1
  have := hprev cur hc nxt hn
  exact ⟨⟨hm, this.trans hci⟩, fun _ => ⟨hm, this.trans hci⟩⟩

/-- the history holds at most 6 states, each less than 3.15 s away from the object's own sample -/
theorem tracking_history_bounds (T : Tables) (a : Annotation) (recs : List Annotation)
    (h : pastRecords T a = .ok recs) :
    recs.length ≤ 6 ∧
    ∀ r ∈ recs, ∃ tr ta, timeOf T r.sampleToken = .ok tr ∧ timeOf T a.sampleToken = .ok ta ∧
      absDiff tr ta < 3150000 := by
  obtain ⟨st, t0, _, _, _, ht0, h⟩ := pastRecords_inv h
  refine ⟨iterate_length _ st 0 [] recs (by simp [maxPast]) h, ?_⟩
  refine iterate_inv (fun r => ∃ tr ta, timeOf T r.sampleToken = .ok tr ∧ timeOf T a.sampleToken = .ok ta ∧
    absDiff tr ta < 3150000) (fun _ => True) ?_ _ st 0 [] recs trivial (fun r hr => by cases hr) h
  intro cur nxt t _ _ ht
  exact ⟨trivial, fun hlt => ⟨t, t0, ht, ht0, hlt⟩⟩

/-- when every `prev` link points to a strictly earlier sample (well-formed data), every exposed
past state lies strictly BEFORE the object's sample: the history is about preceding samples -/
theorem tracking_history_preceding (T : Tables) (a : Annotation) (recs : List Annotation)
    (hearlier : ∀ b ∈ T.annotations, ∀ c, lookup Annotation.token T.annotations b.prev = .ok c →
      ∀ tb tc, timeOf T b.sampleToken = .ok tb → timeOf T c.sampleToken = .ok tc → tc < tb)
    (h : pastRecords T a = .ok recs) :
    ∀ r ∈ recs, ∃ tr ta, timeOf T r.sampleToken = .ok tr ∧ timeOf T a.sampleToken = .ok ta ∧ tr < ta := by
  obtain ⟨st, t0, hst, hstm, _, ht0, h⟩ := pastRecords_inv h
  have hst0 : timeOf T st.sampleToken = .ok t0 := (startOf_inv hst).2.1 ▸ ht0
  refine iterate_inv
    (fun r => ∃ tr ta, timeOf T r.sampleToken = .ok tr ∧ timeOf T a.sampleToken = .ok ta ∧ tr < ta)
    (fun c => c ∈ T.annotations ∧ ∃ tc, timeOf T c.sampleToken = .ok tc ∧ tc ≤ t0) ?_ _ st 0 [] recs
    ⟨hstm, t0, hst0, Nat.le_refl _⟩ (fun r hr => by cases hr) h
  intro cur nxt t ⟨hc, tc, htc, hle⟩ hn ht
  have hlt := hearlier cur hc nxt hn tc t htc ht
  have hm := (lookup_ok_mem hn).1
  exact ⟨⟨hm, t, ht, by omega⟩, fun _ => ⟨t, t0, ht, ht0, by omega⟩⟩

/-! ### the history is EXACTLY a prefix of the `prev`-chain

`PrevChain T a chain` (`PEval.Lemmas.DatasetHistory`): `chain` lists the records met when walking
`prev` from `a` down to a record without `prev`, nearest first. `tm r` is the time of the sample of
record `r`. The code's test (`PredictHelper._iterate`): a record is kept iff its distance in time
to the object's sample is STRICTLY below 3.0 s + 0.15 s = 3 150 000 µs; the walk goes on while the last
distance is ≤ that bound and fewer than `int(2 * 3.0) = 6` records are held. With `prev` links that go
strictly back in time this is "the chain cut at the first record 3.15 s old or older, at most 6". -/

/-- For well-formed data — `prev` links point strictly back in time and the sample holds no second
annotation of the instance — the records `get_past_for_agent` returns for the object are exactly:
the `prev`-chain of the object's annotation, nearest first, cut at the first record that is
3.15 s or more older than the object's sample, truncated to 6. -/
theorem tracking_history_exact (T : Tables) (tm : Annotation → Nat) (a : Annotation) (chain : List Annotation)
    (ha : a ∈ T.annotations)
    (htm : ∀ r ∈ T.annotations, timeOf T r.sampleToken = .ok (tm r))
    (hearlier : ∀ b ∈ T.annotations, ∀ c, lookup Annotation.token T.annotations b.prev = .ok c → tm c < tm b)
    (huniq : ∀ b ∈ T.annotations, b.sampleToken = a.sampleToken → b.instanceToken = a.instanceToken → b = a)
    (hchain : PrevChain T a chain) :
    pastRecords T a = .ok ((chain.takeWhile (fun r => decide (tm a - tm r < 3150000))).take 6) := by
  obtain ⟨hlt, hpw⟩ := hchain.desc ha hearlier
  have hlen := hchain.length_lt ha hearlier
  have hwalk := iterate_eq_walk (start := tm a) (tm := tm) hchain (fun r hr => htm r (hchain.mem r hr))
    T.annotations.length 0 [] hlen
  have habs : ∀ r ∈ chain, absDiff (tm r) (tm a) = tm a - tm r := by
    intro r hr
    have := hlt r hr
    simp only [absDiff]
    split <;> omega
  have hspec := walk_spec (start := tm a) (tm := tm) chain 0 [] (by simp [windowUs])
    (fun r hr => by rw [habs r hr]; have := hlt r hr; omega)
    (hpw.imp_of_mem (fun {x y} hx hy hxy => by
      rw [habs x hx, habs y hy]; have := hlt x hx; have := hlt y hy; omega))
  have htw : chain.takeWhile (fun r => decide (absDiff (tm r) (tm a) < windowUs))
      = chain.takeWhile (fun r => decide (tm a - tm r < 3150000)) := by
    apply takeWhile_congr_mem
    intro r hr
    rw [habs r hr]; rfl
  simp only [pastRecords, startOf_self ha huniq, htm a ha, hwalk, hspec, htw]
  simp [maxPast]

/-- on referentially intact tables with `prev` links strictly back in time, the chain of every
annotation exists (the walk along `prev` ends), is unique, sorted newest first, strictly older than
the annotation, made of records of the annotation table, and stays in the instance when every link does -/
theorem prev_chain_exists_sorted (T : Tables) (tm : Annotation → Nat) (a : Annotation) (wf : WellFormed T)
    (ha : a ∈ T.annotations)
    (hearlier : ∀ b ∈ T.annotations, ∀ c, lookup Annotation.token T.annotations b.prev = .ok c → tm c < tm b) :
    ∃ chain, PrevChain T a chain ∧ (∀ chain', PrevChain T a chain' → chain' = chain) ∧
      (∀ r ∈ chain, r ∈ T.annotations ∧ tm r < tm a) ∧ chain.Pairwise (fun x y => tm y < tm x) ∧
      ((∀ b ∈ T.annotations, ∀ c, lookup Annotation.token T.annotations b.prev = .ok c →
          c.instanceToken = b.instanceToken) → ∀ r ∈ chain, r.instanceToken = a.instanceToken) := by
  obtain ⟨chain, hc⟩ := PrevChain.exists_of_wf wf tm hearlier (tm a + 1) a ha (Nat.lt_succ_self _)
  obtain ⟨h1, h2⟩ := hc.desc ha hearlier
  exact ⟨chain, hc, fun c' hc' => hc'.unique hc, fun r hr => ⟨hc.mem r hr, h1 r hr⟩, h2,
    fun hprev => hc.same_instance ha hprev⟩

/-- … so, in a loaded tracking frame of such data, the history of every object is the poses and sizes
of that prefix of its annotation's chain, nearest first -/
theorem tracking_history_exact_frame (T : Tables) (tm : Annotation → Nat) (cfg : Config) (n : Nat) (s : Sample)
    (f : Frame) (ht : cfg.tracking = true) (h : sampleToFrame T cfg n s = .ok f)
    (htm : ∀ r ∈ T.annotations, timeOf T r.sampleToken = .ok (tm r))
    (hearlier : ∀ b ∈ T.annotations, ∀ c, lookup Annotation.token T.annotations b.prev = .ok c → tm c < tm b)
    (huniq : ∀ a ∈ T.annotations, ∀ b ∈ T.annotations, b.sampleToken = a.sampleToken →
      b.instanceToken = a.instanceToken → b = a) :
    List.Forall₂ (fun a o => ∀ chain, PrevChain T a chain → ∃ states, o.tracked = some states ∧
        states.map (fun st => (st.pose, st.size)) =
          ((chain.takeWhile (fun r => decide (tm a - tm r < 3150000))).take 6).map (fun r => (annPose r, r.size)))
      (annsOf T s.token) f.objects := by
  refine forall₂_imp (tracking_history T cfg n s f ht h) ?_
  intro a o ha ⟨recs, states, hrecs, hst, hall⟩ chain hchain
  have ham := (annsOf_mem ha).1
  rw [tracking_history_exact T tm a chain ham htm hearlier (huniq a ham) hchain] at hrecs
  cases hrecs
  refine ⟨states, hst, ?_⟩
  clear hst
  generalize (chain.takeWhile (fun r => decide (tm a - tm r < 3150000))).take 6 = l at hall
  induction hall with
  | nil => rfl
  | cons hrs _ ih => simp [hrs.1, hrs.2.1, ih]

/-- other tasks (detection, sensing) expose no history -/
theorem no_history_unless_tracking (T : Tables) (cfg : Config) (n : Nat) (s : Sample) (f : Frame)
    (ht : cfg.tracking = false) (h : sampleToFrame T cfg n s = .ok f) :
    ∀ o ∈ f.objects, o.tracked = none := by
  obtain ⟨_, ego, cs, _, _, _, _, _, _, hall⟩ := sampleToFrame_objects h
  intro o ho
  obtain ⟨a, _, hab⟩ := forall₂_mem_right hall ho
  obtain ⟨_, _, _, _, _, tracked, _, _, _, _, _, _, htr, rfl⟩ := objectOf_ok hab
  simp only [trackedOf, ht, Bool.false_eq_true, if_false, Except.ok.injEq] at htr
  exact htr.symm

/-! ## velocities

`velocityOf T true a`  = `_get_box_velocity(nusc, a.token)` of perception_eval (object axes of `first`),
`velocityOf T false r` = `nusc.box_velocity(r.token)` of the devkit (global axes; `none` = the all-`nan`
vector). `secs` of a sample is the float `1e-6 * timestamp` (exact value); `velocity_exact_time`
specialises to timestamps for which that product is exact. -/

/-- every loaded object carries `_get_box_velocity` of its annotation — whatever the frame id and task -/
theorem objects_velocity (T : Tables) (cfg : Config) (n : Nat) (s : Sample) (f : Frame)
    (h : sampleToFrame T cfg n s = .ok f) :
    List.Forall₂ (fun a o => velocityOf T true a = .ok o.velocity) (annsOf T s.token) f.objects := by
  obtain ⟨_, ego, cs, _, _, _, _, _, _, hall⟩ := sampleToFrame_objects h
  refine forall₂_imp hall ?_
  intro a o _ hao
  obtain ⟨_, _, _, _, vel, _, _, _, _, _, _, hvel, _, rfl⟩ := objectOf_ok hao
  exact hvel

/-- an annotation with neither `prev` nor `next` has no velocity estimate (`None`; `nan` for the devkit) -/
theorem velocity_none_single (T : Tables) (objectFrame : Bool) (a : Annotation)
    (hp : a.prev = "") (hn : a.next = "") : velocityOf T objectFrame a = .ok none := by
  simp [velocityOf, hp, hn]

/-- the formula. `first` = the `prev` record, or the annotation itself when it has none; `last` = the
`next` record, or itself; `tf`, `tl` their sample times in seconds. The estimate is the displacement
`last − first` (for `_get_box_velocity`: turned into the axes of `first` by its inverse rotation)
divided by `tl − tf`, and there is NO estimate exactly when `tl − tf` exceeds 1.5 s — 3 s when both
neighbours exist (the bound itself is allowed: `time_diff <= max_time_diff`). -/
theorem velocity_formula (T : Tables) (objectFrame : Bool) (a first last : Annotation) (tf tl : Rat)
    (hsome : a.prev ≠ "" ∨ a.next ≠ "")
    (hfirst : if a.prev = "" then first = a else lookup Annotation.token T.annotations a.prev = .ok first)
    (hlast : if a.next = "" then last = a else lookup Annotation.token T.annotations a.next = .ok last)
    (htf : secsOf T first.sampleToken = .ok tf) (htl : secsOf T last.sampleToken = .ok tl) :
    velocityOf T objectFrame a = .ok
      (if tl - tf ≤ (if a.prev ≠ "" ∧ a.next ≠ "" then 3 else 3 / 2) then
        some (((if objectFrame then rotate first.rotation.conj (last.translation.sub first.translation)
                else last.translation.sub first.translation)).divBy (tl - tf))
       else none) := by
  have h0 : (a.prev == "" && a.next == "") = false := by
    rcases hsome with h | h <;> simp [h]
  have h1 : (if a.prev == "" then Except.ok a else lookup Annotation.token T.annotations a.prev) = .ok first := by
    by_cases hp : a.prev = ""
    · simp only [hp, if_true] at hfirst; simp [hp, hfirst]
    · simp only [hp, if_false] at hfirst; simp [hp, hfirst]
  have h2 : (if a.next == "" then Except.ok a else lookup Annotation.token T.annotations a.next) = .ok last := by
    by_cases hn : a.next = ""
    · simp only [hn, if_true] at hlast; simp [hn, hlast]
    · simp only [hn, if_false] at hlast; simp [hn, hlast]
  have h3 : maxTimeDiff a = (if a.prev ≠ "" ∧ a.next ≠ "" then 3 else 3 / 2) := by
    unfold maxTimeDiff
    by_cases hp : a.prev = "" <;> by_cases hn : a.next = "" <;> simp [hp, hn]
  simp only [velocityOf, h0, Bool.false_eq_true, if_false, h1, h2, htf, htl, h3]

/-- with exact times (`secs = timestamp / 10^6`, e.g. timestamps on a 1/64 s grid) the divisor is the
difference of the two sample timestamps in seconds -/
theorem velocity_exact_time (T : Tables) (first last : Annotation) (sf sl : Sample)
    (hf : lookup Sample.token T.samples first.sampleToken = .ok sf)
    (hl : lookup Sample.token T.samples last.sampleToken = .ok sl)
    (hef : sf.secs = (sf.timestamp : Rat) / 1000000) (hel : sl.secs = (sl.timestamp : Rat) / 1000000) :
    ∃ tf tl, secsOf T first.sampleToken = .ok tf ∧ secsOf T last.sampleToken = .ok tl ∧
      tl - tf = ((sl.timestamp : Rat) - sf.timestamp) / 1000000 := by
  refine ⟨sf.secs, sl.secs, secsOf_ok hf, secsOf_ok hl, ?_⟩
  rw [hef, hel]
  grind

/-- on referentially intact tables both velocity functions are defined for every annotation -/
theorem velocity_total (T : Tables) (wf : WellFormed T) (objectFrame : Bool) (a : Annotation)
    (ha : a ∈ T.annotations) : ∃ v, velocityOf T objectFrame a = .ok v :=
  velocityOf_ok wf objectFrame ha

/-! ## FP_VALIDATION, unknown sensor channels -/

/-- under FP_VALIDATION a loaded frame holds only objects labelled FP (any other converted label makes
`_sample_to_frame` raise `ValueError`) -/
theorem fp_validation_all_fp (T : Tables) (cfg : Config) (n : Nat) (s : Sample) (f : Frame)
    (hfp : cfg.fpValidation = true) (h : sampleToFrame T cfg n s = .ok f) :
    ∀ o ∈ f.objects, o.label = "FP" := by
  obtain ⟨_, ego, cs, _, _, _, _, _, _, hall⟩ := sampleToFrame_objects h
  intro o ho
  obtain ⟨a, _, hab⟩ := forall₂_mem_right hall ho
  obtain ⟨_, _, _, name, _, _, _, _, _, _, hchk, _, _, rfl⟩ := objectOf_ok hab
  simp only [fpCheck, hfp, Bool.true_and] at hchk
  by_cases hl : convertLabel cfg.merge name = "FP"
  · exact hl
  · simp [hl] at hchk

/-- … and an annotation whose category converts to another label is rejected with `ValueError`, once
its pose, visibility, attributes and category resolve -/
theorem fp_validation_rejects (T : Tables) (cfg : Config) (time : Nat) (ego : EgoPose) (cs : CalibratedSensor)
    (a : Annotation) (pose : Pose) (vis : Option String) (attrs : List String) (name : String)
    (hfp : cfg.fpValidation = true) (hpose : boxPose cfg.frame ego cs a = .ok pose)
    (hvis : visibilityOf T a = .ok vis) (hattrs : attributeNamesOf T a = .ok attrs)
    (hname : categoryNameOf T a = .ok name) (hl : convertLabel cfg.merge name ≠ "FP") :
    objectOf T cfg time ego cs a = .error "ValueError" := by
  simp [objectOf, hpose, hvis, hattrs, hname, fpCheck, hfp, hl, bind, Except.bind]

/-- `_get_transforms` converts the channel of EVERY calibrated sensor of the dataset with
`FrameID.from_value`: a frame loads only if all of them are `FrameID` values -/
theorem sensor_channels_are_frame_ids (T : Tables) (cfg : Config) (n : Nat) (s : Sample) (f : Frame)
    (h : sampleToFrame T cfg n s = .ok f) :
    ∀ cs ∈ T.calibratedSensors, ∃ sen m, lookup Sensor.token T.sensors cs.sensorToken = .ok sen ∧
      Enums.frameFromValue sen.channel = .ok m := by
  obtain ⟨_, _, _, _, frs, _, _, _, _, hfrs, _, _⟩ := sampleToFrame_ok h
  intro cs hcs
  have hall := mapE_forall₂ (sensorFrames_ok hfrs).1
  obtain ⟨m, _, hm⟩ := forall₂_mem_left hall hcs
  cases hl : lookup Sensor.token T.sensors cs.sensorToken with
  | error e => simp [hl] at hm
  | ok sen =>
    simp only [hl] at hm
    exact ⟨sen, m, rfl, hm⟩

/-- FIXED FINDING C16-N1 (before the repair two traffic-light cameras calibrated `q` and `-q` — one and
the same rotation — made every load raise `ZeroDivisionError`). `_get_transforms` averages the calibrated
rotations of the traffic-light cameras as `sum / sum.norm` AFTER negating every rotation whose 4-D dot
product with the FIRST one is negative (`alignSigns`). For every list of calibrated rotations whose first
one is not the zero quaternion (pose tables hold unit quaternions):

1. every aligned rotation is the calibrated one or its negation (the same rotation), and lies in the
   closed half-space of the first: the alignment changes no camera;
2. the aligned sum keeps a component of at least `|q₀|²` along the first rotation `q₀`, hence is NOT the
   zero quaternion, whatever the signs and the number of the rotations;
3. so `_get_transforms` never raises `ZeroDivisionError` on tables without zero rotations: it fails only
   where a calibrated sensor's sensor does not resolve (`KeyError`) or its channel is no `FrameID` value
   (`ValueError`), and no frame of any 3-D task fails with `ZeroDivisionError`. -/
theorem traffic_light_rotations_never_cancel :
    (∀ q0 q : Quat, (alignTo q0 q = q ∨ alignTo q0 q = q.neg) ∧ 0 ≤ Quat.dot q0 (alignTo q0 q)) ∧
    (∀ (q0 : Quat) (rest : List Quat), q0 ≠ Quat.zero →
      q0.normSq ≤ Quat.dot q0 ((alignSigns (q0 :: rest)).foldl Quat.add Quat.zero) ∧
      (alignSigns (q0 :: rest)).foldl Quat.add Quat.zero ≠ Quat.zero) ∧
    (∀ (T : Tables) (frs : List String),
      (∀ q, (tlrRawRotations T frs).head? = some q → q ≠ Quat.zero) → tlrRotations T frs ≠ [] →
      (tlrRotations T frs).foldl Quat.add Quat.zero ≠ Quat.zero) ∧
    (∀ T : Tables, (∀ cs ∈ T.calibratedSensors, cs.rotation ≠ Quat.zero) →
      sensorFrames T ≠ .error "ZeroDivisionError" ∧
      (∀ e, sensorFrames T = .error e → e = "KeyError" ∨ e = "ValueError") ∧
      ∀ (cfg : Config) (n : Nat) (s : Sample) (sd : SampleData) (ego : EgoPose) (cs : CalibratedSensor),
        lidarOf T s.token = .ok sd → (cfg.frame = "BASE_LINK" ∨ cfg.frame = "MAP") →
        lookup EgoPose.token T.egoPoses sd.egoPoseToken = .ok ego →
        lookup CalibratedSensor.token T.calibratedSensors sd.calibratedSensorToken = .ok cs →
        (∃ frs, sensorFrames T = .ok frs) ∨
          sampleToFrame T cfg n s = .error "KeyError" ∨ sampleToFrame T cfg n s = .error "ValueError") := by
  refine ⟨?_, ?_, ?_, ?_⟩
  · intro q0 q
    refine ⟨?_, alignTo_dot_nonneg q0 q⟩
    rcases alignTo_cases q0 q with ⟨_, e⟩ | ⟨_, e⟩
    · exact Or.inr e
    · exact Or.inl e
  · intro q0 rest h
    exact ⟨alignSigns_sum_dot q0 rest, alignSigns_sum_ne_zero rest h⟩
  · intro T frs h hne
    exact tlrRotations_sum_ne_zero h hne
  · intro T hr
    have hkind : ∀ e, sensorFrames T = .error e → e = "KeyError" ∨ e = "ValueError" :=
      fun e he => sensorFrames_error_kind he hr
    refine ⟨?_, hkind, ?_⟩
    · intro hz
      rcases hkind _ hz with h | h <;> simp at h
    · intro cfg n s sd ego cs hsd hfr hego hcs
      cases hs : sensorFrames T with
      | ok frs => exact Or.inl ⟨frs, rfl⟩
      | error e =>
        right
        rcases hkind e hs with rfl | rfl
        · left; simp [sampleToFrame, hsd, hfr, hego, hcs, hs, bind, Except.bind]
        · right; simp [sampleToFrame, hsd, hfr, hego, hcs, hs, bind, Except.bind]

/-- the averaged traffic-light camera stored with a frame (`CAM_TRAFFIC_LIGHT -> BASE_LINK`): its rotation is
the (normalised) sum of the sign-aligned calibrated rotations, which is not the zero quaternion and has a
positive component along the first camera's rotation — two cameras calibrated `q` and `-q` average to `q`,
not to garbage; its position is the mean of the calibrated translations -/
theorem traffic_light_average (T : Tables) (hr : ∀ cs ∈ T.calibratedSensors, cs.rotation ≠ Quat.zero)
    (avg : Pose) (h : tlrAverage T = .ok (some avg)) :
    ∃ frs q0 rest, sensorFrames T = .ok frs ∧ tlrRawRotations T frs = q0 :: rest ∧
      avg.rot = (q0 :: rest.map (alignTo q0)).foldl Quat.add Quat.zero ∧
      avg.rot ≠ Quat.zero ∧ 0 < q0.normSq ∧ q0.normSq ≤ Quat.dot q0 avg.rot ∧
      avg.pos = ((tlrPositions T frs).foldl Vec3.add Vec3.zero).divBy ((tlrPositions T frs).length : Nat) := by
  unfold tlrAverage at h
  cases hs : sensorFrames T with
  | error e => simp [hs] at h
  | ok frs =>
    simp only [hs] at h
    split at h
    · cases h
    · rename_i hne
      simp only [Except.ok.injEq, Option.some.injEq] at h
      subst h
      cases hl : tlrRawRotations T frs with
      | nil => simp [tlrRotations, hl, alignSigns] at hne
      | cons q0 rest =>
        have hq0 : q0 ≠ Quat.zero := by
          obtain ⟨cs, hcs, rfl⟩ := tlrRawRotations_mem (T := T) (frs := frs) (q := q0) (by simp [hl])
          exact hr cs hcs
        refine ⟨frs, q0, rest, rfl, hl, ?_, ?_, Quat.normSq_pos hq0, ?_, rfl⟩
        · simp [tlrRotations, hl, alignSigns]
        · simpa [tlrRotations, hl] using alignSigns_sum_ne_zero rest hq0
        · simpa [tlrRotations, hl] using alignSigns_sum_dot q0 rest

/-! ## loading a well-formed dataset never fails -/

/-- on referentially intact tables (`WellFormed`: every followed token resolves, every sample has a
lidar key frame, every sensor channel is a `FrameID` value, no calibrated rotation is the zero quaternion)
the loader returns frames for both supported frame ids, detection / tracking / sensing, merge on/off (for
FP_VALIDATION see `fp_validation_*`). `WellFormed` no longer asks that `_get_transforms` succeed: that the
traffic-light cameras' rotations cannot cancel is proved (`traffic_light_rotations_never_cancel`), so
cameras calibrated `q` and `-q` are covered -/
theorem load_total (T : Tables) (cfg : Config) (wf : WellFormed T)
    (hfr : cfg.frame = "BASE_LINK" ∨ cfg.frame = "MAP") (hfp : cfg.fpValidation = false) :
    ∃ fs, loadDataset T cfg = .ok fs := by
  unfold loadDataset
  have : T.samples.isEmpty = false := by
    cases hs : T.samples with
    | nil => exact absurd hs wf.samples_ne
    | cons _ _ => rfl
  simp only [this, Bool.false_eq_true, if_false]
  exact loadFrom_total wf hfr hfp T.samples 0 (fun s hs => hs)

/-- any other frame id is rejected (`_get_sample_boxes`) -/
theorem other_frame_rejected (T : Tables) (cfg : Config) (n : Nat) (s : Sample) (sd : SampleData)
    (hsd : lidarOf T s.token = .ok sd) (hfr : ¬ (cfg.frame = "BASE_LINK" ∨ cfg.frame = "MAP")) :
    sampleToFrame T cfg n s = .error "ValueError" := by
  simp [sampleToFrame, hsd, hfr, bind, Except.bind, throw, throwThe, MonadExceptOf.throw]

/-! ## 2-D tasks (`_sample_to_frame_2d`)

The "annotations" of a 2-D frame are the records of `object_ann.json` whose `sample_data_token` is
the key-frame image of one of the REQUESTED frame ids (cameras) in the sample — `objectAnnsOf T
(camerasOf T s.token cfg.frames)`, in table order. -/

/-- 2-D label conversion is total: every category name converts to a member of the label family of
the converter (`AutowareLabel` for the prefix `autoware`, `TrafficLightLabel` for `traffic_light`) -/
theorem label2d_total (cfg : Config2D) (name : String) :
    convertWith (pairTable2D cfg) name ∈
      (if cfg.family = "traffic_light" then Gen.trafficLightLabel else Gen.autowareLabel).map (·.1) := by
  have hcls : ∀ p ∈ Gen.trafficLightPairsClassification, p.1 ∈ Gen.trafficLightLabel.map (·.1) := by decide
  have hoth : ∀ p ∈ Gen.trafficLightPairsOther, p.1 ∈ Gen.trafficLightLabel.map (·.1) := by decide
  have hunk : "UNKNOWN" ∈ Gen.trafficLightLabel.map (·.1) ∧ "UNKNOWN" ∈ Gen.autowareLabel.map (·.1) := by decide
  rcases convertWith_cases (pairTable2D cfg) name with ⟨p, hp, _, h⟩ | ⟨_, h⟩
  · rw [h]
    unfold pairTable2D at hp
    split at hp
    · rename_i hf
      simp only [hf, if_true]
      rcases trafficLightTable_cases cfg.task with ht | ht
      · rw [ht] at hp; exact hcls p hp
      · rw [ht] at hp; exact hoth p hp
    · rename_i hf
      simp only [hf, if_false]
      exact label_table_members cfg.merge p hp
  · rw [h]
    split
    · exact hunk.1
    · exact hunk.2

/-- one frame per sample, in dataset order, carrying the sample's timestamp and named by its index -/
theorem frames2d_length_order_time (T : Tables) (cfg : Config2D) (fs : List Frame2D)
    (h : loadDataset2D T cfg = .ok fs) :
    fs.length = T.samples.length ∧
    ∀ i (hi : i < T.samples.length), ∃ f, fs[i]? = some f ∧ sampleToFrame2D T cfg i T.samples[i] = .ok f ∧
      f.unixTime = T.samples[i].timestamp ∧ f.frameName = toString i := by
  unfold loadDataset2D at h
  split at h
  · cases h
  · obtain ⟨hlen, hidx⟩ := loadFrom2D_spec h
    refine ⟨hlen, ?_⟩
    intro i hi
    obtain ⟨f, hf, hs⟩ := hidx i hi
    have hs' : sampleToFrame2D T cfg i T.samples[i] = .ok f := by simpa using hs
    obtain ⟨_, _, _, _, _, _, rfl⟩ := sampleToFrame2D_ok hs'
    exact ⟨_, hf, hs', rfl, rfl⟩

/-- the cameras of a frame: exactly the requested frame ids for which the sample has a key-frame
`sample_data` of the channel `frame_id.value.upper()`, in the order requested -/
theorem cameras_selected (T : Tables) (tok : String) (frames : List String) :
    (∀ fr sd, (fr, sd) ∈ camerasOf T tok frames ↔ fr ∈ frames ∧ dataOf T tok (cameraType fr) = some sd) ∧
    ((camerasOf T tok frames).map (·.1)).Sublist frames :=
  ⟨fun _ _ => mem_camerasOf, camerasOf_sublist T tok frames⟩

/-- the transform stored with a 2-D frame: none when no requested camera has data; otherwise the ego
pose of the image of the LAST requested camera that has data (and then every sensor channel of the
dataset is a `FrameID` value) -/
theorem ego2map_2d (T : Tables) (cfg : Config2D) (n : Nat) (s : Sample) (f : Frame2D)
    (h : sampleToFrame2D T cfg n s = .ok f) :
    (camerasOf T s.token cfg.frames = [] → f.ego2map = none) ∧
    (∀ c, (camerasOf T s.token cfg.frames).getLast? = some c →
      ∃ ego, lookup EgoPose.token T.egoPoses c.2.egoPoseToken = .ok ego ∧
        f.ego2map = some ⟨ego.translation, ego.rotation⟩) := by
  obtain ⟨tf, _, _, htf, _, _, rfl⟩ := sampleToFrame2D_ok h
  obtain ⟨h1, h2, _⟩ := transforms2D_spec htf
  exact ⟨h1, h2⟩

/-- Unless traffic lights are merged (family `traffic_light` with CLASSIFICATION2D, see
`merged_traffic_lights`), the objects of a loaded 2-D frame correspond one-to-one, in order, to the
2-D annotations on the requested cameras; each object carries the name of the annotation's category
and its converted label, the names of its attributes, the ROI of its bbox (detection / tracking
only), the frame id under which its camera was requested, the sample's time, and as uuid the
annotation's instance token — for the traffic-light family the regulatory-element id (last
`:`-segment of `instance_name`) of the first instance record carrying that token. -/
theorem objects2d_per_annotation (T : Tables) (cfg : Config2D) (n : Nat) (s : Sample) (f : Frame2D)
    (hnm : ¬ (cfg.family = "traffic_light" ∧ cfg.task = "CLASSIFICATION2D"))
    (h : sampleToFrame2D T cfg n s = .ok f) :
    List.Forall₂ (fun o obj =>
        (∃ cat, lookup Named.token T.categories o.categoryToken = .ok cat ∧ obj.name = cat.name) ∧
        obj.label = convertWith (pairTable2D cfg) obj.name ∧
        attributeNamesOfTokens T o.attributeTokens = .ok obj.attributes ∧
        obj.roi = roiOf cfg.task o ∧
        frameOfToken (camerasOf T s.token cfg.frames) o.sampleDataToken = some obj.frame ∧
        obj.time = s.timestamp ∧
        (cfg.family ≠ "traffic_light" → obj.uuid = o.instanceToken) ∧
        (cfg.family = "traffic_light" → ∀ i, T.instances.find? (fun i => i.token == o.instanceToken) = some i →
          obj.uuid = lastSegment i.instanceName))
      (objectAnnsOf T (camerasOf T s.token cfg.frames)) f.objects := by
  obtain ⟨_, objs, objs', _, hobjs, hm, rfl⟩ := sampleToFrame2D_ok h
  simp only [hnm, if_false, Except.ok.injEq] at hm
  subst hm
  refine forall₂_imp (objects2DLoop_forall₂ hobjs) ?_
  intro o obj _ ⟨st, ho⟩
  obtain ⟨cat, attrs, uuid, fr, hcat, hattrs, huuid, hfr, rfl⟩ := object2DOf_ok ho
  refine ⟨⟨cat, hcat, rfl⟩, rfl, hattrs, rfl, hfr, rfl, ?_, ?_⟩
  · intro hne
    simp only [hne, if_false, Except.ok.injEq] at huuid
    exact huuid.symm
  · intro heq i hi
    simp only [heq, if_true, tlrUuid, hi, Except.ok.injEq] at huuid
    exact huuid.symm

/-- the ROI: `None` for classification / fp-validation; for detection and tracking
`(int(xmin), int(ymin), int(xmax) - int(xmin), int(ymax) - int(ymin))` where `int` TRUNCATES toward zero
(so width and height are differences of truncated corners, not truncated differences) -/
theorem roi_truncates_toward_zero (task : String) (o : ObjectAnn) :
    ((task = "DETECTION2D" ∨ task = "TRACKING2D") → roiOf task o =
      some ⟨truncInt o.x0, truncInt o.y0, truncInt o.x1 - truncInt o.x0, truncInt o.y1 - truncInt o.y0⟩) ∧
    (¬ (task = "DETECTION2D" ∨ task = "TRACKING2D") → roiOf task o = none) ∧
    (∀ q : Rat, 0 ≤ q → 0 ≤ truncInt q ∧ (truncInt q : Rat) ≤ q ∧ q < (truncInt q : Rat) + 1) ∧
    (∀ q : Rat, q < 0 → truncInt q ≤ 0 ∧ q ≤ (truncInt q : Rat) ∧ (truncInt q : Rat) - 1 < q) := by
  refine ⟨fun h => by simp [roiOf, h], fun h => by simp [roiOf, h], fun q => truncInt_nonneg, fun q => truncInt_neg⟩

/-- the traffic-light uuid of one annotation: the regulatory-element id of the FIRST instance record
with the annotation's instance token; when no instance record matches, the previous object's uuid is
reused silently, and the very first object of the frame fails with `UnboundLocalError` -/
theorem traffic_light_uuid (T : Tables) (o : ObjectAnn) :
    (∀ i stale, T.instances.find? (fun i => i.token == o.instanceToken) = some i →
      tlrUuid T stale o = .ok (lastSegment i.instanceName)) ∧
    (T.instances.find? (fun i => i.token == o.instanceToken) = none →
      (∀ u, tlrUuid T (some u) o = .ok u) ∧ tlrUuid T none o = .error "UnboundLocalError") := by
  refine ⟨fun i stale hi => by simp [tlrUuid, hi], fun hn => ⟨fun u => by simp [tlrUuid, hn], by simp [tlrUuid, hn]⟩⟩

/-- family `traffic_light` with CLASSIFICATION2D: the frame holds ONE object per distinct uuid of the
per-annotation objects `objs` (which are as in `objects2d_per_annotation`), stamped
`CAM_TRAFFIC_LIGHT`, without ROI; its label, name and attributes are those of one of the candidates
with that uuid — the common label if all candidates agree, otherwise (exactly two distinct labels are
tolerated, else `AssertionError`) a label different from UNKNOWN -/
theorem merged_traffic_lights (T : Tables) (cfg : Config2D) (n : Nat) (s : Sample) (f : Frame2D)
    (hm : cfg.family = "traffic_light" ∧ cfg.task = "CLASSIFICATION2D")
    (h : sampleToFrame2D T cfg n s = .ok f) :
    ∃ objs, objects2DLoop T cfg s.timestamp (camerasOf T s.token cfg.frames) none
        (objectAnnsOf T (camerasOf T s.token cfg.frames)) = .ok objs ∧
      f.objects.map (·.uuid) = dedupFirst (objs.map (·.uuid)) ∧ (f.objects.map (·.uuid)).Nodup ∧
      (∀ u, u ∈ f.objects.map (·.uuid) ↔ u ∈ objs.map (·.uuid)) ∧
      ∀ m ∈ f.objects, m.frame = "CAM_TRAFFIC_LIGHT" ∧ m.roi = none ∧ m.time = s.timestamp ∧
        ∃ c ∈ objs, c.uuid = m.uuid ∧ m.label = c.label ∧ m.name = c.name ∧ m.attributes = c.attributes ∧
          ((∀ c' ∈ objs, c'.uuid = m.uuid → c'.label = m.label) ∨
           (m.label ≠ "UNKNOWN" ∧
            (dedupFirst ((objs.filter (fun o => o.uuid == m.uuid)).map (·.label))).length = 2)) := by
  obtain ⟨_, objs, objs', _, hobjs, hmerge, rfl⟩ := sampleToFrame2D_ok h
  simp only [hm, and_self, if_true] at hmerge
  unfold mergeTrafficLights at hmerge
  have hall := mapE_forall₂ hmerge
  have huu : objs'.map (·.uuid) = dedupFirst (objs.map (·.uuid)) := merge_uuids hall
  refine ⟨objs, hobjs, huu, huu ▸ nodup_dedupFirst _, fun u => by rw [huu]; exact mem_dedupFirst, ?_⟩
  intro m hmm
  obtain ⟨u, _, hu⟩ := forall₂_mem_right hall hmm
  obtain ⟨h1, h2, h3, h4, c, hc, hcu, rest⟩ := mergeOne_ok hu
  subst h1
  exact ⟨h2, h3, h4, c, hc, hcu, rest⟩

/-- on referentially intact tables (`WellFormed2D`, which like `WellFormed` puts no condition on the
signs of the calibrated rotations) the 2-D loader returns frames for every list of
frame ids, every 2-D task and both label families — the merging configuration excepted, which can
also fail with `AssertionError` on three or more distinct labels under one uuid -/
theorem load2d_total (T : Tables) (cfg : Config2D) (wf : WellFormed2D T)
    (hnm : ¬ (cfg.family = "traffic_light" ∧ cfg.task = "CLASSIFICATION2D")) :
    ∃ fs, loadDataset2D T cfg = .ok fs := by
  unfold loadDataset2D
  have : T.samples.isEmpty = false := by
    cases hs : T.samples with
    | nil => exact absurd hs wf.samples_ne
    | cons _ _ => rfl
  simp only [this, Bool.false_eq_true, if_false]
  exact loadFrom2D_total wf cfg hnm T.samples 0

/-! ## non-vacuity: the hypotheses above hold of a concrete, non-trivial table set
(`PEval.Dataset.exTables`: two samples, two sensors, rotated ego poses, a bus seen twice, a pedestrian
of an unregistered category) -/

example : WellFormed exTables := exTables_wellFormed

example : ∃ fs, loadDataset exTables ⟨true, "BASE_LINK", true, false⟩ = .ok fs ∧ fs.length = 2 := by
  obtain ⟨fs, h⟩ := load_total exTables ⟨true, "BASE_LINK", true, false⟩ exTables_wellFormed (Or.inl rfl) rfl
  exact ⟨fs, h, (frames_length_order_time _ _ _ h).1⟩

-- the hypotheses of `ego_pose_eq_moved` / `ego_pose_roundtrip` (a genuinely 3-D unit ego rotation)
example : lidarOf exTables exS1.token = .ok exSd1 := by decide +kernel
example : lookup EgoPose.token exTables.egoPoses exSd1.egoPoseToken = .ok exEgo1 := by decide +kernel
example : lookup CalibratedSensor.token exTables.calibratedSensors exSd1.calibratedSensorToken = .ok exCsT := by
  decide +kernel
example : exCsT.translation = Vec3.zero ∧ exCsT.rotation = Quat.one ∧ exEgo1.rotation.normSq = 1 ∧
    exEgo1.rotation ≠ Quat.one := by decide +kernel
example : annsOf exTables exS1.token = [exA0] := by decide +kernel
example : (sampleToFrame exTables ⟨true, "BASE_LINK", false, false⟩ 1 exS1).toBool = true := by decide +kernel
example : (sampleToFrame exTables ⟨false, "MAP", true, false⟩ 1 exS1).toBool = true := by decide +kernel

-- the object of the bus in the second sample (label and visibility are whatever the regenerated tables say)
example : ((sampleToFrame exTables ⟨false, "BASE_LINK", false, false⟩ 1 exS1).toOption.map (fun f => f.objects.map
      (fun o => [o.uuid, o.name, o.frame] ++ o.attributes))) =
    some [["i0", "Vehicle.Bus", "BASE_LINK", "vehicle.moving"]] := by decide +kernel
example : ((sampleToFrame exTables ⟨false, "BASE_LINK", false, false⟩ 1 exS1).toOption.map (fun f => f.objects.map
      (fun o => (o.pose, o.points)))) =
    some [(⟨⟨-3, -5, 33/2⟩, ⟨16/25, -14/25, -2/25, -13/25⟩⟩, 0)] := by decide +kernel
example : ((sampleToFrame exTables ⟨false, "BASE_LINK", true, false⟩ 1 exS1).toOption.map (fun f => f.objects.map
      (fun o => (o.label, o.visibility)))) =
    some [(convertLabel true "Vehicle.Bus", some (visibilityOfLevel "v80-100"))] := by decide +kernel
-- the label tables are inhabited, and some name is outside them
example : pairTable false ≠ [] ∧ pairTable true ≠ [] := by decide
example : ∀ merge, "no such category".toLower ∉ (pairTable merge).map (·.2) := by
  intro merge; cases merge <;> decide +kernel

-- tracking history: the bus's annotation in the first sample, and the `prev` hypotheses
example : pastRecords exTables exA0 = .ok [exA2] := by decide +kernel
example : exA0 ∈ exTables.annotations := by decide +kernel
example : ∀ b ∈ exTables.annotations, ∀ c, lookup Annotation.token exTables.annotations b.prev = .ok c →
    c.instanceToken = b.instanceToken := by
  have h : exTables.annotations.all (fun b =>
      match lookup Annotation.token exTables.annotations b.prev with
      | .ok c => c.instanceToken == b.instanceToken
      | .error _ => true) = true := by decide +kernel
  intro b hb c hc
  have := List.all_eq_true.1 h b hb
  simpa [hc] using this

-- the two rejections
example : loadDataset { exTables with samples := [] } ⟨false, "MAP", false, false⟩ = .error "DatasetLoadingError" :=
  no_samples_rejected _ _ rfl
example : sampleToFrame { exTables with sampleData := [] } ⟨false, "MAP", false, false⟩ 0 exS1 = .error "ValueError" :=
  no_lidar_rejected _ _ _ _ (by decide +kernel) (by decide +kernel)

-- the exact history: the chain of the bus's second annotation, and the side conditions
example : PrevChain exTables exA0 [exA2] :=
  .cons (by decide) (by decide +kernel) (.nil (by decide))
example : ∀ b ∈ exTables.annotations, b.sampleToken = exA0.sampleToken → b.instanceToken = exA0.instanceToken →
    b = exA0 := by
  have h : exTables.annotations.all (fun b =>
      !(b.sampleToken == exA0.sampleToken && b.instanceToken == exA0.instanceToken) || b == exA0) = true := by
    decide +kernel
  intro b hb h1 h2
  have := List.all_eq_true.1 h b hb
  simpa [h1, h2] using this

-- velocities: the bus moved (2, 1, 0) in 0.5 s; seen from the first record's axes (yaw with cos = 7/25, sin = 24/25)
example : velocityOf exTables false exA0 = .ok (some ⟨4, 2, 0⟩) := by decide +kernel
example : velocityOf exTables true exA0 = .ok (some ⟨76 / 25, -82 / 25, 0⟩) := by decide +kernel
example : velocityOf exTables true exA2 = velocityOf exTables true exA0 := by decide +kernel
example : (exTables.annotations.map (fun a => (velocityOf exTables true a).toOption.join.isSome)) =
    [true, false, true] := by decide +kernel

-- C16-N1 (fixed): the example with two traffic-light cameras calibrated q and -q now LOADS, for 3-D and
-- 2-D tasks; the second rotation is negated before the average, which is 2q (the rotation q), mean position
example : WellFormed exTablesN1 ∧ WellFormed2D exTablesN1 := ⟨exTablesN1_wellFormed, exTablesN1_wellFormed2D⟩
example : tlrRawRotations exTablesN1 ["LIDAR_TOP", "CAM_FRONT", "CAM_TRAFFIC_LIGHT_NEAR", "CAM_TRAFFIC_LIGHT_FAR"] =
    [⟨4/5, 0, 0, 3/5⟩, ⟨-4/5, 0, 0, -3/5⟩] := by decide +kernel
example : (tlrRawRotations exTablesN1 ["LIDAR_TOP", "CAM_FRONT", "CAM_TRAFFIC_LIGHT_NEAR", "CAM_TRAFFIC_LIGHT_FAR"]).foldl
    Quat.add Quat.zero = Quat.zero := by decide +kernel
example : sensorFrames exTablesN1 = .ok ["LIDAR_TOP", "CAM_FRONT", "CAM_TRAFFIC_LIGHT_NEAR", "CAM_TRAFFIC_LIGHT_FAR"] := by
  decide +kernel
example : tlrAverage exTablesN1 = .ok (some ⟨⟨1, 0, 5/2⟩, ⟨8/5, 0, 0, 6/5⟩⟩) := by decide +kernel
example : ∃ fs, loadDataset exTablesN1 ⟨true, "MAP", true, false⟩ = .ok fs ∧ fs.length = 2 := by
  obtain ⟨fs, h⟩ := load_total exTablesN1 ⟨true, "MAP", true, false⟩ exTablesN1_wellFormed (Or.inr rfl) rfl
  exact ⟨fs, h, (frames_length_order_time _ _ fs h).1⟩
example : (loadDataset exTablesN1 ⟨false, "BASE_LINK", false, false⟩).toBool = true := by decide +kernel
example : ∃ fs, loadDataset2D exTablesN1 ⟨"DETECTION2D", "traffic_light", false, ["CAM_FRONT", "CAM_TRAFFIC_LIGHT_NEAR"]⟩ = .ok fs :=
  load2d_total exTablesN1 _ exTablesN1_wellFormed2D (by decide)
-- nearly antipodal (dot < 0, not cancelling) and orthogonal (dot = 0: kept) rotations
example : alignSigns [⟨4/5, 0, 0, 3/5⟩, ⟨-3/5, 0, 0, -4/5⟩, ⟨-3/5, 0, 0, 4/5⟩, ⟨0, 1, 0, 0⟩] =
    [⟨4/5, 0, 0, 3/5⟩, ⟨3/5, 0, 0, 4/5⟩, ⟨-3/5, 0, 0, 4/5⟩, ⟨0, 1, 0, 0⟩] := by decide +kernel
example : isTlrCamera "CAM_TRAFFIC_LIGHT_NEAR" = true ∧ isTlrCamera "CAM_TRAFFIC_LIGHT" = true ∧
    isTlrCamera "CAM_FRONT" = false := by decide +kernel

-- FP_VALIDATION rejects the example (a bus is not a false positive)
example : (sampleToFrame exTables ⟨false, "MAP", false, true⟩ 1 exS1) = .error "ValueError" := by decide +kernel

-- 2-D: hypotheses of `load2d_total`, the cameras found, ROIs, uuids, the merge
example : WellFormed2D exTables2D := exTables2D_wellFormed
example : (camerasOf exTables2D "s0" ["CAM_BACK", "CAM_TRAFFIC_LIGHT_NEAR", "CAM_FRONT"]).map (·.1) =
    ["CAM_TRAFFIC_LIGHT_NEAR", "CAM_FRONT"] := by decide +kernel
example : ((sampleToFrame2D exTables2D ⟨"DETECTION2D", "traffic_light", false, ["CAM_FRONT", "CAM_TRAFFIC_LIGHT_NEAR"]⟩ 0 exS0
      ).toOption.map (fun f => f.objects.map (fun o => (o.uuid, o.frame, o.roi)))) =
    some [("123", "CAM_FRONT", some ⟨10, 20, 100, -23⟩), ("123", "CAM_TRAFFIC_LIGHT_NEAR", some ⟨0, 0, 5, 5⟩),
          ("77", "CAM_TRAFFIC_LIGHT_NEAR", some ⟨1, 2, 2, 2⟩), ("77", "CAM_FRONT", some ⟨1, 1, 1, 1⟩)] := by
  decide +kernel
example : ((sampleToFrame2D exTables2D ⟨"CLASSIFICATION2D", "traffic_light", false, ["CAM_FRONT", "CAM_TRAFFIC_LIGHT_NEAR"]⟩ 0 exS0
      ).toOption.map (fun f => f.objects.map (fun o => (o.uuid, o.frame, o.roi, o.name)))) =
    some [("123", "CAM_TRAFFIC_LIGHT", none, "green"), ("77", "CAM_TRAFFIC_LIGHT", none, "red_left")] := by
  decide +kernel
example : ((sampleToFrame2D exTables2D ⟨"TRACKING2D", "autoware", true, ["CAM_FRONT"]⟩ 0 exS0
      ).toOption.map (fun f => (f.objects.map (fun o => (o.uuid, o.label, o.attributes)), f.ego2map.isSome))) =
    some ([("j0", "UNKNOWN", ["vehicle.moving"]), ("j3", "UNKNOWN", [])], true) := by decide +kernel
example : truncInt (-7 / 2) = -3 ∧ truncInt (1109 / 10) = 110 ∧ lastSegment "a::b:" = "" ∧ lastSegment "77" = "77" := by
  decide +kernel

/-! ## audit round 2: velocities when the two sample times coincide

`velocityOf` computes `d / (tl − tf)` with Lean's total division (`x / 0 = 0`).  Python (`_get_box_velocity`, which the
loader uses for every object, dataset_utils.py:322-379; the devkit's `box_velocity`, used for the tracked states)
divides a numpy array by the float `time_diff`: for `time_diff = 0.0` it returns `inf` / `-inf` / `nan` components
without raising, and `0 <= max_time_diff` passes the bound.  `velocityPy` returns that outcome explicitly
(`Vel.div0 d`).  First / last annotation of an instance: the missing side is the annotation itself (one-sided
difference); no neighbour at all: no estimate.  Equal times need two samples with the same timestamp, or a `prev` /
`next` link into the annotation's own sample — excluded by the schema (`TimeOrdered`), not by `WellFormed`. -/

/-- for ALL tables the total-division model is the Lean view of the Python outcome (`div0 d ↦ some (d / 0)`) -/
theorem velocity_py_refines (T : Tables) (fr : Bool) (a : Annotation) :
    velocityOf T fr a = (match velocityPy T fr a with
      | .ok v => .ok v.leanView
      | .error e => .error e) := velocityOf_eq_leanView T fr a

/-- the formula with Python's outcome: as `velocity_formula`, and for `tl − tf = 0` the division-by-zero outcome
carrying the displacement (components `inf` / `-inf` / `nan` by the sign of its components: `Vel.div0Comps`) -/
theorem velocity_formula_py (T : Tables) (objectFrame : Bool) (a first last : Annotation) (tf tl : Rat)
    (hsome : a.prev ≠ "" ∨ a.next ≠ "")
    (hfirst : if a.prev = "" then first = a else lookup Annotation.token T.annotations a.prev = .ok first)
    (hlast : if a.next = "" then last = a else lookup Annotation.token T.annotations a.next = .ok last)
    (htf : secsOf T first.sampleToken = .ok tf) (htl : secsOf T last.sampleToken = .ok tl) :
    velocityPy T objectFrame a = .ok
      (if tl - tf ≤ (if a.prev ≠ "" ∧ a.next ≠ "" then 3 else 3 / 2) then
        (if tl - tf = 0 then
          .div0 (if objectFrame then rotate first.rotation.conj (last.translation.sub first.translation)
                 else last.translation.sub first.translation)
         else .finite (((if objectFrame then rotate first.rotation.conj (last.translation.sub first.translation)
                else last.translation.sub first.translation)).divBy (tl - tf)))
       else .none) :=
  velocityPy_formula T objectFrame a first last tf tl hsome hfirst hlast htf htl

/-- `velocity_formula` with the guard the audit asked for: when the two times differ, the total-division model and
Python's outcome are the same estimate -/
theorem velocity_formula_guarded (T : Tables) (objectFrame : Bool) (a first last : Annotation) (tf tl : Rat)
    (hsome : a.prev ≠ "" ∨ a.next ≠ "")
    (hfirst : if a.prev = "" then first = a else lookup Annotation.token T.annotations a.prev = .ok first)
    (hlast : if a.next = "" then last = a else lookup Annotation.token T.annotations a.next = .ok last)
    (htf : secsOf T first.sampleToken = .ok tf) (htl : secsOf T last.sampleToken = .ok tl) (hne : tl ≠ tf) :
    ∃ v, velocityOf T objectFrame a = .ok v ∧ velocityPy T objectFrame a = .ok (Vel.ofOption v) ∧
      v = (if tl - tf ≤ (if a.prev ≠ "" ∧ a.next ≠ "" then 3 else 3 / 2) then
        some (((if objectFrame then rotate first.rotation.conj (last.translation.sub first.translation)
                else last.translation.sub first.translation)).divBy (tl - tf))
       else none) := by
  refine ⟨_, velocity_formula T objectFrame a first last tf tl hsome hfirst hlast htf htl, ?_, rfl⟩
  rw [velocityPy_formula T objectFrame a first last tf tl hsome hfirst hlast htf htl]
  have hz : ¬ (tl - tf = 0) := by intro e; apply hne; grind
  simp only [hz, if_false]
  have key : ∀ (c : Prop) [Decidable c] (x : Vec3),
      Vel.ofOption (if c then some x else none) = (if c then Vel.finite x else Vel.none) := by
    intro c _ x; by_cases hc : c <;> simp [hc, Vel.ofOption]
  rw [key]

/-- the excluded class, characterised: equal times ⇒ Python's outcome is the division by zero of the displacement,
whereas the total-division model answers the zero vector (an artefact of `x / 0 = 0`, not what the code returns) -/
theorem velocity_div0_outcome (T : Tables) (objectFrame : Bool) (a first last : Annotation) (t : Rat)
    (hsome : a.prev ≠ "" ∨ a.next ≠ "")
    (hfirst : if a.prev = "" then first = a else lookup Annotation.token T.annotations a.prev = .ok first)
    (hlast : if a.next = "" then last = a else lookup Annotation.token T.annotations a.next = .ok last)
    (htf : secsOf T first.sampleToken = .ok t) (htl : secsOf T last.sampleToken = .ok t) :
    velocityPy T objectFrame a = .ok (.div0 (if objectFrame then
        rotate first.rotation.conj (last.translation.sub first.translation)
      else last.translation.sub first.translation)) ∧
    velocityOf T objectFrame a = .ok (some ⟨0, 0, 0⟩) := by
  have hb : t - t ≤ (if a.prev ≠ "" ∧ a.next ≠ "" then (3 : Rat) else 3 / 2) := by
    split <;> grind
  have hz : t - t = 0 := by grind
  constructor
  · rw [velocityPy_formula T objectFrame a first last t t hsome hfirst hlast htf htl]
    rw [if_pos hb, if_pos hz]
  · rw [velocity_formula T objectFrame a first last t t hsome hfirst hlast htf htl]
    rw [if_pos hb, hz]
    simp only [Vec3.divBy, Rat.div_def, Rat.inv_zero, Rat.mul_zero]

/-- on referentially intact tables whose `prev` / `next` links go strictly back / forward in time (the schema), no
velocity is a division by zero, and the total-division model represents Python's outcome faithfully -/
theorem velocity_no_div0 (T : Tables) (wf : WellFormed T) (ord : TimeOrdered T) (objectFrame : Bool) (a : Annotation)
    (ha : a ∈ T.annotations) :
    ∃ v, velocityPy T objectFrame a = .ok v ∧ v.isDiv0 = false ∧ velocityOf T objectFrame a = .ok v.toOption ∧
      v = Vel.ofOption v.toOption := by
  obtain ⟨v, hv⟩ := velocityPy_ok wf objectFrame ha
  have hd := velocityPy_no_div0 wf ord objectFrame ha hv
  obtain ⟨h1, h2⟩ := leanView_of_not_div0 hd
  refine ⟨v, hv, hd, ?_, h2⟩
  rw [velocityOf_eq_leanView, hv]
  simp only [h1]

/-- every loaded object carries Python's `_get_box_velocity` outcome of its annotation, and on time-ordered
well-formed tables that outcome is an ordinary estimate or `None` -/
theorem objects_velocity_py (T : Tables) (cfg : Config) (n : Nat) (s : Sample) (f : Frame)
    (wf : WellFormed T) (ord : TimeOrdered T) (h : sampleToFrame T cfg n s = .ok f) :
    List.Forall₂ (fun a o => ∃ v, velocityPy T true a = .ok v ∧ v.isDiv0 = false ∧ o.velocity = v.toOption)
      (annsOf T s.token) f.objects := by
  refine forall₂_imp (objects_velocity T cfg n s f h) ?_
  intro a o ha hao
  obtain ⟨v, hv, hd, hof, _⟩ := velocity_no_div0 T wf ord true a (annsOf_mem ha).1
  rw [hof] at hao
  exact ⟨v, hv, hd, (Except.ok.inj hao).symm⟩

/-- the example tables are time-ordered -/
theorem exTables_timeOrdered : TimeOrdered exTables := timeOrderedB_sound (by decide +kernel)

/-- the example tables with both samples stamped alike: referentially intact, NOT time-ordered -/
def exTablesSameTime : Tables :=
  { exTables with samples := [⟨"s0", 1600000000000000, 1600000000⟩, ⟨"s1", 1600000000000000, 1600000000⟩] }

example : timeOrderedB exTablesSameTime = false := by decide +kernel
/-- on them Python's outcome is the division by zero (`inf`, `inf`, `nan` for the devkit's function), the
total-division model says 0: `velocityOf` alone does NOT describe the code there — `velocityPy` does -/
example : velocityPy exTablesSameTime false exA0 = .ok (.div0 ⟨2, 1, 0⟩) ∧
    Vel.div0Comps ⟨2, 1, 0⟩ = [.posInf, .posInf, .nan] ∧
    velocityOf exTablesSameTime false exA0 = .ok (some ⟨0, 0, 0⟩) ∧
    velocityPy exTablesSameTime true exA0 = .ok (.div0 ⟨38 / 25, -41 / 25, 0⟩) := by decide +kernel
/-- the statement of `velocity_no_div0` fails without `TimeOrdered` -/
example : ¬ (∀ a ∈ exTablesSameTime.annotations, ∀ v, velocityPy exTablesSameTime true a = .ok v → v.isDiv0 = false) := by
  intro h
  have := h exA0 (by decide +kernel) (.div0 ⟨38 / 25, -41 / 25, 0⟩) (by decide +kernel)
  cases this
example : velocityPy exTables false exA0 = .ok (.finite ⟨4, 2, 0⟩) := by decide +kernel
example : ∃ v, velocityPy exTables true exA0 = .ok v ∧ v.isDiv0 = false :=
  let ⟨v, h1, h2, _⟩ := velocity_no_div0 exTables exTables_wellFormed exTables_timeOrdered true exA0 (by decide +kernel)
  ⟨v, h1, h2⟩

/-! ## audit round 2: any lidar calibration; non-unit quaternions -/

/-- the general pose law (C16-5): whatever the lidar's calibration, an object requested in the "ego" frame carries the
annotated pose moved by the inverse ego pose AND THEN by the inverse pose of the calibrated lidar — i.e. it is
expressed in the lidar's frame; only for a lidar calibrated at the ego origin (`ego_pose_eq_moved`) is that the ego
frame.  Requested in the map frame it is the annotated pose for every calibration (`map_pose_eq_annotation`). -/
theorem ego_pose_any_calibration (T : Tables) (cfg : Config) (n : Nat) (s : Sample) (f : Frame)
    (sd : SampleData) (ego : EgoPose) (cs : CalibratedSensor)
    (hb : cfg.frame = "BASE_LINK") (h : sampleToFrame T cfg n s = .ok f)
    (hsd : lidarOf T s.token = .ok sd)
    (hego : lookup EgoPose.token T.egoPoses sd.egoPoseToken = .ok ego)
    (hcs : lookup CalibratedSensor.token T.calibratedSensors sd.calibratedSensorToken = .ok cs) :
    List.Forall₂ (fun a o => o.pose =
        moveInv cs.translation cs.rotation (moveInv ego.translation ego.rotation (annPose a)))
      (annsOf T s.token) f.objects := by
  obtain ⟨sd', ego', cs', hsd', hego', hcs', _, _, _, hall⟩ := sampleToFrame_objects h
  rw [hsd] at hsd'; cases hsd'
  rw [hego] at hego'; cases hego'
  rw [hcs] at hcs'; cases hcs'
  refine forall₂_imp hall ?_
  intro a o _ hao
  obtain ⟨pose, _, _, _, _, _, hpose, _, _, _, _, _, _, rfl⟩ := objectOf_ok hao
  simp only [boxPose, hb, if_true, Except.ok.injEq] at hpose
  exact hpose.symm

/-- with a lidar off the ego origin the stored ego→map transform does NOT map the loaded pose back onto the annotation
(translation by (1,0,0), identity rotations everywhere): the restriction "lidar calibrated at the ego origin" of the
property text is necessary -/
example : applyPose ⟨Vec3.zero, Quat.one⟩ (moveInv ⟨1, 0, 0⟩ Quat.one (moveInv Vec3.zero Quat.one ⟨⟨5, 0, 0⟩, Quat.one⟩)) ≠
    ⟨⟨5, 0, 0⟩, Quat.one⟩ := by decide +kernel

/-- the normalising variants (what pyquaternion / the devkit compute for ANY non-zero quaternion) coincide with the
model's plain ones on unit quaternions — so on unit ego rotations `ego_pose_eq_moved` / `ego_pose_roundtrip` speak about
the devkit's computation -/
theorem nonunit_variants_agree_on_unit (t : Vec3) (q : Quat) (hq : q.normSq = 1) (p : Pose) :
    moveInvN t q p = moveInv t q p ∧ applyPoseN ⟨t, q⟩ p = applyPose ⟨t, q⟩ p :=
  ⟨moveInvN_of_unit t q hq p, applyPoseN_of_unit ⟨t, q⟩ p hq⟩

/-- for EVERY non-zero quaternion (unit or not) the normalising computation round-trips: same position, orientation
equal up to the positive factor `|q|²` (the same rotation) -/
theorem pose_roundtrip_any_nonzero (t : Vec3) (q : Quat) (hq : q.normSq ≠ 0) (p : Pose) :
    (applyPoseN ⟨t, q⟩ (moveInvN t q p)).pos = p.pos ∧
    (applyPoseN ⟨t, q⟩ (moveInvN t q p)).rot =
      ⟨q.normSq * p.rot.w, q.normSq * p.rot.x, q.normSq * p.rot.y, q.normSq * p.rot.z⟩ ∧ 0 < q.normSq :=
  applyPoseN_moveInvN t q hq p

/-- the plain (non-normalising) model does NOT round-trip on a non-unit quaternion (`q = 2`: positions scale by 16): the
hypothesis `ego.rotation.normSq = 1` of `ego_pose_roundtrip` is necessary for the MODEL; the normalising variant does -/
example : applyPose ⟨Vec3.zero, ⟨2, 0, 0, 0⟩⟩ (moveInv Vec3.zero ⟨2, 0, 0, 0⟩ ⟨⟨1, 2, 3⟩, Quat.one⟩) =
      ⟨⟨16, 32, 48⟩, ⟨4, 0, 0, 0⟩⟩ ∧
    (applyPoseN ⟨Vec3.zero, ⟨2, 0, 0, 0⟩⟩ (moveInvN Vec3.zero ⟨2, 0, 0, 0⟩ ⟨⟨1, 2, 3⟩, Quat.one⟩)).pos = ⟨1, 2, 3⟩ := by
  decide +kernel
example : (⟨3/5, 0, 0, 4/5⟩ : Quat).normSq = 1 ∧ (⟨2, 0, 0, 0⟩ : Quat).normSq ≠ 0 := by decide +kernel

/-! ## audit round 2: the stored transform as the C18 object (C16-4) -/

/-- `ego_pose_roundtrip` stated with the C18 model of `HomogeneousMatrix`: the frame's ego→map pose, read as the
transform registered under the key `(BASE_LINK, MAP)` and applied with C18's `transformPose`
(`__transform_position_and_rotation`), maps every loaded ego-frame pose onto the annotated global pose.  (The two
quaternion algebras are the same functions: `Dataset.applyPose_toT`.) -/
theorem ego2map_is_c18_transform (T : Tables) (cfg : Config) (n : Nat) (s : Sample) (f : Frame)
    (sd : SampleData) (ego : EgoPose) (cs : CalibratedSensor)
    (hb : cfg.frame = "BASE_LINK") (h : sampleToFrame T cfg n s = .ok f)
    (hsd : lidarOf T s.token = .ok sd)
    (hego : lookup EgoPose.token T.egoPoses sd.egoPoseToken = .ok ego)
    (hcs : lookup CalibratedSensor.token T.calibratedSensors sd.calibratedSensorToken = .ok cs)
    (h0 : cs.translation = Vec3.zero) (h1 : cs.rotation = Quat.one)
    (hu : ego.rotation.normSq = 1) :
    (f.ego2map.toHM.src = "BASE_LINK" ∧ f.ego2map.toHM.dst = "MAP") ∧
    List.Forall₂ (fun a o =>
        Transform.transformPose f.ego2map.toHM (o.pose.pos.toT, o.pose.rot.toT) =
          ((annPose a).pos.toT, (annPose a).rot.toT))
      (annsOf T s.token) f.objects := by
  refine ⟨⟨rfl, rfl⟩, ?_⟩
  refine forall₂_imp (ego_pose_roundtrip T cfg n s f sd ego cs hb h hsd hego hcs h0 h1 hu) ?_
  intro a o _ hao
  rw [applyPose_toT, hao]

end PEval.C16
