import PEval.Lemmas.DatasetExample
/-!
# C16 — loading a dataset reproduces its annotations as ground-truth frames

PARTIAL by nature: the nuScenes devkit is an external contract (DESIGN 4.6). The theorems below are
structural laws of the loader model `PEval.Dataset` (tables as lists of records, token lookup,
`sample["anns"]` in annotation-table order, boxes moved by the inverse ego pose and the inverse
sensor pose, the `prev`-chain walk of `PredictHelper`), quantified over ALL table sets — no bound on
the number of samples, instances, sensors. That the model is the devkit + loader is checked on
every run by loading generated dataset directories with the real `load_all_datasets`
(`harness/props/c16.py`). The label pair tables and the `Visibility` tables are regenerated from
/repo on every run (`PEval.Gen`), so the `decide` side conditions are re-checked against the code.

Not proved here (left to the correspondence): that the devkit really has the table semantics of the
model; IEEE arithmetic of the pose computation; velocities (not part of the property).
-/
namespace PEval.C16
open PEval PEval.Dataset

/-! ## label conversion is total and follows the table -/

/-- every label the pair tables (merge off/on) can answer is a member of `AutowareLabel` -/
theorem label_table_members :
    ∀ merge : Bool, ∀ p ∈ pairTable merge, p.1 ∈ Gen.autowareLabel.map (·.1) := by
  intro merge; cases merge <;> decide

/-- conversion never fails: every string converts to a member of `AutowareLabel` -/
theorem label_total (merge : Bool) (name : String) :
    convertLabel merge name ∈ Gen.autowareLabel.map (·.1) := by
  rcases convertLabel_cases merge name with ⟨p, hp, _, h⟩ | ⟨_, h⟩
  · rw [h]; exact label_table_members merge p hp
  · rw [h]; decide

/-- a category whose lower-cased name is registered gets the label of a pair registered under that
name (case-insensitive; the first such pair, `convert_label` breaks at the first match) -/
theorem label_registered (merge : Bool) (name : String)
    (h : name.toLower ∈ (pairTable merge).map (·.2)) :
    ∃ p ∈ pairTable merge, p.2 = name.toLower ∧ convertLabel merge name = p.1 := by
  rcases convertLabel_cases merge name with ⟨p, hp, hn, hl⟩ | ⟨hnot, _⟩
  · exact ⟨p, hp, hn.symm, hl⟩
  · exact absurd h hnot

/-- a category outside the table becomes UNKNOWN -/
theorem label_unregistered (merge : Bool) (name : String)
    (h : name.toLower ∉ (pairTable merge).map (·.2)) : convertLabel merge name = "UNKNOWN" := by
  rcases convertLabel_cases merge name with ⟨p, hp, hn, _⟩ | ⟨_, h'⟩
  · exact absurd (List.mem_map.2 ⟨p, hp, hn.symm⟩) h
  · exact h'

/-! ## one frame per sample, in dataset order, carrying the sample's timestamp -/

theorem frames_length_order_time (T : Tables) (cfg : Config) (fs : List Frame)
    (h : loadDataset T cfg = .ok fs) :
    fs.length = T.samples.length ∧
    fs.map (·.unixTime) = T.samples.map (·.timestamp) ∧
    fs.map (·.frameName) = (List.range T.samples.length).map toString := by
  unfold loadDataset at h
  split at h
  · cases h
  · obtain ⟨hlen, hidx⟩ := loadFrom_spec h
    refine ⟨hlen, ?_, ?_⟩
    · apply List.ext_getElem (by simp [hlen])
      intro i h1 h2
      have hi : i < T.samples.length := by simpa using h2
      obtain ⟨f, hf, hs⟩ := hidx i hi
      obtain ⟨_, _, _, _, _, _, _, ht, _, _⟩ := sampleToFrame_objects hs
      have hfi : fs[i]'(by simpa using h1) = f := by
        have := List.getElem?_eq_some_iff.1 hf
        exact this.2
      simp [hfi, ht]
    · apply List.ext_getElem (by simp [hlen])
      intro i h1 h2
      have hi : i < T.samples.length := by simpa using h2
      obtain ⟨f, hf, hs⟩ := hidx i hi
      obtain ⟨_, _, _, _, _, _, _, _, hn, _⟩ := sampleToFrame_objects hs
      have hfi : fs[i]'(by simpa using h1) = f := by
        have := List.getElem?_eq_some_iff.1 hf
        exact this.2
      simp [hfi, hn]

/-- the `i`-th frame is `_sample_to_frame` of the `i`-th sample, named `str(i)` -/
theorem frames_of_samples (T : Tables) (cfg : Config) (fs : List Frame)
    (h : loadDataset T cfg = .ok fs) :
    ∀ i (hi : i < T.samples.length),
      ∃ f, fs[i]? = some f ∧ sampleToFrame T cfg i T.samples[i] = .ok f := by
  unfold loadDataset at h
  split at h
  · cases h
  · intro i hi
    obtain ⟨f, hf, hs⟩ := (loadFrom_spec h).2 i hi
    exact ⟨f, hf, by simpa using hs⟩

/-! ## one object per annotation, carrying the annotation's fields -/

/-- In a loaded frame the objects correspond one-to-one, in order, to the annotations of the sample
(`annsOf`: the annotation table restricted to the sample); each object carries the annotation's
instance id, the name of the instance's category and its converted label, the names of the
annotation's attributes, the annotated size, the lidar point count, the visibility, and is stamped
with the sample's time and the requested frame id. -/
theorem objects_per_annotation (T : Tables) (cfg : Config) (n : Nat) (s : Sample) (f : Frame)
    (h : sampleToFrame T cfg n s = .ok f) :
    List.Forall₂ (fun a o =>
        o.uuid = a.instanceToken ∧
        categoryNameOf T a = .ok o.name ∧ o.label = convertLabel cfg.merge o.name ∧
        attributeNamesOf T a = .ok o.attributes ∧
        o.size = a.size ∧ o.points = a.numLidarPts ∧
        visibilityOf T a = .ok o.visibility ∧
        o.time = s.timestamp ∧ o.frame = cfg.frame)
      (annsOf T s.token) f.objects := by
  obtain ⟨_, ego, cs, _, _, _, _, _, _, hall⟩ := sampleToFrame_objects h
  refine forall₂_imp hall ?_
  intro a o _ hao
  obtain ⟨pose, vis, attrs, name, tracked, _, hvis, hattrs, hname, _, rfl⟩ := objectOf_ok hao
  exact ⟨rfl, hname, rfl, hattrs, rfl, rfl, hvis, rfl, rfl⟩

/-- what `categoryNameOf` reads: the category of the annotation's instance -/
theorem category_via_instance (T : Tables) (a : Annotation) (name : String)
    (h : categoryNameOf T a = .ok name) :
    ∃ inst cat, lookup Instance.token T.instances a.instanceToken = .ok inst ∧
      lookup Named.token T.categories inst.categoryToken = .ok cat ∧ cat.name = name := by
  unfold categoryNameOf at h
  simp only [bind, Except.bind, pure, Except.pure] at h
  split at h
  · cases h
  · rename_i inst hi
    split at h
    · cases h
    · rename_i cat hc
      cases h
      exact ⟨inst, cat, hi, hc, rfl⟩

/-- what `attributeNamesOf` reads: the attribute records the annotation's tokens name, in order -/
theorem attributes_via_tokens (T : Tables) (a : Annotation) (names : List String)
    (h : attributeNamesOf T a = .ok names) :
    List.Forall₂ (fun t nm => ∃ r, lookup Named.token T.attributes t = .ok r ∧ r.name = nm)
      a.attributeTokens names := by
  refine forall₂_imp (mapE_forall₂ h) ?_
  intro t nm _ ht
  cases hl : lookup Named.token T.attributes t with
  | error e => simp [hl, Except.map] at ht
  | ok r =>
    simp only [hl, Except.map, Except.ok.injEq] at ht
    exact ⟨r, rfl, ht⟩

/-- with a visibility table: the level of the record the annotation's token names, parsed by
`Visibility.from_value` (`PEval.Enums.visibilityFromValue`, C20) -/
theorem visibility_via_level (T : Tables) (a : Annotation) (v : Option String)
    (hne : T.visibility ≠ []) (h : visibilityOf T a = .ok v) :
    ∃ r m, lookup Named.token T.visibility a.visibilityToken = .ok r ∧
      Enums.visibilityFromValue r.name = .ok m ∧ v = some m := by
  unfold visibilityOf at h
  have : T.visibility.isEmpty = false := by
    cases hv : T.visibility with
    | nil => exact absurd hv hne
    | cons _ _ => rfl
  simp only [this, Bool.false_eq_true, if_false] at h
  cases hl : lookup Named.token T.visibility a.visibilityToken with
  | error e => simp [hl, Except.map] at h
  | ok r =>
    simp only [hl, Except.map, Except.ok.injEq] at h
    refine ⟨r, visibilityOfLevel r.name, rfl, ?_, h.symm⟩
    unfold visibilityOfLevel Enums.visibilityFromValue
    split <;> rfl

/-- without a visibility table (`len(nusc.visibility) == 0`) every object's visibility is `None` -/
theorem visibility_absent (T : Tables) (cfg : Config) (n : Nat) (s : Sample) (f : Frame)
    (hv : T.visibility = []) (h : sampleToFrame T cfg n s = .ok f) :
    ∀ o ∈ f.objects, o.visibility = none := by
  have hall := objects_per_annotation T cfg n s f h
  intro o ho
  obtain ⟨a, _, hab⟩ := forall₂_mem_right hall ho
  have hao := hab.2.2.2.2.2.2.1
  simp only [visibilityOf, hv, List.isEmpty_nil, if_true, Except.ok.injEq] at hao
  exact hao.symm

/-! ## poses -/

/-- requested in the map frame, an object's pose is the annotated global pose -/
theorem map_pose_eq_annotation (T : Tables) (cfg : Config) (n : Nat) (s : Sample) (f : Frame)
    (hm : cfg.frame = "MAP") (h : sampleToFrame T cfg n s = .ok f) :
    List.Forall₂ (fun a o => o.pose = annPose a) (annsOf T s.token) f.objects := by
  obtain ⟨_, ego, cs, _, _, _, _, _, _, hall⟩ := sampleToFrame_objects h
  refine forall₂_imp hall ?_
  intro a o _ hao
  obtain ⟨pose, _, _, _, _, hpose, _, _, _, _, rfl⟩ := objectOf_ok hao
  simp only [boxPose, hm] at hpose
  simp only [show ¬ ("MAP" = "BASE_LINK") by decide, if_false, if_true, Except.ok.injEq] at hpose
  exact hpose.symm

/-- the transform stored with the frame is the ego pose of the lidar key frame the loader picked -/
theorem ego2map_eq_ego_pose (T : Tables) (cfg : Config) (n : Nat) (s : Sample) (f : Frame)
    (h : sampleToFrame T cfg n s = .ok f) :
    ∃ sd ego, lidarOf T s.token = .ok sd ∧
      lookup EgoPose.token T.egoPoses sd.egoPoseToken = .ok ego ∧
      f.ego2map = ⟨ego.translation, ego.rotation⟩ := by
  obtain ⟨sd, ego, _, hsd, hego, _, he, _⟩ := sampleToFrame_objects h
  exact ⟨sd, ego, hsd, hego, he⟩

/-- requested in the ego frame, with the picked lidar calibrated at the ego origin, an object's pose
is the annotated global pose moved by the inverse ego pose -/
theorem ego_pose_eq_moved (T : Tables) (cfg : Config) (n : Nat) (s : Sample) (f : Frame)
    (sd : SampleData) (ego : EgoPose) (cs : CalibratedSensor)
    (hb : cfg.frame = "BASE_LINK") (h : sampleToFrame T cfg n s = .ok f)
    (hsd : lidarOf T s.token = .ok sd)
    (hego : lookup EgoPose.token T.egoPoses sd.egoPoseToken = .ok ego)
    (hcs : lookup CalibratedSensor.token T.calibratedSensors sd.calibratedSensorToken = .ok cs)
    (h0 : cs.translation = Vec3.zero) (h1 : cs.rotation = Quat.one) :
    List.Forall₂ (fun a o => o.pose = moveInv ego.translation ego.rotation (annPose a))
      (annsOf T s.token) f.objects := by
  obtain ⟨sd', ego', cs', hsd', hego', hcs', _, _, _, hall⟩ := sampleToFrame_objects h
  rw [hsd] at hsd'; cases hsd'
  rw [hego] at hego'; cases hego'
  rw [hcs] at hcs'; cases hcs'
  refine forall₂_imp hall ?_
  intro a o _ hao
  obtain ⟨pose, _, _, _, _, hpose, _, _, _, _, rfl⟩ := objectOf_ok hao
  simp only [boxPose, hb, if_true, Except.ok.injEq, h0, h1, moveInv_identity] at hpose
  exact hpose.symm

/-- … so, for a unit ego rotation, the ego→map transform stored with the frame maps every object's
ego-frame pose back onto the annotated global pose — position and orientation -/
theorem ego_pose_roundtrip (T : Tables) (cfg : Config) (n : Nat) (s : Sample) (f : Frame)
    (sd : SampleData) (ego : EgoPose) (cs : CalibratedSensor)
    (hb : cfg.frame = "BASE_LINK") (h : sampleToFrame T cfg n s = .ok f)
    (hsd : lidarOf T s.token = .ok sd)
    (hego : lookup EgoPose.token T.egoPoses sd.egoPoseToken = .ok ego)
    (hcs : lookup CalibratedSensor.token T.calibratedSensors sd.calibratedSensorToken = .ok cs)
    (h0 : cs.translation = Vec3.zero) (h1 : cs.rotation = Quat.one)
    (hu : ego.rotation.normSq = 1) :
    List.Forall₂ (fun a o => applyPose f.ego2map o.pose = annPose a) (annsOf T s.token) f.objects := by
  have hm := ego_pose_eq_moved T cfg n s f sd ego cs hb h hsd hego hcs h0 h1
  obtain ⟨sd', ego', hsd', hego', he⟩ := ego2map_eq_ego_pose T cfg n s f h
  rw [hsd] at hsd'; cases hsd'
  rw [hego] at hego'; cases hego'
  refine forall₂_imp hm ?_
  intro a o _ hao
  rw [he, hao]
  exact applyPose_moveInv _ _ hu _

/-! ## the choice of the lidar, and the two rejections the loader names -/

theorem lidar_top_preferred (T : Tables) (tok : String) (sd : SampleData)
    (h : dataOf T tok "LIDAR_TOP" = some sd) : lidarOf T tok = .ok sd := by
  simp [lidarOf, h]

theorem lidar_concat_fallback (T : Tables) (tok : String) (sd : SampleData)
    (h0 : dataOf T tok "LIDAR_TOP" = none) (h : dataOf T tok "LIDAR_CONCAT" = some sd) :
    lidarOf T tok = .ok sd := by
  simp [lidarOf, h0, h]

theorem no_lidar_rejected (T : Tables) (cfg : Config) (n : Nat) (s : Sample)
    (h0 : dataOf T s.token "LIDAR_TOP" = none) (h1 : dataOf T s.token "LIDAR_CONCAT" = none) :
    sampleToFrame T cfg n s = .error "ValueError" := by
  simp [sampleToFrame, lidarOf, h0, h1, bind, Except.bind]

theorem no_samples_rejected (T : Tables) (cfg : Config) (h : T.samples = []) :
    loadDataset T cfg = .error "DatasetLoadingError" := by
  simp [loadDataset, h]

/-! ## tracking history -/

/-- a tracking task exposes, per object, the poses (and sizes) of the records that
`get_past_for_agent` returns for the object's annotation, nearest first -/
theorem tracking_history (T : Tables) (cfg : Config) (n : Nat) (s : Sample) (f : Frame)
    (ht : cfg.tracking = true) (h : sampleToFrame T cfg n s = .ok f) :
    List.Forall₂ (fun a o => ∃ recs, pastRecords T a = .ok recs ∧ o.tracked = some (recs.map pastState))
      (annsOf T s.token) f.objects := by
  obtain ⟨_, ego, cs, _, _, _, _, _, _, hall⟩ := sampleToFrame_objects h
  refine forall₂_imp hall ?_
  intro a o _ hao
  obtain ⟨_, _, _, _, tracked, _, _, _, _, htr, rfl⟩ := objectOf_ok hao
  simp only [trackedOf, ht, if_true] at htr
  cases hp : pastRecords T a with
  | error e => simp [hp, Except.map] at htr
  | ok recs =>
    simp only [hp, Except.map, Except.ok.injEq] at htr
    exact ⟨recs, rfl, htr.symm⟩

/-- when `prev` links stay within one instance (well-formed data), every exposed past state belongs
to an annotation of the SAME instance -/
theorem tracking_history_same_instance (T : Tables) (a : Annotation) (recs : List Annotation)
    (ha : a ∈ T.annotations)
    (hprev : ∀ b ∈ T.annotations, ∀ c, lookup Annotation.token T.annotations b.prev = .ok c →
      c.instanceToken = b.instanceToken)
    (h : pastRecords T a = .ok recs) :
    ∀ r ∈ recs, r ∈ T.annotations ∧ r.instanceToken = a.instanceToken := by
  unfold pastRecords at h
  split at h
  · cases h
  · rename_i t0 _
    refine iterate_inv (fun r => r ∈ T.annotations ∧ r.instanceToken = a.instanceToken)
      (fun r => r ∈ T.annotations ∧ r.instanceToken = a.instanceToken) ?_ _ a 0 [] recs ⟨ha, rfl⟩
      (fun r hr => by cases hr) h
    intro cur nxt t ⟨hc, hci⟩ hn _
    have hm := (lookup_ok_mem hn).1
    have := hprev cur hc nxt hn
    exact ⟨⟨hm, this.trans hci⟩, fun _ => ⟨hm, this.trans hci⟩⟩

/-- the history holds at most 6 states, each less than 3.15 s away from the object's own sample -/
theorem tracking_history_bounds (T : Tables) (a : Annotation) (recs : List Annotation)
    (h : pastRecords T a = .ok recs) :
    recs.length ≤ 6 ∧
    ∀ r ∈ recs, ∃ tr ta, timeOf T r.sampleToken = .ok tr ∧ timeOf T a.sampleToken = .ok ta ∧
      absDiff tr ta < 3150000 := by
  unfold pastRecords at h
  split at h
  · cases h
  · rename_i t0 ht0
    refine ⟨iterate_length _ a 0 [] recs (by simp [maxPast]) h, ?_⟩
    refine iterate_inv (fun r => ∃ tr ta, timeOf T r.sampleToken = .ok tr ∧ timeOf T a.sampleToken = .ok ta ∧
      absDiff tr ta < 3150000) (fun _ => True) ?_ _ a 0 [] recs trivial (fun r hr => by cases hr) h
    intro cur nxt t _ _ ht
    exact ⟨trivial, fun hlt => ⟨t, t0, ht, ht0, hlt⟩⟩

/-- when every `prev` link points to a strictly earlier sample (well-formed data), every exposed
past state lies strictly BEFORE the object's sample: the history is about preceding samples -/
theorem tracking_history_preceding (T : Tables) (a : Annotation) (recs : List Annotation)
    (ha : a ∈ T.annotations)
    (hearlier : ∀ b ∈ T.annotations, ∀ c, lookup Annotation.token T.annotations b.prev = .ok c →
      ∀ tb tc, timeOf T b.sampleToken = .ok tb → timeOf T c.sampleToken = .ok tc → tc < tb)
    (h : pastRecords T a = .ok recs) :
    ∀ r ∈ recs, ∃ tr ta, timeOf T r.sampleToken = .ok tr ∧ timeOf T a.sampleToken = .ok ta ∧ tr < ta := by
  unfold pastRecords at h
  split at h
  · cases h
  · rename_i t0 ht0
    refine iterate_inv
      (fun r => ∃ tr ta, timeOf T r.sampleToken = .ok tr ∧ timeOf T a.sampleToken = .ok ta ∧ tr < ta)
      (fun c => c ∈ T.annotations ∧ ∃ tc, timeOf T c.sampleToken = .ok tc ∧ tc ≤ t0) ?_ _ a 0 [] recs
      ⟨ha, t0, ht0, Nat.le_refl _⟩ (fun r hr => by cases hr) h
    intro cur nxt t ⟨hc, tc, htc, hle⟩ hn ht
    have hlt := hearlier cur hc nxt hn tc t htc ht
    have hm := (lookup_ok_mem hn).1
    exact ⟨⟨hm, t, ht, by omega⟩, fun _ => ⟨t, t0, ht, ht0, by omega⟩⟩

/-- other tasks (detection, sensing) expose no history -/
theorem no_history_unless_tracking (T : Tables) (cfg : Config) (n : Nat) (s : Sample) (f : Frame)
    (ht : cfg.tracking = false) (h : sampleToFrame T cfg n s = .ok f) :
    ∀ o ∈ f.objects, o.tracked = none := by
  obtain ⟨_, ego, cs, _, _, _, _, _, _, hall⟩ := sampleToFrame_objects h
  intro o ho
  obtain ⟨a, _, hab⟩ := forall₂_mem_right hall ho
  obtain ⟨_, _, _, _, tracked, _, _, _, _, htr, rfl⟩ := objectOf_ok hab
  simp only [trackedOf, ht, Bool.false_eq_true, if_false, Except.ok.injEq] at htr
  exact htr.symm

/-! ## loading a well-formed dataset never fails -/

/-- on referentially intact tables (`WellFormed`: every followed token resolves, every sample has a
lidar key frame) the loader returns frames for both supported frame ids, every task, merge on/off -/
theorem load_total (T : Tables) (cfg : Config) (wf : WellFormed T)
    (hfr : cfg.frame = "BASE_LINK" ∨ cfg.frame = "MAP") : ∃ fs, loadDataset T cfg = .ok fs := by
  unfold loadDataset
  have : T.samples.isEmpty = false := by
    cases hs : T.samples with
    | nil => exact absurd hs wf.samples_ne
    | cons _ _ => rfl
  simp only [this, Bool.false_eq_true, if_false]
  exact loadFrom_total wf hfr T.samples 0 (fun s hs => hs)

/-- any other frame id is rejected (`_get_sample_boxes`) -/
theorem other_frame_rejected (T : Tables) (cfg : Config) (n : Nat) (s : Sample) (sd : SampleData)
    (hsd : lidarOf T s.token = .ok sd) (hfr : ¬ (cfg.frame = "BASE_LINK" ∨ cfg.frame = "MAP")) :
    sampleToFrame T cfg n s = .error "ValueError" := by
  simp [sampleToFrame, hsd, hfr, bind, Except.bind, throw, throwThe, MonadExceptOf.throw]

/-! ## non-vacuity: the hypotheses above hold of a concrete, non-trivial table set
(`PEval.Dataset.exTables`: two samples, two sensors, rotated ego poses, a bus seen twice, a pedestrian
of an unregistered category) -/

example : WellFormed exTables := exTables_wellFormed

example : ∃ fs, loadDataset exTables ⟨true, "BASE_LINK", true⟩ = .ok fs ∧ fs.length = 2 := by
  obtain ⟨fs, h⟩ := load_total exTables ⟨true, "BASE_LINK", true⟩ exTables_wellFormed (Or.inl rfl)
  exact ⟨fs, h, (frames_length_order_time _ _ _ h).1⟩

-- the hypotheses of `ego_pose_eq_moved` / `ego_pose_roundtrip` (a genuinely 3-D unit ego rotation)
example : lidarOf exTables exS1.token = .ok exSd1 := by decide +kernel
example : lookup EgoPose.token exTables.egoPoses exSd1.egoPoseToken = .ok exEgo1 := by decide +kernel
example : lookup CalibratedSensor.token exTables.calibratedSensors exSd1.calibratedSensorToken = .ok exCsT := by
  decide +kernel
example : exCsT.translation = Vec3.zero ∧ exCsT.rotation = Quat.one ∧ exEgo1.rotation.normSq = 1 ∧
    exEgo1.rotation ≠ Quat.one := by decide +kernel
example : annsOf exTables exS1.token = [exA0] := by decide +kernel
example : (sampleToFrame exTables ⟨true, "BASE_LINK", false⟩ 1 exS1).toBool = true := by decide +kernel
example : (sampleToFrame exTables ⟨false, "MAP", true⟩ 1 exS1).toBool = true := by decide +kernel

-- the object of the bus in the second sample (label and visibility are whatever the regenerated tables say)
example : ((sampleToFrame exTables ⟨false, "BASE_LINK", false⟩ 1 exS1).toOption.map (fun f => f.objects.map
      (fun o => [o.uuid, o.name, o.frame] ++ o.attributes))) =
    some [["i0", "Vehicle.Bus", "BASE_LINK", "vehicle.moving"]] := by decide +kernel
example : ((sampleToFrame exTables ⟨false, "BASE_LINK", false⟩ 1 exS1).toOption.map (fun f => f.objects.map
      (fun o => (o.pose, o.points)))) =
    some [(⟨⟨-3, -5, 33/2⟩, ⟨16/25, -14/25, -2/25, -13/25⟩⟩, 0)] := by decide +kernel
example : ((sampleToFrame exTables ⟨false, "BASE_LINK", true⟩ 1 exS1).toOption.map (fun f => f.objects.map
      (fun o => (o.label, o.visibility)))) =
    some [(convertLabel true "Vehicle.Bus", some (visibilityOfLevel "v80-100"))] := by decide +kernel
-- the label tables are inhabited, and some name is outside them
example : pairTable false ≠ [] ∧ pairTable true ≠ [] := by decide
example : ∀ merge, "no such category".toLower ∉ (pairTable merge).map (·.2) := by
  intro merge; cases merge <;> decide +kernel

-- tracking history: the bus's annotation in the first sample, and the `prev` hypotheses
example : pastRecords exTables exA0 = .ok [exA2] := by decide +kernel
example : exA0 ∈ exTables.annotations := by decide +kernel
example : ∀ b ∈ exTables.annotations, ∀ c, lookup Annotation.token exTables.annotations b.prev = .ok c →
    c.instanceToken = b.instanceToken := by
  have h : exTables.annotations.all (fun b =>
      match lookup Annotation.token exTables.annotations b.prev with
      | .ok c => c.instanceToken == b.instanceToken
      | .error _ => true) = true := by decide +kernel
  intro b hb c hc
  have := List.all_eq_true.1 h b hb
  simpa [hc] using this

-- the two rejections
example : loadDataset { exTables with samples := [] } ⟨false, "MAP", false⟩ = .error "DatasetLoadingError" :=
  no_samples_rejected _ _ rfl
example : sampleToFrame { exTables with sampleData := [] } ⟨false, "MAP", false⟩ 0 exS1 = .error "ValueError" :=
  no_lidar_rejected _ _ _ _ (by decide +kernel) (by decide +kernel)

end PEval.C16
