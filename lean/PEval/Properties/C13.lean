import PEval.Lemmas.Manager
import PEval.Lemmas.ManagerSort
import PEval.Properties.C13Tracking
import PEval.Properties.C13Heap
import PEval.Lemmas.ManagerAPLink
import PEval.Properties.C13Scene
import PEval.Properties.C13Reached
import PEval.Properties.C13Labels
/-!
# C13 — scene scores pool the frame results; frame evaluation is history-independent

All statements are about the state machine `PEval.Manager` (`State = {dataset, frameResults}`,
operations `add` / `scene` / `lookup`) and hold for EVERY list of operations, every start state and
every single-frame evaluation `sem` (the abstract `evalDet`/`evalTrack` of the model: the detection
part of a frame evaluation is a function of that frame's ground truth, estimates and configurations;
the tracking part may in addition read the detection part of the immediately preceding stored result).

The tracking scores are concrete in the extended machine `PEval.ManagerTracking`; the theorems about it
(per-frame CLEAR against the last stored frame, scene CLEAR over the pooled history, scene counts = sums of
the per-frame counts, renaming invariance) are in `Properties/C13Tracking.lean`, imported here.

The tie to /repo is the lock-step correspondence run (`harness/props/c13.py`): random operation
sequences on one real `PerceptionEvaluationManager`, with `sem` instantiated by what a FRESH real
manager computes for each `add`.
-/
namespace PEval.C13
open PEval.Manager PEval

variable {E C T : Type}

/-! ## the loaded dataset and the caller's estimates are never modified -/

/-- no sequence of operations changes `dataset` -/
theorem add_preserves_dataset (sem : Sem E C T) (s : State T) (ops : List (Op E C)) :
    (run sem s ops).1.dataset = s.dataset :=
  run_dataset sem s ops

/-- scene queries and look-ups leave the whole state as it is -/
theorem queries_pure (sem : Sem E C T) (s : State T) (ops : List (Op E C))
    (h : ∀ op ∈ ops, op.isQuery = true) : (run sem s ops).1 = s :=
  run_queries sem s ops h

/-- the frame a look-up hands out is one of the dataset's frames (and the dataset is as loaded) -/
theorem lookup_returns_dataset_frame (sem : Sem E C T) (s : State T) (pre : List (Op E C)) (t thr : Int) (f : Frame)
    (h : getGT (run sem s pre).1 t thr = .ok (some f)) : f ∈ s.dataset := by
  have := getGT_mem _ t thr f h
  rwa [run_dataset] at this

/-- The caller's estimate lists are untouched.  Pure by construction: the machine receives the
estimates as values (`World.ests` is only read by `stepW`); that the REAL manager does not mutate the
list object it is given is compared by the harness after every operation. -/
theorem estimates_untouched (sem : Sem E C T) (w : World E T) (ops : List (OpW C)) :
    (runW sem w ops).1.ests = w.ests ∧ (runW sem w ops).1.st.dataset = w.st.dataset := by
  induction ops generalizing w with
  | nil => exact ⟨rfl, rfl⟩
  | cons op ops ih =>
    simp only [runW]
    have h1 : (stepW sem w op).1.ests = w.ests ∧ (stepW sem w op).1.st.dataset = w.st.dataset := by
      cases op with
      | add g k c =>
        simp only [stepW]
        split <;> simp [step_dataset]
      | scene => exact ⟨rfl, rfl⟩
      | lookup t thr => exact ⟨rfl, rfl⟩
    rw [(ih (stepW sem w op).1).1, (ih (stepW sem w op).1).2]
    exact h1

/-! ## frame evaluation is history-independent -/

/-- The detection part of the result of `add(g, e, c)` is `evalDet g e c` whatever operations `pre`
were performed before and whatever the start state — in particular it equals what a fresh manager
(on any dataset `ds`) returns for the same call. -/
theorem add_detection_history_free (sem : Sem E C T) (s : State T) (pre : List (Op E C))
    (g : Frame) (e : E) (c : C) (ds : List Frame) :
    (lastOut sem s (pre ++ [.add g e c])).bind Out.det? = some (sem.evalDet g e c) ∧
    (lastOut sem s (pre ++ [.add g e c])).bind Out.det?
      = (lastOut sem (fresh ds) [.add g e c]).bind Out.det? := by
  have h : ∀ (s' : State T) (p : List (Op E C)),
      (lastOut sem s' (p ++ [.add g e c])).bind Out.det? = some (sem.evalDet g e c) := by
    intro s' p
    rw [lastOut_append_one]
    simp [step, addFrameResult, evalFrame, Out.det?]
  exact ⟨h s pre, by rw [h s pre]; exact (h (fresh ds) []).symm⟩

/-- every stored detection part is the fresh evaluation of its own `add`: after any operation list
on a fresh manager, `frame_results` holds exactly the per-call evaluations, in call order -/
theorem stored_detection_history_free (sem : Sem E C T) (ds : List Frame) (ops : List (Op E C)) :
    (run sem (fresh ds) ops).1.frameResults.map (·.det) = addsDet sem ops := by
  rw [run_frameResults_det]; simp [fresh]

/-- The tracking part of the result of `add(g, e, c)` depends on the history only through the last
stored result (`frame_results[-1]`), and only through its detection part. -/
theorem add_tracking_depends_on_last_only (sem : Sem E C T) (s : State T) (pre : List (Op E C))
    (g : Frame) (e : E) (c : C) :
    (lastOut sem s (pre ++ [.add g e c])).bind Out.track?
      = some (sem.evalTrack g e c ((run sem s pre).1.frameResults.getLast?.map (·.det))) := by
  rw [lastOut_append_one]
  simp [step, addFrameResult, evalFrame, Out.track?]

/-- two managers whose last stored results agree give the same tracking part -/
theorem add_tracking_same_last (sem : Sem E C T) (s₁ s₂ : State T) (pre₁ pre₂ : List (Op E C))
    (g : Frame) (e : E) (c : C)
    (h : (run sem s₁ pre₁).1.frameResults.getLast?.map (·.det) = (run sem s₂ pre₂).1.frameResults.getLast?.map (·.det)) :
    (lastOut sem s₁ (pre₁ ++ [.add g e c])).bind Out.track?
      = (lastOut sem s₂ (pre₂ ++ [.add g e c])).bind Out.track? := by
  rw [add_tracking_depends_on_last_only, add_tracking_depends_on_last_only, h]

/-- … hence: whatever happened before the previous `add`, and whatever queries were interleaved, the
tracking part equals the one a fresh manager computes from the two calls alone. -/
theorem add_tracking_two_step (sem : Sem E C T) (s : State T) (pre qs : List (Op E C))
    (hq : ∀ op ∈ qs, op.isQuery = true)
    (g₁ g₂ : Frame) (e₁ e₂ : E) (c₁ c₂ : C) (ds : List Frame) :
    (lastOut sem s ((pre ++ [.add g₁ e₁ c₁] ++ qs) ++ [.add g₂ e₂ c₂])).bind Out.track?
      = (lastOut sem (fresh ds) ([.add g₁ e₁ c₁] ++ [.add g₂ e₂ c₂])).bind Out.track? := by
  apply add_tracking_same_last
  rw [run_last_det, run_last_det]
  simp [addsDet_append, addsDet_queries sem qs hq, addsDet, fresh]

/-- the first `add` on a manager without history (queries before it do not count) sees no predecessor -/
theorem add_tracking_first (sem : Sem E C T) (ds : List Frame) (qs : List (Op E C))
    (hq : ∀ op ∈ qs, op.isQuery = true) (g : Frame) (e : E) (c : C) :
    (lastOut sem (fresh ds) (qs ++ [.add g e c])).bind Out.track? = some (sem.evalTrack g e c none) := by
  rw [add_tracking_depends_on_last_only, run_queries sem _ qs hq]; rfl

/-! ## scene scores pool the stored frame results -/

/-- ground-truth counts add up over the stored frames (per label) -/
theorem scene_numgt_sum (nl : Nat) (s : State T) (l : Nat) (hl : l < nl) :
    (getSceneResult nl s).gt l = (s.frameResults.map (·.det.gt l)).sum :=
  scene_gt nl s l hl

/-- `MetricsScore.num_ground_truth` of the scene score: the counts of all labels and frames -/
theorem scene_total_numgt (nl : Nat) (s : State T) :
    (getSceneResult nl s).totalGt
      = ((List.range nl).map (fun l => (s.frameResults.map (·.det.gt l)).sum)).sum := by
  unfold Scene.totalGt; rw [scene_numGt_list]

/-- … and after any operation list on a fresh manager they are the sum over the `add`s performed -/
theorem scene_numgt_sum_ops (sem : Sem E C T) (ds : List Frame) (ops : List (Op E C)) (l : Nat)
    (hl : l < sem.nLabels) :
    (getSceneResult sem.nLabels (run sem (fresh ds) ops).1).gt l = ((addsDet sem ops).map (·.gt l)).sum := by
  rw [scene_gt _ _ l hl, ← stored_detection_history_free sem ds ops]
  simp [List.map_map, Function.comp_def]

/-- The scene score of a label is the score of the pooled per-frame results: the buckets of the
stored frames concatenated in insertion order, with the summed ground-truth count — for ANY score
function `ap` of (result list, number of ground truths). -/
theorem scene_eq_pooled (nl : Nat) (s : State T) (l : Nat) (hl : l < nl) (ap : List Res → Nat → Option Rat) :
    (getSceneResult nl s).score ap l
      = ap (s.frameResults.map (·.det.bucket l)).flatten (s.frameResults.map (·.det.gt l)).sum := by
  unfold Scene.score
  rw [scene_pooled nl s l hl, scene_gt nl s l hl]

/-- the same, read off the answer to a `scene` query issued after any operation list on a fresh
manager: the pool consists of the fresh evaluations of the `add`s, in call order -/
theorem scene_eq_pooled_ops (sem : Sem E C T) (ds : List Frame) (ops : List (Op E C)) :
    ∃ sc, lastOut sem (fresh ds) (ops ++ [.scene]) = some (.scene sc) ∧
      ∀ l, l < sem.nLabels → ∀ ap : List Res → Nat → Option Rat,
        sc.score ap l = ap ((addsDet sem ops).map (·.bucket l)).flatten ((addsDet sem ops).map (·.gt l)).sum := by
  refine ⟨getSceneResult sem.nLabels (run sem (fresh ds) ops).1, ?_, ?_⟩
  · rw [lastOut_append_one]; rfl
  · intro l hl ap
    rw [scene_eq_pooled _ _ l hl, ← stored_detection_history_free sem ds ops]
    simp [List.map_map, Function.comp_def]

/-- a one-frame scene reproduces that frame's detection score (queries may be interleaved) -/
theorem scene_single_frame (sem : Sem E C T) (ds : List Frame) (qs₁ qs₂ : List (Op E C))
    (h₁ : ∀ op ∈ qs₁, op.isQuery = true) (h₂ : ∀ op ∈ qs₂, op.isQuery = true)
    (g : Frame) (e : E) (c : C) (l : Nat) (hl : l < sem.nLabels) (ap : List Res → Nat → Option Rat) :
    (getSceneResult sem.nLabels (run sem (fresh ds) (qs₁ ++ [.add g e c] ++ qs₂)).1).score ap l
      = (sem.evalDet g e c).score ap l := by
  rw [scene_eq_pooled _ _ l hl]
  have hd := stored_detection_history_free sem ds (qs₁ ++ [.add g e c] ++ qs₂)
  rw [addsDet_append, addsDet_append, addsDet_queries sem qs₁ h₁, addsDet_queries sem qs₂ h₂] at hd
  simp only [addsDet, List.nil_append, List.append_nil] at hd
  have hb : ∀ f : Det → List Res, (run sem (fresh ds) (qs₁ ++ [.add g e c] ++ qs₂)).1.frameResults.map (fun r => f r.det)
      = [f (sem.evalDet g e c)] := by
    intro f
    have := congrArg (List.map f) hd
    simpa [List.map_map, Function.comp_def] using this
  have hn : ∀ f : Det → Nat, (run sem (fresh ds) (qs₁ ++ [.add g e c] ++ qs₂)).1.frameResults.map (fun r => f r.det)
      = [f (sem.evalDet g e c)] := by
    intro f
    have := congrArg (List.map f) hd
    simpa [List.map_map, Function.comp_def] using this
  rw [hb (fun d => d.bucket l), hn (fun d => d.gt l)]
  simp [Det.score]

/-! ## pooled AP does not depend on the order in which frames were added (distinct confidences) -/

/-- sorting a permutation of a list with pairwise distinct confidences gives the same ranking -/
theorem sort_perm_eq {l₁ l₂ : List Res} (p : l₁.Perm l₂) (hd : DistinctConf l₁) : sortDesc l₁ = sortDesc l₂ :=
  sortDesc_perm_eq p hd

/-- the pools of two permuted frame lists are permutations of each other, with equal GT counts -/
theorem pooled_perm {d₁ d₂ : List Det} (p : d₁.Perm d₂) (l : Nat) :
    ((d₁.map (·.bucket l)).flatten).Perm ((d₂.map (·.bucket l)).flatten) ∧
    (d₁.map (·.gt l)).sum = (d₂.map (·.gt l)).sum :=
  ⟨(p.map _).flatten, (p.map _).sum_nat⟩

/-- If the stored frames of two managers are permutations of each other and the pooled confidences
of label `l` are pairwise distinct, the scene AP of `l` is the same — for the concrete `apOf c` of
every metric column and, generally, for every score that reads the results through the ranking. -/
theorem pooled_ap_perm_invariant (nl : Nat) (s₁ s₂ : State T) (l : Nat) (hl : l < nl)
    (p : (s₁.frameResults.map (·.det)).Perm (s₂.frameResults.map (·.det)))
    (hd : DistinctConf ((getSceneResult nl s₁).pooled l)) :
    (∀ c, (getSceneResult nl s₁).score (apOf c) l = (getSceneResult nl s₂).score (apOf c) l) ∧
    (∀ f : List Res → Nat → Option Rat,
      (getSceneResult nl s₁).score (fun rs n => f (sortDesc rs) n) l
        = (getSceneResult nl s₂).score (fun rs n => f (sortDesc rs) n) l) := by
  have hp := pooled_perm p l
  simp only [List.map_map, Function.comp_def] at hp
  have hsort : sortDesc ((getSceneResult nl s₁).pooled l) = sortDesc ((getSceneResult nl s₂).pooled l) := by
    apply sortDesc_perm_eq _ hd
    rw [scene_pooled nl s₁ l hl, scene_pooled nl s₂ l hl]
    exact hp.1
  have hgt : (getSceneResult nl s₁).gt l = (getSceneResult nl s₂).gt l := by
    rw [scene_gt nl s₁ l hl, scene_gt nl s₂ l hl]; exact hp.2
  constructor
  · intro c; simp only [Scene.score, apOf]; rw [hsort, hgt]
  · intro f; simp only [Scene.score]; rw [hsort, hgt]

/-- the same for two operation lists on fresh managers whose `add`s are permutations of each other
(interleaved queries are irrelevant) -/
theorem pooled_ap_perm_invariant_ops (sem : Sem E C T) (ds₁ ds₂ : List Frame) (ops₁ ops₂ : List (Op E C))
    (p : (addsDet sem ops₁).Perm (addsDet sem ops₂)) (l : Nat) (hl : l < sem.nLabels)
    (hd : DistinctConf ((addsDet sem ops₁).map (·.bucket l)).flatten) (c : Nat) :
    (getSceneResult sem.nLabels (run sem (fresh ds₁) ops₁).1).score (apOf c) l
      = (getSceneResult sem.nLabels (run sem (fresh ds₂) ops₂).1).score (apOf c) l := by
  apply (pooled_ap_perm_invariant sem.nLabels _ _ l hl ?_ ?_).1 c
  · rw [stored_detection_history_free, stored_detection_history_free]; exact p
  · rw [scene_pooled _ _ l hl]
    have := stored_detection_history_free sem ds₁ ops₁
    have h2 : (run sem (fresh ds₁) ops₁).1.frameResults.map (fun r => r.det.bucket l)
        = (addsDet sem ops₁).map (·.bucket l) := by
      rw [← this]; simp [List.map_map, Function.comp_def]
    rw [h2]; exact hd

/-! ## non-vacuity: concrete instances -/

section Examples

def r1 : Res := ⟨1, some 11, 9/10, [1]⟩
def r2 : Res := ⟨2, none, 7/10, [0]⟩
def r3 : Res := ⟨3, some 12, 8/10, [1]⟩
def r4 : Res := ⟨4, some 13, 6/10, [1]⟩
def dA : Det := ⟨[[r1, r2]], [2]⟩
def dB : Det := ⟨[[r3]], [1]⟩
def dC : Det := ⟨[[r4]], [2]⟩

/-- estimates are a key; the evaluation is a table -/
def semEx : Sem Nat Unit Nat where
  nLabels := 1
  evalDet := fun _ e _ => if e = 0 then dA else if e = 1 then dB else dC
  evalTrack := fun _ e _ prev => match prev with
    | none => 0
    | some d => e + 10 * (d.bucket 0).length

def fr0 : Frame := ⟨100, 0, [11, 13]⟩
def fr1 : Frame := ⟨200, 1, [12]⟩
def opsEx : List (Op Nat Unit) := [.lookup 100 75, .add fr0 0 (), .scene, .add fr1 1 (), .add fr0 2 ()]
def opsPerm : List (Op Nat Unit) := [.add fr0 2 (), .add fr0 0 (), .lookup 0 0, .add fr1 1 ()]

-- the hypotheses of `pooled_ap_perm_invariant_ops` hold for a non-trivial permutation …
example : DistinctConf ((addsDet semEx opsEx).map (·.bucket 0)).flatten := by decide +kernel
example : (addsDet semEx opsEx).Perm (addsDet semEx opsPerm) := by
  exact List.perm_append_comm (l₁ := [dA, dB]) (l₂ := [dC])
-- … the pooled lists really differ, the sorted ranking and the AP do not
example : ((addsDet semEx opsEx).map (·.bucket 0)).flatten ≠ ((addsDet semEx opsPerm).map (·.bucket 0)).flatten := by
  decide +kernel
example : (getSceneResult 1 (run semEx (fresh [fr0, fr1]) opsEx).1).score (apOf 0) 0 = some (11/20) := by decide +kernel
example : (getSceneResult 1 (run semEx (fresh [fr0, fr1]) opsPerm).1).score (apOf 0) 0 = some (11/20) := by decide +kernel
-- with a tie the insertion order matters (the hypothesis cannot be dropped)
example : apOf 0 [⟨1, none, 1/2, [0]⟩, ⟨2, some 5, 1/2, [1]⟩] 1 ≠ apOf 0 [⟨2, some 5, 1/2, [1]⟩, ⟨1, none, 1/2, [0]⟩] 1 := by
  decide +kernel
-- GT counts add up, the dataset is as loaded, the look-up finds the frame
example : (getSceneResult 1 (run semEx (fresh [fr0, fr1]) opsEx).1).gt 0 = 5 := by decide +kernel
example : (run semEx (fresh [fr0, fr1]) opsEx).1.dataset = [fr0, fr1] := rfl
example : getGT (fresh (T := Nat) [fr0, fr1]) 160 75 = .ok (some fr1) := by decide +kernel
example : getGT (fresh (T := Nat) [fr0, fr1]) 300 75 = .ok none := by decide +kernel
-- the tracking part sees the previous add only
example : (lastOut semEx (fresh [fr0, fr1]) opsEx).bind Out.track? = some 12 := by decide +kernel

end Examples

/-! ## transfer: the pooling theorems hold of the heap machine; the concrete AP is the AP of `Model/AP.lean`

`Properties/C13Heap.lean` proves that the heap machine of /repo (`ManagerHeap.hrun`: references, explicit
writes) refines `Manager.run`.  Through `heap_refines_manager` / `heap_scene_eq_manager_scene` every
theorem above is a theorem about the heap machine; the pooling statement is spelled out.
`Lemmas/ManagerAPLink.lean` proves that `Manager.apOf` (the transcription of `ap.py` used in
`pooled_ap_perm_invariant`) computes the `ap` of `AP.apOf` (the model of properties C04/C08). -/

section Transfer
open PEval.ManagerHeap

/-- Scene pooling on the heap machine: after any list of valid operations on a fresh manager the answer
to a scene query pools, per label, the PURE evaluations (`pureDet`: filters, matcher and scores applied to
the values the references held in the original store) of the `add`s performed, in call order, with the
summed ground-truth counts — although `get_scene_result` re-reads the ground-truth frame of every stored
result through its reference at query time. -/
theorem heap_scene_eq_pooled_ops {Est OR C' T' : Type} (sem : HSem Est OR C' T') (hl : LabelsAgree sem)
    (h : Heap Est) (ds : List Ref) (hv : DatasetValid h ds) (ops : List (HOp C'))
    (hops : ∀ op ∈ ops, op.validIn h) :
    ∃ sc, hlastOut sem (hfresh h ds) (ops ++ [.scene]) = some (.scene sc) ∧
      ∀ l, l < sem.nLabels → ∀ ap : List Res → Nat → Option Rat,
        sc.score ap l = ap ((addsDet (toSem sem) (ops.map (absOp h))).map (·.bucket l)).flatten
          ((addsDet (toSem sem) (ops.map (absOp h))).map (·.gt l)).sum := by
  refine ⟨_, heap_scene_eq_manager_scene sem hl h ds hv ops hops, ?_⟩
  intro l hl' ap
  rw [scene_eq_pooled _ _ l hl', ← stored_detection_history_free (toSem sem) (ds.map h.frame) (ops.map (absOp h))]
  simp [List.map_map, Function.comp_def]

/-- `Manager.apOf` IS the AP of the detection-metrics model: on the translation of a result list of
`Model/AP.lean` (TP column = the weight `AP.classify` gives the result) it returns `Ap.ap` of
`AP.apOf` — for every metric, mode, label list, threshold list and ground-truth count. -/
theorem manager_apOf_eq_AP_apOf {tm : AP.TpMetric} {m : AP.Mode} {Tl : List AP.Label} {th : List Rat} {G : Nat}
    {rs : List AP.Res} {a : AP.ApOut} (h : AP.apOf tm m Tl th G rs = .ok a) :
    Manager.apOf 0 (rs.map (ofAP (tpWeight tm m Tl th))) G = a.ap :=
  apOf_eq_AP_apOf h

/-- order-independence of the pooled AP for the REAL `Ap` (`AP.apOf`: sort, classify, interpolate): two
pools that are permutations of each other (frames added in another order) with pairwise distinct
confidences have the same AP / APH -/
theorem pooled_real_ap_perm_invariant {tm : AP.TpMetric} {m : AP.Mode} {Tl : List AP.Label} {th : List Rat} {G : Nat}
    {rs₁ rs₂ : List AP.Res} (p : rs₁.Perm rs₂) (hd : rs₁.Pairwise (fun a b => a.conf ≠ b.conf))
    {a₁ a₂ : AP.ApOut} (h₁ : AP.apOf tm m Tl th G rs₁ = .ok a₁) (h₂ : AP.apOf tm m Tl th G rs₂ = .ok a₂) :
    a₁.ap = a₂.ap := by
  rw [← apOf_eq_AP_apOf h₁, ← apOf_eq_AP_apOf h₂]
  unfold Manager.apOf
  rw [sortDesc_perm_eq (p.map _)]
  unfold DistinctConf
  rw [List.pairwise_map]
  exact hd

-- non-vacuity: a permuted pool with distinct confidences (TP, FP, unmatched), and its AP
example : ([⟨1, 3, 2, some ⟨7, 2⟩, .val (some 0), 1, .default⟩, ⟨2, 2, 2, some ⟨8, 2⟩, .val (some 5), 1, .default⟩,
      ⟨3, 1, 2, none, .val none, 1, .default⟩] : List AP.Res).Pairwise (fun a b => a.conf ≠ b.conf) := by
  decide +kernel
example : (AP.apOf .ap .centerDistance [2] [1] 2
      [⟨3, 1, 2, none, .val none, 1, .default⟩, ⟨1, 3, 2, some ⟨7, 2⟩, .val (some 0), 1, .default⟩,
       ⟨2, 2, 2, some ⟨8, 2⟩, .val (some 5), 1, .default⟩]).toOption.map (·.ap)
    = (AP.apOf .ap .centerDistance [2] [1] 2
      [⟨1, 3, 2, some ⟨7, 2⟩, .val (some 0), 1, .default⟩, ⟨2, 2, 2, some ⟨8, 2⟩, .val (some 5), 1, .default⟩,
       ⟨3, 1, 2, none, .val none, 1, .default⟩]).toOption.map (·.ap) := by
  decide +kernel

end Transfer

end PEval.C13
