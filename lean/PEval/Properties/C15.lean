import PEval.Lemmas.Threshold
import PEval.Lemmas.ThresholdConfig
import PEval.Lemmas.ThresholdTargets
import PEval.Gen.Enums
/-!
# C15 — configurations are validated; thresholds normalised to one value per label

Theorems about the models `PEval.Threshold.setThresholds` (`common/threshold.py`) and
`PEval.Config.*` (the configuration classes).  The specification predicates (`IsFlatNorm`,
`IsNestedNorm`, `RowOf`, `RowsOf`, `FlatOK`, `NestedOK`) are defined in `PEval/Lemmas/Threshold.lean`.
All statements quantify over every `PyVal` tree and every number of labels (no size bound).
-/
namespace PEval.C15
open PEval PEval.Threshold PEval.Config

/-! ## shape: one value per target label -/

/-- an accepted flat result is a list of exactly `n` entries -/
theorem setThresholds_shape_flat {v : PyVal} {n : Nat} {r : PyVal}
    (h : setThresholds v n false = .ok r) : ∃ xs, r = .list xs ∧ xs.length = n := by
  obtain ⟨xs, e, hl, _⟩ := flat_result_norm h
  exact ⟨xs, e, hl⟩

/-- an accepted nested result is a non-empty list of rows of exactly `n` entries (and then `n ≥ 1`) -/
theorem setThresholds_shape_nested {v : PyVal} {n : Nat} {r : PyVal}
    (h : setThresholds v n true = .ok r) :
    1 ≤ n ∧ ∃ rows, r = .list rows ∧ rows ≠ [] ∧ ∀ row ∈ rows, ∃ ys, row = .list ys ∧ ys.length = n := by
  have hn : n ≠ 0 := ((nested_accept_iff v n r).mp h).1
  obtain ⟨rows, e, hne, hrows⟩ := nested_result_norm h
  refine ⟨by omega, rows, e, hne, ?_⟩
  intro row hr
  obtain ⟨ys, e', hl, _⟩ := hrows row hr
  exact ⟨ys, e', hl⟩

/-- every leaf of an accepted result is a number in Python's sense (`numbers.Real`, `bool` included):
the result is a flat / nested *normal form* -/
theorem setThresholds_numeric {v : PyVal} {n : Nat} {nest : Bool} {r : PyVal}
    (h : setThresholds v n nest = .ok r) :
    (nest = false → IsFlatNorm n r) ∧ (nest = true → IsNestedNorm n r) := by
  constructor
  · intro hn; subst hn; exact flat_result_norm h
  · intro hn; subst hn; exact nested_result_norm h

/-! ## no padding, no truncation -/

/-- flat: the result is the input unchanged, or the broadcast of a scalar / singleton -/
theorem no_pad_no_truncate_flat {v : PyVal} {n : Nat} {r : PyVal}
    (h : setThresholds v n false = .ok r) :
    r = v ∨ ∃ x, isReal x = true ∧ (v = x ∨ v = .list [x]) ∧ r = .list (List.replicate n x) := by
  rcases (flat_accept_iff v n r).mp h with ⟨hv, rfl⟩ | ⟨xs, rfl, h0, h1, h2, rfl⟩
  · exact Or.inr ⟨v, hv, Or.inl rfl, rfl⟩
  · by_cases h3 : xs.length = 1
    · rw [if_pos h3]
      obtain ⟨y, rfl⟩ := List.length_eq_one_iff.mp h3
      exact Or.inr ⟨y, h1 y (by simp), Or.inr rfl, by simp⟩
    · rw [if_neg h3]; exact Or.inl rfl

/-- nested: a scalar gives one broadcast row; a flat list of numbers gives itself as the single row
(when it has exactly `n` entries) or one broadcast row per entry; a list of rows gives, position by
position, each row unchanged or the broadcast of a singleton row (`RowsOf`: same number of rows, same
order) -/
theorem no_pad_no_truncate_nested {v : PyVal} {n : Nat} {r : PyVal}
    (h : setThresholds v n true = .ok r) :
    (isReal v = true ∧ r = .list [.list (List.replicate n v)]) ∨
    (∃ xs, v = .list xs ∧ (∀ x ∈ xs, isReal x = true) ∧
        ((xs.length = n ∧ r = .list [v]) ∨ r = .list (xs.map fun x => .list (List.replicate n x)))) ∨
    (∃ xs rows, v = .list xs ∧ r = .list rows ∧ RowsOf n xs rows) := by
  rcases (nested_accept_iff v n r).mp h with
    ⟨_, ⟨hv, rfl⟩ | ⟨xs, rfl, h0, h1, rfl⟩ | ⟨xs, rfl, h0, _, h2, rfl⟩⟩
  · exact Or.inl ⟨hv, rfl⟩
  · refine Or.inr (Or.inl ⟨xs, rfl, h1, ?_⟩)
    by_cases h3 : xs.length = n
    · rw [if_neg (by simpa using h3)]; exact Or.inl ⟨h3, rfl⟩
    · rw [if_pos h3]; exact Or.inr rfl
  · exact Or.inr (Or.inr ⟨xs, _, rfl, rfl,
      normRows_rowsOf n xs fun x hx => rowOK_isList (List.all_eq_true.mp h2 x hx)⟩)

/-! ## idempotence -/

/-- normalising an accepted result again returns it unchanged (for at least one target label) -/
theorem setThresholds_idem {v : PyVal} {n : Nat} {nest : Bool} {r : PyVal}
    (h : setThresholds v n nest = .ok r) (hn : 1 ≤ n) : setThresholds r n nest = .ok r := by
  cases nest
  · exact flat_norm_fixed (flat_result_norm h) hn
  · exact nested_norm_fixed (nested_result_norm h) hn

/-! ## rejection of malformed specifications -/

/-- flat: accepted exactly for the well-formed specifications -/
theorem setThresholds_accepts_iff_flat (v : PyVal) (n : Nat) :
    (∃ r, setThresholds v n false = .ok r) ↔ FlatOK v n := accepts_iff_flatOK v n

/-- nested: accepted exactly for the well-formed specifications (with at least one label) -/
theorem setThresholds_accepts_iff_nested (v : PyVal) (n : Nat) :
    (∃ r, setThresholds v n true = .ok r) ↔ NestedOK v n := accepts_iff_nestedOK v n

/-- the only error kinds: `ThresholdError`, and `TypeError` exactly for `None` and for objects
without a length (`len(None)`, `len(Decimal(1))`) -/
theorem rejects_only_errors (v : PyVal) (n : Nat) (nest : Bool) :
    (∃ r, setThresholds v n nest = .ok r) ∨ setThresholds v n nest = thresholdError ∨
      ((v = .none ∨ ∃ t, v = .other t) ∧ setThresholds v n nest = typeError) := by
  cases v with
  | none => exact Or.inr (Or.inr ⟨Or.inl rfl, setThresholds_none n nest⟩)
  | other t => exact Or.inr (Or.inr ⟨Or.inr ⟨t, rfl⟩, setThresholds_opaque t n nest⟩)
  | str s => exact Or.inr (Or.inl (setThresholds_str s n nest))
  | list xs => rcases setThresholds_list_cases xs n nest with h | h
               · exact Or.inl h
               · exact Or.inr (Or.inl h)
  | num q =>
    cases nest
    · exact Or.inl ⟨_, setThresholds_scalar_flat (by simp [isReal]) n⟩
    · rw [setThresholds_scalar_nested (by simp [isReal]) n]
      by_cases hn : n = 0
      · rw [if_pos hn]; exact Or.inr (Or.inl rfl)
      · rw [if_neg hn]; exact Or.inl ⟨_, rfl⟩
  | bool b =>
    cases nest
    · exact Or.inl ⟨_, setThresholds_scalar_flat (by simp [isReal]) n⟩
    · rw [setThresholds_scalar_nested (by simp [isReal]) n]
      by_cases hn : n = 0
      · rw [if_pos hn]; exact Or.inr (Or.inl rfl)
      · rw [if_neg hn]; exact Or.inl ⟨_, rfl⟩

/-- `None` and strings are rejected -/
theorem rejects_none_str (n : Nat) (nest : Bool) :
    setThresholds .none n nest = typeError ∧ ∀ s, setThresholds (.str s) n nest = thresholdError :=
  ⟨setThresholds_none n nest, fun s => setThresholds_str s n nest⟩

/-- empty lists are rejected: the empty specification, and any empty row -/
theorem rejects_empty (n : Nat) (nest : Bool) :
    setThresholds (.list []) n nest = thresholdError ∧
    ∀ xs, .list [] ∈ xs → setThresholds (.list xs) n true = thresholdError := by
  constructor
  · rcases setThresholds_list_cases [] n nest with ⟨r, h⟩ | h
    · cases nest
      · rcases (accepts_iff_flatOK _ n).mp ⟨r, h⟩ with hv | ⟨xs, e, h0, _⟩
        · simp [isReal] at hv
        · cases e; exact absurd rfl h0
      · rcases (accepts_iff_nestedOK _ n).mp ⟨r, h⟩ with ⟨_, hv | ⟨xs, e, h0, _⟩⟩
        · simp [isReal] at hv
        · cases e; exact absurd rfl h0
    · exact h
  · intro xs hmem
    rcases setThresholds_list_cases xs n true with ⟨r, h⟩ | h
    · exfalso
      rcases (accepts_iff_nestedOK _ n).mp ⟨r, h⟩ with ⟨hn, hv | ⟨ys, e, h0, h1 | h1⟩⟩
      · simp [isReal] at hv
      · cases e; have := h1 _ hmem; simp [isReal] at this
      · cases e
        obtain ⟨zs, e', hl, _⟩ := h1 _ hmem
        cases e'; simp at hl; omega
    · exact h

/-- flat: a list whose length is neither 1 nor `n` is rejected (no padding, no truncation) -/
theorem rejects_wrong_length_flat (xs : List PyVal) (n : Nat)
    (h1 : xs.length ≠ 1) (hn : xs.length ≠ n) : setThresholds (.list xs) n false = thresholdError := by
  rcases setThresholds_list_cases xs n false with ⟨r, h⟩ | h
  · exfalso
    rcases (accepts_iff_flatOK _ n).mp ⟨r, h⟩ with hv | ⟨ys, e, _, _, hl⟩
    · simp [isReal] at hv
    · cases e; omega
  · exact h

/-- nested: a row whose length is neither 1 nor `n` is rejected -/
theorem rejects_wrong_length_nested (xs ys : List PyVal) (n : Nat) (hmem : .list ys ∈ xs)
    (h1 : ys.length ≠ 1) (hn : ys.length ≠ n) : setThresholds (.list xs) n true = thresholdError := by
  rcases setThresholds_list_cases xs n true with ⟨r, h⟩ | h
  · exfalso
    rcases (accepts_iff_nestedOK _ n).mp ⟨r, h⟩ with ⟨_, hv | ⟨zs, e, _, hr | hr⟩⟩
    · simp [isReal] at hv
    · cases e; have := hr _ hmem; simp [isReal] at this
    · cases e
      obtain ⟨ws, e', hl, _⟩ := hr _ hmem
      cases e'; omega
  · exact h

/-- mixed nesting (a list next to a non-list) is rejected in both modes -/
theorem rejects_mixed_nesting (xs : List PyVal) (x y : PyVal) (n : Nat) (nest : Bool)
    (hx : x ∈ xs) (hy : y ∈ xs) (hxl : isList x = true) (hyl : isList y = false) :
    setThresholds (.list xs) n nest = thresholdError := by
  have hxr : isReal x = false := by cases x <;> simp_all [isList, isReal]
  rcases setThresholds_list_cases xs n nest with ⟨r, h⟩ | h
  · exfalso
    cases nest
    · rcases (accepts_iff_flatOK _ n).mp ⟨r, h⟩ with hv | ⟨zs, e, _, hr, _⟩
      · simp [isReal] at hv
      · cases e; rw [hr x hx] at hxr; cases hxr
    · rcases (accepts_iff_nestedOK _ n).mp ⟨r, h⟩ with ⟨_, hv | ⟨zs, e, _, hr | hr⟩⟩
      · simp [isReal] at hv
      · cases e; rw [hr x hx] at hxr; cases hxr
      · cases e
        obtain ⟨ws, e', _⟩ := hr y hy
        subst e'; simp [isList] at hyl
  · exact h

/-- flat: a nested list is rejected -/
theorem rejects_nested_in_flat (xs : List PyVal) (x : PyVal) (n : Nat)
    (hx : x ∈ xs) (hxl : isList x = true) : setThresholds (.list xs) n false = thresholdError := by
  have hxr : isReal x = false := by cases x <;> simp_all [isList, isReal]
  rcases setThresholds_list_cases xs n false with ⟨r, h⟩ | h
  · exfalso
    rcases (accepts_iff_flatOK _ n).mp ⟨r, h⟩ with hv | ⟨zs, e, _, hr, _⟩
    · simp [isReal] at hv
    · cases e; rw [hr x hx] at hxr; cases hxr
  · exact h

/-- nested: nesting deeper than two levels is rejected -/
theorem rejects_too_deep (xs ys : List PyVal) (z : PyVal) (n : Nat)
    (hmem : .list ys ∈ xs) (hz : z ∈ ys) (hzl : isList z = true) :
    setThresholds (.list xs) n true = thresholdError := by
  have hzr : isReal z = false := by cases z <;> simp_all [isList, isReal]
  rcases setThresholds_list_cases xs n true with ⟨r, h⟩ | h
  · exfalso
    rcases (accepts_iff_nestedOK _ n).mp ⟨r, h⟩ with ⟨_, hv | ⟨zs, e, _, hr | hr⟩⟩
    · simp [isReal] at hv
    · cases e; have := hr _ hmem; simp [isReal] at this
    · cases e
      obtain ⟨ws, e', _, hreal⟩ := hr _ hmem
      cases e'; rw [hreal z hz] at hzr; cases hzr
  · exact h

/-- flat: a non-numeric entry (str, None, list) is rejected -/
theorem rejects_non_numeric_flat (xs : List PyVal) (x : PyVal) (n : Nat)
    (hx : x ∈ xs) (hxr : isReal x = false) : setThresholds (.list xs) n false = thresholdError := by
  rcases setThresholds_list_cases xs n false with ⟨r, h⟩ | h
  · exfalso
    rcases (accepts_iff_flatOK _ n).mp ⟨r, h⟩ with hv | ⟨zs, e, _, hr, _⟩
    · simp [isReal] at hv
    · cases e; rw [hr x hx] at hxr; cases hxr
  · exact h

/-- nested: a non-numeric leaf — at the top level or inside a row — is rejected -/
theorem rejects_non_numeric_nested (xs : List PyVal) (n : Nat)
    (h : (∃ x ∈ xs, isReal x = false ∧ isList x = false) ∨
         (∃ ys y, .list ys ∈ xs ∧ y ∈ ys ∧ isReal y = false)) :
    setThresholds (.list xs) n true = thresholdError := by
  rcases setThresholds_list_cases xs n true with ⟨r, hacc⟩ | hrej
  · exfalso
    rcases (accepts_iff_nestedOK _ n).mp ⟨r, hacc⟩ with ⟨_, hv | ⟨zs, e, _, hr | hr⟩⟩
    · simp [isReal] at hv
    · cases e
      rcases h with ⟨x, hx, hxr, _⟩ | ⟨ys, y, hmem, _, _⟩
      · rw [hr x hx] at hxr; cases hxr
      · have := hr _ hmem; simp [isReal] at this
    · cases e
      rcases h with ⟨x, hx, _, hxl⟩ | ⟨ys, y, hmem, hy, hyr⟩
      · obtain ⟨ws, e', _⟩ := hr x hx
        subst e'; simp [isList] at hxl
      · obtain ⟨ws, e', _, hreal⟩ := hr _ hmem
        cases e'; rw [hreal y hy] at hyr; cases hyr
  · exact hrej

/-! ## the statements under the names of the design document (conjunctions of the above) -/

/-- shape: an accepted flat result has exactly `n` entries; an accepted nested result is a non-empty
list of rows of exactly `n` entries -/
theorem setThresholds_shape {v : PyVal} {n : Nat} {nest : Bool} {r : PyVal}
    (h : setThresholds v n nest = .ok r) :
    (nest = false → ∃ xs, r = .list xs ∧ xs.length = n) ∧
    (nest = true → ∃ rows, r = .list rows ∧ rows ≠ [] ∧ ∀ row ∈ rows, ∃ ys, row = .list ys ∧ ys.length = n) := by
  constructor
  · intro hn; subst hn; exact setThresholds_shape_flat h
  · intro hn; subst hn; exact (setThresholds_shape_nested h).2

/-- each output row is an input row unchanged or the broadcast of a scalar / singleton -/
theorem no_pad_no_truncate {v : PyVal} {n : Nat} {nest : Bool} {r : PyVal}
    (h : setThresholds v n nest = .ok r) :
    (nest = false →
      r = v ∨ ∃ x, isReal x = true ∧ (v = x ∨ v = .list [x]) ∧ r = .list (List.replicate n x)) ∧
    (nest = true →
      (isReal v = true ∧ r = .list [.list (List.replicate n v)]) ∨
      (∃ xs, v = .list xs ∧ (∀ x ∈ xs, isReal x = true) ∧
          ((xs.length = n ∧ r = .list [v]) ∨ r = .list (xs.map fun x => .list (List.replicate n x)))) ∨
      (∃ xs rows, v = .list xs ∧ r = .list rows ∧ RowsOf n xs rows)) := by
  constructor
  · intro hn; subst hn; exact no_pad_no_truncate_flat h
  · intro hn; subst hn; exact no_pad_no_truncate_nested h

/-- every specification that is not well-formed (wrong lengths, empty lists, mixed nesting, non-numeric
leaves, `None`, strings, too deep) is rejected with an error -/
theorem rejects_malformed (v : PyVal) (n : Nat) :
    (¬ FlatOK v n → ∃ e, setThresholds v n false = .error e) ∧
    (¬ NestedOK v n → ∃ e, setThresholds v n true = .error e) := by
  constructor
  · intro hbad
    rcases rejects_only_errors v n false with hacc | hrej | ⟨_, hrej⟩
    · exact absurd ((setThresholds_accepts_iff_flat v n).mp hacc) hbad
    · exact ⟨_, hrej⟩
    · exact ⟨_, hrej⟩
  · intro hbad
    rcases rejects_only_errors v n true with hacc | hrej | ⟨_, hrej⟩
    · exact absurd ((setThresholds_accepts_iff_nested v n).mp hacc) hbad
    · exact ⟨_, hrej⟩
    · exact ⟨_, hrej⟩

/-! ## the checks used by the configuration classes -/

/-- `check_thresholds` (called directly by the frame configs) accepts only a flat normal form and
returns it unchanged (for at least one target label) -/
theorem checkThresholds_sound {v : PyVal} {n : Nat} {r : PyVal} (h : checkThresholds v n = .ok r)
    (hn : 1 ≤ n) : r = v ∧ IsFlatNorm n v := checkThresholds_ok h hn

/-- `check_nested_thresholds` accepts only a list of flat normal forms (or the empty string, which has
nothing to iterate over) and returns it unchanged -/
theorem checkNestedThresholds_sound {v : PyVal} {n : Nat} {r : PyVal}
    (h : checkNestedThresholds v n = .ok r) :
    r = v ∧ (v = .str "" ∨ ∃ rows, v = .list rows ∧ ∀ row ∈ rows, IsFlatNorm n row) := by
  cases v with
  | str s =>
    unfold checkNestedThresholds at h
    by_cases hs : (s.length != 0) = true
    · simp [hs, thresholdError] at h
    · simp only [hs, if_false, Bool.false_eq_true] at h
      have : s = "" := by
        have : s.length = 0 := by simpa using hs
        exact String.length_eq_zero_iff.mp this
      subst this
      exact ⟨by cases h; rfl, Or.inl rfl⟩
  | list rows =>
    rw [checkNested_eq] at h
    by_cases hall : rows.all (normedRow n) = true
    · rw [if_pos hall] at h
      refine ⟨by cases h; rfl, Or.inr ⟨rows, rfl, ?_⟩⟩
      intro row hrow
      have hr := List.all_eq_true.mp hall row hrow
      simp only [normedRow, Bool.and_eq_true] at hr
      obtain ⟨⟨hl, hlen⟩, hre⟩ := hr
      cases row with
      | list ys =>
        refine ⟨ys, rfl, ?_, ?_⟩
        · simp [lenOf] at hlen; exact hlen.2
        · intro y hy; exact List.all_eq_true.mp (by simpa [itemsOf] using hre) y hy
      | _ => simp [isList] at hl
    · rw [if_neg hall] at h; cases h
  | _ => simp [checkNestedThresholds, typeError] at h

/-- entries that are not real numbers — strings (also numeric-looking ones such as `"0.5"`), `None`,
nested lists, and every other kind of object (`bytes`, `Decimal`, `complex`, arrays …) — are never `Real` -/
theorem non_numbers_not_real :
    (∀ s, isReal (.str s) = false) ∧ isReal .none = false ∧ (∀ xs, isReal (.list xs) = false) ∧
    (∀ t, isReal (.other t) = false) := ⟨fun _ => rfl, rfl, fun _ => rfl, fun _ => rfl⟩

/-- the direct checks reject every list that holds an entry that is not a real number, with
`ThresholdError`, whatever the shape -/
theorem check_rejects_non_numeric (xs : List PyVal) (x : PyVal) (n : Nat) (hx : x ∈ xs) (hxr : isReal x = false) :
    checkThresholds (.list xs) n = thresholdError ∧
    ∀ rows, .list xs ∈ rows → checkNestedThresholds (.list rows) n = thresholdError := by
  constructor
  · have : xs.any (fun t => !isReal t) = true := List.any_eq_true.mpr ⟨x, hx, by simp [hxr]⟩
    simp [checkThresholds, this]
  · intro rows hrow
    rw [checkNested_eq]
    have : rows.all (normedRow n) = false := by
      apply List.all_eq_false.mpr
      refine ⟨.list xs, hrow, ?_⟩
      have : xs.all isReal = false := List.all_eq_false.mpr ⟨x, hx, by simp [hxr]⟩
      simp [normedRow, itemsOf, this]
    simp [this]

/-- an object without a length is rejected by every entry point (as a specification: `TypeError`) -/
theorem rejects_other (t : String) (n : Nat) :
    (∀ nest, setThresholds (.other t) n nest = typeError) ∧ checkThresholds (.other t) n = typeError ∧
    checkNestedThresholds (.other t) n = typeError :=
  ⟨fun nest => setThresholds_opaque t n nest, rfl, rfl⟩

/-- an optional per-label filter parameter is `None` exactly when it is not given, else a flat normal form -/
theorem optFlat_sound {v : PyVal} {n : Nat} {r : PyVal} (h : optFlat v n = .ok r) :
    (v = .none ∧ r = .none) ∨ (given v = true ∧ IsFlatNorm n r) := optFlat_ok h

/-- a metric threshold list is empty (parameter missing or falsy) or a nested normal form -/
theorem optNested_sound {v : PyVal} {n : Nat} {r : PyVal} (h : optNested v n = .ok r) :
    r = .list [] ∨ IsNestedNorm n r := optNested_ok h

/-! ## accepted configurations -/

/-- An accepted `PerceptionEvaluationConfig`: the task is one of the supported tasks (and is the string
given under `evaluation_task`; never `prediction`, whose metrics config is not implemented); for a 3-D
task exactly one complete kind of range bound is given and there is exactly one frame id; the mandatory
parameters are present (`label_prefix`; `min_point_numbers` for detection); the keys handed to the
metrics config are parameters of it; every per-label filter list is `None` or holds exactly `nLabels`
numbers; every metric list is empty or a non-empty list of rows of exactly `nLabels` numbers.

The clause of the property text "no unknown metric parameter is supplied" does NOT hold of the code
(finding F8) and is therefore absent here; `config_ignores_unread_key` states the exact deviation. -/
theorem config_accept_sound {d : Dict} {frames : List String} {a : Accepted}
    (h : perceptionConfig d frames = .ok a) :
    a.task ∈ Gen.perceptionSupportTasks ∧ d.lookup "evaluation_task" = some (.str a.task) ∧
    a.task ≠ "prediction" ∧
    (is3d a.task = true → OneRangeKind d) ∧
    (is3d a.task = true → frames.length = 1) ∧
    (d.lookup "label_prefix").isSome = true ∧
    (a.task = "detection" → given (get d "min_point_numbers") = true) ∧
    (∀ valid, metricParamNames a.task = some valid → ∀ k ∈ metricParamKeys, k ∈ valid) ∧
    (∀ k ∈ perLabelFilterKeys, ∃ v, a.filtering.lookup k = some v ∧ (v = .none ∨ IsFlatNorm a.nLabels v)) ∧
    (∀ m, a.metrics = some m →
        m.map (·.1) = metricThresholdKeys ∧ ∀ kv ∈ m, kv.2 = .list [] ∨ IsNestedNorm a.nLabels kv.2) := by
  unfold perceptionConfig at h
  split at h
  · cases h
  · rename_i task htask
    split at h
    · cases h
    · split at h
      · cases h
      · rename_i pre hpre
        split at h
        · cases h
        · rename_i nAll hnAll
          split at h
          · cases h
          · rename_i n f m hex
            split at h
            · cases h
            · rename_i hfr
              split at h
              · cases h
              · rename_i hcnt
                split at h
                · cases h
                · rename_i mc hmc
                  cases h
                  obtain ⟨ht1, ht2⟩ := checkTasks_ok htask
                  have E := extractParams_ok hex
                  obtain ⟨m1, m2, m3⟩ := metricsScoreConfig_ok hmc
                  refine ⟨ht2, ht1, m1, ?_, ?_, by simp [hpre], E.minPts, ?_, E.perLabel, m3⟩
                  · intro h3
                    obtain ⟨xl, yl, dl, ml, R, _⟩ := E.range
                    rcases R.kinds with ⟨a1, a2, a3, a4, _⟩ | ⟨a1, a2, a3, a4, _⟩ | ⟨a1, _⟩
                    · exact Or.inl ⟨a1, a2, a3, a4⟩
                    · exact Or.inr ⟨a1, a2, a3, a4⟩
                    · simp only at h3; rw [h3] at a1; cases a1
                  · intro h3
                    simp only at h3
                    simp only [h3, Bool.true_and, bne_iff_ne, ne_eq, Decidable.not_not] at hcnt
                    exact hcnt
                  · intro valid hv k hk
                    have := m2 valid hv
                    rw [E.metrics] at this
                    exact this k (by simpa [metricParamKeys, metricThresholdKeys] using hk)


/-- Finding F8, characterised exactly: a key the configuration does not read (e.g. `foo_thresholds`) has
no influence whatsoever — it is neither rejected nor does it change any exposed parameter. -/
theorem config_ignores_unread_key (d : Dict) (frames : List String) (k : String) (v : PyVal)
    (hk : k ∉ readKeys) : perceptionConfig ((k, v) :: d) frames = perceptionConfig d frames := by
  apply perceptionConfig_congr
  intro k' hk'
  have hne : (k' == k) = false := by
    simp only [beq_eq_false_iff_ne, ne_eq]
    intro e; exact hk (e ▸ hk')
  simp [List.lookup, hne]


theorem critical_accept_sound {is2d : Bool} {nAll : Nat} {args : Dict} {n : Nat} {f : Dict}
    (h : criticalFilterConfig is2d nAll args = .ok (n, f)) (hAll : 1 ≤ nAll) :
    1 ≤ n ∧
    (∀ kv ∈ f, kv.2 = .none ∨ (kv.2 = get args kv.1 ∧ IsFlatNorm n kv.2)) ∧
    (is2d = false →
      (∃ xl yl, f.lookup "max_x_position_list" = some xl ∧ f.lookup "max_y_position_list" = some yl ∧
         IsFlatNorm n xl ∧ IsFlatNorm n yl) ∨
      (∃ dl ml, f.lookup "max_distance_list" = some dl ∧ f.lookup "min_distance_list" = some ml ∧
         IsFlatNorm n dl ∧ IsFlatNorm n ml)) := by
  unfold criticalFilterConfig at h
  split at h
  · cases h
  · rename_i n' hn'
    simp only at h
    split at h
    · cases h
    · rename_i xl yl dl ml hr
      split at h
      · cases h
      · rename_i minPts hmp
        split at h
        · cases h
        · rename_i conf hconf
          cases h
          have hn : 1 ≤ n := targetLabelCount_pos hn' hAll
          have R := criticalRange_ok hn hr
          obtain ⟨p1, p2⟩ := optCheck_ok hmp hn
          obtain ⟨c1, c2⟩ := optCheck_ok hconf hn
          refine ⟨hn, ?_, ?_⟩
          · intro kv hkv
            simp only [List.mem_cons, List.not_mem_nil, or_false] at hkv
            rcases R with ⟨a, b, c, e, g, i⟩ | ⟨a, b, c, e, g, i⟩ | ⟨_, a, b, c, e⟩
            · rcases hkv with rfl | rfl | rfl | rfl | rfl | rfl
              · exact Or.inr ⟨a, c⟩
              · exact Or.inr ⟨b, e⟩
              · exact Or.inl g
              · exact Or.inl i
              · rcases p2 with p2 | p2
                · left; simp only; rw [p1, p2]
                · right; exact ⟨p1, by simp only; rw [p1]; exact p2⟩
              · rcases c2 with c2 | c2
                · left; simp only; rw [c1, c2]
                · right; exact ⟨c1, by simp only; rw [c1]; exact c2⟩
            · rcases hkv with rfl | rfl | rfl | rfl | rfl | rfl
              · exact Or.inl a
              · exact Or.inl b
              · exact Or.inr ⟨c, g⟩
              · exact Or.inr ⟨e, i⟩
              · rcases p2 with p2 | p2
                · left; simp only; rw [p1, p2]
                · right; exact ⟨p1, by simp only; rw [p1]; exact p2⟩
              · rcases c2 with c2 | c2
                · left; simp only; rw [c1, c2]
                · right; exact ⟨c1, by simp only; rw [c1]; exact c2⟩
            · rcases hkv with rfl | rfl | rfl | rfl | rfl | rfl
              · exact Or.inl a
              · exact Or.inl b
              · exact Or.inl c
              · exact Or.inl e
              · rcases p2 with p2 | p2
                · left; simp only; rw [p1, p2]
                · right; exact ⟨p1, by simp only; rw [p1]; exact p2⟩
              · rcases c2 with c2 | c2
                · left; simp only; rw [c1, c2]
                · right; exact ⟨c1, by simp only; rw [c1]; exact c2⟩
          · intro h2
            rcases R with ⟨_, _, c, e, _, _⟩ | ⟨_, _, _, _, g, i⟩ | ⟨a, _⟩
            · exact Or.inl ⟨xl, yl, by simp [List.lookup], by simp [List.lookup], c, e⟩
            · exact Or.inr ⟨dl, ml, by simp [List.lookup], by simp [List.lookup], g, i⟩
            · rw [h2] at a; cases a

theorem passfail_accept_sound {nAll : Nat} {args : Dict} {n : Nat} {f : Dict}
    (h : passFailConfig nAll args = .ok (n, f)) (hAll : 1 ≤ nAll) :
    1 ≤ n ∧ ∀ kv ∈ f, kv.2 = .none ∨ (kv.2 = get args kv.1 ∧ IsFlatNorm n kv.2) := by
  unfold passFailConfig at h
  split at h
  · cases h
  · rename_i n' hn'
    split at h
    · cases h
    · rename_i mt hmt
      split at h
      · cases h
      · rename_i conf hconf
        cases h
        have hn : 1 ≤ n := targetLabelCount_pos hn' hAll
        obtain ⟨p1, p2⟩ := optCheck_ok hmt hn
        obtain ⟨c1, c2⟩ := optCheck_ok hconf hn
        refine ⟨hn, ?_⟩
        intro kv hkv
        simp only [List.mem_cons, List.not_mem_nil, or_false] at hkv
        rcases hkv with rfl | rfl
        · rcases p2 with p2 | p2
          · left; simp only; rw [p1, p2]
          · right; exact ⟨p1, by simp only; rw [p1]; exact p2⟩
        · rcases c2 with c2 | c2
          · left; simp only; rw [c1, c2]
          · right; exact ⟨c1, by simp only; rw [c1]; exact c2⟩

theorem sensing_accept_sound {d : Dict} {frames : List String} {a : Accepted}
    (h : sensingConfig d frames = .ok a) :
    a.task ∈ Gen.sensingSupportTasks ∧ d.lookup "evaluation_task" = some (.str a.task) ∧
    (is3d a.task = true → frames.length = 1) := by
  unfold sensingConfig at h
  split at h
  · cases h
  · rename_i task htask
    split at h
    · cases h
    · split at h
      · cases h
      · split at h
        · cases h
        · rename_i hcnt
          cases h
          obtain ⟨ht1, ht2⟩ := checkTasks_ok htask
          refine ⟨ht2, ht1, ?_⟩
          intro h3
          simp only at h3
          simp only [h3, Bool.true_and, bne_iff_ne, ne_eq, Decidable.not_not] at hcnt
          exact hcnt

/-- the regenerated support lists: every task the perception config supports is an `EvaluationTask`
value other than `sensing`; the sensing config supports exactly `sensing` -/
theorem support_tasks_wellformed :
    (∀ t ∈ Gen.perceptionSupportTasks, t ∈ Gen.evaluationTask.map (·.2) ∧ t ≠ "sensing") ∧
    Gen.sensingSupportTasks = ["sensing"] := by decide

/-- the keys `_extract_params` hands to `MetricsScoreConfig` are parameters of every metrics config
class (re-checked against the regenerated signatures): `_check_parameters` can never fire -/
theorem metric_param_keys_valid :
    ∀ valid ∈ [Gen.detectionMetricsParams, Gen.trackingMetricsParams, Gen.predictionMetricsParams,
               Gen.classificationMetricsParams],
      checkParameters valid metricParamKeys = .ok () := by decide

theorem checkParameters_sound (valid keys : List String) :
    checkParameters valid keys = .ok () ↔ ∀ k ∈ keys, k ∈ valid := checkParameters_iff valid keys


/-! ## the hypotheses are satisfiable: concrete instances -/

example : setThresholds (.num 2) 3 false = .ok (.list [.num 2, .num 2, .num 2]) := by decide +kernel
example : setThresholds (.list [.num 1, .bool true]) 3 true =
    .ok (.list [.list [.num 1, .num 1, .num 1], .list [.bool true, .bool true, .bool true]]) := by
  decide +kernel
example : setThresholds (.list [.list [.num 1], .list [.num 2, .num 3]]) 2 true =
    .ok (.list [.list [.num 1, .num 1], .list [.num 2, .num 3]]) := by decide +kernel
example : setThresholds (.list [.list [.num 1, .num 2, .num 3]]) 2 true = thresholdError := by decide +kernel
example : setThresholds (.list [.list [.str "a", .str "b"]]) 2 true = thresholdError := by decide +kernel
example : setThresholds (.list [.num 1, .list [.num 2]]) 2 true = thresholdError := by decide +kernel
example : setThresholds (.list [.list [.str "0.5", .num 1]]) 2 true = thresholdError := by decide +kernel
example : setThresholds (.list [.list [.num 1, .num 2], .list [.other "bytes:b'2'"]]) 2 true = thresholdError := by
  decide +kernel
example : setThresholds (.list [.other "Decimal:1", .num 1]) 2 false = thresholdError := by decide +kernel
example : checkNestedThresholds (.list [.list [.num 1, .num 2]]) 2 = .ok (.list [.list [.num 1, .num 2]]) := by
  decide +kernel
example : checkNestedThresholds (.list [.list [.num 1, .str "2"]]) 2 = thresholdError := by decide +kernel
example : NestedOK (.list [.list [.num 1], .list [.num 2, .num 3]]) 2 :=
  (setThresholds_accepts_iff_nested _ _).mp
    ⟨.list [.list [.num 1, .num 1], .list [.num 2, .num 3]], by decide +kernel⟩


example : "foo_thresholds" ∉ readKeys := by decide
example : "iou_bev_thresholds" ∉ readKeys := by decide

/-- a concrete accepted detection configuration (2 labels, x/y range) -/
def exampleConfig : Dict :=
  [("evaluation_task", .str "detection"), ("target_labels", .list [.str "car", .str "bicycle"]),
   ("max_x_position", .num 100), ("max_y_position", .list [.num 50]),
   ("min_point_numbers", .list [.num 0, .num 0]), ("label_prefix", .str "autoware"),
   ("center_distance_thresholds", .list [.num 1, .num 2, .num 3]), ("iou_3d_thresholds", .num (1/2))]

example : (perceptionConfig exampleConfig ["base_link"]).toOption.map
      (fun a => (a.nLabels, a.filtering.lookup "max_y_position_list", a.metrics.map (·.lookup "iou_3d_thresholds"))) =
    some (2, some (.list [.num 50, .num 50]), some (some (.list [.list [.num (1/2), .num (1/2)]]))) := by
  decide +kernel
example : perceptionConfig (("max_distance", .num 10) :: exampleConfig) ["base_link"] = .error "RuntimeError" := by
  decide +kernel
example : perceptionConfig (exampleConfig.filter (·.1 != "min_point_numbers")) ["base_link"] =
    .error "RuntimeError" := by decide +kernel

/-! ## tie to the source: tables regenerated from the code's AST / enums on every run -/

/-- the model's `is3d` agrees with `EvaluationTask.is_3d()` of the current tree, for every task value -/
theorem is3d_agrees_with_source : ∀ p ∈ Gen.taskValueIs3d, is3d p.1 = (p.2 == "true") := by decide +kernel

/-- keys the real configuration reads but that cannot influence any modelled output (label merging is
C14's subject; the other two only select counting/legacy-policy behaviour) -/
def readWithoutEffect : List String := ["allow_matching_unknown", "merge_similar_labels", "count_label_number"]

/-- the set of dictionary keys the model reads is the set of keys the code reads (taken from the AST of
`_check_tasks`, `_extract_label_params`, `_extract_params` on every run), up to `readWithoutEffect`:
a change that makes the code consult another key (or stop consulting one) breaks this theorem -/
theorem readKeys_match_source :
    (∀ k ∈ Gen.perceptionConfigReadKeys, k ∈ readKeys ∨ k ∈ readWithoutEffect) ∧
    (∀ k ∈ readKeys, k ∈ Gen.perceptionConfigReadKeys) := by decide +kernel

/-! ## audit round 2

### `nLabels` is the number of target labels OF THE CONFIGURATION

`configTargetLabels d` is the model of `PerceptionEvaluationConfig(..).target_labels`: the `target_labels` entry of
the dictionary converted by the configuration's own label converter (`label_prefix`, `merge_similar_labels`, task),
through the converter model of C14 (`PEval.Label.setTargetLists` / `convertName`). -/

/-- the count an accepted configuration works with is the length of ITS converted target-label list; that list is
not empty -/
theorem config_nLabels_is_target_count {d : Dict} {frames : List String} {a : Accepted}
    (h : perceptionConfig d frames = .ok a) :
    ∃ L, configTargetLabels d = .ok L ∧ a.nLabels = L.length ∧ L ≠ [] := by
  obtain ⟨t, fam, L, _, _, hL, hc, hn⟩ := perceptionConfig_targets h
  refine ⟨L, hc, hn, ?_⟩
  intro e
  subst e
  -- an accepted configuration has at least one label: the label enums are not empty
  obtain ⟨_, _, _, _, _, _, _, _, hper, _⟩ := config_accept_sound h
  obtain ⟨v, _, hv⟩ := hper "max_x_position_list" (by simp [perLabelFilterKeys])
  -- direct argument on the list model
  have hpos : 1 ≤ (Label.familyMembers fam).length := by
    unfold Label.familyMembers; split <;> decide
  have hcl := targetLabelCount_eq_length (get d "target_labels") t fam
  rw [hL] at hcl
  have := targetLabelCount_pos hcl hpos
  simp at this

/-- what the target-label list of a configuration is, in closed form: every member of the label family of
`label_prefix` (in definition order) when `target_labels` is absent / `None` / empty; otherwise the entries converted
one by one by `convert_name` of the configuration's converter — by `C14.targets_same_mapping` the label an OBJECT
with that name receives -/
theorem config_targets_closed_form {d : Dict} {L : List String} (h : configTargetLabels d = .ok L) :
    ∃ task t fam, checkTasks Gen.perceptionSupportTasks d = .ok task ∧ converterOf task d = .ok (t, fam) ∧
      ((get d "target_labels" = .none ∨ get d "target_labels" = .list [] ∨ get d "target_labels" = .str "") →
        L = Label.familyMembers fam) ∧
      (∀ xs, get d "target_labels" = .list xs → xs ≠ [] →
        (∀ x ∈ xs, isStr x = true) ∧ L = xs.map (fun x => Label.convertName t (strOf x))) := by
  unfold configTargetLabels at h
  split at h
  · cases h
  · rename_i task htask
    split at h
    · cases h
    · split at h
      · cases h
      · rename_i t fam hconv
        refine ⟨task, t, fam, htask, hconv, ?_, ?_⟩
        · rintro (e | e | e) <;> rw [e] at h <;> simp [targetLabelList, Label.setTargetLists] at h <;> exact h.symm
        · intro xs e hne
          rw [e] at h
          unfold targetLabelList at h
          have h0 : (xs.length == 0) = false := by
            cases xs with
            | nil => exact absurd rfl hne
            | cons _ _ => rfl
          simp only [h0, Bool.false_eq_true, if_false] at h
          by_cases ha : xs.all isStr = true
          · simp only [ha, if_true] at h
            refine ⟨fun x hx => List.all_eq_true.mp ha x hx, ?_⟩
            cases xs with
            | nil => exact absurd rfl hne
            | cons x xs =>
              simp only [Label.setTargetLists, Except.ok.injEq] at h
              rw [← h]; simp [List.map_map, Function.comp_def]
          · simp [ha] at h

/-- **accepted configurations, restated with the configuration's own target labels.**  `L` is the converted
target-label list of `d`.  Every per-label filter list has exactly `L.length` numbers — and is `None` exactly when its
parameter is not given (`max_matchable_radii`, `min_point_numbers`, `confidence_threshold`); the four range lists
follow the one range kind that is given (x/y given ⇒ the two position lists are normal forms of length `L.length` and
the distance lists are `None`, and vice versa; all `None` only for a 2-D task); every metric list is empty or a
non-empty list of rows of exactly `L.length` numbers.  (The "no unknown metric parameter" clause is absent: F8.) -/
theorem config_accept_sound_targets {d : Dict} {frames : List String} {a : Accepted}
    (h : perceptionConfig d frames = .ok a) :
    ∃ L, configTargetLabels d = .ok L ∧ L ≠ [] ∧ a.nLabels = L.length ∧
      (∀ k ∈ perLabelFilterKeys, ∃ v, a.filtering.lookup k = some v ∧ (v = .none ∨ IsFlatNorm L.length v)) ∧
      (∀ kk ∈ [("max_matchable_radii", "max_matchable_radii"), ("min_point_numbers", "min_point_numbers"),
                ("confidence_threshold_list", "confidence_threshold")],
        ∃ v, a.filtering.lookup kk.1 = some v ∧
          ((get d kk.2 = .none ∧ v = .none) ∨ (given (get d kk.2) = true ∧ IsFlatNorm L.length v))) ∧
      (∃ xl yl dl ml, RangeFacts a.task d L.length xl yl dl ml ∧
        a.filtering.lookup "max_x_position_list" = some xl ∧ a.filtering.lookup "max_y_position_list" = some yl ∧
        a.filtering.lookup "max_distance_list" = some dl ∧ a.filtering.lookup "min_distance_list" = some ml) ∧
      (∀ m, a.metrics = some m →
        m.map (·.1) = metricThresholdKeys ∧ ∀ kv ∈ m, kv.2 = .list [] ∨ IsNestedNorm L.length kv.2) := by
  obtain ⟨L, hL, hn, hne⟩ := config_nLabels_is_target_count h
  obtain ⟨_, _, _, _, _, _, _, _, hper, hmet⟩ := config_accept_sound h
  refine ⟨L, hL, hne, hn, by rw [← hn]; exact hper, ?_, ?_, by rw [← hn]; exact hmet⟩
  all_goals
    unfold perceptionConfig at h
    split at h
    · cases h
    · split at h
      · cases h
      · split at h
        · cases h
        · split at h
          · cases h
          · split at h
            · cases h
            · rename_i n f m hex
              split at h
              · cases h
              · split at h
                · cases h
                · split at h
                  · cases h
                  · cases h
                    simp only at hn
                    rw [← hn]
                    first
                      | exact (extractParams_ok hex).range
                      | (obtain ⟨_, _, ⟨v1, l1, o1⟩, ⟨v2, l2, o2⟩, ⟨v3, l3, o3⟩⟩ := extractParams_steps hex
                         intro kk hkk
                         simp only [List.mem_cons, List.not_mem_nil, or_false] at hkk
                         rcases hkk with rfl | rfl | rfl
                         · exact ⟨v1, l1, optFlat_ok o1⟩
                         · exact ⟨v2, l2, optFlat_ok o2⟩
                         · exact ⟨v3, l3, optFlat_ok o3⟩)

/-- clause 8 as the code implements it (finding F8, stated about the dictionary): whatever keys the user supplies,
the keys handed to the metrics configuration are the four fixed threshold names — which is why `_check_parameters`
can never reject a user-supplied key -/
theorem metrics_params_keys_fixed {task : String} {nAll : Nat} {d : Dict} {n : Nat} {f m : Dict}
    (h : extractParams task nAll d = .ok (n, f, m)) :
    m.map (·.1) = metricThresholdKeys ∧ ∀ k ∈ metricThresholdKeys, m.lookup k = some (get d k) := by
  have hm := (extractParams_ok h).metrics
  subst hm
  constructor
  · simp [metricThresholdKeys]
  · intro k hk
    simp only [metricThresholdKeys, List.mem_cons, List.not_mem_nil, or_false] at hk
    rcases hk with rfl | rfl | rfl | rfl <;> simp [metricThresholdKeys, List.lookup]

/-! ### error exits -/

/-- whatever makes the target-label list of the configuration fail — unsupported task, bad policy, missing or
unknown `label_prefix`, a `target_labels` value that is not a list of strings — makes the configuration fail with
that same exception -/
theorem config_rejects_bad_targets {d : Dict} (frames : List String) {e : Err}
    (h : configTargetLabels d = .error e) : perceptionConfig d frames = .error e :=
  perceptionConfig_error_of_targets frames h

/-- the error exits of `set_target_lists` on the `target_labels` value: `AttributeError` exactly for a non-empty list
with an entry that is not a string, `TypeError` exactly for a number / bool / other object; nothing else fails -/
theorem target_list_error_iff (v : PyVal) (t : Label.Table) (fam : String) :
    (targetLabelList v t fam = .error "AttributeError" ↔
      ∃ xs, v = .list xs ∧ xs ≠ [] ∧ ∃ x ∈ xs, isStr x = false) ∧
    (targetLabelList v t fam = .error "TypeError" ↔ ((∃ q, v = .num q) ∨ (∃ b, v = .bool b) ∨ ∃ s, v = .other s)) ∧
    (∀ e, targetLabelList v t fam = .error e → e = "AttributeError" ∨ e = "TypeError") :=
  targetLabelList_error_iff v t fam

/-- a bound of BOTH range kinds given (partly or completely): no configuration is accepted, for every task — 2-D
tasks included; and when the stages before the range block pass, the exception is `RuntimeError` -/
theorem config_rejects_both_range_kinds (d : Dict) (frames : List String)
    (hb : ((given (get d "max_x_position") || given (get d "max_y_position")) &&
           (given (get d "max_distance") || given (get d "min_distance"))) = true) :
    (∀ a, perceptionConfig d frames ≠ .ok a) ∧
    (∀ L, configTargetLabels d = .ok L → perceptionConfig d frames = .error "RuntimeError") := by
  have hnot : ∀ a, perceptionConfig d frames ≠ .ok a := by
    intro a h
    unfold perceptionConfig at h
    split at h
    · cases h
    · split at h
      · cases h
      · split at h
        · cases h
        · split at h
          · cases h
          · split at h
            · cases h
            · rename_i n f m hex
              obtain ⟨_, ⟨r, hr⟩, _⟩ := extractParams_steps hex
              rw [rangeParams_both_kinds _ d n hb] at hr
              cases hr
  refine ⟨hnot, ?_⟩
  intro L hL
  unfold configTargetLabels at hL
  unfold perceptionConfig
  cases hct : checkTasks Gen.perceptionSupportTasks d with
  | error e' => rw [hct] at hL; cases hL
  | ok task =>
    rw [hct] at hL
    simp only at hL ⊢
    cases hpol : matchingPolicy d with
    | error e' => rw [hpol] at hL; cases hL
    | ok u =>
      rw [hpol] at hL
      simp only at hL ⊢
      unfold converterOf at hL
      cases hpre : d.lookup "label_prefix" with
      | none => rw [hpre] at hL; cases hL
      | some pre =>
        rw [hpre] at hL
        simp only at hL ⊢
        cases pre with
        | str p =>
          simp only at hL
          have hsz := labelTypeSize_eq_tableFor p (mergeFlag d) ((Enums.setTask task).getD task)
          cases htf : Label.tableFor p (mergeFlag d) ((Enums.setTask task).getD task) with
          | error e' => rw [htf] at hL; cases hL
          | ok r =>
            rw [htf] at hsz hL
            simp only at hsz hL
            have hcl := targetLabelCount_eq_length (get d "target_labels") r.1 r.2
            rw [hL] at hcl
            simp only at hcl
            rw [hsz]
            simp only
            unfold extractParams
            rw [hcl]
            simp only
            rw [rangeParams_both_kinds _ d _ hb]
        | num q => cases hL
        | bool b => cases hL
        | none => cases hL
        | list xs => cases hL
        | other s => cases hL

/-- a 3-D task without a complete kind of range bound is never accepted -/
theorem config_rejects_incomplete_range_3d (d : Dict) (frames : List String)
    (hxy : (given (get d "max_x_position") && given (get d "max_y_position")) = false)
    (hd : (given (get d "max_distance") && given (get d "min_distance")) = false) :
    ∀ a, perceptionConfig d frames = .ok a → is3d a.task = false := by
  intro a h
  obtain ⟨_, _, _, h3, _⟩ := config_accept_sound h
  cases h3d : is3d a.task with
  | false => rfl
  | true =>
    rcases h3 h3d with ⟨a1, a2, _, _⟩ | ⟨_, _, a3, a4⟩
    · simp [a1, a2] at hxy
    · simp [a3, a4] at hd

/-! ### the frame configurations: the hypothesis `1 ≤ nAll` discharged, `n` tied to the target labels -/

/-- the regenerated label enums are not empty, so `labelTypeSize` never answers 0 -/
theorem label_enum_sizes_pos : 1 ≤ Gen.autowareLabel.length ∧ 1 ≤ Gen.trafficLightLabel.length ∧
    ∀ p n, labelTypeSize p = .ok n → 1 ≤ n := by
  refine ⟨by decide, by decide, ?_⟩
  intro p n h
  unfold labelTypeSize at h
  split at h
  · split at h
    · cases h; decide
    · split at h
      · cases h; decide
      · split at h <;> cases h
  · cases h

/-- `CriticalObjectFilterConfig` / `PerceptionPassFailConfig` of an evaluator whose converter is `(t, fam)`: the `n`
of `critical_accept_sound` / `passfail_accept_sound` is the length of the converted `target_labels` argument -/
theorem frame_config_n_is_target_count (t : Label.Table) (fam : String) (args : Dict) :
    (∀ is2d n f, criticalFilterConfig is2d (Label.familyMembers fam).length args = .ok (n, f) →
      ∃ L, targetLabelList (get args "target_labels") t fam = .ok L ∧ n = L.length ∧ L ≠ []) ∧
    (∀ n f, passFailConfig (Label.familyMembers fam).length args = .ok (n, f) →
      ∃ L, targetLabelList (get args "target_labels") t fam = .ok L ∧ n = L.length ∧ L ≠ []) := by
  have hpos : 1 ≤ (Label.familyMembers fam).length := by
    unfold Label.familyMembers; split <;> decide
  have key : ∀ n, targetLabelCount (get args "target_labels") (Label.familyMembers fam).length = .ok n →
      ∃ L, targetLabelList (get args "target_labels") t fam = .ok L ∧ n = L.length ∧ L ≠ [] := by
    intro n hn
    have hcl := targetLabelCount_eq_length (get args "target_labels") t fam
    rw [hn] at hcl
    cases hL : targetLabelList (get args "target_labels") t fam with
    | error e => rw [hL] at hcl; cases hcl
    | ok L =>
      rw [hL] at hcl
      simp only [Except.ok.injEq] at hcl
      refine ⟨L, rfl, hcl, ?_⟩
      intro e; subst e
      have := targetLabelCount_pos hn hpos
      simp [hcl] at this
  constructor
  · intro is2d n f h
    unfold criticalFilterConfig at h
    split at h
    · cases h
    · rename_i n' hn'
      simp only at h
      split at h
      · cases h
      · split at h
        · cases h
        · split at h
          · cases h
          · cases h; exact key _ hn'
  · intro n f h
    unfold passFailConfig at h
    split at h
    · cases h
    · rename_i n' hn'
      split at h
      · cases h
      · split at h
        · cases h
        · cases h; exact key _ hn'

/-! ### idempotence, for ALL numbers of labels -/

/-- the exact range of idempotence: an accepted result is a fixed point exactly when there is at least one target
label.  For `n = 0` the flat mode accepts a scalar (result `[]`) and then rejects its own result ("empty list is
invalid"); the nested mode accepts nothing for `n = 0`.  Configurations always have `n ≥ 1`
(`config_nLabels_is_target_count`). -/
theorem setThresholds_idem_iff {v : PyVal} {n : Nat} {nest : Bool} {r : PyVal}
    (h : setThresholds v n nest = .ok r) : setThresholds r n nest = .ok r ↔ 1 ≤ n := by
  constructor
  · intro h2
    cases nest
    · obtain ⟨xs, e, hl⟩ := setThresholds_shape_flat h
      subst e
      cases n with
      | zero =>
        have : xs = [] := List.length_eq_zero_iff.mp hl
        subst this
        simp [setThresholds, getThresholds, thresholdError] at h2
      | succ k => omega
    · exact (setThresholds_shape_nested h).1
  · exact setThresholds_idem h

example : setThresholds (.num 1) 0 false = .ok (.list []) ∧ setThresholds (.list []) 0 false = thresholdError := by
  decide +kernel

/-! ### the new statements say something: defective variants and instances -/

/-- a configuration with two target labels and scalar thresholds only -/
def exampleConfig2 : Dict :=
  [("evaluation_task", .str "detection"), ("target_labels", .list [.str "Car", .str "trailer"]),
   ("max_x_position", .num 100), ("max_y_position", .num 50), ("min_point_numbers", .num 0),
   ("label_prefix", .str "autoware"), ("merge_similar_labels", .bool true)]

example : configTargetLabels exampleConfig2 = .ok ["CAR", "CAR"] := by decide +kernel
example : configTargetLabels (exampleConfig2.filter (·.1 != "merge_similar_labels")) = .ok ["CAR", "TRUCK"] := by
  decide +kernel
example : (perceptionConfig exampleConfig2 ["base_link"]).toOption.map (·.nLabels) = some 2 := by decide +kernel
/-- the defective variant that sizes everything by the label enum: its lists all share ONE length (the old statement
holds of it), but that length is not the number of target labels of the configuration -/
example : (extractParams_ignoreTargets "detection" Gen.autowareLabel.length exampleConfig2).toOption.map
      (fun r => (r.1, (r.2.1.lookup "max_x_position_list").map lenOf, (r.2.1.lookup "min_point_numbers").map lenOf)) =
    some (9, some 9, some 9) := by decide +kernel
example : ¬ ∃ r L, extractParams_ignoreTargets "detection" Gen.autowareLabel.length exampleConfig2 = .ok r ∧
    configTargetLabels exampleConfig2 = .ok L ∧ r.1 = L.length := by
  rintro ⟨r, L, h1, h2, h3⟩
  have e1 : extractParams_ignoreTargets "detection" Gen.autowareLabel.length exampleConfig2 =
      extractParams "detection" 9 (exampleConfig2.filter (fun kv => kv.1 != "target_labels")) := rfl
  have e2 : configTargetLabels exampleConfig2 = .ok ["CAR", "CAR"] := by decide +kernel
  rw [e2] at h2; cases h2
  have : (extractParams_ignoreTargets "detection" Gen.autowareLabel.length exampleConfig2).toOption.map (·.1) = some 9 := by
    decide +kernel
  rw [h1] at this
  simp [Except.toOption] at this
  rw [this] at h3
  simp at h3
example : configTargetLabels (("target_labels", .list [.str "car", .num 1]) :: exampleConfig2) = .error "AttributeError" ∧
    perceptionConfig (("target_labels", .list [.str "car", .num 1]) :: exampleConfig2) ["base_link"] =
      .error "AttributeError" := by decide +kernel
example : perceptionConfig (("min_distance", .num 1) :: exampleConfig2) ["base_link"] = .error "RuntimeError" := by
  decide +kernel
/-- a 2-D task with both kinds is rejected as well -/
example : perceptionConfig [("evaluation_task", .str "detection2d"), ("label_prefix", .str "autoware"),
      ("max_x_position", .num 1), ("max_distance", .num 2)] ["cam_front"] = .error "RuntimeError" := by
  decide +kernel
example : criticalFilterConfig false (Label.familyMembers "autoware").length
      [("target_labels", .list [.str "car", .str "bus"]), ("max_x_position_list", .list [.num 1, .num 2]),
       ("max_y_position_list", .list [.num 1, .num 2])] =
    .ok (2, [("max_x_position_list", .list [.num 1, .num 2]), ("max_y_position_list", .list [.num 1, .num 2]),
             ("max_distance_list", .none), ("min_distance_list", .none), ("min_point_numbers", .none),
             ("confidence_threshold_list", .none)]) := by decide +kernel

end PEval.C15
