import PEval.Properties.C03Eval
import PEval.Properties.C04ScenePipeline
/-!
# C04, scene level on the composed whole-frame model: NO per-frame hypothesis left but "the inputs are sets"

`pipeline_scene_in_unit_interval` (`Properties/C04ScenePipeline.lean`) still assumes, per frame, pairwise different
ground-truth ids and heading weights in [0,1].  For a history evaluated by `FrameChange.evalFrame` (objects with boxes
and yaws, both filters, score table, matcher — `Model/FrameEval.lean`) both are consequences of the construction:
the ids are the objects' ids (`C03.ObjectsDistinct`, the one input hypothesis of `Properties/C03Eval.lean`), the heading
weight of a pair is `Heading.aphWeight` of the two yaws, which lies in [0,1] for all yaws (`C09.aphWeight_range`).
-/
namespace PEval.C04
open PEval PEval.FrameChange PEval.Pipeline PEval.PipelineProps PEval.C03

/-- the `Pipeline.Frame` of an evaluated frame, with its `Pipeline.Out`: what the manager stores of the frame -/
def StoredAs (C : EvalCfg) (fo : SFrame × FrameOut) (p : Pipeline.Frame × Pipeline.Out) : Prop :=
  ∃ kE kG, keptEsts C fo.1 = .ok kE ∧ keptGts C fo.1 = .ok kG ∧
    p = (frameOf C fo.1 kE kG fo.2.critEst fo.2.critGt, fo.2.out)

theorem frameOf_hw_range (C : EvalCfg) (f : SFrame) (kE kG : List SObj) (cE cG : List Bool) (i j : Nat) :
    0 ≤ (frameOf C f kE kG cE cG).hw i j ∧ (frameOf C f kE kG cE cG).hw i j ≤ 1 := by
  have hrow : ∀ a g : Obj, 0 ≤ (f.reader.row a g).unsigned.aph ∧ (f.reader.row a g).unsigned.aph ≤ 1 := by
    intro a g
    unfold SFrame.reader
    cases f.frameId
    · exact C09.aphWeight_range a.tau g.tau
    · exact C09.aphWeight_range a.tau g.tau
  show 0 ≤ (match rowAt (tableOf f.reader kE kG) i j with
      | some r => r.aph
      | none => 0) ∧ (match rowAt (tableOf f.reader kE kG) i j with
      | some r => r.aph
      | none => 0) ≤ 1
  cases hx : kE[i]? with
  | none =>
    have : rowAt (tableOf f.reader kE kG) i j = none := by
      unfold rowAt tableOf; simp only [List.getElem?_map, hx, Option.map_none]
    rw [this]; exact ⟨le_refl 0, zero_le_one⟩
  | some x =>
    cases hy : kG[j]? with
    | none =>
      have : rowAt (tableOf f.reader kE kG) i j = none := by
        unfold rowAt tableOf; simp only [List.getElem?_map, hx, hy, Option.map_some, Option.map_none]
      rw [this]; exact ⟨le_refl 0, zero_le_one⟩
    | some y =>
      rw [rowAt_tableOf f.reader hx hy]
      exact hrow x.obj y.obj

/-- one evaluated frame: it is stored as a `Pipeline.Frame` that `detectFrame` evaluated to the frame's `out`, with
pairwise different ground-truth ids and heading weights in [0,1] -/
theorem eval_stored (C : EvalCfg) (f : SFrame) (o : FrameOut) (h : evalFrame C f = .ok o) (hd : ObjectsDistinct f) :
    ∃ p, StoredAs C (f, o) p ∧ detectFrame p.1 = .ok p.2 ∧ GtIdsDistinct p.1 ∧
      ∀ i j, 0 ≤ p.1.hw i j ∧ p.1.hw i j ≤ 1 := by
  obtain ⟨kE, kG, hE, hG, _, _, _, _, _, _, _, hdet⟩ := evalFrame_trace h
  exact ⟨_, ⟨kE, kG, hE, hG, rfl⟩, hdet, gt_ids_distinct_of_set _ (gtsDistinct_frameOf hd hG _ _),
    frameOf_hw_range C f kE kG _ _⟩

/-- **[0,1] at scene level for histories evaluated by `evalFrame`.**  Every frame of the history is stored as the
`Pipeline.Frame` / `Pipeline.Out` pair `evalFrame` computed for it, and for EVERY scene-level `Map` (mode, 2-D/3-D,
target labels, thresholds) over the stored frames that answers, every defined AP / APH / mAP / mAPH lies in [0,1].
Only hypothesis: each frame's input lists are sets (`ObjectsDistinct`). -/
theorem eval_scene_in_unit_interval (C : EvalCfg) (fs : List SFrame) (outs : List FrameOut)
    (h : evalHistory C fs = .ok outs) (hd : ∀ f ∈ fs, ObjectsDistinct f) :
    ∃ hist : List (Pipeline.Frame × Pipeline.Out), List.Forall₂ (StoredAs C) (fs.zip outs) hist ∧
      ∀ (m : AP.Mode) (is2d : Bool) (T : List AP.Label) (th : List Rat) (o : AP.MapOut),
        AP.sceneMap m is2d T th (hist.map (sceneFrame m)) = .ok o →
        (∀ a ∈ o.aps, ∀ x, a.ap = some x → 0 ≤ x ∧ x ≤ 1) ∧
        (∀ a ∈ o.aphs, ∀ x, a.ap = some x → 0 ≤ x ∧ x ≤ 1) ∧
        (∀ x, o.map = some x → 0 ≤ x ∧ x ≤ 1) ∧ (∀ x, o.maph = some x → 0 ≤ x ∧ x ≤ 1) := by
  have key : ∃ hist : List (Pipeline.Frame × Pipeline.Out), List.Forall₂ (StoredAs C) (fs.zip outs) hist ∧
      ∀ p ∈ hist, detectFrame p.1 = .ok p.2 ∧ GtIdsDistinct p.1 ∧ ∀ i j, 0 ≤ p.1.hw i j ∧ p.1.hw i j ≤ 1 := by
    unfold evalHistory at h
    induction fs generalizing outs with
    | nil => cases h; exact ⟨[], List.Forall₂.nil, fun p hp => by cases hp⟩
    | cons f fs ih =>
      unfold mapE at h
      cases h1 : evalFrame C f with
      | error e => rw [h1] at h; cases h
      | ok o1 =>
        rw [h1] at h; simp only at h
        cases h2 : mapE (evalFrame C) fs with
        | error e => rw [h2] at h; cases h
        | ok os =>
          rw [h2] at h; cases h
          obtain ⟨p, hp, hp2⟩ := eval_stored C f o1 h1 (hd f List.mem_cons_self)
          obtain ⟨hist, hh, hh2⟩ := ih os h2 (fun g hg => hd g (List.mem_cons_of_mem _ hg))
          refine ⟨p :: hist, List.Forall₂.cons hp hh, ?_⟩
          intro q hq
          rcases List.mem_cons.1 hq with rfl | hq
          · exact hp2
          · exact hh2 q hq
  obtain ⟨hist, hh, hall⟩ := key
  refine ⟨hist, hh, ?_⟩
  intro m is2d T th o ho
  exact pipeline_scene_in_unit_interval hist (fun p hp => (hall p hp).1) (fun p hp => (hall p hp).2.1)
    (fun p hp => (hall p hp).2.2) ho

/-! ### non-vacuity: the two renderings of the frame of `C03Eval.lean` as a two-frame history (ids repeat across frames) -/

example : ∀ f ∈ [exE, exM], ObjectsDistinct f := by
  intro f hf
  simp only [List.mem_cons, List.not_mem_nil, or_false] at hf
  rcases hf with rfl | rfl
  · exact ⟨by decide +kernel, by decide +kernel⟩
  · exact ⟨by decide +kernel, by decide +kernel⟩
example : (evalHistory exC [exE, exM]).map (fun os => os.map FrameOut.summary) = .ok [exSummary, exSummary] := by
  decide +kernel

end PEval.C04
