import PEval.Lemmas.Label
import PEval.Lemmas.LabelDoc
import PEval.Gen.DocLabels
/-!
# C14 — label names convert totally, case-insensitively and consistently with merging

`PEval.Gen.*Pairs*` are the tables the code's table builders return in the current tree
(regenerated on every run), `PEval.Gen.autowareLabel` / `trafficLightLabel` the enums. Side
conditions on the tables are `decide`d; the statements over *all strings* follow from them by the
general lemmas of `PEval.Lemmas.Label`.
-/
namespace PEval.C14
open PEval.Label PEval

/-- the four tables in use -/
def tables : List Table :=
  [Gen.autowarePairs, Gen.autowarePairsMerged, Gen.trafficLightPairsClassification, Gen.trafficLightPairsOther]

/-! ## side conditions on the regenerated tables -/

theorem names_lowercase : ∀ t ∈ tables, ∀ p ∈ t, p.2.toLower = p.2 := by decide +kernel
theorem names_nodup : ∀ t ∈ tables, (regNames t).Nodup := by decide +kernel

theorem autoware_labels_are_members :
    (∀ p ∈ Gen.autowarePairs, p.1 ∈ Gen.autowareLabel.map (·.1)) ∧
    (∀ p ∈ Gen.autowarePairsMerged, p.1 ∈ Gen.autowareLabel.map (·.1)) ∧
    "UNKNOWN" ∈ Gen.autowareLabel.map (·.1) := by decide +kernel

theorem trafficLight_labels_are_members :
    (∀ p ∈ Gen.trafficLightPairsClassification, p.1 ∈ Gen.trafficLightLabel.map (·.1)) ∧
    (∀ p ∈ Gen.trafficLightPairsOther, p.1 ∈ Gen.trafficLightLabel.map (·.1)) ∧
    "UNKNOWN" ∈ Gen.trafficLightLabel.map (·.1) := by decide +kernel

/-- the merged table is the unmerged one with every label replaced by its merged image,
entry by entry and in the same order -/
theorem merged_table_rel :
    Gen.autowarePairsMerged = Gen.autowarePairs.map (fun p => (mergeImage p.1, p.2)) := by decide +kernel

/-- every task gets one of the two traffic-light tables (the translator checks this while
generating; here: the classification task is the one that gets the classification table) -/
theorem classification_table : trafficLightTable "CLASSIFICATION2D" = Gen.trafficLightPairsClassification ∧
    trafficLightTable "DETECTION2D" = Gen.trafficLightPairsOther := by decide +kernel

/-! ## totality: the result is always a member of the label family -/

theorem convert_total_autoware (merge : Bool) (s : String) :
    convertLabel (if merge then Gen.autowarePairsMerged else Gen.autowarePairs) s ∈ Gen.autowareLabel.map (·.1) := by
  obtain ⟨h1, h2, hu⟩ := autoware_labels_are_members
  unfold convertLabel
  cases merge <;> simp only [Bool.false_eq_true, if_false, if_true] <;>
  · split
    · rename_i p hp
      first | exact h1 p (List.mem_of_find?_eq_some hp) | exact h2 p (List.mem_of_find?_eq_some hp)
    · exact hu

theorem convert_total_trafficLight (task s : String) :
    convertLabel (trafficLightTable task) s ∈ Gen.trafficLightLabel.map (·.1) := by
  obtain ⟨h1, h2, hu⟩ := trafficLight_labels_are_members
  have ht : trafficLightTable task = Gen.trafficLightPairsClassification ∨
      trafficLightTable task = Gen.trafficLightPairsOther := by
    unfold trafficLightTable; split <;> simp
  unfold convertLabel
  rcases ht with ht | ht <;> rw [ht] <;>
  · split
    · rename_i p hp
      first | exact h1 p (List.mem_of_find?_eq_some hp) | exact h2 p (List.mem_of_find?_eq_some hp)
    · exact hu

/-! ## letter case is ignored -/

/-- two spellings with the same lower-case form convert alike (any table) -/
theorem convert_case_insensitive (t : Table) (s s' : String) (h : s.toLower = s'.toLower) :
    convertLabel t s = convertLabel t s' ∧ convertName t s = convertName t s' :=
  ⟨convertLabel_congr t h, convertName_congr t h⟩

/-- every registered name, in every case variant, maps to its documented label -/
theorem registered_any_case : ∀ t ∈ tables, ∀ p ∈ t, ∀ s : String, s.toLower = p.2 →
    convertLabel t s = p.1 := by
  intro t ht p hp s hs
  rw [convertLabel_eq, hs, lookupFirst_mem (names_nodup t ht) hp]; rfl

/-- concrete instance of the above on the whole tables: the upper-cased spelling -/
theorem registered_upper : ∀ t ∈ tables, ∀ p ∈ t, convertLabel t p.2.toUpper = p.1 := by decide +kernel

/-! ## every producible label is the image of its own canonical name -/

theorem canonical_roundtrip_autoware :
    (∀ p ∈ Gen.autowarePairs, ∀ m ∈ Gen.autowareLabel, m.1 = p.1 → convertLabel Gen.autowarePairs m.2 = p.1) ∧
    (∀ p ∈ Gen.autowarePairsMerged, ∀ m ∈ Gen.autowareLabel, m.1 = p.1 →
      convertLabel Gen.autowarePairsMerged m.2 = p.1) := by decide +kernel

theorem canonical_roundtrip_trafficLight :
    (∀ p ∈ Gen.trafficLightPairsClassification, ∀ m ∈ Gen.trafficLightLabel, m.1 = p.1 →
      convertLabel Gen.trafficLightPairsClassification m.2 = p.1) ∧
    (∀ p ∈ Gen.trafficLightPairsOther, ∀ m ∈ Gen.trafficLightLabel, m.1 = p.1 →
      convertLabel Gen.trafficLightPairsOther m.2 = p.1) := by decide +kernel

/-! ## unregistered names map to unknown -/

theorem unregistered_unknown (t : Table) (s : String) (h : s.toLower ∉ regNames t) :
    convertLabel t s = "UNKNOWN" ∧ convertName t s = "UNKNOWN" := by
  constructor
  · rw [convertLabel_eq, lookupFirst_none h]; rfl
  · rw [convertName_eq]
    unfold lookupLast
    rw [foldl_last_none _ _ _ h]; rfl

/-! ## merging -/

/-- for EVERY string: converting with merging = merged image of converting without -/
theorem merge_consistent (s : String) :
    convertLabel Gen.autowarePairsMerged s = mergeImage (convertLabel Gen.autowarePairs s) := by
  rw [merged_table_rel]; exact convertLabel_map mergeImage rfl _ _

/-! ## target lists are resolved with the same mapping as object labels -/

theorem targets_same_mapping : ∀ t ∈ tables, ∀ s : String, convertName t s = convertLabel t s := by
  intro t ht s; exact convertName_eq_convertLabel (names_nodup t ht) s

theorem setTargetLists_eq_map (t : Table) (ht : t ∈ tables) (family : String) (l : List String) (hl : l ≠ []) :
    setTargetLists (some l) t family = l.map (convertLabel t) := by
  cases l with
  | nil => exact absurd rfl hl
  | cons a l =>
    simp only [setTargetLists]
    apply List.map_congr_left
    intro s _; exact targets_same_mapping t ht s

/-! ## non-vacuity -/
example : convertLabel Gen.autowarePairs "Vehicle.Bus" = "BUS" := by decide +kernel
example : convertLabel Gen.autowarePairsMerged "Vehicle.Bus" = "CAR" := by decide +kernel
example : ("no such thing" : String).toLower ∉ regNames Gen.autowarePairs := by decide +kernel
example : Gen.autowarePairs ∈ tables := by decide +kernel

/-! ## the regenerated tables are not empty (an empty table would make every `∀ p ∈ table` theorem above vacuous) -/
theorem label_tables_nonempty :
    Gen.autowareLabel ≠ [] ∧ Gen.trafficLightLabel ≠ [] ∧ Gen.autowarePairs ≠ [] ∧ Gen.autowarePairsMerged ≠ [] ∧
    Gen.trafficLightPairsClassification ≠ [] ∧ Gen.trafficLightPairsOther ≠ [] ∧ Gen.trafficLightTableOfTask ≠ [] := by
  decide

/-! ## audit round 2

### the constructor's dispatch reaches only the four tables (every task, every prefix) -/

/-- whatever the prefix, the merge flag and the task: an accepted constructor call uses one of the four tables, and
the family it reports is the one of that table -/
theorem tableFor_mem_tables (labelPrefix : String) (merge : Bool) (task : String) (t : Table) (fam : String)
    (h : tableFor labelPrefix merge task = .ok (t, fam)) :
    t ∈ tables ∧
    ((labelPrefix = "autoware" ∧ fam = "autoware" ∧ t = (if merge then Gen.autowarePairsMerged else Gen.autowarePairs)) ∨
     (labelPrefix = "traffic_light" ∧ fam = "traffic_light" ∧ t = trafficLightTable task)) := by
  unfold tableFor at h
  by_cases h1 : labelPrefix = "autoware"
  · simp only [h1, beq_self_eq_true, if_true] at h
    cases h
    refine ⟨?_, Or.inl ⟨h1, rfl, rfl⟩⟩
    cases merge <;> simp [tables]
  · have h1' : (labelPrefix == "autoware") = false := by simpa using h1
    simp only [h1', Bool.false_eq_true, if_false] at h
    by_cases h2 : labelPrefix = "traffic_light"
    · simp only [h2, beq_self_eq_true, if_true] at h
      cases h
      refine ⟨?_, Or.inr ⟨h2, rfl, rfl⟩⟩
      have ht : trafficLightTable task = Gen.trafficLightPairsClassification ∨
          trafficLightTable task = Gen.trafficLightPairsOther := by
        unfold trafficLightTable; split <;> simp
      rcases ht with ht | ht <;> simp [tables, ht]
    · have h2' : (labelPrefix == "traffic_light") = false := by simpa using h2
      simp only [h2', Bool.false_eq_true, if_false] at h
      split at h <;> cases h

/-- the error exits of the constructor, characterised: `NotImplementedError` exactly for the two announced prefixes,
`ValueError` exactly for every other string but the two supported ones; nothing else fails -/
theorem tableFor_error_iff (labelPrefix : String) (merge : Bool) (task : String) :
    (tableFor labelPrefix merge task = .error "NotImplementedError" ↔
      (labelPrefix = "blinker" ∨ labelPrefix = "brake_lamp")) ∧
    (tableFor labelPrefix merge task = .error "ValueError" ↔
      (labelPrefix ≠ "autoware" ∧ labelPrefix ≠ "traffic_light" ∧ labelPrefix ≠ "blinker" ∧ labelPrefix ≠ "brake_lamp")) ∧
    ((∃ r, tableFor labelPrefix merge task = .ok r) ↔ (labelPrefix = "autoware" ∨ labelPrefix = "traffic_light")) := by
  unfold tableFor
  by_cases h1 : labelPrefix = "autoware"
  · subst h1; simp
  · by_cases h2 : labelPrefix = "traffic_light"
    · subst h2; simp
    · by_cases h3 : labelPrefix = "blinker"
      · subst h3; simp
      · by_cases h4 : labelPrefix = "brake_lamp"
        · subst h4; simp
        · simp [h1, h2, h3, h4]

/-- every task of the current tree gets one of the two traffic-light tables, and the table named in the regenerated
task list is the one the model's dispatch picks (all nine tasks, not two) -/
theorem trafficLight_table_of_every_task :
    ∀ p ∈ Gen.trafficLightTableOfTask,
      (p.2 = "classification" → trafficLightTable p.1 = Gen.trafficLightPairsClassification) ∧
      (p.2 ≠ "classification" → trafficLightTable p.1 = Gen.trafficLightPairsOther) := by decide +kernel

/-! ### witnesses inside the traffic-light tables (an empty or swapped regenerated table fails these) -/

theorem trafficLight_tables_witness :
    convertLabel Gen.trafficLightPairsClassification "RED" = "RED" ∧
    convertLabel Gen.trafficLightPairsClassification "Green" = "GREEN" ∧
    convertLabel Gen.trafficLightPairsOther "green" = "TRAFFIC_LIGHT" ∧
    convertLabel Gen.trafficLightPairsOther "RED" = "TRAFFIC_LIGHT" ∧
    convertLabel Gen.trafficLightPairsOther "unknown" = "UNKNOWN" ∧
    Gen.trafficLightPairsClassification ≠ Gen.trafficLightPairsOther := by decide +kernel

/-! ### `None` / empty target list = every member of the family, in definition order -/

theorem setTargetLists_empty_all (labelPrefix : String) (merge : Bool) (task : String) (t : Table) (fam : String)
    (h : tableFor labelPrefix merge task = .ok (t, fam)) :
    setTargetLists none t fam = setTargetLists (some []) t fam ∧
    setTargetLists none t fam =
      (if labelPrefix = "autoware" then Gen.autowareLabel.map (·.1) else Gen.trafficLightLabel.map (·.1)) ∧
    setTargetLists none t fam ≠ [] := by
  obtain ⟨_, hc⟩ := tableFor_mem_tables _ _ _ _ _ h
  obtain ⟨_, _, _, _, _, _, _⟩ := label_tables_nonempty
  rcases hc with ⟨hp, hf, _⟩ | ⟨hp, hf, _⟩
  · subst hp; subst hf
    refine ⟨rfl, by simp [setTargetLists, familyMembers], ?_⟩
    simp [setTargetLists, familyMembers]; assumption
  · subst hp; subst hf
    refine ⟨rfl, by simp [setTargetLists, familyMembers], ?_⟩
    simp [setTargetLists, familyMembers]; assumption

/-- the statement fails for the defective variant that answers `[]` -/
example : setTargetLists_noDefault none Gen.autowarePairs ≠ Gen.autowareLabel.map (·.1) := by decide

/-! ### the DOCUMENTED mapping

`Gen.doc*` are the tables of `docs/en/perception/label.md` of the working tree, parsed on every run by the translator
(`harness/gen_tables.py: gen_doc_labels`): `(documented name, label member name)`.  They are an INDEPENDENT source:
the theorems below compare the code's tables with them.  If the document cannot be found or parsed the translator
emits empty tables and `Gen.docLabelsParsed = false`; every theorem below then holds trivially and `c14.py` reports
`doc:untranslatable`. -/

/-- the documented table of the Autoware family for a merge setting -/
def docAutowareFor (merge : Bool) : List (String × String) :=
  if merge then Gen.docAutowareMerged else Gen.docAutoware

/-- FINDING CANDIDATE C14-D1 (unchanged tree): rows of label.md, `TrafficLightLabel`, on which the documentation and
the code disagree.  The document lists the names `red_left_straight` / `red_right_straight` (labels `TRAFFIC_LIGHT`
for detection / tracking, `RED_LEFT_STRAIGHT` / `RED_RIGHT_STRAIGHT` for classification); the code registers
`red_straight_left` / `red_straight_right` and the enum has no member `RED_LEFT_STRAIGHT` / `RED_RIGHT_STRAIGHT`:
the documented names convert to `UNKNOWN` (`doc_exceptions_exact`).  The theorems about the traffic-light family are
stated modulo exactly these rows. -/
def docExceptionsOther : List (String × String) :=
  [("red_left_straight", "TRAFFIC_LIGHT"), ("red_right_straight", "TRAFFIC_LIGHT")]
def docExceptionsClassification : List (String × String) :=
  [("red_left_straight", "RED_LEFT_STRAIGHT"), ("red_right_straight", "RED_RIGHT_STRAIGHT")]

/-- documented names are written in lower case (so "every case variant of a documented name" is `s.toLower = name`) -/
theorem doc_names_lowercase :
    ∀ d ∈ [Gen.docAutoware, Gen.docAutowareMerged, Gen.docTrafficLightOther, Gen.docTrafficLightClassification],
      ∀ p ∈ d, p.1.toLower = p.1 := Label.doc_names_lowercase

/-- table level, Autoware family, both merge settings: looking a documented name up in the code's table gives the
documented label (also for a documented name the code does not register, e.g. `static_object.forklift` ↦ UNKNOWN) -/
theorem documented_rows_autoware :
    (∀ p ∈ Gen.docAutoware, convertLabel Gen.autowarePairs p.1 = p.2) ∧
    (∀ p ∈ Gen.docAutowareMerged, convertLabel Gen.autowarePairsMerged p.1 = p.2) := by decide +kernel

/-- table level, traffic-light family, modulo the listed disagreements -/
theorem documented_rows_trafficLight :
    (∀ p ∈ Gen.docTrafficLightOther, p ∉ docExceptionsOther → convertLabel Gen.trafficLightPairsOther p.1 = p.2) ∧
    (∀ p ∈ Gen.docTrafficLightClassification, p ∉ docExceptionsClassification →
      convertLabel Gen.trafficLightPairsClassification p.1 = p.2) := by decide +kernel

/-- the tasks the document names for each traffic-light table get that table from the code -/
theorem documented_tasks_tables :
    (∀ task ∈ Gen.docTrafficLightOtherTasks, trafficLightTable task = Gen.trafficLightPairsOther) ∧
    (∀ task ∈ Gen.docTrafficLightClassificationTasks, trafficLightTable task = Gen.trafficLightPairsClassification) := by
  decide +kernel

theorem convert_of_row {t : Table} (ht : t ∈ tables) {p : String × String} (hl : p.1.toLower = p.1)
    (hr : convertLabel t p.1 = p.2) (s : String) (hs : s.toLower = p.1) :
    convertLabel t s = p.2 ∧ convertName t s = p.2 := by
  have h1 : convertLabel t s = p.2 := by
    rw [convertLabel_congr t (s' := p.1) (by rw [hs, hl])]; exact hr
  exact ⟨h1, by rw [targets_same_mapping t ht s]; exact h1⟩

/-- **every documented name converts to its documented label** — Autoware family: for both merge settings, for every
task (the document describes one table for all tasks), through the constructor's dispatch, in every case variant, at
both entry points (`convert_label` for object labels, `convert_name` for target lists) -/
theorem documented_names_convert_autoware (merge : Bool) (task : String) (t : Table) (fam : String)
    (ht : tableFor "autoware" merge task = .ok (t, fam)) :
    ∀ p ∈ docAutowareFor merge, ∀ s : String, s.toLower = p.1 →
      convertLabel t s = p.2 ∧ convertName t s = p.2 := by
  intro p hp s hs
  obtain ⟨hmem, hc⟩ := tableFor_mem_tables _ _ _ _ _ ht
  have hl : p.1.toLower = p.1 := by
    cases merge
    · exact doc_names_lowercase Gen.docAutoware (by simp) p (by simpa [docAutowareFor] using hp)
    · exact doc_names_lowercase Gen.docAutowareMerged (by simp) p (by simpa [docAutowareFor] using hp)
  rcases hc with ⟨_, _, rfl⟩ | ⟨h, _⟩
  · refine convert_of_row hmem hl ?_ s hs
    cases merge
    · exact documented_rows_autoware.1 p (by simpa [docAutowareFor] using hp)
    · exact documented_rows_autoware.2 p (by simpa [docAutowareFor] using hp)
  · exact absurd h (by decide)

/-- **every documented name converts to its documented label** — traffic-light family: for every task the document
names (detection2d / tracking2d: the one-label table; classification2d: the per-colour table), whatever the merge flag,
through the constructor's dispatch, in every case variant, at both entry points; modulo the rows of finding candidate
C14-D1 -/
theorem documented_names_convert_trafficLight (merge : Bool) (task : String) (t : Table) (fam : String)
    (ht : tableFor "traffic_light" merge task = .ok (t, fam)) :
    (task ∈ Gen.docTrafficLightOtherTasks → ∀ p ∈ Gen.docTrafficLightOther, p ∉ docExceptionsOther →
      ∀ s : String, s.toLower = p.1 → convertLabel t s = p.2 ∧ convertName t s = p.2) ∧
    (task ∈ Gen.docTrafficLightClassificationTasks → ∀ p ∈ Gen.docTrafficLightClassification,
      p ∉ docExceptionsClassification →
      ∀ s : String, s.toLower = p.1 → convertLabel t s = p.2 ∧ convertName t s = p.2) := by
  obtain ⟨hmem, hc⟩ := tableFor_mem_tables _ _ _ _ _ ht
  rcases hc with ⟨h, _⟩ | ⟨_, _, rfl⟩
  · exact absurd h (by decide)
  · constructor
    · intro htask p hp hne s hs
      rw [documented_tasks_tables.1 task htask] at hmem ⊢
      exact convert_of_row hmem (doc_names_lowercase Gen.docTrafficLightOther (by simp) p hp)
        (documented_rows_trafficLight.1 p hp hne) s hs
    · intro htask p hp hne s hs
      rw [documented_tasks_tables.2 task htask] at hmem ⊢
      exact convert_of_row hmem (doc_names_lowercase Gen.docTrafficLightClassification (by simp) p hp)
        (documented_rows_trafficLight.2 p hp hne) s hs

/-- the excepted rows (finding candidate C14-D1) are pinned from both sides, and the statement stays true when the
discrepancy is REPAIRED: for each excepted row either the documented name is not registered and the code answers
`UNKNOWN` (the unchanged tree: "row absent from the code"), or the code gives exactly the documented label ("row present
with the documented label": the code was moved towards the document).  Never a third label; and the documented label
of an excepted row is never `UNKNOWN` itself, so the two cases are distinguishable.  Inputs: the regenerated
`Gen.trafficLightPairs*` (code) — the rows themselves are the two definitions above.  The names the code registers
today for these members (`red_straight_left` / `red_straight_right`) are covered by `canonical_roundtrip_trafficLight`
and `registered_names_documented` / `undocumented_lists_exact`, not pinned here. -/
theorem doc_exceptions_exact :
    (∀ p ∈ docExceptionsOther, p.2 ≠ "UNKNOWN" ∧
      ((p.1 ∉ regNames Gen.trafficLightPairsOther ∧ convertLabel Gen.trafficLightPairsOther p.1 = "UNKNOWN") ∨
       convertLabel Gen.trafficLightPairsOther p.1 = p.2)) ∧
    (∀ p ∈ docExceptionsClassification, p.2 ≠ "UNKNOWN" ∧
      ((p.1 ∉ regNames Gen.trafficLightPairsClassification ∧
          convertLabel Gen.trafficLightPairsClassification p.1 = "UNKNOWN") ∨
       convertLabel Gen.trafficLightPairsClassification p.1 = p.2)) := by decide +kernel

/-- the converse direction: every registered (label, name) of the code's tables is a row of the document with that
same label, or its name is in the regenerated list of names the document does not mention -/
theorem registered_names_documented : Gen.docLabelsParsed = true →
    (∀ p ∈ Gen.autowarePairs, (p.2, p.1) ∈ Gen.docAutoware ∨ p.2 ∈ Gen.undocumentedAutoware) ∧
    (∀ p ∈ Gen.autowarePairsMerged, (p.2, p.1) ∈ Gen.docAutowareMerged ∨ p.2 ∈ Gen.undocumentedAutowareMerged) ∧
    (∀ p ∈ Gen.trafficLightPairsOther,
      (p.2, p.1) ∈ Gen.docTrafficLightOther ∨ p.2 ∈ Gen.undocumentedTrafficLightOther) ∧
    (∀ p ∈ Gen.trafficLightPairsClassification,
      (p.2, p.1) ∈ Gen.docTrafficLightClassification ∨ p.2 ∈ Gen.undocumentedTrafficLightClassification) := by
  decide +kernel

/-- the "undocumented" lists are exact: each of their names is registered in the code's table and occurs in no row of
the document's table (so the escape clause of `registered_names_documented` cannot hide a wrongly documented name) -/
theorem undocumented_lists_exact :
    (∀ n ∈ Gen.undocumentedAutoware, n ∈ regNames Gen.autowarePairs ∧ n ∉ Gen.docAutoware.map (·.1)) ∧
    (∀ n ∈ Gen.undocumentedAutowareMerged, n ∈ regNames Gen.autowarePairsMerged ∧ n ∉ Gen.docAutowareMerged.map (·.1)) ∧
    (∀ n ∈ Gen.undocumentedTrafficLightOther,
      n ∈ regNames Gen.trafficLightPairsOther ∧ n ∉ Gen.docTrafficLightOther.map (·.1)) ∧
    (∀ n ∈ Gen.undocumentedTrafficLightClassification,
      n ∈ regNames Gen.trafficLightPairsClassification ∧ n ∉ Gen.docTrafficLightClassification.map (·.1)) := by
  decide +kernel

/-- the document is consistent with the merging rule of the property text: its merged table is the merged image
(truck, bus → car; motorbike → bicycle) of its unmerged table, row for row as a set — this ties the hand-written
`mergeImage` to the documentation -/
theorem doc_merge_consistent :
    (∀ p ∈ Gen.docAutoware, (p.1, mergeImage p.2) ∈ Gen.docAutowareMerged) ∧
    (∀ q ∈ Gen.docAutowareMerged, ∃ p ∈ Gen.docAutoware, p.1 = q.1 ∧ mergeImage p.2 = q.2) :=
  Label.doc_merge_consistent

/-- documented labels are members of the label enum, and the documented `value` of a member is its value in the code
(modulo the two non-existent members of finding candidate C14-D1) -/
theorem doc_labels_are_members :
    (∀ p ∈ Gen.docAutoware ++ Gen.docAutowareMerged, p.2 ∈ Gen.autowareLabel.map (·.1)) ∧
    (∀ p ∈ Gen.docTrafficLightOther, p.2 ∈ Gen.trafficLightLabel.map (·.1)) ∧
    (∀ p ∈ Gen.docTrafficLightClassification, p ∉ docExceptionsClassification → p.2 ∈ Gen.trafficLightLabel.map (·.1)) ∧
    (∀ v ∈ Gen.docAutowareValues, v ∈ Gen.autowareLabel) ∧
    (∀ v ∈ Gen.docTrafficLightValues, v.1 ∉ docExceptionsClassification.map (·.2) → v ∈ Gen.trafficLightLabel) := by
  decide +kernel

/-- a parsed document has rows in every table and names tasks for both traffic-light tables (no vacuity) -/
theorem doc_tables_nonempty : Gen.docLabelsParsed = true →
    Gen.docAutoware ≠ [] ∧ Gen.docAutowareMerged ≠ [] ∧ Gen.docTrafficLightOther ≠ [] ∧
    Gen.docTrafficLightClassification ≠ [] ∧ Gen.docTrafficLightOtherTasks ≠ [] ∧
    Gen.docTrafficLightClassificationTasks ≠ [] := by decide

/-! ### what the documented-mapping theorems exclude: defective variants -/

/-- the alias `trailer` registered for BUS instead of TRUCK (audit C14-2): all the table-hygiene and canonical-name
statements still hold of this table — only the comparison with the document fails -/
def badAliasTable : Table := withWrongAlias Gen.autowarePairs "trailer" "BUS"

example : (regNames badAliasTable).Nodup ∧ regNames badAliasTable = regNames Gen.autowarePairs ∧
    (∀ p ∈ badAliasTable, p.1 ∈ Gen.autowareLabel.map (·.1)) ∧
    (∀ p ∈ badAliasTable, ∀ m ∈ Gen.autowareLabel, m.1 = p.1 → convertLabel badAliasTable m.2 = p.1) := by
  decide +kernel
example : Gen.docLabelsParsed = true → ¬ (∀ p ∈ Gen.docAutoware, convertLabel badAliasTable p.1 = p.2) := by
  decide +kernel
example : Gen.docLabelsParsed = true →
    ¬ (∀ p ∈ badAliasTable, (p.2, p.1) ∈ Gen.docAutoware ∨ p.2 ∈ Gen.undocumentedAutoware) := by decide +kernel

/-- a converter that does not lower-case its argument fails `registered_upper` / `registered_any_case` -/
example : ¬ (∀ p ∈ Gen.autowarePairs, convertLabelCS Gen.autowarePairs p.2.toUpper = p.1) := by decide +kernel

/-- instances of the hypotheses of the documented-mapping theorems -/
example : tableFor "autoware" true "TRACKING" = .ok (Gen.autowarePairsMerged, "autoware") := by decide +kernel
example : tableFor "traffic_light" false "TRACKING2D" = .ok (Gen.trafficLightPairsOther, "traffic_light") := by
  decide +kernel
example : Gen.docLabelsParsed = true → ("TRAILER" : String).toLower ∈ (docAutowareFor true).map (·.1) := by
  decide +kernel
example : Gen.docLabelsParsed = true →
    "TRACKING2D" ∈ Gen.docTrafficLightOtherTasks ∧ ("red", "TRAFFIC_LIGHT") ∉ docExceptionsOther := by decide +kernel
example : tableFor "blinker" false "DETECTION" = .error "NotImplementedError" ∧
    tableFor "Autoware" false "DETECTION" = .error "ValueError" := by decide +kernel

end PEval.C14
