import PEval.Lemmas.Label
/-!
# C14 — label names convert totally, case-insensitively and consistently with merging

`PEval.Gen.*Pairs*` are the tables the code's table builders return in the current tree
(regenerated on every run), `PEval.Gen.autowareLabel` / `trafficLightLabel` the enums. Side
conditions on the tables are `decide`d; the statements over *all strings* follow from them by the
general lemmas of `PEval.Lemmas.Label`.
-/
namespace PEval.C14
open PEval.Label PEval

/-- the four tables in use -/
def tables : List Table :=
  [Gen.autowarePairs, Gen.autowarePairsMerged, Gen.trafficLightPairsClassification, Gen.trafficLightPairsOther]

/-! ## side conditions on the regenerated tables -/

theorem names_lowercase : ∀ t ∈ tables, ∀ p ∈ t, p.2.toLower = p.2 := by decide +kernel
theorem names_nodup : ∀ t ∈ tables, (regNames t).Nodup := by decide +kernel

theorem autoware_labels_are_members :
    (∀ p ∈ Gen.autowarePairs, p.1 ∈ Gen.autowareLabel.map (·.1)) ∧
    (∀ p ∈ Gen.autowarePairsMerged, p.1 ∈ Gen.autowareLabel.map (·.1)) ∧
    "UNKNOWN" ∈ Gen.autowareLabel.map (·.1) := by decide +kernel

theorem trafficLight_labels_are_members :
    (∀ p ∈ Gen.trafficLightPairsClassification, p.1 ∈ Gen.trafficLightLabel.map (·.1)) ∧
    (∀ p ∈ Gen.trafficLightPairsOther, p.1 ∈ Gen.trafficLightLabel.map (·.1)) ∧
    "UNKNOWN" ∈ Gen.trafficLightLabel.map (·.1) := by decide +kernel

/-- the merged table is the unmerged one with every label replaced by its merged image,
entry by entry and in the same order -/
theorem merged_table_rel :
    Gen.autowarePairsMerged = Gen.autowarePairs.map (fun p => (mergeImage p.1, p.2)) := by decide +kernel

/-- every task gets one of the two traffic-light tables (the translator checks this while
generating; here: the classification task is the one that gets the classification table) -/
theorem classification_table : trafficLightTable "CLASSIFICATION2D" = Gen.trafficLightPairsClassification ∧
    trafficLightTable "DETECTION2D" = Gen.trafficLightPairsOther := by decide +kernel

/-! ## totality: the result is always a member of the label family -/

theorem convert_total_autoware (merge : Bool) (s : String) :
    convertLabel (if merge then Gen.autowarePairsMerged else Gen.autowarePairs) s ∈ Gen.autowareLabel.map (·.1) := by
  obtain ⟨h1, h2, hu⟩ := autoware_labels_are_members
  unfold convertLabel
  cases merge <;> simp only [Bool.false_eq_true, if_false, if_true] <;>
  · split
    · rename_i p hp
      first | exact h1 p (List.mem_of_find?_eq_some hp) | exact h2 p (List.mem_of_find?_eq_some hp)
    · exact hu

theorem convert_total_trafficLight (task s : String) :
    convertLabel (trafficLightTable task) s ∈ Gen.trafficLightLabel.map (·.1) := by
  obtain ⟨h1, h2, hu⟩ := trafficLight_labels_are_members
  have ht : trafficLightTable task = Gen.trafficLightPairsClassification ∨
      trafficLightTable task = Gen.trafficLightPairsOther := by
    unfold trafficLightTable; split <;> simp
  unfold convertLabel
  rcases ht with ht | ht <;> rw [ht] <;>
  · split
    · rename_i p hp
      first | exact h1 p (List.mem_of_find?_eq_some hp) | exact h2 p (List.mem_of_find?_eq_some hp)
    · exact hu

/-! ## letter case is ignored -/

/-- two spellings with the same lower-case form convert alike (any table) -/
theorem convert_case_insensitive (t : Table) (s s' : String) (h : s.toLower = s'.toLower) :
    convertLabel t s = convertLabel t s' ∧ convertName t s = convertName t s' :=
  ⟨convertLabel_congr t h, convertName_congr t h⟩

/-- every registered name, in every case variant, maps to its documented label -/
theorem registered_any_case : ∀ t ∈ tables, ∀ p ∈ t, ∀ s : String, s.toLower = p.2 →
    convertLabel t s = p.1 := by
  intro t ht p hp s hs
  rw [convertLabel_eq, hs, lookupFirst_mem (names_nodup t ht) hp]; rfl

/-- concrete instance of the above on the whole tables: the upper-cased spelling -/
theorem registered_upper : ∀ t ∈ tables, ∀ p ∈ t, convertLabel t p.2.toUpper = p.1 := by decide +kernel

/-! ## every producible label is the image of its own canonical name -/

theorem canonical_roundtrip_autoware :
    (∀ p ∈ Gen.autowarePairs, ∀ m ∈ Gen.autowareLabel, m.1 = p.1 → convertLabel Gen.autowarePairs m.2 = p.1) ∧
    (∀ p ∈ Gen.autowarePairsMerged, ∀ m ∈ Gen.autowareLabel, m.1 = p.1 →
      convertLabel Gen.autowarePairsMerged m.2 = p.1) := by decide +kernel

theorem canonical_roundtrip_trafficLight :
    (∀ p ∈ Gen.trafficLightPairsClassification, ∀ m ∈ Gen.trafficLightLabel, m.1 = p.1 →
      convertLabel Gen.trafficLightPairsClassification m.2 = p.1) ∧
    (∀ p ∈ Gen.trafficLightPairsOther, ∀ m ∈ Gen.trafficLightLabel, m.1 = p.1 →
      convertLabel Gen.trafficLightPairsOther m.2 = p.1) := by decide +kernel

/-! ## unregistered names map to unknown -/

theorem unregistered_unknown (t : Table) (s : String) (h : s.toLower ∉ regNames t) :
    convertLabel t s = "UNKNOWN" ∧ convertName t s = "UNKNOWN" := by
  constructor
  · rw [convertLabel_eq, lookupFirst_none h]; rfl
  · rw [convertName_eq]
    unfold lookupLast
    rw [foldl_last_none _ _ _ h]; rfl

/-! ## merging -/

/-- for EVERY string: converting with merging = merged image of converting without -/
theorem merge_consistent (s : String) :
    convertLabel Gen.autowarePairsMerged s = mergeImage (convertLabel Gen.autowarePairs s) := by
  rw [merged_table_rel]; exact convertLabel_map mergeImage rfl _ _

/-! ## target lists are resolved with the same mapping as object labels -/

theorem targets_same_mapping : ∀ t ∈ tables, ∀ s : String, convertName t s = convertLabel t s := by
  intro t ht s; exact convertName_eq_convertLabel (names_nodup t ht) s

theorem setTargetLists_eq_map (t : Table) (ht : t ∈ tables) (family : String) (l : List String) (hl : l ≠ []) :
    setTargetLists (some l) t family = l.map (convertLabel t) := by
  cases l with
  | nil => exact absurd rfl hl
  | cons a l =>
    simp only [setTargetLists]
    apply List.map_congr_left
    intro s _; exact targets_same_mapping t ht s

/-! ## non-vacuity -/
example : convertLabel Gen.autowarePairs "Vehicle.Bus" = "BUS" := by decide +kernel
example : convertLabel Gen.autowarePairsMerged "Vehicle.Bus" = "CAR" := by decide +kernel
example : ("no such thing" : String).toLower ∉ regNames Gen.autowarePairs := by decide +kernel
example : Gen.autowarePairs ∈ tables := by decide +kernel

/-! ## the regenerated tables are not empty (an empty table would make every `∀ p ∈ table` theorem above vacuous) -/
theorem label_tables_nonempty :
    Gen.autowareLabel ≠ [] ∧ Gen.trafficLightLabel ≠ [] ∧ Gen.autowarePairs ≠ [] ∧ Gen.autowarePairsMerged ≠ [] ∧
    Gen.trafficLightPairsClassification ≠ [] ∧ Gen.trafficLightPairsOther ≠ [] ∧ Gen.trafficLightTableOfTask ≠ [] := by
  decide

end PEval.C14
