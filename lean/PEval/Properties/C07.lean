import PEval.Lemmas.FrameChange
import PEval.Properties.C06
import PEval.Properties.C09
import PEval.Properties.C10
/-!
# C07 — evaluation results do not depend on the coordinate frame of the objects

For every scene and every ego pose (unit yaw rotation, any translation): what the evaluation reads
from a map-frame rendering with the ego pose supplied equals what it reads from the ego-frame
rendering — ego-relative positions (hence every range-filter decision, `C10.filter_frame_invariant`),
the whole per-pair score row (center distance, plane distance, BEV/3-D IoU, heading weight, yaw error)
and therefore the whole score table. Matching, pass/fail, AP/APH and CLEAR are functions of these
tables, the filter decisions and frame-free attributes (labels, confidences, uuids): see
`downstream_frame_free`, and the models of C01/C03/C04/C05 whose inputs are exactly those.
IoU invariance is proved for the exact reference clipper (shapely is validated against it, C06).
-/
namespace PEval.C07
open PEval.Geometry PEval.Heading PEval.FrameChange

/-! ## positions: map → ego undoes ego → map -/

theorem egoPos_toMap (e : Pose) (h : e.rot.IsUnit) (o : Obj) :
    egoPosMap e (o.toMap e) = egoPosEgo o := by
  unfold egoPosMap egoPosEgo Obj.toMap
  have : (o.box.move e.motion).center2 = e.motion.apply2 o.box.center2 := rfl
  rw [this, toEgo2_apply2 e h]

/-- every decision taken on the ego-relative position (x/y box, distance ring, any predicate) is the
same in both renderings -/
theorem position_decision_frame_free {α} (P : V2 → α) (e : Pose) (h : e.rot.IsUnit) (o : Obj) :
    P (egoPosMap e (o.toMap e)) = P (egoPosEgo o) := by rw [egoPos_toMap e h]

/-- the range filter of C10 (transcribed `_is_target_object`) keeps the same objects in both renderings -/
theorem filter_toMap (P : Filter.Params) (os : List Filter.Obj) (e : Filter.Pose)
    (he : e.c * e.c + e.s * e.s = 1) (h : ∀ o ∈ os, o.frame = "base_link" ∧ o.pos ≠ none) :
    Filter.filterObjects { P with hasTransforms := true } (os.map (Filter.renderMap e)) =
      (Filter.filterObjects P os).map (List.map (Filter.renderMap e)) :=
  C10.filter_frame_invariant P os e he h

/-! ## per-pair scores -/

theorem centerDist2_toMap (e : Pose) (h : e.rot.IsUnit) (a g : Obj) :
    centerDist2 (a.toMap e).box (g.toMap e).box = centerDist2 a.box g.box :=
  C06.centerDist2_rigid_invariant e.motion h a.box g.box

/-- plane distance: the corners are ranked by their distance from the ego in both renderings and the
corner distances are preserved by the rigid motion -/
theorem planeDist2_toMap (e : Pose) (h : e.rot.IsUnit) (a g : Obj) :
    planeDist2Map e (a.toMap e).box (g.toMap e).box = planeDist2 a.box g.box := by
  unfold planeDist2Map planeDist2 Obj.toMap
  simp only
  rw [footprint_move_eq, footprint_move_eq, planeDist2Of_eq_keys]
  have hkeys : ((footprint g.box).map e.motion.apply2).map (fun p => (toEgo2 e p).norm2)
      = (footprint g.box).map V2.norm2 := by
    rw [List.map_map]
    apply List.map_congr_left
    intro p _
    simp only [Function.comp, toEgo2_apply2 e h]
  rw [hkeys]
  exact planeDist2Keys_motion (m := e.motion) h _ _ _
    (by simp [footprint_length]) (by simp [footprint_length]) (by simp [footprint_length])

theorem iou_toMap (e : Pose) (h : e.rot.IsUnit) (a g : Obj) :
    boxIou2d (interArea (footprint (a.toMap e).box) (footprint (g.toMap e).box)) (a.toMap e).box (g.toMap e).box
        = boxIou2d (interArea (footprint a.box) (footprint g.box)) a.box g.box ∧
    boxIou3d (interArea (footprint (a.toMap e).box) (footprint (g.toMap e).box)) (a.toMap e).box (g.toMap e).box
        = boxIou3d (interArea (footprint a.box) (footprint g.box)) a.box g.box :=
  C06.clipIou_rigid_invariant e.motion h a.box g.box

theorem aphWeight_toMap (e : Pose) (he : InDom e.tau) (a g : Obj) (ha : InDom a.tau) (hg : InDom g.tau) :
    aphWeight (a.toMap e).tau (g.toMap e).tau = aphWeight a.tau g.tau :=
  C09.frame_invariant he ha hg

/-- the yaw error agrees, except exactly at opposite headings (d = π) where only its sign may flip -/
theorem headingError_toMap (e : Pose) (he : InDom e.tau) (a g : Obj) (ha : InDom a.tau) (hg : InDom g.tau) :
    headingError (a.toMap e).tau (g.toMap e).tau = headingError a.tau g.tau ∨
      (circDist a.tau g.tau = 1 ∧ headingError (a.toMap e).tau (g.toMap e).tau = -headingError a.tau g.tau) :=
  C09.headingError_frame_invariant he ha hg

/-- the whole score row of a pair, away from exactly opposite headings -/
theorem scoreRow_toMap (e : Pose) (h : e.rot.IsUnit) (he : InDom e.tau) (a g : Obj)
    (ha : InDom a.tau) (hg : InDom g.tau) (hopp : circDist a.tau g.tau ≠ 1) :
    scoreRowMap e (a.toMap e) (g.toMap e) = scoreRowEgo a g := by
  have h1 := centerDist2_toMap e h a g
  have h2 := planeDist2_toMap e h a g
  have h3 := iou_toMap e h a g
  have h4 := aphWeight_toMap e he a g ha hg
  have h5 : headingError (a.toMap e).tau (g.toMap e).tau = headingError a.tau g.tau := by
    rcases headingError_toMap e he a g ha hg with h | ⟨hd, _⟩
    · exact h
    · exact absurd hd hopp
  simp only [scoreRowMap, scoreRowEgo, h1, h2, h3.1, h3.2, h4, h5]

/-- … and without any side condition for everything except the sign of the yaw error -/
theorem scoreRow_toMap_decisions (e : Pose) (h : e.rot.IsUnit) (he : InDom e.tau) (a g : Obj)
    (ha : InDom a.tau) (hg : InDom g.tau) :
    let m := scoreRowMap e (a.toMap e) (g.toMap e)
    let b := scoreRowEgo a g
    m.center2 = b.center2 ∧ m.plane2 = b.plane2 ∧ m.iou2d = b.iou2d ∧ m.iou3d = b.iou3d ∧ m.aph = b.aph ∧
      (m.yawErr = b.yawErr ∨ m.yawErr = -b.yawErr) := by
  refine ⟨centerDist2_toMap e h a g, planeDist2_toMap e h a g, (iou_toMap e h a g).1, (iou_toMap e h a g).2,
    aphWeight_toMap e he a g ha hg, ?_⟩
  rcases headingError_toMap e he a g ha hg with h' | ⟨_, h'⟩
  · exact Or.inl h'
  · exact Or.inr h'

/-! ## whole scenes -/

/-- the score table of a scene (all estimates × all ground truths) is the same in both renderings -/
theorem scoreTable_toMap (e : Pose) (h : e.rot.IsUnit) (he : InDom e.tau) (ests gts : List Obj)
    (hd : ∀ o ∈ ests ++ gts, InDom o.tau)
    (hopp : ∀ a ∈ ests, ∀ g ∈ gts, circDist a.tau g.tau ≠ 1) :
    tableMap e (ests.map (Obj.toMap e)) (gts.map (Obj.toMap e)) = tableEgo ests gts := by
  unfold tableMap tableEgo
  rw [List.map_map]
  apply List.map_congr_left
  intro a ha
  simp only [Function.comp, List.map_map]
  apply List.map_congr_left
  intro g hg
  exact scoreRow_toMap e h he a g (hd a (List.mem_append_left _ ha)) (hd g (List.mem_append_right _ hg))
    (hopp a ha g hg)

/-- matching, pass/fail, AP/APH and CLEAR read a scene only through its score table, the ego-relative
positions and frame-free attributes: any such evaluation gives the same result in both renderings -/
theorem downstream_frame_free {β} (F : List (List ScoreRow) → List V2 → List V2 → β)
    (e : Pose) (h : e.rot.IsUnit) (he : InDom e.tau) (ests gts : List Obj)
    (hd : ∀ o ∈ ests ++ gts, InDom o.tau)
    (hopp : ∀ a ∈ ests, ∀ g ∈ gts, circDist a.tau g.tau ≠ 1) :
    F (tableMap e (ests.map (Obj.toMap e)) (gts.map (Obj.toMap e)))
        ((ests.map (Obj.toMap e)).map (egoPosMap e)) ((gts.map (Obj.toMap e)).map (egoPosMap e))
      = F (tableEgo ests gts) (ests.map egoPosEgo) (gts.map egoPosEgo) := by
  rw [scoreTable_toMap e h he ests gts hd hopp]
  have hp : ∀ l : List Obj, (l.map (Obj.toMap e)).map (egoPosMap e) = l.map egoPosEgo := by
    intro l
    rw [List.map_map]
    apply List.map_congr_left
    intro o _
    exact egoPos_toMap e h o
  rw [hp ests, hp gts]

/-! ## object identity

`DynamicObject.__eq__` compares positions and orientations exactly (plus the frame-free time stamp and
label). A rigid motion with a unit rotation is injective, so two objects are equal in the map
rendering exactly when they are equal in the ego rendering — whatever the magnitude of the ego
translation and however close two distinct objects stand. Hence every decision taken through `==`,
`in` or `list.remove` on objects (`get_negative_objects`: which unmatched ground truths become FN / TN)
is the same in both renderings. -/

theorem samePose_toMap (e : Pose) (h : e.rot.IsUnit) (a b : Obj) :
    (a.toMap e).samePose (b.toMap e) = a.samePose b :=
  samePose_toMap' e h a b

/-- `o in os` is frame-free -/
theorem containsPose_toMap (e : Pose) (h : e.rot.IsUnit) (os : List Obj) (o : Obj) :
    containsPose (os.map (Obj.toMap e)) (o.toMap e) = containsPose os o := by
  unfold containsPose
  rw [List.any_map]
  congr 1
  funext x
  exact samePose_toMap e h o x

/-- the whole equality table of a list of objects is frame-free -/
theorem sameTable_toMap (e : Pose) (h : e.rot.IsUnit) (os : List Obj) :
    sameTable (os.map (Obj.toMap e)) = sameTable os := by
  unfold sameTable
  rw [List.map_map]
  apply List.map_congr_left
  intro a _
  simp only [Function.comp, List.map_map]
  apply List.map_congr_left
  intro b _
  exact samePose_toMap e h a b

/-- distinct objects stay distinct: in particular two ground truths a millimetre apart, 10^6 m from
the map origin -/
theorem distinct_toMap (e : Pose) (h : e.rot.IsUnit) (a b : Obj) (hab : a.samePose b = false) :
    (a.toMap e).samePose (b.toMap e) = false := by
  rw [samePose_toMap e h]; exact hab

/-! ## full 3-D content and every filter criterion

Objects and ego have heights (`z` offsets of several metres, ego `z ≠ 0`). The inverse transform gives
back the whole ego-relative position (`egoPos3_toMap`); the ring filter reads its planar norm only, so
the BEV distance of the map rendering is the BEV distance of the ego rendering and depends on no height
(`bevDist2_toMap`, `bevDist2_height_free`). Every criterion of `_is_target_object` — target labels,
ignored attributes, confidence, x/y box, distance ring, minimum point count, target uuids — reads either
a frame-free attribute or that planar position: the evaluation config's filter followed by the critical
object filter keeps the same objects in both renderings of any 3-D scene (`kept_toMap`). -/

theorem egoPos3_toMap (e : Pose) (h : e.rot.IsUnit) (o : Obj) :
    toEgo3 e (o.toMap e).box.center = o.box.center :=
  toEgo3_apply3 e h o.box.center

/-- `get_distance_bev(transforms)` of the map rendering = `get_distance_bev()` of the ego rendering -/
theorem bevDist2_toMap (e : Pose) (h : e.rot.IsUnit) (o : Obj) :
    bevDist2Map e (o.toMap e) = bevDist2Ego o := by
  unfold bevDist2Map bevDist2Ego
  simp only
  rw [egoPos3_toMap e h]

/-- the BEV distance sees neither the height of the object nor the height of the ego -/
theorem bevDist2_height_free (e : Pose) (o : Obj) (z tz : Rat) :
    bevDist2Map { e with t := ⟨e.t.x, e.t.y, tz⟩ }
        { o with box := { o.box with center := ⟨o.box.center.x, o.box.center.y, z⟩ } } = bevDist2Map e o := by
  rfl

/-- two filters in a row commute with rendering a BASE_LINK scene into the MAP frame -/
theorem filter2_renderMap (Pm Pc : Filter.Params) (os : List Filter.Obj) (e : Filter.Pose)
    (he : e.c * e.c + e.s * e.s = 1) (h : ∀ o ∈ os, o.frame = "base_link" ∧ o.pos ≠ none) :
    filter2 { Pm with hasTransforms := true } { Pc with hasTransforms := true } (os.map (Filter.renderMap e)) =
      (filter2 { Pm with hasTransforms := true } { Pc with hasTransforms := true } os).map
        (List.map (Filter.renderMap e)) := by
  unfold filter2
  have h1 := C10.filter_frame_invariant { Pm with hasTransforms := true } os e he h
  rw [h1]
  cases hk : Filter.filterObjects { Pm with hasTransforms := true } os with
  | error err => rfl
  | ok ks =>
    have hks : ∀ o ∈ ks, o.frame = "base_link" ∧ o.pos ≠ none := by
      obtain ⟨_, hf⟩ := Filter.filterE_ok hk
      intro o ho
      rw [hf] at ho
      exact h o (List.mem_of_mem_filter ho)
    exact C10.filter_frame_invariant { Pc with hasTransforms := true } ks e he hks

/-- the ground truths (or estimates) that survive the evaluation config's filter and the critical object
filter are the same in both renderings of a 3-D scene: for every ego pose (unit yaw, any translation
including height), all heights of the objects, and every configuration of the criteria -/
theorem kept_toMap (e : Pose) (h : e.rot.IsUnit) (Pm Pc : Filter.Params) (os : List Tagged) :
    keptMap e Pm Pc (os.map (Tagged.toMap e)) = keptEgo Pm Pc os := by
  unfold keptMap keptEgo
  have hm : (os.map (Tagged.toMap e)).map (filterViewMap e)
      = (os.map filterViewEgo).map (Filter.renderMap e.planar) := by
    rw [List.map_map, List.map_map]
    apply List.map_congr_left
    intro t _
    exact filterView_toMap e t
  have hb : ∀ o ∈ os.map filterViewEgo, o.frame = "base_link" ∧ o.pos ≠ none := by
    intro o ho
    obtain ⟨t, _, rfl⟩ := List.mem_map.1 ho
    exact ⟨rfl, by simp [filterViewEgo]⟩
  rw [hm, filter2_renderMap Pm Pc _ e.planar h hb]
  unfold idsOf
  cases filter2 { Pm with hasTransforms := true } { Pc with hasTransforms := true } (os.map filterViewEgo) with
  | error err => rfl
  | ok ks =>
    simp only [Except.map, List.map_map]
    rfl

/-! ## non-vacuity: a concrete pose and pair -/

def exPose : Pose := { rot := ⟨3/5, 4/5⟩, tau := 59/200, t := ⟨1000, -2000, 0⟩ }
def exEst : Obj := { box := { center := ⟨10, 1, 0⟩, rot := ⟨4/5, 3/5⟩, w := 2, l := 4, h := 3/2 }, tau := 41/200 }
def exGt : Obj := { box := { center := ⟨21/2, 1/2, 0⟩, rot := ⟨1, 0⟩, w := 2, l := 9/2, h := 3/2 }, tau := 0 }

example : exPose.rot.IsUnit := by unfold Rot2.IsUnit exPose; norm_num
example : InDom exPose.tau ∧ InDom exEst.tau ∧ InDom exGt.tau := by decide +kernel
example : circDist exEst.tau exGt.tau ≠ 1 := by decide +kernel
example : scoreRowMap exPose (exEst.toMap exPose) (exGt.toMap exPose) = scoreRowEgo exEst exGt := by
  decide +kernel
example : (exEst.toMap exPose).box.center ≠ exEst.box.center := by decide +kernel

/-- twins 1/1024 m apart (same orientation, height), ego 10^6 m from the map origin -/
def exFar : Pose := { rot := ⟨3/5, 4/5⟩, tau := 59/200, t := ⟨1000000 + 1/4, -(987654 + 1/2), 0⟩ }
def exTwinA : Obj := { box := { center := ⟨12, 3, 0⟩, rot := ⟨4/5, 3/5⟩, w := 3/5, l := 3/5, h := 17/10 }, tau := 41/200 }
def exTwinB : Obj := { exTwinA with box := { exTwinA.box with center := ⟨12 + 1/1024, 3, 0⟩ } }
example : exFar.rot.IsUnit := by unfold Rot2.IsUnit exFar; norm_num
example : exTwinA.samePose exTwinB = false ∧ (exTwinA.toMap exFar).samePose (exTwinB.toMap exFar) = false ∧
    (exTwinA.toMap exFar).samePose (exTwinA.toMap exFar) = true := by decide +kernel
example : containsPose ([exTwinA].map (Obj.toMap exFar)) (exTwinB.toMap exFar) = false := by decide +kernel

/-- an overpass: a car 6.7 m from the ego in bird's-eye view and 7 m above it; the ego itself 37.5 m above
the map origin. The ring filter (min 8 m) removes the car in both renderings although its 3-D distance
(9.7 m) is outside the ring; an x/y box with a minimum point count removes the sparse ground truth
(3 points < 5) in both renderings. -/
def exHigh : Pose := { rot := ⟨3/5, 4/5⟩, tau := 59/200, t := ⟨1000, -2000, 75/2⟩ }
def exOver : Obj := { box := { center := ⟨6, 3, 7⟩, rot := ⟨1, 0⟩, w := 2, l := 9/2, h := 3/2 }, tau := 0 }
def exTag (i : Nat) (pc : Int) : Tag :=
  { id := i, label := "AutowareLabel.CAR", name := "car", attributes := [], score := 1, pcNum := some pc, uuid := some "u" }
def exRing : Filter.Params :=
  { isGt := true, targets := some ["AutowareLabel.CAR"], ignoreAttrs := none, maxX := none, maxY := none,
    maxDist := some [60], minDist := some [8], conf := none, minPts := some [0], uuids := none, hasTransforms := true }
def exBox : Filter.Params :=
  { exRing with maxX := some [60], maxY := some [40], maxDist := none, minDist := none, minPts := some [5] }
def exScene : List Tagged := [⟨exTag 0 10, exOver⟩, ⟨exTag 1 3, exGt⟩, ⟨exTag 2 5, exEst⟩]

example : exHigh.rot.IsUnit := by unfold Rot2.IsUnit exHigh; norm_num
example : (exOver.toMap exHigh).box.center.z = 89/2 := by decide +kernel
example : bevDist2Map exHigh (exOver.toMap exHigh) = 45 ∧
    norm3sq (toEgo3 exHigh (exOver.toMap exHigh).box.center) = 94 ∧
    Filter.distGt 45 8 = false ∧ Filter.distGt 94 8 = true := by decide +kernel
example : keptMap exHigh exRing exRing (exScene.map (Tagged.toMap exHigh)) = .ok [1, 2] ∧
    keptEgo exRing exRing exScene = .ok [1, 2] := by decide +kernel
example : keptMap exHigh exBox exBox (exScene.map (Tagged.toMap exHigh)) = .ok [0, 2] ∧
    keptEgo exBox exBox exScene = .ok [0, 2] := by decide +kernel

end PEval.C07
