import PEval.Lemmas.FrameChange
import PEval.Lemmas.FrameEval
import PEval.Properties.C06
import PEval.Properties.C09
import PEval.Properties.C10
/-!
# C07 — evaluation results do not depend on the coordinate frame of the objects

For every scene and every ego pose (unit yaw rotation, any translation): what the evaluation reads
from a map-frame rendering with the ego pose supplied equals what it reads from the ego-frame
rendering — ego-relative positions (hence every range-filter decision, `C10.filter_frame_invariant`),
the whole per-pair score row (center distance, plane distance, BEV/3-D IoU, heading weight, yaw error)
and therefore the whole score table. Matching, pass/fail, AP/APH and CLEAR are functions of these
tables, the filter decisions and frame-free attributes (labels, confidences, uuids): see
`downstream_frame_free`, and the models of C01/C03/C04/C05 whose inputs are exactly those.
IoU invariance is proved for the exact reference clipper (shapely is validated against it, C06).
-/
namespace PEval.C07
open PEval.Geometry PEval.Heading PEval.FrameChange

/-! ## positions: map → ego undoes ego → map -/

theorem egoPos_toMap (e : Pose) (h : e.rot.IsUnit) (o : Obj) :
    egoPosMap e (o.toMap e) = egoPosEgo o := by
  unfold egoPosMap egoPosEgo Obj.toMap
  have : (o.box.move e.motion).center2 = e.motion.apply2 o.box.center2 := rfl
  rw [this, toEgo2_apply2 e h]

/-- every decision taken on the ego-relative position (x/y box, distance ring, any predicate) is the
same in both renderings -/
theorem position_decision_frame_free {α} (P : V2 → α) (e : Pose) (h : e.rot.IsUnit) (o : Obj) :
    P (egoPosMap e (o.toMap e)) = P (egoPosEgo o) := by rw [egoPos_toMap e h]

/-- the range filter of C10 (transcribed `_is_target_object`) keeps the same objects in both renderings -/
theorem filter_toMap (P : Filter.Params) (os : List Filter.Obj) (e : Filter.Pose)
    (he : e.c * e.c + e.s * e.s = 1) (h : ∀ o ∈ os, o.frame = "base_link" ∧ o.pos ≠ none) :
    Filter.filterObjects { P with hasTransforms := true } (os.map (Filter.renderMap e)) =
      (Filter.filterObjects P os).map (List.map (Filter.renderMap e)) :=
  C10.filter_frame_invariant P os e he h

/-! ## per-pair scores -/

theorem centerDist2_toMap (e : Pose) (h : e.rot.IsUnit) (a g : Obj) :
    centerDist2 (a.toMap e).box (g.toMap e).box = centerDist2 a.box g.box :=
  C06.centerDist2_rigid_invariant e.motion h a.box g.box

/-- plane distance: the corners are ranked by their distance from the ego in both renderings and the
corner distances are preserved by the rigid motion -/
theorem planeDist2_toMap (e : Pose) (h : e.rot.IsUnit) (a g : Obj) :
    planeDist2Map e (a.toMap e).box (g.toMap e).box = planeDist2 a.box g.box := by
  unfold planeDist2Map planeDist2 Obj.toMap
  simp only
  rw [footprint_move_eq, footprint_move_eq, planeDist2Of_eq_keys]
  have hkeys : ((footprint g.box).map e.motion.apply2).map (fun p => (toEgo2 e p).norm2)
      = (footprint g.box).map V2.norm2 := by
    rw [List.map_map]
    apply List.map_congr_left
    intro p _
    simp only [Function.comp, toEgo2_apply2 e h]
  rw [hkeys]
  exact planeDist2Keys_motion (m := e.motion) h _ _ _
    (by simp [footprint_length]) (by simp [footprint_length]) (by simp [footprint_length])

theorem iou_toMap (e : Pose) (h : e.rot.IsUnit) (a g : Obj) :
    boxIou2d (interArea (footprint (a.toMap e).box) (footprint (g.toMap e).box)) (a.toMap e).box (g.toMap e).box
        = boxIou2d (interArea (footprint a.box) (footprint g.box)) a.box g.box ∧
    boxIou3d (interArea (footprint (a.toMap e).box) (footprint (g.toMap e).box)) (a.toMap e).box (g.toMap e).box
        = boxIou3d (interArea (footprint a.box) (footprint g.box)) a.box g.box :=
  C06.clipIou_rigid_invariant e.motion h a.box g.box

theorem aphWeight_toMap (e : Pose) (he : InDom e.tau) (a g : Obj) (ha : InDom a.tau) (hg : InDom g.tau) :
    aphWeight (a.toMap e).tau (g.toMap e).tau = aphWeight a.tau g.tau :=
  C09.frame_invariant he ha hg

/-- the yaw error agrees, except exactly at opposite headings (d = π) where only its sign may flip -/
theorem headingError_toMap (e : Pose) (he : InDom e.tau) (a g : Obj) (ha : InDom a.tau) (hg : InDom g.tau) :
    headingError (a.toMap e).tau (g.toMap e).tau = headingError a.tau g.tau ∨
      (circDist a.tau g.tau = 1 ∧ headingError (a.toMap e).tau (g.toMap e).tau = -headingError a.tau g.tau) :=
  C09.headingError_frame_invariant he ha hg

/-- the whole score row of a pair, away from exactly opposite headings -/
theorem scoreRow_toMap (e : Pose) (h : e.rot.IsUnit) (he : InDom e.tau) (a g : Obj)
    (ha : InDom a.tau) (hg : InDom g.tau) (hopp : circDist a.tau g.tau ≠ 1) :
    scoreRowMap e (a.toMap e) (g.toMap e) = scoreRowEgo a g := by
  have h1 := centerDist2_toMap e h a g
  have h2 := planeDist2_toMap e h a g
  have h3 := iou_toMap e h a g
  have h4 := aphWeight_toMap e he a g ha hg
  have h5 : headingError (a.toMap e).tau (g.toMap e).tau = headingError a.tau g.tau := by
    rcases headingError_toMap e he a g ha hg with h | ⟨hd, _⟩
    · exact h
    · exact absurd hd hopp
  simp only [scoreRowMap, scoreRowEgo, h1, h2, h3.1, h3.2, h4, h5]

/-- … and without any side condition for everything except the sign of the yaw error -/
theorem scoreRow_toMap_decisions (e : Pose) (h : e.rot.IsUnit) (he : InDom e.tau) (a g : Obj)
    (ha : InDom a.tau) (hg : InDom g.tau) :
    let m := scoreRowMap e (a.toMap e) (g.toMap e)
    let b := scoreRowEgo a g
    m.center2 = b.center2 ∧ m.plane2 = b.plane2 ∧ m.iou2d = b.iou2d ∧ m.iou3d = b.iou3d ∧ m.aph = b.aph ∧
      (m.yawErr = b.yawErr ∨ m.yawErr = -b.yawErr) := by
  refine ⟨centerDist2_toMap e h a g, planeDist2_toMap e h a g, (iou_toMap e h a g).1, (iou_toMap e h a g).2,
    aphWeight_toMap e he a g ha hg, ?_⟩
  rcases headingError_toMap e he a g ha hg with h' | ⟨_, h'⟩
  · exact Or.inl h'
  · exact Or.inr h'

/-! ## whole scenes -/

/-- the score table of a scene (all estimates × all ground truths) is the same in both renderings -/
theorem scoreTable_toMap (e : Pose) (h : e.rot.IsUnit) (he : InDom e.tau) (ests gts : List Obj)
    (hd : ∀ o ∈ ests ++ gts, InDom o.tau)
    (hopp : ∀ a ∈ ests, ∀ g ∈ gts, circDist a.tau g.tau ≠ 1) :
    tableMap e (ests.map (Obj.toMap e)) (gts.map (Obj.toMap e)) = tableEgo ests gts := by
  unfold tableMap tableEgo
  rw [List.map_map]
  apply List.map_congr_left
  intro a ha
  simp only [Function.comp, List.map_map]
  apply List.map_congr_left
  intro g hg
  exact scoreRow_toMap e h he a g (hd a (List.mem_append_left _ ha)) (hd g (List.mem_append_right _ hg))
    (hopp a ha g hg)

/-- matching, pass/fail, AP/APH and CLEAR read a scene only through its score table, the ego-relative
positions and frame-free attributes: any such evaluation gives the same result in both renderings -/
theorem downstream_frame_free {β} (F : List (List ScoreRow) → List V2 → List V2 → β)
    (e : Pose) (h : e.rot.IsUnit) (he : InDom e.tau) (ests gts : List Obj)
    (hd : ∀ o ∈ ests ++ gts, InDom o.tau)
    (hopp : ∀ a ∈ ests, ∀ g ∈ gts, circDist a.tau g.tau ≠ 1) :
    F (tableMap e (ests.map (Obj.toMap e)) (gts.map (Obj.toMap e)))
        ((ests.map (Obj.toMap e)).map (egoPosMap e)) ((gts.map (Obj.toMap e)).map (egoPosMap e))
      = F (tableEgo ests gts) (ests.map egoPosEgo) (gts.map egoPosEgo) := by
  rw [scoreTable_toMap e h he ests gts hd hopp]
  have hp : ∀ l : List Obj, (l.map (Obj.toMap e)).map (egoPosMap e) = l.map egoPosEgo := by
    intro l
    rw [List.map_map]
    apply List.map_congr_left
    intro o _
    exact egoPos_toMap e h o
  rw [hp ests, hp gts]

/-! ## object identity

`DynamicObject.__eq__` compares positions and orientations exactly (plus the frame-free time stamp and
label). A rigid motion with a unit rotation is injective, so two objects are equal in the map
rendering exactly when they are equal in the ego rendering — whatever the magnitude of the ego
translation and however close two distinct objects stand. Hence every decision taken through `==`,
`in` or `list.remove` on objects (`get_negative_objects`: which unmatched ground truths become FN / TN)
is the same in both renderings. -/

theorem samePose_toMap (e : Pose) (h : e.rot.IsUnit) (a b : Obj) :
    (a.toMap e).samePose (b.toMap e) = a.samePose b :=
  samePose_toMap' e h a b

/-- `o in os` is frame-free -/
theorem containsPose_toMap (e : Pose) (h : e.rot.IsUnit) (os : List Obj) (o : Obj) :
    containsPose (os.map (Obj.toMap e)) (o.toMap e) = containsPose os o := by
  unfold containsPose
  rw [List.any_map]
  congr 1
  funext x
  exact samePose_toMap e h o x

/-- the whole equality table of a list of objects is frame-free -/
theorem sameTable_toMap (e : Pose) (h : e.rot.IsUnit) (os : List Obj) :
    sameTable (os.map (Obj.toMap e)) = sameTable os := by
  unfold sameTable
  rw [List.map_map]
  apply List.map_congr_left
  intro a _
  simp only [Function.comp, List.map_map]
  apply List.map_congr_left
  intro b _
  exact samePose_toMap e h a b

/-- distinct objects stay distinct: in particular two ground truths a millimetre apart, 10^6 m from
the map origin -/
theorem distinct_toMap (e : Pose) (h : e.rot.IsUnit) (a b : Obj) (hab : a.samePose b = false) :
    (a.toMap e).samePose (b.toMap e) = false := by
  rw [samePose_toMap e h]; exact hab

/-! ## full 3-D content and every filter criterion

Objects and ego have heights (`z` offsets of several metres, ego `z ≠ 0`). The inverse transform gives
back the whole ego-relative position (`egoPos3_toMap`); the ring filter reads its planar norm only, so
the BEV distance of the map rendering is the BEV distance of the ego rendering and depends on no height
(`bevDist2_toMap`, `bevDist2_height_free`). Every criterion of `_is_target_object` — target labels,
ignored attributes, confidence, x/y box, distance ring, minimum point count, target uuids — reads either
a frame-free attribute or that planar position: the evaluation config's filter followed by the critical
object filter keeps the same objects in both renderings of any 3-D scene (`kept_toMap`). -/

theorem egoPos3_toMap (e : Pose) (h : e.rot.IsUnit) (o : Obj) :
    toEgo3 e (o.toMap e).box.center = o.box.center :=
  toEgo3_apply3 e h o.box.center

/-- `get_distance_bev(transforms)` of the map rendering = `get_distance_bev()` of the ego rendering -/
theorem bevDist2_toMap (e : Pose) (h : e.rot.IsUnit) (o : Obj) :
    bevDist2Map e (o.toMap e) = bevDist2Ego o := by
  unfold bevDist2Map bevDist2Ego
  simp only
  rw [egoPos3_toMap e h]

/-- the BEV distance sees neither the height of the object nor the height of the ego -/
theorem bevDist2_height_free (e : Pose) (o : Obj) (z tz : Rat) :
    bevDist2Map { e with t := ⟨e.t.x, e.t.y, tz⟩ }
        { o with box := { o.box with center := ⟨o.box.center.x, o.box.center.y, z⟩ } } = bevDist2Map e o := by
  rfl

/-- two filters in a row commute with rendering a BASE_LINK scene into the MAP frame -/
theorem filter2_renderMap (Pm Pc : Filter.Params) (os : List Filter.Obj) (e : Filter.Pose)
    (he : e.c * e.c + e.s * e.s = 1) (h : ∀ o ∈ os, o.frame = "base_link" ∧ o.pos ≠ none) :
    filter2 { Pm with hasTransforms := true } { Pc with hasTransforms := true } (os.map (Filter.renderMap e)) =
      (filter2 { Pm with hasTransforms := true } { Pc with hasTransforms := true } os).map
        (List.map (Filter.renderMap e)) := by
  unfold filter2
  have h1 := C10.filter_frame_invariant { Pm with hasTransforms := true } os e he h
  rw [h1]
  cases hk : Filter.filterObjects { Pm with hasTransforms := true } os with
  | error err => rfl
  | ok ks =>
    have hks : ∀ o ∈ ks, o.frame = "base_link" ∧ o.pos ≠ none := by
      obtain ⟨_, hf⟩ := Filter.filterE_ok hk
      intro o ho
      rw [hf] at ho
      exact h o (List.mem_of_mem_filter ho)
    exact C10.filter_frame_invariant { Pc with hasTransforms := true } ks e he hks

/-- the ground truths (or estimates) that survive the evaluation config's filter and the critical object
filter are the same in both renderings of a 3-D scene: for every ego pose (unit yaw, any translation
including height), all heights of the objects, and every configuration of the criteria -/
theorem kept_toMap (e : Pose) (h : e.rot.IsUnit) (Pm Pc : Filter.Params) (os : List Tagged) :
    keptMap e Pm Pc (os.map (Tagged.toMap e)) = keptEgo Pm Pc os := by
  unfold keptMap keptEgo
  have hm : (os.map (Tagged.toMap e)).map (filterViewMap e)
      = (os.map filterViewEgo).map (Filter.renderMap e.planar) := by
    rw [List.map_map, List.map_map]
    apply List.map_congr_left
    intro t _
    exact filterView_toMap e t
  have hb : ∀ o ∈ os.map filterViewEgo, o.frame = "base_link" ∧ o.pos ≠ none := by
    intro o ho
    obtain ⟨t, _, rfl⟩ := List.mem_map.1 ho
    exact ⟨rfl, by simp [filterViewEgo]⟩
  rw [hm, filter2_renderMap Pm Pc _ e.planar h hb]
  unfold idsOf
  cases filter2 { Pm with hasTransforms := true } { Pc with hasTransforms := true } (os.map filterViewEgo) with
  | error err => rfl
  | ok ks =>
    simp only [Except.map, List.map_map]
    rfl

/-! ## non-vacuity: a concrete pose and pair -/

def exPose : Pose := { rot := ⟨3/5, 4/5⟩, tau := 59/200, t := ⟨1000, -2000, 0⟩ }
def exEst : Obj := { box := { center := ⟨10, 1, 0⟩, rot := ⟨4/5, 3/5⟩, w := 2, l := 4, h := 3/2 }, tau := 41/200 }
def exGt : Obj := { box := { center := ⟨21/2, 1/2, 0⟩, rot := ⟨1, 0⟩, w := 2, l := 9/2, h := 3/2 }, tau := 0 }

example : exPose.rot.IsUnit := by unfold Rot2.IsUnit exPose; norm_num
example : InDom exPose.tau ∧ InDom exEst.tau ∧ InDom exGt.tau := by decide +kernel
example : circDist exEst.tau exGt.tau ≠ 1 := by decide +kernel
example : scoreRowMap exPose (exEst.toMap exPose) (exGt.toMap exPose) = scoreRowEgo exEst exGt := by
  decide +kernel
example : (exEst.toMap exPose).box.center ≠ exEst.box.center := by decide +kernel

/-- twins 1/1024 m apart (same orientation, height), ego 10^6 m from the map origin -/
def exFar : Pose := { rot := ⟨3/5, 4/5⟩, tau := 59/200, t := ⟨1000000 + 1/4, -(987654 + 1/2), 0⟩ }
def exTwinA : Obj := { box := { center := ⟨12, 3, 0⟩, rot := ⟨4/5, 3/5⟩, w := 3/5, l := 3/5, h := 17/10 }, tau := 41/200 }
def exTwinB : Obj := { exTwinA with box := { exTwinA.box with center := ⟨12 + 1/1024, 3, 0⟩ } }
example : exFar.rot.IsUnit := by unfold Rot2.IsUnit exFar; norm_num
example : exTwinA.samePose exTwinB = false ∧ (exTwinA.toMap exFar).samePose (exTwinB.toMap exFar) = false ∧
    (exTwinA.toMap exFar).samePose (exTwinA.toMap exFar) = true := by decide +kernel
example : containsPose ([exTwinA].map (Obj.toMap exFar)) (exTwinB.toMap exFar) = false := by decide +kernel

/-- an overpass: a car 6.7 m from the ego in bird's-eye view and 7 m above it; the ego itself 37.5 m above
the map origin. The ring filter (min 8 m) removes the car in both renderings although its 3-D distance
(9.7 m) is outside the ring; an x/y box with a minimum point count removes the sparse ground truth
(3 points < 5) in both renderings. -/
def exHigh : Pose := { rot := ⟨3/5, 4/5⟩, tau := 59/200, t := ⟨1000, -2000, 75/2⟩ }
def exOver : Obj := { box := { center := ⟨6, 3, 7⟩, rot := ⟨1, 0⟩, w := 2, l := 9/2, h := 3/2 }, tau := 0 }
def exTag (i : Nat) (pc : Int) : Tag :=
  { id := i, label := "AutowareLabel.CAR", name := "car", attributes := [], score := 1, pcNum := some pc, uuid := some "u" }
def exRing : Filter.Params :=
  { isGt := true, targets := some ["AutowareLabel.CAR"], ignoreAttrs := none, maxX := none, maxY := none,
    maxDist := some [60], minDist := some [8], conf := none, minPts := some [0], uuids := none, hasTransforms := true }
def exBox : Filter.Params :=
  { exRing with maxX := some [60], maxY := some [40], maxDist := none, minDist := none, minPts := some [5] }
def exScene : List Tagged := [⟨exTag 0 10, exOver⟩, ⟨exTag 1 3, exGt⟩, ⟨exTag 2 5, exEst⟩]

example : exHigh.rot.IsUnit := by unfold Rot2.IsUnit exHigh; norm_num
example : (exOver.toMap exHigh).box.center.z = 89/2 := by decide +kernel
example : bevDist2Map exHigh (exOver.toMap exHigh) = 45 ∧
    norm3sq (toEgo3 exHigh (exOver.toMap exHigh).box.center) = 94 ∧
    Filter.distGt 45 8 = false ∧ Filter.distGt 94 8 = true := by decide +kernel
example : keptMap exHigh exRing exRing (exScene.map (Tagged.toMap exHigh)) = .ok [1, 2] ∧
    keptEgo exRing exRing exScene = .ok [1, 2] := by decide +kernel
example : keptMap exHigh exBox exBox (exScene.map (Tagged.toMap exHigh)) = .ok [0, 2] ∧
    keptEgo exBox exBox exScene = .ok [0, 2] := by decide +kernel

/-! ## end to end: the whole frame, and histories of frames

`FrameChange.evalFrame` (Model/FrameEval.lean) is `add_frame_result` + `evaluate_frame` on a frame as given:
manager filter → score table → `Matching.getObjectResults` → critical filter, `__eq__` classes →
`Pipeline.detectFrame` (per-label `Map`s = `AP.frameMap`, `PassFail.evaluateFrame`) → CLEAR inputs, with the
reader chosen by the objects' frame id.  `evalFrame_toMap`: expressing all objects of a `BASE_LINK` frame in
the map frame (any unit yaw, any translation incl. height) and supplying the transform changes NOTHING of the
result — kept sets of both filters, score table, matcher result, TP / FP / TN / FN lists, AP / APH / mAP /
mAPH, CLEAR inputs; the same exception if one is raised.  `clear_toMap` / `tracking_toMap`: over a history in
which every frame has its own ego pose, the CLEAR fold (TP weight, FP, ID switches, score sum) and the
per-label MOTA / MOTP / switch numbers with their sums agree.  The statement is FALSE for the two defective
map branches `readerMapJ` / `readerMapG` / `readerMapE` (`evalFrame_toMap_fails_J`, `…_G`, `…_E`). -/

/-- every score of a pair except the sign of the yaw error, without side condition -/
theorem scoreRow_unsigned_toMap (e : Pose) (h : e.rot.IsUnit) (he : InDom e.tau) (a g : Obj)
    (ha : InDom a.tau) (hg : InDom g.tau) :
    (scoreRowMap e (a.toMap e) (g.toMap e)).unsigned = (scoreRowEgo a g).unsigned := by
  obtain ⟨h1, h2, h3, h4, h5, h6⟩ := scoreRow_toMap_decisions e h he a g ha hg
  unfold ScoreRow.unsigned
  simp only [ScoreRow.mk.injEq]
  refine ⟨h1, h2, h3, h4, h5, ?_⟩
  rcases h6 with h6 | h6
  · rw [h6]
  · rw [h6, rabs_neg]

/-- the whole score table (all estimates × all ground truths, yaw error unsigned), without the
"no exactly opposite pair" condition of `scoreTable_toMap` -/
theorem scoreTable_unsigned_toMap (e : Pose) (h : e.rot.IsUnit) (he : InDom e.tau) (ests gts : List SObj)
    (hd : ∀ o ∈ ests ++ gts, InDom o.obj.tau) :
    tableOf (readerMap e) (ests.map (SObj.toMap e)) (gts.map (SObj.toMap e)) = tableOf readerEgo ests gts :=
  tableOf_congr readerEgo (readerMap e) (SObj.toMap e) ests gts (fun a ha g hg =>
    scoreRow_unsigned_toMap e h he a.obj g.obj (hd a (List.mem_append_left _ ha))
      (hd g (List.mem_append_right _ hg)))

/-- hypotheses on a recorded frame and its ego pose: unit yaw rotation (any translation, any height), all
yaws principal values, objects recorded in `BASE_LINK` -/
def FrameOK (e : Pose) (f : SFrame) : Prop :=
  e.rot.IsUnit ∧ InDom e.tau ∧ f.frameId = .baseLink ∧ ∀ o ∈ f.ests ++ f.gts, InDom o.obj.tau

/-- **C07, one frame**: the evaluation of the map rendering (transform supplied) equals the evaluation of the
ego rendering, for every configuration of both filters, the matcher, pass/fail, the metrics -/
theorem evalFrame_toMap (C : EvalCfg) (e : Pose) (f : SFrame) (hok : FrameOK e f) :
    evalFrame C (f.toMap e) = evalFrame C f := by
  obtain ⟨h, he, hf, hd⟩ := hok
  unfold evalFrame
  have hr : f.reader = readerEgo := by unfold SFrame.reader; rw [hf]
  rw [hr]
  show evalWith (readerMap e) C (f.ests.map (SObj.toMap e)) (f.gts.map (SObj.toMap e)) = _
  apply evalWith_congr readerEgo (readerMap e) C (SObj.toMap e) f.ests f.gts (fun _ => rfl)
  · intro P o _
    exact verdict_toMap e h P o
  · intro a ha g hg
    exact scoreRow_unsigned_toMap e h he a.obj g.obj (hd a (List.mem_append_left _ ha))
      (hd g (List.mem_append_right _ hg))
  · intro a _ b _
    exact samePose_toMap e h a.obj b.obj

/-- spelled out: the components of the two results -/
theorem evalFrame_toMap_components (C : EvalCfg) (e : Pose) (f : SFrame) (hok : FrameOK e f)
    (m b : FrameOut) (hm : evalFrame C (f.toMap e) = .ok m) (hb : evalFrame C f = .ok b) :
    m.keptEst = b.keptEst ∧ m.keptGt = b.keptGt ∧ m.critEst = b.critEst ∧ m.critGt = b.critGt ∧
    m.table = b.table ∧ m.same = b.same ∧ m.out.matched = b.out.matched ∧
    m.out.pf.tp = b.out.pf.tp ∧ m.out.pf.fp = b.out.pf.fp ∧ m.out.pf.tn = b.out.pf.tn ∧ m.out.pf.fn = b.out.pf.fn ∧
    m.out.maps = b.out.maps ∧ m.tracks = b.tracks := by
  rw [evalFrame_toMap C e f hok, hb] at hm
  cases hm
  simp

/-- what `out.matched` is: `Matching.getObjectResults` on the scene whose values are the entries of the
result's own score table (labels of the kept objects, the frame id of the rendering) -/
theorem evalFrame_matched (C : EvalCfg) (f : SFrame) (o : FrameOut) (h : evalFrame C f = .ok o) :
    ∃ aE aG : List Attr, aE.map (·.tag.id) = o.keptEst ∧ aG.map (·.tag.id) = o.keptGt ∧
      Matching.getObjectResults C.matcher
        (mkFrame C f.reader.frame aE aG o.critEst o.critGt o.table (eqKeys o.same)).scene = .ok o.out.matched ∧
      Pipeline.detectFrame (mkFrame C f.reader.frame aE aG o.critEst o.critGt o.table (eqKeys o.same)) = .ok o.out := by
  unfold evalFrame evalWith at h
  split at h
  · cases h
  · rename_i kE _
    split at h
    · cases h
    · rename_i kG _
      unfold evalKept at h
      split at h
      · cases h
      · rename_i cE _
        split at h
        · cases h
        · rename_i cG _
          unfold finish at h
          simp only at h
          split at h
          · cases h
          · rename_i out hdet
            cases h
            refine ⟨kE.map (·.attr), kG.map (·.attr), rfl, rfl, ?_, hdet⟩
            unfold Pipeline.detectFrame at hdet
            split at hdet
            · cases hdet
            · rename_i rs hrs
              split at hdet
              · cases hdet
              · split at hdet
                · cases hdet
                · cases hdet
                  exact hrs

/-- every frame of a history, each with its own ego pose -/
theorem evalHistory_toMap (C : EvalCfg) (hist : List (Pose × SFrame)) (hok : ∀ p ∈ hist, FrameOK p.1 p.2) :
    evalHistory C (histToMap hist) = evalHistory C (histEgo hist) := by
  unfold evalHistory histToMap histEgo
  rw [mapE_map (f := fun p : Pose × SFrame => evalFrame C p.2) (g := evalFrame C)
        (r := fun p : Pose × SFrame => p.2.toMap p.1) (fun p hp => evalFrame_toMap C p.1 p.2 (hok p hp)),
      mapE_map (f := fun p : Pose × SFrame => evalFrame C p.2) (g := evalFrame C)
        (r := fun p : Pose × SFrame => p.2) (fun _ _ => rfl)]

/-- **C07, histories**: the CLEAR fold over the frames (TP weight, FP, ID switches, score sum) -/
theorem clear_toMap (C : EvalCfg) (hist : List (Pose × SFrame)) (hok : ∀ p ∈ hist, FrameOK p.1 p.2) :
    clearOf C (histToMap hist) = clearOf C (histEgo hist) := by
  unfold clearOf
  rw [evalHistory_toMap C hist hok]

/-- … and the tracking score of the scene: per target label MOTA, MOTP, ID switches, and their sums -/
theorem tracking_toMap (C : EvalCfg) (hist : List (Pose × SFrame)) (hok : ∀ p ∈ hist, FrameOK p.1 p.2) :
    trackingOf C (histToMap hist) = trackingOf C (histEgo hist) := by
  unfold trackingOf
  rw [evalHistory_toMap C hist hok]

/-! ### a concrete frame: the overpass scene with estimates, both filters, matcher, metrics

Ground truths: the car on the overpass (id 0, 6.7 m away in bird's-eye view, 7 m up), a sparse car (id 1,
3 points), a car (id 2).  Estimates: one near each.  Ring filter 8 m … 60 m, or x/y box with at least 5 points. -/

def exAttr (i : Nat) (pc : Int) : Attr :=
  { tag := exTag i pc, mlabel := "car", alabel := 2, uid := 100 + i, stamp := 7 }
def exEstAttr (i : Nat) (c : Rat) : Attr :=
  { tag := { exTag i 0 with score := c, pcNum := none, uuid := none }, mlabel := "car", alabel := 2, uid := 200 + i, stamp := 7 }
def exOverEst : Obj := { exOver with box := { exOver.box with center := ⟨25/4, 3, 7⟩ } }
def exGt2 : Obj := { box := { center := ⟨-12, 5, 1/2⟩, rot := ⟨0, 1⟩, w := 2, l := 4, h := 3/2 }, tau := 1/2 }
def exEst2 : Obj := { exGt2 with box := { exGt2.box with center := ⟨-12, 21/4, 1/2⟩ } }

def exFrame : SFrame :=
  { frameId := .baseLink, pose := exHigh
    ests := [⟨exEstAttr 10 (9/10), exOverEst⟩, ⟨exEstAttr 11 (4/5), exEst⟩, ⟨exEstAttr 12 (7/10), exEst2⟩]
    gts := [⟨exAttr 0 10, exOver⟩, ⟨exAttr 1 3, exGt⟩, ⟨exAttr 2 5, exGt2⟩] }

def exCfg (flt : Filter.Params) : EvalCfg :=
  { mgr := flt, crit := flt
    matcher := { policy := .default, mode := .centerDistance, targets := some ["car"], thresholds := some [4],
                 fpValidation := false }
    dist := id, pfTargets := [2], pfThrs := some [4], critTargets := [2], mapTargets := [2]
    maps := [⟨.centerDistance, [1]⟩], trackMode := .centerDistance, trackTargets := [(2, 1)] }

example : FrameOK exHigh exFrame := by
  refine ⟨by unfold Rot2.IsUnit exHigh; norm_num, by decide +kernel, rfl, by decide +kernel⟩

/-- instance of `evalFrame_toMap`, ring filter: the overpass pair is removed in both renderings, two pairs are
matched and counted TP -/
def exRingSummary : Summary :=
  { keptEst := [11, 12], keptGt := [1, 2], matched := [(1, some 1), (0, some 0)], tp := [12, 11], fp := [],
    tn := [], fn := [], maps := [(some 1, some (128881/160000))] }

example : (evalFrame (exCfg exRing) (exFrame.toMap exHigh)).map FrameOut.summary = .ok exRingSummary ∧
    (evalFrame (exCfg exRing) exFrame).map FrameOut.summary = .ok exRingSummary := by
  decide +kernel

/-- the statement of `evalFrame_toMap` FAILS for the map branch that takes the 3-D norm for the distance ring
(seed C07_J): the overpass pair (9.7 m in 3-D) passes the 8 m ring in the map rendering only -/
theorem evalFrame_toMap_fails_J :
    ¬ (evalFrameV readerMapJ (exCfg exRing) (exFrame.toMap exHigh) = evalFrameV readerMapJ (exCfg exRing) exFrame) := by
  intro h
  have h' := congrArg (fun r => r.map FrameOut.summary) h
  revert h'
  decide +kernel

example : (evalFrameV readerMapJ (exCfg exRing) (exFrame.toMap exHigh)).map (fun o => (o.summary.keptGt, o.summary.tp))
      = .ok ([0, 1, 2], [10, 12, 11]) ∧
    (evalFrameV readerMapJ (exCfg exRing) exFrame).map (fun o => (o.summary.keptGt, o.summary.tp)) = .ok ([1, 2], [12, 11]) := by
  decide +kernel

/-- … and for the map branch that skips the point-count criterion when no distance bound is configured
(seed C07_G): the sparse ground truth (3 points < 5) survives in the map rendering only -/
theorem evalFrame_toMap_fails_G :
    ¬ (evalFrameV readerMapG (exCfg exBox) (exFrame.toMap exHigh) = evalFrameV readerMapG (exCfg exBox) exFrame) := by
  intro h
  have h' := congrArg (fun r => r.map FrameOut.summary) h
  revert h'
  decide +kernel

example : (evalFrameV readerMapG (exCfg exBox) (exFrame.toMap exHigh)).map (fun o => (o.summary.keptGt, o.summary.tp))
      = .ok ([0, 1, 2], [10, 12, 11]) ∧
    (evalFrameV readerMapG (exCfg exBox) exFrame).map (fun o => (o.summary.keptGt, o.summary.tp)) = .ok ([0, 2], [10, 12]) ∧
    (evalFrame (exCfg exBox) (exFrame.toMap exHigh)).map (fun o => (o.summary.keptGt, o.summary.tp)) = .ok ([0, 2], [10, 12]) := by
  decide +kernel

/-- … and for a map branch whose `__eq__` has a relative tolerance: twin ground truths 1/1024 m apart, 10⁶ m
from the map origin, one of them matched.  The unmatched twin is FN in the ego rendering; in the map rendering it
"is in" the list of matched ground truths and is counted nowhere.  (`samePose_toMap` is what rules this out.) -/
def exTwinFrame : SFrame :=
  { frameId := .baseLink, pose := exFar
    ests := [⟨exEstAttr 10 (9/10), exTwinA⟩]
    gts := [⟨exAttr 0 10, exTwinA⟩, ⟨exAttr 1 10, exTwinB⟩] }

example : FrameOK exFar exTwinFrame :=
  ⟨by unfold Rot2.IsUnit exFar; norm_num, by decide +kernel, rfl, by decide +kernel⟩

theorem evalFrame_toMap_fails_E :
    ¬ (evalFrameV readerMapE (exCfg exBox) (exTwinFrame.toMap exFar) = evalFrameV readerMapE (exCfg exBox) exTwinFrame) := by
  intro h
  have h' := congrArg (fun r => r.map FrameOut.summary) h
  revert h'
  decide +kernel

example : (evalFrameV readerMapE (exCfg exBox) (exTwinFrame.toMap exFar)).map (fun o => (o.summary.tp, o.summary.fn)) = .ok ([10], []) ∧
    (evalFrameV readerMapE (exCfg exBox) exTwinFrame).map (fun o => (o.summary.tp, o.summary.fn)) = .ok ([10], [1]) ∧
    (evalFrame (exCfg exBox) (exTwinFrame.toMap exFar)).map (fun o => (o.summary.tp, o.summary.fn)) = .ok ([10], [1]) := by
  decide +kernel

/-- with the real readers the variants' dispatch is `evalFrame` -/
example (C : EvalCfg) (f : SFrame) : evalFrameV readerMap C f = evalFrame C f := by
  unfold evalFrameV evalFrame SFrame.reader
  cases f.frameId <;> rfl

/-- a history of two frames with different ego poses: the second frame swaps the uuids of two estimates, so
CLEAR counts ID switches; the fold agrees (instance of `clear_toMap`) and is not trivial -/
def exFrame2 : SFrame :=
  { exFrame with
    ests := [⟨exEstAttr 10 (9/10), exOverEst⟩, ⟨{ exEstAttr 12 (4/5) with uid := 212 }, exEst⟩,
             ⟨{ exEstAttr 11 (7/10) with uid := 211 }, exEst2⟩] }
def exHist : List (Pose × SFrame) := [(exHigh, exFrame), (exFar, exFrame2)]

example : ∀ p ∈ exHist, FrameOK p.1 p.2 := by
  intro p hp
  simp only [exHist, List.mem_cons, List.not_mem_nil, or_false] at hp
  rcases hp with rfl | rfl
  · exact ⟨by unfold Rot2.IsUnit exHigh; norm_num, by decide +kernel, rfl, by decide +kernel⟩
  · exact ⟨by unfold Rot2.IsUnit exFar; norm_num, by decide +kernel, rfl, by decide +kernel⟩

example : clearOf (exCfg exRing) (histToMap exHist) = .ok ⟨4, 0, 2, 9/8⟩ ∧
    clearOf (exCfg exRing) (histEgo exHist) = .ok ⟨4, 0, 2, 9/8⟩ := by
  decide +kernel

end PEval.C07
