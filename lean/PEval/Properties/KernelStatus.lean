import PEval.Lemmas.MatchKernelsDT
import PEval.Gen.KStatus
/-!
# Decision tables of `is_label_correct`, `is_result_correct`, `get_status` (serve C03, C08)

`PEval.Gen.K.labelCorrect / resultCorrect / status .tree`: the REAL methods of `DynamicObjectWithPerceptionResult` run
on a symbolic result (ground truth possibly `None`, the four matching attributes possibly `None`, their values possibly
`None`, label compatibility one atom, threshold possibly `None`) for every member of `MatchingMode`; the real
`is_better_than` of the attribute's class runs inside. Results: Boolean / rejected / the pair of statuses.

Pinned / open. C03: "A TP always has a label-compatible ground truth whose pass/fail score beats the threshold configured
for that ground truth's label"; C08: "a result that is a TP at some matching threshold is still a TP at every looser
threshold (larger distance, smaller IoU)". Neither text says what the kernels do with an IoU threshold outside [0, 1]
(today `is_better_than` asserts; a maintainer may validate in `get_status`, elsewhere, or not at all), so the per-run
obligations of `is_result_correct` and `get_status` are stated for the valuations avoiding `forbIoU`; in-quantifier
predicate `thrOk m thr` (no threshold, or one on the mode's scale; `valAP_consistent`). The pass/fail model (plane
distance) is inside for every threshold (`valPF_consistent`). `is_label_correct` reads no threshold: pinned everywhere.
-/
namespace PEval.KernelStatus
open PEval PEval.DT PEval.MatchKernels

/-- THE per-run obligations -/
theorem labelCorrect_table_check : tableOk [] Gen.K.labelCorrect.tree labelCorrectTree = true := by decide +kernel
theorem resultCorrect_table_check : tableOk forbIoU Gen.K.resultCorrect.tree resultCorrectTree = true := by decide +kernel
theorem status_table_check : tableOk forbIoU Gen.K.status.tree statusTree = true := by decide +kernel

theorem labelCorrect_code_table_eq_model : ∀ t, Gen.K.labelCorrect.tree = some t → ∀ v : Val, eval t v = labelCorrectAtoms v :=
  fun t ht v => tableOk_sound labelCorrect_table_check t ht v (consistent_nil v)
theorem resultCorrect_code_table_eq_model : ∀ t, Gen.K.resultCorrect.tree = some t →
    ∀ v : Val, consistent forbIoU v = true → eval t v = resultCorrectAtoms v :=
  fun t ht v hv => tableOk_sound resultCorrect_table_check t ht v hv
theorem status_code_table_eq_model : ∀ t, Gen.K.status.tree = some t →
    ∀ v : Val, consistent forbIoU v = true → eval t v = statusAtoms v :=
  fun t ht v hv => tableOk_sound status_table_check t ht v hv

/-- bridges (all inputs): the metrics model (`PEval.AP`, four modes, method possibly absent) -/
theorem resultCorrect_eq_skeleton (m : AP.Mode) (thr : Option Rat) (r : AP.Res) :
    resultCorrectAtoms (valAP m thr r) = ofBool (AP.isResultCorrect m thr r) := resultCorrect_bridge_AP m thr r
theorem status_eq_skeleton (m : AP.Mode) (thr : Option Rat) (r : AP.Res) :
    statusAtoms (valAP m thr r) = ofStatusAP (AP.getStatus m thr r) := status_bridge_AP m thr r
/-- bridges (all inputs): the pass/fail model (`PEval.PassFail`, plane distance) -/
theorem resultCorrect_eq_skeleton_passfail (r : PassFail.Res) :
    resultCorrectAtoms (valPF r) = .ret (PassFail.isResultCorrect r) := resultCorrect_bridge_PF r
theorem status_eq_skeleton_passfail (r : PassFail.Res) :
    statusAtoms (valPF r) = .other (statusCodePF (PassFail.getStatus r)) := status_bridge_PF r

/-- the CODE's tables at the atoms of a concrete result give the models' verdicts -/
theorem labelCorrect_code_table_eq_isLabelCorrect :
    ∀ t, Gen.K.labelCorrect.tree = some t → ∀ (m : AP.Mode) (thr : Option Rat) (r : AP.Res),
      eval t (valAP m thr r) = .ret (AP.isLabelCorrect r) := by
  intro t ht m thr r
  rw [labelCorrect_code_table_eq_model t ht]; exact labelCorrect_bridge_AP m thr r

theorem resultCorrect_code_table_eq_isResultCorrect :
    ∀ t, Gen.K.resultCorrect.tree = some t → ∀ (m : AP.Mode) (thr : Option Rat) (r : AP.Res), thrOk m thr →
      eval t (valAP m thr r) = ofBool (AP.isResultCorrect m thr r) := by
  intro t ht m thr r hv
  rw [resultCorrect_code_table_eq_model t ht _ (valAP_consistent m thr r hv)]; exact resultCorrect_bridge_AP m thr r

theorem status_code_table_eq_getStatus :
    ∀ t, Gen.K.status.tree = some t → ∀ (m : AP.Mode) (thr : Option Rat) (r : AP.Res), thrOk m thr →
      eval t (valAP m thr r) = ofStatusAP (AP.getStatus m thr r) := by
  intro t ht m thr r hv
  rw [status_code_table_eq_model t ht _ (valAP_consistent m thr r hv)]; exact status_bridge_AP m thr r

theorem resultCorrect_code_table_eq_passfail :
    ∀ t, Gen.K.resultCorrect.tree = some t → ∀ r : PassFail.Res, eval t (valPF r) = .ret (PassFail.isResultCorrect r) := by
  intro t ht r
  rw [resultCorrect_code_table_eq_model t ht _ (valPF_consistent r)]; exact resultCorrect_bridge_PF r

theorem status_code_table_eq_passfail :
    ∀ t, Gen.K.status.tree = some t → ∀ r : PassFail.Res,
      eval t (valPF r) = .other (statusCodePF (PassFail.getStatus r)) := by
  intro t ht r
  rw [status_code_table_eq_model t ht _ (valPF_consistent r)]; exact status_bridge_PF r

/-- for the code's table (C03): the statuses form one of the five documented pairs; an estimate is TP only together with
its ground truth, and then the label is compatible and (there is no threshold or) the score beats it -/
theorem table_status_tp_sound {t : DTree} (ht : Gen.K.status.tree = some t) (r : PassFail.Res)
    (h : eval t (valPF r) = .other sTpTp) :
    ∃ g, r.gt = some g ∧ g.isFP = false ∧ r.labelOk = true ∧
      (r.thr = none ∨ ∃ x s, r.thr = some x ∧ r.score = some s ∧ s < x) := by
  rw [status_code_table_eq_passfail t ht] at h
  unfold PassFail.getStatus at h
  cases hg : r.gt with
  | none => simp [hg, statusCodePF, sFpNone, sTpTp] at h
  | some g =>
    rw [hg] at h
    simp only [] at h
    cases hc : PassFail.isResultCorrect r <;> cases hf : g.isFP <;>
      simp [hc, hf, statusCodePF, sTpTp, sFpTn, sFpFp, sFpFn] at h
    refine ⟨g, rfl, hf, ?_⟩
    unfold PassFail.isResultCorrect at hc
    rw [hg] at hc
    cases ht' : r.thr with
    | none => simp [ht'] at hc; exact ⟨hc, Or.inl rfl⟩
    | some x =>
      simp [ht', hf] at hc
      refine ⟨hc.2, Or.inr ⟨x, ?_⟩⟩
      cases hs : r.score with
      | none => simp [hs, PassFail.isBetterThan] at hc
      | some s => exact ⟨s, rfl, rfl, by simpa [hs, PassFail.isBetterThan] using hc.1⟩

/-- for the code's table (C03): a result without ground truth is (FP, None); a ground truth is never reported twice -/
theorem table_status_no_gt {t : DTree} (ht : Gen.K.status.tree = some t) (r : PassFail.Res) (h : r.gt = none) :
    eval t (valPF r) = .other sFpNone := by
  rw [status_code_table_eq_passfail t ht]; simp [PassFail.getStatus, h, statusCodePF]

/-- non-vacuity on an unchanged tree -/
example : ∀ t, Gen.K.status.tree = some t →
    eval t (valPF { est := 0, estCrit := true, gt := some ⟨0, false, true, 0⟩, labelOk := true, thr := some 2, score := some 1 })
      = .other sTpTp
    ∧ eval t (valPF { est := 0, estCrit := true, gt := some ⟨0, false, true, 0⟩, labelOk := true, thr := some 1, score := some 1 })
      = .other sFpFn := by
  intro t ht
  simp only [status_code_table_eq_passfail t ht]
  decide +kernel

/-- non-vacuity of the in-quantifier predicate `thrOk` and of the restricted corollaries: an IoU result at threshold 1/2 -/
example : ∀ t, Gen.K.status.tree = some t →
    eval t (valAP .iou3d (some (1/2)) { id := 0, conf := 1, label := 2, gt := some ⟨0, 2⟩, score := .val (some (3/4)), hw := 1, policy := .default })
      = .other sTpTp := by
  intro t ht
  rw [status_code_table_eq_getStatus t ht _ _ _ (thrOk_some (by decide +kernel))]
  decide +kernel

end PEval.KernelStatus
