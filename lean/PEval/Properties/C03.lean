import PEval.Properties.C03Core
import PEval.Properties.Pipeline
import PEval.Properties.KernelStatus
/-!
# C03 — per-frame TP/FP/FN/TN accounting conserves objects (root of the property)

* `PEval/Properties/C03Core.lean` (namespace `PEval.C03`): the property theorems about the pass/fail
  model, the conservation theorems under the decidable well-formedness hypothesis `MatcherWF`.
* `PEval/Properties/Pipeline.lean` (namespace `PEval.PipelineProps`): the composition with the matcher
  model — `matcher_output_wf` (C01's guarantees ARE `MatcherWF`), hence `pipeline_conservation`,
  `pipeline_accounting_perm`, `pipeline_num_total`, `pipeline_tp_fp_exactly_one`,
  `pipeline_history_conservation` with no well-formedness hypothesis left.

The core is a separate module only because the composition imports it (no import cycle); the audit
of `./check C03` imports this root and therefore sees both.
-/
