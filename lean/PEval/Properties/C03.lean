import PEval.Properties.C03Core
import PEval.Properties.C03Critical
import PEval.Properties.Pipeline
import PEval.Properties.KernelStatus
import PEval.Properties.C03Eval
/-!
# C03 — per-frame TP/FP/FN/TN accounting conserves objects (root of the property)

* `PEval/Properties/C03Core.lean` (namespace `PEval.C03`): the property theorems about the pass/fail
  model, the conservation theorems under the decidable well-formedness hypothesis `MatcherWF`.
* `PEval/Properties/Pipeline.lean` (namespace `PEval.PipelineProps`): the composition with the matcher
  model — `matcher_output_wf` (C01's guarantees ARE `MatcherWF`), hence `pipeline_conservation`,
  `pipeline_accounting_perm`, `pipeline_num_total`, `pipeline_tp_fp_exactly_one`,
  `pipeline_history_conservation` with no well-formedness hypothesis left.
* `PEval/Properties/C03Critical.lean` (namespace `PEval.C03`): the critical region on objects WITH positions, frame
  ids and transforms (`PEval/Model/CriticalFrame.lean`), both filter call sites of `evaluate_frame` modelled
  separately: `critical_sound` (nothing outside the region is counted, on the ego-relative position, whichever frame),
  `critical_sites_agree`, `critical_refines` (+ transfer of the counting theorems), `critical_frame_free` /
  `evaluateFrame_toMap`; each refuted for the F2-defective wiring (`f2_*`).
* `PEval/Properties/Pipeline.lean` section (v): `pipeline_tp_sound` — TP soundness stated on the pipeline's inputs
  (policy, pass/fail target and threshold lists, plane-distance table), refuted for the estimate-label keying
  (`estLabel_not_tp_sound`); `negative_label_choice`.
* `PEval/Properties/C03Eval.lean` (namespace `PEval.C03`): the JOIN of the two halves above, stated over the composed
  whole-frame model `FrameChange.evalFrame` (manager filter → score table from the boxes → matcher → critical verdicts
  from the positions → `Pipeline.detectFrame`), where neither the critical flags nor `labelOk` / `thr` / `score` nor the
  pairing are inputs: `eval_critical_sound` (+ `eval_counted_range`, `eval_critical_sound_toMap`), `eval_tp_sound`,
  `eval_conservation` / `eval_accounting_perm` / `eval_critical_gts` / `eval_num_total` / `eval_tp_fp_exactly_one` /
  `eval_matcher_wf` / `eval_history_conservation` under the single input hypothesis `ObjectsDistinct`,
  `eval_gt_sites_agree`; refutations `eval_f2_not_critical_sound`, `eval_estLabel_not_tp_sound`,
  `eval_dup_gt_breaks_conservation`; `gtConfOK_nonvacuous`.

The core is a separate module only because the composition imports it (no import cycle); the audit
of `./check C03` imports this root and therefore sees both.
-/
