import PEval.Lemmas.MatchKernelsDT
import PEval.Gen.KCell
/-!
# Decision table of one cell of `_get_score_table` (serves C01)

`PEval.Gen.K.cell.tree`: the REAL `_get_score_table` run on one symbolic estimate and one symbolic ground truth, per
matching class: atoms `same_frame`, `thr[gt].none` (what `get_label_threshold` answered for the label it was called
with: the threshold term is NAMED after that label, so a lookup with the estimate's label shows as another atom), the
order atoms of the radius gate and `matchable`. Result: NaN, or (score, label flag).

Pinned / open. C01: "only pairs objects expressed in the same coordinate/camera frame, and, when a maximum matchable radius
is configured for the ground truth's label, only pairs objects closer than that radius". A radius is a threshold of the
mode's scale; the text does not say what happens for an IoU radius outside [0, 1] (today the assertion of
`is_better_than` fires). The per-run obligation is stated for the valuations avoiding `forbIoU`; in-quantifier predicate:
`thrOk (toAP c.mode) rd` (no radius, or one on the scale - `valCell_consistent`). Frame test, lookup by the GROUND TRUTH's
label, direction and strictness of the gate, and the label flag stay pinned; the distance classes for every radius.
-/
namespace PEval.KernelCell
open PEval PEval.DT PEval.MatchKernels PEval.Matching

/-- THE per-run obligation -/
theorem cell_table_check : tableOk forbIoU Gen.K.cell.tree cellTree = true := by decide +kernel

theorem cell_code_table_eq_model : ∀ t, Gen.K.cell.tree = some t →
    ∀ v : Val, consistent forbIoU v = true → eval t v = cellAtoms v :=
  fun t ht v hv => tableOk_sound cell_table_check t ht v hv

/-- the bridge: the model's `cell` is the skeleton applied to the atoms of the input (all inputs whose threshold lookup
does not raise) -/
theorem cell_eq_skeleton (c : Cfg) (e g : Obj) (v : Rat) (rd : Option Rat)
    (hr : labelThreshold c.targets c.thresholds g.label = .ok rd) :
    cellAtoms (valCell c e g v rd) = ofCell (cell c e g v) := cell_bridge c e g v rd hr

theorem cell_code_table_eq_cell :
    ∀ t, Gen.K.cell.tree = some t → ∀ (c : Cfg) (e g : Obj) (v : Rat) (rd : Option Rat),
      labelThreshold c.targets c.thresholds g.label = .ok rd → thrOk (toAP c.mode) rd →
      eval t (valCell c e g v rd) = ofCell (cell c e g v) := by
  intro t ht c e g v rd hr hv
  rw [cell_code_table_eq_model t ht _ (valCell_consistent c e g v rd hv)]; exact cell_bridge c e g v rd hr

/-- C01 for the code's table: a cell holds a score exactly when the frames agree and the value beats the radius of the
GROUND TRUTH's label (or that label has none); a value equal to the radius gives NaN -/
theorem table_cell_nan_on_radius {t : DTree} (ht : Gen.K.cell.tree = some t) (c : Cfg) (e g : Obj) (v : Rat)
    (hr : labelThreshold c.targets c.thresholds g.label = .ok (some v)) (hm : c.mode.maximize = false) :
    eval t (valCell c e g v (some v)) = .other cellNan := by
  have hd : (toAP c.mode).isDistance = true := by
    cases hc : c.mode <;> simp [hc, Mode.maximize] at hm <;> rfl
  rw [cell_code_table_eq_cell t ht c e g v (some v) hr (thrOk_distance hd _)]
  unfold cell
  rw [hr]
  cases hf : (e.frame == g.frame) <;>
    simp [ofCell, Cell.nan, isBetterThan, hm, better, bind, Except.bind, pure, Except.pure]

/-- the same for an IoU class and a radius in [0, 1] -/
theorem table_cell_nan_on_radius_iou {t : DTree} (ht : Gen.K.cell.tree = some t) (c : Cfg) (e g : Obj) (v : Rat)
    (hr : labelThreshold c.targets c.thresholds g.label = .ok (some v)) (hv : AP.thrValid (toAP c.mode) v = true) :
    eval t (valCell c e g v (some v)) = .other cellNan := by
  rw [cell_code_table_eq_cell t ht c e g v (some v) hr (thrOk_some hv)]
  have hb : isBetterThan c.mode v v = .ok false := by
    rw [matching_isBetterThan, isBetterThan_eq, hv]
    simp [optBetter, AP.isBetter]
  unfold cell
  rw [hr]
  cases hf : (e.frame == g.frame) <;>
    simp [ofCell, Cell.nan, hb, bind, Except.bind, pure, Except.pure]

theorem table_cell_other_frame {t : DTree} (ht : Gen.K.cell.tree = some t) (c : Cfg) (e g : Obj) (v : Rat) (rd : Option Rat)
    (hr : labelThreshold c.targets c.thresholds g.label = .ok rd) (hv : thrOk (toAP c.mode) rd)
    (hf : (e.frame == g.frame) = false) :
    eval t (valCell c e g v rd) = .other cellNan := by
  rw [cell_code_table_eq_cell t ht c e g v rd hr hv]
  simp [cell, hf, ofCell, Cell.nan, pure, Except.pure]

/-- non-vacuity of the in-quantifier predicate: no radius; a distance radius of any size; an IoU radius in [0, 1] -/
example : thrOk .iou3d none ∧ thrOk .centerDistance (some 40) ∧ thrOk .iou2d (some (1/2)) ∧ ¬ thrOk .iou2d (some 2) := by
  refine ⟨thrOk_none _, thrOk_distance rfl _, thrOk_some (by decide +kernel), ?_⟩
  intro h
  exact absurd (h 2 rfl) (by decide +kernel)

end PEval.KernelCell
