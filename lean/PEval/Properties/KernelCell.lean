import PEval.Lemmas.MatchKernelsDT
import PEval.Gen.KCell
/-!
# Decision table of one cell of `_get_score_table` (serves C01)

`PEval.Gen.K.cell.tree`: the REAL `_get_score_table` run on one symbolic estimate and one symbolic ground truth, per
matching class: atoms `same_frame`, `thr[gt].none` (what `get_label_threshold` answered for the label it was called
with: the threshold term is NAMED after that label, so a lookup with the estimate's label shows as another atom), the
order atoms of the radius gate and `matchable`. Result: NaN, or (score, label flag).
-/
namespace PEval.KernelCell
open PEval PEval.DT PEval.MatchKernels PEval.Matching

/-- THE per-run obligation -/
theorem cell_table_check : tableOk [] Gen.K.cell.tree cellTree = true := by decide +kernel

theorem cell_code_table_eq_model : ∀ t, Gen.K.cell.tree = some t → ∀ v : Val, eval t v = cellAtoms v :=
  fun t ht v => tableOk_sound cell_table_check t ht v (consistent_nil v)

/-- the bridge: the model's `cell` is the skeleton applied to the atoms of the input (all inputs whose threshold lookup
does not raise) -/
theorem cell_eq_skeleton (c : Cfg) (e g : Obj) (v : Rat) (rd : Option Rat)
    (hr : labelThreshold c.targets c.thresholds g.label = .ok rd) :
    cellAtoms (valCell c e g v rd) = ofCell (cell c e g v) := cell_bridge c e g v rd hr

theorem cell_code_table_eq_cell :
    ∀ t, Gen.K.cell.tree = some t → ∀ (c : Cfg) (e g : Obj) (v : Rat) (rd : Option Rat),
      labelThreshold c.targets c.thresholds g.label = .ok rd → eval t (valCell c e g v rd) = ofCell (cell c e g v) := by
  intro t ht c e g v rd hr
  rw [cell_code_table_eq_model t ht]; exact cell_bridge c e g v rd hr

/-- C01 for the code's table: a cell holds a score exactly when the frames agree and the value beats the radius of the
GROUND TRUTH's label (or that label has none); a value equal to the radius gives NaN -/
theorem table_cell_nan_on_radius {t : DTree} (ht : Gen.K.cell.tree = some t) (c : Cfg) (e g : Obj) (v : Rat)
    (hr : labelThreshold c.targets c.thresholds g.label = .ok (some v)) (hm : c.mode.maximize = false) :
    eval t (valCell c e g v (some v)) = .other cellNan := by
  rw [cell_code_table_eq_cell t ht c e g v (some v) hr]
  unfold cell
  rw [hr]
  cases hf : (e.frame == g.frame) <;>
    simp [ofCell, Cell.nan, isBetterThan, hm, better, bind, Except.bind, pure, Except.pure]

theorem table_cell_other_frame {t : DTree} (ht : Gen.K.cell.tree = some t) (c : Cfg) (e g : Obj) (v : Rat) (rd : Option Rat)
    (hr : labelThreshold c.targets c.thresholds g.label = .ok rd) (hf : (e.frame == g.frame) = false) :
    eval t (valCell c e g v rd) = .other cellNan := by
  rw [cell_code_table_eq_cell t ht c e g v rd hr]
  simp [cell, hf, ofCell, Cell.nan, pure, Except.pure]

end PEval.KernelCell
