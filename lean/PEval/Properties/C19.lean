import PEval.Lemmas.AnalyzerRates
import PEval.Lemmas.AnalyzerSelect
import PEval.Lemmas.AnalyzerErrors
import PEval.Lemmas.AnalyzerAreas
import PEval.Lemmas.AnalyzerPassFail
import PEval.Lemmas.AnalyzerDT
import PEval.Lemmas.AnalyzerConfusion
import PEval.Lemmas.AnalyzerFrames
import PEval.Lemmas.AnalyzerSummary
import PEval.Lemmas.AnalyzerStatusRates
import PEval.Gen.AnalyzerDT
/-!
# C19 — analysis tables are a faithful tabulation of the frame results

All statements are about the model `PEval.Analyzer` (`Model/Analyzer.lean`), for **all** lists of scenes,
frames and pass/fail lists (no size bound), every area function and every selection.

Notation: `T = (addAll area scenes).table` is the DataFrame after one `add` per scene on a fresh
analyzer; `sumN (scenes.flatten.map c)` is the sum of `c` over all frames; `Frame.WF` is what
`PassFailResult.evaluate` guarantees (`passFail_wf`); `f.fpOrd` are the ORDINARY ground truths carried by
FP results of `f` — the objects of known finding F11.

The property text asks `num_ground_truth = #critical ground truths` and "each ground truth once per
frame".  The code does not satisfy that (F11); the model follows the code and the pairs
`num_gt_exact` / `num_gt_eq_critical_partial` and `object_status_total_exact` /
`object_status_once_partial` characterise the deviation exactly.  Likewise `rates_in_unit_label_partial`
/ `label_tp_rate_exact` for finding N1 (per-label TP rate above one) and `num_props_empty` for N2.
-/

namespace PEval.C19
open PEval.Analyzer

variable (area : Rat → Rat → Option Nat) (scenes : List (List Frame))

/-! ## row layout -/

/-- **rows_per_item.** Forgetting the index, the table is exactly the concatenation, scene by scene and
frame by frame, of one row pair per TP result, FP result, TN object and FN object (`allItemsFrom`,
spelled out by `frame_block`); in particular its length is the number of items. -/
theorem rows_per_item :
    (addAll area scenes).table.map RowPair.strip = allItemsFrom area 0 scenes ∧
    (addAll area scenes).table.length = sumN (scenes.flatten.map Frame.items) ∧
    (addAll area scenes).numScene = scenes.length :=
  ⟨addAll_strip area scenes, table_length area scenes, addAll_numScene area scenes⟩

/-- **frame_block.** The block of one frame: a TP/FP result gives the pair (ground-truth row if the
result has one — else the NaN row —, estimate row), both with the list's status and the area of the
estimate; a TN/FN object gives (ground-truth row, NaN row). -/
theorem frame_block (k : Nat) (f : Frame) :
    frameItems area k f =
      f.tp.map (fun p => (p.gt.map fun g => (⟨.TP, g, area p.est.x p.est.y, f.frameNum, k⟩ : Cell),
                          some ⟨.TP, p.est, area p.est.x p.est.y, f.frameNum, k⟩)) ++
      f.fp.map (fun p => (p.gt.map fun g => (⟨.FP, g, area p.est.x p.est.y, f.frameNum, k⟩ : Cell),
                          some ⟨.FP, p.est, area p.est.x p.est.y, f.frameNum, k⟩)) ++
      f.tn.map (fun o => (some ⟨.TN, o, area o.x o.y, f.frameNum, k⟩, none)) ++
      f.fn.map (fun o => (some ⟨.FN, o, area o.x o.y, f.frameNum, k⟩, none)) := rfl

/-- **index_range.** Row pairs are numbered `0, 1, 2, …` in table order. -/
theorem index_range :
    (addAll area scenes).table.map (·.index) = List.range (addAll area scenes).table.length :=
  addAll_index area scenes

/-- **rows_per_item_flat.** The DataFrame has two rows per pair: `(i, ground_truth)` then `(i, estimation)`. -/
theorem rows_per_item_flat (t : Table) :
    t.rows.length = 2 * t.length ∧
    t.rows.map (fun r => (r.1, r.2.1)) = t.flatMap fun r => [(r.index, Side.groundTruth), (r.index, Side.estimation)] := by
  constructor
  · induction t with
    | nil => rfl
    | cons r t ih =>
      have : Table.rows (r :: t) = [(r.index, Side.groundTruth, r.gt), (r.index, Side.estimation, r.est)] ++ Table.rows t := rfl
      rw [this, List.length_append, ih]; simp; omega
  · induction t with
    | nil => rfl
    | cons r t ih =>
      have : Table.rows (r :: t) = [(r.index, Side.groundTruth, r.gt), (r.index, Side.estimation, r.est)] ++ Table.rows t := rfl
      rw [this, List.map_append, ih]; rfl

/-! ## counts -/

/-- the `num_*` properties return (rather than raise, finding N2) -/
def Returns (er : Bool) : Prop := er = false ∨ 0 < sumN (scenes.flatten.map Frame.items)

theorem numProp_ok (er : Bool) (h : Returns scenes er) (v : Nat) :
    numProp er (addAll area scenes).table v = .ok v := by
  unfold numProp
  rcases h with h | h
  · simp [h]
  · have : (addAll area scenes).table.isEmpty = false := by
      cases he : (addAll area scenes).table.isEmpty with
      | false => rfl
      | true => have := (table_isEmpty_iff area scenes).mp he; omega
    simp [this]

/-- **status_counts_eq_lists.** Per-status counts are the sizes of the frames' pass/fail lists. -/
theorem status_counts_eq_lists (er : Bool) (h : Returns scenes er) :
    numTP er (addAll area scenes).table = .ok (sumN (scenes.flatten.map fun f => f.tp.length)) ∧
    numFP er (addAll area scenes).table = .ok (sumN (scenes.flatten.map fun f => f.fp.length)) ∧
    numTN er (addAll area scenes).table = .ok (sumN (scenes.flatten.map fun f => f.tn.length)) ∧
    numFN er (addAll area scenes).table = .ok (sumN (scenes.flatten.map fun f => f.fn.length)) := by
  refine ⟨?_, ?_, ?_, ?_⟩
  · rw [numTP, numProp_ok area scenes er h, getNumTP_table]
  · rw [numFP, numProp_ok area scenes er h, getNumFP_table]
  · rw [numTN, numProp_ok area scenes er h, getNumTN_table]
  · rw [numFN, numProp_ok area scenes er h, getNumFN_table]

/-- **num_estimation_eq.** The estimate count is the number of evaluated estimates, |TP| + |FP|. -/
theorem num_estimation_eq (er : Bool) (h : Returns scenes er) :
    numEstimation er (addAll area scenes).table = .ok (sumN (scenes.flatten.map fun f => f.tp.length + f.fp.length)) := by
  rw [numEstimation, numProp_ok area scenes er h, getNumEstimation_table]

/-- **num_gt_exact (F11, exact).** With well-formed pass/fail lists the ground-truth count is the number
of critical ground truths PLUS the number of FP results carrying an ordinary (not FP-labelled) ground
truth: each of those objects sits in its FP row pair and again in an FN row. -/
theorem num_gt_exact (er : Bool) (h : Returns scenes er) (hwf : ∀ f ∈ scenes.flatten, f.WF) :
    numGroundTruth er (addAll area scenes).table =
      .ok (sumN (scenes.flatten.map fun f => f.critical.length) + sumN (scenes.flatten.map fun f => f.fpOrd.length)) := by
  rw [numGroundTruth, numProp_ok area scenes er h, getNumGroundTruth_table, ← sumN_map_add]
  congr 1
  exact sumN_map_congr _ _ _ (fun f hf => (hwf f hf).gtRows_eq)

/-- **num_gt_eq_critical_partial.** The property's count `num_ground_truth = #critical ground truths`
holds when no FP result carries an ordinary ground truth that also appears in FN.
(Full statement — the same conclusion without that hypothesis — is FALSE for the code: `num_gt_exact`,
`example_f11`.) -/
theorem num_gt_eq_critical_partial (er : Bool) (h : Returns scenes er) (hwf : ∀ f ∈ scenes.flatten, f.WF)
    (hno : ∀ f ∈ scenes.flatten, ∀ g ∈ f.fpOrd, g ∉ f.fn) :
    numGroundTruth er (addAll area scenes).table = .ok (sumN (scenes.flatten.map fun f => f.critical.length)) := by
  rw [num_gt_exact area scenes er h hwf]
  have : sumN (scenes.flatten.map fun f => f.fpOrd.length) = 0 := by
    apply sumN_map_zero
    intro f hf
    cases hl : f.fpOrd with
    | nil => rfl
    | cons g l =>
      have hg : g ∈ f.fpOrd := by simp [hl]
      exact absurd ((hwf f hf).fpOrd_sub_fn g hg) (hno f hf g hg)
  rw [this]; rfl

/-- **passFail_wf.** The lists produced by `PassFailResult.evaluate` (model `passFail`) are well formed
whenever the object results' ground truths are pairwise distinct critical ground truths; and the ordinary
ground truths it keeps in FP results are precisely the FN objects of its first loop (F11 at the source). -/
theorem passFail_wf (n : Nat) (critical : List Obj) (results : List (Pair × Bool))
    (hnd : critical.Nodup) (hres : (resGts results).Nodup) (hsub : ∀ g ∈ resGts results, g ∈ critical) :
    (passFail n critical results).WF ∧
    (passFail n critical results).fpOrd = gtsWith (· == some .FN) results :=
  ⟨passFail_WF n critical results hnd hres hsub, passFail_fpOrd n critical results⟩

/-- one evaluated frame: frame number, critical ground truths, object results with `is_result_correct` -/
abbrev Evaluated := Nat × List Obj × List (Pair × Bool)

def Evaluated.ok (i : Evaluated) : Prop :=
  i.2.1.Nodup ∧ (resGts i.2.2).Nodup ∧ ∀ g ∈ resGts i.2.2, g ∈ i.2.1

instance (i : Evaluated) : Decidable i.ok := by unfold Evaluated.ok; infer_instance

def Evaluated.frame (i : Evaluated) : Frame := passFail i.1 i.2.1 i.2.2

/-- **num_gt_exact_passFail.** End to end over `PassFailResult.evaluate`: the tabulated ground-truth
count is the number of critical ground truths plus the number of object results whose ground truth is
ordinary and whose estimate fails the threshold (GT status FN). -/
theorem num_gt_exact_passFail (inputs : List (List Evaluated)) (er : Bool)
    (hok : ∀ i ∈ inputs.flatten, i.ok)
    (h : Returns (inputs.map (·.map Evaluated.frame)) er) :
    numGroundTruth er (addAll area (inputs.map (·.map Evaluated.frame))).table =
      .ok (sumN (inputs.flatten.map fun i => i.2.1.length) +
           sumN (inputs.flatten.map fun i => (gtsWith (· == some .FN) i.2.2).length)) := by
  have hflat : (inputs.map (·.map Evaluated.frame)).flatten = inputs.flatten.map Evaluated.frame :=
    (List.map_flatten (f := Evaluated.frame) (L := inputs)).symm
  rw [num_gt_exact area _ er h]
  · rw [hflat, List.map_map, List.map_map]
    refine congrArg Except.ok ?_
    congr 1
    apply sumN_map_congr
    intro i _
    simp only [Function.comp_apply, Evaluated.frame, passFail_fpOrd]
  · intro f hf
    rw [hflat] at hf
    obtain ⟨i, hi, rfl⟩ := List.mem_map.mp hf
    obtain ⟨h1, h2, h3⟩ := hok i hi
    exact passFail_WF _ _ _ h1 h2 h3

/-! ## per-object tallies (`get_object_status`) -/

/-- **object_status_tallies.** `get_object_status` is a group-by: one record per ground-truth uuid, in
order of first appearance, holding exactly the frame numbers of the events of that uuid — TP ground
truths, ground truths carried by FP results, TN objects, FN objects, frame by frame. -/
theorem object_status_tallies (frames : List Frame) :
    getObjectStatus frames = (keysOf (allEvents frames)).map (evSummary (allEvents frames)) ∧
    ((getObjectStatus frames).map (·.uuid)).Nodup ∧
    (∀ e ∈ allEvents frames, ∃ s ∈ getObjectStatus frames, s.uuid = e.1) := by
  refine ⟨getObjectStatus_eq frames, ?_, ?_⟩
  · rw [getObjectStatus_eq, List.map_map]
    have : ((fun s : GtStatus => s.uuid) ∘ evSummary (allEvents frames)) = id := by funext u; rfl
    rw [this, List.map_id]
    exact keysOf_nodup _
  · intro e he
    rw [getObjectStatus_eq]
    exact ⟨evSummary (allEvents frames) e.1, List.mem_map_of_mem (mem_keysOf _ e he), rfl⟩

/-- **object_status_total_exact (F11, exact).** With well-formed lists, the record of a uuid lists frame
number `n` once per frame numbered `n` in which that ground truth is critical, plus once more per FP
result of such a frame that carries it as an ordinary ground truth; summed over all records the tallies
are `#critical + #FP results carrying an ordinary ground truth`. -/
theorem object_status_total_exact (frames : List Frame) (hwf : ∀ f ∈ frames, f.WF) :
    (∀ s ∈ getObjectStatus frames, ∀ n : Nat,
      s.total.count n = sumN (frames.map fun f =>
        if f.frameNum = n then (f.critical.map (·.uuid)).count s.uuid + (f.fpOrd.map (·.uuid)).count s.uuid else 0)) ∧
    sumN ((getObjectStatus frames).map fun s => s.total.length) =
      sumN (frames.map fun f => f.critical.length) + sumN (frames.map fun f => f.fpOrd.length) := by
  constructor
  · intro s hs n
    rw [getObjectStatus_eq] at hs
    obtain ⟨u, _, rfl⟩ := List.mem_map.mp hs
    show (((allEvents frames).filter (fun e => e.1 == u)).map (·.2.2)).count n = _
    rw [count_flatMap_events]
    apply sumN_map_congr
    intro f hf
    split
    · exact (hwf f hf).gtUuids_count u
    · rfl
  · rw [getObjectStatus_eq, List.map_map]
    have := sum_total_length (allEvents frames) (keysOf (allEvents frames)) (keysOf_nodup _) (mem_keysOf _)
    rw [show ((fun s : GtStatus => s.total.length) ∘ evSummary (allEvents frames)) =
      (fun k => (evSummary (allEvents frames) k).total.length) from rfl, this, allEvents_length, ← sumN_map_add]
    exact sumN_map_congr _ _ _ (fun f hf => (hwf f hf).gtRows_eq)

/-- **object_status_once_partial.** The property's "each ground truth once per frame" holds when frame
numbers are distinct, critical uuids are distinct within a frame, and no FP result carries an ordinary
ground truth.  (Full statement — without the last hypothesis — is FALSE for the code:
`object_status_total_exact`, `example_f11`.) -/
theorem object_status_once_partial (frames : List Frame) (hwf : ∀ f ∈ frames, f.WF)
    (hnum : (frames.map (·.frameNum)).Nodup) (huu : ∀ f ∈ frames, (f.critical.map (·.uuid)).Nodup)
    (hno : ∀ f ∈ frames, f.fpOrd = []) :
    ∀ f ∈ frames, ∀ g ∈ f.critical, ∃ s ∈ getObjectStatus frames, s.uuid = g.uuid ∧ s.total.count f.frameNum = 1 := by
  intro f hf g hg
  have hg' : g.uuid ∈ f.gtUuids := by
    have := (hwf f hf).gtUuids_count g.uuid
    have hpos : 0 < (f.critical.map (·.uuid)).count g.uuid := List.count_pos_iff.mpr (List.mem_map_of_mem hg)
    exact List.count_pos_iff.mp (by omega)
  have hev : ∃ e ∈ allEvents frames, e.1 = g.uuid := by
    have : g.uuid ∈ (frameEvents f).map (·.1) := by
      simpa [frameEvents, Frame.gtUuids, Frame.tpGts, Frame.fpGts, List.map_append, Function.comp_def] using hg'
    obtain ⟨e, he, h⟩ := List.mem_map.mp this
    exact ⟨e, List.mem_flatMap.mpr ⟨f, hf, he⟩, h⟩
  obtain ⟨e, he, heq⟩ := hev
  obtain ⟨s, hs, hsu⟩ := (object_status_tallies frames).2.2 e he
  refine ⟨s, hs, hsu.trans heq, ?_⟩
  rw [(object_status_total_exact frames hwf).1 s hs f.frameNum]
  have h1 := sumN_indicator frames (·.frameNum)
    (fun f' => (f'.critical.map (·.uuid)).count s.uuid + (f'.fpOrd.map (·.uuid)).count s.uuid) f hnum hf
  rw [h1, hno f hf, hsu, heq]
  have hc : (f.critical.map (·.uuid)).count g.uuid ≤ 1 := List.nodup_iff_count.mp (huu f hf) _
  have hpos : 0 < (f.critical.map (·.uuid)).count g.uuid := List.count_pos_iff.mpr (List.mem_map_of_mem hg)
  simp; omega

/-! ## errors and summaries -/

/-- **pairs_eq_lists.** The paired rows (both sides present) are the frames' TP results followed by the
FP results that carry a ground truth, in table order; all of them have status TP or FP. -/
theorem pairs_eq_lists :
    (getPairResults (addAll area scenes).table).map (fun p => (p.1.obj, p.2.obj)) = scenes.flatten.flatMap Frame.pairs ∧
    (getPairResults (addAll area scenes).table).filter (inStatus [.TP, .FP, .TN]) = getPairResults (addAll area scenes).table := by
  have h1 := pairs_table area scenes [.TP, .FP, .TN, .FN] (by decide) (by decide)
  rw [getPairResults_all] at h1
  refine ⟨h1, ?_⟩
  have h2 := pairs_table area scenes [.TP, .FP, .TN] (by decide) (by decide)
  have hlen := congrArg List.length (h2.trans h1.symm)
  simp only [List.length_map] at hlen
  exact List.filter_eq_self.mpr (by
    have := List.length_filter_eq_length_iff.mp hlen
    exact this)

/-- **errors_eq_gt_minus_est.** `calculate_error` lists, for every paired row in table order, the
ground-truth value minus the estimate's value of the column (NaN when a velocity is missing), computed on
the ego-frame columns of the objects of the frames' pass/fail lists. -/
theorem errors_eq_gt_minus_est (col : Col) :
    calculateError col (addAll area scenes).table =
      (scenes.flatten.flatMap Frame.pairs).map (fun p => objError col p.1 p.2) ∧
    (∀ (g e : Obj) (a b : Rat), col ≠ .yaw → col.get g = some a → col.get e = some b → objError col g e = some (a - b)) ∧
    (∀ (g e : Obj), (col.get g = none ∨ col.get e = none) → objError col g e = none) := by
  refine ⟨calculateError_table area scenes col, ?_, ?_⟩
  · intro g e a b hc hg he
    simp [objError, hg, he, hc]
  · intro g e h
    rcases h with h | h
    · simp [objError, h]
    · cases hg : col.get g <;> simp [objError, hg, h]

/-- **yaw_error_wrapped.** The yaw error is GT − estimate brought back by one full turn at most; for yaws
in [−1, 1] half-turns (= [−π, π]) it lies in [−1, 1] and differs from the raw difference by −2, 0 or 2
half-turns. -/
theorem yaw_error_wrapped (g e : Obj) (hg : -1 ≤ g.yaw ∧ g.yaw ≤ 1) (he : -1 ≤ e.yaw ∧ e.yaw ≤ 1) :
    ∃ w : Rat, objError .yaw g e = some w ∧ -1 ≤ w ∧ w ≤ 1 ∧
      (w = g.yaw - e.yaw ∨ w = g.yaw - e.yaw - 2 ∨ w = g.yaw - e.yaw + 2) ∧
      (-1 ≤ g.yaw - e.yaw → g.yaw - e.yaw ≤ 1 → w = g.yaw - e.yaw) := by
  refine ⟨wrapYaw (g.yaw - e.yaw), by simp [objError, Col.get], ?_, ?_, wrapYaw_cases _, wrapYaw_id _⟩
  · exact (wrapYaw_range _ (by linarith [hg.1, he.2]) (by linarith [hg.2, he.1])).1
  · exact (wrapYaw_range _ (by linarith [hg.1, he.2]) (by linarith [hg.2, he.1])).2

/-- **summary_defs.** mean·n = Σe, RMS²·n = Σe², variance = RMS² − mean²; NaN exactly for no errors. -/
theorem summary_defs (errs : List Rat) :
    (summarize errs = none ↔ errs = []) ∧
    ∀ s, summarize errs = some s →
      s.average * (errs.length : Rat) = sumR errs ∧
      s.rms2 * (errs.length : Rat) = sumR (errs.map fun v => v * v) ∧
      s.var = s.rms2 - s.average * s.average :=
  ⟨summarize_eq_none errs, fun s h => summarize_defs errs s h⟩

/-- **summary_max_min.** `max` / `min` are the largest / smallest absolute error, attained. -/
theorem summary_max_min (errs : List Rat) (s : Summary) (h : summarize errs = some s) :
    (∀ v ∈ errs, v.abs ≤ s.max) ∧ (∃ v ∈ errs, s.max = v.abs) ∧
    (∀ v ∈ errs, s.min ≤ v.abs) ∧ (∃ v ∈ errs, s.min = v.abs) :=
  summarize_max_min errs s h

/-! ## `analyze`: rates and confusion matrix on every selection -/

/-- what `analyze` works on: a sub-table `df` of the full table (keyword selection, then distance) -/
theorem analyze_some (labels : List String) (full : Table) (s : Sel) (d : Option (Rat × Rat)) (A : Analysis)
    (h : analyze labels full s d = .ok (some A)) :
    ∃ df : Table, (∀ r ∈ df, r ∈ full) ∧ df ≠ [] ∧ A.ratio = summarizeRatio labels df ∧
      A.error = summarizeError labels full df ∧ getConfusionMatrix labels df = .ok A.confusion := by
  have key : ∀ df : Table, (∀ r ∈ df, r ∈ full) →
      (if df.isEmpty then (.ok none : Except Err (Option Analysis)) else
        match getConfusionMatrix labels df with
        | .error e => .error e
        | .ok cm => .ok (some ⟨summarizeRatio labels df, summarizeError labels full df, cm⟩)) = .ok (some A) →
      ∃ df : Table, (∀ r ∈ df, r ∈ full) ∧ df ≠ [] ∧ A.ratio = summarizeRatio labels df ∧
        A.error = summarizeError labels full df ∧ getConfusionMatrix labels df = .ok A.confusion := by
    intro df hsub hh
    split at hh
    · simp at hh
    · rename_i hne
      cases hc : getConfusionMatrix labels df with
      | error e => simp [hc] at hh
      | ok cm =>
        simp only [hc, Except.ok.injEq, Option.some.injEq] at hh
        subst hh
        exact ⟨df, hsub, by intro he; simp [he] at hne, rfl, rfl, hc⟩
  unfold analyze at h
  cases d with
  | none => exact key (full.select s) (fun r hr => (List.mem_filter.mp hr).1) h
  | some dd =>
    simp only [filterByDistance] at h
    by_cases hd : dd.1 < dd.2
    · simp only [hd, if_true] at h
      exact key _ (fun r hr => (List.mem_filter.mp (List.mem_filter.mp hr).1).1) h
    · simp [hd] at h

/-- **rates_in_unit_all.** On every selection (keywords, distance) the "ALL" row of the TP/FP/TN/FN rates
lies in [0,1], as soon as TP results carry a ground truth (`Frame.WF.tp_has_gt`). -/
theorem rates_in_unit_all (labels : List String) (s : Sel) (d : Option (Rat × Rat)) (A : Analysis)
    (htp : ∀ f ∈ scenes.flatten, ∀ p ∈ f.tp, p.gt.isSome = true)
    (h : analyze labels (addAll area scenes).table s d = .ok (some A)) :
    ∃ r, A.ratio.head? = some ("ALL", r) ∧ r.inUnit := by
  obtain ⟨df, hsub, _, hr, _, _⟩ := analyze_some labels _ s d A h
  refine ⟨ratioOf df {}, by rw [hr]; rfl, ?_⟩
  exact ratioOf_inUnit {} df (table_TPCovered_all area scenes htp df hsub)

/-- **rates_in_unit_label_partial.** Every row (ALL and each label) lies in [0,1] when, in addition, the
two objects of a TP result have the same label (what the DEFAULT label policy guarantees).
(Full statement — without the same-label hypothesis — is FALSE for the code: finding N1,
`label_tp_rate_exact`, `example_n1`.) -/
theorem rates_in_unit_label_partial (labels : List String) (s : Sel) (d : Option (Rat × Rat)) (A : Analysis)
    (hsame : ∀ f ∈ scenes.flatten, ∀ p ∈ f.tp, ∃ g, p.gt = some g ∧ g.label = p.est.label)
    (h : analyze labels (addAll area scenes).table s d = .ok (some A)) :
    ∀ lr ∈ A.ratio, lr.2.inUnit := by
  obtain ⟨df, hsub, _, hr, _, _⟩ := analyze_some labels _ s d A h
  intro lr hlr
  rw [hr] at hlr
  simp only [summarizeRatio, List.mem_cons, List.mem_map] at hlr
  have htp : ∀ f ∈ scenes.flatten, ∀ p ∈ f.tp, p.gt.isSome = true := by
    intro f hf p hp
    obtain ⟨g, hg, _⟩ := hsame f hf p hp
    simp [hg]
  rcases hlr with rfl | ⟨L, _, rfl⟩
  · exact ratioOf_inUnit {} df (table_TPCovered_all area scenes htp df hsub)
  · exact ratioOf_inUnit _ df (table_TPCovered_label area scenes hsame df hsub L)

/-- **label_tp_rate_exact (N1, exact).** On the whole table the TP rate reported for label `L` is the
number of TP results whose ESTIMATE has label `L` over the number of ground-truth rows whose GROUND TRUTH
has label `L` (0 when there is none) — above one exactly when the former exceeds the latter. -/
theorem label_tp_rate_exact (L : String) :
    let num := sumN (scenes.flatten.map fun f => f.tp.countP fun p => decide (p.est.label = L))
    let den := sumN (scenes.flatten.map fun f => (f.tpGts ++ f.fpGts ++ f.tn ++ f.fn).countP fun g => decide (g.label = L))
    (ratioOf (addAll area scenes).table { labels := some [L] }).tp = (if den > 0 then (num : Rat) / (den : Rat) else 0) ∧
    (1 < (ratioOf (addAll area scenes).table { labels := some [L] }).tp ↔ 0 < den ∧ den < num) := by
  intro num den
  have h := ratioOf_tp { labels := some [L] } (addAll area scenes).table
  rw [getNumTP_label_table, getNumGT_label_table] at h
  refine ⟨h, ?_⟩
  rw [h]
  constructor
  · intro hlt
    by_cases hd : den > 0
    · rw [if_pos hd] at hlt
      have hd' : (0 : Rat) < (den : Rat) := by exact_mod_cast hd
      have := (one_lt_div hd').mp hlt
      exact ⟨hd, by exact_mod_cast this⟩
    · rw [if_neg hd] at hlt
      exact absurd hlt (by norm_num)
  · rintro ⟨hd, hlt⟩
    rw [if_pos hd]
    have hd' : (0 : Rat) < (den : Rat) := by exact_mod_cast hd
    exact (one_lt_div hd').mpr (by exact_mod_cast hlt)

/-- **confusion_sum.** Whenever a confusion matrix is returned (any table, any label list, hence any
selection of `analyze`), its entries sum to the number of paired rows, which is positive; the matrix is square of
the size of its index `confusionIndex` (`target_labels`, `"unknown"`, then the other labels met in the paired rows). -/
theorem confusion_sum (labels : List String) (t : Table) (m : List (List Nat))
    (h : getConfusionMatrix labels t = .ok (some m)) :
    sumN (m.map sumN) = (getPairResults t).length ∧ 0 < (getPairResults t).length ∧
    m.length = (confusionIndex labels t).length ∧ ∀ row ∈ m, row.length = (confusionIndex labels t).length := by
  obtain ⟨h1, h2⟩ := confusion_some labels t m h
  obtain ⟨h3, h4⟩ := confusionWith_shape _ t m h
  exact ⟨h1, h2, h3, h4⟩

/-- **confusion_none_iff.** No matrix is returned exactly when no row is paired. -/
theorem confusion_none_iff (labels : List String) (t : Table) :
    getConfusionMatrix labels t = .ok none ↔ getPairResults t = [] :=
  PEval.Analyzer.confusion_none_iff labels t

/-! ## selections: `get(**kwargs)` / `filter`, `filter_by_distance`, `analyze(**kwargs, distance=(d0, d1))`

The property's statements about counts, rates, errors and the confusion matrix are made "for label / scene /
area / distance selections": they are statements about the selected SUB-TABLE.  The theorems below say which
sub-table that is (exactly the row pairs satisfying one pair predicate, in table order, pairs never split), what
the predicate says, and that counts over it are the counts of the selected items of the pass/fail lists. -/

/-- **selection_exact.** The table a selection yields is the full table filtered by the pair predicate
`RowPair.selected` — nothing else is kept, nothing satisfying it is dropped, order, indices and both rows of every
kept pair are preserved; an inverted or empty distance range is refused; and `analyze` reports nothing on an empty
selection and otherwise computes rates, errors and the confusion matrix on exactly that sub-table. -/
theorem selection_exact (labels : List String) (full : Table) (s : Sel) (d : Option (Rat × Rat)) :
    ((∀ dd, d = some dd → dd.1 < dd.2) →
      selectTable full s d = .ok (full.filter (RowPair.selected s d)) ∧
      (∀ r, r ∈ full.filter (RowPair.selected s d) ↔ r ∈ full ∧ r.selected s d = true) ∧
      (full.filter (RowPair.selected s d)).Sublist full ∧
      (full.filter (RowPair.selected s d) = [] → analyze labels full s d = .ok none) ∧
      (∀ A, analyze labels full s d = .ok (some A) →
        A.ratio = summarizeRatio labels (full.filter (RowPair.selected s d)) ∧
        A.error = summarizeError labels full (full.filter (RowPair.selected s d)) ∧
        getConfusionMatrix labels (full.filter (RowPair.selected s d)) = .ok A.confusion)) ∧
    (∀ dd, d = some dd → ¬ dd.1 < dd.2 →
      selectTable full s d = .error "AssertionError" ∧ analyze labels full s d = .error "AssertionError") := by
  constructor
  · intro hd
    have hsel := selectTable_ok full s d hd
    refine ⟨hsel, fun r => by simp [List.mem_filter], List.filter_sublist, ?_, ?_⟩
    · intro he
      rw [analyze_eq_selectTable, hsel]
      simp [he]
    · intro A hA
      rw [analyze_eq_selectTable, hsel] at hA
      simp only at hA
      split at hA
      · simp at hA
      · cases hc : getConfusionMatrix labels (full.filter (RowPair.selected s d)) with
        | error e => simp [hc] at hA
        | ok cm =>
          simp only [hc, Except.ok.injEq, Option.some.injEq] at hA
          subst hA
          exact ⟨rfl, rfl, rfl⟩
  · intro dd hdd hn
    subst hdd
    have := selectTable_err full s dd hn
    exact ⟨this, by rw [analyze_eq_selectTable, this]⟩

/-- **selection_predicate.** A pair is selected iff EVERY given keyword (label, scene, frame, area, status, uuid —
a scalar is a singleton list) is matched by SOME row of the pair — ground-truth row or estimate row, possibly
different rows for different keywords — and, if a distance range is given, SOME row of the pair lies in it;
"lies in `(d0, d1)`" is `d0 ≤ ρ < d1` for the ego-frame distance `ρ = √(x² + y²)` of the row (lower bound
inclusive, upper bound exclusive). -/
theorem selection_predicate (s : Sel) (d : Option (Rat × Rat)) (r : RowPair) :
    (r.selected s d = true ↔
      ((∀ l, s.labels = some l → ∃ c, r.HasRow c ∧ c.obj.label ∈ l) ∧
       (∀ l, s.scenes = some l → ∃ c, r.HasRow c ∧ c.scene ∈ l) ∧
       (∀ l, s.frames = some l → ∃ c, r.HasRow c ∧ c.frame ∈ l) ∧
       (∀ l, s.areas = some l → ∃ c, r.HasRow c ∧ ∃ a, c.area = some a ∧ a ∈ l) ∧
       (∀ l, s.statuses = some l → ∃ c, r.HasRow c ∧ c.status ∈ l) ∧
       (∀ l, s.uuids = some l → ∃ c, r.HasRow c ∧ c.obj.uuid ∈ l)) ∧
      ∀ dd, d = some dd → ∃ c, r.HasRow c ∧ inDistance dd c = true) ∧
    (∀ (dd : Rat × Rat) (c : Cell) (ρ : Rat), 0 ≤ ρ → ρ * ρ = c.obj.x * c.obj.x + c.obj.y * c.obj.y →
      (inDistance dd c = true ↔ dd.1 ≤ ρ ∧ ρ < dd.2)) :=
  ⟨by rw [selected_iff, keep_iff], fun dd c ρ h0 hρ => inDistance_iff dd c ρ h0 hρ⟩

/-- **selection_counts.** Counts over a selection are the counts of the selected items: for the table of any
scenes and any valid selection, the TP / FP / TN / FN counts, the estimate count and the number of paired rows of
the selected sub-table are the numbers of TP results, FP results, TN objects, FN objects (resp. TP+FP results,
resp. TP / FP results carrying a ground truth) of the frames' pass/fail lists whose row pair satisfies the
selection predicate (`tpSel` … `pairedSel`, summed over scenes `0, 1, …` and their frames). -/
theorem selection_counts (s : Sel) (d : Option (Rat × Rat)) (hd : ∀ dd, d = some dd → dd.1 < dd.2) :
    ∃ df, selectTable (addAll area scenes).table s d = .ok df ∧
      getNumTP df = sumScenesFrom (tpSel area (Item.selected s d)) 0 scenes ∧
      getNumFP df = sumScenesFrom (fpSel area (Item.selected s d)) 0 scenes ∧
      getNumTN df = sumScenesFrom (tnSel area (Item.selected s d)) 0 scenes ∧
      getNumFN df = sumScenesFrom (fnSel area (Item.selected s d)) 0 scenes ∧
      getNumEstimation df =
        sumScenesFrom (fun k f => tpSel area (Item.selected s d) k f + fpSel area (Item.selected s d) k f) 0 scenes ∧
      (getPairResults df).length = sumScenesFrom (pairedSel area (Item.selected s d)) 0 scenes := by
  refine ⟨_, selectTable_ok _ s d hd, ?_⟩
  have e : (addAll area scenes).table.filter (RowPair.selected s d) =
      (addAll area scenes).table.filter (fun r => Item.selected s d r.strip) := rfl
  rw [e]
  exact ⟨selection_numTP area scenes _, selection_numFP area scenes _, selection_numTN area scenes _,
    selection_numFN area scenes _, selection_numEstimation area scenes _, selection_paired area scenes _⟩

/-- **selection_confusion_sum.** On every selection the confusion matrix `analyze` reports sums to the number of
selected TP / FP results that carry a ground truth. -/
theorem selection_confusion_sum (labels : List String) (s : Sel) (d : Option (Rat × Rat)) (A : Analysis)
    (m : List (List Nat)) (h : analyze labels (addAll area scenes).table s d = .ok (some A))
    (hm : A.confusion = some m) :
    sumN (m.map sumN) = sumScenesFrom (pairedSel area (Item.selected s d)) 0 scenes := by
  have hd : ∀ dd, d = some dd → dd.1 < dd.2 := by
    intro dd hdd
    by_contra hn
    have := ((selection_exact labels (addAll area scenes).table s d).2 dd hdd hn).2
    rw [this] at h
    cases h
  obtain ⟨_, _, _, _, hA⟩ := (selection_exact labels (addAll area scenes).table s d).1 hd
  obtain ⟨_, _, hcm⟩ := hA A h
  rw [hm] at hcm
  obtain ⟨df, hdf, _, _, _, _, _, hp⟩ := selection_counts area scenes s d hd
  rw [selectTable_ok _ s d hd] at hdf
  cases hdf
  rw [(confusion_sum labels _ m hcm).1, hp]

/-- the whole-table counts are the selection counts of the empty selection -/
theorem selection_counts_whole :
    sumScenesFrom (tpSel area (fun _ => true)) 0 scenes = sumN (scenes.flatten.map fun f => f.tp.length) := by
  have : tpSel area (fun _ => true) = fun _ f => f.tp.length := by
    funext k f; simp [tpSel]
  rw [this, sumScenesFrom_const]

/-! ## areas -/

/-- **area_idx_unique.** For the 1/3/9 divisions of any `max_x`, `max_y`, at most one area contains a
point, so `get_area_idx` never raises and equals the total function used by the table. -/
theorem area_idx_unique (n : Nat) (mx my x y : Rat) (a : Areas) (h : generateAreaPoints n mx my = .ok a) :
    (areaHits a x y).length ≤ 1 ∧ getAreaIdx a x y = .ok (areaOf a x y) ∧ (n = 1 ∨ n = 3 ∨ n = 9) :=
  ⟨areaHits_le_one n mx my x y a h, getAreaIdx_generated n mx my x y a h, generateAreaPoints_ok n mx my a h⟩

/-- **area_idx_inside.** The index returned is that of a rectangle strictly containing the ego-frame
position; `None` means no rectangle contains it (e.g. a position on a boundary). -/
theorem area_idx_inside (a : Areas) (x y : Rat) :
    (∀ i, getAreaIdx a x y = .ok (some i) →
      ∃ ur bl, a.upperRights[i]? = some ur ∧ a.bottomLefts[i]? = some bl ∧
        bl.1 < x ∧ x < ur.1 ∧ ur.2 < y ∧ y < bl.2) ∧
    (getAreaIdx a x y = .ok none → ∀ (i : Nat) (ur bl : Rat × Rat), a.upperRights[i]? = some ur →
        a.bottomLefts[i]? = some bl → insideArea ur bl x y = false) :=
  getAreaIdx_spec a x y

/-! ## empty table (finding N2) -/

/-- **num_props_empty (N2, exact).** The `num_*` properties raise `TypeError` exactly on the empty table
of an unrepaired analyzer (`emptyRaises = true`); the table is empty exactly when no frame has an item. -/
theorem num_props_empty (er : Bool) (v : Nat) :
    (numProp er (addAll area scenes).table v = .error "TypeError" ↔
      er = true ∧ sumN (scenes.flatten.map Frame.items) = 0) ∧
    (numProp er (addAll area scenes).table v ≠ .error "TypeError" → numProp er (addAll area scenes).table v = .ok v) := by
  have hiff := table_isEmpty_iff area scenes
  unfold numProp
  cases er <;> cases he : (addAll area scenes).table.isEmpty <;> simp [he] at hiff ⊢
  · omega
  · exact hiff

/-! ## the hypotheses are satisfiable, and the findings are real (concrete instances) -/

section Examples

def car (u : String) (x : Rat) : Obj := ⟨u, "car", x, 0, 0, 2, 4, some 1, none⟩
def unk (u : String) (x : Rat) : Obj := ⟨u, "unknown", x, 0, 0, 2, 4, some 1, none⟩

/-- the F11 frame of the corpus: g1 matched, g2 paired with a failing estimate, g3 unmatched -/
def f11Input : Evaluated :=
  (0, [car "g1" 10, car "g2" 30, car "g3" 50],
   [(⟨car "e1" (81/8), some (car "g1" 10)⟩, true), (⟨car "e2" 34, some (car "g2" 30)⟩, false)])

example : f11Input.ok := by decide +kernel

/-- three critical ground truths, four ground-truth rows: `num_ground_truth = 4` -/
theorem example_f11 :
    numGroundTruth true (addAll (fun _ _ => none) [[f11Input.frame]]).table = .ok 4 ∧
    f11Input.frame.critical.length = 3 ∧ f11Input.frame.fpOrd.length = 1 ∧
    (getObjectStatus [f11Input.frame]).map (fun s => (s.uuid, s.total)) = [("g1", [0]), ("g2", [0, 0]), ("g3", [0])] := by
  decide +kernel

/-- a frame without F11 satisfies the hypotheses of the `_partial` theorems non-trivially -/
def cleanInput : Evaluated :=
  (3, [car "g1" 10, car "g2" 30], [(⟨car "e1" (81/8), some (car "g1" 10)⟩, true), (⟨car "e9" 70, none⟩, false)])

example : cleanInput.ok ∧ cleanInput.frame.fpOrd = [] ∧ cleanInput.frame.tp.length = 1 ∧
    cleanInput.frame.fp.length = 1 ∧ cleanInput.frame.fn.length = 1 := by decide +kernel

/-- N1: two unknown estimates matched as TP to car ground truths, one unknown ground truth missed -/
def n1Frame : Frame :=
  { frameNum := 0
    tp := [⟨unk "e1" (81/8), some (car "g1" 10)⟩, ⟨unk "e2" (121/4), some (car "g2" 30)⟩]
    fp := [], tn := [], fn := [unk "g3" 50]
    critical := [car "g1" 10, car "g2" 30, unk "g3" 50] }

theorem example_n1 :
    (ratioOf (addAll (fun _ _ => none) [[n1Frame]]).table { labels := some ["unknown"] }).tp = 2 ∧
    (ratioOf (addAll (fun _ _ => none) [[n1Frame]]).table {}).tp = 2 / 3 := by
  decide +kernel

/-- a pair that STRADDLES a distance range (ground truth at 14 m, estimate at 17 m, range [15, 16)): one row is at
or above the lower bound, the other below the upper bound, but neither lies in the range — not selected; with the
range [15, 18) the estimate lies inside and the pair is kept as a whole (both rows); a bound equal to a row's
distance: lower bound inclusive, upper bound exclusive; a label carried by one row only selects the pair -/
def straddleFrame : Frame :=
  { frameNum := 0, tp := [⟨unk "e1" 17, some (car "g1" 14)⟩], fp := [⟨car "e2" 40, none⟩], tn := [], fn := [car "g3" 15]
    critical := [car "g1" 14, car "g3" 15] }

theorem example_straddle :
    let T := (addAll (fun _ _ => none) [[straddleFrame]]).table
    (selectTable T {} (some (15, 16))).map (·.map (·.index)) = .ok [2] ∧
    (selectTable T {} (some (15, 18))).map (·.map (·.index)) = .ok [0, 2] ∧
    (selectTable T {} (some (14, 15))).map (·.map (·.index)) = .ok [0] ∧
    (selectTable T {} (some (17, 40))).map (·.map (·.index)) = .ok [0] ∧
    (selectTable T {} (some (17, 41))).map (·.map (·.index)) = .ok [0, 1] ∧
    (selectTable T {} (some (20, 30))).map (·.map (·.index)) = .ok [] ∧
    (selectTable T {} (some (16, 16))).map (·.map (·.index)) = .error "AssertionError" ∧
    (selectTable T { labels := some ["unknown"] } none).map (·.map (·.index)) = .ok [0] ∧
    (selectTable T { labels := some ["car"], statuses := some [.TP, .FN] } (some (15, 18))).map (·.map (·.index)) = .ok [0, 2] ∧
    (selectTable T { labels := some ["car"] } (some (15, 18))).map (fun df => (getNumTP df, getNumFN df, (getPairResults df).length)) = .ok (1, 1, 1) := by
  decide +kernel

/-- errors and summaries on a concrete pair list -/
example : summarize [3, -4] = some ⟨-1/2, 25/2, 49/4, 4, 3⟩ := by decide +kernel

example : wrapYaw (15/8) = -1/8 ∧ wrapYaw (-2) = 0 ∧ wrapYaw 1 = 1 := by decide +kernel

/-- the 9-division of a 96 × 48 field: (40, -20) lies in area 6, a boundary point in none -/
example : (generateAreaPoints 9 96 48).map (fun a => (getAreaIdx a 40 (-20), getAreaIdx a 32 0)) =
    .ok (.ok (some 6), .ok none) := by decide +kernel

end Examples

/-! ## tie to the source: decision tables extracted from the real code (regenerated on every run)

`harness/dt_c19.py` runs the REAL `tool/utils.get_area_idx` (on the grid the REAL `generate_area_points` builds from symbolic
bounds) and the REAL `PerceptionAnalyzer3D.add` on symbolic inputs, over every assignment of the decision atoms they query
(`PEval/Gen/AnalyzerDT.lean`).  `AnalyzerDT.areaSkel` / `rowsSkel` are the hand-written skeletons of the model over the same
atoms; `DT.agree` decides, completely for the finite decision space and by kernel evaluation, that table and skeleton give
the same result (area tables) resp. results related by `rowsRel` (row tables: same multiset of row pairs whatever their numbering and
order, both layouts on F11's signature) under EVERY valuation (order atoms of different grid lines are treated as independent: an
over-approximation of the input space).  A shape the translator cannot follow has `tree = none` (the statements are vacuous
for it; the evidence says so and the correspondence runs carry the tie alone). -/
section Table
open PEval.DT PEval.AnalyzerDT

def skelOfKey (k1 k2 : Nat) : DTree := if k1 = 0 then areaSkel (divisionsOf k2) else rowsSkel k2
def atomsOfKey (k1 k2 : Nat) (v : Val) : Res := if k1 = 0 then areaAtoms (divisionsOf k2) v else rowsAtoms k2 v

/-- what a table has to satisfy against its skeleton.  Area tables (key1 = 0): EQUAL results.  Row tables: the relation `rowsRel` —
the table's row pairs as a multiset (the translator reads the pairs from the index and sorts them: C19 states neither a numbering nor an
order of the pairs) equal the model's, except that an FP pair carrying a ground truth may show the estimate only (the table-layout
repair of known finding F11; the model shows F11's layout). -/
def relOfKey (k1 : Nat) (c m : Res) : Bool := if k1 = 0 then c == m else rowsRel c m

def analyzerTablesOk : Bool :=
  Gen.AnalyzerDT.tables.all fun row =>
    match row.2.2 with
    | some t =>
      if row.1 = 0 then agree [] [] t (areaSkel (divisionsOf row.2.1)) PA.empty
      else agree [] [] (relTree rowsRel t (rowsSkel row.2.1)) (.leaf (.ret true)) PA.empty
    | none => true

/-- THE per-run obligation: the checker accepts every regenerated table -/
theorem analyzer_table_check : analyzerTablesOk = true := by decide +kernel

/-- the code's decision tables (area index: 1, 3, 9 divisions; row status: every frame shape with at most two items) agree with the
model's skeletons under every valuation of the atoms: area tables give the SAME result, row tables a result related by `rowsRel` -/
theorem analyzer_code_table_eq_model :
    ∀ row ∈ Gen.AnalyzerDT.tables, ∀ t, row.2.2 = some t → ∀ v : Val,
      relOfKey row.1 (eval t v) (atomsOfKey row.1 row.2.1 v) = true := by
  intro row hrow t ht v
  have h := analyzer_table_check
  unfold analyzerTablesOk at h
  rw [List.all_eq_true] at h
  have h2 := h row hrow
  rw [ht] at h2
  unfold relOfKey atomsOfKey
  by_cases hk : row.1 = 0
  · simp only [hk, if_true] at h2 ⊢
    rw [agree_sound h2 v (by simp [consistent]), eval_areaSkel]
    exact beq_self_eq_true _
  · simp only [hk, if_false] at h2 ⊢
    have h3 := agree_sound h2 v (by simp [consistent])
    rw [eval_relTree, eval_rowsSkel] at h3
    simpa [eval] using h3

/-- area tables: equality -/
theorem area_code_table_eq_atoms {key : Nat} {t : DTree} (ht : (0, key, some t) ∈ Gen.AnalyzerDT.tables) (v : Val) :
    eval t v = areaAtoms (divisionsOf key) v := by
  have h := analyzer_code_table_eq_model _ ht t rfl v
  simpa [relOfKey, atomsOfKey] using h

/-- row tables: the relation; and equality wherever the skeleton's number has no FP pair holding a ground truth -/
theorem rows_code_table_rel_atoms {key : Nat} {t : DTree} (ht : (1, key, some t) ∈ Gen.AnalyzerDT.tables) (v : Val) :
    rowsRel (eval t v) (rowsAtoms key v) = true := by
  have h := analyzer_code_table_eq_model _ ht t rfl v
  simpa [relOfKey, atomsOfKey] using h

theorem rowsRel_eq_of_noF11 {c : Res} {m : Nat} (hn : noF11Code 4 m = true) (h : rowsRel c (.other m) = true) : c = .other m := by
  cases c with
  | other k => simp only [rowsRel] at h; rw [relCode_eq_of_noF11 4 k m hn h]
  | ret _ => simp [rowsRel] at h
  | raise _ => simp [rowsRel] at h
  | unreachable => simp [rowsRel] at h

/-- the CODE's area table, read at the order atoms of a concrete input (positive bounds, ego-frame position `(x, y)`), is
the MODEL's `getAreaIdx` on the MODEL's `generateAreaPoints` grid -/
theorem area_code_table_eq_getAreaIdx {key : Nat} {t : DTree} (ht : (0, key, some t) ∈ Gen.AnalyzerDT.tables)
    (hn : divisionsOf key = 1 ∨ divisionsOf key = 3 ∨ divisionsOf key = 9)
    (mX mY x y : Rat) (_hX : 0 < mX) (_hY : 0 < mY) :
    eval t (areaValuation mX mY x y) = areaResOfModel (divisionsOf key) mX mY x y := by
  rw [area_code_table_eq_atoms ht]
  exact areaAtoms_valuation _ hn mX mY x y

/-- C19's area clause for the code's table: the table never answers with an exception; an index `i` means the ego-frame
position lies strictly inside rectangle `i` of the grid; `None` means it lies strictly inside no rectangle -/
theorem table_area_spec {key : Nat} {t : DTree} (ht : (0, key, some t) ∈ Gen.AnalyzerDT.tables)
    (hn : divisionsOf key = 1 ∨ divisionsOf key = 3 ∨ divisionsOf key = 9)
    (mX mY x y : Rat) (hX : 0 < mX) (hY : 0 < mY) :
    ∃ a, generateAreaPoints (divisionsOf key) mX mY = .ok a ∧
      (∀ e, eval t (areaValuation mX mY x y) ≠ .raise e) ∧
      (∀ i, eval t (areaValuation mX mY x y) = .other (i + 1) →
        ∃ ur bl, a.upperRights[i]? = some ur ∧ a.bottomLefts[i]? = some bl ∧ bl.1 < x ∧ x < ur.1 ∧ ur.2 < y ∧ y < bl.2) ∧
      (eval t (areaValuation mX mY x y) = .other 0 → ∀ (i : Nat) (ur bl : Rat × Rat), a.upperRights[i]? = some ur →
        a.bottomLefts[i]? = some bl → insideArea ur bl x y = false) := by
  rw [area_code_table_eq_getAreaIdx ht hn mX mY x y hX hY]
  obtain ⟨a, ha⟩ : ∃ a, generateAreaPoints (divisionsOf key) mX mY = .ok a := by
    rcases hn with h | h | h <;> rw [h] <;> simp [generateAreaPoints]
  refine ⟨a, ha, ?_⟩
  have hu := (area_idx_unique _ mX mY x y a ha).2.1
  have hs := area_idx_inside a x y
  have hm : areaResOfModel (divisionsOf key) mX mY x y =
      (match areaOf a x y with | none => Res.other 0 | some i => Res.other (i + 1)) := by
    unfold areaResOfModel
    rw [ha]
    simp only [hu]
    cases areaOf a x y <;> rfl
  rw [hm]
  cases hof : areaOf a x y with
  | none =>
    refine ⟨fun e h => (by cases h), fun i h => (by cases h), fun _ => hs.2 (by rw [hu, hof])⟩
  | some j =>
    refine ⟨fun e h => (by cases h), fun i h => ?_, fun h => (by cases h)⟩
    have : j = i := by injection h with h; omega
    subst this
    exact hs.1 j (by rw [hu, hof])

/-- a position exactly ON a grid line (x on a line of the x-grid: the outer lines, and the inner ones for 3 / 9 divisions;
likewise y, inner lines for 9 divisions) is answered `None` by the code's table — the guard the seeded `np.any(..) is False`
turns into a `ValueError` -/
theorem table_on_grid_line {key : Nat} {t : DTree} (ht : (0, key, some t) ∈ Gen.AnalyzerDT.tables)
    (hn : divisionsOf key = 1 ∨ divisionsOf key = 3 ∨ divisionsOf key = 9)
    (mX mY : Rat) (hX : 0 < mX) (hY : 0 < mY) (k : Nat) :
    (divisionsOf key ≠ 1 ∨ k = 0 ∨ 3 ≤ k → ∀ y, eval t (areaValuation mX mY (lineVal mX k) y) = .other 0) ∧
    (divisionsOf key = 9 ∨ k = 0 ∨ 3 ≤ k → ∀ x, eval t (areaValuation mX mY x (lineVal mY k)) = .other 0) := by
  constructor
  · intro hg y
    rw [area_code_table_eq_getAreaIdx ht hn mX mY _ y hX hY]
    exact model_on_x_line _ hn mX mY y hX k hg
  · intro hg x
    rw [area_code_table_eq_getAreaIdx ht hn mX mY x _ hX hY]
    exact model_on_y_line _ hn mX mY x hY k hg

/-- the CODE's row-status table, for every tabulated frame shape and every assignment of its atoms, is RELATED (`rowsRel`: same
multiset of row pairs; an FP pair carrying a ground truth may show the estimate only) to the number computed from the MODEL's
`Analyzer.add` run on index objects (item `j` has estimate `e<j>`, ground truth `g<j>`) — and EQUAL to it on every valuation outside
F11's signature (`noFPwithGT`: no FP result of the frame carries a ground truth) -/
theorem rows_code_table_eq_model {key : Nat} {t : DTree} (ht : (1, key, some t) ∈ Gen.AnalyzerDT.tables)
    (hk : key ∈ rowKeys) (b : Bool × Bool × Bool × Bool) (hb : b ∈ allBits) :
    rowsRel (eval t (valOfBits b)) (rowsModel key (valOfBits b)) = true ∧
    (noFPwithGT key (valOfBits b) = true → eval t (valOfBits b) = rowsModel key (valOfBits b)) := by
  have h := rows_skel_eq_model key hk
  unfold rowsSkelOk at h
  rw [List.all_eq_true] at h
  have he : rowsAtoms key (valOfBits b) = rowsModel key (valOfBits b) := beq_iff_eq.mp (h b hb)
  have hr := rows_code_table_rel_atoms ht (valOfBits b)
  rw [he] at hr
  refine ⟨hr, fun hno => ?_⟩
  have hn := rows_noF11 key hk
  unfold rowsNoF11Ok at hn
  rw [List.all_eq_true] at hn
  have hn2 := hn b hb
  rw [hno, he] at hn2
  simp only [Bool.not_true, Bool.false_or] at hn2
  unfold rowsModel at hn2 hr ⊢
  exact rowsRel_eq_of_noF11 hn2 hr

/-- C19's row clause for the code's table: the DataFrame the table describes has the row pairs of the model's (as a multiset; FP pairs
carrying a ground truth with or without it), whose rows are — forgetting the index — exactly one pair per TP result, FP result, TN
object and FN object of the frame (`frame_block`); the model numbers them 0, 1, … (a numbering the code's table is NOT held to) -/
theorem table_rows_per_item {key : Nat} {t : DTree} (ht : (1, key, some t) ∈ Gen.AnalyzerDT.tables)
    (hk : key ∈ rowKeys) (b : Bool × Bool × Bool × Bool) (hb : b ∈ allBits) :
    let T := (addAll (fun _ _ => some 0) [[frameOf key (valOfBits b)]]).table
    rowsRel (eval t (valOfBits b)) (.other (tableCode T)) = true ∧
    (noFPwithGT key (valOfBits b) = true → eval t (valOfBits b) = .other (tableCode T)) ∧
    T.map RowPair.strip = frameItems (fun _ _ => some 0) 0 (frameOf key (valOfBits b)) ∧
    T.map (·.index) = List.range T.length := by
  have h0 := rows_code_table_eq_model ht hk b hb
  refine ⟨h0.1, h0.2, ?_, index_range _ _⟩
  have := (rows_per_item (fun _ _ => some 0) [[frameOf key (valOfBits b)]]).1
  simpa [allItemsFrom, sceneItems] using this

/-- readable instances: one TP result and one GT-less FP result give the pairs (TP, TP) of item 0 and (all-None, FP) of item 1; when
the FP result carries a ground truth, item 1's pair is (FP, FP) — F11's layout — or (all-None, FP) — its repair; one FN object gives
(FN, all-None); one TN object (TN, all-None) -/
theorem table_rows_examples {t4 t27 t9 : DTree} (h4 : (1, 4, some t4) ∈ Gen.AnalyzerDT.tables)
    (h27 : (1, 27, some t27) ∈ Gen.AnalyzerDT.tables) (h9 : (1, 9, some t9) ∈ Gen.AnalyzerDT.tables) :
    eval t4 (valOfBits (false, false, true, false)) = .other ((rowDigit 1 1 0 + 1) + (rowDigit 0 2 1 + 1) * 64) ∧
    (eval t4 (valOfBits (false, false, false, false)) = .other ((rowDigit 1 1 0 + 1) + (rowDigit 2 2 1 + 1) * 64) ∨
      eval t4 (valOfBits (false, false, false, false)) = .other ((rowDigit 1 1 0 + 1) + (rowDigit 0 2 1 + 1) * 64)) ∧
    (∀ v, eval t27 v = .other (rowDigit 4 0 0 + 1)) ∧ (∀ v, eval t9 v = .other (rowDigit 3 0 0 + 1)) := by
  refine ⟨?_, ?_, fun v => ?_, fun v => ?_⟩
  · have h := rows_code_table_rel_atoms h4 (valOfBits (false, false, true, false))
    have e : rowsAtoms 4 (valOfBits (false, false, true, false)) = .other ((rowDigit 1 1 0 + 1) + (rowDigit 0 2 1 + 1) * 64) := by
      decide +kernel
    rw [e] at h
    exact rowsRel_eq_of_noF11 (by decide) h
  · have h := rows_code_table_rel_atoms h4 (valOfBits (false, false, false, false))
    have e : rowsAtoms 4 (valOfBits (false, false, false, false)) = .other (7 + 38 * 64) := by decide +kernel
    rw [e] at h
    show _ = Res.other (7 + 38 * 64) ∨ _ = Res.other (7 + 36 * 64)
    generalize eval t4 (valOfBits (false, false, false, false)) = c at h
    cases c with
    | other k =>
      simp only [rowsRel, relCode, cellRel, Bool.or_eq_true, Bool.and_eq_true, beq_iff_eq] at h
      have : k = 7 + 38 * 64 ∨ k = 7 + 36 * 64 := by omega
      rcases this with rfl | rfl
      · exact Or.inl rfl
      · exact Or.inr rfl
    | ret _ => simp [rowsRel] at h
    | raise _ => simp [rowsRel] at h
    | unreachable => simp [rowsRel] at h
  · have h := rows_code_table_rel_atoms h27 v
    exact rowsRel_eq_of_noF11 (m := rowDigit 4 0 0 + 1) (by decide) h
  · have h := rows_code_table_rel_atoms h9 v
    exact rowsRel_eq_of_noF11 (m := rowDigit 3 0 0 + 1) (by decide) h

/-- the per-run relation distinguishes: against the skeleton of one TP + one FP result, a table that writes the FP pair's ground truth
where there is none, or that of another shape, is rejected; F11's layout and its repair are both accepted where the FP carries a ground
truth (built from the skeleton itself by rewriting that leaf) -/
example : agree [] [] (relTree rowsRel (rowsSkel 4) (rowsSkel 4)) (.leaf (.ret true)) PA.empty = true := by decide +kernel
example : agree [] [] (relTree rowsRel (rowsSkel 10) (rowsSkel 4)) (.leaf (.ret true)) PA.empty = false := by decide +kernel
example : agree [] [] (relTree rowsRel (mapT (fun r => if r = .other (7 + 38 * 64) then .other (7 + 36 * 64) else r) (rowsSkel 4))
    (rowsSkel 4)) (.leaf (.ret true)) PA.empty = true := by decide +kernel
example : agree [] [] (relTree rowsRel (mapT (fun r => if r = .other (7 + 36 * 64) then .other (7 + 38 * 64) else r) (rowsSkel 4))
    (rowsSkel 4)) (.leaf (.ret true)) PA.empty = false := by decide +kernel

/-- non-vacuity: the skeleton on concrete atoms (9 divisions of a 96 × 48 field: (40, -20) lies in area 6, (32, 0) on a
grid line in none), the tables exist, and the checker distinguishes skeletons -/
example : areaAtoms 9 (areaValuation 96 48 40 (-20)) = .other 7 ∧ areaAtoms 9 (areaValuation 96 48 32 0) = .other 0 := by
  decide +kernel
example : agree [] [] (areaSkel 3) (areaSkel 3) PA.empty = true := by decide +kernel
example : agree [] [] (areaSkel 3) (areaSkel 9) PA.empty = false := by decide +kernel
example : agree [] [] (rowsSkel 4) (rowsSkel 10) PA.empty = false := by decide +kernel

end Table

/-! # Additions after the audit (Part 1 item 5, Part 4 C19): the `ValueError` branch of `get_confusion_matrix` (N3), the
ego-frame clause, which rows feed `summarize_error`, and the status rates of `common/status.py`. -/

/-! ## N3 (FIXED in /repo by `fix:` 24663d1): `get_confusion_matrix` / `analyze` and paired rows with other labels

The property says "the confusion matrix sums to the number of paired rows".  The PRE-FIX code built the index of the
matrix from `target_labels + ["unknown"]` only and looked every paired row's two labels up with `list.index`; a paired
row with another label (an FP result that keeps a "false_positive"-labelled ground truth — status (FP, FP), reachable
when the pass/fail target labels hold "false_positive" but the evaluation config's do not) made it raise `ValueError`.
The repair appends the labels met in the paired rows to the index.  `getConfusionMatrix` / `analyze` model the repaired
code; `getConfusionMatrixOld` / `analyzeOld` the pre-fix behaviour, characterised exactly below. -/

/-- **confusion_total (headline, unconditional).** For EVERY table and label list the repaired `get_confusion_matrix`
returns: nothing exactly when no row is paired; otherwise a square matrix over the index `confusionIndex` whose entries
sum to the number of paired rows, entry `(i, j)` being the number of paired rows with the `i`-th label on the
ground-truth row and the `j`-th on the estimate row.  The index starts with `target_labels + ["unknown"]` and holds
besides exactly the other labels of the paired rows (appended in order of first occurrence, ground-truth column first:
`confusionIndex`, `example_n3`).  Whenever the pre-fix function returned a result, the index is the old one and the
result is the same. -/
theorem confusion_total (labels : List String) (t : Table) :
    (∃ m, getConfusionMatrix labels t = .ok m ∧ (m = none ↔ getPairResults t = []) ∧
      ∀ mm, m = some mm →
        sumN (mm.map sumN) = (getPairResults t).length ∧
        mm.length = (confusionIndex labels t).length ∧ (∀ row ∈ mm, row.length = (confusionIndex labels t).length) ∧
        ∀ i j, i < (confusionIndex labels t).length → j < (confusionIndex labels t).length →
          entry mm i j = (getPairResults t).countP (fun p =>
            decide ((confusionIndex labels t).idxOf p.1.obj.label = i) &&
            decide ((confusionIndex labels t).idxOf p.2.obj.label = j))) ∧
    (confusionLabels labels <+: confusionIndex labels t ∧
      ∀ x, x ∈ confusionIndex labels t ↔
        x ∈ confusionLabels labels ∨ ∃ p ∈ getPairResults t, x = p.1.obj.label ∨ x = p.2.obj.label) ∧
    (∀ r, getConfusionMatrixOld labels t = .ok r →
      confusionIndex labels t = confusionLabels labels ∧ getConfusionMatrix labels t = .ok r) := by
  refine ⟨?_, confusionIndex_spec labels t, confusion_old_ok_eq labels t⟩
  obtain ⟨m, hm⟩ := confusion_ok labels t
  refine ⟨m, hm, ?_, ?_⟩
  · constructor
    · intro h; subst h; exact (PEval.Analyzer.confusion_none_iff labels t).mp hm
    · intro hp
      have := (PEval.Analyzer.confusion_none_iff labels t).mpr hp
      rw [hm] at this
      exact Except.ok.inj this
  · intro mm h; subst h
    obtain ⟨h3, h4⟩ := confusionWith_shape _ t mm hm
    exact ⟨(confusion_some labels t mm hm).1, h3, h4, fun i j hi hj => confusionWith_entry _ t mm hm i j hi hj⟩

/-- **analyze_total.** The repaired `analyze` fails only with `AssertionError`, and only for an inverted distance
range; whatever the pre-fix `analyze` returned, it returns. -/
theorem analyze_total (labels : List String) (full : Table) (s : Sel) (d : Option (Rat × Rat)) :
    (∀ e, analyze labels full s d = .error e → e = "AssertionError" ∧ ∃ dd, d = some dd ∧ ¬ dd.1 < dd.2) ∧
    (∀ r, analyzeOld labels full s d = .ok r → analyze labels full s d = .ok r) :=
  ⟨analyze_error_kind labels full s d, analyze_of_analyzeOld labels full s d⟩

/-- **confusion_error_iff (N3, exact; PRE-FIX function).** The pre-fix `get_confusion_matrix` raised exactly when some
PAIRED row carries — on its ground-truth row or on its estimate row — a label outside `target_labels + ["unknown"]`;
the exception was always `ValueError`; otherwise a result was returned: no matrix exactly when no row is paired, else a
matrix whose entries sum to the number of paired rows. -/
theorem confusion_error_iff (labels : List String) (t : Table) :
    ((∃ e, getConfusionMatrixOld labels t = .error e) ↔ ∃ p ∈ getPairResults t, OutsideLabel labels p) ∧
    (∀ e, getConfusionMatrixOld labels t = .error e → e = "ValueError") ∧
    ((∀ p ∈ getPairResults t, ¬ OutsideLabel labels p) →
      ∃ m, getConfusionMatrixOld labels t = .ok m ∧ (m = none ↔ getPairResults t = []) ∧
        ∀ mm, m = some mm → sumN (mm.map sumN) = (getPairResults t).length) := by
  refine ⟨confusion_error_iff' labels t, confusion_error_kind labels t, ?_⟩
  intro hin
  cases hc : getConfusionMatrixOld labels t with
  | error e =>
    obtain ⟨p, hp, ho⟩ := (confusion_error_iff' labels t).mp ⟨e, hc⟩
    exact absurd ho (hin p hp)
  | ok m =>
    refine ⟨m, rfl, ?_, ?_⟩
    · constructor
      · intro hm; subst hm; exact (confusionOld_none_iff labels t).mp hc
      · intro hp
        have := (confusionOld_none_iff labels t).mpr hp
        rw [hc] at this
        exact Except.ok.inj this
    · intro mm hm; subst hm
      exact (confusionOld_some labels t mm hc).1

/-- **analyze_error_iff (N3 through the PRE-FIX `analyze`).** It raised `ValueError` exactly when the selected
sub-table has a paired row with an outside label. -/
theorem analyze_error_iff (labels : List String) (full : Table) (s : Sel) (d : Option (Rat × Rat)) :
    analyzeOld labels full s d = .error "ValueError" ↔
      ∃ df, selectTable full s d = .ok df ∧ ∃ p ∈ getPairResults df, OutsideLabel labels p :=
  analyze_valueError_iff labels full s d

/-- **confusion_error_frames (PRE-FIX).** In terms of the frames' pass/fail lists: on the table of any scenes the old
matrix could not be built exactly when some TP result, or some FP result that carries a ground truth, has a
ground-truth label or an estimate label outside `target_labels + ["unknown"]`. -/
theorem confusion_error_frames (labels : List String) :
    (∃ e, getConfusionMatrixOld labels (addAll area scenes).table = .error e) ↔
      ∃ f ∈ scenes.flatten, ∃ p ∈ f.pairs,
        p.1.label ∉ confusionLabels labels ∨ p.2.label ∉ confusionLabels labels := by
  rw [(confusion_error_iff labels _).1]
  have h := (pairs_eq_lists area scenes).1
  constructor
  · rintro ⟨p, hp, ho⟩
    have : (p.1.obj, p.2.obj) ∈ scenes.flatten.flatMap Frame.pairs := by
      rw [← h]; exact List.mem_map_of_mem (f := fun p : Cell × Cell => (p.1.obj, p.2.obj)) hp
    obtain ⟨f, hf, hpf⟩ := List.mem_flatMap.mp this
    exact ⟨f, hf, _, hpf, ho⟩
  · rintro ⟨f, hf, q, hq, ho⟩
    have : q ∈ (getPairResults (addAll area scenes).table).map (fun p => (p.1.obj, p.2.obj)) := by
      rw [h]; exact List.mem_flatMap.mpr ⟨f, hf, hq⟩
    obtain ⟨p, hp, rfl⟩ := List.mem_map.mp this
    exact ⟨p, hp, ho⟩

/-- **analyze_total_of_labels (PRE-FIX).** When every TP result and every FP result carrying a ground truth has both
labels in `target_labels + ["unknown"]`, no selection made the old `analyze` raise `ValueError`. -/
theorem analyze_total_of_labels (labels : List String) (s : Sel) (d : Option (Rat × Rat))
    (hin : ∀ f ∈ scenes.flatten, ∀ p ∈ f.pairs,
      p.1.label ∈ confusionLabels labels ∧ p.2.label ∈ confusionLabels labels) :
    analyzeOld labels (addAll area scenes).table s d ≠ .error "ValueError" := by
  intro herr
  obtain ⟨df, hdf, p, hp, ho⟩ := (analyze_error_iff labels _ s d).mp herr
  have hsub : ∀ r ∈ df, r ∈ (addAll area scenes).table := by
    cases d with
    | none =>
      simp only [selectTable, Except.ok.injEq] at hdf
      subst hdf
      exact fun r hr => (List.mem_filter.mp hr).1
    | some dd =>
      simp only [selectTable, filterByDistance] at hdf
      split at hdf
      · simp only [Except.ok.injEq] at hdf
        subst hdf
        exact fun r hr => (List.mem_filter.mp (List.mem_filter.mp hr).1).1
      · cases hdf
  have hp' : p ∈ getPairResults (addAll area scenes).table := by
    rw [getPairResults_eq] at hp ⊢
    obtain ⟨r, hr, hrp⟩ := List.mem_filterMap.mp hp
    exact List.mem_filterMap.mpr ⟨r, hsub r hr, hrp⟩
  obtain ⟨f, hf, q, hq, hoq⟩ := (confusion_error_frames area scenes labels).mp
    ((confusion_error_iff labels _).1.mpr ⟨p, hp', ho⟩)
  have := hin f hf q hq
  rcases hoq with h | h
  · exact h this.1
  · exact h this.2

section ExamplesN3

def fpl (u : String) (x : Rat) : Obj := ⟨u, "false_positive", x, 0, 0, 2, 4, some 1, none⟩
def bike (u : String) (x : Rat) : Obj := ⟨u, "bicycle", x, 0, 0, 2, 4, some 1, none⟩

/-- the reproduction: one TP pair, one FP result that keeps its FP-labelled ground truth (status (FP, FP)) -/
def n3Frame : Frame :=
  { frameNum := 0, tp := [⟨car "e1" (151/5), some (car "g1" 30)⟩], fp := [⟨car "e0" (51/5), some (fpl "g0" 10)⟩]
    tn := [], fn := [], critical := [car "g1" 30, fpl "g0" 10] }

/-- the ORDER of the appended labels: the estimate column meets "bicycle" in row 0, the ground-truth column
"false_positive" in row 1 — the ground-truth column's labels come first -/
def n3OrderFrame : Frame :=
  { frameNum := 0, tp := [⟨bike "e1" (151/5), some (car "g1" 30)⟩], fp := [⟨car "e0" (51/5), some (fpl "g0" 10)⟩]
    tn := [], fn := [], critical := [car "g1" 30, fpl "g0" 10] }

def n3Table : Table := (addAll (fun _ _ => none) [[n3Frame]]).table

/-- with target labels `["car"]` the PRE-FIX `get_confusion_matrix()` and `analyze()` raised `ValueError`; the repaired
ones return the 3×3 matrix over `car, unknown, false_positive` summing to the 2 paired rows; selecting the TP row only
gives the old 2×2 matrix; with "false_positive" a target label old and new agree -/
theorem example_n3 :
    getConfusionMatrixOld ["car"] n3Table = .error "ValueError" ∧
    (analyzeOld ["car"] n3Table {} none).map (·.map (·.confusion)) = .error "ValueError" ∧
    confusionIndex ["car"] n3Table = ["car", "unknown", "false_positive"] ∧
    getConfusionMatrix ["car"] n3Table = .ok (some [[1, 0, 0], [0, 0, 0], [1, 0, 0]]) ∧
    (analyze ["car"] n3Table {} none).map (·.map (·.confusion)) = .ok (some (some [[1, 0, 0], [0, 0, 0], [1, 0, 0]])) ∧
    (analyze ["car"] n3Table { statuses := some [.TP] } none).map (·.map (·.confusion)) = .ok (some (some [[1, 0], [0, 0]])) ∧
    getConfusionMatrixOld ["car", "false_positive"] n3Table = .ok (some [[1, 0, 0], [1, 0, 0], [0, 0, 0]]) ∧
    getConfusionMatrix ["car", "false_positive"] n3Table = .ok (some [[1, 0, 0], [1, 0, 0], [0, 0, 0]]) ∧
    (getPairResults n3Table).length = 2 ∧
    confusionIndex ["car"] (addAll (fun _ _ => none) [[n3OrderFrame]]).table = ["car", "unknown", "false_positive", "bicycle"] := by
  refine ⟨by decide +kernel, by decide +kernel, by decide +kernel, by decide +kernel, by decide +kernel,
    by decide +kernel, by decide +kernel, by decide +kernel, by decide +kernel, by decide +kernel⟩

/-- non-vacuity of `analyze_total_of_labels`: its hypothesis holds for the F11 frame, fails for `n3Frame` -/
example : (∀ f ∈ [[f11Input.frame]].flatten, ∀ p ∈ f.pairs,
      p.1.label ∈ confusionLabels ["car"] ∧ p.2.label ∈ confusionLabels ["car"]) ∧
    ¬ (∀ f ∈ [[n3Frame]].flatten, ∀ p ∈ f.pairs,
      p.1.label ∈ confusionLabels ["car"] ∧ p.2.label ∈ confusionLabels ["car"]) := by
  decide +kernel

/-- the headline statement has content: for the DEFECTIVE variant that silently drops rows with an outside label,
"a returned matrix sums to the number of paired rows" FAILS (and for the pre-fix function "a result is returned"
fails, `example_n3`); the repair spelled as "old function on the extended label list" is the repaired function -/
theorem confusion_skip_fails :
    let T := (addAll (fun _ _ => none) [[n3Frame]]).table
    (∃ m, getConfusionMatrixSkip ["car"] T = some m ∧ sumN (m.map sumN) ≠ (getPairResults T).length) ∧
    (∀ labels t, getConfusionMatrixExt labels t = getConfusionMatrix labels t) := by
  refine ⟨⟨[[1, 0], [0, 0]], by decide +kernel, by decide +kernel⟩, getConfusionMatrixExt_eq⟩

end ExamplesN3

/-! ## rows are expressed in the ego frame, for objects given in `base_link` or in `map`

`RawObj` / `RawFrame` (Model/Analyzer.lean) are the objects as handed to the analyzer, in the frame of the evaluation,
with the frame's ego pose; `addAllRaw` follows `format2dict` and `get_area_idx`, each with its own
`transforms.transform(TransformKey(frame_id, BASE_LINK), …)` step. -/

/-- **rows_from_raw.** The table built from objects given in either frame is the table of the ego-frame model built
from their ego-frame views (so every theorem above about `addAll` holds for it), and the columns of one object's row
are: `x`, `y` the planar part of `transform((frame, BASE_LINK), position)` (the height is dropped), `yaw` the
principal value of the yaw relative to the ego, the area index that of this ego-frame position, the `distance` column
(squared) `x² + y²`; velocities, sizes, uuid and label are copied. -/
theorem rows_from_raw (a : Areas) (rscenes : List (List RawFrame)) :
    addAllRaw a rscenes = addAll (areaOf a) (rscenes.map (·.map RawFrame.toFrame)) ∧
    ∀ (e : FrameChange.Pose) (o : RawObj),
      (o.frame = .baseLink → (o.toRow e).x = o.pos.x ∧ (o.toRow e).y = o.pos.y ∧ (o.toRow e).yaw = o.yaw) ∧
      (o.frame = .map → (o.toRow e).x = (FrameChange.toEgo3 e o.pos).x ∧ (o.toRow e).y = (FrameChange.toEgo3 e o.pos).y ∧
        (o.toRow e).yaw = Heading.toEgoYaw e.tau o.yaw) ∧
      areaOfRaw a e o = areaOf a (o.toRow e).x (o.toRow e).y ∧
      (o.toRow e).dist2 = (o.toRow e).x * (o.toRow e).x + (o.toRow e).y * (o.toRow e).y ∧
      ((o.toRow e).uuid, (o.toRow e).label, (o.toRow e).width, (o.toRow e).length, (o.toRow e).vx, (o.toRow e).vy) =
        (o.uuid, o.label, o.width, o.length, o.vx, o.vy) := by
  refine ⟨addAllRaw_eq a rscenes, fun e o => ⟨?_, ?_, rfl, rfl, rfl⟩⟩
  · intro hf; simp [RawObj.toRow, egoPosition, egoYaw, hf]
  · intro hf; simp [RawObj.toRow, egoPosition, egoYaw, hf]

/-- **ego_row_of_rendering.** One physical object with ego-frame position `(x, y, z)` and yaw `τ ∈ (−1, 1]`, rendered
into the map frame by an ego pose (unit rotation, ego yaw in (−1, 1], ANY translation incl. the ego's height), is
tabulated with exactly the same row as its base_link rendering: `x`, `y`, `τ`, the area index of `(x, y)`, squared
distance `x² + y²` — whatever the heights, and for the base_link rendering whatever transform is registered. -/
theorem ego_row_of_rendering (a : Areas) (e e' : FrameChange.Pose) (o : RawObj) (hu : e.rot.IsUnit)
    (he : Heading.InDom e.tau) (ho : Heading.InDom o.yaw) (hf : o.frame = .baseLink) :
    (o.renderMap e).toRow e = o.toRow e' ∧
    ((o.renderMap e).toRow e).x = o.pos.x ∧ ((o.renderMap e).toRow e).y = o.pos.y ∧
    ((o.renderMap e).toRow e).yaw = o.yaw ∧
    areaOfRaw a e (o.renderMap e) = areaOf a o.pos.x o.pos.y ∧ areaOfRaw a e' o = areaOf a o.pos.x o.pos.y ∧
    ((o.renderMap e).toRow e).dist2 = o.pos.x * o.pos.x + o.pos.y * o.pos.y := by
  have h1 := toRow_renderMap e o hu he ho
  have h2 := toRow_baseLink e' o hf
  refine ⟨h1.trans h2.symm, by rw [h1], by rw [h1], by rw [h1], ?_, ?_, by rw [h1]; rfl⟩
  · rw [areaOfRaw_eq, h1]
  · rw [areaOfRaw_eq, h2]

/-- **ego_frame_invariance.** The whole table (every column, every row pair, every index) is the same for the map
rendering and for the base_link rendering of the same physical scenes, frame by frame with the frame's own ego pose;
hence so is everything computed from the table (counts, errors, summaries, rates, confusion matrix, selections by
area and distance). -/
theorem ego_frame_invariance (a : Areas) (rscenes : List (List RawFrame))
    (h : ∀ f ∈ rscenes.flatten, f.ego.rot.IsUnit ∧ Heading.InDom f.ego.tau ∧ f.EgoGiven) :
    addAllRaw a (rscenes.map (·.map RawFrame.renderMap)) = addAllRaw a rscenes := by
  rw [addAllRaw_eq, addAllRaw_eq]
  congr 1
  rw [List.map_map]
  apply List.map_congr_left
  intro fs hfs
  simp only [Function.comp_apply, List.map_map]
  apply List.map_congr_left
  intro f hf
  have := h f (List.mem_flatten.mpr ⟨fs, hfs, hf⟩)
  exact toFrame_renderMap f this.1 this.2.1 this.2.2

section ExamplesEgo

/-- ego at (10, 20, 3) in the map, heading a quarter turn left (yaw 1/2 half-turns) -/
def egoQuarter : FrameChange.Pose := ⟨⟨0, 1⟩, 1 / 2, ⟨10, 20, 3⟩⟩

def rawCar (u : String) (x y z yaw : Rat) : RawObj := ⟨.baseLink, u, "car", ⟨x, y, z⟩, yaw, 2, 4, some 1, none⟩

def rawFrame : RawFrame :=
  { ego := egoQuarter, frameNum := 0
    tp := [⟨rawCar "e1" 41 (-19) 0 (3 / 4), some (rawCar "g1" 40 (-20) 2 (7 / 8))⟩]
    fp := [⟨rawCar "e2" (-50) 30 0 0, none⟩], tn := [], fn := [rawCar "g3" 5 5 (-1) 1]
    critical := [rawCar "g1" 40 (-20) 2 (7 / 8), rawCar "g3" 5 5 (-1) 1] }

/-- non-vacuity of `ego_frame_invariance` and a look at the numbers: the map rendering of g1 sits at (30, 60, 5) with
yaw −5/8; both renderings are tabulated at (40, −20) with yaw 7/8 in area 6 (that of the estimate at (41, −19)) of the 9-division of (96, 48) -/
theorem example_ego_rows :
    (∀ f ∈ [[rawFrame]].flatten, f.ego.rot.IsUnit ∧ Heading.InDom f.ego.tau ∧ f.EgoGiven) ∧
    (rawCar "g1" 40 (-20) 2 (7 / 8)).renderMap egoQuarter =
      ⟨.map, "g1", "car", ⟨30, 60, 5⟩, -5 / 8, 2, 4, some 1, none⟩ ∧
    (generateAreaPoints 9 96 48).map (fun a =>
      ((addAllRaw a [[rawFrame.renderMap]]).table.map fun r => (r.gt.map fun c => ([c.obj.x, c.obj.y, c.obj.yaw], c.area)))) =
      .ok [some ([40, -20, 7 / 8], some 6), none, some ([5, 5, 1], some 4)] ∧
    (generateAreaPoints 9 96 48).map (fun a => (addAllRaw a [[rawFrame.renderMap]]).table == (addAllRaw a [[rawFrame]]).table) = .ok true := by
  refine ⟨?_, by decide +kernel, by decide +kernel, by decide +kernel⟩
  intro f hf
  simp only [List.flatten_cons, List.flatten_nil, List.append_nil, List.mem_singleton] at hf
  subst hf
  refine ⟨by simp [Geometry.Rot2.IsUnit, rawFrame, egoQuarter], by decide +kernel, ?_, ?_⟩
  · intro p hp
    simp only [rawFrame, List.cons_append, List.nil_append, List.mem_cons, List.not_mem_nil, or_false] at hp
    rcases hp with rfl | rfl
    · refine ⟨⟨rfl, by decide +kernel⟩, ?_⟩
      intro g hg; cases hg; exact ⟨rfl, by decide +kernel⟩
    · refine ⟨⟨rfl, by decide +kernel⟩, ?_⟩
      intro g hg; cases hg
  · intro o ho
    simp only [rawFrame, List.cons_append, List.nil_append, List.mem_cons, List.not_mem_nil, or_false] at ho
    rcases ho with rfl | rfl | rfl <;> exact ⟨rfl, by decide +kernel⟩

/-- the statement has content: for the DEFECTIVE variant that tabulates the object's own coordinates (no transform
applied to map-frame objects) the two renderings of one object get DIFFERENT rows -/
theorem toRow_noTransform_fails :
    ¬ (∀ (e : FrameChange.Pose) (o : RawObj), e.rot.IsUnit → Heading.InDom e.tau → Heading.InDom o.yaw →
        o.frame = .baseLink → (o.renderMap e).toRowNoTransform = o.toRowNoTransform) := by
  intro h
  have := h egoQuarter (rawCar "g1" 40 (-20) 2 (7 / 8)) (by simp [Geometry.Rot2.IsUnit, egoQuarter]) (by decide +kernel) (by decide +kernel) rfl
  revert this
  decide +kernel

end ExamplesEgo

/-! ## which rows feed `summarize_error`

`Summary.rms2` and `Summary.var` are the SQUARES of the reported `rms` (`sqrt(mean(e²))`) and `std` (`np.std`); the
square roots are taken by numpy and compared by the harness. -/

/-- **error_summary_rows.** On every selection of the table of any scenes, `analyze().error` is: the block "ALL" =
one summary per column of the per-row errors of ALL paired rows of the selected sub-table `df` (TP results and FP
results carrying a ground truth; GT − estimate, yaw wrapped, NaN dropped); the block of target label `L` = the same
over the paired rows of `df` whose GROUND-TRUTH row has label `L` — the estimate's label does not matter (unlike the
per-label TP rate, N1). -/
theorem error_summary_rows (labels : List String) (s : Sel) (d : Option (Rat × Rat)) (A : Analysis)
    (h : analyze labels (addAll area scenes).table s d = .ok (some A)) :
    let df := (addAll area scenes).table.filter (RowPair.selected s d)
    A.error = ("ALL", errCols df) :: labels.map (fun L => (L, errCols (df.filter (gtLabelIs L)))) ∧
    (∀ c, pairErrors c df = (getPairResults df).filterMap (pairError c)) ∧
    (∀ c L, pairErrors c (df.filter (gtLabelIs L)) =
      ((getPairResults df).filter (fun p => p.1.obj.label == L)).filterMap (pairError c)) ∧
    (∀ p ∈ getPairResults df, (p.1.status = .TP ∧ p.2.status = .TP) ∨ (p.1.status = .FP ∧ p.2.status = .FP)) := by
  intro df
  have hd : ∀ dd, d = some dd → dd.1 < dd.2 := by
    intro dd hdd
    by_contra hn
    have := ((selection_exact labels (addAll area scenes).table s d).2 dd hdd hn).2
    rw [this] at h
    cases h
  obtain ⟨_, _, _, _, hA⟩ := (selection_exact labels (addAll area scenes).table s d).1 hd
  obtain ⟨_, herr, _⟩ := hA A h
  have hnd : ((addAll area scenes).table.map (·.index)).Nodup := by
    rw [index_range]; exact List.nodup_range
  have hp : PairsIn (addAll area scenes).table := by
    intro p hp
    have := (pairs_eq_lists area scenes).2
    exact (List.filter_eq_self.mp this) p hp
  refine ⟨?_, fun c => rfl, fun c L => pairErrors_gtLabel df (hp.filter _) L c, ?_⟩
  · rw [herr]; exact summarizeError_eq labels _ _ hnd hp
  · intro p hpm
    have hsub : p ∈ getPairResults (addAll area scenes).table := by
      rw [getPairResults_eq] at hpm ⊢
      obtain ⟨r, hr, hrp⟩ := List.mem_filterMap.mp hpm
      exact List.mem_filterMap.mpr ⟨r, (List.mem_filter.mp hr).1, hrp⟩
    rw [getPairResults_eq] at hsub
    obtain ⟨r, hr, hrp⟩ := List.mem_filterMap.mp hsub
    obtain ⟨k, f, _, hit⟩ := mem_table area scenes r hr
    simp only [frameItems, List.mem_append, List.mem_map] at hit
    unfold pairOf at hrp
    rcases hit with ((⟨q, _, hq⟩ | ⟨q, _, hq⟩) | ⟨o, _, hq⟩) | ⟨o, _, hq⟩
    all_goals
      simp only [RowPair.strip, resultCells, objectCells, Prod.mk.injEq] at hq
      obtain ⟨hg, he⟩ := hq
      rw [← hg, ← he] at hrp
    · cases hqg : q.gt with
      | none => simp [hqg] at hrp
      | some g => simp [hqg] at hrp; subst hrp; exact Or.inl ⟨rfl, rfl⟩
    · cases hqg : q.gt with
      | none => simp [hqg] at hrp
      | some g => simp [hqg] at hrp; subst hrp; exact Or.inr ⟨rfl, rfl⟩
    · simp at hrp
    · simp at hrp

/-- **error_summary_whole.** On the whole table, in terms of the frames' pass/fail lists: the per-row errors behind
"ALL" are GT − estimate of every TP result and every FP result carrying a ground truth, in table order; those behind
label `L` are the same restricted to results whose ground truth has label `L`. -/
theorem error_summary_whole (c : Col) (L : String) :
    pairErrors c (addAll area scenes).table =
      (scenes.flatten.flatMap Frame.pairs).filterMap (fun p => objError c p.1 p.2) ∧
    pairErrors c ((addAll area scenes).table.filter (gtLabelIs L)) =
      ((scenes.flatten.flatMap Frame.pairs).filter (fun p => p.1.label == L)).filterMap (fun p => objError c p.1 p.2) := by
  have h := (pairs_eq_lists area scenes).1
  have hp : PairsIn (addAll area scenes).table := by
    intro p hp
    exact (List.filter_eq_self.mp (pairs_eq_lists area scenes).2) p hp
  constructor
  · rw [← h, List.filterMap_map]; rfl
  · rw [pairErrors_gtLabel _ hp, ← h, List.filter_map, List.filterMap_map]; rfl

/-- **error_summary_functions.** Every summary reported for a column is the stated function of the per-row errors
`e₁ … eₙ` of its block: NaN exactly when there is none; otherwise `average·n = Σ eᵢ`, `rms2·n = Σ eᵢ²` (`rms2` = SQUARE
of the reported RMS), `var = rms2 − average²` (`var` = SQUARE of the reported std), `max` / `min` the largest /
smallest `|eᵢ|`, attained. -/
theorem error_summary_functions (t : Table) (c : Col) (o : Option Summary) (h : (c, o) ∈ errCols t) :
    (o = none ↔ pairErrors c t = []) ∧
    ∀ sm, o = some sm →
      sm.average * ((pairErrors c t).length : Rat) = sumR (pairErrors c t) ∧
      sm.rms2 * ((pairErrors c t).length : Rat) = sumR ((pairErrors c t).map fun v => v * v) ∧
      sm.var = sm.rms2 - sm.average * sm.average ∧
      (∀ v ∈ pairErrors c t, v.abs ≤ sm.max) ∧ (∃ v ∈ pairErrors c t, sm.max = v.abs) ∧
      (∀ v ∈ pairErrors c t, sm.min ≤ v.abs) ∧ (∃ v ∈ pairErrors c t, sm.min = v.abs) := by
  simp only [errCols, List.mem_map, Prod.mk.injEq] at h
  obtain ⟨c', _, rfl, rfl⟩ := h
  refine ⟨(summary_defs _).1, fun sm hs => ?_⟩
  obtain ⟨h1, h2, h3⟩ := (summary_defs _).2 sm hs
  obtain ⟨h4, h5, h6, h7⟩ := summary_max_min _ sm hs
  exact ⟨h1, h2, h3, h4, h5, h6, h7⟩

section ExamplesSummary

/-- a TP pair with different labels (GT car at 10, estimate "unknown" at 9), an FP pair carrying a car GT (30 vs 34),
a GT-less FP, an FN -/
def sumFrame : Frame :=
  { frameNum := 0, tp := [⟨unk "e1" 9, some (car "g1" 10)⟩], fp := [⟨car "e2" 34, some (car "g2" 30)⟩, ⟨car "e3" 70, none⟩]
    tn := [], fn := [car "g2" 30, unk "g4" 50], critical := [car "g1" 10, car "g2" 30, unk "g4" 50] }

/-- ALL and "car": x errors [1, −4] (mean −3/2, RMS² 17/2, max 4, min 1); "unknown": no paired row with an unknown
GROUND TRUTH, NaN — although an estimate is labelled unknown -/
theorem example_error_summary :
    let T := (addAll (fun _ _ => none) [[sumFrame]]).table
    (analyze ["car", "unknown"] T {} none).map (·.map fun A => A.error.map fun b => (b.1, b.2.head?.map (·.2))) =
      .ok (some [("ALL", some (some ⟨-3 / 2, 17 / 2, 25 / 4, 4, 1⟩)),
                 ("car", some (some ⟨-3 / 2, 17 / 2, 25 / 4, 4, 1⟩)), ("unknown", some none)]) ∧
    pairErrors .x T = [1, -4] := by
  decide +kernel

/-- the statement has content: for the DEFECTIVE variant that picks a label's rows by the ESTIMATE's label, the label
blocks are not those of `error_summary_rows` -/
theorem summary_by_est_fails :
    let T := (addAll (fun _ _ => none) [[sumFrame]]).table
    summarizeErrorByEst ["car", "unknown"] T T ≠
      ("ALL", errCols T) :: ["car", "unknown"].map (fun L => (L, errCols (T.filter (gtLabelIs L)))) ∧
    summarizeError ["car", "unknown"] T T =
      ("ALL", errCols T) :: ["car", "unknown"].map (fun L => (L, errCols (T.filter (gtLabelIs L)))) := by
  decide +kernel

end ExamplesSummary

/-! ## `GroundTruthStatus.get_status_rates`, `StatusRate.rate`, `get_scene_rates` (`common/status.py`)

`none` models `float("inf")`, which `StatusRate.rate` returns when the status count OR the total is 0 — i.e. also for
a status that simply never occurred for that ground truth. -/

/-- **status_rates_unit.** For every record of `get_object_status`: the record is balanced (`total` has one entry
per entry of the four status lists) and non-empty; a rate is `inf` exactly for a status that never occurred; every
defined rate is `#frames with that status / #tally entries`, lies in (0, 1]; reading `inf` as 0 the four rates sum to 1. -/
theorem status_rates_unit (frames : List Frame) :
    ∀ s ∈ getObjectStatus frames,
      s.total.length = s.tp.length + s.fp.length + s.tn.length + s.fn.length ∧ 0 < s.total.length ∧
      (∀ st, (st, none) ∈ s.statusRates ↔ (statusField st s).length = 0) ∧
      (∀ st r, (st, some r) ∈ s.statusRates →
        r = ((statusField st s).length : Rat) / (s.total.length : Rat) ∧ 0 < r ∧ r ≤ 1) ∧
      ((s.statusRates.map fun p => rateOr0 p.2).foldr (· + ·) 0 = 1) := by
  intro s hs
  have hb := getObjectStatus_balanced frames s hs
  have hn : s.total.length ≠ 0 := by have := hb.2; omega
  refine ⟨hb.1, hb.2, ?_, ?_, ?_⟩
  · intro st
    cases st <;>
      simp [GtStatus.statusRates, statusField, hn, statusRate]
  · intro st r hr
    have hle : (statusField st s).length ≤ s.total.length := by
      have := hb.1
      cases st <;> simp only [statusField] <;> omega
    have hmem : statusRate (statusField st s).length s.total.length = some r := by
      cases st <;> simp only [GtStatus.statusRates, statusField, List.mem_cons, Prod.mk.injEq, List.not_mem_nil,
        or_false, reduceCtorEq, false_and, false_or, true_and] at hr ⊢ <;>
        exact hr.symm
    obtain ⟨_, _, hr'⟩ := statusRate_some _ _ _ hmem
    exact ⟨hr', statusRate_unit _ _ _ hle hmem⟩
  · have := statusRates_sum s hb
    simp only [GtStatus.statusRates, List.map_cons, List.map_nil, List.foldr_cons, List.foldr_nil]
    linarith

/-- **scene_rates_unit_sum.** `get_scene_rates` returns the four `inf` exactly when nothing was tallied; otherwise
each of the four rates lies in [0, 1] and they sum to 1 — with or without F11, because `add_status` appends to `total`
and to one status list together. -/
theorem scene_rates_unit_sum (frames : List Frame) :
    (sceneRates (getObjectStatus frames) = none ↔ sumN (frames.map Frame.gtRows) = 0) ∧
    ∀ a b c d, sceneRates (getObjectStatus frames) = some (a, b, c, d) →
      (0 ≤ a ∧ a ≤ 1) ∧ (0 ≤ b ∧ b ≤ 1) ∧ (0 ≤ c ∧ c ≤ 1) ∧ (0 ≤ d ∧ d ≤ 1) ∧ a + b + c + d = 1 := by
  refine ⟨?_, fun a b c d h => sceneRates_unit_sum _ (getObjectStatus_balanced frames) a b c d h⟩
  rw [sceneRates_none_iff, sceneCounts_frames]

/-- **scene_rates_f11_exact.** With well-formed pass/fail lists, writing `D` = number of (critical ground truth,
frame) incidences — the denominator the property's "once per evaluated frame" asks for — and `X` = number of FP
results carrying an ordinary ground truth (F11): the tallies behind the scene rates are `total = D + X`, `TP`,
`FP = FPL + X`, `TN`, `FN` with `D = TP + FPL + TN + FN`.  So the code's rates are
`TP/(D+X), (FPL+X)/(D+X), TN/(D+X), FN/(D+X)` (sum 1), every rate is scaled by `D/(D+X)` against the per-evaluated-frame
rate and the FP rate additionally holds the `X` doubly counted frames; over the intended denominator `D` the four
tallies would sum to `1 + X/D`. -/
theorem scene_rates_f11_exact (frames : List Frame) (hwf : ∀ f ∈ frames, f.WF) :
    let D := sumN (frames.map fun f => f.critical.length)
    let X := sumN (frames.map fun f => f.fpOrd.length)
    let TP := sumN (frames.map fun f => f.tpGts.length)
    let FPL := sumN (frames.map fun f => f.fpFpl.length)
    let TN := sumN (frames.map fun f => f.tn.length)
    let FN := sumN (frames.map fun f => f.fn.length)
    sceneCounts (getObjectStatus frames) = ⟨D + X, TP, FPL + X, TN, FN⟩ ∧ D = TP + FPL + TN + FN ∧
    (0 < D → ((TP : Rat) + ((FPL + X : Nat) : Rat) + TN + FN) / D = 1 + (X : Rat) / D) := by
  intro D X TP FPL TN FN
  have hrows : sumN (frames.map Frame.gtRows) = D + X := by
    rw [← sumN_map_add]
    exact sumN_map_congr _ _ _ (fun f hf => (hwf f hf).gtRows_eq)
  have hfp : sumN (frames.map fun f => f.fpGts.length) = FPL + X := by
    rw [← sumN_map_add]
    exact sumN_map_congr _ _ _ (fun f _ => f.fpGts_length)
  have hD : D = TP + FPL + TN + FN := by
    have : ∀ f ∈ frames, f.critical.length = f.tpGts.length + f.fpFpl.length + f.tn.length + f.fn.length := by
      intro f hf
      have := (hwf f hf).partition.length_eq
      simp only [List.length_append] at this
      omega
    show sumN (frames.map fun f => f.critical.length) = _
    rw [sumN_map_congr _ _ _ this, sumN_map_add, sumN_map_add, sumN_map_add]
  refine ⟨?_, hD, ?_⟩
  · rw [sceneCounts_frames, hrows, hfp]
  · intro hpos
    have hD' : (D : Rat) ≠ 0 := by
      have : (0 : Rat) < (D : Rat) := by exact_mod_cast hpos
      exact ne_of_gt this
    have hcast : (D : Rat) = (TP : Rat) + FPL + TN + FN := by exact_mod_cast hD
    rw [Nat.cast_add]
    field_simp
    linarith

section ExamplesStatusRates

/-- the F11 frame: g2 is tallied twice in frame 0 (FP and FN): its rates are FP 1/2, FN 1/2, TP and TN `inf`;
scene tallies total 4 = D 3 + X 1; scene rates 1/4, 1/4, 0, 1/2 -/
theorem example_status_rates :
    (getObjectStatus [f11Input.frame]).map (fun s => (s.uuid, s.statusRates.map (·.2))) =
      [("g1", [some 1, none, none, none]), ("g2", [none, some (1 / 2), none, some (1 / 2)]),
       ("g3", [none, none, none, some 1])] ∧
    sceneCounts (getObjectStatus [f11Input.frame]) = ⟨4, 1, 1, 0, 2⟩ ∧
    sceneRates (getObjectStatus [f11Input.frame]) = some (1 / 4, 1 / 4, 0, 1 / 2) ∧
    sceneRates (getObjectStatus []) = none := by
  decide +kernel

/-- the statements have content: a record that is not balanced (a status list longer than `total`: what an `add_status`
that forgot `total` would produce) has a rate above 1 -/
example : statusRate 2 1 = some 2 ∧ ¬ ((2 : Rat) ≤ 1) := by decide +kernel

example : ∀ f ∈ [f11Input.frame], f.WF := by
  intro f hf
  simp only [List.mem_singleton] at hf
  subst hf
  exact (passFail_wf _ _ _ (by decide +kernel) (by decide +kernel) (by decide +kernel)).1

end ExamplesStatusRates

end PEval.C19
