import PEval.Lemmas.MatchKernelsDT
import PEval.Lemmas.APMono
import PEval.Gen.KBetter
/-!
# Decision table of `is_better_than` of the four `MatchingMethod` classes (serves C01, C08)

`PEval.Gen.K.better.tree`: the REAL `is_better_than` of CenterDistanceMatching, PlaneDistanceMatching, IOU2dMatching and
IOU3dMatching run on a symbolic `value` (possibly `None`) and a symbolic threshold, over every outcome of the order
atoms (`lt / eq / gt`, so `<` and `<=` differ exactly on `eq`). The table shows the DIRECTION per class and that
equality is not better (`table_distance_direction`, `table_iou_direction`, `table_equal_not_better`).

What is pinned and what is open. C08: "a result that is a TP at some matching threshold is still a TP at every looser
threshold (larger distance, smaller IoU)"; C01: "only pairs objects closer than that radius". Both speak about thresholds
on the mode's scale; neither says what an IoU class does with a threshold outside [0, 1] (today: an assertion). The
per-run obligation is therefore stated for the valuations avoiding `forbIoU` (IoU class ∧ (`0 > thr` ∨ `1 < thr`)): on
them the code's table must equal the skeleton (direction, strictness, `None` value); on the forbidden ones it may raise
anything or return anything. In-quantifier predicate: `AP.thrValid m t` (`valBetter_consistent`). The distance classes
are pinned for EVERY threshold.
-/
namespace PEval.KernelBetter
open PEval PEval.DT PEval.MatchKernels

/-- THE per-run obligation -/
theorem better_table_check : tableOk forbIoU Gen.K.better.tree betterTree = true := by decide +kernel

/-- the code's decision table equals the model's skeleton under every valuation of the atoms that does not stand for an
IoU threshold outside [0, 1] -/
theorem better_code_table_eq_model : ∀ t, Gen.K.better.tree = some t →
    ∀ v : Val, consistent forbIoU v = true → eval t v = betterAtoms v :=
  fun t ht v hv => tableOk_sound better_table_check t ht v hv

/-- the bridge: the metrics model's `isBetterThan` is the skeleton applied to the atoms of the input (all inputs) -/
theorem better_eq_skeleton (m : AP.Mode) (x : Option Rat) (t : Rat) :
    betterAtoms (valBetter m x t) = ofBool (AP.isBetterThan m x t) := better_bridge m x t

/-- the CODE's table at the atoms of a concrete (value, threshold on the mode's scale) gives the model's verdict -/
theorem better_code_table_eq_isBetterThan :
    ∀ tr, Gen.K.better.tree = some tr → ∀ (m : AP.Mode) (x : Option Rat) (t : Rat), AP.thrValid m t = true →
      eval tr (valBetter m x t) = ofBool (AP.isBetterThan m x t) := by
  intro tr ht m x t hv
  rw [better_code_table_eq_model tr ht _ (valBetter_consistent m x t hv)]; exact better_bridge m x t

/-- the same against the matcher's `isBetterThan` (the radius gate of the score table) -/
theorem better_code_table_eq_isBetterThan_matcher :
    ∀ tr, Gen.K.better.tree = some tr → ∀ (m : Matching.Mode) (v t : Rat), AP.thrValid (toAP m) t = true →
      eval tr (valBetter (toAP m) (some v) t) = ofBool (Matching.isBetterThan m v t) := by
  intro tr ht m v t hv
  rw [better_code_table_eq_model tr ht _ (valBetter_consistent _ _ t hv)]; exact better_bridge_M m v t

/-- for the code's table: the distance classes are smaller-is-better, strictly (every threshold) -/
theorem table_distance_direction {tr : DTree} (ht : Gen.K.better.tree = some tr) (m : AP.Mode)
    (hm : m.isDistance = true) (x t : Rat) : eval tr (valBetter m (some x) t) = .ret (decide (x < t)) := by
  rw [better_code_table_eq_isBetterThan tr ht m _ t (by simp [AP.thrValid, hm])]
  simp [AP.isBetterThan, AP.thrValid, AP.isBetter, hm, ofBool]

/-- for the code's table: the IoU classes are larger-is-better, strictly, for thresholds in [0, 1] (outside: open) -/
theorem table_iou_direction {tr : DTree} (ht : Gen.K.better.tree = some tr) (m : AP.Mode)
    (hm : m.isDistance = false) (x t : Rat) (h0 : 0 ≤ t) (h1 : t ≤ 1) :
    eval tr (valBetter m (some x) t) = .ret (decide (t < x)) := by
  rw [better_code_table_eq_isBetterThan tr ht m _ t (by simp [AP.thrValid, hm, h0, h1])]
  simp [AP.isBetterThan, AP.thrValid, AP.isBetter, hm, ofBool, h0, h1]

/-- for the code's table: a value equal to the threshold is never better, in any class -/
theorem table_equal_not_better {tr : DTree} (ht : Gen.K.better.tree = some tr) (m : AP.Mode) (x : Rat)
    (hv : AP.thrValid m x = true) : eval tr (valBetter m (some x) x) ≠ .ret true := by
  rw [better_code_table_eq_isBetterThan tr ht m _ x hv]
  unfold AP.isBetterThan
  split <;> simp [ofBool, AP.isBetter]

/-- for the code's table: no value (`None`) is never better -/
theorem table_none_not_better {tr : DTree} (ht : Gen.K.better.tree = some tr) (m : AP.Mode) (t : Rat)
    (hv : AP.thrValid m t = true) : eval tr (valBetter m none t) ≠ .ret true := by
  rw [better_code_table_eq_isBetterThan tr ht m _ t hv]
  unfold AP.isBetterThan
  split <;> simp [ofBool]

/-- C08 for the code's table: a value that beats a threshold (on the scale) beats every looser threshold on the scale -/
theorem table_better_mono {tr : DTree} (ht : Gen.K.better.tree = some tr) (m : AP.Mode) (x : Option Rat) (t t' : Rat)
    (hl : AP.looser m t t') (hvt : AP.thrValid m t = true) (hv : AP.thrValid m t' = true)
    (h : eval tr (valBetter m x t) = .ret true) : eval tr (valBetter m x t') = .ret true := by
  rw [better_code_table_eq_isBetterThan tr ht m x t hvt] at h
  rw [better_code_table_eq_isBetterThan tr ht m x t' hv]
  unfold AP.isBetterThan at h ⊢
  rw [hvt] at h
  rw [hv]
  cases x with
  | none => simp [ofBool] at h
  | some y =>
    simp only [if_true, ofBool, DT.Res.ret.injEq] at h
    simp [ofBool, AP.isBetter_mono hl h]

/-- non-vacuity: on an unchanged tree the table exists; 1 < 2 is better for a distance (also for a distance threshold
outside [0, 1]), not for an IoU; equality is not; the in-quantifier predicate holds for IoU thresholds 0, 1/2, 1 -/
example : ∀ tr, Gen.K.better.tree = some tr →
    eval tr (valBetter .centerDistance (some 1) 2) = .ret true ∧ eval tr (valBetter .planeDistance (some 2) 2) = .ret false
    ∧ eval tr (valBetter .iou2d (some (1/4)) (1/2)) = .ret false ∧ eval tr (valBetter .iou3d (some (3/4)) (1/2)) = .ret true
    ∧ eval tr (valBetter .iou3d (some 1) 1) = .ret false ∧ eval tr (valBetter .iou2d (some (1/4)) 0) = .ret true := by
  intro tr ht
  rw [better_code_table_eq_isBetterThan tr ht _ _ _ (by decide +kernel), better_code_table_eq_isBetterThan tr ht _ _ _ (by decide +kernel),
    better_code_table_eq_isBetterThan tr ht _ _ _ (by decide +kernel), better_code_table_eq_isBetterThan tr ht _ _ _ (by decide +kernel),
    better_code_table_eq_isBetterThan tr ht _ _ _ (by decide +kernel), better_code_table_eq_isBetterThan tr ht _ _ _ (by decide +kernel)]
  decide +kernel

example : AP.thrValid .iou2d 0 = true ∧ AP.thrValid .iou3d 1 = true ∧ AP.thrValid .centerDistance 7 = true
    ∧ AP.thrValid .iou3d (3/2) = false := by decide +kernel

end PEval.KernelBetter
