import PEval.Lemmas.MatchKernelsDT
import PEval.Lemmas.APMono
import PEval.Gen.KBetter
/-!
# Decision table of `is_better_than` of the four `MatchingMethod` classes (serves C01, C08)

`PEval.Gen.K.better.tree`: the REAL `is_better_than` of CenterDistanceMatching, PlaneDistanceMatching, IOU2dMatching and
IOU3dMatching run on a symbolic `value` (possibly `None`) and a symbolic threshold, over every outcome of the order
atoms (`lt / eq / gt`, so `<` and `<=` differ exactly on `eq`). The table shows the DIRECTION per class and that
equality is not better (`table_distance_direction`, `table_iou_direction`, `table_equal_not_better`).
-/
namespace PEval.KernelBetter
open PEval PEval.DT PEval.MatchKernels

/-- THE per-run obligation -/
theorem better_table_check : tableOk [] Gen.K.better.tree betterTree = true := by decide +kernel

/-- the code's decision table equals the model's skeleton under every valuation of the atoms -/
theorem better_code_table_eq_model : ∀ t, Gen.K.better.tree = some t → ∀ v : Val, eval t v = betterAtoms v :=
  fun t ht v => tableOk_sound better_table_check t ht v (consistent_nil v)

/-- the bridge: the metrics model's `isBetterThan` is the skeleton applied to the atoms of the input (all inputs) -/
theorem better_eq_skeleton (m : AP.Mode) (x : Option Rat) (t : Rat) :
    betterAtoms (valBetter m x t) = ofBool (AP.isBetterThan m x t) := better_bridge m x t

/-- the CODE's table at the atoms of a concrete (value, threshold) gives the model's verdict (Boolean or AssertionError) -/
theorem better_code_table_eq_isBetterThan :
    ∀ tr, Gen.K.better.tree = some tr → ∀ (m : AP.Mode) (x : Option Rat) (t : Rat),
      eval tr (valBetter m x t) = ofBool (AP.isBetterThan m x t) := by
  intro tr ht m x t
  rw [better_code_table_eq_model tr ht]; exact better_bridge m x t

/-- the same against the matcher's `isBetterThan` (the radius gate of the score table) -/
theorem better_code_table_eq_isBetterThan_matcher :
    ∀ tr, Gen.K.better.tree = some tr → ∀ (m : Matching.Mode) (v t : Rat),
      eval tr (valBetter (toAP m) (some v) t) = ofBool (Matching.isBetterThan m v t) := by
  intro tr ht m v t
  rw [better_code_table_eq_model tr ht]; exact better_bridge_M m v t

/-- for the code's table: the distance classes are smaller-is-better, strictly -/
theorem table_distance_direction {tr : DTree} (ht : Gen.K.better.tree = some tr) (m : AP.Mode)
    (hm : m.isDistance = true) (x t : Rat) : eval tr (valBetter m (some x) t) = .ret (decide (x < t)) := by
  rw [better_code_table_eq_isBetterThan tr ht]
  simp [AP.isBetterThan, AP.thrValid, AP.isBetter, hm, ofBool]

/-- for the code's table: the IoU classes are larger-is-better, strictly, for thresholds in [0, 1]; otherwise they raise -/
theorem table_iou_direction {tr : DTree} (ht : Gen.K.better.tree = some tr) (m : AP.Mode)
    (hm : m.isDistance = false) (x t : Rat) :
    (0 ≤ t → t ≤ 1 → eval tr (valBetter m (some x) t) = .ret (decide (t < x)))
      ∧ (¬ (0 ≤ t ∧ t ≤ 1) → eval tr (valBetter m (some x) t) = .raise eAssert) := by
  rw [better_code_table_eq_isBetterThan tr ht]
  constructor
  · intro h0 h1; simp [AP.isBetterThan, AP.thrValid, AP.isBetter, hm, ofBool, h0, h1]
  · intro h
    have : (decide (0 ≤ t) && decide (t ≤ 1)) = false := by
      by_cases h0 : 0 ≤ t
      · have h1 : ¬ t ≤ 1 := fun h1 => h ⟨h0, h1⟩
        simp [h1]
      · simp [h0]
    simp [AP.isBetterThan, AP.thrValid, hm, ofBool, this, errCode_assert, eAssert]

/-- for the code's table: a value equal to the threshold is never better, in any class -/
theorem table_equal_not_better {tr : DTree} (ht : Gen.K.better.tree = some tr) (m : AP.Mode) (x : Rat) :
    eval tr (valBetter m (some x) x) ≠ .ret true := by
  rw [better_code_table_eq_isBetterThan tr ht]
  unfold AP.isBetterThan
  split <;> simp [ofBool, AP.isBetter]

/-- for the code's table: no value (`None`) is never better -/
theorem table_none_not_better {tr : DTree} (ht : Gen.K.better.tree = some tr) (m : AP.Mode) (t : Rat) :
    eval tr (valBetter m none t) ≠ .ret true := by
  rw [better_code_table_eq_isBetterThan tr ht]
  unfold AP.isBetterThan
  split <;> simp [ofBool]

/-- C08 for the code's table: a value that beats a threshold beats every looser valid threshold -/
theorem table_better_mono {tr : DTree} (ht : Gen.K.better.tree = some tr) (m : AP.Mode) (x : Option Rat) (t t' : Rat)
    (hl : AP.looser m t t') (hv : AP.thrValid m t' = true)
    (h : eval tr (valBetter m x t) = .ret true) : eval tr (valBetter m x t') = .ret true := by
  rw [better_code_table_eq_isBetterThan tr ht] at h ⊢
  unfold AP.isBetterThan at h ⊢
  rw [hv]
  split at h
  · cases x with
    | none => simp [ofBool] at h
    | some y =>
      simp only [ofBool, DT.Res.ret.injEq] at h
      simp [ofBool, AP.isBetter_mono hl h]
  · simp [ofBool] at h

/-- non-vacuity: on an unchanged tree the table exists; 1 < 2 is better for a distance, not for an IoU; equality is not -/
example : ∀ tr, Gen.K.better.tree = some tr →
    eval tr (valBetter .centerDistance (some 1) 2) = .ret true ∧ eval tr (valBetter .planeDistance (some 2) 2) = .ret false
    ∧ eval tr (valBetter .iou2d (some (1/4)) (1/2)) = .ret false ∧ eval tr (valBetter .iou3d (some (3/4)) (1/2)) = .ret true
    ∧ eval tr (valBetter .iou3d (some (3/4)) (3/2)) = .raise eAssert := by
  intro tr ht
  simp only [better_code_table_eq_isBetterThan tr ht]
  decide +kernel

end PEval.KernelBetter
