import PEval.Lemmas.APScene
/-!
# C04, scene level — `get_scene_result → Map → Ap` pools the frames

The frame-level theorems of C04 (`PEval/Properties/C04Core.lean`, `Pipeline.lean`) are about
`frameMap`. This module is about the scene-level part of the model `PEval/Model/AP.lean`:
`frameBuckets`, `sceneBucketsAux`, `sceneBuckets`, `sceneMap` (the model of
`PerceptionEvaluationManager.get_scene_result`: per target label `[[]] + [bucket of frame 1, bucket of
frame 2, …]`, the ground-truth counts of the frames added up, then `Map(...)`).

Vocabulary: a frame is `(rs, gl) : List Res × List Label` (object results, labels of the ground truths);
`bucket T l rs` = the results of `rs` that `divide_objects(·, T)` files under label `l`, in input order;
`cnt l gl` = the number of ground truths of label `l` (both are `abbrev`s of `PEval/Lemmas/APScene.lean`).

* S1 `sceneBuckets_eq` — the two dicts in closed form, for every target list (duplicates allowed).
* S3 `scene_eq_frame_of_concat` — the scene score IS the frame-level score of the concatenated
  results and concatenated ground truths (`scene_single_frame_eq_frame`: one frame ⇒ the frame score).
* S4 `scene_ap_eq_pooled` — per label: `Ap` of the pooled bucket and the summed count.
* S5 `pooled_ap_in_unit_interval`, `scene_in_unit_interval` — every defined AP / APH / mAP / mAPH of
  a scene lies in [0,1] when the matching is one-to-one INSIDE EACH FRAME (ground-truth ids may repeat
  across the frames: no scene-wide `Nodup`).
* S6 the defective variant (stored seeded defects C04_C / C13_F: a frame whose bucket for the label is
  empty is skipped together with its ground-truth count) violates S3 on a two-frame instance.
* S7 a concrete two-frame scene.

S2 (`mapOf_congr_flatten`: `Map` reads a nested entry only through its concatenation) is in
`PEval/Lemmas/APScene.lean`.
-/

namespace PEval.C04
open PEval.AP

/-! ## S1: the dicts `get_scene_result` builds -/

/-- per target label: the empty list followed by the label's bucket of every frame, and the sum of
the label's ground-truth counts. Holds for every `T` (duplicate labels included) and never errs. -/
theorem sceneBuckets_eq (T : List Label) (frames : List (List Res × List Label)) :
    sceneBuckets T frames
      = .ok (T.map (fun l => (l, [] :: frames.map (fun f => bucket T l f.1))),
             T.map (fun l => (l, (frames.map (fun f => cnt l f.2)).sum))) := by
  unfold sceneBuckets
  exact sceneBucketsAux_eq frames T (fun l hl => by simpa using hl)

/-! ## S3: the scene score is the frame score of the concatenation -/

/-- **pooling**: `get_scene_result`'s `Map` equals the frame-level `Map` of ONE frame holding the
concatenated object results and the concatenated ground truths (in frame order) -/
theorem scene_eq_frame_of_concat (m : Mode) (is2d : Bool) (T : List Label) (th : List Rat)
    (frames : List (List Res × List Label)) :
    sceneMap m is2d T th frames
      = frameMap m is2d T th (frames.map (·.1)).flatten (frames.map (·.2)).flatten := by
  unfold sceneMap frameMap
  rw [sceneBuckets_eq]
  simp only
  apply mapOf_congr_flatten
  · intro l hl
    have hT : T.contains l = true := by simpa using hl
    rw [lookupKey_tabulate_mem (fun l => [] :: frames.map (fun f => bucket T l f.1)) hl,
      lookupKey_map (fun v => [v]), lookup_divideObjects_target _ hT]
    simp only [Except.map, List.flatten_cons, List.flatten_nil, List.nil_append, List.append_nil,
      List.filter_flatten, List.map_map]
    rfl
  · intro l hl
    have hT : T.contains l = true := by simpa using hl
    rw [lookupKey_tabulate_mem (fun l => (frames.map (fun f => cnt l f.2)).sum) hl,
      lookup_divideObjectsToNum_target _ hT, List.filter_flatten, List.length_flatten, List.map_map,
      List.map_map]
    rfl

/-- a scene of one frame scores like the frame -/
theorem scene_single_frame_eq_frame (m : Mode) (is2d : Bool) (T : List Label) (th : List Rat)
    (rs : List Res) (gl : List Label) :
    sceneMap m is2d T th [(rs, gl)] = frameMap m is2d T th rs gl := by
  rw [scene_eq_frame_of_concat]
  simp only [List.map_cons, List.map_nil, List.flatten_cons, List.flatten_nil, List.append_nil]

/-! ## S4: per label, `Ap` of the pooled bucket and the summed count -/

/-- the `Ap` calls of a scene, one per `(label, threshold)` of `zip(target_labels, thresholds)`:
results = the label's buckets of all frames concatenated, `num_ground_truth` = the label's counts added;
APH likewise in 3-D (none in 2-D); mAP / mAPH = mean of the defined ones -/
theorem scene_ap_eq_pooled {m : Mode} {is2d : Bool} {T : List Label} {th : List Rat}
    {frames : List (List Res × List Label)} {o : MapOut} (h : sceneMap m is2d T th frames = .ok o) :
    o.aps.map Except.ok
      = (T.zip th).map (fun lt => apOf .ap m [lt.1] [lt.2]
          ((frames.map (fun f => cnt lt.1 f.2)).sum)
          ((frames.map (fun f => bucket T lt.1 f.1)).flatten)) ∧
    (if is2d then o.aphs = []
     else o.aphs.map Except.ok
      = (T.zip th).map (fun lt => apOf .aph m [lt.1] [lt.2]
          ((frames.map (fun f => cnt lt.1 f.2)).sum)
          ((frames.map (fun f => bucket T lt.1 f.1)).flatten))) ∧
    o.map = meanDefined (o.aps.map (·.ap)) ∧ o.maph = meanDefined (o.aphs.map (·.ap)) := by
  unfold sceneMap at h
  rw [sceneBuckets_eq] at h
  simp only at h
  obtain ⟨hloop, hmap, hmaph⟩ := mapOf_ok h
  obtain ⟨h1, h2, _⟩ := APDT.mapLoop_ok m is2d _ _ _ _ _ hloop
  have key : ∀ (tm : TpMetric), ∀ lt ∈ T.zip th,
      APDT.apCall tm m (T.map (fun l => (l, [] :: frames.map (fun f => bucket T l f.1))))
        (T.map (fun l => (l, (frames.map (fun f => cnt l f.2)).sum))) lt.1 lt.2
      = apOf tm m [lt.1] [lt.2] ((frames.map (fun f => cnt lt.1 f.2)).sum)
          ((frames.map (fun f => bucket T lt.1 f.1)).flatten) := by
    intro tm lt hlt
    have hl : lt.1 ∈ T := (List.of_mem_zip hlt).1
    unfold APDT.apCall
    rw [lookupKey_tabulate_mem (fun l => [] :: frames.map (fun f => bucket T l f.1)) hl,
      lookupKey_tabulate_mem (fun l => (frames.map (fun f => cnt l f.2)).sum) hl]
    simp only [apOfNested, List.flatten_cons, List.nil_append]
  refine ⟨?_, ?_, hmap, hmaph⟩
  · rw [← h1]
    exact List.map_congr_left (key .ap)
  · cases is2d with
    | true => simpa using h2
    | false =>
      simp only [Bool.false_eq_true, if_false] at h2 ⊢
      rw [← h2]
      exact List.map_congr_left (key .aph)

/-! ## S5: [0,1] at scene level under PER-FRAME one-to-one matching -/

/-- general form: any per-frame result lists `f.1` with the frame's ground truths `f.2`. Inside each
frame no ground truth is the ground truth of two results and every matched ground truth is one of
the frame's; ids may repeat ACROSS frames. Then `Ap` of the concatenated results with the summed
per-frame counts of label `l` is in [0,1]. -/
theorem pooled_ap_in_unit_interval_lists (tm : TpMetric) (m : Mode) (l : Label) (t : Rat)
    (frames : List (List Res × List Gt))
    (hnd : ∀ f ∈ frames, (f.1.filterMap (·.gt)).Nodup)
    (hsub : ∀ f ∈ frames, ∀ g ∈ f.1.filterMap (·.gt), g ∈ f.2)
    (hw : ∀ f ∈ frames, ∀ r ∈ f.1, 0 ≤ r.hw ∧ r.hw ≤ 1) {a : ApOut}
    (h : apOf tm m [l] [t] ((frames.map (fun f => (f.2.filter (fun g => g.label == l)).length)).sum)
      (frames.map (·.1)).flatten = .ok a) (x : Rat) (hx : a.ap = some x) : 0 ≤ x ∧ x ≤ 1 := by
  obtain ⟨ks, hk, rfl⟩ := apOf_ok h
  have hall := classifyAll_ok_forall hk
  have hmem : ∀ f ∈ frames, ∀ r ∈ f.1, r ∈ (frames.map (·.1)).flatten :=
    fun f hf r hr => List.mem_flatten.2 ⟨f.1, List.mem_map.2 ⟨f, hf, rfl⟩, hr⟩
  have hone : (ks.filter Kind.isTp).length
      ≤ (frames.map (fun f => (f.2.filter (fun g => g.label == l)).length)).sum := by
    rw [classifyAll_countTp hk, countTp_sortDesc]
    exact countTp_frames_le tm m l t frames hnd hsub
      (fun f hf r hr => hall r (mem_sortDesc.2 (hmem f hf r hr)))
  have hkw : ∀ k ∈ ks, 0 ≤ k.tpw ∧ k.tpw ≤ 1 := by
    apply classifyAll_forall (P := fun k => 0 ≤ k.tpw ∧ k.tpw ≤ 1) _ hk
    intro r hr k hk'
    obtain ⟨L, hL, hrL⟩ := List.mem_flatten.1 (mem_sortDesc.1 hr)
    obtain ⟨f, hf, rfl⟩ := List.mem_map.1 hL
    have hb := tpValue_bounds (tm := tm) (hw f hf r hrL)
    rcases classify_tpw hk' with h0 | h1
    · rw [h0]; exact ⟨le_refl 0, zero_le_one⟩
    · rw [h1]; exact hb
  exact ⟨ap_nonneg _ ks (fun k hk' => (hkw k hk').1) x hx, ap_le_one _ ks hkw hone x hx⟩

/-- the per-label core of the scene bound: `Ap` / APH of label `l` as `get_scene_result` calls it
(`scene_ap_eq_pooled`) — the label's buckets of all frames pooled, the label's ground-truth counts
added — lies in [0,1] under the per-frame hypotheses on the frames' result lists -/
theorem pooled_ap_in_unit_interval (tm : TpMetric) (m : Mode) (T : List Label) (l : Label) (t : Rat)
    (framesG : List (List Res × List Gt))
    (hnd : ∀ f ∈ framesG, (f.1.filterMap (·.gt)).Nodup)
    (hsub : ∀ f ∈ framesG, ∀ g ∈ f.1.filterMap (·.gt), g ∈ f.2)
    (hw : ∀ f ∈ framesG, ∀ r ∈ f.1, 0 ≤ r.hw ∧ r.hw ≤ 1) {a : ApOut}
    (h : apOf tm m [l] [t] ((framesG.map (fun f => cnt l (f.2.map (·.label)))).sum)
      ((framesG.map (fun f => bucket T l f.1)).flatten) = .ok a) (x : Rat) (hx : a.ap = some x) :
    0 ≤ x ∧ x ≤ 1 := by
  have e1 : framesG.map (fun f => bucket T l f.1)
      = (framesG.map (fun f => (bucket T l f.1, f.2))).map (·.1) := by
    rw [List.map_map]; rfl
  have e2 : framesG.map (fun f => cnt l (f.2.map (·.label)))
      = (framesG.map (fun f => (bucket T l f.1, f.2))).map
          (fun f => (f.2.filter (fun g => g.label == l)).length) := by
    rw [List.map_map]
    apply List.map_congr_left
    intro f _
    exact cnt_map_label f.2 l
  rw [e1, e2] at h
  refine pooled_ap_in_unit_interval_lists tm m l t _ ?_ ?_ ?_ h x hx
  · intro f' hf'
    obtain ⟨f, hf, rfl⟩ := List.mem_map.1 hf'
    exact (hnd f hf).sublist ((List.filter_sublist).filterMap _)
  · intro f' hf'
    obtain ⟨f, hf, rfl⟩ := List.mem_map.1 hf'
    intro g hg
    exact hsub f hf g (((List.filter_sublist).filterMap _).subset hg)
  · intro f' hf'
    obtain ⟨f, hf, rfl⟩ := List.mem_map.1 hf'
    intro r hr
    exact hw f hf r (List.mem_filter.1 hr).1

/-- **[0,1] at scene level.** Frames with their ground truths; in each frame every ground truth is
the ground truth of at most one object result and is one of the frame's ground truths (what C01 proves
of the matcher, frame by frame), heading weights in [0,1]. Then whenever `get_scene_result`'s `Map`
answers, every defined per-label AP and APH and the mAP / mAPH lie in [0,1]. -/
theorem scene_in_unit_interval {m : Mode} {is2d : Bool} {T : List Label} {th : List Rat}
    {framesG : List (List Res × List Gt)}
    (hnd : ∀ f ∈ framesG, (f.1.filterMap (·.gt)).Nodup)
    (hsub : ∀ f ∈ framesG, ∀ g ∈ f.1.filterMap (·.gt), g ∈ f.2)
    (hw : ∀ f ∈ framesG, ∀ r ∈ f.1, 0 ≤ r.hw ∧ r.hw ≤ 1) {o : MapOut}
    (h : sceneMap m is2d T th (framesG.map (fun f => (f.1, f.2.map (·.label)))) = .ok o) :
    (∀ a ∈ o.aps, ∀ x, a.ap = some x → 0 ≤ x ∧ x ≤ 1) ∧
    (∀ a ∈ o.aphs, ∀ x, a.ap = some x → 0 ≤ x ∧ x ≤ 1) ∧
    (∀ x, o.map = some x → 0 ≤ x ∧ x ≤ 1) ∧ (∀ x, o.maph = some x → 0 ≤ x ∧ x ≤ 1) := by
  obtain ⟨h1, h2, hmap, hmaph⟩ := scene_ap_eq_pooled h
  have eN : ∀ l : Label, (framesG.map (fun f => (f.1, f.2.map (·.label)))).map (fun f => cnt l f.2)
      = framesG.map (fun f => cnt l (f.2.map (·.label))) := by
    intro l; rw [List.map_map]; rfl
  have eB : ∀ l : Label,
      (framesG.map (fun f => (f.1, f.2.map (·.label)))).map (fun f => bucket T l f.1)
      = framesG.map (fun f => bucket T l f.1) := by
    intro l; rw [List.map_map]; rfl
  simp only [eN, eB] at h1 h2
  have key : ∀ (tm : TpMetric) (as : List ApOut),
      as.map Except.ok = (T.zip th).map (fun lt => apOf tm m [lt.1] [lt.2]
          ((framesG.map (fun f => cnt lt.1 (f.2.map (·.label)))).sum)
          ((framesG.map (fun f => bucket T lt.1 f.1)).flatten)) →
      ∀ a ∈ as, ∀ x, a.ap = some x → 0 ≤ x ∧ x ≤ 1 := by
    intro tm as has a ha x hx
    have hm : (Except.ok a : Except Err ApOut) ∈ as.map Except.ok := List.mem_map.2 ⟨a, ha, rfl⟩
    rw [has] at hm
    obtain ⟨lt, _, hlt⟩ := List.mem_map.1 hm
    exact pooled_ap_in_unit_interval tm m T lt.1 lt.2 framesG hnd hsub hw hlt x hx
  have k1 : ∀ a ∈ o.aps, ∀ x, a.ap = some x → 0 ≤ x ∧ x ≤ 1 := key .ap o.aps h1
  have k2 : ∀ a ∈ o.aphs, ∀ x, a.ap = some x → 0 ≤ x ∧ x ≤ 1 := by
    cases is2d with
    | true =>
      simp only [if_true] at h2
      rw [h2]
      intro a ha
      cases ha
    | false =>
      simp only [Bool.false_eq_true, if_false] at h2
      exact key .aph o.aphs h2
  refine ⟨k1, k2, ?_, ?_⟩
  · intro x hx
    rw [hmap] at hx
    refine map_bounds _ 0 1 ?_ x hx
    intro y hy
    obtain ⟨a, ha, hay⟩ := List.mem_map.1 hy
    exact k1 a ha y hay
  · intro x hx
    rw [hmaph] at hx
    refine map_bounds _ 0 1 ?_ x hx
    intro y hy
    obtain ⟨a, ha, hay⟩ := List.mem_map.1 hy
    exact k2 a ha y hay

/-! ## S6: the defective variant — skipping a (frame, label) pair whose bucket is empty

Stored seeded defect C04_C changes the gathering loop of `get_scene_result` to

    for label in target_labels:
        if len(obj_result_dict[label]) == 0:
            continue                      # also skips  all_num_gt[label] += num_gt_dict[label]
        all_frame_results[label].append(obj_result_dict[label])
        all_num_gt[label] += num_gt_dict[label]

(C13_F skips a whole frame whose `object_results` is empty: `sceneMap_skipEmptyFrame`). The definitions
below are copies of `frameBuckets` / `sceneBucketsAux` / `sceneBuckets` / `sceneMap` with that one change.
S3 (`scene_eq_frame_of_concat`) FAILS for them: the ground truths of a frame without result for the
label are not counted, so the recall — and the AP — are too high. -/

def frameBuckets_skipEmpty (targets : List Label) (l : Label) :
    List (List Res × List Label) → Except Err (List (List Res) × Nat)
  | [] => .ok ([], 0)
  | fr :: rest =>
    match lookupKey l (divideObjects (some targets) fr.1) with
    | .error e => .error e
    | .ok b =>
      if b.isEmpty then frameBuckets_skipEmpty targets l rest   -- `continue`
      else
        match lookupKey l (divideObjectsToNum (some targets) fr.2) with
        | .error e => .error e
        | .ok k =>
          match frameBuckets_skipEmpty targets l rest with
          | .error e => .error e
          | .ok (bl, n) => .ok (b :: bl, k + n)

def sceneBucketsAux_skipEmpty (targets : List Label) (frames : List (List Res × List Label)) :
    List Label → Except Err (List (Label × List (List Res)) × List (Label × Nat))
  | [] => .ok ([], [])
  | l :: ls =>
    match frameBuckets_skipEmpty targets l frames with
    | .error e => .error e
    | .ok (bl, n) =>
      match sceneBucketsAux_skipEmpty targets frames ls with
      | .error e => .error e
      | .ok (bs, ns) => .ok ((l, [] :: bl) :: bs, (l, n) :: ns)

def sceneBuckets_skipEmpty (targets : List Label) (frames : List (List Res × List Label)) :
    Except Err (List (Label × List (List Res)) × List (Label × Nat)) :=
  sceneBucketsAux_skipEmpty targets frames targets

def sceneMap_skipEmpty (m : Mode) (is2d : Bool) (targets : List Label) (thrs : List Rat)
    (frames : List (List Res × List Label)) : Except Err MapOut :=
  match sceneBuckets_skipEmpty targets frames with
  | .error e => .error e
  | .ok (bs, ns) => mapOf m is2d targets thrs bs ns

/-- C13_F: a frame without any object result is skipped altogether -/
def sceneMap_skipEmptyFrame (m : Mode) (is2d : Bool) (targets : List Label) (thrs : List Rat)
    (frames : List (List Res × List Label)) : Except Err MapOut :=
  sceneMap m is2d targets thrs (frames.filter (fun f => !f.1.isEmpty))

section Defect

/-- ground truth 7 of label 2 -/
def dGt : Gt := ⟨7, 2⟩
/-- its estimate: label 2, center distance 1/2 (< threshold 1: TP) -/
def dRes : Res := ⟨1, 9/10, 2, some dGt, .val (some (1/2)), 1, .default⟩
/-- frame A: one ground truth of label 2 and its TP; frame B: one ground truth of label 2, no result -/
def dFrames : List (List Res × List Label) := [([dRes], [2]), ([], [2])]

/-- S3 fails for the variant (its hypotheses are none: S3 is an unconditional equation) … -/
theorem sceneMap_skipEmpty_ne_frame_of_concat :
    sceneMap_skipEmpty .centerDistance false [2] [1] dFrames
      ≠ frameMap .centerDistance false [2] [1] (dFrames.map (·.1)).flatten (dFrames.map (·.2)).flatten := by
  decide +kernel

theorem sceneMap_skipEmptyFrame_ne_frame_of_concat :
    sceneMap_skipEmptyFrame .centerDistance false [2] [1] dFrames
      ≠ frameMap .centerDistance false [2] [1] (dFrames.map (·.1)).flatten (dFrames.map (·.2)).flatten := by
  decide +kernel

/-- … so neither variant is the model: the real `sceneMap` differs from both on this scene -/
theorem sceneMap_ne_skipEmpty :
    sceneMap .centerDistance false [2] [1] dFrames ≠ sceneMap_skipEmpty .centerDistance false [2] [1] dFrames
    ∧ sceneMap .centerDistance false [2] [1] dFrames
        ≠ sceneMap_skipEmptyFrame .centerDistance false [2] [1] dFrames := by
  decide +kernel

/-- the values: one TP for two ground truths — AP 1/2; the variants count one ground truth — AP 1 -/
example : (sceneMap .centerDistance false [2] [1] dFrames).toOption.map
    (fun o => (o.aps.map (·.ap), o.aphs.map (·.ap), o.map, o.maph))
    = some ([some (1 / 2)], [some (1 / 2)], some (1 / 2), some (1 / 2)) := by decide +kernel
example : (frameMap .centerDistance false [2] [1] (dFrames.map (·.1)).flatten
      (dFrames.map (·.2)).flatten).toOption.map (fun o => (o.aps.map (·.ap), o.map))
    = some ([some (1 / 2)], some (1 / 2)) := by decide +kernel
example : (sceneMap_skipEmpty .centerDistance false [2] [1] dFrames).toOption.map
    (fun o => (o.aps.map (·.ap), o.aphs.map (·.ap), o.map, o.maph))
    = some ([some 1], [some 1], some 1, some 1) := by decide +kernel
example : (sceneMap_skipEmptyFrame .centerDistance false [2] [1] dFrames).toOption.map
    (fun o => (o.aps.map (·.ap), o.map)) = some ([some 1], some 1) := by decide +kernel
/-- the dicts: the real ones hold frame B's (empty) bucket and count 2, the variant's count 1 -/
example : sceneBuckets [2] dFrames = .ok ([(2, [[], [dRes], []])], [(2, 2)]) := by decide +kernel
example : sceneBuckets_skipEmpty [2] dFrames = .ok ([(2, [[], [dRes]])], [(2, 1)]) := by decide +kernel

end Defect

/-! ## S7: non-vacuity — a concrete two-frame scene

Labels 2 and 4, thresholds 1 / 1, center distance, 3-D. Frame 1: estimate 1 (label 2, ground truth 7,
distance 1/2: TP, heading weight 1/2), estimate 2 (label 4, ground truth 8, distance 2: FP), estimate 3
(label 2, no ground truth: FP, highest confidence). Frame 2: estimate 4 (label 2, ground truth 7 — the
SAME id as in frame 1 —, distance 1/4: TP); its bucket for label 4 is empty, its ground truth 9 of
label 4 is counted. -/

section Example

def g7 : Gt := ⟨7, 2⟩
def g8 : Gt := ⟨8, 4⟩
def g9 : Gt := ⟨9, 4⟩
def s1 : Res := ⟨1, 9/10, 2, some g7, .val (some (1/2)), 1/2, .default⟩
def s2 : Res := ⟨2, 8/10, 4, some g8, .val (some 2), 1, .default⟩
def s3 : Res := ⟨3, 95/100, 2, none, .val none, 0, .default⟩
def s4 : Res := ⟨4, 7/10, 2, some g7, .val (some (1/4)), 1, .default⟩
def exScene : List (List Res × List Gt) := [([s1, s2, s3], [g7, g8]), ([s4], [g7, g9])]
def exFrames : List (List Res × List Label) := exScene.map (fun f => (f.1, f.2.map (·.label)))

/-- the per-frame hypotheses of `scene_in_unit_interval` / `pooled_ap_in_unit_interval` hold … -/
example : (∀ f ∈ exScene, (f.1.filterMap (·.gt)).Nodup)
    ∧ (∀ f ∈ exScene, ∀ g ∈ f.1.filterMap (·.gt), g ∈ f.2)
    ∧ (∀ f ∈ exScene, ∀ r ∈ f.1, 0 ≤ r.hw ∧ r.hw ≤ 1) := by decide +kernel

/-- … while the scene-wide `Nodup` that `ap_in_unit_interval` would need of the pooled list fails:
ground truth 7 is matched once in each frame (in the whole scene and in the pooled bucket of label 2) -/
example : ¬ ((exScene.map (·.1)).flatten.filterMap (·.gt)).Nodup
    ∧ ¬ (((exScene.map (fun f => bucket [2, 4] 2 f.1)).flatten).filterMap (·.gt)).Nodup := by
  decide +kernel

/-- the scene evaluates (hypothesis of `scene_ap_eq_pooled` and of `scene_in_unit_interval`):
label 2 pooled = estimates 3 (FP), 1 (TP), 4 (TP) by confidence, 2 ground truths: AP 2/3, APH 3/8;
label 4 = estimate 2 (FP), 2 ground truths (one of them in the frame with the empty bucket): AP 0 -/
example : (sceneMap .centerDistance false [2, 4] [1, 1] exFrames).toOption.map
    (fun o => (o.aps.map (·.ap), o.aphs.map (·.ap), o.map, o.maph))
    = some ([some (2 / 3), some 0], [some (3 / 8), some 0], some (1 / 3), some (3 / 16)) := by
  decide +kernel

example : ∃ o, sceneMap .centerDistance false [2, 4] [1, 1] exFrames = .ok o :=
  ⟨_, scene_eq_frame_of_concat .. |>.trans (by decide +kernel :
    frameMap .centerDistance false [2, 4] [1, 1] (exFrames.map (·.1)).flatten (exFrames.map (·.2)).flatten
      = .ok ⟨[⟨some (2 / 3), [0, 1, 2], [1, 1, 1]⟩, ⟨some 0, [0], [1]⟩],
             [⟨some (3 / 8), [0, 1 / 2, 3 / 2], [1, 1, 1]⟩, ⟨some 0, [0], [1]⟩], some (1 / 3), some (3 / 16)⟩)⟩

/-- `scene_in_unit_interval` applied to the scene -/
example (o : MapOut) (h : sceneMap .centerDistance false [2, 4] [1, 1] exFrames = .ok o) :
    (∀ a ∈ o.aps, ∀ x, a.ap = some x → 0 ≤ x ∧ x ≤ 1) ∧ (∀ x, o.maph = some x → 0 ≤ x ∧ x ≤ 1) :=
  have hh := scene_in_unit_interval (framesG := exScene) (by decide +kernel) (by decide +kernel)
    (by decide +kernel) h
  ⟨hh.1, hh.2.2.2⟩

/-- S1 on the scene: frame 2's empty bucket of label 4 is there, its ground truth of label 4 is counted -/
example : sceneBuckets [2, 4] exFrames
    = .ok ([(2, [[], [s1, s3], [s4]]), (4, [[], [s2], []])], [(2, 2), (4, 2)]) := by decide +kernel

/-- the hypothesis of `pooled_ap_in_unit_interval` (label 2, both metrics) -/
example : (apOf .ap .centerDistance [2] [1] ((exScene.map (fun f => cnt 2 (f.2.map (·.label)))).sum)
      ((exScene.map (fun f => bucket [2, 4] 2 f.1)).flatten)).toOption.map (·.ap) = some (some (2 / 3))
    ∧ (apOf .aph .centerDistance [2] [1] ((exScene.map (fun f => cnt 2 (f.2.map (·.label)))).sum)
      ((exScene.map (fun f => bucket [2, 4] 2 f.1)).flatten)).toOption.map (·.ap) = some (some (3 / 8)) := by
  decide +kernel

/-- the hypotheses of S2 (`mapOf_congr_flatten`) on two DIFFERENT nested dicts (what `get_scene_result`
builds for label 2, and the single pooled list), which `mapOf_congr` cannot relate -/
example : (∀ l ∈ [2], (lookupKey l [(2, [[], [s1, s3], [s4]])]).map List.flatten
      = (lookupKey l [(2, [[s1, s3, s4]])]).map List.flatten)
    ∧ lookupKey 2 [(2, [[], [s1, s3], [s4]])] ≠ lookupKey 2 [(2, [[s1, s3, s4]])] := by decide +kernel

/-- the hypotheses of the lemmas behind S1 -/
example : ([2, 4] : List Label).contains 4 = true ∧ ∀ l ∈ ([4, 2, 4] : List Label), [2, 4].contains l = true := by
  decide

end Example

end PEval.C04
