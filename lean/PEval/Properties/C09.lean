import PEval.Lemmas.Heading
/-!
# C09 — heading comparisons use the true minimal yaw difference

Angles are half-turns (`τ·π`), so `π ↦ 1`.  `InDom τ` is the range `(−1, 1]` of
`yaw_pitch_roll[0]`.  `circDist a b = min(|a − b|, 2 − |a − b|)` is the true minimal absolute yaw
difference `d/π`.  All theorems quantify over *all* rational yaws in the domain (rationals are dense,
the functions are piecewise linear, the harness compares within 1e-9).

**Quaternion sign invariance** ("not on the sign convention of the quaternion") is not a statement
about this code but about `pyquaternion.Quaternion.yaw_pitch_roll` (`q` and `−q` give the same rotation
matrix, hence the same yaw): since the repaired code reads orientations only through
`yaw_pitch_roll`, the model takes the yaw as its input and the invariance is part of the trusted
external contract.  The correspondence run validates it on every case by building each object with
both `q` and `−q` (and the oracle demands equal outputs).  What the pre-fix code (`.radians`) did is
characterised by `preFix_*` below (defect F3).

**Boundary d = π** (opposite headings).  In the model (exact arithmetic) `_clip` leaves `±1`
unchanged, so `|error| = d` holds *including* the boundary, the reported sign there is the sign of
`yaw_gt − yaw_est` (`headingError_boundary`), and antisymmetry is exact everywhere
(`headingError_antisymm`).  Only *frame* invariance of the signed error has an exception at the
boundary: the two renderings may report `+π` and `−π` (`headingError_frame_invariant`).  In floating
point `yaw2 − yaw1` may round to either side of `±π` (and `yaw_pitch_roll` may return `−π` for a yaw of
`π` after a frame change), so the harness accepts either sign when the model says `1 − d < 1e-12`
(counted in the branch histogram as `boundary:either-sign`).
-/
namespace PEval.C09
open PEval.Heading

/-- the APH weight is `1 − d/π` with `d/π` the circular distance of the yaws, which lies in `[0, 1]` -/
theorem aphWeight_eq {τe τg : Rat} (he : InDom τe) (hg : InDom τg) :
    aphWeight τe τg = 1 - circDist τe τg ∧ 0 ≤ circDist τe τg ∧ circDist τe τg ≤ 1 := by
  have h0 := circDist_nonneg he hg
  have h1 := circDist_le_one τe τg
  refine ⟨?_, h0, h1⟩
  unfold aphWeight
  rw [foldAbs_heading he hg, clamp01_id (by linarith) (by linarith)]

theorem aphWeight_symm {τe τg : Rat} (he : InDom τe) (hg : InDom τg) :
    aphWeight τe τg = aphWeight τg τe := by
  rw [(aphWeight_eq he hg).1, (aphWeight_eq hg he).1, circDist_comm]

/-- weight 1 exactly for equal yaws -/
theorem aphWeight_eq_one_iff {τe τg : Rat} (he : InDom τe) (hg : InDom τg) :
    aphWeight τe τg = 1 ↔ τe = τg := by
  rw [(aphWeight_eq he hg).1, ← circDist_eq_zero_iff he hg]
  constructor <;> intro h <;> linarith

/-- weight 0 exactly for opposite headings: `d = π`, i.e. the yaws differ by exactly a half turn -/
theorem aphWeight_eq_zero_iff {τe τg : Rat} (he : InDom τe) (hg : InDom τg) :
    aphWeight τe τg = 0 ↔ (τe - τg = 1 ∨ τg - τe = 1) := by
  rw [(aphWeight_eq he hg).1]
  have key : circDist τe τg = 1 ↔ (τe - τg = 1 ∨ τg - τe = 1) := by
    rw [circDist_eq_one_iff]
    unfold absR
    constructor
    · intro h; split_ifs at h
      · right; linarith
      · left; linarith
    · rintro (h | h)
      · rw [if_neg (by linarith)]; exact h
      · rw [if_pos (by linarith)]; linarith
  rw [← key]
  constructor <;> intro h <;> linarith

/-- weight 0 ⇔ circular distance 1 (the form used by the harness) -/
theorem aphWeight_eq_zero_iff_d {τe τg : Rat} (he : InDom τe) (hg : InDom τg) :
    aphWeight τe τg = 0 ↔ circDist τe τg = 1 := by
  rw [(aphWeight_eq he hg).1]
  constructor <;> intro h <;> linarith

/-- the weight lies in `[0, 1]` – for *every* pair of rationals, in the domain or not (the clamp) -/
theorem aphWeight_range (τe τg : Rat) : 0 ≤ aphWeight τe τg ∧ aphWeight τe τg ≤ 1 :=
  clamp01_range _

/-- rendering the pair in another frame (both orientations composed with the same ego rotation `τ0`,
yaws re-wrapped into `(−1, 1]` as `atan2` does) leaves the weight unchanged -/
theorem frame_invariant {τ0 τe τg : Rat} (h0 : InDom τ0) (he : InDom τe) (hg : InDom τg) :
    aphWeightMap τ0 τe τg = aphWeight τe τg := by
  unfold aphWeightMap
  rw [(aphWeight_eq (wrapYaw_sum_inDom he h0) (wrapYaw_sum_inDom hg h0)).1, (aphWeight_eq he hg).1,
    circDist_wrapYaw h0 he hg]

/-- the reported yaw error lies in `[−π, π]` -/
theorem headingError_range {τe τg : Rat} (he : InDom τe) (hg : InDom τg) :
    -1 ≤ headingError τe τg ∧ headingError τe τg ≤ 1 := by
  unfold headingError
  apply clip_range
  · have := he.2; have := hg.1; linarith
  · have := he.1; have := hg.2; linarith

/-- `|error| = d`, whichever object has the larger yaw – boundary `d = π` included -/
theorem headingError_abs_eq_d {τe τg : Rat} (he : InDom τe) (hg : InDom τg) :
    absR (headingError τe τg) = circDist τe τg :=
  absR_clip he hg

/-- the error is the yaw difference up to a whole number of turns (so it is the *signed* minimal difference) -/
theorem headingError_congr (τe τg : Rat) :
    headingError τe τg = τg - τe ∨ headingError τe τg = τg - τe + 2 ∨ headingError τe τg = τg - τe - 2 := by
  unfold headingError clip
  split_ifs
  · right; left; rfl
  · right; right; rfl
  · left; rfl

/-- at the boundary the code reports the raw difference: `+π` if the ground truth has the larger yaw,
`−π` otherwise -/
theorem headingError_boundary {τe τg : Rat} (h : circDist τe τg = 1) :
    headingError τe τg = τg - τe := by
  have := (circDist_eq_one_iff τe τg).1 h
  unfold absR at this
  unfold headingError clip
  split_ifs at this <;> split_ifs <;> linarith

/-- swapping the two objects negates the error – exactly, for all rationals (in the model `_clip` is odd:
`±π` are fixed points). In floats the boundary may come out with either sign. -/
theorem headingError_antisymm (τe τg : Rat) : headingError τg τe = -headingError τe τg := by
  unfold headingError
  rw [← clip_neg]; congr 1; ring

/-- frame invariance of the signed error: unchanged, except that at `d = π` the two renderings may
report `+π` and `−π` -/
theorem headingError_frame_invariant {τ0 τe τg : Rat} (h0 : InDom τ0) (he : InDom τe) (hg : InDom τg) :
    headingErrorMap τ0 τe τg = headingError τe τg ∨
      (circDist τe τg = 1 ∧ headingErrorMap τ0 τe τg = -headingError τe τg) := by
  have hx := wrapYaw_sum_inDom he h0
  have hy := wrapYaw_sum_inDom hg h0
  have := clip_shift (x := τg - τe) (y := wrapYaw (τg + τ0) - wrapYaw (τe + τ0))
    (by have := he.2; have := hg.1; linarith) (by have := he.1; have := hg.2; linarith)
    (by have := hx.2; have := hy.1; linarith) (by have := hx.1; have := hy.2; linarith)
    (wrap_diff h0 he hg)
  unfold headingErrorMap headingError
  rcases this with h | ⟨h1, h2⟩
  · left; exact h
  · right; exact ⟨(circDist_eq_one_iff τe τg).2 (by rw [absR_sub_comm]; exact h1), h2⟩

/-- the weight and the error tell the same story: weight = 1 − |error| -/
theorem aphWeight_eq_one_sub_abs_error {τe τg : Rat} (he : InDom τe) (hg : InDom τg) :
    aphWeight τe τg = 1 - absR (headingError τe τg) := by
  rw [(aphWeight_eq he hg).1, headingError_abs_eq_d he hg]

/-- the map-frame yaws are again in the domain, so every theorem above applies to the map rendering -/
theorem wrapYaw_dom {τ0 τ : Rat} (h0 : InDom τ0) (h : InDom τ) : InDom (wrapYaw (τ + τ0)) :=
  wrapYaw_sum_inDom h h0

/-! ## the analysis tool's yaw error column (`calculate_error("yaw")`)

The second public place where a yaw error is reported for a pair. Its two masked wrap assignments compute the
same function as `_clip` of `get_heading_error` (for *all* rationals), so range, magnitude and antisymmetry carry
over; and because the analyzer brings every object to `BASE_LINK` first, the value is frame-free without the
boundary exception. -/

theorem analyzerYawError_eq_headingError (τe τg : Rat) : analyzerYawError τe τg = headingError τe τg := by
  unfold analyzerYawError headingError clip
  simp only []
  split_ifs <;> linarith

theorem analyzerYawError_range {τe τg : Rat} (he : InDom τe) (hg : InDom τg) :
    -1 ≤ analyzerYawError τe τg ∧ analyzerYawError τe τg ≤ 1 := by
  rw [analyzerYawError_eq_headingError]; exact headingError_range he hg

/-- magnitude `d`, whichever of the two yaws is larger (raw difference beyond `±π` in either direction included) -/
theorem analyzerYawError_abs_eq_d {τe τg : Rat} (he : InDom τe) (hg : InDom τg) :
    absR (analyzerYawError τe τg) = circDist τe τg := by
  rw [analyzerYawError_eq_headingError]; exact headingError_abs_eq_d he hg

theorem analyzerYawError_antisymm (τe τg : Rat) : analyzerYawError τg τe = -analyzerYawError τe τg := by
  rw [analyzerYawError_eq_headingError, analyzerYawError_eq_headingError]; exact headingError_antisymm τe τg

/-- map → ego undoes ego → map on yaws -/
theorem wrapYaw_roundtrip {τ0 τ : Rat} (h0 : InDom τ0) (h : InDom τ) : toEgoYaw τ0 (wrapYaw (τ + τ0)) = τ := by
  obtain ⟨a1, a2⟩ := h0
  obtain ⟨b1, b2⟩ := h
  unfold toEgoYaw wrapYaw
  split_ifs <;> linarith

/-- the analyzer's yaw error does not depend on the frame the pair was expressed in -/
theorem analyzerYawError_frame_invariant {τ0 τe τg : Rat} (h0 : InDom τ0) (he : InDom τe) (hg : InDom τg) :
    analyzerYawErrorMap τ0 τe τg = analyzerYawError τe τg := by
  unfold analyzerYawErrorMap
  rw [wrapYaw_roundtrip h0 he, wrapYaw_roundtrip h0 hg]

/-- a saturating clip is not the minimal difference: yaws `61/64` and `−61/64` are `3/32` apart; the wrap reports
`3/32`, the saturating variant reports a full half turn (still inside `[−1, 1]`: a range check alone cannot see it) -/
theorem saturating_not_minimal :
    saturatingYawError (61/64) (-61/64) = -1 ∧ analyzerYawError (61/64) (-61/64) = 3/32 ∧
      circDist (61/64) (-61/64) = 3/32 := by decide +kernel

/-! ## F3 (pre-fix behaviour, documentation): `.radians` loses the sign of the yaw and replaces it by
the sign convention of the quaternion -/

/-- before the repair yaw `−3/10` and `+3/10` (both as `q`) got full weight although `d = 3/5` … -/
theorem preFix_not_minimal :
    aphWeightPreFix (-3/10) false (3/10) false = 1 ∧ aphWeight (-3/10) (3/10) = 2/5 := by decide +kernel

/-- … and the weight depended on the representative (`q` vs `−q`) of the *same* orientation -/
theorem preFix_not_sign_invariant :
    aphWeightPreFix (3/10) false (3/10) false ≠ aphWeightPreFix (3/10) false (3/10) true := by decide +kernel

/-! ## the hypotheses are satisfiable; concrete non-trivial instances -/

example : InDom (3/4) ∧ InDom (-7/8) ∧ InDom 1 := by decide +kernel
/-- wrap-around pair: yaws 3/4 and −7/8 are 3/8 apart (not 13/8) -/
example : aphWeight (3/4) (-7/8) = 5/8 ∧ circDist (3/4) (-7/8) = 3/8 ∧ headingError (3/4) (-7/8) = 3/8 := by
  decide +kernel
example : aphWeight 1 0 = 0 ∧ headingError 1 0 = -1 ∧ headingError 0 1 = 1 := by decide +kernel
/-- a frame change that moves the pair across the ±π cut -/
example : aphWeightMap (1/2) (3/4) (1/4) = aphWeight (3/4) (1/4) ∧ wrapYaw (3/4 + 1/2) = -3/4 := by decide +kernel
/-- the boundary exception of `headingError_frame_invariant` is real -/
example : headingError 0 1 = 1 ∧ headingErrorMap (1/2) 0 1 = -1 := by decide +kernel
/-- both wrap directions of the analyzer's column, and a map rendering that moves the pair across the cut -/
example : analyzerYawError (-61/64) (61/64) = -3/32 ∧ analyzerYawError (61/64) (-61/64) = 3/32 ∧
    analyzerYawErrorMap (1/2) (3/4) (1/4) = -1/2 := by decide +kernel

end PEval.C09
