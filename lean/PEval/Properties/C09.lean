import PEval.Lemmas.Heading
import PEval.Lemmas.HeadingQuat
import PEval.Lemmas.HeadingClosed
import PEval.Lemmas.HeadingReal
/-!
# C09 — heading comparisons use the true minimal yaw difference

Angles are half-turns (`τ·π`), so `π ↦ 1`.  `InDom τ` is the range `(−1, 1]` of
`yaw_pitch_roll[0]`.  `circDist a b = min(|a − b|, 2 − |a − b|)` is the true minimal absolute yaw
difference `d/π`.  All theorems quantify over *all* rational yaws in the domain (rationals are dense,
the functions are piecewise linear, the harness compares within 1e-9).

**Quaternion sign invariance** ("not on the sign convention of the quaternion") is not a statement
about this code but about `pyquaternion.Quaternion.yaw_pitch_roll` (`q` and `−q` give the same rotation
matrix, hence the same yaw): since the repaired code reads orientations only through
`yaw_pitch_roll`, the model takes the yaw as its input and the invariance is part of the trusted
external contract.  The correspondence run validates it on every case by building each object with
both `q` and `−q` (and the oracle demands equal outputs).  What the pre-fix code (`.radians`) did is
characterised by `preFix_*` below (defect F3).

**Boundary d = π** (opposite headings).  In the model (exact arithmetic) `_clip` leaves `±1`
unchanged, so `|error| = d` holds *including* the boundary, the reported sign there is the sign of
`yaw_gt − yaw_est` (`headingError_boundary`), and antisymmetry is exact everywhere
(`headingError_antisymm`).  Only *frame* invariance of the signed error has an exception at the
boundary: the two renderings may report `+π` and `−π` (`headingError_frame_invariant`).  In floating
point `yaw2 − yaw1` may round to either side of `±π` (and `yaw_pitch_roll` may return `−π` for a yaw of
`π` after a frame change), so the harness accepts either sign when the model says `1 − d < 1e-12`
(counted in the branch histogram as `boundary:either-sign`).
-/
namespace PEval.C09
open PEval.Heading

/-- the APH weight is `1 − d/π` with `d/π` the circular distance of the yaws, which lies in `[0, 1]` -/
theorem aphWeight_eq {τe τg : Rat} (he : InDom τe) (hg : InDom τg) :
    aphWeight τe τg = 1 - circDist τe τg ∧ 0 ≤ circDist τe τg ∧ circDist τe τg ≤ 1 := by
  have h0 := circDist_nonneg he hg
  have h1 := circDist_le_one τe τg
  refine ⟨?_, h0, h1⟩
  unfold aphWeight
  rw [foldAbs_heading he hg, clamp01_id (by linarith) (by linarith)]

theorem aphWeight_symm {τe τg : Rat} (he : InDom τe) (hg : InDom τg) :
    aphWeight τe τg = aphWeight τg τe := by
  rw [(aphWeight_eq he hg).1, (aphWeight_eq hg he).1, circDist_comm]

/-- weight 1 exactly for equal yaws -/
theorem aphWeight_eq_one_iff {τe τg : Rat} (he : InDom τe) (hg : InDom τg) :
    aphWeight τe τg = 1 ↔ τe = τg := by
  rw [(aphWeight_eq he hg).1, ← circDist_eq_zero_iff he hg]
  constructor <;> intro h <;> linarith

/-- weight 0 exactly for opposite headings: `d = π`, i.e. the yaws differ by exactly a half turn -/
theorem aphWeight_eq_zero_iff {τe τg : Rat} (he : InDom τe) (hg : InDom τg) :
    aphWeight τe τg = 0 ↔ (τe - τg = 1 ∨ τg - τe = 1) := by
  rw [(aphWeight_eq he hg).1]
  have key : circDist τe τg = 1 ↔ (τe - τg = 1 ∨ τg - τe = 1) := by
    rw [circDist_eq_one_iff]
    unfold absR
    constructor
    · intro h; split_ifs at h
      · right; linarith
      · left; linarith
    · rintro (h | h)
      · rw [if_neg (by linarith)]; exact h
      · rw [if_pos (by linarith)]; linarith
  rw [← key]
  constructor <;> intro h <;> linarith

/-- weight 0 ⇔ circular distance 1 (the form used by the harness) -/
theorem aphWeight_eq_zero_iff_d {τe τg : Rat} (he : InDom τe) (hg : InDom τg) :
    aphWeight τe τg = 0 ↔ circDist τe τg = 1 := by
  rw [(aphWeight_eq he hg).1]
  constructor <;> intro h <;> linarith

/-- the weight lies in `[0, 1]` – for *every* pair of rationals, in the domain or not (the clamp) -/
theorem aphWeight_range (τe τg : Rat) : 0 ≤ aphWeight τe τg ∧ aphWeight τe τg ≤ 1 :=
  clamp01_range _

/-- rendering the pair in another frame (both orientations composed with the same ego rotation `τ0`,
yaws re-wrapped into `(−1, 1]` as `atan2` does) leaves the weight unchanged -/
theorem frame_invariant {τ0 τe τg : Rat} (h0 : InDom τ0) (he : InDom τe) (hg : InDom τg) :
    aphWeightMap τ0 τe τg = aphWeight τe τg := by
  unfold aphWeightMap
  rw [(aphWeight_eq (wrapYaw_sum_inDom he h0) (wrapYaw_sum_inDom hg h0)).1, (aphWeight_eq he hg).1,
    circDist_wrapYaw h0 he hg]

/-- the reported yaw error lies in `[−π, π]` -/
theorem headingError_range {τe τg : Rat} (he : InDom τe) (hg : InDom τg) :
    -1 ≤ headingError τe τg ∧ headingError τe τg ≤ 1 := by
  unfold headingError
  apply clip_range
  · have := he.2; have := hg.1; linarith
  · have := he.1; have := hg.2; linarith

/-- `|error| = d`, whichever object has the larger yaw – boundary `d = π` included -/
theorem headingError_abs_eq_d {τe τg : Rat} (he : InDom τe) (hg : InDom τg) :
    absR (headingError τe τg) = circDist τe τg :=
  absR_clip he hg

/-- the error is the yaw difference up to a whole number of turns (so it is the *signed* minimal difference) -/
theorem headingError_congr (τe τg : Rat) :
    headingError τe τg = τg - τe ∨ headingError τe τg = τg - τe + 2 ∨ headingError τe τg = τg - τe - 2 := by
  unfold headingError clip
  split_ifs
  · right; left; rfl
  · right; right; rfl
  · left; rfl

/-- at the boundary the code reports the raw difference: `+π` if the ground truth has the larger yaw,
`−π` otherwise -/
theorem headingError_boundary {τe τg : Rat} (h : circDist τe τg = 1) :
    headingError τe τg = τg - τe := by
  have := (circDist_eq_one_iff τe τg).1 h
  unfold absR at this
  unfold headingError clip
  split_ifs at this <;> split_ifs <;> linarith

/-- swapping the two objects negates the error – exactly, for all rationals (in the model `_clip` is odd:
`±π` are fixed points). In floats the boundary may come out with either sign. -/
theorem headingError_antisymm (τe τg : Rat) : headingError τg τe = -headingError τe τg := by
  unfold headingError
  rw [← clip_neg]; congr 1; ring

/-- frame invariance of the signed error: unchanged, except that at `d = π` the two renderings may
report `+π` and `−π` -/
theorem headingError_frame_invariant {τ0 τe τg : Rat} (h0 : InDom τ0) (he : InDom τe) (hg : InDom τg) :
    headingErrorMap τ0 τe τg = headingError τe τg ∨
      (circDist τe τg = 1 ∧ headingErrorMap τ0 τe τg = -headingError τe τg) := by
  have hx := wrapYaw_sum_inDom he h0
  have hy := wrapYaw_sum_inDom hg h0
  have := clip_shift (x := τg - τe) (y := wrapYaw (τg + τ0) - wrapYaw (τe + τ0))
    (by have := he.2; have := hg.1; linarith) (by have := he.1; have := hg.2; linarith)
    (by have := hx.2; have := hy.1; linarith) (by have := hx.1; have := hy.2; linarith)
    (wrap_diff h0 he hg)
  unfold headingErrorMap headingError
  rcases this with h | ⟨h1, h2⟩
  · left; exact h
  · right; exact ⟨(circDist_eq_one_iff τe τg).2 (by rw [absR_sub_comm]; exact h1), h2⟩

/-- the weight and the error tell the same story: weight = 1 − |error| -/
theorem aphWeight_eq_one_sub_abs_error {τe τg : Rat} (he : InDom τe) (hg : InDom τg) :
    aphWeight τe τg = 1 - absR (headingError τe τg) := by
  rw [(aphWeight_eq he hg).1, headingError_abs_eq_d he hg]

/-- the map-frame yaws are again in the domain, so every theorem above applies to the map rendering -/
theorem wrapYaw_dom {τ0 τ : Rat} (h0 : InDom τ0) (h : InDom τ) : InDom (wrapYaw (τ + τ0)) :=
  wrapYaw_sum_inDom h h0

/-! ## the analysis tool's yaw error column (`calculate_error("yaw")`)

The second public place where a yaw error is reported for a pair. Its two masked wrap assignments compute the
same function as `_clip` of `get_heading_error` (for *all* rationals), so range, magnitude and antisymmetry carry
over; and because the analyzer brings every object to `BASE_LINK` first, the value is frame-free without the
boundary exception. -/

theorem analyzerYawError_eq_headingError (τe τg : Rat) : analyzerYawError τe τg = headingError τe τg := by
  unfold analyzerYawError headingError clip
  simp only []
  split_ifs <;> linarith

theorem analyzerYawError_range {τe τg : Rat} (he : InDom τe) (hg : InDom τg) :
    -1 ≤ analyzerYawError τe τg ∧ analyzerYawError τe τg ≤ 1 := by
  rw [analyzerYawError_eq_headingError]; exact headingError_range he hg

/-- magnitude `d`, whichever of the two yaws is larger (raw difference beyond `±π` in either direction included) -/
theorem analyzerYawError_abs_eq_d {τe τg : Rat} (he : InDom τe) (hg : InDom τg) :
    absR (analyzerYawError τe τg) = circDist τe τg := by
  rw [analyzerYawError_eq_headingError]; exact headingError_abs_eq_d he hg

theorem analyzerYawError_antisymm (τe τg : Rat) : analyzerYawError τg τe = -analyzerYawError τe τg := by
  rw [analyzerYawError_eq_headingError, analyzerYawError_eq_headingError]; exact headingError_antisymm τe τg

/-- map → ego undoes ego → map on yaws -/
theorem wrapYaw_roundtrip {τ0 τ : Rat} (h0 : InDom τ0) (h : InDom τ) : toEgoYaw τ0 (wrapYaw (τ + τ0)) = τ := by
  obtain ⟨a1, a2⟩ := h0
  obtain ⟨b1, b2⟩ := h
  unfold toEgoYaw wrapYaw
  split_ifs <;> linarith

/-- the analyzer's yaw error does not depend on the frame the pair was expressed in -/
theorem analyzerYawError_frame_invariant {τ0 τe τg : Rat} (h0 : InDom τ0) (he : InDom τe) (hg : InDom τg) :
    analyzerYawErrorMap τ0 τe τg = analyzerYawError τe τg := by
  unfold analyzerYawErrorMap
  rw [wrapYaw_roundtrip h0 he, wrapYaw_roundtrip h0 hg]

/-- a saturating clip is not the minimal difference: yaws `61/64` and `−61/64` are `3/32` apart; the wrap reports
`3/32`, the saturating variant reports a full half turn (still inside `[−1, 1]`: a range check alone cannot see it) -/
theorem saturating_not_minimal :
    saturatingYawError (61/64) (-61/64) = -1 ∧ analyzerYawError (61/64) (-61/64) = 3/32 ∧
      circDist (61/64) (-61/64) = 3/32 := by decide +kernel

/-! ## F3 (pre-fix behaviour, documentation): `.radians` loses the sign of the yaw and replaces it by
the sign convention of the quaternion -/

/-- before the repair yaw `−3/10` and `+3/10` (both as `q`) got full weight although `d = 3/5` … -/
theorem preFix_not_minimal :
    aphWeightPreFix (-3/10) false (3/10) false = 1 ∧ aphWeight (-3/10) (3/10) = 2/5 := by decide +kernel

/-- … and the weight depended on the representative (`q` vs `−q`) of the *same* orientation -/
theorem preFix_not_sign_invariant :
    aphWeightPreFix (3/10) false (3/10) false ≠ aphWeightPreFix (3/10) false (3/10) true := by decide +kernel

/-! ## the hypotheses are satisfiable; concrete non-trivial instances -/

example : InDom (3/4) ∧ InDom (-7/8) ∧ InDom 1 := by decide +kernel
/-- wrap-around pair: yaws 3/4 and −7/8 are 3/8 apart (not 13/8) -/
example : aphWeight (3/4) (-7/8) = 5/8 ∧ circDist (3/4) (-7/8) = 3/8 ∧ headingError (3/4) (-7/8) = 3/8 := by
  decide +kernel
example : aphWeight 1 0 = 0 ∧ headingError 1 0 = -1 ∧ headingError 0 1 = 1 := by decide +kernel
/-- a frame change that moves the pair across the ±π cut -/
example : aphWeightMap (1/2) (3/4) (1/4) = aphWeight (3/4) (1/4) ∧ wrapYaw (3/4 + 1/2) = -3/4 := by decide +kernel
/-- the boundary exception of `headingError_frame_invariant` is real -/
example : headingError 0 1 = 1 ∧ headingErrorMap (1/2) 0 1 = -1 := by decide +kernel
/-- both wrap directions of the analyzer's column, and a map rendering that moves the pair across the cut -/
example : analyzerYawError (-61/64) (61/64) = -3/32 ∧ analyzerYawError (61/64) (-61/64) = 3/32 ∧
    analyzerYawErrorMap (1/2) (3/4) (1/4) = -1/2 := by decide +kernel

/-! # Quaternion level: "not on the sign convention of the quaternion" (audit C09-1)

`PEval.Model.HeadingQuat`: an orientation is a rational quaternion; the code reads it through
`yaw_pitch_roll[0] = arctan2(yawDir.s, yawDir.c)`, `yawDir` being two polynomials of the components.  `arctan2` is a
parameter `at2` of `yawVia`, `aphWeightQ`, `headingErrorQ`, `analyzerYawErrorQ`: the theorems of this block hold for
EVERY function `at2` and for EVERY quaternion (3-D, unit or not).  The defective variant is `radiansVia` / `radiansDir`
(F3, seed C09_G: `orientation.radians`). -/
open PEval.Transform

/-- `q` and `−q` determine the same heading direction (the two arguments of `arctan2`) -/
theorem heading_of_neg (q : Quat) : yawDir (-q) = yawDir q := yawDir_neg q

/-- the heading direction is read off the rotation matrix (`R[0,0]`, `−R[0,1]`) … -/
theorem yawDir_of_rotMat (q : Quat) (h : q.normSq = 1) : yawDir q = ⟨(rotMat q).r0.x, -(rotMat q).r0.y⟩ :=
  yawDir_eq_rotMat q h

/-- … so two unit quaternions that are the same rotation have the same heading direction: "depends only on the
physical orientation" -/
theorem yawDir_same_rotation (p q : Quat) (hp : p.normSq = 1) (hq : q.normSq = 1) (h : rotMat p = rotMat q) :
    yawDir p = yawDir q := by
  rw [yawDir_eq_rotMat p hp, yawDir_eq_rotMat q hq, h]

/-- the yaw the code computes does not depend on the representative -/
theorem yawVia_sign_invariant (at2 : Rat → Rat → Rat) (q : Quat) (b : Bool) :
    yawVia at2 (withSign b q) = yawVia at2 q := by
  unfold yawVia; rw [yawDir_withSign]

/-- the APH weight does not depend on the sign convention of either quaternion (all four sign patterns) -/
theorem aphWeightQ_sign_invariant (at2 : Rat → Rat → Rat) (qe qg : Quat) (be bg : Bool) :
    aphWeightQ at2 (withSign be qe) (withSign bg qg) = aphWeightQ at2 qe qg := by
  unfold aphWeightQ; rw [yawVia_sign_invariant, yawVia_sign_invariant]

/-- nor does the reported yaw error … -/
theorem headingErrorQ_sign_invariant (at2 : Rat → Rat → Rat) (qe qg : Quat) (be bg : Bool) :
    headingErrorQ at2 (withSign be qe) (withSign bg qg) = headingErrorQ at2 qe qg := by
  unfold headingErrorQ; rw [yawVia_sign_invariant, yawVia_sign_invariant]

/-- … nor the analyzer's yaw error column … -/
theorem analyzerYawErrorQ_sign_invariant (at2 : Rat → Rat → Rat) (qe qg : Quat) (be bg : Bool) :
    analyzerYawErrorQ at2 (withSign be qe) (withSign bg qg) = analyzerYawErrorQ at2 qe qg := by
  unfold analyzerYawErrorQ; rw [yawVia_sign_invariant, yawVia_sign_invariant]

/-- … nor the weight of the pair rendered in the map frame (the sign of the ego rotation included: eight patterns) -/
theorem aphWeightQMap_sign_invariant (at2 : Rat → Rat → Rat) (q0 qe qg : Quat) (b0 be bg : Bool) :
    aphWeightQMap at2 (withSign b0 q0) (withSign be qe) (withSign bg qg) = aphWeightQMap at2 q0 qe qg := by
  unfold aphWeightQMap aphWeightQ yawVia
  rw [yawDir_withSign_mul, yawDir_withSign_mul]

/-- the quaternion-level functions are the τ-model applied to the code's yaw (so every τ-theorem above transfers as soon as
the yaws are in the domain) -/
theorem aphWeightQ_eq_tau (at2 : Rat → Rat → Rat) (qe qg : Quat) :
    aphWeightQ at2 qe qg = aphWeight (yawVia at2 qe) (yawVia at2 qg) ∧
    headingErrorQ at2 qe qg = headingError (yawVia at2 qe) (yawVia at2 qg) ∧
    analyzerYawErrorQ at2 qe qg = headingError (yawVia at2 qe) (yawVia at2 qg) :=
  ⟨rfl, rfl, analyzerYawError_eq_headingError _ _⟩

/-! ### pure-yaw quaternions: the heading direction is the double-angle pair, composition multiplies directions -/

theorem yawDir_pureYaw {q : Quat} (h : YawOnly q) :
    yawDir q = ⟨q.w * q.w - q.z * q.z, 2 * (q.w * q.z)⟩ ∧ (yawDir q).OnCircle := yawDir_yawOnly h

theorem yawDir_compose {q0 q : Quat} (h0 : YawOnly q0) (h : YawOnly q) :
    yawDir (q0 * q) = (yawDir q0).mul (yawDir q) ∧ YawOnly (q0 * q) := ⟨yawDir_mul h0 h, h0.mul h⟩

/-- cosine and sine of the yaw difference (dot and cross product of the heading directions) are the same in every frame:
both orientations composed with the same ego rotation -/
theorem dirDiff_frame_invariant {q0 qe qg : Quat} (h0 : YawOnly q0) (he : YawOnly qe) (hg : YawOnly qg) :
    cosDiff (yawDir (q0 * qe)) (yawDir (q0 * qg)) = cosDiff (yawDir qe) (yawDir qg) ∧
    sinDiff (yawDir (q0 * qe)) (yawDir (q0 * qg)) = sinDiff (yawDir qe) (yawDir qg) := by
  rw [yawDir_mul h0 he, yawDir_mul h0 hg]
  exact ⟨cosDiff_mul_left _ _ _ (yawDir_yawOnly h0).2, sinDiff_mul_left _ _ _ (yawDir_yawOnly h0).2⟩

/-- … and for every choice of representatives -/
theorem dirDiff_sign_invariant (qe qg : Quat) (be bg : Bool) :
    cosDiff (yawDir (withSign be qe)) (yawDir (withSign bg qg)) = cosDiff (yawDir qe) (yawDir qg) ∧
    sinDiff (yawDir (withSign be qe)) (yawDir (withSign bg qg)) = sinDiff (yawDir qe) (yawDir qg) := by
  rw [yawDir_withSign, yawDir_withSign]; exact ⟨rfl, rfl⟩

/-- symmetric cosine, antisymmetric sine -/
theorem dirDiff_swap (a b : Dir) : cosDiff b a = cosDiff a b ∧ sinDiff b a = -sinDiff a b :=
  ⟨cosDiff_comm b a, sinDiff_antisymm a b⟩

/-- equal headings ⇔ cosine 1, opposite headings ⇔ cosine −1, and the cosine lies in `[−1, 1]` -/
theorem cosDiff_characterisation {a b : Dir} (ha : a.OnCircle) (hb : b.OnCircle) :
    (cosDiff a b = 1 ↔ a = b) ∧ (cosDiff a b = -1 ↔ a = b.opp) ∧ -1 ≤ cosDiff a b ∧ cosDiff a b ≤ 1 :=
  ⟨cosDiff_eq_one_iff ha hb, cosDiff_eq_neg_one_iff ha hb, neg_one_le_cosDiff ha hb, cosDiff_le_one ha hb⟩

/-! ### the defective variant F3 / C09_G (`orientation.radians`) is NOT sign invariant -/

/-- `.radians` agrees with the yaw exactly when the z-component is non-negative (or `w = 0`): the sign of the yaw is
replaced by the sign convention of the quaternion -/
theorem radiansDir_eq_yawDir_iff {q : Quat} (h : YawOnly q) : radiansDir q = yawDir q ↔ (q.w = 0 ∨ 0 ≤ q.z) := by
  rw [(yawDir_yawOnly h).1]
  unfold radiansDir absR
  simp only [Dir.mk.injEq, true_and]
  by_cases hz : q.z < 0
  · rw [if_pos hz]
    constructor
    · intro e
      left
      have : q.w * q.z = 0 := by linarith
      rcases mul_eq_zero.1 this with h' | h'
      · exact h'
      · exact absurd h' (ne_of_lt hz)
    · rintro (h' | h')
      · rw [h']; ring
      · exact absurd h' (not_le.2 hz)
  · rw [if_neg hz]
    constructor
    · intro _; right; exact not_lt.1 hz
    · intro _; ring

/-- the direction of `.radians` flips with the representative: `q = (4/5, 0, 0, 3/5)` vs `−q` -/
theorem radiansDir_not_sign_invariant :
    YawOnly ⟨4/5, 0, 0, 3/5⟩ ∧ radiansDir (-⟨4/5, 0, 0, 3/5⟩) ≠ radiansDir ⟨4/5, 0, 0, 3/5⟩ ∧
    yawDir (-⟨4/5, 0, 0, 3/5⟩) = yawDir ⟨4/5, 0, 0, 3/5⟩ := by decide +kernel

/-- … and a negative yaw written with `w > 0` is seen as the mirrored positive yaw -/
theorem radiansDir_loses_yaw_sign :
    radiansDir ⟨4/5, 0, 0, -3/5⟩ = yawDir ⟨4/5, 0, 0, 3/5⟩ ∧ yawDir ⟨4/5, 0, 0, -3/5⟩ ≠ yawDir ⟨4/5, 0, 0, 3/5⟩ := by
  decide +kernel

/-- the angle `.radians` itself: for EVERY `arctan2` that puts a first-quadrant point strictly inside `(0, π/2)` and a
second-quadrant point inside `(π/2, π]`, `q` and `−q` get different angles and the pre-fix weight of an object
paired with ITSELF written as `−q` is not 1 — the statements `yawVia_sign_invariant`, `aphWeightQ_sign_invariant` fail
for the defective variant -/
theorem radiansVia_not_sign_invariant (at2 : Rat → Rat → Rat)
    (h1 : 0 < at2 (3/5) (4/5) ∧ at2 (3/5) (4/5) < 1/2) (h2 : 1/2 < at2 (3/5) (-4/5) ∧ at2 (3/5) (-4/5) ≤ 1) :
    radiansVia at2 (withSign true ⟨4/5, 0, 0, 3/5⟩) ≠ radiansVia at2 ⟨4/5, 0, 0, 3/5⟩ ∧
    aphWeightQF3 at2 ⟨4/5, 0, 0, 3/5⟩ ⟨4/5, 0, 0, 3/5⟩ = 1 ∧
    aphWeightQF3 at2 ⟨4/5, 0, 0, 3/5⟩ (withSign true ⟨4/5, 0, 0, 3/5⟩) ≠ 1 := by
  have a1 : absR (3/5) = 3/5 := by decide +kernel
  have a2 : absR (-(3/5)) = 3/5 := by decide +kernel
  have e1 : radiansVia at2 ⟨4/5, 0, 0, 3/5⟩ = 2 * at2 (3/5) (4/5) := by
    simp only [radiansVia, a1]
    rw [if_neg (by linarith [h1.2])]
  have e2 : radiansVia at2 (withSign true ⟨4/5, 0, 0, 3/5⟩) = 2 * at2 (3/5) (-4/5) - 2 := by
    have hq : withSign true (⟨4/5, 0, 0, 3/5⟩ : Quat) = ⟨-(4/5), -0, -0, -(3/5)⟩ := rfl
    rw [hq]
    simp only [radiansVia, a2]
    rw [if_pos (by have := h2.1; rw [show (-(4/5) : Rat) = -4/5 by norm_num]; linarith)]
    norm_num
  have d1 : InDom (2 * at2 (3/5) (4/5)) := ⟨by linarith [h1.1], by linarith [h1.2]⟩
  have d2 : InDom (2 * at2 (3/5) (-4/5) - 2) := ⟨by linarith [h2.1], by linarith [h2.2]⟩
  have hne : 2 * at2 (3/5) (-4/5) - 2 ≠ 2 * at2 (3/5) (4/5) := by
    intro e; linarith [h1.1, h2.2]
  refine ⟨by rw [e1, e2]; exact hne, ?_, ?_⟩
  · unfold aphWeightQF3; rw [e1]; exact (aphWeight_eq_one_iff d1 d1).2 rfl
  · unfold aphWeightQF3; rw [e1, e2]
    intro h
    exact hne ((aphWeight_eq_one_iff d1 d2).1 h).symm

/-! # The bridge to the τ-model: ONE named hypothesis, `YawBridge` (audit C09-1, part c)

`YawBridge at2 ac pts` (`PEval.Model.HeadingQuat`) collects the non-polynomial facts: `at2 s c` is the angle (in half-turns,
in `(−1, 1]`) of the direction `(c, s)`, the minimal difference of two such angles is `ac` of the dot product with `ac`
strictly decreasing from `ac 1 = 0` to `ac (−1) = 1`, and the wrapped signed difference is in `(0, 1)` exactly when the
cross product is positive.  Everything below is proved from it and from the polynomial identities above. -/

section bridge
variable {at2 : Rat → Rat → Rat} {ac : Rat → Rat} {pts : Dir → Prop}

/-- the APH weight is a function of the dot product of the two heading directions: `1 − arccos(a·b)/π` -/
theorem aphWeightQ_eq_dir (B : YawBridge at2 ac pts) {qe qg : Quat} (he : pts (yawDir qe)) (hg : pts (yawDir qg)) :
    aphWeightQ at2 qe qg = 1 - ac (cosDiff (yawDir qe) (yawDir qg)) := by
  unfold aphWeightQ yawVia
  rw [(aphWeight_eq (B.dom _ he) (B.dom _ hg)).1, B.dist _ _ he hg]

/-- weight 1 exactly when both quaternions have the same heading direction (e.g. `q` and `−q`) -/
theorem aphWeightQ_eq_one_iff_dir (B : YawBridge at2 ac pts) {qe qg : Quat} (he : pts (yawDir qe))
    (hg : pts (yawDir qg)) : aphWeightQ at2 qe qg = 1 ↔ yawDir qe = yawDir qg := by
  have ce := B.on_circle _ he
  have cg := B.on_circle _ hg
  rw [aphWeightQ_eq_dir B he hg, ← cosDiff_eq_one_iff ce cg,
    ← anti_eq_iff B.ac_anti ⟨neg_one_le_cosDiff ce cg, cosDiff_le_one ce cg⟩ ⟨by norm_num, le_refl 1⟩, B.ac_one]
  constructor <;> intro h <;> linarith

/-- weight 0 exactly for opposite heading directions -/
theorem aphWeightQ_eq_zero_iff_dir (B : YawBridge at2 ac pts) {qe qg : Quat} (he : pts (yawDir qe))
    (hg : pts (yawDir qg)) : aphWeightQ at2 qe qg = 0 ↔ yawDir qe = (yawDir qg).opp := by
  have ce := B.on_circle _ he
  have cg := B.on_circle _ hg
  rw [aphWeightQ_eq_dir B he hg, ← cosDiff_eq_neg_one_iff ce cg,
    ← anti_eq_iff B.ac_anti ⟨neg_one_le_cosDiff ce cg, cosDiff_le_one ce cg⟩ ⟨le_refl _, by norm_num⟩, B.ac_neg_one]
  constructor <;> intro h <;> linarith

/-- comparing two weights is comparing two dot products (the comparison `d ≤ d'` through the cosines) -/
theorem aphWeightQ_le_iff_dir (B : YawBridge at2 ac pts) {qe qg qe' qg' : Quat} (he : pts (yawDir qe))
    (hg : pts (yawDir qg)) (he' : pts (yawDir qe')) (hg' : pts (yawDir qg')) :
    aphWeightQ at2 qe qg ≤ aphWeightQ at2 qe' qg' ↔
      cosDiff (yawDir qe) (yawDir qg) ≤ cosDiff (yawDir qe') (yawDir qg') := by
  have ce := B.on_circle _ he
  have cg := B.on_circle _ hg
  have ce' := B.on_circle _ he'
  have cg' := B.on_circle _ hg'
  rw [aphWeightQ_eq_dir B he hg, aphWeightQ_eq_dir B he' hg',
    ← anti_le_iff B.ac_anti ⟨neg_one_le_cosDiff ce' cg', cosDiff_le_one ce' cg'⟩
      ⟨neg_one_le_cosDiff ce cg, cosDiff_le_one ce cg⟩]
  constructor <;> intro h <;> linarith

/-- frame invariance at the quaternion level: both orientations composed with the ego rotation `q0` -/
theorem aphWeightQMap_frame_invariant (B : YawBridge at2 ac pts) {q0 qe qg : Quat} (h0 : YawOnly q0) (he : YawOnly qe)
    (hg : YawOnly qg) (pe : pts (yawDir qe)) (pg : pts (yawDir qg)) (pe' : pts (yawDir (q0 * qe)))
    (pg' : pts (yawDir (q0 * qg))) : aphWeightQMap at2 q0 qe qg = aphWeightQ at2 qe qg := by
  unfold aphWeightQMap
  rw [aphWeightQ_eq_dir B pe' pg', aphWeightQ_eq_dir B pe pg, (dirDiff_frame_invariant h0 he hg).1]

/-- the magnitude of the reported yaw error is `arccos` of the dot product … -/
theorem headingErrorQ_abs_dir (B : YawBridge at2 ac pts) {qe qg : Quat} (he : pts (yawDir qe)) (hg : pts (yawDir qg)) :
    absR (headingErrorQ at2 qe qg) = ac (cosDiff (yawDir qe) (yawDir qg)) := by
  unfold headingErrorQ yawVia
  rw [headingError_abs_eq_d (B.dom _ he) (B.dom _ hg), B.dist _ _ he hg]

/-- … its sign is the sign of the cross product: positive … -/
theorem headingErrorQ_pos_iff_dir (B : YawBridge at2 ac pts) {qe qg : Quat} (he : pts (yawDir qe))
    (hg : pts (yawDir qg)) :
    (0 < headingErrorQ at2 qe qg ∧ headingErrorQ at2 qe qg < 1) ↔ 0 < sinDiff (yawDir qe) (yawDir qg) :=
  B.sin_sign _ _ he hg

/-- … negative (by antisymmetry of both sides) -/
theorem headingErrorQ_neg_iff_dir (B : YawBridge at2 ac pts) {qe qg : Quat} (he : pts (yawDir qe))
    (hg : pts (yawDir qg)) :
    (-1 < headingErrorQ at2 qe qg ∧ headingErrorQ at2 qe qg < 0) ↔ sinDiff (yawDir qe) (yawDir qg) < 0 := by
  have h := B.sin_sign _ _ hg he
  have e : clip (at2 (yawDir qe).s (yawDir qe).c - at2 (yawDir qg).s (yawDir qg).c) = -headingErrorQ at2 qe qg := by
    unfold headingErrorQ yawVia
    exact headingError_antisymm _ _
  rw [e, sinDiff_antisymm] at h
  constructor
  · intro hh; have := h.1 ⟨by linarith [hh.2], by linarith [hh.1]⟩; linarith
  · intro hh; have := h.2 (by linarith); exact ⟨by linarith [this.2], by linarith [this.1]⟩

/-- the signed error of a pair is determined by cosine and sine of the yaw difference — up to the sign at the boundary
`d = π` — so it is the same for all representatives and (for pure-yaw orientations) in every frame -/
theorem headingErrorQ_determined (B : YawBridge at2 ac pts) {qe qg qe' qg' : Quat} (he : pts (yawDir qe))
    (hg : pts (yawDir qg)) (he' : pts (yawDir qe')) (hg' : pts (yawDir qg'))
    (hc : cosDiff (yawDir qe') (yawDir qg') = cosDiff (yawDir qe) (yawDir qg))
    (hs : sinDiff (yawDir qe') (yawDir qg') = sinDiff (yawDir qe) (yawDir qg)) :
    headingErrorQ at2 qe' qg' = headingErrorQ at2 qe qg ∨
      (absR (headingErrorQ at2 qe qg) = 1 ∧ headingErrorQ at2 qe' qg' = -headingErrorQ at2 qe qg) := by
  have habs : absR (headingErrorQ at2 qe' qg') = absR (headingErrorQ at2 qe qg) := by
    rw [headingErrorQ_abs_dir B he' hg', headingErrorQ_abs_dir B he hg, hc]
  have hp := headingErrorQ_pos_iff_dir B he hg
  have hp' := headingErrorQ_pos_iff_dir B he' hg'
  have hn := headingErrorQ_neg_iff_dir B he hg
  have hn' := headingErrorQ_neg_iff_dir B he' hg'
  rw [hs] at hp' hn'
  have r := headingError_range (B.dom _ he) (B.dom _ hg)
  have r' := headingError_range (B.dom _ he') (B.dom _ hg')
  change -1 ≤ headingErrorQ at2 qe qg ∧ headingErrorQ at2 qe qg ≤ 1 at r
  change -1 ≤ headingErrorQ at2 qe' qg' ∧ headingErrorQ at2 qe' qg' ≤ 1 at r'
  generalize headingErrorQ at2 qe qg = e at *
  generalize headingErrorQ at2 qe' qg' = e' at *
  generalize sinDiff (yawDir qe) (yawDir qg) = sd at *
  unfold absR at habs ⊢
  by_cases c1 : 0 < e ∧ e < 1
  · have c1' := hp'.2 (hp.1 c1)
    left
    rw [if_neg (by linarith [c1.1]), if_neg (by linarith [c1'.1])] at habs
    exact habs
  · by_cases c2 : -1 < e ∧ e < 0
    · have c2' := hn'.2 (hn.1 c2)
      left
      rw [if_pos c2.2, if_pos c2'.2] at habs
      linarith
    · -- e ∈ {−1, 0, 1}
      have hsd0 : ¬ (0 < sd) := fun h => c1 (hp.2 h)
      have hsd1 : ¬ (sd < 0) := fun h => c2 (hn.2 h)
      have n1 : ¬ (0 < e' ∧ e' < 1) := fun h => hsd0 (hp'.1 h)
      have n2 : ¬ (-1 < e' ∧ e' < 0) := fun h => hsd1 (hn'.1 h)
      have tri : ∀ x : Rat, -1 ≤ x ∧ x ≤ 1 → ¬ (0 < x ∧ x < 1) → ¬ (-1 < x ∧ x < 0) → x = -1 ∨ x = 0 ∨ x = 1 := by
        intro x hx a b
        rcases lt_trichotomy x 0 with h | h | h
        · left
          by_contra hne
          exact b ⟨lt_of_le_of_ne hx.1 (Ne.symm hne), h⟩
        · right; left; exact h
        · right; right
          by_contra hne
          exact a ⟨h, lt_of_le_of_ne hx.2 hne⟩
      rcases tri e r c1 c2 with rfl | rfl | rfl <;> rcases tri e' r' n1 n2 with rfl | rfl | rfl <;>
        first
          | (exfalso; norm_num at habs; done)
          | norm_num

/-- frame invariance of the signed error at the quaternion level (boundary exception as in the τ-model) -/
theorem headingErrorQ_frame_invariant (B : YawBridge at2 ac pts) {q0 qe qg : Quat} (h0 : YawOnly q0) (he : YawOnly qe)
    (hg : YawOnly qg) (pe : pts (yawDir qe)) (pg : pts (yawDir qg)) (pe' : pts (yawDir (q0 * qe)))
    (pg' : pts (yawDir (q0 * qg))) :
    headingErrorQ at2 (q0 * qe) (q0 * qg) = headingErrorQ at2 qe qg ∨
      (absR (headingErrorQ at2 qe qg) = 1 ∧ headingErrorQ at2 (q0 * qe) (q0 * qg) = -headingErrorQ at2 qe qg) :=
  headingErrorQ_determined B pe pg pe' pg' (dirDiff_frame_invariant h0 he hg).1 (dirDiff_frame_invariant h0 he hg).2

end bridge

/-- the bridge hypothesis is satisfiable: the four axis directions with their exact angles `0, 1/2, 1, −1/2` and
`arccos x / π = (1 − x)/2` at `x ∈ {1, 0, −1}`.  (Over `ℚ` these are the only directions with a rational angle; see
`PEval.HeadingReal` for the same facts over `ℝ`, where they hold on the whole circle.) -/
theorem yawBridge_axes : YawBridge at2Axes acAxes (fun d => d ∈ axisPts) where
  on_circle := by decide +kernel
  dom := by decide +kernel
  dist := by
    have h : ∀ a ∈ axisPts, ∀ b ∈ axisPts,
        circDist (at2Axes a.s a.c) (at2Axes b.s b.c) = acAxes (cosDiff a b) := by decide +kernel
    exact fun a b ha hb => h a ha b hb
  ac_anti := by intro x y _ h _; unfold acAxes; linarith
  ac_one := by decide +kernel
  ac_neg_one := by decide +kernel
  sin_sign := by
    have h : ∀ a ∈ axisPts, ∀ b ∈ axisPts,
        ((0 < clip (at2Axes b.s b.c - at2Axes a.s a.c) ∧ clip (at2Axes b.s b.c - at2Axes a.s a.c) < 1) ↔
          0 < sinDiff a b) := by decide +kernel
    exact fun a b ha hb => h a ha b hb

/-! ### instances of the quaternion-level hypotheses -/

/-- yaw 0 as `q`, yaw π as `−q`: on the axes, opposite, weight 0, error of magnitude 1 -/
example : YawOnly ⟨1, 0, 0, 0⟩ ∧ YawOnly ⟨0, 0, 0, -1⟩ ∧ yawDir ⟨1, 0, 0, 0⟩ ∈ axisPts ∧ yawDir ⟨0, 0, 0, -1⟩ ∈ axisPts ∧
    aphWeightQ at2Axes ⟨1, 0, 0, 0⟩ ⟨0, 0, 0, -1⟩ = 0 ∧ aphWeightQ at2Axes ⟨0, 0, 0, 1⟩ ⟨0, 0, 0, -1⟩ = 1 ∧
    headingErrorQ at2Axes ⟨1, 0, 0, 0⟩ ⟨0, 0, 0, -1⟩ = 1 := by decide +kernel
/-- a genuinely 3-D unit quaternion and its negative: same heading direction -/
example : (⟨1/5, 2/5, 2/5, 4/5⟩ : Quat).normSq = 1 ∧ yawDir ⟨1/5, 2/5, 2/5, 4/5⟩ = ⟨-3/5, 0⟩ ∧
    yawDir (-⟨1/5, 2/5, 2/5, 4/5⟩) = ⟨-3/5, 0⟩ := by decide +kernel
/-- composition of two pure-yaw rotations: directions multiply (angle addition without angles) -/
example : YawOnly ⟨4/5, 0, 0, 3/5⟩ ∧ YawOnly ⟨12/13, 0, 0, -5/13⟩ ∧
    yawDir (⟨4/5, 0, 0, 3/5⟩ * ⟨12/13, 0, 0, -5/13⟩) = (yawDir ⟨4/5, 0, 0, 3/5⟩).mul (yawDir ⟨12/13, 0, 0, -5/13⟩) := by
  decide +kernel
/-- the hypotheses of `radiansVia_not_sign_invariant` hold for a crude rational `arctan2` (exact quadrant, linear inside) -/
example : let at2 : Rat → Rat → Rat := fun y x => if x > 0 then y / 2 else 1 - y / 2
    (0 < at2 (3/5) (4/5) ∧ at2 (3/5) (4/5) < 1/2) ∧ (1/2 < at2 (3/5) (-4/5) ∧ at2 (3/5) (-4/5) ≤ 1) := by decide +kernel

/-! # The closed yaw domain `[−π, π]` (audit C09-2)

`np.arctan2(-0.0, -x) = −π`: in floats `yaw_pitch_roll[0]` can return `−π`, which `InDom` excludes.  The theorems hold on
`InDomC τ : −1 ≤ τ ≤ 1`; the only change is that `−1` and `1` name the same heading. -/

theorem aphWeight_eq_closed {τe τg : Rat} (he : InDomC τe) (hg : InDomC τg) :
    aphWeight τe τg = 1 - circDist τe τg ∧ 0 ≤ circDist τe τg ∧ circDist τe τg ≤ 1 := by
  have h0 := circDist_nonneg_closed he hg
  have h1 := circDist_le_one τe τg
  refine ⟨?_, h0, h1⟩
  unfold aphWeight
  rw [foldAbs_heading_closed he hg, clamp01_id (by linarith) (by linarith)]

/-- on the yaw domain the clamp `min(1, max(0, ·))` never fires: `aphWeight_range` is a consequence of the heading
arithmetic there, not of the clamp (audit C09-3) -/
theorem aphWeight_clamp_inactive {τe τg : Rat} (he : InDomC τe) (hg : InDomC τg) :
    aphWeight τe τg = 1 - foldAbs (headingBev τe - headingBev τg) ∧
      0 ≤ 1 - foldAbs (headingBev τe - headingBev τg) ∧ 1 - foldAbs (headingBev τe - headingBev τg) ≤ 1 := by
  have h := aphWeight_eq_closed he hg
  rw [foldAbs_heading_closed he hg]
  exact ⟨h.1, by linarith [h.2.2], by linarith [h.2.1]⟩

/-- weight 1 ⇔ the same heading: equal yaws, or the two names `−π`, `π` of one heading -/
theorem aphWeight_eq_one_iff_closed {τe τg : Rat} (he : InDomC τe) (hg : InDomC τg) :
    aphWeight τe τg = 1 ↔ (τe = τg ∨ absR (τe - τg) = 2) := by
  rw [(aphWeight_eq_closed he hg).1, ← circDist_eq_zero_iff_closed he hg]
  constructor <;> intro h <;> linarith

theorem aphWeight_eq_zero_iff_closed {τe τg : Rat} (he : InDomC τe) (hg : InDomC τg) :
    aphWeight τe τg = 0 ↔ circDist τe τg = 1 := by
  rw [(aphWeight_eq_closed he hg).1]
  constructor <;> intro h <;> linarith

theorem headingError_range_closed {τe τg : Rat} (he : InDomC τe) (hg : InDomC τg) :
    -1 ≤ headingError τe τg ∧ headingError τe τg ≤ 1 := by
  unfold headingError
  apply clip_range_closed
  · have := he.2; have := hg.1; linarith
  · have := he.1; have := hg.2; linarith

theorem headingError_abs_eq_d_closed {τe τg : Rat} (he : InDomC τe) (hg : InDomC τg) :
    absR (headingError τe τg) = circDist τe τg :=
  absR_clip_closed he hg

theorem analyzerYawError_closed {τe τg : Rat} (he : InDomC τe) (hg : InDomC τg) :
    (-1 ≤ analyzerYawError τe τg ∧ analyzerYawError τe τg ≤ 1) ∧ absR (analyzerYawError τe τg) = circDist τe τg := by
  rw [analyzerYawError_eq_headingError]
  exact ⟨headingError_range_closed he hg, headingError_abs_eq_d_closed he hg⟩

theorem frame_invariant_closed {τ0 τe τg : Rat} (h0 : InDomC τ0) (he : InDomC τe) (hg : InDomC τg) :
    aphWeightMap τ0 τe τg = aphWeight τe τg := by
  unfold aphWeightMap
  have de : InDom (wrapYaw (τe + τ0)) :=
    wrapYaw_inDom_closed (by have := he.1; have := h0.1; linarith) (by have := he.2; have := h0.2; linarith)
  have dg : InDom (wrapYaw (τg + τ0)) :=
    wrapYaw_inDom_closed (by have := hg.1; have := h0.1; linarith) (by have := hg.2; have := h0.2; linarith)
  rw [(aphWeight_eq de dg).1, (aphWeight_eq_closed he hg).1, circDist_wrapYaw_closed h0 he hg]

/-- the float-reachable input `yaw = −π`: same heading as `π`, half a turn from `0` -/
example : InDomC (-1) ∧ ¬ InDom (-1) ∧ aphWeight (-1) 1 = 1 ∧ headingError (-1) 1 = 0 ∧ aphWeight (-1) 0 = 0 ∧
    headingError 0 (-1) = -1 ∧ absR ((-1 : Rat) - 1) = 2 := by decide +kernel

/-! ## no ground truth (outside the property's quantifier; audit C09-4) -/

theorem no_ground_truth (τe : Rat) : aphValue τe none = 0 ∧ headingErrorOpt τe none = none ∧
    ∀ g, aphValue τe (some g) = aphWeight τe g ∧ headingErrorOpt τe (some g) = some (headingError τe g) :=
  ⟨rfl, rfl, fun _ => ⟨rfl, rfl⟩⟩

/-! # `YawBridge` over `ℝ` (where the angle function exists on the whole circle): every field is a theorem

`PEval.Lemmas.HeadingReal`, with `at2R y x = Complex.arg (x + y·i) / π` for `np.arctan2(y, x) / π` and `arccos / π` for `ac`.
The τ-model's input `τ` (a rational number of half-turns, cast to `ℝ`) IS the yaw the code computes from either
representative of the quaternion `±(cos(τπ/2), 0, 0, sin(τπ/2))` the harness builds; dot and cross product of two heading
directions are cosine and sine of the yaw difference; `arccos` is strictly decreasing; the sine is positive exactly on `(0, π)`.
What stays assumed is only that numpy's `arctan2` / pyquaternion's float arithmetic compute these real functions to
within the comparison tolerance. -/

/-- field `dom` and the identification τ ↔ quaternion, both signs: `arctan2` of the code's two polynomials gives back `τ` -/
theorem real_yaw_recovered (τ : ℚ) (h : InDom τ) (neg : Bool) :
    let w : ℝ := (if neg then -1 else 1) * Real.cos ((τ : ℝ) * Real.pi / 2)
    let z : ℝ := (if neg then -1 else 1) * Real.sin ((τ : ℝ) * Real.pi / 2)
    HeadingReal.at2R (HeadingReal.yawDirR w z).2 (HeadingReal.yawDirR w z).1 = (τ : ℝ) :=
  HeadingReal.yaw_recovered (τ : ℝ) (by exact_mod_cast h.1) (by exact_mod_cast h.2) neg

/-- the heading direction of the quaternion of yaw `τπ` is `(cos τπ, sin τπ)`, for `q` and for `−q` -/
theorem real_yawDir (τ : ℝ) :
    HeadingReal.yawDirR (Real.cos (τ * Real.pi / 2)) (Real.sin (τ * Real.pi / 2)) = (Real.cos (τ * Real.pi), Real.sin (τ * Real.pi)) ∧
    HeadingReal.yawDirR (-Real.cos (τ * Real.pi / 2)) (-Real.sin (τ * Real.pi / 2))
      = (Real.cos (τ * Real.pi), Real.sin (τ * Real.pi)) :=
  ⟨HeadingReal.yawDirR_of_yaw τ, by rw [HeadingReal.yawDirR_neg]; exact HeadingReal.yawDirR_of_yaw τ⟩

/-- fields `dist`, `ac_anti`, `ac_one`, `ac_neg_one` over `ℝ` with `ac = arccos / π` -/
theorem real_dist_fields :
    (∀ α β : ℝ, Real.cos (α * Real.pi) * Real.cos (β * Real.pi) + Real.sin (α * Real.pi) * Real.sin (β * Real.pi)
      = Real.cos ((α - β) * Real.pi)) ∧
    (∀ α β d : ℝ, 0 ≤ d → d ≤ 1 → (∃ k : ℤ, d = α - β + 2 * k ∨ d = -(α - β) + 2 * k) →
      d = Real.arccos (Real.cos ((α - β) * Real.pi)) / Real.pi) ∧
    (∀ x y : ℝ, -1 ≤ x → x < y → y ≤ 1 → Real.arccos y / Real.pi < Real.arccos x / Real.pi) ∧
    Real.arccos 1 / Real.pi = 0 ∧ Real.arccos (-1) / Real.pi = 1 :=
  ⟨HeadingReal.cosDiffR_eq, fun _ _ _ h0 h1 hd => HeadingReal.dist_real h0 h1 hd,
    fun _ _ hx hxy hy => HeadingReal.arccos_anti hx hxy hy, by simp,
    by rw [Real.arccos_neg_one]; exact div_self Real.pi_ne_zero⟩

/-- field `sin_sign` over `ℝ` -/
theorem real_sin_sign :
    (∀ α β : ℝ, Real.cos (α * Real.pi) * Real.sin (β * Real.pi) - Real.sin (α * Real.pi) * Real.cos (β * Real.pi)
      = Real.sin ((β - α) * Real.pi)) ∧
    (∀ α β e : ℝ, -1 ≤ e → e ≤ 1 → (∃ k : ℤ, e = β - α + 2 * k) →
      ((0 < e ∧ e < 1) ↔ 0 < Real.sin ((β - α) * Real.pi))) :=
  ⟨HeadingReal.sinDiffR_eq, fun _ _ _ h0 h1 he => HeadingReal.sin_sign_real h0 h1 he⟩

/-- the hypotheses of `real_dist_fields` / `real_sin_sign` are what the τ-model delivers: `circDist` is in `[0, 1]` and congruent to
`±(α − β)` mod 2, the yaw error is in `[−1, 1]` and congruent to `β − α` mod 2 -/
theorem tau_model_congruences {a b : Rat} (ha : InDom a) (hb : InDom b) :
    (0 ≤ circDist a b ∧ circDist a b ≤ 1 ∧
      ∃ k : Int, circDist a b = a - b + 2 * k ∨ circDist a b = -(a - b) + 2 * k) ∧
    (-1 ≤ headingError a b ∧ headingError a b ≤ 1 ∧ ∃ k : Int, headingError a b = b - a + 2 * k) := by
  refine ⟨⟨circDist_nonneg ha hb, circDist_le_one a b, ?_⟩, (headingError_range ha hb).1, (headingError_range ha hb).2, ?_⟩
  · unfold circDist absR
    simp only
    split_ifs
    · exact ⟨0, Or.inr (by push_cast; ring)⟩
    · exact ⟨1, Or.inl (by push_cast; ring)⟩
    · exact ⟨0, Or.inl (by push_cast; ring)⟩
    · exact ⟨1, Or.inr (by push_cast; ring)⟩
  · rcases headingError_congr a b with h | h | h
    · exact ⟨0, by rw [h]; push_cast; ring⟩
    · exact ⟨1, by rw [h]; push_cast; ring⟩
    · exact ⟨-1, by rw [h]; push_cast; ring⟩

end PEval.C09
