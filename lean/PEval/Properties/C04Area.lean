import PEval.Lemmas.APPerfect
import PEval.Lemmas.PipelineAP
import PEval.Properties.C04Core
/-!
# C04 — the area in the property's own wording, and what `Map` averages  (audit C04 F1, F6)

* F1: `apSpec` is index based (`Σ_i (r_i − r_{i−1}) · max_{j ≥ i} p_j`); the property says "replacing precision at each
  recall by the maximum precision at any higher recall".  `apSpec_eq_apSpecRecall`: for non-decreasing recalls (what
  non-negative TP weights give, `recalls_nondecreasing`) and non-negative precisions the index-based sum IS the
  recall-based sum `apSpecRecall` (`Σ_i (r_i − r_{i−1}) · max { p_j | r_j ≥ r_i }`), hence so is the code's value
  (`apCode_eq_recall_area`, `ap_eq_recall_area`).  With a negative weight the two differ (`recall_area_needs_monotone`).
* F6: `map_mean_of_defined` restates the definition of `mapOf`.  `map_is_mean_of_label_aps` says what the averaged list
  IS: its i-th element is the `Ap` of the i-th target label with the i-th threshold on the bucket and the count looked up
  under THAT label (by key), APH likewise in 3-D and absent in 2-D; mAP / mAPH are the means over the defined ones.
-/

namespace PEval.C04
open PEval.AP

/-! ## F1 -/

theorem foldr_max_base {p : Rat} (hp : 0 ≤ p) (l : List Rat) : l.foldr max p = max p (l.foldr max 0) := by
  induction l with
  | nil => simp [max_eq_left hp]
  | cons x t ih => simp only [List.foldr_cons, ih]; exact max_left_comm x p _

theorem apSpecFrom_eq_apRecallFrom (pre cur : List Pt) (prev : Rat) (hpre : ∀ pt ∈ pre, pt.2 ≤ prev)
    (hr : (prev :: cur.map Prod.snd).Pairwise (· ≤ ·)) (hp : ∀ pt ∈ cur, 0 ≤ pt.1) :
    apSpecFrom prev cur = apRecallFrom (pre ++ cur) prev cur := by
  induction cur generalizing pre prev with
  | nil => rfl
  | cons a rest ih =>
    obtain ⟨p, r⟩ := a
    simp only [List.map_cons, List.pairwise_cons] at hr
    obtain ⟨hprev, hrest, hpw⟩ := hr
    have hle : prev ≤ r := hprev r List.mem_cons_self
    have ih' := ih (pre ++ [(p, r)]) r
      (by
        intro pt hpt
        rcases List.mem_append.1 hpt with h | h
        · exact le_trans (hpre pt h) hle
        · rw [List.mem_singleton.1 h])
      (List.pairwise_cons.2 ⟨hrest, hpw⟩) (fun pt hpt => hp pt (List.mem_cons_of_mem _ hpt))
    rw [List.append_assoc, List.singleton_append] at ih'
    simp only [apSpecFrom, apRecallFrom, ih']
    congr 1
    rcases eq_or_lt_of_le hle with heq | hlt
    · rw [heq]; simp
    · congr 1
      unfold maxPrecAtRecall maxWith
      have h1 : pre.filter (fun pt => decide (r ≤ pt.2)) = [] := by
        rw [List.filter_eq_nil_iff]
        intro pt hpt
        have := hpre pt hpt
        simp only [decide_eq_true_eq, not_le]
        exact lt_of_le_of_lt this hlt
      have h2 : ((p, r) :: rest).filter (fun pt => decide (r ≤ pt.2)) = (p, r) :: rest := by
        rw [List.filter_eq_self]
        intro pt hpt
        rcases List.mem_cons.1 hpt with h | h
        · rw [h]; simp
        · simp only [decide_eq_true_eq]
          exact hrest pt.2 (List.mem_map.2 ⟨pt, h, rfl⟩)
      rw [List.filter_append, h1, h2, List.nil_append, List.map_cons, List.foldr_cons]
      exact foldr_max_base (hp (p, r) List.mem_cons_self) _

theorem map_snd_zip_sublist (ps rs : List Rat) : ((ps.zip rs).map Prod.snd).Sublist rs := by
  induction ps generalizing rs with
  | nil => simp
  | cons p t ih =>
    cases rs with
    | nil => simp
    | cons r rt =>
      simp only [List.zip_cons_cons, List.map_cons]
      exact List.Sublist.cons_cons r (ih rt)

/-- index-based = recall-based interpolated area, for non-decreasing recalls and non-negative precisions -/
theorem apSpec_eq_apSpecRecall (ps rs : List Rat) (hp : ∀ p ∈ ps, 0 ≤ p)
    (hr : (0 :: rs).Pairwise (· ≤ ·)) : apSpec ps rs = apSpecRecall ps rs := by
  unfold apSpec apSpecRecall
  have hsub : ((ps.zip rs).map Prod.snd).Sublist rs := map_snd_zip_sublist ps rs
  have := apSpecFrom_eq_apRecallFrom [] (ps.zip rs) 0 (fun pt h => by cases h)
    ((List.pairwise_cons.1 hr).2.sublist hsub |> fun h2 =>
      List.pairwise_cons.2 ⟨fun x hx => (List.pairwise_cons.1 hr).1 x (hsub.subset hx), h2⟩)
    (fun pt hpt => hp pt.1 (List.of_mem_zip (a := pt.1) (b := pt.2) hpt).1)
  simpa using this

/-- the code's `_calculate_ap` is the recall-based area under the same hypotheses -/
theorem apCode_eq_recall_area (ps rs : List Rat) (hp : ∀ p ∈ ps, 0 ≤ p) (hr : (0 :: rs).Pairwise (· ≤ ·)) :
    calculateAp ps rs = apSpecRecall ps rs := by
  rw [calculateAp_eq_apSpec, apSpec_eq_apSpecRecall ps rs hp hr]

theorem cumsumFrom_mono_chain (c : Rat) (ws : List Rat) (hw : ∀ w ∈ ws, 0 ≤ w) :
    (c :: cumsumFrom c ws).Pairwise (· ≤ ·) := by
  induction ws generalizing c with
  | nil => simp [cumsumFrom]
  | cons w t ih =>
    have hw0 := hw w List.mem_cons_self
    have := ih (c + w) (fun x hx => hw x (List.mem_cons_of_mem _ hx))
    simp only [cumsumFrom]
    rw [List.pairwise_cons] at this ⊢
    refine ⟨?_, List.pairwise_cons.2 this⟩
    intro x hx
    rcases List.mem_cons.1 hx with h | h
    · rw [h]; linarith
    · have := this.1 x h; linarith

theorem cumsumFrom_nonneg (c : Rat) (hc : 0 ≤ c) (ws : List Rat) (hw : ∀ w ∈ ws, 0 ≤ w) :
    ∀ x ∈ cumsumFrom c ws, 0 ≤ x := by
  intro x hx
  have := (List.pairwise_cons.1 (cumsumFrom_mono_chain c ws hw)).1 x hx
  linarith

theorem precFrom_nonneg (i : Nat) (ts : List Rat) (h : ∀ t ∈ ts, 0 ≤ t) : ∀ p ∈ precFrom i ts, 0 ≤ p := by
  induction ts generalizing i with
  | nil => intro p hp; cases hp
  | cons t rest ih =>
    intro p hp
    simp only [precFrom, List.mem_cons] at hp
    rcases hp with rfl | hp
    · apply div_nonneg (h t List.mem_cons_self)
      have : (0 : Rat) ≤ (i : Rat) := by exact_mod_cast Nat.zero_le i
      linarith
    · exact ih (i + 1) (fun x hx => h x (List.mem_cons_of_mem _ hx)) p hp

/-- non-negative TP weights ⇒ the recalls of a ranking are non-decreasing, starting at 0 -/
theorem recalls_nondecreasing (G : Nat) (ws : List Rat) (hw : ∀ w ∈ ws, 0 ≤ w) :
    (0 :: recalls G (cumsum ws)).Pairwise (· ≤ ·) := by
  have h := cumsumFrom_mono_chain 0 ws hw
  have h2 : ((0 : Rat) :: cumsumFrom 0 ws).map (recallOf G) = 0 :: recalls G (cumsum ws) := by
    simp [recalls, cumsum, recallOf_zero]
  rw [← h2, List.pairwise_map]
  exact h.imp (fun hab => recallOf_mono G hab)

/-- `Ap.ap` of a ranking with non-negative TP weights (AP: weight 1; APH: clamped heading weight) is the area under the
precision-recall curve with the precision at each recall replaced by the maximum precision at any recall at least as high -/
theorem ap_eq_recall_area (G : Nat) (ks : List Kind) (hne : ks ≠ []) (hw : ∀ k ∈ ks, 0 ≤ k.tpw) :
    (apOfKinds G ks).ap
      = some (apSpecRecall (precFrom 0 (cumsum (ks.map Kind.tpw))) (recalls G (cumsum (ks.map Kind.tpw)))) := by
  have hws : ∀ w ∈ ks.map Kind.tpw, 0 ≤ w := by
    intro w hw'
    obtain ⟨k, hk, rfl⟩ := List.mem_map.1 hw'
    exact hw k hk
  rw [ap_eq_spec, if_neg hne]
  congr 1
  apply apSpec_eq_apSpecRecall
  · exact precFrom_nonneg 0 _ (cumsumFrom_nonneg 0 (le_refl 0) _ hws)
  · exact recalls_nondecreasing G _ hws

/-- the hypothesis is needed: with a negative weight (unreachable: AP weighs 1, APH clamps to [0,1]) the recalls are not
monotone and the index-based sum is not the recall-based one -/
theorem recall_area_needs_monotone :
    apSpec [1, 0] [1, 0] = 1 ∧ apSpecRecall [1, 0] [1, 0] = 0 := by
  constructor <;> decide +kernel

/-- non-vacuity: TP, FP, TP with 2 ground truths — precisions [1, 1/2, 2/3], recalls [1/2, 1/2, 1]; both sums 5/6 -/
example : apSpec [1, 1/2, 2/3] [1/2, 1/2, 1] = 5/6 ∧ apSpecRecall [1, 1/2, 2/3] [1/2, 1/2, 1] = 5/6 := by
  constructor <;> decide +kernel

/-! ## F6 -/

/-- what produced the element of `Map.aps` / `Map.aphs` belonging to the pair (label, threshold) -/
def FromPair (tm : TpMetric) (m : Mode) (buckets : List (Label × List (List Res))) (nums : List (Label × Nat))
    (lt : Label × Rat) (a : ApOut) : Prop :=
  ∃ rss G, lookupKey lt.1 buckets = .ok rss ∧ lookupKey lt.1 nums = .ok G ∧
    apOfNested tm m [lt.1] [lt.2] G rss = .ok a

theorem mapLoop_spec {m : Mode} {is2d : Bool} {buckets : List (Label × List (List Res))}
    {nums : List (Label × Nat)} {zs : List (Label × Rat)} {o : List ApOut × List ApOut}
    (h : mapLoop m is2d buckets nums zs = .ok o) :
    List.Forall₂ (FromPair .ap m buckets nums) zs o.1
      ∧ (if is2d = true then o.2 = [] else List.Forall₂ (FromPair .aph m buckets nums) zs o.2) := by
  induction zs generalizing o with
  | nil =>
    simp only [mapLoop, Except.ok.injEq] at h
    subst h
    refine ⟨.nil, ?_⟩
    split
    · rfl
    · exact .nil
  | cons z t ih =>
    obtain ⟨l, thr⟩ := z
    unfold mapLoop at h
    cases hb : lookupKey l buckets with
    | error e => simp [hb] at h
    | ok rss =>
      cases hn : lookupKey l nums with
      | error e => simp [hb, hn] at h
      | ok G =>
        simp only [hb, hn] at h
        cases ha : apOfNested .ap m [l] [thr] G rss with
        | error e => simp [ha] at h
        | ok a1 =>
          simp only [ha] at h
          have hfa : FromPair .ap m buckets nums (l, thr) a1 := ⟨rss, G, hb, hn, ha⟩
          cases is2d with
          | true =>
            simp only [if_true] at h
            cases hr : mapLoop m true buckets nums t with
            | error e => simp [hr] at h
            | ok q =>
              obtain ⟨q1, q2⟩ := q
              simp only [hr, Except.ok.injEq] at h
              subst h
              obtain ⟨i1, i2⟩ := ih hr
              exact ⟨.cons hfa i1, by simpa using i2⟩
          | false =>
            simp only [Bool.false_eq_true, if_false] at h
            cases hh : apOfNested .aph m [l] [thr] G rss with
            | error e => simp [hh, Except.map] at h
            | ok h1 =>
              simp only [hh, Except.map] at h
              cases hr : mapLoop m false buckets nums t with
              | error e => simp [hr] at h
              | ok q =>
                obtain ⟨q1, q2⟩ := q
                simp only [hr, Except.ok.injEq] at h
                subst h
                obtain ⟨i1, i2⟩ := ih hr
                refine ⟨.cons hfa i1, ?_⟩
                simp only [Bool.false_eq_true, if_false] at i2 ⊢
                exact .cons ⟨rss, G, hb, hn, hh⟩ i2

/-- `Map`: the i-th AP is the `Ap` of the i-th target label under the i-th threshold, on the bucket and the ground-truth
count looked up UNDER THAT LABEL; the APHs likewise (3-D) or none (2-D); mAP / mAPH are the means over the defined
entries (`inf` when there is none). -/
theorem map_is_mean_of_label_aps {m : Mode} {is2d : Bool} {T : List Label} {th : List Rat}
    {buckets : List (Label × List (List Res))} {nums : List (Label × Nat)} {o : MapOut}
    (h : mapOf m is2d T th buckets nums = .ok o) :
    List.Forall₂ (FromPair .ap m buckets nums) (T.zip th) o.aps
      ∧ (if is2d = true then o.aphs = [] else List.Forall₂ (FromPair .aph m buckets nums) (T.zip th) o.aphs)
      ∧ o.map = meanDefined (o.aps.map (·.ap)) ∧ o.maph = meanDefined (o.aphs.map (·.ap)) := by
  obtain ⟨hloop, h1, h2⟩ := mapOf_ok h
  obtain ⟨i1, i2⟩ := mapLoop_spec hloop
  exact ⟨i1, i2, h1, h2⟩

/-- stored change C04_E (labels paired with thresholds by the dict's insertion order): on a dict keyed in another order
than the target labels the i-th AP is not the AP of the i-th label — expressed here as: the statement above pins the
bucket to the label, so two dicts that differ only in key order give the same `Map` (cf. `map_dict_order_irrelevant`);
the per-position variant `mapLoopByPosition` violates `map_is_mean_of_label_aps`. -/
def mapLoopByPosition (m : Mode) (buckets : List (Label × List (List Res))) (nums : List (Label × Nat)) :
    List Rat → List (Label × List (List Res)) → Except Err (List ApOut)
  | [], _ => .ok []
  | _, [] => .ok []
  | t :: ts, (l, rss) :: rest =>
    match lookupKey l nums with
    | .error e => .error e
    | .ok G =>
      match apOfNested .ap m [l] [t] G rss with
      | .error e => .error e
      | .ok a =>
        match mapLoopByPosition m buckets nums ts rest with
        | .error e => .error e
        | .ok as => .ok (a :: as)

/-- targets [car, pedestrian] with thresholds [1, 3], dict keyed [pedestrian, car]; the pedestrian result lies at
distance 2: under the pedestrian threshold 3 it is a TP (AP 1), the positional pairing evaluates it under threshold 1 (AP 0) -/
theorem byPosition_violates_label_pairing :
    let ped : Res := { id := 0, conf := 1, label := 4, gt := some ⟨0, 4⟩, score := .val (some 2), hw := 1, policy := .default }
    let buckets : List (Label × List (List Res)) := [(4, [[ped]]), (2, [[]])]
    let nums : List (Label × Nat) := [(4, 1), (2, 0)]
    (mapOf .centerDistance true [2, 4] [1, 3] buckets nums).toOption.map (fun o => o.aps.map (·.ap)) = some [none, some 1]
      ∧ (mapLoopByPosition .centerDistance buckets nums [1, 3] buckets).toOption.map (fun as => as.map (·.ap))
          = some [some 0, none] := by
  decide +kernel

end PEval.C04
