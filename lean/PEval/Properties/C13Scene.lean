import PEval.Properties.C04Scene
import PEval.Lemmas.ManagerAPLink
import PEval.Lemmas.Manager
/-!
# C13 × C04 — the pooling machine `Manager.getSceneResult` computes the scene score of `AP.sceneMap`

`Properties/C13.lean` proves pooling for the accumulator loop of `get_scene_result` with an abstract score;
`Properties/C04Scene.lean` proves it for the model of `get_scene_result → Map → Ap` (`AP.sceneMap`).
Here the two are joined: feed the pooling machine the frames of an `AP.sceneMap` call (per label the
`divide_objects` bucket, each result carrying the TP weight `AP.classify` gives it; per label the
ground-truth count) — then its scene score under the concrete `Manager.apOf` is, label by label, the
`Ap.ap` that `AP.sceneMap` returns (`tm = .ap`: the APs, `tm = .aph`: the APHs).
-/
namespace PEval.C13
open PEval.Manager PEval

/-- detection view (`Manager.Det`) of one frame given in the vocabulary of `Model/AP.lean`: bucket and
ground-truth count per `(label, threshold)` of `zip(target_labels, thresholds)`; TP column 0 = the weight
of metric `tm` -/
def detOfAP (tm : AP.TpMetric) (m : AP.Mode) (T : List AP.Label) (th : List Rat)
    (f : List AP.Res × List AP.Label) : Det :=
  { results := (T.zip th).map (fun lt => (AP.bucket T lt.1 f.1).map (ofAP (tpWeight tm m [lt.1] [lt.2])))
    numGt := (T.zip th).map (fun lt => AP.cnt lt.1 f.2) }

/-- a manager that has stored these frames (in order) -/
def stateOfAP (tm : AP.TpMetric) (m : AP.Mode) (T : List AP.Label) (th : List Rat)
    (frames : List (List AP.Res × List AP.Label)) : State Unit :=
  { dataset := [], frameResults := frames.map (fun f => ⟨0, detOfAP tm m T th f, ()⟩) }

theorem detOfAP_bucket {tm : AP.TpMetric} {m : AP.Mode} {T : List AP.Label} {th : List Rat}
    (f : List AP.Res × List AP.Label) {i : Nat} {lt : AP.Label × Rat} (h : (T.zip th)[i]? = some lt) :
    (detOfAP tm m T th f).bucket i = (AP.bucket T lt.1 f.1).map (ofAP (tpWeight tm m [lt.1] [lt.2])) := by
  simp [detOfAP, Det.bucket, List.getD_eq_getElem?_getD, List.getElem?_map, h]

theorem detOfAP_gt {tm : AP.TpMetric} {m : AP.Mode} {T : List AP.Label} {th : List Rat}
    (f : List AP.Res × List AP.Label) {i : Nat} {lt : AP.Label × Rat} (h : (T.zip th)[i]? = some lt) :
    (detOfAP tm m T th f).gt i = AP.cnt lt.1 f.2 := by
  simp [detOfAP, Det.gt, List.getD_eq_getElem?_getD, List.getElem?_map, h]

/-- the pooled score of the machine for the `i`-th `(label, threshold)` is `Manager.apOf` of the
translated pooled bucket with the summed count -/
theorem stateOfAP_score (tm : AP.TpMetric) (m : AP.Mode) (T : List AP.Label) (th : List Rat)
    (frames : List (List AP.Res × List AP.Label)) {i : Nat} {lt : AP.Label × Rat}
    (h : (T.zip th)[i]? = some lt) :
    (getSceneResult (T.zip th).length (stateOfAP tm m T th frames)).score (Manager.apOf 0) i
      = Manager.apOf 0 (((frames.map (fun f => AP.bucket T lt.1 f.1)).flatten).map (ofAP (tpWeight tm m [lt.1] [lt.2])))
          ((frames.map (fun f => AP.cnt lt.1 f.2)).sum) := by
  have hi : i < (T.zip th).length := (List.getElem?_eq_some_iff.1 h).1
  unfold Scene.score
  rw [scene_pooled _ _ i hi, scene_gt _ _ i hi]
  simp only [stateOfAP, List.map_map, Function.comp_def, detOfAP_bucket _ h, detOfAP_gt _ h, List.map_flatten]

/-- **`Manager.getSceneResult` refines to `AP.sceneMap`**: whenever the scene-level `Map` of the AP model
evaluates, its `i`-th AP is the score the pooling machine computes (with the concrete `Manager.apOf`) for
the `i`-th label from the stored per-frame buckets and counts; in 3-D the same for the APHs. -/
theorem manager_scene_eq_AP_sceneMap {m : AP.Mode} {is2d : Bool} {T : List AP.Label} {th : List Rat}
    {frames : List (List AP.Res × List AP.Label)} {o : AP.MapOut}
    (h : AP.sceneMap m is2d T th frames = .ok o) {i : Nat} {lt : AP.Label × Rat}
    (hi : (T.zip th)[i]? = some lt) :
    (∃ a, o.aps[i]? = some a ∧
      (getSceneResult (T.zip th).length (stateOfAP .ap m T th frames)).score (Manager.apOf 0) i = a.ap) ∧
    (is2d = false → ∃ a, o.aphs[i]? = some a ∧
      (getSceneResult (T.zip th).length (stateOfAP .aph m T th frames)).score (Manager.apOf 0) i = a.ap) := by
  obtain ⟨h1, h2, _, _⟩ := C04.scene_ap_eq_pooled h
  constructor
  · have e := congrArg (fun l => l[i]?) h1
    simp only [List.getElem?_map, hi, Option.map_some] at e
    cases ha : o.aps[i]? with
    | none => simp [ha] at e
    | some a =>
      simp only [ha, Option.map_some, Option.some.injEq] at e
      exact ⟨a, rfl, by rw [stateOfAP_score _ _ _ _ _ hi]; exact apOf_eq_AP_apOf e.symm⟩
  · intro h2d
    subst h2d
    simp only [Bool.false_eq_true, if_false] at h2
    have e := congrArg (fun l => l[i]?) h2
    simp only [List.getElem?_map, hi, Option.map_some] at e
    cases ha : o.aphs[i]? with
    | none => simp [ha] at e
    | some a =>
      simp only [ha, Option.map_some, Option.some.injEq] at e
      exact ⟨a, rfl, by rw [stateOfAP_score _ _ _ _ _ hi]; exact apOf_eq_AP_apOf e.symm⟩

/-- a one-frame scene on the machine reproduces the FRAME-level `Map` of the AP model (`AP.frameMap`, what
`evaluate_frame` computes with flat buckets): the real content of "a one-frame scene reproduces that
frame's detection score" -/
theorem manager_single_frame_eq_AP_frameMap {m : AP.Mode} {is2d : Bool} {T : List AP.Label} {th : List Rat}
    {rs : List AP.Res} {gl : List AP.Label} {o : AP.MapOut}
    (h : AP.frameMap m is2d T th rs gl = .ok o) {i : Nat} {lt : AP.Label × Rat}
    (hi : (T.zip th)[i]? = some lt) :
    ∃ a, o.aps[i]? = some a ∧
      (getSceneResult (T.zip th).length (stateOfAP .ap m T th [(rs, gl)])).score (Manager.apOf 0) i = a.ap := by
  rw [← C04.scene_single_frame_eq_frame] at h
  exact (manager_scene_eq_AP_sceneMap h hi).1

/-! ### non-vacuity: the two-frame scene of `C04Scene.lean` (labels 2 and 4; ground truth 7 in both frames) -/

example : (AP.sceneMap .centerDistance false [2, 4] [1, 1] C04.exFrames).toOption.map
      (fun o => (o.aps.map (·.ap), o.aphs.map (·.ap)))
    = some ([(getSceneResult 2 (stateOfAP .ap .centerDistance [2, 4] [1, 1] C04.exFrames)).score (Manager.apOf 0) 0,
             (getSceneResult 2 (stateOfAP .ap .centerDistance [2, 4] [1, 1] C04.exFrames)).score (Manager.apOf 0) 1],
            [(getSceneResult 2 (stateOfAP .aph .centerDistance [2, 4] [1, 1] C04.exFrames)).score (Manager.apOf 0) 0,
             (getSceneResult 2 (stateOfAP .aph .centerDistance [2, 4] [1, 1] C04.exFrames)).score (Manager.apOf 0) 1]) := by
  decide +kernel
example : (getSceneResult 2 (stateOfAP .ap .centerDistance [2, 4] [1, 1] C04.exFrames)).score (Manager.apOf 0) 0
    = some (2 / 3) := by decide +kernel

end PEval.C13
