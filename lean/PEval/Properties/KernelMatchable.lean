import PEval.Lemmas.MatchKernelsDT
import PEval.Gen.KMatchable
/-!
# Decision table of `MatchingLabelPolicy.is_matchable` (serves C02, C01)

`PEval.Gen.K.matchable.tree` is regenerated on every run by running the REAL `is_matchable` of every member of the
policy enum on symbolic objects over every assignment of the atoms it queries (`harness/dt_match.py`).
`matchable_table_check` is the per-run obligation (complete agreement checker, kernel-evaluated); everything else
is proved once. If the source leaves the abstraction the table is `none` and the statements hold vacuously.
-/
namespace PEval.KernelMatchable
open PEval PEval.DT PEval.MatchKernels PEval.Matching

/-- THE per-run obligation -/
theorem matchable_table_check : tableOk forbidden Gen.K.matchable.tree matchableTree = true := by decide +kernel

/-- the code's decision table equals the model's skeleton under every consistent valuation of the atoms -/
theorem matchable_code_table_eq_model :
    ∀ t, Gen.K.matchable.tree = some t → ∀ v : Val, consistent forbidden v = true → eval t v = matchableAtoms v :=
  tableOk_sound matchable_table_check

/-- the bridge: the model `isMatchable` is its skeleton applied to the atoms of the input (all inputs) -/
theorem matchable_eq_skeleton (p : Policy) (e g : Obj) :
    matchableAtoms (valMatchable p e g) = .ret (isMatchable p e g) := matchable_bridge p e g

/-- the valuation of a concrete input never contains a forbidden conjunction -/
theorem matchable_valuation_consistent (p : Policy) (e g : Obj) : consistent forbidden (valMatchable p e g) = true :=
  valMatchable_consistent p e g

/-- the CODE's table, read at the atoms of a concrete pair, gives the model's verdict -/
theorem matchable_code_table_eq_isMatchable :
    ∀ t, Gen.K.matchable.tree = some t → ∀ (p : Policy) (e g : Obj), eval t (valMatchable p e g) = .ret (isMatchable p e g) := by
  intro t ht p e g
  rw [matchable_code_table_eq_model t ht _ (valMatchable_consistent p e g)]
  exact matchable_bridge p e g

/-- the same against the metrics model's `isMatchable` (labels as numbers) -/
theorem matchable_code_table_eq_isMatchable_AP :
    ∀ t, Gen.K.matchable.tree = some t → ∀ (p : AP.Policy) (e g : AP.Label),
      eval t (valMatchableAP p e g) = .ret (AP.isMatchable p e g) := by
  intro t ht p e g
  rw [matchable_code_table_eq_model t ht _ (valMatchableAP_consistent p e g)]
  exact matchable_bridge_AP p e g

/-- for the code's table: a false-positive-labelled ground truth is compatible with every estimate, whatever the policy -/
theorem table_fp_gt_compatible {t : DTree} (ht : Gen.K.matchable.tree = some t) (p : Policy) (e g : Obj)
    (h : isFp g.label = true) : eval t (valMatchable p e g) = .ret true := by
  rw [matchable_code_table_eq_isMatchable t ht]; simp [isMatchable, h]

/-- for the code's table: ALLOW_ANY makes every pair compatible -/
theorem table_allow_any {t : DTree} (ht : Gen.K.matchable.tree = some t) (e g : Obj) :
    eval t (valMatchable .allowAny e g) = .ret true := by
  rw [matchable_code_table_eq_isMatchable t ht]; simp [isMatchable]

/-- for the code's table, ordinary ground truth: DEFAULT is label equality; ALLOW_UNKNOWN adds the unknown estimates -/
theorem table_strict_iff {t : DTree} (ht : Gen.K.matchable.tree = some t) (e g : Obj) (h : isFp g.label = false) :
    eval t (valMatchable .default e g) = .ret (e.label == g.label)
      ∧ eval t (valMatchable .allowUnknown e g) = .ret (e.label == g.label || isUnknown e.label) := by
  rw [matchable_code_table_eq_isMatchable t ht, matchable_code_table_eq_isMatchable t ht]
  simp [isMatchable, h]

/-- non-vacuity: the table of the current source exists on an unchanged tree, and says what is expected on concrete pairs -/
example : ∀ t, Gen.K.matchable.tree = some t →
    eval t (valMatchable .allowUnknown ⟨"unknown", "base_link"⟩ ⟨"car", "base_link"⟩) = .ret true
    ∧ eval t (valMatchable .default ⟨"unknown", "base_link"⟩ ⟨"car", "base_link"⟩) = .ret false := by
  intro t ht
  rw [matchable_code_table_eq_isMatchable t ht, matchable_code_table_eq_isMatchable t ht]
  decide +kernel

end PEval.KernelMatchable
