import PEval.Properties.Pipeline
import PEval.Properties.C04Scene
/-!
# C04, scene level through the pipeline: the per-frame hypotheses of `scene_in_unit_interval` DISCHARGED

`C04.scene_in_unit_interval` (`Properties/C04Scene.lean`) bounds every AP / APH / mAP / mAPH of `get_scene_result`'s
`Map` (`AP.sceneMap`) by [0,1] under three hypotheses per frame: no ground truth is the ground truth of two object
results, every attached ground truth is one of the frame's, heading weights lie in [0,1].  For a history of frames
evaluated by `Pipeline.detectFrame` (matcher → critical filter → the lists the metrics read) the first two are C01's
theorems about `Matching.getObjectResults` (`apResults_one_to_one`), for every matcher configuration, scene and
critical region.  What is left is about the INPUT of each frame: ground-truth ids pairwise different
(`GtIdsDistinct`, implied by `GtsDistinct`) and heading weights in [0,1] (C09's `aphWeight_range`).  Ground-truth
ids may repeat ACROSS frames (the same tracked object in consecutive frames).
-/
namespace PEval.PipelineProps
open PEval PEval.Pipeline

/-- one evaluated frame as `get_scene_result` reads it under matching mode `m`: `frame.object_results` (critical
object results, in the metrics' vocabulary) and `frame.frame_ground_truth.objects` (critical ground truths) -/
def sceneFrameG (m : AP.Mode) (p : Frame × Out) : List AP.Res × List AP.Gt :=
  (apResults p.1 m p.2.matched, apGts p.1)

/-- … with the ground truths as label list (`divide_objects_to_num` reads labels only): the argument of `AP.sceneMap` -/
def sceneFrame (m : AP.Mode) (p : Frame × Out) : List AP.Res × List AP.Label :=
  (apResults p.1 m p.2.matched, (apGts p.1).map (·.label))

/-- the per-frame hypotheses of `C04.scene_in_unit_interval` hold of every frame `detectFrame` returns -/
theorem pipeline_scene_frame_hyps (m : AP.Mode) (hist : List (Frame × Out))
    (hdet : ∀ p ∈ hist, detectFrame p.1 = .ok p.2) (hid : ∀ p ∈ hist, GtIdsDistinct p.1)
    (hw : ∀ p ∈ hist, ∀ i j, 0 ≤ p.1.hw i j ∧ p.1.hw i j ≤ 1) :
    (∀ f ∈ hist.map (sceneFrameG m), (f.1.filterMap (·.gt)).Nodup) ∧
    (∀ f ∈ hist.map (sceneFrameG m), ∀ g ∈ f.1.filterMap (·.gt), g ∈ f.2) ∧
    (∀ f ∈ hist.map (sceneFrameG m), ∀ r ∈ f.1, 0 ≤ r.hw ∧ r.hw ≤ 1) := by
  refine ⟨?_, ?_, ?_⟩
  · intro f hf
    obtain ⟨p, hp, rfl⟩ := List.mem_map.1 hf
    obtain ⟨rs, hr, hm, _, _⟩ := detectFrame_ok (hdet p hp)
    subst hm
    exact (apResults_one_to_one hr (hid p hp) m).1
  · intro f hf
    obtain ⟨p, hp, rfl⟩ := List.mem_map.1 hf
    obtain ⟨rs, hr, hm, _, _⟩ := detectFrame_ok (hdet p hp)
    subst hm
    exact (apResults_one_to_one hr (hid p hp) m).2
  · intro f hf
    obtain ⟨p, hp, rfl⟩ := List.mem_map.1 hf
    exact apResults_hw (hw p hp) m _

/-- **[0,1] at scene level, through the pipeline.**  For every history of frames each evaluated by
`Pipeline.detectFrame` (any matcher configuration, any critical region, any sizes), any matching mode, target
labels and thresholds of the scene-level `Map`: whenever `get_scene_result`'s `Map` answers on the stored frames, every
defined per-label AP and APH and the mAP / mAPH lie in [0,1].  Hypotheses on the inputs only: per frame the ground-truth
ids are pairwise different and the heading weights lie in [0,1]. -/
theorem pipeline_scene_in_unit_interval {m : AP.Mode} {is2d : Bool} {T : List AP.Label} {th : List Rat}
    (hist : List (Frame × Out)) (hdet : ∀ p ∈ hist, detectFrame p.1 = .ok p.2)
    (hid : ∀ p ∈ hist, GtIdsDistinct p.1) (hw : ∀ p ∈ hist, ∀ i j, 0 ≤ p.1.hw i j ∧ p.1.hw i j ≤ 1)
    {o : AP.MapOut} (h : AP.sceneMap m is2d T th (hist.map (sceneFrame m)) = .ok o) :
    (∀ a ∈ o.aps, ∀ x, a.ap = some x → 0 ≤ x ∧ x ≤ 1) ∧
    (∀ a ∈ o.aphs, ∀ x, a.ap = some x → 0 ≤ x ∧ x ≤ 1) ∧
    (∀ x, o.map = some x → 0 ≤ x ∧ x ≤ 1) ∧ (∀ x, o.maph = some x → 0 ≤ x ∧ x ≤ 1) := by
  obtain ⟨h1, h2, h3⟩ := pipeline_scene_frame_hyps m hist hdet hid hw
  have h' : AP.sceneMap m is2d T th ((hist.map (sceneFrameG m)).map (fun f => (f.1, f.2.map (·.label)))) = .ok o := by
    rw [List.map_map]
    exact h
  exact C04.scene_in_unit_interval (framesG := hist.map (sceneFrameG m)) h1 h2 h3 h'

/-- a one-frame scene is the frame's own `Map` (same target-label list at both levels), hence in [0,1] too; stated to
show how the scene theorem specialises to `pipeline_frameMap_in_unit` -/
theorem pipeline_single_frame_scene (f : Frame) (o : Out) (m : AP.Mode) (is2d : Bool) (T : List AP.Label) (th : List Rat) :
    AP.sceneMap m is2d T th [sceneFrame m (f, o)]
      = AP.frameMap m is2d T th (apResults f m o.matched) ((apGts f).map (·.label)) :=
  C04.scene_single_frame_eq_frame m is2d T th _ _

/-! ### non-vacuity: the frame of `Properties/Pipeline.lean` evaluated twice (ground-truth ids repeat across the frames) -/

example : ∀ o, detectFrame exFrame = .ok o →
    (AP.sceneMap .centerDistance false [2, 4] [1, 1] ([(exFrame, o), (exFrame, o)].map (sceneFrame .centerDistance))).toOption.map
      (fun mo => (mo.aps.map (·.ap), mo.aphs.map (·.ap), mo.map, mo.maph))
      = some ([some (1 / 2), none], [some (1 / 8), none], some (1 / 2), some (1 / 8)) := by
  intro o ho
  have hm : o.matched = [(0, some 0), (1, some 1), (2, none)] := by
    have : (detectFrame exFrame).toOption.map (·.matched) = some [(0, some 0), (1, some 1), (2, none)] := by
      decide +kernel
    rw [ho] at this
    simpa [Except.toOption] using this
  simp only [List.map, sceneFrame, hm]
  decide +kernel

end PEval.PipelineProps
