import PEval.Lemmas.CriticalFrame
import PEval.Properties.C03Core
/-!
# C03 — "no estimate or ground truth outside the critical region is counted, in whichever frame the objects are expressed"

Model: `PEval/Model/CriticalFrame.lean`.  An object carries its frame id and its position in that frame, the
frame carries `frame_ground_truth.transforms` (per frame id an ego pose, or `None`) and the critical filter's
`filtering_params`.  The critical predicate is the C10 model `Filter.isTarget` (theorem
`C10.isTarget_iff_criteria` = `Filter.isTarget_ok_iff`: it decides exactly the declarative `Filter.Criteria`),
applied at the TWO call sites of `evaluate_frame`, which are modelled separately (`Wiring`): `wiring` is the
code, `wiringF2` the code with the `transform=` typo at the `filter_object_results` call (defect F2),
`wiringF2gt` the same typo at the `filter_objects` call.

* `critical_sound`         every entry of TP / FP / TN / FN is an object of the frame that satisfies the critical
                           criteria on its EGO-RELATIVE position (`EgoRel`: its own position in BASE_LINK, the
                           inverse ego pose applied to its position otherwise), whatever frame it is expressed in;
                           `counted_range` spells the range part out.  FAILS for `wiringF2` / `wiringF2gt`.
* `critical_sites_agree`   both call sites give the same verdict on a ground truth (hypothesis `GtConfOK`: the
                           ground truth's own confidence beats the critical confidence threshold — the one
                           difference between the two calls, `gt_conf_needed`).  FAILS for `wiringF2`.
* `critical_refines`       the new model IS `PassFail.evaluateFrame` on the frame whose opaque Booleans are the
                           computed flags; `critical_conservation` / `critical_accounting_perm` /
                           `critical_num_total` transfer the counting theorems.  Conservation FAILS for `wiringF2`.
* `critical_frame_free`    a BASE_LINK frame and its MAP rendering under ANY ego pose (unit yaw, any translation)
                           yield the same four lists (C10's `frame_invariant` lifted through both filters and
                           the accounting); `egoRel_toMap`: the ego-relative position of the rendering is the
                           original position.  FAILS for `wiringF2`.
-/
namespace PEval.C03
open PEval PEval.Filter PEval.CritFrame

/-! ## the critical region -/

/-- an estimate of frame `f` satisfies the critical criteria (as `filter_object_results` applies them:
label, confidence, range on the ego-relative position) -/
def EstInCritical (f : Frame) (o : CObj) : Prop := Criteria (estParams (critP f)) (view f.transforms o)

/-- a ground truth of frame `f` satisfies the critical criteria (the part common to both call sites: label,
ignored attributes, range on the ego-relative position, point count, uuid) -/
def GtInCritical (f : Frame) (o : CObj) : Prop := Criteria (gtParams (critP f)) (view f.transforms o)

/-- every entry of the four lists is an object of the frame inside the critical region -/
def CountedInCritical (f : Frame) (p : PassFail.PassFail) : Prop :=
  (∀ r ∈ p.tp ++ p.fp, ∃ cr ∈ f.results, r.est = cr.est.id ∧ EstInCritical f cr.est ∧
    ∀ g, r.gt = some g → ∃ cg, cr.gt = some cg ∧ g.id = cg.id ∧ GtInCritical f cg) ∧
  (∀ g ∈ p.tn ++ p.fn, ∃ cg, (cg ∈ f.gts ∨ ∃ cr ∈ f.results, cr.gt = some cg) ∧ g.id = cg.id ∧ GtInCritical f cg)

/-- the statement "whatever `evaluate_frame` counts lies in the critical region" about a wiring -/
def CriticalSound (w : Wiring) : Prop :=
  ∀ f out, evaluateFrameWith w f = .ok out → CountedInCritical f out.pf

/-- **the code counts nothing outside the critical region** (any frame ids, any transforms, any critical
parameters incl. `target_uuids` / `ignore_attributes`; no hypothesis besides "the call returned") -/
theorem critical_sound : CriticalSound wiring := by
  intro f out h
  obtain ⟨k1, k2⟩ := kept_criteria h
  obtain ⟨c1, c2⟩ := counted_from_kept h
  have hg : ∀ cg, (cg ∈ out.keptGts ∨ ∃ cr ∈ out.keptResults, cr.gt = some cg) →
      (cg ∈ f.gts ∨ ∃ cr ∈ f.results, cr.gt = some cg) ∧ GtInCritical f cg := by
    rintro cg (hcg | ⟨cr, hcr, hrg⟩)
    · exact ⟨Or.inl (k2 cg hcg).1, criteria_drop_conf (k2 cg hcg).2⟩
    · exact ⟨Or.inr ⟨cr, (k1 cr hcr).1, hrg⟩, (k1 cr hcr).2.2 cg hrg⟩
  constructor
  · intro r hr
    obtain ⟨cr, hcr, he, hgt⟩ := c1 r hr
    refine ⟨cr, (k1 cr hcr).1, he, (k1 cr hcr).2.1, ?_⟩
    intro g hrg
    obtain ⟨cg, hcg, rfl⟩ := hgt g hrg
    exact ⟨cg, hcg, rfl, (k1 cr hcr).2.2 cg hcg⟩
  · intro g hg'
    obtain ⟨cg, hcg, rfl⟩ := c2 g hg'
    exact ⟨cg, (hg cg hcg).1, rfl, (hg cg hcg).2⟩

/-- what "inside the critical region" says about the position: for an object that is not FP-labelled
(those pass by C10's first clause, DESIGN §7 O1), the x / y / distance / point-count criteria hold of its
ego-relative position `p` — its own position if it is given in BASE_LINK, `toEgo pose position` if it is
given in a frame with a registered pose -/
theorem counted_range {f : Frame} {o : CObj} (isGt : Bool)
    (h : if isGt then GtInCritical f o else EstInCritical f o) (hfp : ¬ IsFP o.label)
    (p : Pos) (hp : EgoRel f.transforms o p) :
    RangeOK (if isGt then gtParams (critP f) else estParams (critP f)) (view f.transforms o) p := by
  cases isGt with
  | true =>
    rcases h with h | h
    · exact absurd h hfp
    · exact h.2.2.2.1 p ((egoPos_view (P := gtParams (critP f)) rfl o p).2 hp)
  | false =>
    rcases h with h | h
    · exact absurd h hfp
    · exact h.2.2.2.1 p ((egoPos_view (P := estParams (critP f)) rfl o p).2 hp)

/-! ## both call sites apply the same predicate with the same transforms -/

/-- for the code: on the ground truth of every result, the test inside `filter_object_results` and the test
of `filter_objects` give the same verdict -/
theorem critical_sites_agree (f : Frame) (hc : GtConfOK f) : SitesAgree wiring f := sitesAgree_wiring f hc

/-! ## refinement: the opaque-flag model of `Model/PassFail.lean` -/

/-- the pass/fail result of the new model is `PassFail.evaluateFrame` of the induced frame, and the stored
lists are the filtered lists of that frame -/
theorem critical_refines {f : Frame} {out : Out} (h : evaluateFrame f = .ok out) (hc : GtConfOK f) :
    out.pf = PassFail.evaluateFrame (absFrame wiring f) ∧
    out.keptResults.map (absRes (wiring.resSite f) (wiring.gtSite f)) =
      PassFail.criticalResults (absFrame wiring f).results ∧
    out.keptGts.map (absGT (wiring.gtSite f)) = PassFail.criticalGts (absFrame wiring f).gts :=
  evaluateFrameWith_refines h (sitesAgree_wiring f hc)

/-- the matcher's guarantee, stated on the objects, is `MatcherWF` of the induced frame -/
theorem critical_matcher_wf (f : Frame) (hw : FrameWF f) : PassFail.MatcherWF (absFrame wiring f) :=
  matcherWF_abs wiring f hw

/-- conservation transfers: ordinary critical ground truths = TP + FN, FP-labelled critical ground truths =
TN + matched FP, surviving results = TP + FP -/
theorem critical_conservation {f : Frame} {out : Out} (h : evaluateFrame f = .ok out) (hc : GtConfOK f)
    (hw : FrameWF f) :
    (out.pf.gts.filter (fun g => !g.isFP)).length = out.pf.tp.length + out.pf.fn.length ∧
    (out.pf.gts.filter (fun g => g.isFP)).length = out.pf.tn.length + (PassFail.matchedFP out.pf.fp).length ∧
    out.pf.tp.length + out.pf.fp.length = out.pf.results.length ∧
    out.pf.gts.length = out.keptGts.length ∧ out.pf.results.length = out.keptResults.length := by
  obtain ⟨e, k1, k2⟩ := critical_refines h hc
  have hcons := frame_conservation _ (critical_matcher_wf f hw)
  rw [← e] at hcons
  refine ⟨hcons.1, hcons.2.1, hcons.2.2, ?_, ?_⟩
  · rw [e]; show (PassFail.criticalGts _).length = _; rw [← k2, List.length_map]
  · rw [e]; show (PassFail.criticalResults _).length = _; rw [← k1, List.length_map]

/-- exactly-once accounting transfers -/
theorem critical_accounting_perm {f : Frame} {out : Out} (h : evaluateFrame f = .ok out) (hc : GtConfOK f)
    (hw : FrameWF f) :
    (PassFail.gtsOf out.pf.tp ++ (out.pf.fn ++ (out.pf.tn ++
      PassFail.gtsOf (PassFail.matchedFP out.pf.fp)))).Perm out.pf.gts := by
  rw [(critical_refines h hc).1]
  exact gt_accounting_perm _ _ (pipeline_wf _ (critical_matcher_wf f hw))

/-- the success / fail counters transfer -/
theorem critical_num_total {f : Frame} {out : Out} (h : evaluateFrame f = .ok out) (hc : GtConfOK f)
    (hw : FrameWF f) :
    PassFail.numSuccess out.pf + PassFail.numFail out.pf + out.pf.tp.length
        + (PassFail.matchedFP out.pf.fp).length = out.pf.results.length + out.pf.gts.length := by
  rw [(critical_refines h hc).1]
  exact num_total _ (critical_matcher_wf f hw)

/-! ## in whichever frame the objects are expressed -/

/-- ids of the four lists (the observables `pass_fail_result.{tp,fp}_object_results`, `{tn,fn}_objects`) -/
def obs (p : PassFail.PassFail) : List (Nat × Option Nat) × List (Nat × Option Nat) × List Nat × List Nat :=
  (p.tp.map (fun r => (r.est, r.gt.map (·.id))), p.fp.map (fun r => (r.est, r.gt.map (·.id))),
   p.tn.map (·.id), p.fn.map (·.id))

/-- the statement "the four lists do not depend on the frame the objects are expressed in" about a wiring -/
def FrameFree (w : Wiring) : Prop :=
  ∀ (f : Frame) (e : Pose), e.c * e.c + e.s * e.s = 1 → f.allEgo = true →
    (evaluateFrameWith w (f.toMap e)).map (fun o => obs o.pf) = (evaluateFrameWith w f).map (fun o => obs o.pf)

/-- `evaluate_frame` on the MAP rendering of a BASE_LINK frame under any ego pose keeps the renderings of the
same objects, raises the same exception if any, and produces the SAME pass/fail result (all six lists) -/
theorem evaluateFrame_toMap (f : Frame) (e : Pose) (he : e.c * e.c + e.s * e.s = 1) (hf : f.allEgo = true) :
    evaluateFrame (f.toMap e) = (evaluateFrame f).map (Out.toMap e) :=
  evaluateFrame_toMap' f e he hf

theorem critical_frame_free : FrameFree wiring := by
  intro f e he hf
  have h := evaluateFrame_toMap f e he hf
  unfold evaluateFrame at h
  rw [h]
  cases evaluateFrameWith wiring f <;> rfl

/-- the ego-relative position of the MAP rendering of a BASE_LINK object is the object's original position:
`critical_sound` on the rendering tests the very coordinates it tests on the original -/
theorem egoRel_toMap (e : Pose) (he : e.c * e.c + e.s * e.s = 1) (o : CObj) (p : Pos) :
    EgoRel (some [("map", e)]) (o.toMap e) p ↔ o.pos = some p := by
  unfold EgoRel
  constructor
  · rintro (⟨h, _⟩ | ⟨_, d, e', q, hd, he', hq, hp⟩)
    · exact absurd h (by simp [CObj.toMap])
    · cases hd
      have : e' = e := by
        have := poseOf_map e
        change poseOf [("map", e)] "map" = some e' at he'
        rw [this] at he'; exact (Option.some.inj he').symm
      subst this
      change o.pos.map (toMap e') = some q at hq
      cases hpos : o.pos with
      | none => rw [hpos] at hq; cases hq
      | some q0 =>
        rw [hpos] at hq
        cases hq
        rw [hp, toEgo_toMap e' he]
  · intro h
    refine Or.inr ⟨by simp [CObj.toMap], [("map", e)], e, toMap e p, rfl, poseOf_map e, ?_, (toEgo_toMap e he p).symm⟩
    show o.pos.map (toMap e) = _
    rw [h]; rfl

/-! ## decidable refutation of the three statements on a concrete frame (for the defective variants) -/

/-- `_is_target_object` returned `False` -/
def outB (P : Params) (o : Filter.Obj) : Bool :=
  match isTarget P o with
  | .ok false => true
  | _ => false

theorem not_criteria_of_outB {P : Params} {o : Filter.Obj} (h : outB P o = true) : ¬ Criteria P o := by
  unfold outB at h
  cases hx : isTarget P o with
  | error e => rw [hx] at h; cases h
  | ok b =>
    cases b with
    | true => rw [hx] at h; cases h
    | false => intro hc; have := (isTarget_ok_iff hx).2 hc; cases this

/-- some counted estimate / ground truth id belongs only to objects of the frame that `_is_target_object`
rejects with the frame's transforms -/
def badB (f : Frame) (p : PassFail.PassFail) : Bool :=
  (p.tp ++ p.fp).any (fun r => f.results.all (fun cr =>
    cr.est.id != r.est || outB (estParams (critP f)) (view f.transforms cr.est))) ||
  (p.tn ++ p.fn).any (fun g => (f.gts ++ gtsOfC f.results).all (fun cg =>
    cg.id != g.id || outB (gtParams (critP f)) (view f.transforms cg)))

theorem not_counted_of_badB {f : Frame} {p : PassFail.PassFail} (h : badB f p = true) :
    ¬ CountedInCritical f p := by
  rintro ⟨c1, c2⟩
  rcases Bool.or_eq_true_iff.1 h with h | h
  · obtain ⟨r, hr, hall⟩ := List.any_eq_true.1 h
    obtain ⟨cr, hcr, hid, hin, _⟩ := c1 r hr
    rcases Bool.or_eq_true_iff.1 (List.all_eq_true.1 hall cr hcr) with h' | h'
    · simp [hid] at h'
    · exact not_criteria_of_outB h' hin
  · obtain ⟨g, hg, hall⟩ := List.any_eq_true.1 h
    obtain ⟨cg, hcg, hid, hin⟩ := c2 g hg
    have hmem : cg ∈ f.gts ++ gtsOfC f.results := by
      rcases hcg with hcg | ⟨cr, hcr, hrg⟩
      · exact List.mem_append_left _ hcg
      · exact List.mem_append_right _ (List.mem_filterMap.2 ⟨cr, hcr, hrg⟩)
    rcases Bool.or_eq_true_iff.1 (List.all_eq_true.1 hall cg hmem) with h' | h'
    · simp [hid] at h'
    · exact not_criteria_of_outB h' hin

def unsoundB (w : Wiring) (f : Frame) : Bool :=
  match evaluateFrameWith w f with
  | .ok o => badB f o.pf
  | .error _ => false

theorem not_sound_of_unsoundB {w : Wiring} {f : Frame} (h : unsoundB w f = true) : ¬ CriticalSound w := by
  intro hs
  unfold unsoundB at h
  cases hx : evaluateFrameWith w f with
  | error e => rw [hx] at h; cases h
  | ok o => rw [hx] at h; exact not_counted_of_badB h (hs f o hx)

def sitesAgreeB (w : Wiring) (f : Frame) : Bool :=
  f.results.all (fun r =>
    match r.gt with
    | none => true
    | some g => !estFlag (w.resSite f) r || (gtFlagRes (w.resSite f) g == gtFlagList (w.gtSite f) g))

theorem sitesAgreeB_of {w : Wiring} {f : Frame} (h : SitesAgree w f) : sitesAgreeB w f = true := by
  unfold sitesAgreeB
  rw [List.all_eq_true]
  intro r hr
  cases hg : r.gt with
  | none => rfl
  | some g =>
    cases he : estFlag (w.resSite f) r with
    | false => rfl
    | true => simp [h r hr g hg he]

/-! ## non-vacuity and the defective variants: a concrete frame

Critical filter: cars within |x| < 10, |y| < 10.  Ego pose: yaw with (cos, sin) = (3/5, 4/5), ego at (100, 50).
Ground truths A (5,5), B (20,0), C (3,-2); estimates 1 (5, 11/2) paired with A (TP), 2 (20, 1/2) paired with B
(both outside), 3 (12, 0) unpaired outside, 4 (1, 1) unpaired inside (FP). -/
section Example

def exCrit : Params :=
  { isGt := false, targets := some ["AutowareLabel.CAR"], ignoreAttrs := none, maxX := some [10], maxY := some [10],
    maxDist := none, minDist := none, conf := none, minPts := none, uuids := none, hasTransforms := false }

def exPose : Pose := ⟨3/5, 4/5, 100, 50⟩

def exObj (i : Nat) (x y : Rat) : CObj :=
  { id := i, label := "AutowareLabel.CAR", name := "car", attributes := [], score := 1, pcNum := some 5,
    uuid := none, is2d := false, frame := "base_link", pos := some ⟨x, y⟩, eqKey := i }

def gA := exObj 101 5 5
def gB := exObj 102 20 0
def gC := exObj 103 3 (-2)

def exEgo : Frame :=
  { results := [⟨exObj 1 5 (11/2), some gA, true, some 2, some (1/2)⟩, ⟨exObj 2 20 (1/2), some gB, true, some 2, some (1/2)⟩,
                ⟨exObj 3 12 0, none, false, none, none⟩, ⟨exObj 4 1 1, none, false, none, none⟩],
    gts := [gA, gB, gC], transforms := some [("map", exPose)], critical := exCrit }

def exMap : Frame := exEgo.toMap exPose

example : exPose.c * exPose.c + exPose.s * exPose.s = 1 := by decide +kernel
example : exEgo.allEgo = true := by decide +kernel
example : FrameWF exEgo := by unfold FrameWF gtsOfC; decide +kernel
example : FrameWF exMap := by unfold FrameWF gtsOfC; decide +kernel
example : GtConfOK exEgo := fun _ _ _ _ => Or.inr (fun l hl => by cases hl)
example : GtConfOK exMap := fun _ _ _ _ => Or.inr (fun l hl => by cases hl)
/-- the map rendering really is in the map: ground truth A sits at (99, 57) -/
example : (exMap.gts.map (·.pos)) = [some ⟨99, 57⟩, some ⟨112, 66⟩, some ⟨517/5, 256/5⟩] := by decide +kernel

/-- the code, either rendering: TP = {1 ↔ A}, FP = {4}, FN = {C}; B and the estimates 2, 3 are not counted -/
example : (evaluateFrame exEgo).map (fun o => obs o.pf) = .ok ([(1, some 101)], [(4, none)], [], [103]) := by
  decide +kernel
example : (evaluateFrame exMap).map (fun o => obs o.pf) = .ok ([(1, some 101)], [(4, none)], [], [103]) := by
  decide +kernel

/-- F2 on the map rendering: `filter_object_results` sees `transforms=None`, ranges are not tested: estimate 2
is a TP on ground truth B although both are outside, estimate 3 an FP … -/
example : (evaluateFrameWith wiringF2 exMap).map (fun o => obs o.pf) =
    .ok ([(1, some 101), (2, some 102)], [(3, none), (4, none)], [], [103]) := by decide +kernel

/-- … so **F2 violates `CriticalSound`**: estimate 3, at ego-relative (12, 0), is counted -/
theorem f2_not_critical_sound : ¬ CriticalSound wiringF2 :=
  not_sound_of_unsoundB (f := exMap) (by decide +kernel)

/-- **F2 violates "both call sites apply the same predicate"**: on ground truth B of result 2 the result side
says kept, the list side dropped -/
theorem f2_sites_disagree : ¬ SitesAgree wiringF2 exMap :=
  fun h => absurd (sitesAgreeB_of h) (by decide +kernel)

/-- **F2 violates conservation**: 2 ordinary critical ground truths (A, C), but TP = 2 and FN = 1 -/
theorem f2_breaks_conservation :
    (evaluateFrameWith wiringF2 exMap).map
      (fun o => ((o.pf.gts.filter (fun g => !g.isFP)).length, o.pf.tp.length, o.pf.fn.length)) = .ok (2, 2, 1) := by
  decide +kernel

/-- **F2 violates frame independence**: the BASE_LINK rendering of the same scene gives TP = {1}, FP = {4} -/
theorem f2_not_frame_free : ¬ FrameFree wiringF2 :=
  fun h => absurd (h exEgo exPose (by decide +kernel) (by decide +kernel)) (by decide +kernel)

/-- the mirror-image typo (at the `filter_objects` call): ground truth B, at ego-relative (20, 0), is an FN -/
example : (evaluateFrameWith wiringF2gt exMap).map (fun o => obs o.pf) =
    .ok ([(1, some 101)], [(4, none)], [], [102, 103]) := by decide +kernel
theorem f2gt_not_critical_sound : ¬ CriticalSound wiringF2gt :=
  not_sound_of_unsoundB (f := exMap) (by decide +kernel)
theorem f2gt_not_frame_free : ¬ FrameFree wiringF2gt :=
  fun h => absurd (h exEgo exPose (by decide +kernel) (by decide +kernel)) (by decide +kernel)

/-- the checker is not trigger-happy: it accepts the code on both renderings -/
example : unsoundB wiring exMap = false ∧ unsoundB wiring exEgo = false := by decide +kernel
example : sitesAgreeB wiring exMap = true := by decide +kernel

/-! ### the hypothesis `GtConfOK` is needed (and is where the two call sites of the CODE differ)

Critical confidence threshold 1/2; the estimate has confidence 3/4, its ground truth confidence 1/4 (a loaded
ground truth has 1.0).  `filter_object_results` does not test the ground truth's confidence, `filter_objects(is_gt=True,
**filtering_params)` does: the result survives with its ground truth, the ground truth is dropped from the list. -/

def exConf : Frame :=
  { results := [⟨{ exObj 1 5 5 with score := 3/4 }, some { gA with score := 1/4 }, true, none, none⟩],
    gts := [{ gA with score := 1/4 }], transforms := none,
    critical := { exCrit with conf := some [1/2] } }

theorem gt_conf_needed : ¬ SitesAgree wiring exConf :=
  fun h => absurd (sitesAgreeB_of h) (by decide +kernel)

/-- … and conservation fails: one TP, no critical ground truth -/
theorem gt_conf_needed_conservation :
    (evaluateFrame exConf).map (fun o => (o.pf.tp.map (·.est), o.pf.fn.map (·.id), o.pf.gts.map (·.id))) =
      .ok ([1], [], []) := by
  decide +kernel

end Example

end PEval.C03
