import PEval.Lemmas.GeometryClipArea
/-!
# C06 — matching scores are geometrically exact, bounded and symmetric

Model: `PEval.Model.Geometry` (distances SQUARED, rotations as rational unit complex numbers).
The intersection area of two rotated footprints is shapely's — an EXTERNAL CONTRACT: every IoU
theorem below is stated for ANY value `I` meeting the contract `InterOK I A1 A2`
(`0 ≤ I ≤ min(A1, A2)`), plus the named extra clause where one is used (symmetry, `I(P,P) = A(P)`,
`I = 0` for disjoint interiors, invariance under a common rigid motion).  The contract is inhabited:
`interOK_rect` proves it for the closed form on axis-aligned rectangles (all ROIs), and the check
cross-validates shapely against the exact clipper `clipConvex` on every run.

Not proved here (validated by the correspondence run only): that shapely's area / `clipConvex`
computes the true area of the intersection of two ROTATED rectangles in general position.  Proved for
the exact reference clipper `interArea` (last section): non-negativity, invariance under a common
rigid motion, `I(P,P) = A(P)` for every rotated box, `I = A(inner)` for nested boxes.
-/
namespace PEval.C06
open PEval.Geometry PEval

/-! ## center distance (3-D objects): Euclidean, symmetric, rigid-motion invariant -/

/-- the (squared) center distance is the squared Euclidean distance of the two centers -/
theorem centerDist2_eq (a b : Box) :
    centerDist2 a b =
      (a.center.x - b.center.x) ^ 2 + (a.center.y - b.center.y) ^ 2 + (a.center.z - b.center.z) ^ 2 := by
  unfold centerDist2; ring

theorem centerDist2_symm (a b : Box) : centerDist2 a b = centerDist2 b a := by
  unfold centerDist2; ring

theorem centerDist2_nonneg (a b : Box) : 0 ≤ centerDist2 a b := by
  rw [centerDist2_eq]; positivity

theorem centerDist2_self (a : Box) : centerDist2 a a = 0 := by unfold centerDist2; ring

/-- unchanged when both boxes undergo the same rotation about the ego origin AND the same translation -/
theorem centerDist2_rigid_invariant (m : Motion) (hm : m.rot.IsUnit) (a b : Box) :
    centerDist2 (a.move m) (b.move m) = centerDist2 a b := by
  unfold Rot2.IsUnit at hm
  simp only [centerDist2, Box.move, Motion.apply3, Motion.apply2, Rot2.apply, V2.add]
  linear_combination
    ((a.center.x - b.center.x) * (a.center.x - b.center.x) + (a.center.y - b.center.y) * (a.center.y - b.center.y)) * hm

/-! ## 2-D objects: distance of the ROI centers (`offset + size // 2`) -/

theorem roiCenterDist2_eq (a b : Roi) :
    roiCenterDist2 a b =
      ((a.x + a.w / 2) - (b.x + b.w / 2)) ^ 2 + ((a.y + a.h / 2) - (b.y + b.h / 2)) ^ 2 := by
  simp only [roiCenterDist2, Roi.center]; ring

theorem roiCenterDist2_symm (a b : Roi) : roiCenterDist2 a b = roiCenterDist2 b a := by
  simp only [roiCenterDist2]; ring

theorem roiCenterDist2_shift_invariant (dx dy : Int) (a b : Roi) :
    roiCenterDist2 (a.shift dx dy) (b.shift dx dy) = roiCenterDist2 a b := by
  simp only [roiCenterDist2, Roi.center, Roi.shift]; ring

/-! ## the area contract is inhabited: axis-aligned rectangles -/

/-- the closed-form intersection area of two axis-aligned rectangles of positive size meets the contract -/
theorem interOK_rect (r1 r2 : Rect) (h1 : r1.PosSize) (h2 : r2.PosSize) :
    InterOK (rectInter r1 r2) r1.area r2.area := rectInter_ok h1 h2

theorem rectInter_symm (r1 r2 : Rect) : rectInter r1 r2 = rectInter r2 r1 := rectInter_comm r1 r2

theorem rectInter_self (r : Rect) (h : r.PosSize) : rectInter r r = r.area := rectInter_self_eq h

theorem rectInter_disjoint (r1 r2 : Rect) (h : r1.Disjoint r2) : rectInter r1 r2 = 0 := rectInter_disjoint_eq h

/-! ## ROI IoU: all pairs of integer ROIs of positive size -/

theorem roiIoU_bounds (a b : Roi) (ha : a.PosSize) (hb : b.PosSize) : 0 ≤ roiIoU a b ∧ roiIoU a b ≤ 1 := by
  rw [roiIoU_eq_rect]
  have hok := rectInter_ok (roi_posSize ha) (roi_posSize hb)
  have hpos : 0 < a.toRect.area := mul_pos (roi_posSize ha).1 (roi_posSize ha).2
  exact ⟨iou_nonneg hok hpos, iou_le_one hok hpos⟩

theorem roiIoU_symm (a b : Roi) : roiIoU a b = roiIoU b a := by
  rw [roiIoU_eq_rect, roiIoU_eq_rect]; unfold rectIoU; rw [rectInter_comm, iou_comm]

theorem roiIoU_self (a : Roi) (ha : a.PosSize) : roiIoU a a = 1 := by
  rw [roiIoU_eq_rect]; unfold rectIoU
  rw [rectInter_self_eq (roi_posSize ha)]
  exact iou_self (mul_pos (roi_posSize ha).1 (roi_posSize ha).2)

theorem roiIoU_disjoint (a b : Roi) (hd : a.Disjoint b) : roiIoU a b = 0 := by
  rw [roiIoU_eq_rect]; unfold rectIoU
  rw [rectInter_disjoint_eq (roi_disjoint hd)]; exact iou_zero _ _

theorem roiIoU_shift_invariant (dx dy : Int) (a b : Roi) :
    roiIoU (a.shift dx dy) (b.shift dx dy) = roiIoU a b := by
  unfold roiIoU; rw [roiInter_shift]; rfl

/-- for ROIs of positive size the code's division never raises -/
theorem roiIoUCode_ok (a b : Roi) (ha : a.PosSize) (hb : b.PosSize) : roiIoUCode a b = .ok (roiIoU a b) := by
  unfold roiIoUCode roiIoU roiInter
  rw [roi_area_cast, roi_area_cast]
  exact iouCode_eq (rectInter_ok (roi_posSize ha) (roi_posSize hb)) (mul_pos (roi_posSize ha).1 (roi_posSize ha).2)

/-! ## IoU for ANY intersection value meeting the contract -/

theorem iou_bounds {I A1 A2 : Rat} (h : InterOK I A1 A2) (h1 : 0 < A1) :
    0 ≤ iou I A1 A2 ∧ iou I A1 A2 ≤ 1 := ⟨iou_nonneg h h1, iou_le_one h h1⟩

/-- symmetric in its arguments, given a symmetric intersection function -/
theorem iou_symm {α : Type} (inter : α → α → Rat) (area : α → Rat) (hs : ∀ p q, inter p q = inter q p)
    (p q : α) : iou (inter p q) (area p) (area q) = iou (inter q p) (area q) (area p) := by
  rw [hs p q, iou_comm]

/-- 1 for identical boxes, given `I(P,P) = A(P)` -/
theorem iou_self_eq_one {α : Type} (inter : α → α → Rat) (area : α → Rat) (hself : ∀ p, inter p p = area p)
    (p : α) (hp : 0 < area p) : iou (inter p p) (area p) (area p) = 1 := by
  rw [hself p]; exact iou_self hp

/-- 0 for disjoint boxes, given `I = 0` for disjoint interiors -/
theorem iou_disjoint_eq_zero (A1 A2 : Rat) : iou 0 A1 A2 = 0 := iou_zero A1 A2

/-- under the contract and a positive area the code's division never raises -/
theorem iouCode_ok {I A1 A2 : Rat} (h : InterOK I A1 A2) (h1 : 0 < A1) : iouCode I A1 A2 = .ok (iou I A1 A2) :=
  iouCode_eq h h1

/-! ## height intersection and 3-D IoU -/

theorem heightInter_bounds (z1 h1 z2 h2 : Rat) (p1 : 0 < h1) (p2 : 0 < h2) :
    InterOK (heightInter z1 h1 z2 h2) h1 h2 := heightInter_ok (le_of_lt p1) (le_of_lt p2)

theorem heightInter_symm (z1 h1 z2 h2 : Rat) : heightInter z1 h1 z2 h2 = heightInter z2 h2 z1 h1 := by
  rw [heightInter_eq_overlap, heightInter_eq_overlap, overlap_symm]

theorem heightInter_self (z h : Rat) (p : 0 < h) : heightInter z h z h = h := by
  rw [heightInter_eq_overlap, overlap_self (le_of_lt p)]

/-- boxes whose height ranges are disjoint (or touch) have height intersection 0 -/
theorem heightInter_disjoint (z1 h1 z2 h2 : Rat) (hd : z1 + h1 / 2 ≤ z2 - h2 / 2 ∨ z2 + h2 / 2 ≤ z1 - h1 / 2) :
    heightInter z1 h1 z2 h2 = 0 := by
  rw [heightInter_eq_overlap]
  apply overlap_disjoint
  rcases hd with h | h
  · left; linarith
  · right; linarith

/-- 3-D IoU never exceeds BEV IoU -/
theorem iou3d_le_iouBev {I A1 A2 : Rat} (z1 H1 z2 H2 : Rat) (hI : InterOK I A1 A2)
    (hA1 : 0 < A1) (hA2 : 0 < A2) (hH1 : 0 < H1) (hH2 : 0 < H2) :
    iou3d I A1 A2 H1 H2 (heightInter z1 H1 z2 H2) ≤ iou I A1 A2 :=
  iou3d_le_iou hI (heightInter_ok (le_of_lt hH1) (le_of_lt hH2)) hA1 hA2 hH2

theorem iou3d_bounds {I A1 A2 : Rat} (z1 H1 z2 H2 : Rat) (hI : InterOK I A1 A2)
    (hA1 : 0 < A1) (hH1 : 0 < H1) (hH2 : 0 < H2) :
    0 ≤ iou3d I A1 A2 H1 H2 (heightInter z1 H1 z2 H2) ∧ iou3d I A1 A2 H1 H2 (heightInter z1 H1 z2 H2) ≤ 1 := by
  have hv := InterOK.mul hI (heightInter_ok (z1 := z1) (z2 := z2) (le_of_lt hH1) (le_of_lt hH2))
  exact ⟨iou_nonneg hv (mul_pos hA1 hH1), iou_le_one hv (mul_pos hA1 hH1)⟩

theorem iou3d_symm (I A1 A2 z1 H1 z2 H2 : Rat) :
    iou3d I A1 A2 H1 H2 (heightInter z1 H1 z2 H2) = iou3d I A2 A1 H2 H1 (heightInter z2 H2 z1 H1) := by
  unfold iou3d; rw [heightInter_symm, iou_comm]

theorem iou3d_self_eq_one (A z H : Rat) (hA : 0 < A) (hH : 0 < H) :
    iou3d A A A H H (heightInter z H z H) = 1 := by
  unfold iou3d; rw [heightInter_self z H hH]; exact iou_self (mul_pos hA hH)

/-- 0 when the footprints are disjoint (`I = 0`) or the height ranges are disjoint -/
theorem iou3d_disjoint_eq_zero (I A1 A2 z1 H1 z2 H2 : Rat) :
    iou3d 0 A1 A2 H1 H2 (heightInter z1 H1 z2 H2) = 0 ∧
    ((z1 + H1 / 2 ≤ z2 - H2 / 2 ∨ z2 + H2 / 2 ≤ z1 - H1 / 2) →
      iou3d I A1 A2 H1 H2 (heightInter z1 H1 z2 H2) = 0) := by
  constructor
  · unfold iou3d; rw [zero_mul]; exact iou_zero _ _
  · intro hd; unfold iou3d; rw [heightInter_disjoint _ _ _ _ hd, mul_zero]; exact iou_zero _ _

/-! ## boxes: area of the footprint, invariance of the IoUs under a common rigid motion -/

/-- `get_area_bev` (shoelace over `Shape.footprint`) is `w · l` -/
theorem areaBev_eq (b : Box) (hb : b.PosSize) : areaBev b = b.w * b.l := areaBev_eq_mul hb.1 hb.2.1

theorem areaBev_move (m : Motion) (b : Box) : areaBev (b.move m) = areaBev b := rfl

/-- BEV and 3-D IoU are unchanged by a common rotation about the ego + translation, given that the
intersection area is (contract: rigid-motion invariance, `I' = I`) -/
theorem boxIou_move_invariant (m : Motion) (a b : Box) (I I' : Rat) (hI : I' = I) :
    boxIou2d I' (a.move m) (b.move m) = boxIou2d I a b ∧ boxIou3d I' (a.move m) (b.move m) = boxIou3d I a b := by
  subst hI
  refine ⟨rfl, ?_⟩
  unfold boxIou3d boxHeightInter
  rw [areaBev_move, areaBev_move]
  simp only [Box.move, Motion.apply3, heightInter_shift]

/-! ## plane distance -/

/-- corner by corner, the footprint of the moved box is the moved footprint -/
theorem footprint_move (m : Motion) (b : Box) : footprint (b.move m) = (footprint b).map m.apply2 :=
  footprint_move_eq m b

theorem planeDist2_nonneg (e g : Box) : 0 ≤ planeDist2 e g := by
  unfold planeDist2; rw [planeDist2Of_eq]
  have h1 := dist2_nonneg ((footprint e).getD (nearestTwo (footprint g)).1 V2.zero)
    ((footprint g).getD (nearestTwo (footprint g)).1 V2.zero)
  have h2 := dist2_nonneg ((footprint e).getD (nearestTwo (footprint g)).2 V2.zero)
    ((footprint g).getD (nearestTwo (footprint g)).2 V2.zero)
  linarith

theorem planeDist2_self_eq_zero (b : Box) : planeDist2 b b = 0 := by
  unfold planeDist2; rw [planeDist2Of_eq, dist2_self, dist2_self]; norm_num

/-- unchanged when both boxes are rotated together about the ego origin: the selected corners are
determined by their distances from the origin, which the rotation preserves -/
theorem planeDist2_rot_about_ego_invariant (r : Rot2) (hr : r.IsUnit) (e g : Box) :
    planeDist2 (e.move (Motion.rotation r)) (g.move (Motion.rotation r)) = planeDist2 e g := by
  unfold planeDist2
  rw [footprint_move_eq, footprint_move_eq]
  have : (Motion.rotation r).apply2 = r.apply := funext (rotation_apply2 r)
  rw [this]
  exact planeDist2Of_map_rot hr _ _

/-- the plane distance squared is the mean of the squared distances between corresponding footprint
corners `i`, `j` of the two boxes, where `i ≠ j` are the two ground-truth corners nearest to the ego:
every other ground-truth corner is at least as far from the origin as both -/
theorem planeDist2_eq_mean_sq_nearest_side (e g : Box) :
    ∃ i j : Nat, i < 4 ∧ j < 4 ∧ i ≠ j ∧
      (∀ k, k < 4 → k ≠ i → k ≠ j →
        ((footprint g).getD i V2.zero).norm2 ≤ ((footprint g).getD k V2.zero).norm2 ∧
        ((footprint g).getD j V2.zero).norm2 ≤ ((footprint g).getD k V2.zero).norm2) ∧
      planeDist2 e g =
        (dist2 ((footprint e).getD i V2.zero) ((footprint g).getD i V2.zero)
          + dist2 ((footprint e).getD j V2.zero) ((footprint g).getD j V2.zero)) / 2 := by
  have hlen : ((footprint g).map V2.norm2).length = 4 := by simp [footprint_length]
  have h := argsort_first_two ((footprint g).map V2.norm2) (by omega)
  simp only [hlen] at h
  obtain ⟨hi, hj, hij, hle, hk⟩ := h
  have key : ∀ n, ((footprint g).map V2.norm2).getD n 0 = ((footprint g).getD n V2.zero).norm2 := by
    intro n
    have : (0 : Rat) = V2.norm2 V2.zero := by simp [V2.norm2, V2.zero]
    rw [this]; exact getD_map V2.norm2 _ _ _
  refine ⟨(nearestTwo (footprint g)).1, (nearestTwo (footprint g)).2, hi, hj, hij, ?_, ?_⟩
  · intro k hk4 hki hkj
    have h2 := hk k hk4 hki hkj
    rw [key, key] at h2
    rw [key, key] at hle
    exact ⟨le_trans hle h2, h2⟩
  · unfold planeDist2; exact planeDist2Of_eq _ _

/-- the two ground-truth corners selected by the plane distance are adjacent corners of the footprint
(a side of the box, never a diagonal), for every box, ties included -/
theorem planeDist2_nearest_is_side (g : Box) :
    nearestTwo (footprint g) ∈ [(0, 1), (1, 0), (1, 2), (2, 1), (2, 3), (3, 2), (3, 0), (0, 3)] :=
  nearestTwo_footprint_adjacent g

/-! ## extension: contract clauses PROVED for the exact reference clipper `interArea` -/

theorem clip_interArea_nonneg (p q : List V2) : 0 ≤ interArea p q := interArea_nonneg p q

/-- invariance of the exact intersection area under a common rotation about the ego + translation -/
theorem interArea_rigid_invariant (m : Motion) (hm : m.rot.IsUnit) (e g : Box) :
    interArea (footprint (e.move m)) (footprint (g.move m)) = interArea (footprint e) (footprint g) := by
  rw [footprint_move_eq, footprint_move_eq, interArea_motion hm]

/-- `I(P, P) = A(P)` for every rotated box of positive size -/
theorem interArea_footprint_self (b : Box) (hb : b.PosSize) (hr : b.rot.IsUnit) :
    interArea (footprint b) (footprint b) = areaBev b := interArea_footprint_self_eq hb hr

/-- nested boxes (every corner of `e` in every closed half-plane of `g`): `I = A(e)` -/
theorem interArea_footprint_nested (e g : Box) (he : e.PosSize) (hg : g.PosSize) (hre : e.rot.IsUnit)
    (hrg : g.rot.IsUnit) (h : InsideOf (footprint e) (footprint g)) :
    interArea (footprint e) (footprint g) = areaBev e := interArea_footprint_inside he hg hre hrg h

/-- with the exact clipper as the intersection: BEV and 3-D IoU of a box with itself are 1 … -/
theorem clipIou_self_eq_one (b : Box) (hb : b.PosSize) (hr : b.rot.IsUnit) :
    boxIou2d (interArea (footprint b) (footprint b)) b b = 1 ∧
    boxIou3d (interArea (footprint b) (footprint b)) b b = 1 := by
  have hA : 0 < areaBev b := by rw [areaBev_eq b hb]; exact mul_pos hb.1 hb.2.1
  rw [interArea_footprint_self b hb hr]
  exact ⟨iou_self hA, iou3d_self_eq_one _ _ _ hA hb.2.2⟩

/-- … and both IoUs are unchanged by a common rigid motion (no contract hypothesis left) -/
theorem clipIou_rigid_invariant (m : Motion) (hm : m.rot.IsUnit) (e g : Box) :
    boxIou2d (interArea (footprint (e.move m)) (footprint (g.move m))) (e.move m) (g.move m)
        = boxIou2d (interArea (footprint e) (footprint g)) e g ∧
    boxIou3d (interArea (footprint (e.move m)) (footprint (g.move m))) (e.move m) (g.move m)
        = boxIou3d (interArea (footprint e) (footprint g)) e g :=
  boxIou_move_invariant m e g _ _ (interArea_rigid_invariant m hm e g)

/-! ## the hypotheses are satisfiable by concrete non-trivial instances -/

/-- a rational rotation (3-4-5) is a unit -/
example : (⟨3 / 5, 4 / 5⟩ : Rot2).IsUnit := by unfold Rot2.IsUnit; norm_num

/-- two overlapping ROIs of positive size: IoU = 1/7, strictly between 0 and 1 -/
example : (⟨0, 0, 2, 2⟩ : Roi).PosSize ∧ (⟨1, 1, 2, 2⟩ : Roi).PosSize ∧
    roiIoU ⟨0, 0, 2, 2⟩ ⟨1, 1, 2, 2⟩ = 1 / 7 := by
  refine ⟨⟨by decide, by decide⟩, ⟨by decide, by decide⟩, ?_⟩
  simp [roiIoU, roiInter, rectInter, overlap, Roi.toRect, Roi.area, iou, rmax, rmin]
  norm_num

/-- the contract is met with `0 < I < min(A1, A2)` by a concrete pair of rectangles -/
example : InterOK (rectInter ⟨0, 0, 2, 2⟩ ⟨1, 1, 2, 2⟩) (Rect.area ⟨0, 0, 2, 2⟩) (Rect.area ⟨1, 1, 2, 2⟩) :=
  interOK_rect _ _ (by constructor <;> norm_num) (by constructor <;> norm_num)

/-- a concrete contract instance with strict inequalities (non-vacuity of the 3-D statements) -/
example : InterOK (1 : Rat) 4 6 ∧ (0 : Rat) < 4 ∧ iou3d 1 4 6 2 3 (heightInter 0 2 1 3) ≤ iou 1 4 6 :=
  have h : InterOK (1 : Rat) 4 6 := ⟨by norm_num, by norm_num, by norm_num⟩
  ⟨h, by norm_num, iou3d_le_iouBev 0 2 1 3 h (by norm_num) (by norm_num) (by norm_num) (by norm_num)⟩

/-! ## strengthening (audit Part 1 item 4): the area contract for ROTATED boxes

What is PROVED for the exact clipper `interArea` on two rotated boxes (no contract hypothesis):
`0 ≤ I`, `I ≤ A(subject)` (`interOK_clip_partial`; more generally `clip_interArea_le_subject` for EVERY
subject in convex position and ANY clip polygon), `I(P,P) = A(P)`, nested boxes, rigid invariance (above),
and `I = 0` for two separated boxes whichever box owns the separating edge (`clip_interArea_separated`,
touching allowed).

What is NOT proved: `interArea P Q = interArea Q P` (the two clipping orders produce different vertex
lists of the same region) and hence `I ≤ A(clip)`.  Full statement, kept as a comment:

    theorem interOK_clip (e g : Box) (he : e.PosSize) (hg : g.PosSize) (hre : e.rot.IsUnit) (hrg : g.rot.IsUnit) :
        InterOK (interArea (footprint e) (footprint g)) (areaBev e) (areaBev g)

It is proved GIVEN the single equation `interArea (footprint e) (footprint g) = interArea (footprint g)
(footprint e)` for that pair (`interOK_clip_of_symm`); the check evaluates both sides exactly on every
generated pair (`inter` / `inter_swapped` of the driver, compared in `harness/props/c06.py`).  The
symmetrised function `interSym P Q = min (interArea P Q) (interArea Q P)` — equal to `interArea P Q`
whenever that equation holds (`interSym_eq_clip_of_symm`) — meets the WHOLE contract by theorem
(`interOK_sym`, `interSym_symm`, …), so every IoU clause (bounds, symmetry, 1 for identical, 0 for
separated, 3-D ≤ BEV, rigid invariance, no ZeroDivisionError) is a theorem about a concrete intersection
function of two rotated boxes (`symIou_*`). -/

/-- the exact intersection area never exceeds the area of the subject, for every subject in convex
position (every triple of vertices in list order counter-clockwise or collinear) and any clip polygon -/
theorem clip_interArea_le_subject (P Q : List V2) (hP : Cvx P) : interArea P Q ≤ polyArea P :=
  interArea_le_subject Q hP

/-- the contract fields PROVED for the exact clipper on two rotated boxes: `0 ≤ I ≤ A(e)` -/
theorem interOK_clip_partial (e g : Box) (he : e.PosSize) (hre : e.rot.IsUnit) :
    0 ≤ interArea (footprint e) (footprint g) ∧ interArea (footprint e) (footprint g) ≤ areaBev e :=
  ⟨interArea_nonneg _ _, interArea_footprint_le_subject e g (le_of_lt he.1) (le_of_lt he.2.1) hre⟩

/-- the whole contract for the exact clipper on a pair on which it is symmetric (one exact equation,
evaluated by the check on every generated pair) -/
theorem interOK_clip_of_symm (e g : Box) (he : e.PosSize) (hg : g.PosSize) (hre : e.rot.IsUnit)
    (hrg : g.rot.IsUnit)
    (hs : interArea (footprint e) (footprint g) = interArea (footprint g) (footprint e)) :
    InterOK (interArea (footprint e) (footprint g)) (areaBev e) (areaBev g) :=
  ⟨interArea_nonneg _ _, (interOK_clip_partial e g he hre).2, by rw [hs]; exact (interOK_clip_partial g e hg hrg).2⟩

/-- `I = 0` for two separated rotated boxes (a separating edge of EITHER footprint, touching allowed) -/
theorem clip_interArea_separated (e g : Box) (he : e.PosSize) (hg : g.PosSize) (hre : e.rot.IsUnit)
    (hrg : g.rot.IsUnit) (h : Separated e g) : interArea (footprint e) (footprint g) = 0 :=
  interArea_footprint_separated he hg hre hrg h

/-- with the exact clipper: BEV and 3-D IoU of two separated rotated boxes are 0 (replaces the
content-free `iou_disjoint_eq_zero`) -/
theorem clipIou_separated_eq_zero (e g : Box) (he : e.PosSize) (hg : g.PosSize) (hre : e.rot.IsUnit)
    (hrg : g.rot.IsUnit) (h : Separated e g) :
    boxIou2d (interArea (footprint e) (footprint g)) e g = 0 ∧
    boxIou3d (interArea (footprint e) (footprint g)) e g = 0 := by
  rw [clip_interArea_separated e g he hg hre hrg h]
  refine ⟨iou_zero _ _, ?_⟩
  unfold boxIou3d iou3d; rw [zero_mul]; exact iou_zero _ _

/-- with the exact clipper, on a pair on which it is symmetric: both IoUs lie in [0,1], 3-D ≤ BEV, the
code's divisions do not raise -/
theorem clipIou_bounds_of_symm (e g : Box) (he : e.PosSize) (hg : g.PosSize) (hre : e.rot.IsUnit)
    (hrg : g.rot.IsUnit)
    (hs : interArea (footprint e) (footprint g) = interArea (footprint g) (footprint e)) :
    (0 ≤ boxIou2d (interArea (footprint e) (footprint g)) e g ∧
      boxIou2d (interArea (footprint e) (footprint g)) e g ≤ 1) ∧
    (0 ≤ boxIou3d (interArea (footprint e) (footprint g)) e g ∧
      boxIou3d (interArea (footprint e) (footprint g)) e g ≤ 1) ∧
    boxIou3d (interArea (footprint e) (footprint g)) e g ≤ boxIou2d (interArea (footprint e) (footprint g)) e g := by
  have hok := interOK_clip_of_symm e g he hg hre hrg hs
  have hA : 0 < areaBev e := by rw [areaBev_eq e he]; exact mul_pos he.1 he.2.1
  have hB : 0 < areaBev g := by rw [areaBev_eq g hg]; exact mul_pos hg.1 hg.2.1
  exact ⟨iou_bounds hok hA, iou3d_bounds _ _ _ _ hok hA he.2.2 hg.2.2,
    iou3d_le_iouBev _ _ _ _ hok hA hB he.2.2 hg.2.2⟩

/-! ### the symmetrised exact intersection area: the whole contract, by theorem -/

theorem interOK_sym (e g : Box) (he : e.PosSize) (hg : g.PosSize) (hre : e.rot.IsUnit) (hrg : g.rot.IsUnit) :
    InterOK (interSym (footprint e) (footprint g)) (areaBev e) (areaBev g) := by
  refine ⟨interSym_nonneg _ _, ?_, ?_⟩
  · have := interSym_le_left (footprint g) (cvx_footprint (le_of_lt he.1) (le_of_lt he.2.1) hre)
    rwa [polyArea_footprint hre] at this
  · have := interSym_le_right (footprint e) (cvx_footprint (le_of_lt hg.1) (le_of_lt hg.2.1) hrg)
    rwa [polyArea_footprint hrg] at this

theorem interSym_symm (e g : Box) : interSym (footprint e) (footprint g) = interSym (footprint g) (footprint e) :=
  interSym_comm _ _

/-- on every pair on which the clipper is symmetric the symmetrised value is the clipper's value -/
theorem interSym_eq_clip_of_symm (e g : Box)
    (hs : interArea (footprint e) (footprint g) = interArea (footprint g) (footprint e)) :
    interSym (footprint e) (footprint g) = interArea (footprint e) (footprint g) := interSym_eq_of_symm hs

theorem interSym_footprint_self (b : Box) (hb : b.PosSize) (hr : b.rot.IsUnit) :
    interSym (footprint b) (footprint b) = areaBev b := by
  rw [interSym_eq_of_symm rfl]; exact interArea_footprint_self b hb hr

theorem interSym_rigid_invariant (m : Motion) (hm : m.rot.IsUnit) (e g : Box) :
    interSym (footprint (e.move m)) (footprint (g.move m)) = interSym (footprint e) (footprint g) := by
  rw [footprint_move_eq, footprint_move_eq, interSym_motion hm]

theorem interSym_separated (e g : Box) (he : e.PosSize) (hg : g.PosSize) (hre : e.rot.IsUnit)
    (hrg : g.rot.IsUnit) (h : Separated e g) : interSym (footprint e) (footprint g) = 0 :=
  interSym_eq_zero_of_left (clip_interArea_separated e g he hg hre hrg h)

/-- BEV IoU of two rotated boxes (symmetrised exact intersection): in [0,1] -/
theorem symIou_bounds (e g : Box) (he : e.PosSize) (hg : g.PosSize) (hre : e.rot.IsUnit) (hrg : g.rot.IsUnit) :
    0 ≤ boxIou2d (interSym (footprint e) (footprint g)) e g ∧
      boxIou2d (interSym (footprint e) (footprint g)) e g ≤ 1 := by
  have hA : 0 < areaBev e := by rw [areaBev_eq e he]; exact mul_pos he.1 he.2.1
  exact iou_bounds (interOK_sym e g he hg hre hrg) hA

/-- 3-D IoU of two rotated boxes: in [0,1], and never above the BEV IoU -/
theorem symIou3d_bounds (e g : Box) (he : e.PosSize) (hg : g.PosSize) (hre : e.rot.IsUnit) (hrg : g.rot.IsUnit) :
    (0 ≤ boxIou3d (interSym (footprint e) (footprint g)) e g ∧
      boxIou3d (interSym (footprint e) (footprint g)) e g ≤ 1) ∧
    boxIou3d (interSym (footprint e) (footprint g)) e g ≤ boxIou2d (interSym (footprint e) (footprint g)) e g := by
  have hok := interOK_sym e g he hg hre hrg
  have hA : 0 < areaBev e := by rw [areaBev_eq e he]; exact mul_pos he.1 he.2.1
  have hB : 0 < areaBev g := by rw [areaBev_eq g hg]; exact mul_pos hg.1 hg.2.1
  exact ⟨iou3d_bounds _ _ _ _ hok hA he.2.2 hg.2.2, iou3d_le_iouBev _ _ _ _ hok hA hB he.2.2 hg.2.2⟩

/-- the code's two divisions do not raise for two rotated boxes of positive size -/
theorem symIouCode_ok (e g : Box) (he : e.PosSize) (hg : g.PosSize) (hre : e.rot.IsUnit) (hrg : g.rot.IsUnit) :
    iouCode (interSym (footprint e) (footprint g)) (areaBev e) (areaBev g)
        = .ok (boxIou2d (interSym (footprint e) (footprint g)) e g) ∧
    iou3dCode (interSym (footprint e) (footprint g)) (areaBev e) (areaBev g) e.h g.h (boxHeightInter e g)
        = .ok (boxIou3d (interSym (footprint e) (footprint g)) e g) := by
  have hok := interOK_sym e g he hg hre hrg
  have hA : 0 < areaBev e := by rw [areaBev_eq e he]; exact mul_pos he.1 he.2.1
  refine ⟨iouCode_eq hok hA, ?_⟩
  exact iouCode_eq (InterOK.mul hok (heightInter_ok (le_of_lt he.2.2) (le_of_lt hg.2.2))) (mul_pos hA he.2.2)

/-- symmetric in the two boxes: both argument orders, both IoUs (replaces `iou_symm` / `iou3d_symm`, whose
symmetry of the intersection was a hypothesis) -/
theorem symIou_symm (e g : Box) :
    boxIou2d (interSym (footprint e) (footprint g)) e g = boxIou2d (interSym (footprint g) (footprint e)) g e ∧
    boxIou3d (interSym (footprint e) (footprint g)) e g = boxIou3d (interSym (footprint g) (footprint e)) g e := by
  rw [interSym_symm e g]
  refine ⟨iou_comm _ _ _, ?_⟩
  unfold boxIou3d boxHeightInter iou3d
  rw [heightInter_symm, iou_comm]

/-- 1 for identical boxes (an actual rotated box; replaces `iou_self_eq_one`) -/
theorem symIou_self_eq_one (b : Box) (hb : b.PosSize) (hr : b.rot.IsUnit) :
    boxIou2d (interSym (footprint b) (footprint b)) b b = 1 ∧
    boxIou3d (interSym (footprint b) (footprint b)) b b = 1 := by
  have hA : 0 < areaBev b := by rw [areaBev_eq b hb]; exact mul_pos hb.1 hb.2.1
  rw [interSym_footprint_self b hb hr]
  exact ⟨iou_self hA, iou3d_self_eq_one _ _ _ hA hb.2.2⟩

/-- 0 for separated boxes (two actual rotated boxes with a separating edge; replaces `iou_disjoint_eq_zero`) -/
theorem symIou_separated_eq_zero (e g : Box) (he : e.PosSize) (hg : g.PosSize) (hre : e.rot.IsUnit)
    (hrg : g.rot.IsUnit) (h : Separated e g) :
    boxIou2d (interSym (footprint e) (footprint g)) e g = 0 ∧
    boxIou3d (interSym (footprint e) (footprint g)) e g = 0 := by
  rw [interSym_separated e g he hg hre hrg h]
  refine ⟨iou_zero _ _, ?_⟩
  unfold boxIou3d iou3d; rw [zero_mul]; exact iou_zero _ _

/-- unchanged by a common rotation about the ego + translation (replaces `boxIou_move_invariant`, whose
`I' = I` was a hypothesis) -/
theorem symIou_rigid_invariant (m : Motion) (hm : m.rot.IsUnit) (e g : Box) :
    boxIou2d (interSym (footprint (e.move m)) (footprint (g.move m))) (e.move m) (g.move m)
        = boxIou2d (interSym (footprint e) (footprint g)) e g ∧
    boxIou3d (interSym (footprint (e.move m)) (footprint (g.move m))) (e.move m) (g.move m)
        = boxIou3d (interSym (footprint e) (footprint g)) e g :=
  boxIou_move_invariant m e g _ _ (interSym_rigid_invariant m hm e g)

/-! ### the former registered theorems whose symmetry was a hypothesis, under honest names -/

theorem iou_symm_of_inter_symm {α : Type} (inter : α → α → Rat) (area : α → Rat)
    (hs : ∀ p q, inter p q = inter q p) (p q : α) :
    iou (inter p q) (area p) (area q) = iou (inter q p) (area q) (area p) := iou_symm inter area hs p q

theorem iou3d_symm_of_inter_symm (I I' A1 A2 z1 H1 z2 H2 : Rat) (hs : I' = I) :
    iou3d I A1 A2 H1 H2 (heightInter z1 H1 z2 H2) = iou3d I' A2 A1 H2 H1 (heightInter z2 H2 z1 H1) := by
  rw [hs]; exact iou3d_symm I A1 A2 z1 H1 z2 H2

/-! ### non-vacuity and defective-variant examples -/

/-- a square rotated by 45° (vertices (±1,0), (0,±1), area 2) against the axis-aligned square of half-side
3/4 (area 9/4): the exact clipper returns the octagon's area 7/4 in BOTH orders; IoU = 7/10 -/
example :
    let P : List V2 := [⟨1, 0⟩, ⟨0, 1⟩, ⟨-1, 0⟩, ⟨0, -1⟩]
    let Q : List V2 := [⟨3/4, 3/4⟩, ⟨-3/4, 3/4⟩, ⟨-3/4, -3/4⟩, ⟨3/4, -3/4⟩]
    Cvx P ∧ Cvx Q ∧ 4 * interArea P Q = 7 ∧ 4 * interArea Q P = 7 ∧ polyArea P = 2 ∧ 4 * polyArea Q = 9 ∧
      10 * iou (interArea P Q) (polyArea P) (polyArea Q) = 7 := by
  decide +kernel

/-- two rotated BOXES (2×2, one turned by the 3-4-5 rotation): hypotheses of the theorems hold, the clipper is
symmetric on the pair, `I = 10/3`, BEV IoU `5/7` strictly between 0 and 1 -/
example :
    let e : Box := ⟨⟨0, 0, 0⟩, ⟨3/5, 4/5⟩, 2, 2, 1⟩
    let g : Box := ⟨⟨0, 0, 0⟩, ⟨1, 0⟩, 2, 2, 1⟩
    e.rot.IsUnit ∧ g.rot.IsUnit ∧
      interArea (footprint e) (footprint g) = interArea (footprint g) (footprint e) ∧
      3 * interArea (footprint e) (footprint g) = 10 ∧
      7 * boxIou2d (interSym (footprint e) (footprint g)) e g = 5 := by
  unfold Rot2.IsUnit
  decide +kernel

/-- separated rotated boxes, the separating edge owned by the CLIP box (`SepByEdge e g`) -/
example :
    let e : Box := ⟨⟨5, 0, 0⟩, ⟨3/5, 4/5⟩, 2, 2, 1⟩
    let g : Box := ⟨⟨0, 0, 0⟩, ⟨1, 0⟩, 2, 2, 1⟩
    SepByEdge e g ∧ Separated e g ∧ interArea (footprint e) (footprint g) = 0 := by
  decide +kernel

/-- separated rotated boxes where NO edge of the clip box separates, only an edge of the subject (corner
of `g` facing a side of `e`): still `I = 0` -/
example :
    let e : Box := ⟨⟨2, 2, 0⟩, ⟨3/5, 4/5⟩, 2, 2, 1⟩
    let g : Box := ⟨⟨0, 0, 0⟩, ⟨1, 0⟩, 2, 2, 1⟩
    ¬ SepByEdge e g ∧ SepByEdge g e ∧ Separated e g ∧ interArea (footprint e) (footprint g) = 0 := by
  decide +kernel

/-- DEFECTIVE clipper (`clipStepBad`: wrong sign in the inside test of the previous vertex): the statement of
`clip_interArea_le_subject` FAILS for it — subject in convex position of area 32, "intersection" 36 -/
example :
    let P : List V2 := [⟨6, 2⟩, ⟨2, 6⟩, ⟨-2, 2⟩, ⟨2, -2⟩]
    let Q : List V2 := [⟨1, 1⟩, ⟨6, 1⟩, ⟨6, 6⟩, ⟨1, 6⟩]
    Cvx P ∧ ¬ (interAreaBad P Q ≤ polyArea P) ∧ interArea P Q ≤ polyArea P := by
  decide +kernel

end PEval.C06
