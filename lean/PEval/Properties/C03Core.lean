import PEval.Lemmas.PassFailCount
/-!
# C03 — per-frame TP/FP/FN/TN accounting conserves objects

Model: `PEval.Model.PassFail` (`getStatus`, `getPositive`, `getNegative`, `evaluate`, `evaluateFrame`).
The critical predicate is an abstract Boolean per object, so everything below holds for ANY critical
region, any pass/fail thresholds, any label policy (they only enter through `labelOk`, `thr`, `score`)
and any list lengths.

Hypothesis of the ground-truth side (`WF rs gts`, decidable): the ground truths are a *set*
(pairwise different objects, pairwise different under `DynamicObject.__eq__`), and the ground truths
attached to the object results are distinct members of it.  `pipeline_wf` shows the critical filter
preserves it, so it only has to hold for the matcher's output (C01: every ground truth is used at
most once and comes from the list handed to the matcher) - the driver evaluates `MatcherWF` on every
frame the real pipeline produces.  Without "pairwise different under `__eq__`" conservation is false
(`dup_gt_breaks_conservation` below): the excluded point of the quantifier's word *set*.

(This module is the core of the property: all theorems about the stage model, namespace `PEval.C03`.
The composition with the matcher model (`matcher_output_wf`, `pipeline_conservation`, …) is in
`PEval/Properties/Pipeline.lean`; `PEval/Properties/C03.lean` is the root importing both.)
-/
namespace PEval.C03
open PEval.PassFail

/-! ## results = TP + FP -/

/-- Every object result handed to `get_positive_objects` is reported exactly once: the TP list is the
sub-list of results with status (TP, TP), the FP list is - in order - the remaining results, each
either unchanged or re-wrapped without its ground truth (status (FP, TN)); in both cases the estimate
is preserved. Hence `|TP| + |FP| = |results|` and the estimates of TP ++ FP are a permutation of the
estimates of the results. No hypothesis. -/
theorem tp_fp_partition (rs : List Res) :
    (getPositive rs).1 = rs.filter isTP ∧
    (getPositive rs).2 = (rs.filter (fun r => !isTP r)).map fpEntry ∧
    (∀ r, (fpEntry r).est = r.est ∧ ((fpEntry r) = r ∨ (fpEntry r) = r.unmatched)) ∧
    (getPositive rs).1.length + (getPositive rs).2.length = rs.length ∧
    ((getPositive rs).1.map (·.est) ++ (getPositive rs).2.map (·.est)).Perm (rs.map (·.est)) := by
  have hperm := List.filter_append_perm isTP rs
  refine ⟨getPositive_fst rs, getPositive_snd rs, ?_, ?_, ?_⟩
  · intro r
    refine ⟨fpEntry_est r, ?_⟩
    unfold fpEntry; split <;> simp
  · rw [getPositive_fst, getPositive_snd, List.length_map, ← List.length_append]
    exact hperm.length_eq
  · rw [getPositive_fst, getPositive_snd, List.map_map]
    have : (Res.est ∘ fpEntry) = Res.est := by funext r; exact fpEntry_est r
    have h2 : ((fun x : Res => x.est) ∘ fpEntry) = (fun x : Res => x.est) := this
    rw [h2, ← List.map_append]
    exact hperm.map _

/-- with the matcher's guarantee that every estimate occurs once (C01), each surviving result's
estimate is in exactly one of the two lists -/
theorem tp_fp_exactly_one (rs : List Res) (hn : (rs.map (·.est)).Nodup) :
    ∀ r ∈ rs,
      (r.est ∈ (getPositive rs).1.map (·.est) ∧ r.est ∉ (getPositive rs).2.map (·.est)) ∨
      (r.est ∉ (getPositive rs).1.map (·.est) ∧ r.est ∈ (getPositive rs).2.map (·.est)) := by
  intro r hr
  have hp := (tp_fp_partition rs).2.2.2.2
  have hnd : ((getPositive rs).1.map (·.est) ++ (getPositive rs).2.map (·.est)).Nodup :=
    hp.nodup_iff.mpr hn
  have hdis := (List.nodup_append.mp hnd).2.2
  have hin : r.est ∈ (getPositive rs).1.map (·.est) ++ (getPositive rs).2.map (·.est) :=
    hp.mem_iff.mpr (List.mem_map.mpr ⟨r, hr, rfl⟩)
  rcases List.mem_append.mp hin with h | h
  · exact Or.inl ⟨h, fun h' => hdis _ h _ h' rfl⟩
  · exact Or.inr ⟨fun h' => hdis _ h' _ h rfl, h⟩

/-! ## TP soundness -/

/-- A TP has a ground truth that is not FP-labelled, its label is compatible with it under the
configured policy, and either no pass/fail threshold is configured for the ground truth's label or
the plane distance is strictly smaller than that threshold. (That is exactly what the code requires:
with no threshold for the label, label compatibility alone makes a TP.) -/
theorem tp_sound (rs : List Res) (r : Res) (h : r ∈ (getPositive rs).1) :
    ∃ g, r.gt = some g ∧ g.isFP = false ∧ r.labelOk = true ∧
      (r.thr = none ∨ ∃ t v, r.thr = some t ∧ r.score = some v ∧ v < t) := by
  rw [getPositive_fst] at h
  obtain ⟨g, hg, hf, hc⟩ := (isTP_iff r).mp (List.mem_filter.mp h).2
  refine ⟨g, hg, hf, ?_⟩
  unfold isResultCorrect at hc
  rw [hg] at hc
  cases ht : r.thr with
  | none => simp [ht] at hc; exact ⟨hc, Or.inl rfl⟩
  | some t =>
    simp [ht, hf] at hc
    refine ⟨hc.2, Or.inr ⟨t, ?_⟩⟩
    cases hv : r.score with
    | none => simp [isBetterThan, hv] at hc
    | some v => simp [isBetterThan, hv] at hc; exact ⟨v, rfl, rfl, hc.1⟩

/-- conversely, a result satisfying those conditions is a TP (so `tp_sound` is a characterisation) -/
theorem tp_complete (rs : List Res) (r : Res) (hr : r ∈ rs) (g : GT) (hg : r.gt = some g)
    (hf : g.isFP = false) (hl : r.labelOk = true)
    (hs : r.thr = none ∨ ∃ t v, r.thr = some t ∧ r.score = some v ∧ v < t) :
    r ∈ (getPositive rs).1 := by
  rw [getPositive_fst]
  refine List.mem_filter.mpr ⟨hr, (isTP_iff r).mpr ⟨g, hg, hf, ?_⟩⟩
  unfold isResultCorrect
  rw [hg]
  rcases hs with h | ⟨t, v, ht, hv, hlt⟩
  · simp [h, hl]
  · simp [ht, hv, hf, hl, isBetterThan, hlt]

/-! ## every critical ground truth is accounted for exactly once -/

/-- The ground truths of the TP results, the FN list, the TN list and the ground truths of the
matched-FP results (FP results still carrying their FP-labelled ground truth) are together a
permutation of the ground-truth list: every ground truth occurs in exactly one of the four places,
exactly once. -/
theorem gt_accounting_perm (rs : List Res) (gts : List GT) (h : WF rs gts) :
    (gtsOf (getPositive rs).1 ++ ((getNegative gts rs).2 ++ ((getNegative gts rs).1 ++
      gtsOf (matchedFP (getPositive rs).2)))).Perm gts := by
  rw [matchedFP_getPositive, getPositive_fst, getNegative_eq, isTP_eq_gtStatusIs]
  have h1 := (List.filter_append_perm (fun g => inNonCand g (gtsOf rs)) gts)
  have h2 := (filter_inNonCand_perm h).trans (gtsOf_status_perm rs)
  have h3 := List.filter_append_perm (fun g : GT => g.isFP)
    (gts.filter (fun g => !inNonCand g (gtsOf rs)))
  rw [List.filter_filter, List.filter_filter] at h3
  rw [List.perm_iff_count]
  intro a
  have c1 := h1.count_eq a
  have c2 := h2.count_eq a
  have c3 := h3.count_eq a
  simp only [List.count_append] at c1 c2 c3 ⊢
  have e1 : List.filter (fun g => !inNonCand g (gtsOf rs) && g.isFP) gts
      = List.filter (fun a => a.isFP && !inNonCand a (gtsOf rs)) gts := by
    congr 1; funext g; exact Bool.and_comm _ _
  have e2 : List.filter (fun g => !inNonCand g (gtsOf rs) && !g.isFP) gts
      = List.filter (fun a => (!a.isFP) && !inNonCand a (gtsOf rs)) gts := by
    congr 1; funext g; exact Bool.and_comm _ _
  rw [e1, e2]
  omega

/-- the FN list holds only ordinary ground truths, the TN list only FP-labelled ones; TP results have
ordinary ground truths, matched-FP results FP-labelled ones (no hypothesis) -/
theorem list_label_kinds (rs : List Res) (gts : List GT) :
    (∀ g ∈ gtsOf (getPositive rs).1, g.isFP = false) ∧
    (∀ g ∈ (getNegative gts rs).2, g.isFP = false) ∧
    (∀ g ∈ (getNegative gts rs).1, g.isFP = true) ∧
    (∀ g ∈ gtsOf (matchedFP (getPositive rs).2), g.isFP = true) := by
  rw [matchedFP_getPositive, getPositive_fst, getNegative_eq, isTP_eq_gtStatusIs]
  refine ⟨?_, ?_, ?_, ?_⟩
  · intro g hg
    obtain ⟨r, _, hp, hrg⟩ := mem_gtsOf_filter.mp hg
    exact (status_isFP hrg).1 hp
  · intro g hg
    rcases List.mem_append.mp hg with hg | hg
    · obtain ⟨r, _, hp, hrg⟩ := mem_gtsOf_filter.mp hg
      exact (status_isFP hrg).2.1 hp
    · have := (List.mem_filter.mp hg).2; simp at this; exact this.2
  · intro g hg
    rcases List.mem_append.mp hg with hg | hg
    · obtain ⟨r, _, hp, hrg⟩ := mem_gtsOf_filter.mp hg
      exact (status_isFP hrg).2.2.1 hp
    · have := (List.mem_filter.mp hg).2; simp at this; exact this.2
  · intro g hg
    obtain ⟨r, _, hp, hrg⟩ := mem_gtsOf_filter.mp hg
    exact (status_isFP hrg).2.2.2 hp

/-- every TP and every matched FP carries a ground truth -/
theorem gtsOf_length_tp (rs : List Res) :
    (gtsOf (getPositive rs).1).length = (getPositive rs).1.length ∧
    (gtsOf (matchedFP (getPositive rs).2)).length = (matchedFP (getPositive rs).2).length := by
  have key : ∀ l : List Res, (∀ r ∈ l, r.gt.isSome = true) → (gtsOf l).length = l.length := by
    intro l
    induction l with
    | nil => intro _; rfl
    | cons r l ih =>
      intro hl
      have hr := hl r List.mem_cons_self
      cases hg : r.gt with
      | none => simp [hg] at hr
      | some g =>
        have := ih (fun x hx => hl x (List.mem_cons_of_mem _ hx))
        simp [gtsOf, hg] at this ⊢; exact this
  constructor
  · apply key
    intro r hr
    rw [getPositive_fst] at hr
    obtain ⟨g, hg, _⟩ := (isTP_iff r).mp (List.mem_filter.mp hr).2
    simp [hg]
  · apply key
    intro r hr
    have := (List.mem_filter.mp hr).2
    unfold Res.hasFPGt at this
    cases hg : r.gt with
    | none => simp [hg] at this
    | some g => simp

/-- ordinary critical ground truths = TP + FN -/
theorem gt_conservation_ordinary (rs : List Res) (gts : List GT) (h : WF rs gts) :
    (gts.filter (fun g => !g.isFP)).length = (getPositive rs).1.length + (getNegative gts rs).2.length := by
  have hp := (gt_accounting_perm rs gts h).countP_eq (fun g => !g.isFP)
  obtain ⟨k1, k2, k3, k4⟩ := list_label_kinds rs gts
  rw [← List.countP_eq_length_filter, ← hp]
  simp only [List.countP_append]
  have a1 : List.countP (fun g => !g.isFP) (gtsOf (getPositive rs).1) = (gtsOf (getPositive rs).1).length :=
    List.countP_eq_length.mpr (fun g hg => by simp [k1 g hg])
  have a2 : List.countP (fun g => !g.isFP) (getNegative gts rs).2 = (getNegative gts rs).2.length :=
    List.countP_eq_length.mpr (fun g hg => by simp [k2 g hg])
  have a3 : List.countP (fun g => !g.isFP) (getNegative gts rs).1 = 0 :=
    List.countP_eq_zero.mpr (fun g hg => by simp [k3 g hg])
  have a4 : List.countP (fun g => !g.isFP) (gtsOf (matchedFP (getPositive rs).2)) = 0 :=
    List.countP_eq_zero.mpr (fun g hg => by simp [k4 g hg])
  rw [a1, a2, a3, a4, (gtsOf_length_tp rs).1]
  omega

/-- FP-labelled critical ground truths = TN + matched FP -/
theorem gt_conservation_fp_label (rs : List Res) (gts : List GT) (h : WF rs gts) :
    (gts.filter (fun g => g.isFP)).length =
      (getNegative gts rs).1.length + (matchedFP (getPositive rs).2).length := by
  have hp := (gt_accounting_perm rs gts h).countP_eq (fun g => g.isFP)
  obtain ⟨k1, k2, k3, k4⟩ := list_label_kinds rs gts
  rw [← List.countP_eq_length_filter, ← hp]
  simp only [List.countP_append]
  have a1 : List.countP (fun g => g.isFP) (gtsOf (getPositive rs).1) = 0 :=
    List.countP_eq_zero.mpr (fun g hg => by simp [k1 g hg])
  have a2 : List.countP (fun g => g.isFP) (getNegative gts rs).2 = 0 :=
    List.countP_eq_zero.mpr (fun g hg => by simp [k2 g hg])
  have a3 : List.countP (fun g => g.isFP) (getNegative gts rs).1 = (getNegative gts rs).1.length :=
    List.countP_eq_length.mpr (fun g hg => by simp [k3 g hg])
  have a4 : List.countP (fun g => g.isFP) (gtsOf (matchedFP (getPositive rs).2))
      = (gtsOf (matchedFP (getPositive rs).2)).length :=
    List.countP_eq_length.mpr (fun g hg => by simp [k4 g hg])
  rw [a1, a2, a3, a4, (gtsOf_length_tp rs).2]
  omega

/-! ## the critical filter: nothing outside the critical region is counted -/

/-- After `evaluate_frame`, every estimate in the TP and FP lists satisfies the critical predicate,
and so does every ground truth attached to a TP/FP result and every ground truth in the TN and FN
lists; the stored `object_results` / `frame_ground_truth.objects` are the filtered lists.
(The predicate is evaluated on the ego-relative position by the harness for either frame id.) -/
theorem critical_only (f : Frame) :
    (∀ r ∈ (evaluateFrame f).tp, r.estCrit = true ∧ ∀ g, r.gt = some g → g.crit = true) ∧
    (∀ r ∈ (evaluateFrame f).fp, r.estCrit = true ∧ ∀ g, r.gt = some g → g.crit = true) ∧
    (∀ g ∈ (evaluateFrame f).tn, g.crit = true) ∧
    (∀ g ∈ (evaluateFrame f).fn, g.crit = true) ∧
    (∀ r ∈ (evaluateFrame f).results, r ∈ f.results ∧ resSurvives r = true) ∧
    (∀ g ∈ (evaluateFrame f).gts, g ∈ f.gts ∧ g.crit = true) := by
  have surv : ∀ r ∈ criticalResults f.results,
      r.estCrit = true ∧ ∀ g, r.gt = some g → g.crit = true := by
    intro r hr
    have := (List.mem_filter.mp hr).2
    unfold resSurvives at this
    cases hg : r.gt with
    | none => simp [hg] at this; exact ⟨this, fun g hg' => by cases hg'⟩
    | some g => simp [hg] at this; exact ⟨this.1, fun g' hg' => by cases hg'; exact this.2⟩
  have fromRes : ∀ (p : Res → Bool) g, g ∈ gtsOf ((criticalResults f.results).filter p) → g.crit = true := by
    intro p g hg
    obtain ⟨r, hr, _, hrg⟩ := mem_gtsOf_filter.mp hg
    exact (surv r hr).2 g hrg
  refine ⟨?_, ?_, ?_, ?_, ?_, ?_⟩
  · intro r hr
    simp only [evaluateFrame, evaluate, getPositive_fst] at hr
    exact surv r (List.mem_filter.mp hr).1
  · intro r hr
    simp only [evaluateFrame, evaluate, getPositive_snd] at hr
    obtain ⟨r0, hr0, rfl⟩ := List.mem_map.mp hr
    have h0 := surv r0 (List.mem_filter.mp hr0).1
    refine ⟨by rw [fpEntry_estCrit]; exact h0.1, ?_⟩
    intro g hg
    rcases fpEntry_gt r0 with e | e
    · rw [e] at hg; exact h0.2 g hg
    · rw [e] at hg; cases hg
  · intro g hg
    simp only [evaluateFrame, evaluate, getNegative_eq] at hg
    rcases List.mem_append.mp hg with hg | hg
    · exact fromRes _ g hg
    · have := (List.mem_filter.mp hg).1
      exact (List.mem_filter.mp this).2
  · intro g hg
    simp only [evaluateFrame, evaluate, getNegative_eq] at hg
    rcases List.mem_append.mp hg with hg | hg
    · exact fromRes _ g hg
    · have := (List.mem_filter.mp hg).1
      exact (List.mem_filter.mp this).2
  · intro r hr
    exact List.mem_filter.mp hr
  · intro g hg
    exact List.mem_filter.mp hg

/-- the critical filter preserves the matcher's well-formedness: the surviving results' ground
truths are distinct members of the critical ground-truth list, which is still a set -/
theorem pipeline_wf (f : Frame) (h : MatcherWF f) :
    WF (criticalResults f.results) (criticalGts f.gts) := by
  obtain ⟨hd, hn, hsub⟩ := h
  refine ⟨List.Pairwise.filter _ hd, ?_, ?_⟩
  · exact List.Nodup.sublist (gtsOf_filter_sublist _ _) hn
  · intro g hg
    obtain ⟨r, hr, hs, hrg⟩ := mem_gtsOf_filter.mp hg
    refine List.mem_filter.mpr ⟨hsub g (mem_gtsOf.mpr ⟨r, hr, hrg⟩), ?_⟩
    unfold resSurvives at hs
    simp [hrg] at hs
    exact hs.2

/-- conservation for a whole evaluated frame, from the matcher's guarantee alone -/
theorem frame_conservation (f : Frame) (h : MatcherWF f) :
    ((evaluateFrame f).gts.filter (fun g => !g.isFP)).length
        = (evaluateFrame f).tp.length + (evaluateFrame f).fn.length ∧
    ((evaluateFrame f).gts.filter (fun g => g.isFP)).length
        = (evaluateFrame f).tn.length + (matchedFP (evaluateFrame f).fp).length ∧
    (evaluateFrame f).tp.length + (evaluateFrame f).fp.length = (evaluateFrame f).results.length :=
  ⟨gt_conservation_ordinary _ _ (pipeline_wf f h), gt_conservation_fp_label _ _ (pipeline_wf f h),
   (tp_fp_partition _).2.2.2.1⟩

/-- sequences of frames: every frame of a history conserves objects -/
theorem history_conservation (fs : List Frame) (h : ∀ f ∈ fs, MatcherWF f) :
    ∀ p ∈ evaluateHistory fs,
      (p.gts.filter (fun g => !g.isFP)).length = p.tp.length + p.fn.length ∧
      (p.gts.filter (fun g => g.isFP)).length = p.tn.length + (matchedFP p.fp).length ∧
      p.tp.length + p.fp.length = p.results.length := by
  intro p hp
  obtain ⟨f, hf, rfl⟩ := List.mem_map.mp hp
  exact frame_conservation f (h f hf)

/-! ## success / fail counters -/

theorem num_success_def (p : PassFail) : numSuccess p = p.tp.length + p.tn.length := rfl
theorem num_fail_def (p : PassFail) : numFail p = p.fp.length + p.fn.length := rfl

/-- successes and failures together count every result and every ground truth, the ground truths of
TP and matched-FP results being counted on both sides -/
theorem num_total (f : Frame) (h : MatcherWF f) :
    numSuccess (evaluateFrame f) + numFail (evaluateFrame f)
        + (evaluateFrame f).tp.length + (matchedFP (evaluateFrame f).fp).length
      = (evaluateFrame f).results.length + (evaluateFrame f).gts.length := by
  have hl := (gt_accounting_perm _ _ (pipeline_wf f h)).length_eq
  have ht := (tp_fp_partition (criticalResults f.results)).2.2.2.1
  have hg := gtsOf_length_tp (criticalResults f.results)
  simp only [List.length_append] at hl
  simp only [numSuccess, numFail, evaluateFrame, evaluate]
  omega

/-! ## non-vacuity: concrete instances of the hypotheses -/

section Examples

def g1 : GT := ⟨1, false, true, 1⟩   -- ordinary, critical, matched, TP
def g2 : GT := ⟨2, false, true, 2⟩   -- ordinary, critical, matched with a bad score: FN
def g3 : GT := ⟨3, true, true, 3⟩    -- FP-labelled, matched, no threshold: TN
def g4 : GT := ⟨4, true, true, 4⟩    -- FP-labelled, matched within the threshold: matched FP
def g5 : GT := ⟨5, false, true, 5⟩   -- ordinary, unmatched: FN
def g6 : GT := ⟨6, true, true, 6⟩    -- FP-labelled, unmatched: TN
def g7 : GT := ⟨7, false, false, 7⟩  -- ordinary, outside the critical region
def exFrame : Frame :=
  { results := [⟨10, true, some g1, true, some 2, some 1⟩, ⟨11, true, some g2, true, some 2, some 3⟩,
                ⟨12, true, some g3, true, none, some 1⟩, ⟨13, true, some g4, true, some 2, some 1⟩,
                ⟨14, true, none, false, none, none⟩, ⟨15, false, none, false, none, none⟩,
                ⟨16, true, some g7, true, some 2, some 1⟩],
    gts := [g1, g2, g3, g4, g5, g6, g7] }

example : MatcherWF exFrame := by decide +kernel
example : ((evaluateFrame exFrame).tp.map (·.est), (evaluateFrame exFrame).fp.map (·.est),
           (evaluateFrame exFrame).tn.map (·.id), (evaluateFrame exFrame).fn.map (·.id))
    = ([10], [11, 12, 13, 14], [3, 6], [2, 5]) := by decide +kernel
example : numSuccess (evaluateFrame exFrame) = 3 ∧ numFail (evaluateFrame exFrame) = 6 := by
  decide +kernel

/-- the excluded point: two ground truths equal under `__eq__` (same `eqKey`), one matched. The twin
is skipped by `in non_candidates`: 2 ordinary ground truths, 1 TP, 0 FN. -/
theorem dup_gt_breaks_conservation :
    let a : GT := ⟨1, false, true, 7⟩
    let b : GT := ⟨2, false, true, 7⟩
    let rs : List Res := [⟨10, true, some a, true, none, none⟩]
    ¬ WF rs [a, b] ∧ ([a, b].filter (fun g => !g.isFP)).length = 2 ∧
      (getPositive rs).1.length = 1 ∧ (getNegative [a, b] rs).2.length = 0 := by
  decide +kernel

end Examples

end PEval.C03
